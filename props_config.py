"""Per-property configuration of run_check.py: budgets, which predicates decide the property,
the non-triviality rule printed into the evidence, assumptions."""

COMMON_ASSUME = [
    "Theorems are about the hand-written Lean model; the model is tied to /repo by this run's differential check "
    "(model's Float reading vs the real library on the same inputs, discrete outcomes exact, continuous 1e-9).",
    "[R] theorems speak about exact real arithmetic; IEEE rounding is sampled by the run, not proved.",
]

def cfg(nq, nt, preds, rule, assume=None, tb=None):
    return {"n_quick": nq, "n_thorough": nt, "predicates": preds, "rule": rule,
            "assumptions": COMMON_ASSUME + (assume or []), "trusted_base": tb or []}

PROPS = {
    "C03": cfg(20000, 1000000, ["C03."],
               "robot zoo (11 presets; random signs/offsets; random geometry with b!=0, a2!=0, negative a1, zero lengths) x "
               "joint vectors with |q| up to pi, 2pi, 10, 100, 1e4; every 5th case wrapped in tool/base/frame/parallelogram; "
               "every 4th case a prefix-dependence pair. distinct = distinct case lines (hash); non-trivial = every case "
               "(all have finite joints and six link poses)"),
    "C01": cfg(4000, 400000, ["C01."],
               "queries = robot zoo x pose families (FK of random joints 50%, near wrist singularity at graded distances, elbow "
               "stretched/folded, wrist centre on the J1 axis, workspace boundary +-1e-7, far outside, inner zone, NaN/inf "
               "components) x previous-vector families (origin, origin+turns, origin+small, sentinel, far, uniform in "
               "[-2pi,2pi] with NaN entries) x four entry points (+ hook-level inverse_intern/inverse_intern_5_dof) x "
               "bare / tool-base-frame stacks to depth 3 (axial stacks for the 5-DOF entry points) x dof 5/6. "
               "non-trivial = the implementation returned at least one solution"),
    "C06": cfg(1500, 150000, ["C06.", "C01.fk", "C01.finite"],
               "robot zoo with dof in {5,6} (5-DOF robots have sign6 = 0) x pose families x J6 in {0,+-1,+-10,1e-300,2.5} / previous "
               "vectors with J6 in {0,+-2.5,6,0.3} x four entry points x bare / axial tool-base-frame stacks x with and without "
               "limits; hook-level inverse_intern_5_dof. non-trivial = at least one solution returned"),
    "C07": cfg(20000, 200000, ["C07."],
               "exhaustive lattice (quick 15 degrees, thorough 5 degrees) over from,to,angle in [-720,720] degrees through the three "
               "constructors (new, from_degrees, new+update_range), six (from,to) pairs per line against every lattice angle; plus "
               "random reals incl. from==to, spans >= 2pi, narrow ranges, whole-turn shifted copies of an angle; compliant, filter "
               "and hook-level inside_bounds/centres compared EXACTLY with the model; arc oracle skipped within 1e-9 of an arc end. "
               "non-trivial = every line (each carries >= 120 per-joint verdicts; tags checked/accepted give the split)"),
    "C08": cfg(1500, 150000, ["C08."],
               "queries as for C01 with a constraint set always attached (families: wide, narrow window around the originating joints, "
               "any order in [-2pi,2pi], some joints from==to, wrapping) x sorting weights {0,1,0.3,0.5} x dof 5/6 x four entry "
               "points, each run with and without the limits on the same query (cmp2) x wrapper stacks to depth 3 incl. a "
               "parallelogram on top; constraints() of every stack. non-trivial = the constrained run returned a solution"),
}
