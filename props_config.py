"""Per-property configuration of run_check.py: budgets, which predicates decide the property,
the non-triviality rule printed into the evidence, assumptions."""

COMMON_ASSUME = [
    "Theorems are about the hand-written Lean model; the model is tied to /repo by this run's differential check "
    "(model's Float reading vs the real library on the same inputs, discrete outcomes exact, continuous 1e-9).",
    "[R] theorems speak about exact real arithmetic; IEEE rounding is sampled by the run, not proved.",
]

def cfg(nq, nt, preds, rule, assume=None, tb=None):
    return {"n_quick": nq, "n_thorough": nt, "predicates": preds, "rule": rule,
            "assumptions": COMMON_ASSUME + (assume or []), "trusted_base": tb or []}

# properties whose theorems rest on the closed-form formulas of kinematics_impl.rs also re-check the source tie
SRC_TIED = ["C01", "C02", "C03", "C04", "C05", "C06", "C07", "C08", "C09", "C10", "C11", "C14", "C15", "C16", "C17", "C18"]

PROPS = {
    "C03": cfg(20000, 1000000, ["C03.", "C09.shape_forward"],
               "robot zoo (11 presets; random signs/offsets; random geometry with b!=0, a2!=0, negative a1, zero lengths) x "
               "joint vectors with |q| up to pi, 2pi, 10, 100, 1e4; every 5th case wrapped in tool/base/frame/parallelogram; "
               "every 4th case a prefix-dependence pair. distinct = distinct case lines (hash); non-trivial = every case "
               "(all have finite joints and six link poses)"),
    "C01": cfg(4000, 400000, ["C01."],
               "queries = robot zoo x pose families (FK of random joints 50%, near wrist singularity at graded distances, elbow "
               "stretched/folded, wrist centre on the J1 axis, workspace boundary +-1e-7, far outside, inner zone, NaN/inf "
               "components) x previous-vector families (origin, origin+turns, origin+small, sentinel, far, uniform in "
               "[-2pi,2pi] with NaN entries) x four entry points (+ hook-level inverse_intern/inverse_intern_5_dof) x "
               "bare / tool-base-frame stacks to depth 3 (axial stacks for the 5-DOF entry points) x dof 5/6. "
               "non-trivial = the implementation returned at least one solution"),
    "C06": cfg(1500, 150000, ["C06.", "C01.fk", "C01.finite", "C11.exact_filter"],
               "robot zoo with dof in {5,6} (5-DOF robots have sign6 = 0) x pose families x J6 in {0,+-1,+-10,1e-300,2.5} / previous "
               "vectors with J6 in {0,+-2.5,6,0.3} x four entry points x bare / axial tool-base-frame stacks x with and without "
               "limits; hook-level inverse_intern_5_dof. non-trivial = at least one solution returned"),
    "C07": cfg(20000, 200000, ["C07.", "C20.limits", "C20.unconstrained", "C20.rejects"],
               "exhaustive lattice (quick 15 degrees, thorough 5 degrees) over from,to,angle in [-720,720] degrees through the three "
               "constructors (new, from_degrees, new+update_range), six (from,to) pairs per line against every lattice angle; plus "
               "random reals incl. from==to, spans >= 2pi, narrow ranges, whole-turn shifted copies of an angle; compliant, filter "
               "and hook-level inside_bounds/centres compared EXACTLY with the model; arc oracle skipped within 1e-9 of an arc end. "
               "non-trivial = every line (each carries >= 120 per-joint verdicts; tags checked/accepted give the split)"),
    "C08": cfg(1500, 150000, ["C08."],
               "queries as for C01 with a constraint set always attached (families: wide, narrow window around the originating joints, "
               "any order in [-2pi,2pi], some joints from==to, wrapping) x sorting weights {0,1,0.3,0.5} x dof 5/6 x four entry "
               "points, each run with and without the limits on the same query (cmp2) x wrapper stacks to depth 3 incl. a "
               "parallelogram on top; constraints() of every stack. non-trivial = the constrained run returned a solution"),
    "C04": cfg(1500, 150000, ["C04.", "C17.sorted", "C11.exact_filter", "C05.first_eq_prev", "C05.equal_shift"],
               "hook-level normalize_near / calculate_distance on adversarial pairs (+-pi, +-2pi, signed zero, ties, far previous); "
               "queries (zoo x pose families x constraint families x sorting weights {0,1,0.3,0.5}) x previous families (origin, "
               "origin+turns, origin+small, sentinel, far, uniform [-2pi,2pi]) through inverse_continuing, inverse+inverse_continuing "
               "on the same query (superset) and inverse_continuing_5dof; dense random-walk trajectories of 200 steps where each "
               "call's previous is the preceding first answer; Frame::forward_transformed (ordered by closeness to the given previous joints). "
               "non-trivial = at least one solution returned"),
    "C02": dict(cfg(3000, 300000, ["C02.", "C06.origin", "C06.reachable_nonempty", "C01.fk"],
               "robot zoo x random joint vectors kept away from wrist/elbow/shoulder singularities by margins {1e-3,1e-2,1e-1} on "
               "|sin theta5|, |sin(theta3+psi3)| and |cx1| (computed by the generator and re-checked by the driver's oracle); for "
               "each: answers of inverse(forward(q)) and the size of the answer set of the pose of every returned solution; every third "
               "case also the private inverse_intern (hook); every fourth also inverse_5dof (the duplicated position-only copy of the "
               "formulas; the originating J1..J5 must come back); geometry incl. negative c1/c2/c3/c4. non-trivial = at least one answer"), extra_modules=["C02b"]),
    "C05": cfg(1500, 100000, ["C05."],
               "hook-level is_close_to_multiple_of_pi / are_angles_close on the grid k*pi +- {0, thr/2, thr(1+-1e-6), 2thr, 1e-9, 0.1}, "
               "k in -4..4; kinematic_singularity through wrapper stacks on robots with J5 offsets and negative J5 sign at the same "
               "grid in theta-space and at random joints (oracle: angle between the joint-4 and joint-6 axes of the independent link "
               "chain); inverse_continuing at exactly singular poses (theta5 = 0) on well-conditioned postures with the previous joints "
               "realising the pose / having another J4-J6 split. non-trivial = every hook/sing line; inverse lines with >= 1 answer"),
    "C09": cfg(1300, 60000, ["C09.", "C01.fk", "C01.finite", "C03.fwd_eq_chain_ref", "C03.links_eq_ref", "C04.", "C06.j6", "C11.exact_filter"],
               "EXHAUSTIVE delegation matrix: every order of tool/base/frame to depth 2 (quick, 13 stack shapes) resp. 3 (thorough, 40 "
               "shapes) x general and axial isometries x {forward+links, inverse, inverse_continuing, inverse_5dof, "
               "inverse_continuing_5dof (axial), kinematic_singularity, constraints()} x robot zoo, with and without limits; "
               "LinearAxis/Gantry forward incl. invalid axis indices. non-trivial = link/forward lines and inverse lines with >= 1 answer"),
    "C16": cfg(1500, 90000, ["C16.", "C01.fk", "C01.finite", "C03.fwd_eq_chain_ref", "C03.links_eq_ref"],
               "all 30 ordered (driven, coupled) index pairs x scalings {+-1, +-2, 0.5, 0, random in [-2,2]} x robot zoo x "
               "{forward+links, inverse, inverse_continuing, 5-DOF variants} x nestings P, P(T), T(B(P)), P(P). "
               "non-trivial = link/forward lines and inverse lines with >= 1 answer"),
    "C10": cfg(300, 20000, ["C10."],
               "scenes = preset robot (bare or on a base transform) at a random joint vector x six link meshes (boxes of 8 or 14 vertices, "
               "two-triangle plates of 6 vertices) x optional tool and base bodies x 0-3 environment objects placed 0.03..1 m from "
               "link origins (incl. large plates) x safety tables (touch-only, positive distances, per-pair overrides with "
               "NEVER_COLLIDES/0/positive/below -1 on any pair incl. tool, base, environment and pairs naming J1, both key orders) "
               "x three modes; every scene run under rayon pools of 1, 2, 4, 16 threads; the oracle table (intersects, distance, "
               "AABB pre-filter) is computed by direct parry3d calls on every pair of bodies. non-trivial = at least one colliding pair"),
    "C11": cfg(200, 10000, ["C11.", "C09.shape_forward", "C10.all_exact", "C10.first_subset", "C10.collides_iff", "C10.nocheck_empty"],
               "robots with shape through both constructors (new with both flag values, with_safety over the C10 safety families) x "
               "random base and tool transforms, limits and 0-3 obstacles near the links x four entry points, each with the inner "
               "stack's answers, the robot's own verdict per answer and the wrapper's answers; every second case also forward, link "
               "poses, limits, singularity and positioned_robot against the inner stack; plus C10-style scenes with the brute-force "
               "oracle table (the verdicts 'not reported colliding' rests on), incl. the directed family 'bodies that really touch, "
               "exempted pair by pair, decoy keys naming J6 instead of the tool'. non-trivial = the wrapper returned >= 1 answer"),
    "C14": cfg(300, 10000, ["C14."],
               "collision-free initial vectors in C10-style scenes (with and without base/tool, limits on 40% of robots) x from/to at "
               "0.05..1.8 rad from the initial value x rayon pools 1,2,4,16; per candidate the compliance verdict, the full "
               "collides() verdict of the same robot and the oracle table. non-trivial = at least one candidate offered"),
    "C15": cfg(1500, 100000, ["C15."],
               "robot zoo, bare / tool-base-frame stacks / parallelogram on top x random joint vectors (every sixth placed just below a "
               "sign switch of the forward quaternion) x differencing steps {1e-7,1e-6,1e-5}; the matrix is read through "
               "torques_from_vector(e_i); one random twist/wrench through all five entry points; condition number by SVD. "
               "non-trivial = every case"),
    "C17": cfg(1000, 300000, ["C17."],
               "point triples at scales 1e-3..1e3, up to 1e3 from the origin x random rigid motions (50%), nearly collinear sources "
               "(sine 1e-1..1e-6), exactly collinear sources/targets on a binary grid, one image moved 1..9 mm along an edge (kept 2% "
               "from the 5 mm guard); Frame::translation; forward_transformed on the robot zoo. non-trivial = every case"),
    "C18": cfg(1000, 20000, ["C18."],
               "limit sets per joint in [-2pi,2pi]: any order, wrap-around with both limits positive / both negative / straddling zero, "
               "some joints from==to, ordinary, more than a turn apart, special values; 200 (quick) or 1000 draws of the real "
               "thread-local generator per set. non-trivial = every set (each line carries all draws)"),
    "C13": cfg(120, 3000, ["C13."],
               "hook level: dual_rrt_connect itself with a seeded sample stream, 0-3 box obstacles in joint space as the collision "
               "predicate, step sizes {0.05,0.1,0.3,3deg}, budgets {1,3,20,200}, cancellation raised by the k-th sampling call (k=0: "
               "before planning); the model replays the whole run (tree growth, path) and must agree. API level: plan_rrt on robots "
               "with shape (C11 scenes, obstacles around the half-way configuration, every second robot with large safety distances), "
               "per-node collides()/compliant() of the same robot, cancellation before the call and from another thread during it. "
               "non-trivial = a path was returned"),
    "C19": cfg(1000, 100000, ["C19."],
               "writer->reader round trips on the zoo with integral-valued lengths (0, 1, -2, k/8), tiny and negative values, dof 5/6, "
               "zero sign for J6, offsets incl. 0, +-pi/2, 1e-4; grammar-generated files in the documented format (integers/reals/"
               "exponent notation, offsets as radians / deg(x) bare or quoted / integers, flow and block arrays, 5 or 6 entries, dof at "
               "top level / nested / absent, comments, missing arrays) with the values they must parse to; malformed input: 19 "
               "structured damages (empty file, comments only, scalar/list documents, wrong lengths, bad deg(), wrong types, .inf/.nan, "
               "second document, dof: 300) and byte-level damage / random bytes. Each line carries yaml-rust2's own tree of the text. "
               "non-trivial = the reader returned Ok"),
    "C20": cfg(1000, 50000, ["C20."],
               "descriptions generated from OPW parameters (zoo) in the supported layouts (c2 on z or x, b on joint 3, c3 on joint 4 or "
               "5 along x/y/z, c4 on x or z) x axis signs x limits (absent, radians, ${radians(deg)}) x shuffled declaration order x "
               "nesting inside other elements x extra link elements x identical second copy x name decorations (prefix macros, case, "
               "underscores, punctuation) or explicit joint-name lists; derived error cases (missing joint, conflicting duplicate, "
               "truncated, non-numeric, empty, wrong value count); 2n generated names through the private preprocess_joint_name (hook). "
               "Each line carries sxd-document's own DOM. non-trivial = extraction returned Ok"),
    "C12": cfg(40, 1500, ["C12."],
               "hook level: with_intermediate_poses on random land/steps/park with step sizes {0.01,0.02,0.05,0.5} m and {1,3,28} deg, "
               "compared exactly with the model. API level: Cartesian::plan on robots with shape in four obstacle layouts (free, an "
               "object next to the stroke, a thin plate across it) x strokes of 1-3 steps and 3-25 cm x cost limits {3,6,17} deg x "
               "recursion depths {0,2,6,8} x include_linear_interpolation on/off x rayon pools 1,2,4,16; per returned waypoint the same "
               "robot's collides() and compliant(); every second problem re-planned under pools 1,3,16. The Cartesian part of each "
               "returned plan is recomputed by the model from the landing solution. Fourth layout: a cube where the elbow of the START branch "
               "passes mid-stroke (that branch fails its final collision check, another one has to be found); after every failed plan "
               "the harness looks for a landing branch that plans on its own and is reachable by the RRT (each twice) and re-plans three "
               "times (predicate finds_existing_branch). non-trivial = a plan was returned"),
}

for _p, _m in [("C01", "C01c"), ("C02", "C02c"), ("C02", "C02d"), ("C02", "C02e"), ("C02", "Presets"), ("C06", "C02d"), ("C07", "TieCons"), ("C04", "TieCons"), ("C08", "TieCons"), ("C18", "TieCons"), ("C13", "TieCons"), ("C12", "TieCart"), ("C13", "C13b"), ("C14", "TieCons"), ("C10", "TieColl"), ("C10", "C10b"), ("C11", "TieColl"), ("C14", "TieColl"), ("C04", "C04b"), ("C06", "C06b"), ("C08", "C08b"), ("C15", "C15b"), ("C15", "C15c")]:
    PROPS[_p] = dict(PROPS[_p], extra_modules=list(PROPS[_p].get("extra_modules", [])) + [_m])

for _p in SRC_TIED:
    PROPS[_p] = dict(PROPS[_p], extra_modules=list(PROPS[_p].get("extra_modules", [])) + ["Tie"])
