#!/usr/bin/env python3
"""Translator for the entry-point glue of `impl Kinematics for OPWKinematics` (kinematics_impl.rs) into
lean/OpwVerif/Generated/SrcOpw.lean: `inverse`, `inverse_5dof`, `inverse_continuing_5dof`, the head of `inverse_continuing`
(5-DOF dispatch, CONSTRAINT_CENTERED sentinel) and its tail (normalise every answer next to `previous`, sort, filter), and the
private helpers `filter_constraints_compliant`, `constraints_compliant`, `constraint_centers`; `Constraints::compliant` and
`Constraints::filter` (constraints.rs).

What is read is the ORDER and the ARGUMENTS of the steps (which solver with which J6, which reference vector, normalise before
sort before filter, what the sentinel resolves to); the steps themselves are the model's functions, each tied to the source by
its own translator (inverse_intern*, normalize_near, the sort comparator, inside_bounds, compute_centers).  Anything outside
the small statement language below raises TranslateError (a broken tie, never skipped)."""
import re, sys

from rs2lean import TranslateError
from rs2lean_ctl import tokenize, fn_body


def flat_of(body):
    return " ".join(re.sub(r"//[^\n]*", "", body).split())


class X:
    """expressions: self.METHOD(args) | IDENT | &IDENT | &mut IDENT | NUMBER | IDENT[5]"""
    METHODS = {
        "inverse_5dof": ("sols", "inverse5dofSrc k"),
        "inverse_continuing_5dof": ("sols", "inverseContinuing5dofSrc k"),
        "inverse_intern": ("sols", "inverseIntern k.p"),
        "inverse_intern_5_dof": ("sols", "inverseIntern5 k.p"),
        "filter_constraints_compliant": ("sols", "filterCompliantSrc k"),
        "constraint_centers": ("joints", "constraintCentersSrc k"),
    }

    def __init__(self, toks, env):
        self.t, self.i, self.env = toks, 0, env

    def peek(self, k=0):
        return self.t[self.i + k] if self.i + k < len(self.t) else ("eof", "")

    def next(self):
        tok = self.peek(); self.i += 1; return tok

    def accept(self, v):
        if self.peek()[1] == v:
            self.i += 1
            return True
        return False

    def expect(self, v):
        if not self.accept(v):
            raise TranslateError(f"expected `{v}`, got `{self.peek()[1]}`")

    def expr(self):
        while self.peek()[1] in ("&", "*"):
            self.next()
        if self.peek()[1] == "mut":
            self.next()
        k, x = self.next()
        if k == "num":
            v = float(x)
            if v != int(v):
                raise TranslateError("non-integer literal " + x)
            return ("num", "0" if v == 0 else f"(OpwNum.ofNat {int(v)} : R)")
        if k == "id" and x == "self":
            self.expect(".")
            m = self.next()[1]
            if m not in self.METHODS:
                raise TranslateError("unknown method self." + m)
            self.expect("(")
            args = []
            while not self.accept(")"):
                args.append(self.expr()[1])
                self.accept(",")
            kind, fn = self.METHODS[m]
            return (kind, f"({fn} {' '.join(args)})" if args else f"({fn})")
        if k == "id" and x in self.env:
            kind, term = self.env[x]
            if self.peek()[1] == "[":
                self.next()
                idx = self.next()[1]
                self.expect("]")
                if kind != "joints" or idx not in ("0", "1", "2", "3", "4", "5"):
                    raise TranslateError("unsupported indexing of " + x)
                return ("num", f"{term}.j{int(idx) + 1}")
            return (kind, term)
        raise TranslateError("unexpected token " + x)


TY = {"sols": "List (J6 R)", "joints": "J6 R", "num": "R", "iso": "Iso R", "bool": "Bool"}


def translate_method(flat, name, env):
    """-> Lean term (multi-line) for a method body in the small statement language"""
    lines = []
    rest = flat
    while True:
        rest = rest.strip()
        # if self.parameters.dof == 5 { return E; }   (early return)   |   if .. { E } else { E }   (whole body)
        m = re.match(r"if self\.parameters\.dof == 5 \{ return ([^;]*); \}", rest)
        if m:
            e = X(tokenize(m.group(1)), env)
            kind, term = e.expr()
            if e.peek()[0] != "eof" or kind != "sols":
                raise TranslateError(f"{name}: unsupported early return `{m.group(1)}`")
            lines.append(f"  if k.p.dof == 5 then {term} else")
            rest = rest[m.end():]
            continue
        m = re.match(r"if self\.parameters\.dof == 5 \{ ([^{};]*) \} else \{ ([^{};]*) \}$", rest)
        if m:
            out = []
            for part in m.groups():
                e = X(tokenize(part), env)
                kind, term = e.expr()
                if e.peek()[0] != "eof" or kind != "sols":
                    raise TranslateError(f"{name}: unsupported branch `{part}`")
                out.append(term)
            lines.append(f"  if k.p.dof == 5 then {out[0]} else {out[1]}")
            return "\n".join(lines)
        # the sentinel: let previous; if prev[0].is_nan() { previous = E; } else { previous = prev; }
        m = re.match(r"let (\w+); if (\w+)\[0\]\.is_nan\(\) \{ (\w+) = ([^;]*); \} else \{ (\w+) = (\w+); \}", rest)
        if m:
            v, src, v2, e1, v3, e2 = m.groups()
            if not (v == v2 == v3) or src not in env or env[src][0] != "joints" or e2 not in env or env[e2][0] != "joints":
                raise TranslateError(f"{name}: unsupported sentinel resolution `{m.group(0)}`")
            e = X(tokenize(e1), env)
            kind, term = e.expr()
            if e.peek()[0] != "eof" or kind != "joints":
                raise TranslateError(f"{name}: unsupported sentinel value `{e1}`")
            lines.append(f"  let {v}_ : J6 R := if isNaN {env[src][1]}.j1 then {term} else {env[e2][1]};")
            env = dict(env); env[v] = ("joints", v + "_")
            rest = rest[m.end():]
            continue
        # normalise every answer next to the reference
        m = re.match(r"for (\w+) in 0\.\.(\w+)\.len\(\) \{ for (\w+) in 0\.\.6 \{ normalize_near\(&mut (\w+)\[(\w+)\]\[(\w+)\], (\w+)\[(\w+)\]\); \} \}", rest)
        if m:
            si, v, ji, v2, si2, ji2, ref, ji3 = m.groups()
            if not (v == v2 and si == si2 and ji == ji2 == ji3) or v not in env or env[v][0] != "sols" or ref not in env or env[ref][0] != "joints":
                raise TranslateError(f"{name}: unsupported normalisation loop `{m.group(0)}`")
            lines.append(f"  let {v}_ : List (J6 R) := {env[v][1]}.map (fun s => s.normalizeNear {env[ref][1]});")
            env = dict(env); env[v] = ("sols", v + "_")
            rest = rest[m.end():]
            continue
        m = re.match(r"self\.sort_by_closeness\(&mut (\w+), &(\w+)\);", rest)
        if m:
            v, ref = m.groups()
            if v not in env or env[v][0] != "sols" or ref not in env or env[ref][0] != "joints":
                raise TranslateError(f"{name}: unsupported sort call `{m.group(0)}`")
            lines.append(f"  let {v}_ : List (J6 R) := k.sortByCloseness {env[v][1]} {env[ref][1]};")
            env = dict(env); env[v] = ("sols", v + "_")
            rest = rest[m.end():]
            continue
        m = re.match(r"let (?:mut )?(\w+) = ([^;]*);", rest)
        if m:
            v, e1 = m.groups()
            e = X(tokenize(e1), env)
            kind, term = e.expr()
            if e.peek()[0] != "eof" or kind not in TY:
                raise TranslateError(f"{name}: unsupported binding `{m.group(0)}`")
            lines.append(f"  let {v}_ : {TY[kind]} := {term};")
            env = dict(env); env[v] = (kind, v + "_")
            rest = rest[m.end():]
            continue
        e = X(tokenize(rest), env)
        kind, term = e.expr()
        if e.peek()[0] != "eof":
            raise TranslateError(f"{name}: cannot read `{rest[:80]}`")
        lines.append(f"  {term}")
        return "\n".join(lines)


def generate(kin_src, cons_src):
    L = ["/- GENERATED by tools/rs2lean_opw.py from /repo/src/kinematics_impl.rs and /repo/src/constraints.rs on every run. Do not edit. -/",
         "import OpwVerif.Kin", "set_option linter.unusedVariables false", "namespace Opw.SrcOpw", "open Opw", "variable {R : Type} [OpwNum R]", ""]
    # ---- Constraints::compliant / filter
    body, _ = fn_body(cons_src, "compliant")
    f = flat_of(body)
    if f != ("let ok = angles.iter().enumerate().all(|(i, &angle)| { Self::inside_bounds(angle, self.centers[i], self.tolerances[i]) }); ok"):
        raise TranslateError("Constraints::compliant is no longer `all joints i: inside_bounds(angle_i, centers[i], tolerances[i])`: " + f)
    L.append("/-- `Constraints::compliant`: every joint inside its own arc -/\ndef compliantSrc (self : Constraints R) (angles : J6 R) : Bool :=\n"
             "  (List.range 6).all (fun i => insideBounds (angles.get i) (self.centers.get i) (self.tolerances.get i))\n")
    body, _ = fn_body(cons_src, "filter")
    f = flat_of(body)
    if f != "angles.into_iter() .filter(|angle_array| self.compliant(&angle_array)) .cloned() .collect()":
        raise TranslateError("Constraints::filter is no longer `keep, in order, the compliant vectors`: " + f)
    L.append("/-- `Constraints::filter` -/\ndef filterSrc (self : Constraints R) (angles : List (J6 R)) : List (J6 R) :=\n  angles.filter (fun a => compliantSrc self a)\n")
    # ---- private helpers of OPWKinematics
    body, _ = fn_body(kin_src, "filter_constraints_compliant")
    f = flat_of(body)
    if f != "match &self.constraints { Some(constraints) => constraints.filter(&solutions), None => solutions }":
        raise TranslateError("filter_constraints_compliant changed: " + f)
    L.append("/-- `filter_constraints_compliant` -/\ndef filterCompliantSrc (k : Opw R) (solutions : List (J6 R)) : List (J6 R) :=\n"
             "  match k.cons with\n  | some constraints => filterSrc constraints solutions\n  | none => solutions\n")
    body, _ = fn_body(kin_src, "constraints_compliant")
    f = flat_of(body)
    if f != "match &self.constraints { Some(constraints) => constraints.compliant(&solution), None => true }":
        raise TranslateError("constraints_compliant changed: " + f)
    L.append("/-- `constraints_compliant` -/\ndef compliantOptSrc (k : Opw R) (solution : J6 R) : Bool :=\n"
             "  match k.cons with\n  | some constraints => compliantSrc constraints solution\n  | none => true\n")
    body, _ = fn_body(kin_src, "constraint_centers")
    f = flat_of(body)
    if f != "self.constraints.as_ref() .map_or(&JOINTS_AT_ZERO, |c| &c.centers)":
        raise TranslateError("constraint_centers changed: " + f)
    L.append("/-- `constraint_centers` -/\ndef constraintCentersSrc (k : Opw R) : J6 R :=\n  match k.cons with\n  | some c => c.centers\n  | none => J6.zero\n")
    # ---- the entry points (5-DOF first: the others call them)
    env0 = {"pose": ("iso", "pose_"), "j6": ("num", "j6_"), "prev": ("joints", "prev_")}
    body, _ = fn_body(kin_src, "inverse_5dof")
    L.append("/-- `<OPWKinematics as Kinematics>::inverse_5dof` -/\ndef inverse5dofSrc (k : Opw R) (pose_ : Iso R) (j6_ : R) : List (J6 R) :=\n"
             + translate_method(flat_of(body), "inverse_5dof", env0) + "\n")
    body, _ = fn_body(kin_src, "inverse_continuing_5dof")
    L.append("/-- `<OPWKinematics as Kinematics>::inverse_continuing_5dof` -/\ndef inverseContinuing5dofSrc (k : Opw R) (pose_ : Iso R) (prev_ : J6 R) : List (J6 R) :=\n"
             + translate_method(flat_of(body), "inverse_continuing_5dof", env0) + "\n")
    body, _ = fn_body(kin_src, "inverse")
    L.append("/-- `<OPWKinematics as Kinematics>::inverse` -/\ndef inverseSrc (k : Opw R) (pose_ : Iso R) : List (J6 R) :=\n"
             + translate_method(flat_of(body), "inverse", env0) + "\n")
    # ---- inverse_continuing: head (dispatch, sentinel) and tail (normalise, sort, filter) around the shift loop
    body, _ = fn_body(kin_src, "inverse_continuing")
    f = flat_of(body)
    m = re.match(r"(if self\.parameters\.dof == 5 \{ return [^;]*; \} let previous; if prev\[0\]\.is_nan\(\) \{[^}]*\} else \{[^}]*\}) (const SINGULARITY_SHIFT.*?'shifts: for d in SINGULARITY_SHIFTS \{.*\}) "
                 r"(for s_idx in 0\.\.solutions\.len\(\) \{ for joint_idx in 0\.\.6 \{.*)$", f)
    if not m:
        raise TranslateError("inverse_continuing no longer has the shape: 5-DOF dispatch; sentinel; shift loop; normalise; sort; filter")
    head, loop, tail = m.groups()
    if "let mut solutions: Vec<Joints> = Vec::with_capacity(9);" not in loop:
        raise TranslateError("inverse_continuing: the shift loop no longer starts from an empty `solutions`")
    # the skeleton of the shift loop, read as an idiom with the singular recovery block as a hole (that block is translated
    # statement by statement by rs2lean_ctl.py: `singularCandidateSrc`)
    SKEL_A = ("const SINGULARITY_SHIFT: f64 = DISTANCE_TOLERANCE / 8.; const SINGULARITY_SHIFTS: [[f64; 3]; 4] = [[0., 0., 0., ], "
              "[SINGULARITY_SHIFT, 0., 0.], [0., SINGULARITY_SHIFT, 0.], [0., 0., SINGULARITY_SHIFT]]; "
              "let mut solutions: Vec<Joints> = Vec::with_capacity(9); let pt = pose.translation; let rotation = pose.rotation; "
              "'shifts: for d in SINGULARITY_SHIFTS { let shifted = Pose::from_parts( Translation3::new(pt.x + d[0], pt.y + d[1], pt.z + d[2]), rotation); "
              "let ik = self.inverse_intern(&shifted); if solutions.is_empty() { solutions.extend(&ik); } "
              "for s_idx in 0..ik.len() { let singularity = self.kinematic_singularity(&ik[s_idx]); "
              "if singularity.is_some() && is_valid(&ik[s_idx]) { let s; let s_n; if let Some(Singularity::A) = singularity { let mut now = ik[s_idx]; ")
    SKEL_B = (" let check_pose = self.forward(&now); if compare_poses(&pose, &check_pose, DISTANCE_TOLERANCE, ANGULAR_TOLERANCE) && "
              "self.constraints_compliant(now) { solutions.push(now); break 'shifts; } } break; } } }")
    if not (loop.startswith(SKEL_A) and loop.endswith(SKEL_B)):
        raise TranslateError("inverse_continuing: the skeleton of the shift loop changed (shift table, unshifted answers first, first singular and "
                             "finite answer only, pose check and limit check before the push, `break 'shifts` after the push)")
    body_v, _ = fn_body(open("/repo/src/utils/utils.rs").read(), "is_valid")
    if flat_of(body_v) != "qs.iter().all(|&q| q.is_finite())":
        raise TranslateError("is_valid is no longer `all finite`: " + flat_of(body_v))
    L.append("/-- the table `SINGULARITY_SHIFTS` -/\ndef shiftsSrc : List (V3 R) := [⟨0, 0, 0⟩, ⟨singShift, 0, 0⟩, ⟨0, singShift, 0⟩, ⟨0, 0, singShift⟩]\n")
    L.append("/-- one iteration of `'shifts: for d in SINGULARITY_SHIFTS` (new `solutions`, whether `break 'shifts` was taken); `recover` is the\n"
             "singular recovery block (`(now[J4], now[J5], now[J6])` from `previous` and the raw answer) -/\n"
             "def shiftStepSrc (recover : J6 R → J6 R → R × R × R) (k : Opw R) (pose_ : Iso R) (previous_ : J6 R) (solutions_ : List (J6 R)) (d : V3 R) :\n"
             "    List (J6 R) × Bool :=\n"
             "  let shifted_ : Iso R := ⟨⟨pose_.t.x + d.x, pose_.t.y + d.y, pose_.t.z + d.z⟩, pose_.q⟩;\n"
             "  let ik_ : List (J6 R) := inverseIntern k.p shifted_;\n"
             "  let solutions_ : List (J6 R) := if solutions_.isEmpty then solutions_ ++ ik_ else solutions_;\n"
             "  match ik_.find? (fun s => kinematicSingularity k.p s && s.allFinite) with\n"
             "  | none => (solutions_, false)\n"
             "  | some raw =>\n"
             "    let r := recover previous_ raw;\n"
             "    let now_ : J6 R := { raw with j4 := r.1, j5 := r.2.1, j6 := r.2.2 };\n"
             "    if comparePoses pose_ (forward k.p now_) distTol angTol && compliantOptSrc k now_ then (solutions_ ++ [now_], true)\n"
             "    else (solutions_, false)\n")
    env1 = dict(env0); env1["solutions"] = ("sols", "(shiftLoop k pose_ previous_ shiftsSrc [])")
    L.append("/-- `<OPWKinematics as Kinematics>::inverse_continuing`: 5-DOF dispatch, sentinel, [the shift loop = the model's `shiftLoop`,\n"
             "whose singular branch is tied separately], normalise, sort, filter -/\n"
             "def inverseContinuingSrc (k : Opw R) (pose_ : Iso R) (prev_ : J6 R) : List (J6 R) :=\n"
             + translate_method(head + " " + tail, "inverse_continuing", env1) + "\n")
    L.append("end Opw.SrcOpw")
    return "\n".join(L) + "\n"


if __name__ == "__main__":
    sys.stdout.write(generate(open("/repo/src/kinematics_impl.rs").read(), open("/repo/src/constraints.rs").read()))
