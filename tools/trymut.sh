#!/bin/bash
# usage: trymut.sh <seeded-name> <prop> <seed> <n>
cd /verif
git -C /repo apply /verif/seeded/$1/patch.diff || exit 1
(cd harness && cargo build --release --offline 2>&1 | grep -E "^error" -A5)
VERIF_PANIC_MSG=1 ./harness/target/release/opw-verif-harness gen $2 $3 $4 2>/tmp/m.err | grep -E "^C[0-9][0-9] " | ./lean/.lake/build/bin/driver > /tmp/m.out
git -C /repo checkout -- .
echo "== $1 $(wc -l < /tmp/m.out): $(cut -d' ' -f3,4 /tmp/m.out | sort | uniq -c | grep -v ' OK$' | tr '\n' ';') preds: $(grep -o 'P:[A-Za-z0-9_.]*=FAIL' /tmp/m.out | sort | uniq -c | tr '\n' ';')"
git -C /repo status --short; (cd /verif/harness && cargo build --release --offline 2>&1 | grep -E "^error" -A5)
