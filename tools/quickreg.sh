#!/bin/bash
# usage: quickreg.sh name...   (direct generator+driver run of seeded changes, 3 seeds at the quick budget)
cd /verif
for name in "$@"; do
  prop=${name%%-*}
  n=$(python3 -c "
import sys; sys.path.insert(0,'/verif')
from props_config import PROPS
print(PROPS['$prop']['n_quick'])")
  git -C /repo apply /verif/seeded/$name/patch.diff || { echo "$name: patch failed"; continue; }
  (cd harness && cargo build --release --offline 2>&1 | grep -E "^error" -A5)
  tot=""
  for sd in 20260927 20260928 20260929; do
    ./harness/target/release/opw-verif-harness gen $prop $sd $n 2>/dev/null | grep -E "^C[0-9][0-9] " | ./lean/.lake/build/bin/driver > /tmp/qr.out
    tot="$tot [$(grep -c MISMATCH /tmp/qr.out)m $(grep -o 'P:[A-Za-z0-9_.]*=FAIL' /tmp/qr.out | sort | uniq -c | awk '{printf "%s:%s ", $2, $1}')]"
  done
  git -C /repo checkout -- .
  echo "$name n=$n $tot"
done
(cd harness && cargo build --release --offline 2>&1 | grep -E "^error" -A5)
git -C /repo status --short
