#!/usr/bin/env python3
"""Translator from the straight-line arithmetic of /repo/src/kinematics_impl.rs to Lean.

Regenerates lean/OpwVerif/Generated/Src.lean from the CURRENT source on every run:
  * `thetaOfSrc`, `forwardThetaSrc`  from `OPWKinematics::forward`      (everything up to `r_oe`, and the translation)
  * `thetaCandidatesSrc`             from `OPWKinematics::inverse_intern` (the eight raw theta vectors)
The tie theorems in Lemmas/SrcTie.lean state that these equal the hand-written model definitions the
property theorems are about, so a change of a formula in the source breaks a proof obligation.

Supported Rust subset: `let [mut] name[: type] = expr;`, `let (a, b) = x.sin_cos();`, `Matrix3::new(9 exprs)`,
array literals of literal length with literal indexing, `matrix[(i, j)]`, method calls .sin() .cos() .sqrt() .atan2(x),
`f64::sin/cos/sqrt/acos/atan2(..)`, `as f64`, + - * / unary minus, parentheses, numeric literals, the constant PI.
Anything else raises TranslateError (reported by run_check.py as a broken tie, never silently skipped)."""
import re, sys


class TranslateError(Exception):
    pass


TOK = re.compile(r"\s*(?:(\d+\.\d*(?:[eE][-+]?\d+)?|\d+)|([A-Za-z_][A-Za-z_0-9]*(?:::[A-Za-z_][A-Za-z_0-9]*)*)|(.))")


def tokenize(s):
    out, pos = [], 0
    s = s.strip()
    while pos < len(s):
        m = TOK.match(s, pos)
        if not m:
            raise TranslateError("cannot tokenize: " + s[pos:pos + 30])
        pos = m.end()
        if m.group(1) is not None:
            out.append(("num", m.group(1)))
        elif m.group(2) is not None:
            out.append(("id", m.group(2)))
        elif m.group(3).strip():
            out.append(("op", m.group(3)))
    return out


FUNCS = {"sin": "nsin", "cos": "ncos", "sqrt": "nsqrt", "acos": "nacos", "atan2": "natan2"}
FIELD_J = ["j1", "j2", "j3", "j4", "j5", "j6"]


class Parser:
    """expr -> Lean term (string). `env` maps Rust names to Lean terms; arrays map to lists of terms."""

    def __init__(self, toks, env):
        self.t, self.i, self.env = toks, 0, env

    def peek(self):
        return self.t[self.i] if self.i < len(self.t) else ("eof", "")

    def next(self):
        tok = self.peek()
        self.i += 1
        return tok

    def expect(self, v):
        k, x = self.next()
        if x != v:
            raise TranslateError(f"expected {v}, got {x}")

    def expr(self):
        lhs = self.term()
        while self.peek()[1] in ("+", "-"):
            op = self.next()[1]
            rhs = self.term()
            lhs = f"({lhs} {op} {rhs})"
        return lhs

    def term(self):
        lhs = self.unary()
        while self.peek()[1] in ("*", "/"):
            op = self.next()[1]
            rhs = self.unary()
            lhs = f"({lhs} {op} {rhs})"
        return lhs

    def unary(self):
        if self.peek()[1] == "-":
            self.next()
            return f"(-{self.unary()})"
        return self.postfix()

    def args(self):
        out = []
        self.expect("(")
        if self.peek()[1] != ")":
            out.append(self.expr())
            while self.peek()[1] == ",":
                self.next()
                out.append(self.expr())
        self.expect(")")
        return out

    def postfix(self):
        e = self.atom()
        while True:
            k, x = self.peek()
            if x == ".":
                self.next()
                k2, name = self.next()
                if self.peek()[1] == "(":
                    a = self.args()
                    if name in ("sin", "cos", "sqrt", "acos") and not a:
                        e = f"({FUNCS[name]} {e})"
                    elif name == "atan2" and len(a) == 1:
                        e = f"(natan2 {e} {a[0]})"   # y.atan2(x)
                    else:
                        raise TranslateError(f"unsupported method .{name}/{len(a)}")
                else:
                    e = self.field(e, name)
            elif x == "[":
                self.next()
                if self.peek()[1] == "(":
                    # matrix[(i, j)]
                    self.next()
                    i = self.next()[1]; self.expect(","); j = self.next()[1]; self.expect(")")
                    self.expect("]")
                    e = f"{e}.m{i}{j}"
                else:
                    idx = int(self.next()[1])
                    self.expect("]")
                    e = self.index(e, idx)
            elif k == "id" and x == "as":
                self.next()
                self.next()  # the type (f64)
            else:
                return e

    def field(self, e, name):
        if isinstance(e, dict):
            raise TranslateError("field of array")
        if e == "p" or e == "params":
            if name in ("a1", "a2", "b", "c1", "c2", "c3", "c4"):
                return f"p.{name}"
            if name == "offsets":
                return {"arr": [f"p.offsets.{f}" for f in FIELD_J]}
            if name == "sign_corrections":
                return {"arr": [f"p.signs.{f}" for f in FIELD_J]}
        if e == "c" and name in ("x", "y", "z"):
            return f"c.{name}"
        raise TranslateError(f"unsupported field {e}.{name}")

    def index(self, e, idx):
        if isinstance(e, dict):
            return e["arr"][idx]
        raise TranslateError(f"indexing a non-array {e}")

    def atom(self):
        k, x = self.next()
        if k == "num":
            v = float(x)
            if v != int(v):
                raise TranslateError("non-integral literal " + x)
            return str(int(v))
        if x == "(":
            e = self.expr()
            self.expect(")")
            return e
        if k == "id":
            if x.startswith("f64::") and x[5:] in FUNCS:
                a = self.args()
                fn = FUNCS[x[5:]]
                if x[5:] == "atan2":
                    if len(a) != 2:
                        raise TranslateError("atan2 arity")
                    return f"(natan2 {a[0]} {a[1]})"
                if len(a) != 1:
                    raise TranslateError("arity of " + x)
                return f"({fn} {a[0]})"
            if x == "PI":
                return "pi"
            if x in self.env:
                return self.env[x]
            if x in ("p", "params", "c"):
                return x
            raise TranslateError("unknown identifier " + x)
        raise TranslateError("unexpected token " + x)


def parse_expr(text, env):
    ps = Parser(tokenize(text), env)
    e = ps.expr()
    if ps.peek()[0] != "eof":
        raise TranslateError("trailing tokens in: " + text)
    return e


def split_top(s, sep=","):
    out, depth, cur = [], 0, ""
    for ch in s:
        if ch in "([":
            depth += 1
        if ch in ")]":
            depth -= 1
        if ch == sep and depth == 0:
            out.append(cur)
            cur = ""
        else:
            cur += ch
    if cur.strip():
        out.append(cur)
    return out


def statements(body):
    """split a function body into `let` statements (text without the trailing ';')"""
    body = re.sub(r"//[^\n]*", "", body)
    out, depth, cur = [], 0, ""
    for ch in body:
        if ch in "([{":
            depth += 1
        if ch in ")]}":
            depth -= 1
        if ch == ";" and depth == 0:
            out.append(" ".join(cur.split()))
            cur = ""
        else:
            cur += ch
    return [s for s in out if s]


def function_body(src, signature_regex, end_marker):
    m = re.search(signature_regex, src)
    if not m:
        raise TranslateError("function not found: " + signature_regex)
    start = m.end()
    end = src.index(end_marker, start)
    return src[start:end]


class Seq:
    """translate a let-sequence; returns Lean `let` lines and the environment"""

    def __init__(self, env):
        self.env = dict(env)
        self.lines = []
        self.n = 0

    def bind(self, name, term):
        lean = f"{name}_"
        self.lines.append(f"  let {lean} : R := {term}")
        self.env[name] = lean

    def let(self, st):
        m = re.match(r"let (?:mut )?\((\w+), (\w+)\) = (\w+)\.sin_cos\(\)$", st)
        if m:
            x = self.env[m.group(3)]
            self.bind(m.group(1), f"(nsin {x})")
            self.bind(m.group(2), f"(ncos {x})")
            return
        m = re.match(r"let (?:mut )?(\w+)(?:\s*:\s*[^=]+)? = (.*)$", st)
        if not m:
            raise TranslateError("unsupported statement: " + st[:80])
        name, rhs = m.group(1), m.group(2).strip()
        if rhs.startswith("Matrix3::new("):
            items = split_top(rhs[len("Matrix3::new("):rhs.rindex(")")])
            items = [i for i in items if i.strip()]
            if len(items) != 9:
                raise TranslateError(f"Matrix3::new with {len(items)} entries")
            terms = [parse_expr(i, self.env) for i in items]
            lean = f"{name}_"
            self.lines.append(f"  let {lean} : M3 R := ⟨" + ", ".join(terms) + "⟩")
            self.env[name] = lean
            return
        if rhs.startswith("["):
            items = [i for i in split_top(rhs[1:rhs.rindex("]")]) if i.strip()]
            if items and items[0].strip().startswith("["):
                rows = []
                for it in items:
                    inner = [j for j in split_top(it.strip()[1:it.strip().rindex("]")]) if j.strip()]
                    rows.append([parse_expr(j, self.env) for j in inner])
                self.env[name] = {"arr": [{"arr": r} for r in rows]}
                return
            terms = []
            for k, it in enumerate(items):
                t = parse_expr(it, self.env)
                lean = f"{name}_{k}_"
                self.lines.append(f"  let {lean} : R := {t}")
                terms.append(lean)
            self.env[name] = {"arr": terms}
            return
        self.bind(name, parse_expr(rhs, self.env))


def translate(src):
    out = ["/- GENERATED by tools/rs2lean.py from /repo/src/kinematics_impl.rs on every run. Do not edit. -/",
           "import OpwVerif.Geom", "namespace Opw", "", "/-- `Joints = [f64; 6]` (declared here so that generated code can use it) -/"]
    # ---- forward ------------------------------------------------------------------------------------
    body = function_body(src, r"fn forward\(&self, joints: &Joints\) -> Pose \{", "let r_oe = r_0c * r_ce;")
    sts = statements(body)
    env = {"joints": {"arr": [f"j.{f}" for f in FIELD_J]}}
    theta = Seq(env)
    rest = []
    for st in sts:
        if st.startswith("let p = "):
            continue
        m = re.match(r"let (q[1-6]) = ", st)
        if m:
            theta.let(st)
        else:
            rest.append(st)
    qs = [theta.env[f"q{k}"] for k in range(1, 7)]
    fwd = Seq({f"q{k}": f"q.{FIELD_J[k - 1]}" for k in range(1, 7)})
    for st in rest:
        fwd.let(st)
    tr_body = function_body(src, r"let r_oe = r_0c \* r_ce;", "let rotation = Rotation3::from_matrix_unchecked")
    tr_sts = [s for s in statements(tr_body) if s.startswith("let translation")]
    if len(tr_sts) != 1 or "Vector3::new(cx0, cy0, cz0) + p.c4 * r_oe * *self.unit_z" not in tr_sts[0]:
        raise TranslateError("the translation of forward() is no longer `Vector3::new(cx0, cy0, cz0) + p.c4 * r_oe * *self.unit_z`")
    e = fwd.env
    return qs, theta.lines, fwd.lines, e


def generate(src):
    qs, tlines, flines, e = translate(src)
    # ---- inverse_intern -----------------------------------------------------------------------------
    ibody = function_body(src, r"fn inverse_intern\(&self, pose: &Pose\) -> Solutions \{", "let mut sols: [[f64; 6]; 8]")
    ists = statements(ibody)
    inv = Seq({"matrix": "m"})
    for st in ists:
        if st.startswith("let params = ") or st.startswith("let matrix = ") or st.startswith("let translation_vector") \
                or st.startswith("let scaled_z_axis") or st.startswith("let c = "):
            continue
        if re.match(r"let theta\d_\w+$", st):     # forward declarations `let theta4_i;`
            continue
        st = re.sub(r"^(theta\d_\w+) = ", r"let \1 = ", st)
        inv.let(st)
    need = ["let matrix = pose.rotation.to_rotation_matrix()", "let scaled_z_axis = params.c4 * matrix.transform_vector(&Vector3::z_axis())",
            "let c = translation_vector - scaled_z_axis"]
    flat = " ".join(" ".join(s.split()) for s in ists)
    for n in need:
        if n not in flat:
            raise TranslateError("inverse_intern no longer contains: " + n)
    th = inv.env.get("theta")
    if not isinstance(th, dict) or len(th["arr"]) != 8 or any(len(r["arr"]) != 6 for r in th["arr"]):
        raise TranslateError("the `theta` table of inverse_intern is no longer 8 x 6")
    # ---- inverse_intern_5_dof (hand-duplicated copy of the position part; table 8 x 5) ------------------
    i5body = function_body(src, r"fn inverse_intern_5_dof\(&self, pose: &Pose, j6: f64\) -> Solutions \{", "let mut sols: [[f64; 6]; 8]")
    i5sts = statements(i5body)
    inv5 = Seq({"matrix": "m"})
    for st in i5sts:
        if st.startswith("let params = ") or st.startswith("let matrix = ") or st.startswith("let translation_vector") \
                or st.startswith("let scaled_z_axis") or st.startswith("let c = "):
            continue
        if re.match(r"let theta\d_\w+$", st):
            continue
        st = re.sub(r"^(theta\d_\w+) = ", r"let \1 = ", st)
        inv5.let(st)
    flat5 = " ".join(" ".join(s.split()) for s in i5sts)
    for n in need:
        if n not in flat5:
            raise TranslateError("inverse_intern_5_dof no longer contains: " + n)
    th5 = inv5.env.get("theta")
    if not isinstance(th5, dict) or len(th5["arr"]) != 8 or any(len(r["arr"]) != 5 for r in th5["arr"]):
        raise TranslateError("the `theta` table of inverse_intern_5_dof is no longer 8 x 5")
    # ---- forward_with_joint_poses: sign/offset map and the chain of six `Isometry3::from_parts` --------
    cbody = function_body(src, r"fn forward_with_joint_poses\(&self, joints: &Joints\) -> \[Pose; 6\] \{", "\n    }\n")
    csts = statements(cbody + ";")
    ctheta = Seq({"joints": {"arr": [f"j.{f}" for f in FIELD_J]}})
    chain_lines, pose_names = [], []
    cenv = {f"q{k}": f"q.{FIELD_J[k - 1]}" for k in range(1, 7)}
    part = (r"Isometry3::from_parts\( Translation3::new\((.*)\), UnitQuaternion::from_axis_angle\(&(?:nalgebra::)?Vector3::([xyz])_axis\(\), (\w+)\),? \)")
    for st in csts:
        if st.startswith("let p = "):
            continue
        if re.match(r"let (q[1-6]) = ", st):
            ctheta.let(st)
            continue
        m = re.match(r"let (pose\d) = (?:(pose\d) \* )?" + part + "$", st)
        if m:
            name, parent, tr3, axis, ang = m.groups()
            comps = [parse_expr(t, cenv) for t in split_top(tr3)]
            if len(comps) != 3 or ang not in cenv or axis == "x":
                raise TranslateError("forward_with_joint_poses: unsupported link " + st[:60])
            rot = {"z": "Quat.rotZ", "y": "Quat.rotY"}[axis]
            rhs = f"⟨⟨{comps[0]}, {comps[1]}, {comps[2]}⟩, {rot} {cenv[ang]}⟩"
            if parent:
                if parent not in pose_names:
                    raise TranslateError("forward_with_joint_poses: unknown parent " + parent)
                rhs = f"{parent}_.mul {rhs}"
            chain_lines.append(f"  let {name}_ : Iso R := {rhs}")
            pose_names.append(name)
            continue
        m = re.match(r"\[(pose\d(?:, pose\d)*)\]$", st)
        if m:
            result_names = [x.strip() for x in m.group(1).split(",")]
            continue
        raise TranslateError("forward_with_joint_poses: unsupported statement " + st[:80])
    cqs = [ctheta.env[f"q{k}"] for k in range(1, 7)]
    if result_names != pose_names or len(pose_names) != 6:
        raise TranslateError("forward_with_joint_poses no longer returns its six poses in order")
    L = []
    L.append("/- GENERATED by tools/rs2lean.py from /repo/src/kinematics_impl.rs on every run. Do not edit.")
    L.append("   Straight-line arithmetic of `forward` and `inverse_intern`, translated expression by expression. -/")
    L.append("import OpwVerif.Kin")
    L.append("namespace Opw.Src")
    L.append("open Opw")
    L.append("variable {R : Type} [OpwNum R]")
    L.append("")
    L.append("/-- `q_k = joints[k] * sign_corrections[k] as f64 - offsets[k]` as written in `forward` -/")
    L.append("def thetaOfSrc (p : Params R) (j : J6 R) : J6 R :=")
    L += tlines
    L.append("  ⟨" + ", ".join(qs) + "⟩")
    L.append("")
    L.append("/-- `forward`: `(r_0c * r_ce, Vector3::new(cx0, cy0, cz0) + p.c4 * r_oe * unit_z)` in θ-space -/")
    L.append("def forwardThetaSrc (p : Params R) (q : J6 R) : M3 R × V3 R :=")
    L += flines
    L.append(f"  let roe := {e['r_0c']}.mul {e['r_ce']}")
    L.append(f"  (roe, (V3.mk {e['cx0']} {e['cy0']} {e['cz0']}).add ((M3.scaleL p.c4 roe).mulVec V3.ez))")
    L.append("")
    L.append("/-- the eight raw θ vectors of `inverse_intern` (table `theta`) -/")
    L.append("def thetaCandidatesSrc (p : Params R) (pose : Iso R) : List (J6 R) :=")
    L.append("  let m := pose.q.toMat")
    L.append("  let zv := m.mulVec V3.ez")
    L.append("  let c : V3 R := pose.t.sub ⟨p.c4 * zv.x, p.c4 * zv.y, p.c4 * zv.z⟩")
    L += inv.lines
    rows = ["⟨" + ", ".join(r["arr"]) + "⟩" for r in th["arr"]]
    L.append("  [" + ",\n   ".join(rows) + "]")
    L.append("")
    L.append("/-- the sign/offset map as written in `forward_with_joint_poses` -/")
    L.append("def thetaOfChainSrc (p : Params R) (j : J6 R) : J6 R :=")
    L += ctheta.lines
    L.append("  ⟨" + ", ".join(cqs) + "⟩")
    L.append("")
    L.append("/-- `forward_with_joint_poses`: the chain of six `Isometry3::from_parts(Translation3, from_axis_angle)` in θ-space -/")
    L.append("def chainThetaSrc (p : Params R) (q : J6 R) : List (Iso R) :=")
    L += chain_lines
    L.append("  [" + ", ".join(n + "_" for n in pose_names) + "]")
    L.append("")
    L.append("/-- the eight raw θ1..θ5 vectors of `inverse_intern_5_dof` (table `theta`, 8 x 5; θ6 slot filled with 0) -/")
    L.append("def thetaCandidates5Src (p : Params R) (pose : Iso R) : List (J6 R) :=")
    L.append("  let m := pose.q.toMat")
    L.append("  let zv := m.mulVec V3.ez")
    L.append("  let c : V3 R := pose.t.sub ⟨p.c4 * zv.x, p.c4 * zv.y, p.c4 * zv.z⟩")
    L += inv5.lines
    rows5 = ["⟨" + ", ".join(r["arr"] + ["0"]) + "⟩" for r in th5["arr"]]
    L.append("  [" + ",\n   ".join(rows5) + "]")
    L.append("")
    L.append("end Opw.Src")
    return "\n".join(L) + "\n"


if __name__ == "__main__":
    src = open(sys.argv[1] if len(sys.argv) > 1 else "/repo/src/kinematics_impl.rs").read()
    sys.stdout.write(generate(src))
