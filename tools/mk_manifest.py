#!/usr/bin/env python3
"""Regenerate MANIFEST.json from tools/manifest_entries.py (claimed checks) + properties.jsonl."""
import json, os, sys, subprocess
ROOT = os.path.dirname(os.path.dirname(os.path.abspath(__file__)))
sys.path.insert(0, os.path.join(ROOT, "tools"))
from manifest_entries import ENTRIES, NOT_APPLICABLE
props = [json.loads(l)["id"] for l in open(os.path.join(ROOT, "properties.jsonl"))]
hooks_commits = subprocess.run(["git", "-C", "/repo", "log", "--format=%H", "--grep=^verif hooks"], capture_output=True, text=True).stdout.split()
checks = []
for pid in props:
    if pid not in ENTRIES:
        continue
    e = ENTRIES[pid]
    checks.append({
        "property_id": pid,
        "quick_cmd": f"python3 run_check.py {pid} quick",
        "thorough_cmd": f"python3 run_check.py {pid} thorough",
        "evidence_file": f"/verif/evidence/{pid}.json",
        "replay_cmd_template": "python3 run_check.py --replay {path}",
        "engine": "lean4-model+correspondence",
        "level_claimed": {"category": "proof", "text": e["text"], "design_ref": e.get("design_ref", "DESIGN.md §7 " + pid)},
        "level_note": e["note"],
        "technique": e.get("technique", "Lean 4 theorems about a hand-written model; model tied to the code on every run by differential (correspondence) runs of the model's executable Float reading against the library, and by translators that regenerate the constants, the closed-form formulas and the branching helpers from the current source text (tie theorems re-checked)"),
    })
na = [{"property_id": pid, "reason": NOT_APPLICABLE.get(pid, "not claimed yet: model/theorems for this property are still being built (work in progress, see DESIGN.md §10)")}
      for pid in props if pid not in ENTRIES]
m = {
    "version": 1,
    "setup_cmd": "./setup.sh",
    "hooks": {
        "guard": "cargo feature verif_hooks",
        "enable": "harness/Cargo.toml depends on /repo by path with features allow_filesystem, collisions, stroke_planning, verif_hooks",
        "baseline_off_cmd": "cd /repo && cargo test --workspace --no-fail-fast --offline",
        "source_commits": hooks_commits,
        "add_only": True,
    },
    "engines": [{"name": "lean4-model+correspondence", "path": "/verif/lean, /verif/harness, /verif/run_check.py",
                 "serves_properties": [c["property_id"] for c in checks],
                 "kind_free_text": "Lean 4 (4.33.0, Mathlib) model generic over a number class: theorems at R := real numbers and for all R; "
                                   "the same definitions at R := Float run as a compiled driver that is compared with the real library on "
                                   "generated inputs (Rust harness, path dependency on /repo); constants, closed-form formulas, branching helpers, wrapper methods, the collision decision and the robot table are regenerated from the current source text on every run by translators (tools/rs2lean*.py) and tied to the model by theorems (Props/Tie.lean, TieColl.lean, Presets.lean)"}],
    "checks": checks,
    "not_applicable": na,
    "notes": "See DESIGN.md (sections 11.x describe what was built). Fix commits in /repo (D1-D21, D23) and the known finding D22 are listed in known_findings.json; seeded/ holds 159 confirmed property-breaking changes with the verdicts of the quick checks in seeded/RESULTS.md.",
}
json.dump(m, open(os.path.join(ROOT, "MANIFEST.json"), "w"), indent=1)
print("claimed:", [c["property_id"] for c in checks], "unclaimed:", len(na))
