#!/bin/bash
# robustness: every quick check under several seeds on the unchanged tree (evidence goes to a scratch dir)
cd /verif
export VERIF_OUT=/tmp/sweep_out
mkdir -p $VERIF_OUT
for seed in "$@"; do
  for p in C01 C02 C03 C04 C05 C06 C07 C08 C09 C10 C11 C12 C13 C14 C15 C16 C17 C18 C19 C20; do
    out=$(VERIF_SEED=$seed python3 run_check.py $p quick 2>&1)
    rc=$?
    echo "seed=$seed $p exit=$rc $(echo "$out" | grep -E '^VIOLATION|KNOWN' | head -2 | tr '\n' ' ')"
    if [ $rc -ne 0 ]; then cp $VERIF_OUT/replays/$p-$seed-*.json /tmp/sweep_out/ 2>/dev/null; fi
  done
done
