#!/usr/bin/env python3
"""Rewrite source_fingerprints.json for the current /repo HEAD (run after the model has been reconciled with a /repo commit)."""
import hashlib, json, os, subprocess
P = "/verif/source_fingerprints.json"
d = json.load(open(P))
d["repo_head"] = subprocess.run(["git", "-C", "/repo", "rev-parse", "--short", "HEAD"], capture_output=True, text=True).stdout.strip()
for rel in list(d["files"]):
    d["files"][rel] = hashlib.sha256(open(os.path.join("/repo", rel), "rb").read()).hexdigest()
json.dump(d, open(P, "w"), indent=1)
print("blessed", d["repo_head"], len(d["files"]), "files")
