import sympy as sp
names = 'm00 m01 m02 m10 m11 m12 m20 m21 m22'.split()
m = sp.symbols(names)
m00,m01,m02,m10,m11,m12,m20,m21,m22 = m
s,u = sp.symbols('s u')
M = sp.Matrix(3,3,m)
gens=[]; gnames=[]
MtM = (M.T*M - sp.eye(3))
for i in range(3):
    for j in range(i,3):
        gens.append(sp.expand(MtM[i,j])); gnames.append(f"e.hc{i}{j}")
MMt = (M*M.T - sp.eye(3))
for i in range(3):
    for j in range(i,3):
        gens.append(sp.expand(MMt[i,j])); gnames.append(f"e.hr{i}{j}")
cof = M.cofactor_matrix()
for i in range(3):
    for j in range(3):
        gens.append(sp.expand(M[i,j]-cof[i,j])); gnames.append(f"e.hk{i}{j}")

def lean(e):
    st = sp.sstr(e)
    st = st.replace('**','^')
    for n in names:
        st = st.replace(n, 'm.'+n)
    return st

def toMat(w,i,j,k):
    ww=w*w; ii=i*i; jj=j*j; kk=k*k
    ij=i*j*2; wk=w*k*2; wj=w*j*2; ik=i*k*2; jk=j*k*2; wi=w*i*2
    return [ww+ii-jj-kk, ij-wk, wj+ik, wk+ij, ww-ii+jj-kk, jk-wi, ik-wj, wi+jk, ww-ii-jj+kk]

branches = {
 1: (1+m00+m11+m22, (s/2, (m21-m12)*u/2, (m02-m20)*u/2, (m10-m01)*u/2)),
 2: (1+m00-m11-m22, ((m21-m12)*u/2, s/2, (m01+m10)*u/2, (m02+m20)*u/2)),
 3: (1+m11-m00-m22, ((m02-m20)*u/2, (m01+m10)*u/2, s/2, (m12+m21)*u/2)),
 4: (1+m22-m00-m11, ((m10-m01)*u/2, (m02+m20)*u/2, (m12+m21)*u/2, s/2)),
}

def certificate(G, t):
    """G polynomial in s,u,m ; returns lean linear_combination string"""
    G = sp.expand(G)
    P = sp.Poly(G, s, u)
    cleared = 0
    for (a,b),c in P.terms():
        if (a,b)==(0,0): f = 1
        elif (a,b)==(2,0): f = t
        elif (a,b)==(0,2): f = 1/t
        elif (a,b)==(1,1): f = 1
        else: raise Exception((a,b))
        cleared += c*f
    cleared = sp.expand(sp.cancel(sp.together(cleared*4*t)))
    q, r = sp.reduced(cleared, gens, *m, order='grevlex')
    assert r == 0, r
    for c in q: assert c.is_number, c
    R = sp.expand(G - u**2/4*cleared)
    h1 = s - u*t
    h2 = u**2*t - 1
    q2, r2 = sp.reduced(R, [sp.expand(h1), sp.expand(h2)], s, u, *m, order='lex')
    assert r2 == 0, r2
    # verify
    chk = sp.expand(G - q2[0]*h1 - q2[1]*h2 - u**2/4*sum(c*g for c,g in zip(q,gens)))
    assert chk == 0
    terms = []
    if q2[0] != 0: terms.append(f"({lean(q2[0])}) * h1")
    if q2[1] != 0: terms.append(f"({lean(q2[1])}) * h2")
    inner = " + ".join(f"({sp.sstr(c)}) * {n}" for c,n in zip(q,gnames) if c != 0)
    if inner: terms.append(f"(u^2/4) * ({inner})")
    return " + ".join(terms) if terms else "0"

out=[]
ent_names = ['00','01','02','10','11','12','20','21','22']
for b,(t,(w,i,j,k)) in branches.items():
    T = toMat(w,i,j,k)
    out.append(f"-- branch {b}")
    for n,e,tgt in zip(ent_names,T,m):
        out.append(f"B{b} {n}: linear_combination {certificate(e - tgt, t)}")
    out.append(f"B{b} norm: linear_combination {certificate(w*w+i*i+j*j+k*k-1, t)}")
print("\n".join(out))
