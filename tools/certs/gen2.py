import re, subprocess
raw = subprocess.run(['python3-vt','gen.py'],capture_output=True,text=True).stdout
certs = {}
for line in raw.splitlines():
    mm = re.match(r'B(\d) (\w+): (linear_combination .*)', line)
    if mm: certs[(int(mm.group(1)), mm.group(2))] = mm.group(3)

ts = {1:"1 + m.m00 + m.m11 + m.m22", 2:"1 + m.m00 - m.m11 - m.m22", 3:"1 + m.m11 - m.m00 - m.m22", 4:"1 + m.m22 - m.m00 - m.m11"}
qs = {
 1:"⟨s / 2, (m.m21 - m.m12) * u / 2, (m.m02 - m.m20) * u / 2, (m.m10 - m.m01) * u / 2⟩",
 2:"⟨(m.m21 - m.m12) * u / 2, s / 2, (m.m01 + m.m10) * u / 2, (m.m02 + m.m20) * u / 2⟩",
 3:"⟨(m.m02 - m.m20) * u / 2, (m.m01 + m.m10) * u / 2, s / 2, (m.m12 + m.m21) * u / 2⟩",
 4:"⟨(m.m10 - m.m01) * u / 2, (m.m02 + m.m20) * u / 2, (m.m12 + m.m21) * u / 2, s / 2⟩",
}
doc = {1:"trace > 0", 2:"m00 largest", 3:"m11 largest", 4:"m22 largest"}
ents = ['00','01','02','10','11','12','20','21','22']
out=[]
for b in (1,2,3,4):
    out.append(f"/-- the quaternion produced by branch {b} of `ofMat` ({doc[b]}), with `s` the square root and `u = 1/s` -/")
    out.append(f"noncomputable def qB{b} (m : M3 ℝ) (s u : ℝ) : Quat ℝ :=\n  {qs[b]}\n")
    pre = f"""    (hs : s ^ 2 = {ts[b]}) (hu : s * u = 1)"""
    aux = f"""  have e := h.eqs
  have h1 : s = u * ({ts[b]}) := by linear_combination u * hs - s * hu
  have h2 : u ^ 2 * ({ts[b]}) = 1 := by linear_combination (-u) * h1 + hu"""
    out.append(f"theorem toMat_qB{b} (m : M3 ℝ) (h : IsRot m) (s u : ℝ)\n{pre} :\n    (qB{b} m s u).toMat = m := by\n{aux}")
    out.append(f"  apply M3.ext' <;> simp only [qB{b}, Quat.toMat, lit2]")
    for n in ents:
        out.append(f"  · {certs[(b,n)]}")
    out.append("")
    out.append(f"theorem normSq_qB{b} (m : M3 ℝ) (h : IsRot m) (s u : ℝ)\n{pre} :\n    (qB{b} m s u).normSq = 1 := by\n{aux}")
    out.append(f"  simp only [qB{b}, Quat.normSq]")
    out.append(f"  {certs[(b,'norm')]}")
    out.append("")
open('core.lean','w').write("\n".join(out))
