#!/usr/bin/env python3
"""Translator for the densification of the stroke in path_plan/cartesian.rs into lean/OpwVerif/Generated/SrcCart.lean:
`add_intermediate_poses` (expression by expression: step counts from distance and angle, per-step translation, slerp fraction,
the `for i in 1..steps` loop as a map over `range (steps - 1)`) and `with_intermediate_poses` (the order land, [between],
step, [between], .., last step, [between], park with their flags; read as an idiom).  `utils::transition_costs` is read as
"maximum over the joints of |from - to| * coefficient"?  No: it is translated literally (a one-element array folded with max).
Anything else raises TranslateError (a broken tie, never skipped)."""
import re, sys

from rs2lean import TranslateError
from rs2lean_ctl import tokenize, fn_body
from rs2lean_frame import E, flat_of

TY = {"vec": "V3 R", "num": "R", "quat": "Quat R", "iso": "Iso R", "nat": "Nat"}


class EC(E):
    def add(self):
        lhs = self.mul()
        while self.peek()[1] in ("-", "+"):
            op = self.next()[1]
            rhs = self.mul()
            if lhs[0] == rhs[0] == "vec":
                lhs = ("vec", f"({lhs[1]}.{'sub' if op == '-' else 'add'} {rhs[1]})")
            elif lhs[0] == rhs[0] == "num":
                lhs = ("num", f"({lhs[1]} {op} {rhs[1]})")
            else:
                raise TranslateError("sum of unlike operands")
        return lhs

    def mul(self):
        lhs = self.cast()
        while self.peek()[1] in ("*", "/"):
            op = self.next()[1]
            rhs = self.cast()
            k = (lhs[0], op, rhs[0])
            if k == ("quat", "*", "quat"):
                lhs = ("quat", f"({lhs[1]}.mul {rhs[1]})")
            elif k == ("vec", "*", "num"):
                lhs = ("vec", f"({lhs[1]}.scale {rhs[1]})")
            elif k == ("vec", "/", "num"):
                lhs = ("vec", f"({lhs[1]}.divs {rhs[1]})")
            elif k == ("num", "/", "num"):
                lhs = ("num", f"({lhs[1]} / {rhs[1]})")
            else:
                raise TranslateError(f"unsupported product {k}")
        return lhs

    def cast(self):
        e = self.unary()
        while self.peek() == ("id", "as"):
            self.next()
            ty = self.next()[1]
            if ty == "f64" and e[0] == "nat":
                e = ("num", f"(ofNat {e[1]})")
            elif ty == "usize" and e[0] == "ceil":
                e = ("nat", f"(OpwNum.ceilNat {e[1]})")
            else:
                raise TranslateError(f"unsupported cast of a {e[0]} to {ty}")
        return e

    def postfix(self):
        e = self.atom()
        while self.peek()[1] == "." and self.peek(1)[0] == "id":
            save = self.i
            self.next()
            m = self.next()[1]
            k = e[0]
            if self.peek()[1] == "(":
                a = self.args()
                if m == "angle" and k == "quat" and not a:
                    e = ("num", f"{e[1]}.angle"); continue
                if m == "ceil" and k == "num" and not a:
                    e = ("ceil", e[1]); continue
                if m == "max" and k == "nat" and len(a) == 1 and a[0][0] == "nat":
                    e = ("nat", f"(max {e[1]} {a[0][1]})"); continue
                if m == "slerp" and k == "quat" and len(a) == 2 and a[0][0] == "quat" and a[1][0] == "num":
                    e = ("quat", f"({e[1]}.slerp {a[0][1]} {a[1][1]})"); continue
                if m == "norm" and k == "vec" and not a:
                    e = ("num", f"{e[1]}.norm"); continue
                if m == "inverse" and k == "quat" and not a:
                    e = ("quat", f"{e[1]}.conj"); continue
                if m == "into" and not a:
                    continue
                raise TranslateError(f"unsupported .{m} on a {k}")
            if m == "translation" and k == "iso":
                e = ("isoT", e[1])
            elif m == "vector" and k == "isoT":
                e = ("vec", f"{e[1]}.t")
            elif m == "rotation" and k == "iso":
                e = ("quat", f"{e[1]}.q")
            elif k == "self" and m in ("check_step_m", "check_step_rad"):
                e = ("num", "stepM" if m == "check_step_m" else "stepRad")
            else:
                raise TranslateError(f"unsupported field .{m} of a {k}")
        return e

    def atom(self):
        k, x = self.peek()
        if k == "num" and re.fullmatch(r"\d+", x):
            self.next()
            return ("nat", x)
        if k == "id" and x == "self":
            self.next()
            return ("self", "self")
        if k == "id" and x == "Pose::from_parts":
            self.next()
            a = self.args()
            if len(a) != 2 or a[0][0] != "vec" or a[1][0] != "quat":
                raise TranslateError("Pose::from_parts needs a translation and a rotation")
            return ("iso", f"⟨{a[0][1]}, {a[1][1]}⟩")
        return E.atom(self)


def lets(flat, env, name):
    lines, rest, env = [], flat.strip(), dict(env)
    while True:
        m = re.match(r"let (\w+) = ([^;]*);", rest)
        if not m:
            return lines, env, rest
        e = EC(tokenize(m.group(2)), env, {})
        kind, term = e.expr()
        if e.peek()[0] != "eof" or kind not in TY:
            raise TranslateError(f"{name}: unsupported binding `{m.group(0)}` ({kind})")
        v = m.group(1) + "_"
        lines.append(f"let {v} : {TY[kind]} := {term};")
        env[m.group(1)] = (kind, v)
        rest = rest[m.end():].strip()


def generate(cart_src, utils_src):
    L = ["/- GENERATED by tools/rs2lean_cart.py from /repo/src/path_plan/cartesian.rs on every run. Do not edit. -/",
         "import OpwVerif.Cartesian", "set_option linter.unusedVariables false", "namespace Opw.SrcCart", "open Opw", "variable {R : Type} [OpwNum R]", ""]
    body, _ = fn_body(cart_src, "add_intermediate_poses")
    f = flat_of(body)
    env = {"start": ("iso", "start"), "end": ("iso", "end_")}
    pre, env1, rest = lets(f, env, "add_intermediate_poses")
    m = re.match(r"^for (\w+) in 1\.\.(\w+) \{ (.*) \}$", rest)
    if not m or m.group(2) not in env1 or env1[m.group(2)][0] != "nat":
        raise TranslateError("add_intermediate_poses: no `for i in 1..steps` loop after the bindings: " + rest[:80])
    iv, sv, inner = m.groups()
    env2 = dict(env1); env2[iv] = ("nat", iv)
    body_lines, env3, rest2 = lets(inner, env2, "add_intermediate_poses")
    mm = re.match(r"^poses\.push\(AnnotatedPose \{ pose: (\w+), flags: PathFlags::LIN_INTERP, \}\);$", rest2)
    if not mm or mm.group(1) not in env3 or env3[mm.group(1)][0] != "iso":
        raise TranslateError("add_intermediate_poses: the loop no longer ends by pushing the interpolated pose with LIN_INTERP: " + rest2[:80])
    L.append("/-- `add_intermediate_poses`: the poses pushed between `start` and `end` (both excluded) -/\n"
             "def intermediatePosesSrc (start end_ : Iso R) (stepM stepRad : R) (ofNat : Nat → R) : List (APose R) :=\n  "
             + "\n  ".join(pre) + f"\n  (List.range ({env1[sv][1]} - 1)).map (fun k =>\n    let {iv} := k + 1;\n    "
             + "\n    ".join(body_lines) + f"\n    ⟨{env3[mm.group(1)][1]}, flagLinInterp⟩)\n")
    # with_intermediate_poses: one idiom
    body, _ = fn_body(cart_src, "with_intermediate_poses")
    f = flat_of(body)
    want = ("let mut poses = Vec::with_capacity(10 * steps.len() + 2); poses.push(AnnotatedPose { pose: *land, flags: PathFlags::LAND, }); "
            "if !steps.is_empty() { self.add_intermediate_poses(land, &steps[0], &mut poses); for i in 0..steps.len() - 1 { "
            "poses.push(AnnotatedPose { pose: steps[i].clone(), flags: PathFlags::TRACE, }); self.add_intermediate_poses(&steps[i], &steps[i + 1], &mut poses); } "
            "let last = *steps.last().unwrap(); poses.push(AnnotatedPose { pose: last.clone(), flags: PathFlags::TRACE, }); "
            "self.add_intermediate_poses(&last, park, &mut poses); } else { self.add_intermediate_poses(land, park, &mut poses); } "
            "poses.push(AnnotatedPose { pose: park.clone(), flags: PathFlags::PARK, }); poses")
    if f != want:
        raise TranslateError("with_intermediate_poses changed (land; [between]; each step with TRACE followed by [between]; park): " + f)
    L.append("/-- `with_intermediate_poses` (read as one idiom): LAND, then for every stroke pose the poses between its predecessor and it followed\n"
             "by the pose itself with TRACE, then the poses between the last one and the parking pose, PARK -/\n"
             "def withIntermediatePosesSrc (land : Iso R) (steps : List (Iso R)) (park : Iso R) (stepM stepRad : R) (ofNat : Nat → R) : List (APose R) :=\n"
             "  let between := fun (a b : Iso R) => intermediatePosesSrc a b stepM stepRad ofNat\n"
             "  let rec stroke : Iso R → List (Iso R) → List (APose R)\n"
             "    | prev, [] => between prev park\n"
             "    | prev, s :: rest => between prev s ++ [⟨s, flagTrace⟩] ++ stroke s rest\n"
             "  [⟨land, flagLand⟩] ++ stroke land steps ++ [⟨park, flagPark⟩]\n")
    # transition_costs
    body, _ = fn_body(utils_src, "transition_costs")
    f = flat_of(body)
    want = "[" + " + ".join(f"(from[{i}] - to[{i}]).abs() * coefficients[{i}]" for i in range(6)) + "] .iter() .fold(f64::NEG_INFINITY, |a, &b| a.max(b))"
    if f != want:
        raise TranslateError("transition_costs is no longer the weighted sum of the six |from - to| (folded from a one-element array): " + f)
    L.append("/-- `utils::transition_costs`: sum over the joints of |from - to| * coefficient -/\n"
             "def transitionCostsSrc (from_ to_ coefficients : J6 R) : R :=\n  "
             + " + ".join(f"nabs (from_.j{i+1} - to_.j{i+1}) * coefficients.j{i+1}" for i in range(6)) + "\n")
    L.append("end Opw.SrcCart")
    return "\n".join(L) + "\n"


if __name__ == "__main__":
    c = sys.argv[1] if len(sys.argv) > 1 else "/repo/src/path_plan/cartesian.rs"
    sys.stdout.write(generate(open(c).read(), open("/repo/src/utils/utils.rs").read()))
