#!/usr/bin/env python3
"""Translator for `Frame::frame`, `distances_match` / `is_valid_isometry` and `Frame::translation` (frame.rs) into
lean/OpwVerif/Generated/SrcFrame.lean.

A typed expression language over points / vectors (`a - b`, `.cross(&b)`, `.normalize()`, `.norm()`), scalars (`-`, `.abs()`,
`<`, `== 0.0`), 3x3 matrices (`Matrix3::from_columns(&[a, b, c])`, `*`, `.transpose()`), rotations
(`Rotation3::from_matrix_unchecked`, `UnitQuaternion::from_rotation_matrix`, `.transform_point(&p)`), and the statements
`const`, `let`, `if COND { return Err(Box::new(KIND::new(..))); }`, final `Ok(Isometry3::from_parts(t.into(), r))`.
The error constructors are read with their arguments: `ColinearPoints::new(a, b, c, true|false)` names the source / the target
triple.  Anything else raises TranslateError (a broken tie, never skipped)."""
import re, sys

from rs2lean import TranslateError
from rs2lean_ctl import tokenize, fn_body


def flat_of(body):
    return " ".join(re.sub(r"//[^\n]*", "", body).split())


class E:
    def __init__(self, toks, env, fns):
        self.t, self.i, self.env, self.fns = toks, 0, env, fns

    def peek(self, k=0):
        return self.t[self.i + k] if self.i + k < len(self.t) else ("eof", "")

    def next(self):
        tok = self.peek(); self.i += 1; return tok

    def accept(self, v):
        if self.peek()[1] == v:
            self.i += 1
            return True
        return False

    def expect(self, v):
        if not self.accept(v):
            raise TranslateError(f"expected `{v}`, got `{self.peek()[1]}`")

    def path(self, first):
        """IDENT(::IDENT)* already started with `first`"""
        return first   # the tokenizer keeps `a::b::c` as one identifier

    def args(self):
        out = []
        self.expect("(")
        while not self.accept(")"):
            out.append(self.expr())
            self.accept(",")
        return out

    # precedence: && < comparison < additive < multiplicative < unary < postfix
    def expr(self):
        lhs = self.cmp()
        while self.peek()[1] == "&&":
            self.next()
            rhs = self.cmp()
            if lhs[0] != "bool" or rhs[0] != "bool":
                raise TranslateError("&& of non-conditions")
            lhs = ("bool", f"({lhs[1]} && {rhs[1]})")
        return lhs

    def cmp(self):
        lhs = self.add()
        if self.peek()[1] in ("<", "=="):
            op = self.next()[1]
            if op == "==":
                pass
            rhs = self.add()
            if lhs[0] != "num" or rhs[0] != "num":
                raise TranslateError("comparison of non-scalars")
            return ("bool", f"decide ({lhs[1]} < {rhs[1]})" if op == "<" else f"feq {lhs[1]} {rhs[1]}")
        return lhs

    def add(self):
        lhs = self.mul()
        while self.peek()[1] == "-":
            self.next()
            rhs = self.mul()
            if lhs[0] == rhs[0] == "vec":
                lhs = ("vec", f"({lhs[1]}.sub {rhs[1]})")
            elif lhs[0] == rhs[0] == "num":
                lhs = ("num", f"({lhs[1]} - {rhs[1]})")
            else:
                raise TranslateError("subtraction of unlike operands")
        return lhs

    def mul(self):
        lhs = self.unary()
        while (self.peek()[1] == "*" and lhs[0] in ("mat", "quat")) or (self.peek()[1] == "/" and lhs[0] == "vec"):
            op = self.next()[1]
            rhs = self.unary()
            if op == "/":
                if rhs[0] != "num":
                    raise TranslateError("vector divided by a non-scalar")
                lhs = ("vec", f"({lhs[1]}.divs {rhs[1]})")
            elif rhs[0] != lhs[0]:
                raise TranslateError("product of unlike operands")
            else:
                lhs = (lhs[0], f"({lhs[1]}.mul {rhs[1]})")
        return lhs

    def unary(self):
        if self.peek()[1] == "!":
            self.next()
            e = self.unary()
            if e[0] != "bool":
                raise TranslateError("! of a non-condition")
            return ("bool", f"!({e[1]})")
        while self.peek()[1] in ("&", "*"):
            self.next()
        return self.postfix()

    def postfix(self):
        e = self.atom()
        while self.peek()[1] == "." and self.peek(1)[0] == "id":
            self.next()
            m = self.next()[1]
            k = e[0]
            if self.peek()[1] != "(":
                # field access
                if m == "translation" and k == "iso":
                    e = ("isoT", e[1])
                elif m == "vector" and k == "isoT":
                    e = ("vec", f"{e[1]}.t")
                elif m == "rotation" and k == "iso":
                    e = ("quat", f"{e[1]}.q")
                else:
                    raise TranslateError(f"unsupported field .{m} of a {k}")
                continue
            a = self.args()
            if m == "forward" and k == "robot" and len(a) == 1 and a[0][0] == "joints":
                e = ("iso", f"(fwd {a[0][1]})")
            elif m == "inverse" and k == "quat" and not a:
                e = ("quat", f"{e[1]}.conj")
            elif m == "scaled_axis" and k == "quat" and not a:
                e = ("vec", f"{e[1]}.scaledAxis")
            elif m == "cross" and k == "vec" and len(a) == 1 and a[0][0] == "vec":
                e = ("vec", f"(V3.cross {e[1]} {a[0][1]})")
            elif m == "normalize" and k == "vec" and not a:
                e = ("vec", f"{e[1]}.normalize")
            elif m == "norm" and k == "vec" and not a:
                e = ("num", f"{e[1]}.norm")
            elif m == "abs" and k == "num" and not a:
                e = ("num", f"(nabs {e[1]})")
            elif m == "transpose" and k == "mat" and not a:
                e = ("mat", f"{e[1]}.transpose")
            elif m == "transform_point" and k == "quat" and len(a) == 1 and a[0][0] == "vec":
                e = ("vec", f"({e[1]}.rotate {a[0][1]})")
            elif m == "into" and not a:
                pass
            else:
                raise TranslateError(f"unsupported .{m} on a {k}")
        return e

    def atom(self):
        k, x = self.next()
        if x == "(":
            e = self.expr()
            self.expect(")")
            return e
        if k == "num":
            v = float(x)
            if v != 0:
                raise TranslateError("unexpected literal " + x)
            return ("num", "0")
        if k != "id":
            raise TranslateError("unexpected token " + x)
        name = self.path(x)
        if name in ("nalgebra::Matrix3::from_columns", "Matrix3::from_columns"):
            self.expect("("); self.accept("&"); self.expect("[")
            cols = []
            while not self.accept("]"):
                cols.append(self.expr())
                self.accept(",")
            self.expect(")")
            if len(cols) != 3 or any(c[0] != "vec" for c in cols):
                raise TranslateError("from_columns needs three vectors")
            return ("mat", f"(M3.ofColumns {cols[0][1]} {cols[1][1]} {cols[2][1]})")
        if name == "Rotation3::from_matrix_unchecked":
            a = self.args()
            if len(a) != 1 or a[0][0] != "mat":
                raise TranslateError("from_matrix_unchecked of a non-matrix")
            return a[0]
        if name == "UnitQuaternion::from_rotation_matrix":
            a = self.args()
            if len(a) != 1 or a[0][0] != "mat":
                raise TranslateError("from_rotation_matrix of a non-matrix")
            return ("quat", f"(Quat.ofMat {a[0][1]})")
        if name in self.fns and self.peek()[1] == "(":
            a = self.args()
            kinds, ret, lean = self.fns[name]
            if [y[0] for y in a] != kinds:
                raise TranslateError(f"{name}: argument kinds {[y[0] for y in a]}")
            return (ret, f"({lean} {' '.join(y[1] for y in a)})")
        if name in self.env:
            return self.env[name]
        raise TranslateError("unknown identifier " + name)


def stmts(flat, env, fns, name):
    """-> Lean term of type Except FrameErr (Iso R) (for `frame`) or the final expression (others)"""
    lines, rest = [], flat.strip()
    env = dict(env)
    while True:
        m = re.match(r"const (\w+): f64 = ([\d.]+);", rest)
        if m:
            if (m.group(1), m.group(2)) != ("NON_ISOMETRY_TOLERANCE", "0.005"):
                raise TranslateError(f"{name}: unexpected constant {m.group(1)} = {m.group(2)} (the model's nonIsoTol is 0.005)")
            env[m.group(1)] = ("num", "nonIsoTol")
            rest = rest[m.end():].strip()
            continue
        m = re.match(r"if ([^{]*) \{ return Err\(Box::new\((\w+)::new\(([^)]*)\)\)\); \}", rest)
        if m:
            c = E(tokenize(m.group(1)), env, fns)
            kind, term = c.expr()
            if kind != "bool" or c.peek()[0] != "eof":
                raise TranslateError(f"{name}: unsupported condition `{m.group(1)}`")
            ctor, args = m.group(2), [a.strip() for a in m.group(3).split(",")]
            if ctor == "NotIsometry" and args == ["p1", "p2", "p3", "q1", "q2", "q3"]:
                err = ".notIsometry"
            elif ctor == "ColinearPoints" and args == ["p1", "p2", "p3", "true"]:
                err = ".colinearSource"
            elif ctor == "ColinearPoints" and args == ["q1", "q2", "q3", "false"]:
                err = ".colinearTarget"
            else:
                raise TranslateError(f"{name}: error `{ctor}::new({', '.join(args)})` does not name one of: all six points / the source triple "
                                     "as source / the target triple as target")
            lines.append(f"  if {term} then .error {err} else")
            rest = rest[m.end():].strip()
            continue
        m = re.match(r"let (\w+) = ([^;]*);", rest)
        if m:
            e = E(tokenize(m.group(2)), env, fns)
            kind, term = e.expr()
            if e.peek()[0] != "eof":
                raise TranslateError(f"{name}: trailing tokens in `{m.group(2)}`")
            ty = {"vec": "V3 R", "num": "R", "mat": "M3 R", "quat": "Quat R", "bool": "Bool"}[kind]
            v = m.group(1) + "_"
            lines.append(f"  let {v} : {ty} := {term};")
            env[m.group(1)] = (kind, v)
            rest = rest[m.end():].strip()
            continue
        m = re.match(r"Ok\(Isometry3::from_parts\(([^,]*), ([^)]*)\)\)$", rest)
        if m:
            t = E(tokenize(m.group(1)), env, fns).expr()
            r = E(tokenize(m.group(2)), env, fns).expr()
            if t[0] != "vec" or r[0] != "quat":
                raise TranslateError(f"{name}: from_parts needs a translation and a rotation")
            lines.append(f"  .ok ⟨{t[1]}, {r[1]}⟩")
            return "\n".join(lines)
        e = E(tokenize(rest), env, fns)
        kind, term = e.expr()
        if e.peek()[0] != "eof":
            raise TranslateError(f"{name}: cannot read `{rest[:80]}`")
        lines.append(f"  {term}")
        return "\n".join(lines)


def generate(frame_src):
    L = ["/- GENERATED by tools/rs2lean_frame.py from /repo/src/frame.rs on every run. Do not edit. -/",
         "import OpwVerif.Misc", "set_option linter.unusedVariables false", "namespace Opw.SrcFrame", "open Opw", "variable {R : Type} [OpwNum R]", ""]
    pts = {n: ("vec", n) for n in ["a1", "a2", "a3", "b1", "b2", "b3"]}
    pts["tolerance"] = ("num", "tolerance")
    body, _ = fn_body(frame_src, "distances_match")
    L.append("/-- `distances_match` -/\ndef distancesMatchSrc (a1 a2 a3 b1 b2 b3 : V3 R) (tolerance : R) : Bool :=\n"
             + stmts(flat_of(body), pts, {}, "distances_match") + "\n")
    body, _ = fn_body(frame_src, "is_valid_isometry")
    if flat_of(body) != "distances_match(a1, a2, a3, b1, b2, b3, tolerance)":
        raise TranslateError("is_valid_isometry is no longer distances_match on the same arguments: " + flat_of(body))
    fns = {"is_valid_isometry": (["vec"] * 6 + ["num"], "bool", "distancesMatchSrc")}
    env = {n: ("vec", n) for n in ["p1", "p2", "p3", "q1", "q2", "q3"]}
    body, _ = fn_body(frame_src, "frame")
    L.append("/-- `Frame::frame` -/\ndef frameSrc (p1 p2 p3 q1 q2 q3 : V3 R) : Except FrameErr (Iso R) :=\n" + stmts(flat_of(body), env, fns, "frame") + "\n")
    L.append("end Opw.SrcFrame")
    return "\n".join(L) + "\n"


if __name__ == "__main__":
    sys.stdout.write(generate(open("/repo/src/frame.rs").read()))
