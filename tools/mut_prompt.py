#!/usr/bin/env python3
"""Print the sub-agent prompt for a seeded-mutation request for property <id> (text only from properties.jsonl)."""
import json, sys
pid = sys.argv[1]
rnd = sys.argv[2] if len(sys.argv) > 2 else ""
for l in open('/verif/properties.jsonl'):
    p = json.loads(l)
    if p['id'] == pid: break
wt = f"/tmp/wt{rnd}-{pid}"
HARD = ("IMPORTANT — this is a second, harder round. Assume a reviewer will run large randomized differential tests of this library against an independent reference implementation (hundreds of thousands of random robots, poses, joint vectors, constraint sets, scenes) and property checks on the outputs. Your changes must be ones such testing is UNLIKELY to hit: they should manifest only on a thin set of inputs (an exact boundary value, equality of two quantities, a value just past a threshold, a combination of three independent conditions, an argument order that only matters for non-commutative cases, a rarely used public entry point or constructor, a particular length/ordering of a collection, state carried between two calls) while still being realistic slips and still clearly violating the property. Avoid the obvious candidates (sign flips in core formulas, dropped filters on main paths).\n\n" if rnd else "")
if rnd == "6":
    HARD += ("Additional steer for this round: prefer a change OUTSIDE the most obvious function for this property -- a constructor, a wrapper or "
             "delegate, a helper or conversion utility, a default value, a rarely used public method or parameter combination, the interaction of two "
             "features (e.g. limits + a special previous value + a wrapper), or state kept in an object between calls. The breakage must still be a "
             "clear violation of the property as stated, observable through the public API.\n\n")
if rnd == "7":
    HARD += ("Additional steer for this round: prefer one of these kinds of slip -- (a) a boundary comparison or tolerance (<= vs <, a threshold compared "
             "on the wrong side, an absolute value dropped, a unit mix-up degrees/radians or metres/millimetres, f32 vs f64 precision), (b) an off-by-one or "
             "wrong bound in a loop, index or slice, a wrong element of an array or tuple, (c) an error-handling path (Ok where Err is due or the reverse, a panic, "
             "an unwrap on a value that can be absent, a swallowed error), (d) the order of two operations that do not commute. The breakage must be a clear "
             "violation of the property as stated, observable through the public API, and must NOT be one of: swapping base/tool in a constructor, making "
             "update_range use stale limits, capping the number of IK answers, lowering a cancellation flag, reading J6 from the resolved previous vector.\n\n")
if rnd == "8":
    WHERE = {"C12": "src/path_plan/cartesian.rs (the functions plan, probe_strategy, step_adaptive_linear_transition: strategy selection, onboarding by RRT, the stepping "
                    "and subdivision logic, flags of the waypoints, what ends up in the returned trace)",
             "C13": "src/path_plan/rrt_to.rs (dual_rrt_connect, extend, connect, get_until_root: tree growth, the swap of the two trees, path assembly, the stop test)",
             "C19": "src/parameters_from_file.rs (from_yaml_file / from_yaml: which keys are read, units, defaults, array lengths, sign flags, dof) or to_yaml in src/parameters.rs",
             "C20": "src/urdf.rs (from_urdf, collect_joints, get_xyz_from_origin, get_axis_sign, populate_opw_parameters: which joint feeds which OPW parameter, "
                    "layout variants, sign of an axis, joints declared in another order)"}
    HARD += ("Additional steer for this round: make BOTH changes in " + WHERE.get(pid, "the files named above") + ". Prefer control-flow and bookkeeping "
             "slips (a wrong variable of two similar ones, an index or flag taken from the neighbouring element, a condition tested one step too late, a branch "
             "that returns early with a partial result) over changed constants. The breakage must be a clear violation of the property as stated, observable "
             "through the public API.\n\n")
print(f"""You are given a scratch git worktree of the Rust crate `rs-opw-kinematics` (analytical inverse/forward kinematics for 6-axis OPW robots, with constraints, tool/base frames, Jacobian, collisions, path planning) at {wt}. Work ONLY inside {wt}. Do not read or touch /repo or /verif. The sandbox has no network: always pass --offline to cargo (or set CARGO_NET_OFFLINE=true). Use this command for the existing test-suite (66 tests, all must pass; first build takes a few minutes):

    cd {wt} && cargo test --lib --offline --no-default-features --features "allow_filesystem collisions stroke_planning" 2>&1 | tail -15

(`--lib` is needed: one of the examples does not compile without the visualization feature. Run a demonstration test with the same flags and `--test <name>` instead of `--lib`.)

A semantic property of the library that should hold:

  Title: {p['title']}
  Statement: {p['statement']}
  Quantified over: {p['quantifier']['text']}
  Relevant files: {', '.join(p['anchors']['files'])}

{HARD}Your task: craft TWO different, independent changes ("mutA", "mutB") to the library source under {wt}/src (not to the tests) each of which BREAKS this property while the crate still compiles and the existing 66 tests still all pass. Each change must be a realistic bug a developer could introduce (wrong sign / dropped or weakened check / wrong delegate / off-by-one / wrong index / boundary comparison / stale value / two sites that each look fine alone ...), and it must be SUBTLE: it should need something specific to manifest (a particular input region, an unusual parameter such as a non-zero offset or negative sign correction or b != 0, a particular multi-step sequence, a specific wrapper nesting, a boundary value) rather than failing on almost every ordinary call. Do not make changes that only alter performance, logging or formatting.

For each change also write a demonstration: a small Rust integration test (file `tests/demo_{pid}_A.rs` resp. `_B.rs`, using only the crate's public API, enabled with the same features) that FAILS with the change applied and PASSES on the unchanged source.

Deliverables (put them in {wt}/out/):
  - out/mutA.diff, out/mutB.diff : `git diff -- src` of each change alone (relative to the unchanged worktree HEAD), applicable with `git apply`.
  - out/demo_{pid}_A.rs, out/demo_{pid}_B.rs : the demonstration tests.
  - out/notes.md : for each mutation: what it changes, why it breaks the property, what it needs in order to manifest, and the exact commands you ran with their outcomes.
You must actually verify, for each mutation: (1) with the patch applied the 66 existing tests pass and the demo test fails; (2) with the patch reverted the demo passes. When finished, restore src/ to the unchanged state (`git checkout -- src`) and remove tests/demo_* from the tree (keep copies in out/). Do not delete the target directory. Final answer: a short summary of the two mutations and confirmation of the verification steps.""")
