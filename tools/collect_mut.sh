#!/bin/bash
# collect the output of a mutation sub-agent and drop its scratch worktree: collect_mut.sh <Cxx> [round]
id=$1; rnd=$2
mkdir -p /verif/seeded/_incoming$rnd/$id
cp -r /tmp/wt$rnd-$id/out/. /verif/seeded/_incoming$rnd/$id/ 2>/dev/null
git -C /repo worktree remove --force /tmp/wt$rnd-$id && echo "removed /tmp/wt$rnd-$id"
rm -rf /tmp/wt$rnd-$id
ls /verif/seeded/_incoming$rnd/$id
