#!/bin/bash
# collect the output of a mutation sub-agent and drop its scratch worktree
id=$1
mkdir -p /verif/seeded/_incoming/$id
cp -r /tmp/wt-$id/out/. /verif/seeded/_incoming/$id/ 2>/dev/null
git -C /repo worktree remove --force /tmp/wt-$id && echo "removed /tmp/wt-$id"
ls /verif/seeded/_incoming/$id
