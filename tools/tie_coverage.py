"""How many of the seeded changes alter the Lean text the translators regenerate (applied to a COPY of /repo/src under /tmp; /repo itself is
not touched).  Usage: python3 tools/tie_coverage.py"""
import sys, os, subprocess, shutil, glob
sys.path.insert(0,'/verif/tools')
import rs2lean, rs2lean_ctl, rs2lean_wrap, rs2lean_opw, rs2lean_frame, rs2lean_jac, rs2lean_presets, rs2lean_rrt, rs2lean_cart
G='/verif/lean/OpwVerif/Generated/'
def gen(src):
    R=lambda f: open(os.path.join(src,f)).read()
    out={}
    def t(name, fn):
        try: out[name]=fn()
        except Exception as e: out[name]="ERR "+str(e)[:60]
    t('SrcCtl', lambda: rs2lean_ctl.generate(R('kinematics_impl.rs'), R('constraints.rs')))
    t('SrcWrap', lambda: rs2lean_wrap.generate(R('tool.rs'), R('frame.rs'), R('parallelogram.rs'), R('kinematics_with_shape.rs')))
    t('SrcColl', lambda: rs2lean_ctl.generate_coll(R('collisions.rs')))
    t('SrcCons', lambda: rs2lean_ctl.generate_cons_obj(R('constraints.rs')))
    t('SrcOpw', lambda: rs2lean_opw.generate(R('kinematics_impl.rs'), R('constraints.rs')))
    t('SrcFrame', lambda: rs2lean_frame.generate(R('frame.rs')))
    t('SrcJac', lambda: rs2lean_jac.generate(R('jacobian.rs')))
    t('Presets', lambda: rs2lean_presets.generate(R('parameters_robots.rs')))
    t('SrcRrt', lambda: rs2lean_rrt.generate(R('path_plan/rrt.rs')))
    t('SrcCart', lambda: rs2lean_cart.generate(R('path_plan/cartesian.rs'), R('utils/utils.rs')))
    return out
base=gen('/repo/src')
for k,v in base.items():
    cur=open(G+k+'.lean').read()
    if v!=cur: print("BASE differs", k)
hit={}
for d in sorted(glob.glob('/verif/seeded/C*')):
    n=os.path.basename(d)
    shutil.rmtree('/tmp/srccopy', ignore_errors=True); os.makedirs('/tmp/srccopy')
    shutil.copytree('/repo/src','/tmp/srccopy/src')
    r=subprocess.run(['git','apply','--unsafe-paths',d+'/patch.diff'],cwd='/tmp/srccopy',capture_output=True)
    if r.returncode!=0: print(n,'patch n/a'); continue
    g=gen('/tmp/srccopy/src')
    ch=[k for k in g if g[k]!=base[k]]
    if ch: hit[n]=ch
shutil.rmtree('/tmp/srccopy', ignore_errors=True)
print(len(hit),"of",len(glob.glob('/verif/seeded/C*')),"seeded changes alter a statement-level / idiom translation (Src.lean formula tables not counted)")
from collections import Counter
c=Counter(k for v in hit.values() for k in v); print(dict(c))
print(sorted(hit))
