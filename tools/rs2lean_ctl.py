#!/usr/bin/env python3
"""Translator for the small imperative f64 helpers of /repo/src (branches, `mut` variables, `while` loops).

Regenerates lean/OpwVerif/Generated/SrcCtl.lean from the CURRENT source on every run:
  kinematics_impl.rs : is_close_to_multiple_of_pi, are_angles_close, normalize_near (+ nested adjust), compare_poses (the
                       two threshold tests on the already computed distances)
  constraints.rs     : inside_bounds, the per-joint body of compute_centers
The tie theorems (Lemmas/SrcCtlTie.lean, Props/Tie.lean) state that these equal the hand-written model definitions.

Supported Rust subset
  statements : `let [mut] x [: T] = e;`  `x = e;` `x += e;` `x -= e;` (also `*x`, `arr[j_idx]`)
               `if c { .. } [else if c { .. }]* [else { .. }]`   `while c { .. }`   `return e;`   trailing expression
               `adjust(now, prev, two_pi);`  (call of a translated nested function with a `&mut f64` first parameter)
               `if DEBUG { .. }` is dropped (printing only)
  expressions: + - * / %  unary -  ! && || < > <= >= == !=  parentheses, literals, PI TWO_PI INFINITY SINGULARITY_ANGLE_THR,
               .abs() .rem_euclid(x) .is_infinite() .signum()
A `while` loop becomes a fuel-recursive auxiliary definition; the fuel is the model's (are_angles_close: 4, compute_centers:
normFuel) -- termination is modelled, not verified.  Anything else raises TranslateError (a broken tie, never skipped)."""
import re, sys

from rs2lean import TranslateError

TOK = re.compile(r"\s*(?:(\d+\.\d*(?:[eE][-+]?\d+)?|\d+)|([A-Za-z_][A-Za-z_0-9]*(?:::[A-Za-z_][A-Za-z_0-9]*)*)"
                 r"|(<=|>=|==|!=|&&|\|\||\+=|-=|\*=|[-+*/%<>=!(){}\[\];,.&:]))")

CONSTS = {"PI": "pi", "TWO_PI": "twoPi", "INFINITY": "infTol", "SINGULARITY_ANGLE_THR": "singThr"}


def tokenize(s):
    s = re.sub(r"//[^\n]*", "", s)
    out, pos = [], 0
    while True:
        m = re.compile(r"\s*").match(s, pos)
        pos = m.end()
        if pos >= len(s):
            return out
        m = TOK.match(s, pos)
        if not m:
            raise TranslateError("cannot tokenize: " + s[pos:pos + 30])
        pos = m.end()
        if m.group(1) is not None:
            out.append(("num", m.group(1)))
        elif m.group(2) is not None:
            out.append(("id", m.group(2)))
        else:
            out.append(("op", m.group(3)))


# ------------------------------------------------------------------------------------------------
# AST: expressions are tuples; statements are tuples
class P:
    def __init__(self, toks):
        self.t, self.i = toks, 0

    def peek(self, k=0):
        return self.t[self.i + k] if self.i + k < len(self.t) else ("eof", "")

    def next(self):
        tok = self.peek()
        self.i += 1
        return tok

    def accept(self, v):
        if self.peek()[1] == v:
            self.i += 1
            return True
        return False

    def expect(self, v):
        if not self.accept(v):
            raise TranslateError(f"expected `{v}`, got `{self.peek()[1]}`")

    # ---- expressions
    def expr(self):
        return self.p_or()

    def p_or(self):
        e = self.p_and()
        while self.accept("||"):
            e = ("or", e, self.p_and())
        return e

    def p_and(self):
        e = self.p_cmp()
        while self.accept("&&"):
            e = ("and", e, self.p_cmp())
        return e

    def p_cmp(self):
        e = self.p_add()
        if self.peek()[1] in ("<", ">", "<=", ">=", "==", "!="):
            op = self.next()[1]
            e = ("cmp", op, e, self.p_add())
        return e

    def p_add(self):
        e = self.p_mul()
        while self.peek()[1] in ("+", "-"):
            op = self.next()[1]
            e = ("bin", op, e, self.p_mul())
        return e

    def p_mul(self):
        e = self.p_un()
        while self.peek()[1] in ("*", "/", "%"):
            op = self.next()[1]
            e = ("bin", op, e, self.p_un())
        return e

    def p_un(self):
        if self.accept("-"):
            return ("neg", self.p_un())
        if self.accept("!"):
            return ("not", self.p_un())
        if self.accept("*"):      # dereference
            return self.p_un()
        if self.accept("&"):
            return self.p_un()
        return self.p_post()

    def p_post(self):
        e = self.p_atom()
        while True:
            if self.peek()[1] == "." and self.peek(1)[0] == "id":
                self.next()
                name = self.next()[1]
                args = []
                if self.accept("("):
                    while not self.accept(")"):
                        args.append(self.expr())
                        self.accept(",")
                    e = ("call", name, e, args)
                else:
                    e = ("field", e, name)
            elif self.peek()[1] == "[":
                self.next()
                idx = self.next()[1]
                self.expect("]")
                e = ("idx", e, idx)
            elif self.peek() == ("id", "as"):
                self.next(); self.next()
            else:
                return e

    def p_atom(self):
        k, x = self.next()
        if k == "num":
            v = float(x)
            if v != int(v):
                raise TranslateError("non-integral literal " + x)
            return ("lit", int(v))
        if x == "(":
            e = self.expr()
            self.expect(")")
            return e
        if k == "id":
            if self.peek()[1] == "(":       # free function call
                self.next()
                args = []
                while not self.accept(")"):
                    args.append(self.expr())
                    self.accept(",")
                return ("fcall", x, args)
            return ("var", x)
        raise TranslateError("unexpected token " + x)

    # ---- statements
    def block(self):
        self.expect("{")
        out = []
        while not self.accept("}"):
            out.append(self.stmt())
        return out

    def stmts_until_eof(self):
        out = []
        while self.peek()[0] != "eof":
            out.append(self.stmt())
        return out

    def lvalue(self):
        self.accept("*")
        if self.accept("("):
            self.accept("*")
            name = self.next()[1]
            self.expect(")")
        else:
            name = self.next()[1]
        if self.accept("["):
            idx = self.next()[1]
            self.expect("]")
            return f"{name}[{idx}]"
        return name

    def stmt(self):
        k, x = self.peek()
        if x == "let":
            self.next()
            self.accept("mut")
            name = self.next()[1]
            if self.accept(":"):
                while self.peek()[1] not in ("=", ";"):
                    self.next()
            self.expect("=")
            if self.peek()[1] == "if":
                st = self.stmt()            # an `if` statement whose blocks end in a value
                self.expect(";")
                return ("letif", name, st)
            e = self.expr()
            self.expect(";")
            return ("let", name, e)
        if x == "if":
            self.next()
            c = self.expr()
            a = self.block()
            b = []
            if self.accept("else"):
                if self.peek()[1] == "if":
                    b = [self.stmt()]
                else:
                    b = self.block()
            return ("if", c, a, b)
        if x == "while":
            self.next()
            c = self.expr()
            return ("while", c, self.block())
        if x == "return":
            self.next()
            e = self.expr()
            self.expect(";")
            return ("return", e)
        # assignment, call statement, or trailing expression
        save = self.i
        try:
            lv = self.lvalue()
            op = self.peek()[1]
            if op in ("=", "+=", "-="):
                self.next()
                e = self.expr()
                self.expect(";")
                if op == "+=":
                    e = ("bin", "+", ("var", lv), e)
                if op == "-=":
                    e = ("bin", "-", ("var", lv), e)
                return ("assign", lv, e)
        except TranslateError:
            pass
        self.i = save
        e = self.expr()
        if self.accept(";"):
            return ("exprstmt", e)
        return ("result", e)


# ------------------------------------------------------------------------------------------------
# translation to Lean terms
class Ctx:
    def __init__(self, fname, fuel, localfns=None):
        self.fname, self.fuel = fname, fuel
        self.aux = []          # auxiliary loop definitions (Lean text)
        self.nloops = 0
        self.localfns = localfns or {}


def num(e, env, cx):
    k = e[0]
    if k == "lit":
        return str(e[1])
    if k == "var":
        n = e[1]
        if n in env:
            return env[n]
        if n in CONSTS:
            return CONSTS[n]
        raise TranslateError(f"{cx.fname}: unknown identifier {n}")
    if k == "idx":
        key = f"{e[1][1]}[{e[2]}]" if e[1][0] == "var" else None
        if key in env:
            return env[key]
        raise TranslateError(f"{cx.fname}: unsupported indexing")
    if k == "neg":
        return f"(-{num(e[1], env, cx)})"
    if k == "bin":
        a, b = num(e[2], env, cx), num(e[3], env, cx)
        if e[1] == "%":
            return f"(nfmod {a} {b})"
        return f"({a} {e[1]} {b})"
    if k == "call":
        recv = num(e[2], env, cx)
        args = [num(a, env, cx) for a in e[3]]
        if e[1] == "abs" and not args:
            return f"(nabs {recv})"
        if e[1] == "rem_euclid" and len(args) == 1:
            return f"(remEuclid {recv} {args[0]})"
        if e[1] == "signum" and not args:
            return f"(OpwNum.signum {recv})"
        raise TranslateError(f"{cx.fname}: unsupported method .{e[1]}")
    raise TranslateError(f"{cx.fname}: not a number: {e[0]}")


def cond(e, env, cx):
    """-> ('prop', text) or ('bool', text)"""
    k = e[0]
    if k == "cmp":
        a, b = num(e[2], env, cx), num(e[3], env, cx)
        if e[1] == "==":
            return ("bool", f"(feq {a} {b})")
        if e[1] == "!=":
            return ("bool", f"(!(feq {a} {b}))")
        sym = {"<": "<", ">": ">", "<=": "≤", ">=": "≥"}[e[1]]
        return ("prop", f"({a} {sym} {b})")
    if k in ("and", "or"):
        a, b = as_bool(cond(e[1], env, cx)), as_bool(cond(e[2], env, cx))
        return ("bool", f"({a} {'&&' if k == 'and' else '||'} {b})")
    if k == "not":
        return ("bool", f"(!{as_bool(cond(e[1], env, cx))})")
    if k == "call" and e[1] == "is_infinite" and not e[3]:
        return ("bool", f"(isInfinite {num(e[2], env, cx)})")
    if k == "var" and e[1] in ("true", "false"):
        return ("bool", e[1])
    if k == "var" and e[1] in getattr(cx, "boolvars", set()) and e[1] in env:
        return ("bool", env[e[1]])
    if k == "fcall" and e[1] in getattr(cx, "boolfns", {}):
        return ("bool", f"({cx.boolfns[e[1]]} {' '.join(num(a, env, cx) for a in e[2])})")
    raise TranslateError(f"{cx.fname}: not a condition: {e[0]}")


def as_bool(c):
    return c[1] if c[0] == "bool" else f"(decide {c[1]})"


def as_if(c):
    return c[1]       # a Bool in `if` position is coerced to `= true` by Lean


def assigned(stmts):
    out = []
    for s in stmts:
        if s[0] == "assign" and s[1] not in out:
            out.append(s[1])
        elif s[0] == "if":
            for v in assigned(s[2]) + assigned(s[3]):
                if v not in out:
                    out.append(v)
        elif s[0] == "while":
            for v in assigned(s[2]):
                if v not in out:
                    out.append(v)
        elif s[0] == "exprstmt" and s[1][0] == "fcall":
            v = s[1][2][0]
            if v[0] == "var" and v[1] not in out:
                out.append(v[1])
    return out


def has_return(stmts):
    return any(s[0] in ("return", "result") or (s[0] == "if" and (has_return(s[2]) or has_return(s[3]))) for s in stmts)


def free_vars_expr(e, acc):
    if e[0] == "var":
        acc.add(e[1])
    elif e[0] == "idx" and e[1][0] == "var":
        acc.add(f"{e[1][1]}[{e[2]}]")
    else:
        for x in e[1:]:
            if isinstance(x, tuple):
                free_vars_expr(x, acc)
            elif isinstance(x, list):
                for y in x:
                    if isinstance(y, tuple):
                        free_vars_expr(y, acc)


def free_vars(stmts, acc):
    for s in stmts:
        for x in s[1:]:
            if isinstance(x, tuple):
                free_vars_expr(x, acc)
            elif isinstance(x, list):
                free_vars(x, acc)
            elif isinstance(x, str) and s[0] == "assign":
                acc.add(x)


def lean_name(v):
    return re.sub(r"\W", "_", v).strip("_") + "_"


def tuple_of(names):
    return names[0] if len(names) == 1 else "(" + ", ".join(names) + ")"


def tr(stmts, env, cx, result, ind):
    """translate a statement list to a Lean term; `result(env)` gives the term when the list falls through"""
    pad = "  " * ind
    if not stmts:
        return result(env)
    s, rest = stmts[0], stmts[1:]
    k = s[0]
    if k == "let" or k == "assign":
        name = s[1]
        ln = lean_name(name)
        val = num(s[2], env, cx)
        env2 = dict(env); env2[name] = ln
        return f"let {ln} : R := {val};\n{pad}" + tr(rest, env2, cx, result, ind)
    if k == "letif":
        name = s[1]
        ln = lean_name(name)
        val = tr([s[2]], env, cx, result, ind + 1)
        env2 = dict(env); env2[name] = ln
        if getattr(cx, "letif_num", False):
            return f"let {ln} : R :=\n{pad}  ({val});\n{pad}" + tr(rest, env2, cx, result, ind)
        cx.boolvars = getattr(cx, "boolvars", set()) | {name}
        return f"let {ln} : Bool :=\n{pad}  ({val});\n{pad}" + tr(rest, env2, cx, result, ind)
    if k == "exprstmt":
        e = s[1]
        if e[0] == "fcall" and e[1] in cx.localfns:
            target = e[2][0][1]
            args = [num(a, env, cx) for a in e[2]]
            ln = lean_name(target)
            env2 = dict(env); env2[target] = ln
            return f"let {ln} : R := {cx.localfns[e[1]]} {' '.join(args)};\n{pad}" + tr(rest, env2, cx, result, ind)
        raise TranslateError(f"{cx.fname}: unsupported expression statement")
    if k in ("return", "result"):
        e = s[1]
        try:
            return as_bool(cond(e, env, cx))
        except TranslateError:
            return num(e, env, cx)
    if k == "if":
        if s[1] == ("var", "DEBUG"):
            return tr(rest, env, cx, result, ind)
        c = as_if(cond(s[1], env, cx))
        if has_return(s[2]) or has_return(s[3]):
            # early return: the rest of the list is the continuation of the branch that falls through
            a = tr(s[2] + ([] if ends_with_return(s[2]) else rest), env, cx, result, ind + 1)
            b = tr(s[3] + ([] if ends_with_return(s[3]) else rest), env, cx, result, ind + 1)
            return f"if {c} then\n{pad}  ({a})\n{pad}else\n{pad}  ({b})"
        vs = assigned([s])
        if not vs:
            return tr(rest, env, cx, result, ind)
        for v in vs:
            if v not in env:
                raise TranslateError(f"{cx.fname}: assignment to undeclared {v}")
        outs = lambda e2: tuple_of([e2[v] for v in vs])
        a = tr(s[2], env, cx, outs, ind + 1)
        b = tr(s[3], env, cx, outs, ind + 1)
        names = [lean_name(v) for v in vs]
        env2 = dict(env)
        for v, n in zip(vs, names):
            env2[v] = n
        pat = names[0] if len(names) == 1 else "(" + ", ".join(names) + ")"
        ty = "R" if len(names) == 1 else " × ".join(["R"] * len(names))
        return (f"let {pat} : {ty} :=\n{pad}  (if {c} then\n{pad}    ({a})\n{pad}  else\n{pad}    ({b}));\n{pad}"
                + tr(rest, env2, cx, result, ind))
    if k == "while":
        vs = assigned(s[2])
        fv = set()
        free_vars_expr(s[1], fv)
        free_vars(s[2], fv)
        params = sorted(v for v in fv if v not in vs and v in env)
        cx.nloops += 1
        lname = f"{cx.fname}Loop{cx.nloops if cx.nloops > 1 else ''}"
        penv = {v: lean_name(v) for v in params}
        venv = {v: lean_name(v) for v in vs}
        inner_env = dict(penv); inner_env.update(venv)
        for cname in CONSTS:
            pass
        c = as_if(cond(s[1], inner_env, cx))
        body = tr(s[2], inner_env, cx, lambda e2: f"{lname} {' '.join(penv[v] for v in params)} n {' '.join(e2[v] for v in vs)}".replace("  ", " "), 3)
        ty = "R" if len(vs) == 1 else " × ".join(["R"] * len(vs))
        pdecl = "".join(f" ({penv[v]} : R)" for v in params)
        zero_pat = ", ".join(["0"] + [venv[v] for v in vs])
        succ_pat = ", ".join(["n + 1"] + [venv[v] for v in vs])
        cx.aux.append(
            f"/-- the `while` loop of `{cx.fname}` (fuel-bounded) -/\n"
            f"def {lname}{pdecl} : Nat → {' → '.join(['R'] * len(vs))} → {ty}\n"
            f"  | {zero_pat} => {tuple_of([venv[v] for v in vs])}\n"
            f"  | {succ_pat} =>\n      if {c} then\n        ({body})\n      else {tuple_of([venv[v] for v in vs])}\n")
        names = [lean_name(v) for v in vs]
        env2 = dict(env)
        call = f"{lname} {' '.join(env[v] for v in params)} {cx.fuel} {' '.join(env[v] for v in vs)}".replace("  ", " ")
        for v, n in zip(vs, names):
            env2[v] = n
        pat = names[0] if len(names) == 1 else "(" + ", ".join(names) + ")"
        ty2 = "R" if len(names) == 1 else " × ".join(["R"] * len(names))
        return f"let {pat} : {ty2} := {call};\n{pad}" + tr(rest, env2, cx, result, ind)
    raise TranslateError(f"{cx.fname}: unsupported statement {k}")


def ends_with_return(stmts):
    if not stmts:
        return False
    s = stmts[-1]
    if s[0] in ("return", "result"):
        return True
    if s[0] == "if":
        return ends_with_return(s[2]) and ends_with_return(s[3])
    return False


# ------------------------------------------------------------------------------------------------
def fn_body(src, name):
    """text between the braces of `fn name(...) ... {` (brace matching), and its parameter list"""
    m = re.search(r"fn " + re.escape(name) + r"\s*\(([^)]*)\)[^{]*\{", src)
    if not m:
        raise TranslateError("function not found: " + name)
    i, depth = m.end(), 1
    while depth:
        ch = src[i]
        if ch == "{":
            depth += 1
        elif ch == "}":
            depth -= 1
        i += 1
    params = [p.split(":")[0].strip() for p in m.group(1).split(",") if p.strip() and "self" not in p]
    return src[m.end():i - 1], params


def translate_fn(src, rust_name, lean_name_, ret, fuel="0", localfns=None, result_var=None, env0=None, params=None, doc=""):
    body, ps = fn_body(src, rust_name)
    if params is None:
        params = ps
    return translate_body(body, rust_name, lean_name_, params, ret, fuel, localfns, result_var, env0, doc)


def translate_body(body, rust_name, lean_name_, params, ret, fuel="0", localfns=None, result_var=None, env0=None, doc="", letif_num=False):
    cx = Ctx(lean_name_, fuel, localfns)
    cx.letif_num = letif_num
    env = {p: lean_name(p) for p in params}
    if env0:
        env.update(env0)
    stmts = P(tokenize(body)).stmts_until_eof()
    if result_var is not None:
        res = (lambda e: tuple_of([e[v] for v in result_var])) if isinstance(result_var, list) else (lambda e: e[result_var])
    else:
        def res(e):
            raise TranslateError(f"{rust_name}: falls off the end without a value")
    term = tr(stmts, env, cx, res, 1)
    pdecl = " ".join(f"({lean_name(p)} : R)" for p in params)
    text = "".join(a + "\n" for a in cx.aux)
    text += f"/-- {doc or ('`' + rust_name + '`')} -/\ndef {lean_name_} {pdecl} : {ret} :=\n  {term}\n"
    return text


def strip_nested_fn(body, name):
    """remove a nested `fn name(..) {..}` from a body, returning (body without it, nested source)"""
    m = re.search(r"fn " + re.escape(name) + r"\s*\(", body)
    if not m:
        raise TranslateError("nested function not found: " + name)
    j = body.index("{", m.end())
    depth, i = 1, j + 1
    while depth:
        if body[i] == "{":
            depth += 1
        elif body[i] == "}":
            depth -= 1
        i += 1
    return body[:m.start()] + body[i:], body[m.start():i]


def generate(kin_src, cons_src):
    L = ["/- GENERATED by tools/rs2lean_ctl.py from /repo/src/kinematics_impl.rs and /repo/src/constraints.rs on every run.",
         "   Do not edit.  Branching helpers translated statement by statement; `while` loops are fuel-bounded. -/",
         "import OpwVerif.Kin", "set_option linter.unusedVariables false", "namespace Opw.SrcCtl", "open Opw", "variable {R : Type} [OpwNum R]", ""]
    L.append(translate_fn(kin_src, "is_close_to_multiple_of_pi", "isCloseToMultipleOfPiSrc", "Bool"))
    L.append(translate_fn(kin_src, "are_angles_close", "areAnglesCloseSrc", "Bool", fuel="4"))
    # normalize_near with its nested adjust
    body, params = fn_body(kin_src, "normalize_near")
    outer, nested = strip_nested_fn(body, "adjust")
    L.append(translate_fn(nested, "adjust", "adjustSrc", "R", result_var="now"))
    L.append(translate_body(outer, "normalize_near", "normalizeNearSrc", params, "R",
                            localfns={"adjust": "adjustSrc"}, result_var="now"))
    # compare_poses: the two threshold tests; the distances themselves are nalgebra calls (checked textually)
    body, params = fn_body(kin_src, "compare_poses")
    need = ["let translation_distance = (ta.translation.vector - tb.translation.vector).norm();",
            "let angular_distance = ta.rotation.angle_to(&tb.rotation);"]
    flat = " ".join(re.sub(r"//[^\n]*", "", body).split())
    for n in need:
        if n not in flat:
            raise TranslateError("compare_poses no longer contains: " + n)
        flat = flat.replace(n, "")
    flat = re.sub(r"println!\([^;]*\);", "", flat)
    L.append(translate_body(flat, "compare_poses", "comparePosesSrc",
                            ["translation_distance", "angular_distance", "distance_tolerance", "angular_tolerance"], "Bool",
                            doc="`compare_poses` after the two distances have been computed"))
    # kinematic_singularity: `Some(Singularity::A)` / `None` read as true / false
    body, _ = fn_body(kin_src, "kinematic_singularity")
    flat = " ".join(re.sub(r"//[^\n]*", "", body).split())
    for a, b in [("let p = &self.parameters;", ""), ("joints[J5]", "joints_J5"), ("p.sign_corrections[J5] as f64", "sign_J5"),
                 ("p.offsets[J5]", "offset_J5"), ("Some(Singularity::A)", "true"), ("None", "false")]:
        if a not in flat:
            raise TranslateError("kinematic_singularity no longer contains: " + a)
        flat = flat.replace(a, b)
    cx = Ctx("kinematicSingularitySrc", "0")
    cx.boolfns = {"is_close_to_multiple_of_pi": "isCloseToMultipleOfPiSrc"}
    def _none(e):
        raise TranslateError("kinematic_singularity: falls off the end")
    term = tr(P(tokenize(flat)).stmts_until_eof(), {"joints_J5": "j.j5", "sign_J5": "p.signs.j5", "offset_J5": "p.offsets.j5"}, cx, _none, 1)
    L.append("/-- `kinematic_singularity` (`Some(Singularity::A)` = true) -/\ndef kinematicSingularitySrc (p : Params R) (j : J6 R) : Bool :=\n  " + term + "\n")
    # the wrist-singular recovery inside inverse_continuing: from the raw singular answer `now` and `previous` to the
    # candidate with J4 / J6 redistributed (the block between `let s; let s_n;` and the final pose check)
    body, _ = fn_body(kin_src, "inverse_continuing")
    flat = " ".join(re.sub(r"//[^\n]*", "", body).split())
    m = re.search(r"let s; let s_n; if let Some\(Singularity::A\) = singularity \{ let mut now = ik\[s_idx\]; (.*?) let check_pose = self\.forward\(&now\);", flat)
    if not m:
        raise TranslateError("inverse_continuing: the singular recovery block `let s; let s_n; if let Some(Singularity::A) = singularity { let mut now = ik[s_idx]; .. let check_pose = self.forward(&now);` was not found")
    blk = "let mut s = 0.0; let mut s_n = 0.0; " + m.group(1)
    for a, b in [("let p = &self.parameters;", ""), ("p.sign_corrections[J4] as f64", "sign_J4"), ("p.sign_corrections[J5] as f64", "sign_J5"),
                 ("p.sign_corrections[J6] as f64", "sign_J6"), ("p.offsets[J5]", "offset_J5"),
                 ("normalize_near(&mut now[J5], previous[J5]);", "normalize_near(now_J5, previous_J5);")]:
        if a not in blk:
            raise TranslateError("inverse_continuing (singular recovery) no longer contains: " + a)
        blk = blk.replace(a, b)
    for j in ("J4", "J5", "J6"):
        blk = blk.replace(f"now[{j}]", f"now_{j}").replace(f"previous[{j}]", f"previous_{j}")
    if "[" in blk:
        raise TranslateError("inverse_continuing (singular recovery): unexpected indexing left in `" + blk + "`")
    cx = Ctx("singularCandidateSrc", "normFuel", {"normalize_near": "normalizeNearSrc"})
    cx.boolfns = {"are_angles_close": "areAnglesCloseSrc"}
    env = {"sign_J4": "p.signs.j4", "sign_J5": "p.signs.j5", "sign_J6": "p.signs.j6", "offset_J5": "p.offsets.j5",
           "previous_J4": "previous.j4", "previous_J5": "previous.j5", "previous_J6": "previous.j6",
           "now_J4": "now.j4", "now_J5": "now.j5", "now_J6": "now.j6"}
    term = tr(P(tokenize(blk)).stmts_until_eof(), env, cx, lambda e: tuple_of([e["now_J4"], e["now_J5"], e["now_J6"]]), 1)
    L.append("".join(a + "\n" for a in cx.aux) +
             "/-- the wrist-singular recovery of `inverse_continuing`: `(now[J4], now[J5], now[J6])` after the block -/\n"
             "def singularCandidateSrc (p : Params R) (previous now : J6 R) : R × R × R :=\n  " + term + "\n")
    # sort_by_closeness: which comparator is used when, and the cost the weighted comparator computes for its two arguments
    body, _ = fn_body(kin_src, "sort_by_closeness")
    flat = " ".join(re.sub(r"//[^\n]*", "", body).split())
    CMP = "distance_a.partial_cmp(&distance_b).unwrap_or(std::cmp::Ordering::Equal)"
    m = re.match(r"let sorting_weight = self\.constraints\.as_ref\(\) \.map_or\(BY_PREV, \|c\| c\.sorting_weight\); if sorting_weight == BY_PREV \{ "
                 r"solutions\.sort_by\(\|a, b\| \{ (.*?) \}\); \} else \{ let constraints = self\.constraints\.as_ref\(\)\.unwrap\(\); "
                 r"solutions\.sort_by\(\|a, b\| \{ (.*?) \}\); \}$", flat)
    if not m:
        raise TranslateError("sort_by_closeness no longer has the shape `weight = map_or(BY_PREV, ..); if weight == BY_PREV { sort_by(plain) } else { sort_by(weighted) }`")
    plain, weighted = m.groups()
    if plain != "let distance_a = calculate_distance(a, previous); let distance_b = calculate_distance(b, previous); " + CMP:
        raise TranslateError("sort_by_closeness: the plain comparator is no longer distance-to-previous: " + plain)
    if not weighted.endswith(CMP):
        raise TranslateError("sort_by_closeness: the weighted comparator no longer ends with " + CMP)
    weighted = weighted[:-len(CMP)]
    for a, b in [("let prev_a; let prev_b;", "let mut prev_a = 0.0; let mut prev_b = 0.0;"), ("calculate_distance(a, previous)", "d_prev_a"),
                 ("calculate_distance(b, previous)", "d_prev_b"), ("calculate_distance(a, &constraints.centers)", "d_cons_a"),
                 ("calculate_distance(b, &constraints.centers)", "d_cons_b")]:
        if a not in weighted:
            raise TranslateError("sort_by_closeness (weighted comparator) no longer contains: " + a)
        weighted = weighted.replace(a, b)
    if "calculate_distance" in weighted or "constraints" in weighted:
        raise TranslateError("sort_by_closeness (weighted comparator): unexpected distance left in `" + weighted + "`")
    CONSTS["BY_CONSTRAINS"] = "byConstraints"; CONSTS["BY_PREV"] = "byPrev"
    L.append(translate_body(weighted, "sort_by_closeness", "sortCostPairSrc", ["sorting_weight", "d_prev_a", "d_prev_b", "d_cons_a", "d_cons_b"], "R × R",
                            result_var=["distance_a", "distance_b"],
                            doc="the weighted comparator of `sort_by_closeness` (used when the weight is not BY_PREV): `(distance_a, distance_b)` from the "
                                "four distances to previous / to the constraint centres"))
    # constraints.rs
    L.append(translate_fn(cons_src, "inside_bounds", "insideBoundsSrc", "Bool"))
    body, _ = fn_body(cons_src, "compute_centers")
    flat = " ".join(re.sub(r"//[^\n]*", "", body).split())
    m = re.search(r"let mut centers: Joints = JOINTS_AT_ZERO; let mut tolerances: Joints = JOINTS_AT_ZERO; for j_idx in 0\.\.6 \{(.*)\} \(centers, tolerances\)$", flat)
    if not m:
        raise TranslateError("compute_centers no longer has the shape `zeros; for j_idx in 0..6 { .. } (centers, tolerances)`")
    L.append(translate_body(m.group(1), "compute_centers", "centerTolSrc", ["from[j_idx]", "to[j_idx]"], "R × R", fuel="normFuel",
                            result_var=["centers[j_idx]", "tolerances[j_idx]"],
                            env0={"centers[j_idx]": "0", "tolerances[j_idx]": "0"},
                            doc="one iteration of the `for j_idx` loop of `compute_centers`: `(centers[j_idx], tolerances[j_idx])`"))
    L.append("end Opw.SrcCtl")
    return "\n".join(L) + "\n"


def generate_cons_obj(cons_src):
    """`Constraints::new` and `Constraints::update_range` as functions on the whole object: which expression each field
    of the result is taken from (the per-joint arithmetic of compute_centers is translated separately)"""
    out = []
    def side(x):
        x = x.strip()
        if x in ("from", "to"):
            return x + "_"
        if x in ("self.from", "self.to"):
            return "self." + ("from_" if x.endswith("from") else "to")
        raise TranslateError("unsupported argument of compute_centers: " + x)
    # ---- new
    body, _ = fn_body(cons_src, "new")
    flat = " ".join(re.sub(r"//[^\n]*", "", body).split())
    m = re.match(r"let \(centers, tolerances\) = Self::compute_centers\(([\w.]+), ([\w.]+)\); Constraints \{ from: (\w+), to: (\w+), "
                 r"centers: (\w+), tolerances: (\w+), sorting_weight: (\w+),? \}$", flat)
    if not m:
        raise TranslateError("Constraints::new no longer has the shape `compute_centers(..); Constraints { .. }`")
    a, b, ff, tt, cc, tl, sw = m.groups()
    val = {"from": "from_", "to": "to_", "centers": "ct.1", "tolerances": "ct.2", "sorting_weight": "w"}
    for x in (ff, tt, cc, tl, sw):
        if x not in val:
            raise TranslateError("Constraints::new: unknown field source " + x)
    out.append("/-- `Constraints::new` -/\ndef newSrc (from_ to_ : J6 R) (w : R) : Constraints R :=\n"
               f"  let ct := centersOf {side(a)} {side(b)};\n"
               f"  {{ from_ := {val[ff]}, to := {val[tt]}, centers := {val[cc]}, tolerances := {val[tl]}, sortingWeight := {val[sw]} }}\n")
    # ---- from_degrees: limits converted joint by joint, NOTHING else converted, then exactly as `new`
    body, _ = fn_body(cons_src, "from_degrees")
    flat = " ".join(re.sub(r"//[^\n]*", "", body).split())
    arr = lambda which: "[ " + " ".join(f"ranges[{i}].{which}().to_radians()," for i in range(6)) + " ]"
    m = re.match(r"^let from: Joints = " + re.escape(arr("start")) + r"; let to: Joints = " + re.escape(arr("end")) +
                 r"; let \(centers, tolerances\) = Self::compute_centers\(([\w.]+), ([\w.]+)\); Constraints \{ (\w+), (\w+), (\w+), (\w+), (\w+),? \}$", flat)
    if not m:
        raise TranslateError("Constraints::from_degrees no longer has the shape: from = starts in radians; to = ends in radians; "
                             "compute_centers(from, to); Constraints { from, to, centers, tolerances, sorting_weight }: " + flat)
    a, b = m.group(1), m.group(2)
    if list(m.groups()[2:]) != ["from", "to", "centers", "tolerances", "sorting_weight"]:
        raise TranslateError("Constraints::from_degrees: fields initialised from other variables: " + str(m.groups()[2:]))
    out.append("/-- `Constraints::from_degrees` (`lo` / `hi` = the range starts / ends in degrees) -/\n"
               "def fromDegreesSrc (lo hi : J6 R) (w : R) : Constraints R :=\n"
               "  let from_ : J6 R := lo.map toRadians;\n  let to_ : J6 R := hi.map toRadians;\n"
               f"  let ct := centersOf {side(a)} {side(b)};\n"
               "  { from_ := from_, to := to_, centers := ct.1, tolerances := ct.2, sortingWeight := w }\n")
    # ---- update_range
    body, _ = fn_body(cons_src, "update_range")
    flat = " ".join(re.sub(r"//[^\n]*", "", body).split())
    m = re.match(r"let \(centers, tolerances\) = Self::compute_centers\(([\w.]+), ([\w.]+)\); (.*)$", flat)
    if not m:
        raise TranslateError("update_range no longer starts with `let (centers, tolerances) = Self::compute_centers(..)`")
    a, b, rest = m.groups()
    fields = {"from": "self.from_", "to": "self.to", "centers": "self.centers", "tolerances": "self.tolerances", "sorting_weight": "self.sortingWeight"}
    val2 = {"from": "from_", "to": "to_", "centers": "ct.1", "tolerances": "ct.2"}
    for st in [x.strip() for x in rest.split(";") if x.strip()]:
        mm = re.match(r"self\.(\w+) = (\w+)$", st)
        if not mm or mm.group(1) not in fields or mm.group(2) not in val2:
            raise TranslateError("update_range: unsupported statement `" + st + "`")
        fields[mm.group(1)] = val2[mm.group(2)]
    out.append("/-- `Constraints::update_range` (the object after the call) -/\ndef updateRangeSrc (self : Constraints R) (from_ to_ : J6 R) : Constraints R :=\n"
               f"  let ct := centersOf {side(a)} {side(b)};\n"
               f"  {{ from_ := {fields['from']}, to := {fields['to']}, centers := {fields['centers']}, tolerances := {fields['tolerances']}, "
               f"sortingWeight := {fields['sorting_weight']} }}\n")
    # ---- random_angles: the nested per-joint function with the uniform draw as a parameter, and the six calls
    body, _ = fn_body(cons_src, "random_angles")
    outer, nested = strip_nested_fn(body, "random_angle")
    oflat = " ".join(re.sub(r"//[^\n]*", "", outer).split())
    want = "[ " + " ".join(f"random_angle(self.from[{i}], self.to[{i}])," for i in range(6)) + " ]"
    if oflat != want:
        raise TranslateError("random_angles no longer draws joint i from (from[i], to[i]) for i = 0..5: " + oflat)
    nb, _ = fn_body(nested, "random_angle")
    nflat = " ".join(re.sub(r"//[^\n]*", "", nb).split())
    for a, b in [("let mut rng = rand::thread_rng();", ""), ("rng.gen_range(0.0..(to - from))", "u_draw"), ("rng.gen_range(0.0..range_length)", "u_draw")]:
        if a not in nflat:
            raise TranslateError("random_angle no longer contains: " + a)
        nflat = nflat.replace(a, b)
    if "rng" in nflat:
        raise TranslateError("random_angle: another use of the generator: " + nflat)
    out.append(translate_body(nflat, "random_angle", "randomAngleSrc", ["from", "to", "u_draw"], "R",
                              doc="the per-joint sampler nested in `random_angles`; `u_draw` stands for the value `gen_range(0.0..len)` returns "
                                  "(len = to - from, resp. range_length)", letif_num=True))
    return ("/- GENERATED by tools/rs2lean_ctl.py from /repo/src/constraints.rs on every run. Do not edit. -/\n"
            "import OpwVerif.Kin\nset_option linter.unusedVariables false\nnamespace Opw.SrcCons\nopen Opw\nvariable {R : Type} [OpwNum R]\n\n"
            "/-- `compute_centers` on whole joint arrays: `(centers, tolerances)`, joint by joint through the model's `centerTol` -/\n"
            "def centersOf (f t : J6 R) : J6 R × J6 R :=\n"
            "  (J6.zipWith (fun a b => (centerTol a b).1) f t, J6.zipWith (fun a b => (centerTol a b).2) f t)\n\n"
            + "\n".join(out) + "\nend Opw.SrcCons\n")


def min_distance_src(coll_src):
    """`SafetyDistances::min_distance`: a chain of map look-ups (`if let Some(r) = self.special_distances.get(&(a, b))`), index
    tests against ENV_START_IDX and field returns; the order of the branches is what is translated"""
    body, _ = fn_body(coll_src, "min_distance")
    flat = " ".join(re.sub(r"//[^\n]*", "", body).split())
    names = {"from": "from_", "to": "to_"}
    fields = {"to_environment": "s.toEnvironment", "to_robot_default": "s.toRobotDefault"}
    lines, rest, closed = [], flat, False
    while rest:
        rest = rest.strip()
        if rest.startswith("else "):
            rest = rest[5:].strip()
        m = re.match(r"if let Some\((\w+)\) = self\.special_distances\.get\(&\((\w+), (\w+)\)\) \{ return (\w+); \}", rest)
        if m:
            r_, a, b, ret = m.groups()
            if r_ != ret or a not in names or b not in names:
                raise TranslateError("min_distance: unsupported look-up `" + m.group(0) + "`")
            lines.append(f"  match lookupPair s.special {names[a]} {names[b]} with\n  | some r => r\n  | none =>")
            rest = rest[m.end():]
            continue
        m = re.match(r"if ([^{]*) \{ return &self\.(\w+); \}", rest)
        if m:
            cond, fld = m.groups()
            parts = []
            for c in cond.split("||"):
                mm = re.match(r"^\s*(\w+) as usize (>=|>|<=|<) ENV_START_IDX\s*$", c)
                if not mm or mm.group(1) not in names:
                    raise TranslateError("min_distance: unsupported condition `" + cond + "`")
                parts.append(f"{names[mm.group(1)]} {({'>=': '≥', '>': '>', '<=': '≤', '<': '<'})[mm.group(2)]} envStart")
            if fld not in fields:
                raise TranslateError("min_distance: unknown field " + fld)
            lines.append(f"  if {' || '.join(parts)} then {fields[fld]} else")
            rest = rest[m.end():]
            continue
        m = re.match(r"\{ return &self\.(\w+); \}$", rest)
        if m and m.group(1) in fields:
            lines.append(f"  {fields[m.group(1)]}")
            closed = True
            break
        raise TranslateError("min_distance: cannot read `" + rest[:80] + "`")
    if not closed:
        raise TranslateError("min_distance: no final branch")
    return ("/-- `SafetyDistances::min_distance`: the branches in source order (`lookupPair` is the hash-map look-up) -/\n"
            "def minDistanceSrc (s : Safety R) (from_ to_ : Nat) : R :=\n" + "\n".join(lines) + "\n")


def tasks_src(coll_src):
    """`RobotBody::detect_collisions_with_skips`: which pairs of bodies become collision tasks, in push order.  Nested
    `if` / `if let Some(..)` / `for` blocks around `tasks.push(CollisionTask { i, j, transform_i, transform_j, shape_i, shape_j })`;
    every push is checked to hand over the pose and the mesh that belong to its two indices."""
    body, _ = fn_body(coll_src, "detect_collisions_with_skips")
    flat = " ".join(re.sub(r"//[^\n]*", "", body).split())
    pre = "let mut tasks = Vec::with_capacity(self.count_tasks(&skip)); let check_tool = !skip.contains(&J_TOOL); "
    post = " Self::process_collision_tasks(tasks, safety_distances, override_mode)"
    if not (flat.startswith(pre) and flat.endswith(post)):
        raise TranslateError("detect_collisions_with_skips: prologue / epilogue changed")
    IDX = {"J_TOOL": ("jTool", "&joint_poses[J6]", "&tool"), "J_BASE": ("jBase", "&base.base_pose", "&base.mesh"),
           "i": ("i", "&joint_poses[i]", "&self.joint_meshes[i]"), "j": ("j", "&joint_poses[j]", "&self.joint_meshes[j]"),
           "(ENV_START_IDX + env_idx)": ("e", "&env_obj.pose", "&env_obj.mesh"), "ENV_START_IDX + env_idx": ("e", "&env_obj.pose", "&env_obj.mesh")}
    JN = {"J1": 0, "J2": 1, "J3": 2, "J4": 3, "J5": 4, "J6": 5}

    def idx(t):
        t = t.strip()
        t = re.sub(r" as (usize|u16)$", "", t).strip()
        if t not in IDX:
            raise TranslateError("detect_collisions_with_skips: unknown body index `" + t + "`")
        return IDX[t]

    def cond(c):
        ors = []
        for o in c.split("||"):
            ands = []
            for a in o.split("&&"):
                a = a.strip()
                m = re.match(r"^self\.check_required\((.*), (.*), &skip\)$", a)
                if a == "check_tool":
                    ands.append("checkTool")
                elif m:
                    ands.append(f"checkRequired own skip {idx(m.group(1))[0]} {idx(m.group(2))[0]}")
                elif re.match(r"^(i|j) != J[1-6]$", a):
                    ands.append(f"{a[0]} != {JN[a[-2:]]}")
                elif re.match(r"^!skip\.contains\(&(i|j)\)$", a):
                    ands.append(f"!(skip.contains {a[-2]})")
                elif a == "j - i > 1":
                    ands.append("j - i > 1")
                else:
                    raise TranslateError("detect_collisions_with_skips: unsupported condition `" + a + "`")
            ors.append(" && ".join(ands))
        return ors[0] if len(ors) == 1 else "(" + " || ".join(ors) + ")"

    def take(text):
        """text starts right after an opening brace; -> (inside, rest after the closing brace)"""
        depth, k = 1, 0
        while depth:
            if k >= len(text):
                raise TranslateError("detect_collisions_with_skips: unbalanced braces")
            if text[k] == "{":
                depth += 1
            elif text[k] == "}":
                depth -= 1
            k += 1
        return text[:k - 1].strip(), text[k:].strip()

    def block(text, alias):
        parts = []
        alias = dict(alias)
        text = text.strip()
        while text:
            m = re.match(r"let (accessory_pose|accessory) = (&[\w.\[\]]+);", text)
            if m:
                alias["&" + m.group(1) if m.group(1) == "accessory" else m.group(1)] = m.group(2)
                text = text[m.end():].strip()
                continue
            m = re.match(r"tasks\.push\(CollisionTask \{ i: ([^,]*), j: ([^,]*), transform_i: ([^,]*), transform_j: ([^,]*), shape_i: ([^,]*), shape_j: ([^,]*), \}\);", text)
            if m:
                a, b = idx(m.group(1)), idx(m.group(2))
                got = [alias.get(x.strip(), x.strip()) for x in m.groups()[2:]]
                if got != [a[1], b[1], a[2], b[2]]:
                    raise TranslateError(f"detect_collisions_with_skips: task ({a[0]}, {b[0]}) is handed other poses / meshes: {got}")
                parts.append(f"[({a[0]}, {b[0]})]")
                text = text[m.end():].strip()
                continue
            for pat, head, tail in [
                (r"if let Some\(tool\) = &self\.tool \{", "(if sc.hasTool then ", " else [])"),
                (r"if let Some\(base\) = &self\.base \{", "(if sc.hasBase then ", " else [])"),
                (r"if let \(Some\(tool\), Some\(base\)\) = \(&self\.tool, &self\.base\) \{", "(if sc.hasTool && sc.hasBase then ", " else [])"),
                (r"for \(env_idx, env_obj\) in self\.collision_environment\.iter\(\)\.enumerate\(\) \{", "((envIds sc.envLen).flatMap (fun e => ", "))"),
                (r"for i in 0\.\.6 \{", "((List.range 6).flatMap (fun i => ", "))"),
                (r"for j in \(\(i \+ 1\)\.\.6\)\.rev\(\) \{", "(((List.range 6).reverse).flatMap (fun j => if j > i then ", " else []))"),
            ]:
                m = re.match(pat, text)
                if m:
                    inside, text = take(text[m.end():])
                    parts.append(head + block(inside, alias) + tail)
                    break
            else:
                m = re.match(r"if ([^{]*) \{", text)
                if not m:
                    raise TranslateError("detect_collisions_with_skips: cannot read `" + text[:70] + "`")
                inside, text = take(text[m.end():])
                parts.append(f"(if {cond(m.group(1))} then {block(inside, alias)} else [])")
        return " ++ ".join(parts) if parts else "[]"

    term = block(flat[len(pre):-len(post)], {"accessory_pose": None})
    return ("/-- `RobotBody::detect_collisions_with_skips`: the pairs that become collision tasks, in push order (`sc.hasTool`, `sc.hasBase`,\n"
            "`sc.envLen` describe the body; `e` runs over the environment indices) -/\n"
            "def tasksSrc (sc : Scene R) (own : Safety R) (skip : List Nat) : List (Nat × Nat) :=\n"
            "  let checkTool := !(skip.contains jTool);\n  " + term + "\n")


def check_required_src(coll_src):
    body, _ = fn_body(coll_src, "check_required")
    flat = " ".join(re.sub(r"//[^\n]*", "", body).split())
    if flat != ("let unmoved = |k: usize| skip.contains(&k) || k == J_BASE || k >= ENV_START_IDX; "
                "!(unmoved(i) && unmoved(j)) && self.safety.min_distance(i as u16, j as u16) > &NEVER_COLLIDES"):
        raise TranslateError("check_required changed: " + flat)
    return ("/-- `check_required`: not both bodies unmoved, and the pair's distance in the body's OWN table above NEVER_COLLIDES -/\n"
            "def checkRequiredSrc (own : Safety R) (skip : List Nat) (i j : Nat) : Bool :=\n"
            "  let unmoved := fun (k : Nat) => skip.contains k || k == jBase || k ≥ envStart;\n"
            "  !(unmoved i && unmoved j) && decide (minDistanceSrc own i j > neverCollides)\n")


def body_after(src, header):
    """body of the function whose header text starts with `header` (for names that occur twice in a file)"""
    k = src.find(header)
    if k < 0:
        raise TranslateError("not found: " + header)
    j = src.index("{", src.index(")", k))
    # skip a return type that contains no brace
    depth, i = 1, j + 1
    while depth:
        if src[i] == "{":
            depth += 1
        elif src[i] == "}":
            depth -= 1
        i += 1
    return " ".join(re.sub(r"//[^\n]*", "", src[j + 1:i - 1]).split())


def robot_body_src(coll_src):
    """the public methods of `RobotBody` and `process_collision_tasks`: which safety table, which mode override and which skip
    set reach `detect_collisions_with_skips`, and what is done with the task verdicts per mode"""
    POSES = ("let joint_poses = kinematics.forward_with_joint_poses(qs); let joint_poses_f32: [Isometry3<f32>; 6] = "
             "joint_poses.map(|pose| pose.cast::<f32>()); ")
    SAF = {"&self.safety": "own", "&safety_distances": "other", "&safety": "safety"}
    MODE = {"None": "none", "Some(CheckMode::FirstCollisionOnly)": "(some CheckMode.firstCollisionOnly)",
            "&Some(CheckMode::FirstCollisionOnly)": "(some CheckMode.firstCollisionOnly)",
            "Some(CheckMode::AllCollsions)": "(some CheckMode.allCollisions)", "&override_mode": "overrideMode"}
    out = []
    # process_collision_tasks
    f = body_after(coll_src, "fn process_collision_tasks(")
    if f != ("let mode = override_mode.unwrap_or(safety.mode); if mode == CheckMode::NoCheck { Vec::new() } else if mode == CheckMode::FirstCollisionOnly "
             "{ tasks .par_iter() .find_map_any(|task| task.collides(&safety)) .into_iter() .collect() } else { tasks .par_iter() "
             ".filter_map(|task| task.collides(&safety)) .collect() }"):
        raise TranslateError("process_collision_tasks changed: " + f)
    out.append("/-- `process_collision_tasks`: mode = override or the table's own; nothing / any one colliding task (`find_map_any`, the model's\n"
               "`choice`) / all colliding tasks in task order -/\n"
               "def processTasksSrc (sc : Scene R) (safety : Safety R) (overrideMode : Option CheckMode) (ts : List (Nat × Nat))\n"
               "    (choice : List (Nat × Nat) → Option (Nat × Nat)) : List (Nat × Nat) :=\n"
               "  let mode := overrideMode.getD safety.mode;\n"
               "  let hits := (ts.filter (fun p => taskCollides sc safety p.1 p.2)).map normPair;\n"
               "  if mode == CheckMode.noCheck then []\n"
               "  else if mode == CheckMode.firstCollisionOnly then\n"
               "    (match hits with\n     | [] => []\n     | h :: _ => match choice hits with\n       | some c => if hits.contains c then [c] else [h]\n       | none => [h])\n"
               "  else hits\n")
    # detect_collisions -> detect_collisions_with_skips with the empty skip set
    f = body_after(coll_src, "fn detect_collisions(")
    m = re.match(r"^let empty_set: HashSet<usize> = HashSet::with_capacity\(0\); self\.detect_collisions_with_skips\(joint_poses, (&\w+), (&\w+), &empty_set\) "
                 r"\.iter\(\) \.map\(\|&col_pair\| \(col_pair\.0 as usize, col_pair\.1 as usize\)\) \.collect\(\)$", f)
    if not m or m.group(1) not in SAF or m.group(2) not in MODE:
        raise TranslateError("detect_collisions changed: " + f)
    out.append("/-- `detect_collisions`: no skipped links -/\ndef detectCollisionsSrc (sc : Scene R) (own safety : Safety R) (overrideMode : Option CheckMode)\n"
               "    (choice : List (Nat × Nat) → Option (Nat × Nat)) : List (Nat × Nat) :=\n"
               f"  processTasksSrc sc {SAF[m.group(1)]} {MODE[m.group(2)]} (tasksSrc sc own []) choice\n")
    for name, lean in [("collision_details", "collisionDetailsSrc"), ("near", "nearSrc")]:
        f = body_after(coll_src, f"pub fn {name}(")
        m = re.match(r"^" + re.escape(POSES) + r"self\.detect_collisions\(&joint_poses_f32, ([&\w.]+), (\w+)\)$", f)
        if not m or m.group(1) not in SAF or m.group(2) not in MODE:
            raise TranslateError(f"RobotBody::{name} changed: " + f)
        out.append(f"/-- `RobotBody::{name}` at the scene placed by forward kinematics -/\ndef {lean} (sc : Scene R) (own other : Safety R)\n"
                   "    (choice : List (Nat × Nat) → Option (Nat × Nat)) : List (Nat × Nat) :=\n"
                   f"  detectCollisionsSrc sc own {SAF[m.group(1)]} {MODE[m.group(2)]} choice\n")
    f = body_after(coll_src, "pub fn collides(&self, qs")
    m = re.match(r"^if self\.safety\.mode == CheckMode::NoCheck \{ return false; \} " + re.escape(POSES) +
                 r"let safety = (&[\w.]+); let override_mode = ([\w:()]+); let empty_set: HashSet<usize> = HashSet::with_capacity\(0\); "
                 r"!self \.detect_collisions_with_skips\(&joint_poses_f32, &safety, &override_mode, &empty_set\) \.is_empty\(\)$", f)
    if not m or m.group(1) not in SAF or m.group(2) not in MODE:
        raise TranslateError("RobotBody::collides changed: " + f)
    out.append("/-- `RobotBody::collides` -/\ndef collidesSrc (sc : Scene R) (own : Safety R) (choice : List (Nat × Nat) → Option (Nat × Nat)) : Bool :=\n"
               f"  if own.mode == CheckMode.noCheck then false\n  else !(processTasksSrc sc {SAF[m.group(1)]} {MODE[m.group(2)]} (tasksSrc sc own []) choice).isEmpty\n")
    # non_colliding_offsets: one idiom
    f = body_after(coll_src, "pub fn non_colliding_offsets(")
    want = ("let mut tasks = Vec::with_capacity(12); for joint_index in 0..6 { for &target in &[from, to] { tasks.push((joint_index, target)); } } "
            "let initial_poses = kinematics.forward_with_joint_poses(initial); tasks .par_iter() .filter_map(|&(joint_index, target)| { "
            "let mut new_joints = *initial; new_joints[joint_index] = target[joint_index]; if let Some(constraints) = kinematics.constraints() { "
            "if !constraints.compliant(&new_joints) { return None; } } if self.safety.mode == CheckMode::NoCheck { return Some(new_joints); } "
            "let joint_poses = kinematics.forward_with_joint_poses(&new_joints); let joint_poses_f32: [Isometry3<f32>; 6] = joint_poses.map(|pose| pose.cast::<f32>()); "
            "let skip_indices: HashSet<usize> = (0..joint_index) .filter(|&i| joint_poses[i] == initial_poses[i]) .collect(); "
            "if self .detect_collisions_with_skips( &joint_poses_f32, &self.safety, &Some(CheckMode::FirstCollisionOnly), &skip_indices, ) .is_empty() "
            "{ return Some(new_joints); } else { return None; } }) .collect()")
    if f != want:
        raise TranslateError("non_colliding_offsets changed (twelve candidates joint by joint from/to; limits; NoCheck; skip = unchanged links before "
                             "the tweaked joint; first-collision check with the body's own table): " + f)
    out.append("/-- `RobotBody::non_colliding_offsets` (read as one idiom): the twelve candidates in task order, limits first, everything legal in\n"
               "NoCheck mode, otherwise free under the first-collision check that skips the unchanged links before the tweaked joint -/\n"
               "def nonCollidingOffsetsSrc (sceneAt : J6 R → Scene R) (unchanged : J6 R → Nat → Bool) (own : Safety R)\n"
               "    (cons : Option (Constraints R)) (initial from_ to_ : J6 R) (choice : List (Nat × Nat) → Option (Nat × Nat)) : List (J6 R) :=\n"
               "  ((List.range 6).flatMap (fun joint_index => [from_, to_].map (fun target => (joint_index, target)))).filterMap (fun (joint_index, target) =>\n"
               "    let new_joints := initial.set joint_index (target.get joint_index);\n"
               "    if (match cons with | some constraints => !constraints.compliant new_joints | none => false) then none\n"
               "    else if own.mode == CheckMode.noCheck then some new_joints\n"
               "    else\n"
               "      let skip_indices := (List.range joint_index).filter (fun i => unchanged new_joints i);\n"
               "      if (processTasksSrc (sceneAt new_joints) own (some CheckMode.firstCollisionOnly) (tasksSrc (sceneAt new_joints) own skip_indices) choice).isEmpty\n"
               "      then some new_joints else none)\n")
    return "\n".join(out)


def generate_coll(coll_src):
    """`CollisionTask::collides`: the decision logic with the three parry3d queries as named oracles"""
    body, _ = fn_body(coll_src, "collides")
    flat = " ".join(re.sub(r"//[^\n]*", "", body).split())
    subs = [
        (r"let r_min = \*safety\.min_distance\(self\.i, self\.j\);", ""),
        (r"parry3d::query::intersection_test\( self\.transform_i, self\.shape_i, self\.transform_j, self\.shape_j, \) \.expect\(SUPPORTED\)", "INTERSECTS"),
        (r"let \(sm_shape, sm_transform, bg_shape, bg_transform\) = if self\.shape_i\.vertices\(\)\.len\(\) < self\.shape_j\.vertices\(\)\.len\(\) \{ "
         r"\(self\.shape_i, self\.transform_i, self\.shape_j, self\.transform_j\) \} else \{ \(self\.shape_j, self\.transform_j, self\.shape_i, self\.transform_i\) \}; "
         r"let am_aaabb = sm_shape\.aabb\(sm_transform\)\.loosened\(r_min\); if !am_aaabb\.intersects\(&bg_shape\.aabb\(bg_transform\)\)", "if !AABB_NEAR"),
        (r"parry3d::query::distance\( self\.transform_i, self\.shape_i, self\.transform_j, self\.shape_j, \) \.expect\(SUPPORTED\)", "DISTANCE"),
        (r"if collides \{ Some\(\(self\.i\.min\(self\.j\), self\.i\.max\(self\.j\)\)\) \} else \{ None \}", "collides"),
    ]
    for pat, rep in subs:
        if not re.search(pat, flat):
            raise TranslateError("CollisionTask::collides no longer contains: " + pat[:70])
        flat = re.sub(pat, rep, flat, count=1)
    cx = Ctx("taskCollidesSrc", "0")
    cx.boolvars = {"INTERSECTS", "AABB_NEAR"}
    env = {"r_min": "r_min_", "INTERSECTS": "intersects_", "AABB_NEAR": "aabbNear_", "DISTANCE": "distance_",
           "NEVER_COLLIDES": "neverCollides", "TOUCH_ONLY": "touchOnly"}
    def _none(e):
        raise TranslateError("collides: falls off the end")
    term = tr(P(tokenize(flat)).stmts_until_eof(), env, cx, _none, 1)
    md = min_distance_src(coll_src)
    return ("/- GENERATED by tools/rs2lean_ctl.py from /repo/src/collisions.rs on every run. Do not edit. -/\n"
            "import OpwVerif.Collisions\nset_option linter.unusedVariables false\nnamespace Opw.SrcColl\nopen Opw\n"
            "variable {R : Type} [OpwNum R]\n\n"
            "/-- `CollisionTask::collides` (`Some(pair)` = true): `r_min` is the pair's entry of the safety table, the three parry3d\n"
            "queries (intersection test, AABB pre-filter, distance) are parameters -/\n"
            "def taskCollidesSrc (r_min_ : R) (intersects_ aabbNear_ : Bool) (distance_ : R) : Bool :=\n  " + term + "\n\n" + md + "\n" + check_required_src(coll_src) + "\n" + tasks_src(coll_src) + "\n" + robot_body_src(coll_src) + "\nend Opw.SrcColl\n")


if __name__ == "__main__":
    k = open("/repo/src/kinematics_impl.rs").read()
    c = open("/repo/src/constraints.rs").read()
    if len(sys.argv) > 1 and sys.argv[1] == "cons":
        sys.stdout.write(generate_cons_obj(c))
    elif len(sys.argv) > 1 and sys.argv[1] == "coll":
        sys.stdout.write(generate_coll(open("/repo/src/collisions.rs").read()))
    else:
        sys.stdout.write(generate(k, c))
