#!/usr/bin/env python3
"""Confirm each sub-agent mutation in a scratch worktree of /repo (outside /repo and /verif):
   with the patch: the 66 lib tests pass and the demonstration fails; without it: the demonstration passes.
   Confirmed ones are stored as /verif/seeded/<prop>-<X>/{patch.diff, demo.rs, meta.json}."""
import glob, json, os, re, shutil, subprocess, sys
INC = os.environ.get("MUT_INC", "/verif/seeded/_incoming")
TAG = os.environ.get("MUT_TAG", "")
WT = "/tmp/wt-confirm"
FEAT = ["--offline", "--no-default-features", "--features", "allow_filesystem collisions stroke_planning"]
ENV = dict(os.environ, CARGO_NET_OFFLINE="true")

def sh(cmd, cwd=None, timeout=3600):
    p = subprocess.run(cmd, cwd=cwd, env=ENV, stdout=subprocess.PIPE, stderr=subprocess.STDOUT, text=True, timeout=timeout)
    return p.returncode, p.stdout

def main():
    only = sys.argv[1:]
    if not os.path.exists(WT):
        rc, out = sh(["git", "-C", "/repo", "worktree", "add", "--detach", WT, "HEAD"])
        print(out)
    sh(["git", "checkout", "--detach", subprocess.run(["git", "-C", "/repo", "rev-parse", "HEAD"], capture_output=True, text=True).stdout.strip()], cwd=WT)
    os.makedirs(os.path.join(WT, "tests"), exist_ok=True)
    for d in sorted(glob.glob(os.path.join(INC, "C*"))):
        prop = os.path.basename(d)
        for diff in sorted(glob.glob(os.path.join(d, "mut*.diff"))):
            letter = re.search(r"mut(\w)\.diff", diff).group(1)
            name = f"{prop}-{TAG}{letter}"
            if only and name not in only and prop not in only:
                continue
            out_dir = f"/verif/seeded/{name}"
            if os.path.exists(os.path.join(out_dir, "meta.json")):
                continue
            demo = os.path.join(d, f"demo_{prop}_{letter}.rs")
            if not os.path.exists(demo):
                print(name, "no demo"); continue
            tname = f"demo_{prop}_{TAG}{letter}"
            sh(["git", "checkout", "--", "."], cwd=WT)
            for f in glob.glob(os.path.join(WT, "tests", "demo_*")):
                os.remove(f)
            shutil.copy(demo, os.path.join(WT, "tests", tname + ".rs"))
            rc, o = sh(["git", "apply", "--check", diff], cwd=WT)
            if rc != 0:
                print(name, "PATCH DOES NOT APPLY to current HEAD:", o.strip()[:200]); continue
            # without the patch: demo passes
            rc0, o0 = sh(["cargo", "test"] + FEAT + ["--test", tname], cwd=WT)
            sh(["git", "apply", diff], cwd=WT)
            rc1, o1 = sh(["cargo", "test", "--lib"] + FEAT, cwd=WT)
            lib_ok = rc1 == 0 and "66 passed" in o1
            rc2, o2 = sh(["cargo", "test"] + FEAT + ["--test", tname], cwd=WT)
            sh(["git", "checkout", "--", "."], cwd=WT)
            ok = (rc0 == 0) and lib_ok and (rc2 != 0)
            print(f"{name}: demo without patch {'pass' if rc0 == 0 else 'FAIL'}; lib tests with patch {'66 pass' if lib_ok else 'FAIL'}; demo with patch {'fails' if rc2 != 0 else 'PASSES'} -> {'confirmed' if ok else 'NOT confirmed'}", flush=True)
            if ok:
                os.makedirs(out_dir, exist_ok=True)
                shutil.copy(diff, os.path.join(out_dir, "patch.diff"))
                shutil.copy(demo, os.path.join(out_dir, "demo.rs"))
                notes = open(os.path.join(d, "notes.md")).read() if os.path.exists(os.path.join(d, "notes.md")) else ""
                json.dump({"property": prop, "mutation": name,
                           "needs_to_manifest": "see notes (excerpt of the sub-agent's notes.md kept in notes.md)",
                           "confirmed": {"demo_without_patch": "pass", "lib_tests_with_patch": "66 passed", "demo_with_patch": "fail",
                                         "commands": ["cargo test --lib " + " ".join(FEAT), f"cargo test {' '.join(FEAT)} --test {tname}"],
                                         "repo_head": subprocess.run(["git", "-C", "/repo", "rev-parse", "--short", "HEAD"], capture_output=True, text=True).stdout.strip()}},
                          open(os.path.join(out_dir, "meta.json"), "w"), indent=1)
                open(os.path.join(out_dir, "notes.md"), "w").write(notes)
    for f in glob.glob(os.path.join(WT, "tests", "demo_*")):
        os.remove(f)

if __name__ == "__main__":
    main()
