"""Claimed checks: level text and notes per property (kept next to the code that decides them)."""
ENTRIES = {
 "C03": {
  "text": "Proof (Lean 4, real arithmetic) that the closed form computed by forward() — rotation r_0c*r_ce and the translation with "
          "kappa/psi3 — equals, for every parameter set and every joint vector, the product of the six elementary joint "
          "rotations and accumulated OPW offsets (closed_form_eq_reference_chain); generic structural proof that link i depends "
          "only on joints 1..i and that there are six links. The model's Float reading is compared with forward / "
          "forward_with_joint_poses on every run, and the property predicates (closed form = independent chain = last link, "
          "origin gaps = parameter offsets, unit rotations, prefix dependence) are evaluated on the implementation's output.",
  "note": "Trusted: Lean kernel + propext/Classical.choice/Quot.sound; the hand-written model (tied by the differential run, "
          "25k cases quick); IEEE rounding (sampled: agreement at 1e-9); nalgebra quaternion routines are modelled. "
          "The quaternion form of the chain (toMat of the link quaternions = the matrix products) is proved in Lemmas/ as it lands.",
 },
}
NOT_APPLICABLE = {}
