"""Claimed checks: level text and notes per property (kept next to the code that decides them)."""
ENTRIES = {
 "C03": {
  "text": "Proof (Lean 4, real arithmetic) that the closed form computed by forward() — rotation r_0c*r_ce and the translation with "
          "kappa/psi3 — equals, for every parameter set and every joint vector, the product of the six elementary joint "
          "rotations and accumulated OPW offsets (closed_form_eq_reference_chain); generic structural proof that link i depends "
          "only on joints 1..i and that there are six links. The model's Float reading is compared with forward / "
          "forward_with_joint_poses on every run, and the property predicates (closed form = independent chain = last link, "
          "origin gaps = parameter offsets, unit rotations, prefix dependence) are evaluated on the implementation's output.",
  "note": "Trusted: Lean kernel + propext/Classical.choice/Quot.sound; the hand-written model (tied by the differential run, "
          "25k cases quick); IEEE rounding (sampled: agreement at 1e-9); nalgebra quaternion routines are modelled. "
          "The quaternion form of the chain (toMat of the link quaternions = the matrix products) is proved in Lemmas/ as it lands.",
 },
}
ENTRIES.update({
 "C01": {
  "text": "Generic ([G], any number type, hence of the IEEE reading itself) Lean proofs that the run-time forward-kinematics cross-check is "
          "on every path: every element of inverse_intern / inverse / inverse_5dof / inverse_continuing_5dof satisfies compare_poses "
          "(resp. the xyz check) against the requested pose, unreachable poses give [], wrapper stacks return exactly the core's answers "
          "for the local pose (Props/C01). inverse_continuing is proved in the partial form stated in DESIGN §7 (solutions taken from a "
          "0.125 um-shifted pose when the unshifted solve is empty are checked against the shifted pose). Every run compares the model's "
          "Float reading with all four entry points and the two private solvers (hook) and evaluates on the implementation's answers: "
          "finite, independent chain-FK within 1 um / 1 urad (position+axis for 5-DOF), range [-pi,pi], empty for non-finite poses, no panic.",
  "note": "Trusted: Lean kernel + 3 standard axioms; model tied by the differential run (15k lines quick, all four entry points, bare and "
          "wrapped); rounding inside compare_poses itself; `forward` used by the check is the code's own closed form, shown equal to the "
          "link chain in C03. inverseContinuing_sound is partial (named so in Props/C01.lean).",
 },
 "C06": {
  "text": "[G] proofs: joint 6 of every answer of inverse_5dof is exactly the caller's value (also through tool/base/frame/shape stacks), the "
          "tool point passes the run-time xyz check, a robot declared 5-DOF dispatches inverse -> inverse_5dof(pose, 0) and "
          "inverse_continuing -> inverse_continuing_5dof; J6 of inverse_continuing_5dof is normalize_near(prev6, prev6) (partial: the "
          "arithmetic fact normalize_near(x,x)=x is in Props/C04). Runs compare all entry points for dof 5 and 6, bare and behind axial "
          "stacks, and check on implementation output: J6 bit-equal to the request, tool point <= 1 um, tool axis <= 1 urad, originating "
          "J1..J5 present when non-singular, 5-DOF robots non-empty on reachable poses.",
  "note": "Tool-axis accuracy and presence of the originating joints are decided by predicates on sampled implementation output only (no "
          "theorem yet). Trusted base as for C01.",
 },
 "C07": {
  "text": "[R] proofs (Props/C07): inside_bounds <=> some 2pi-representative within tol of the centre; the unwrap loop computes the least "
          "to+2pi*n >= from; compliant <=> every joint on the arc from 'from' in the positive direction to 'to' (OnArc), boundaries included; "
          "invariance under whole turns of the angle and of both limits; spans >= 2pi accept everything; centres accepted; [G] from == to is "
          "unconstrained. Runs compare the model EXACTLY (only correctly rounded IEEE operations are involved) on an exhaustive degree "
          "lattice through all three constructors and on random reals, and check the arc oracle on the implementation's verdicts.",
  "note": "Trusted: Lean kernel + 3 standard axioms; model tied by exact differential comparison (1e6 per-joint verdicts quick). Over the "
          "reals infinity does not exist, so the from==to clause is a [G] theorem with the hypothesis that 1/0 is infinite (true of f64).",
 },
 "C08": {
  "text": "[G] proofs (Props/C08): every answer of each of the four entry points (both dof values) is compliant; plain inverse / inverse_5dof "
          "with limits equal the filter of the same call without limits; inverse_continuing_5dof likewise for sorting weight BY_PREV; every "
          "wrapper (tool, base, frame, parallelogram, shape) reports its core's limits; stacks without parallelogram return only compliant "
          "vectors. Runs execute every query with and without limits (cmp2) and check compliance and that no compliant solution of the "
          "unconstrained run is lost (modulo 2pi), through stacks to depth 3 incl. parallelogram (compliance of the inner vector).",
  "note": "The 6-DOF inverse_continuing superset clause is decided by the sampled predicate C08.superset (the early exit of the shift loop "
          "differs between the two runs only after a non-compliant singular candidate); no theorem yet. Trusted base as for C01.",
 },
})
NOT_APPLICABLE = {}
