"""Claimed checks: level text and notes per property (kept next to the code that decides them)."""
ENTRIES = {
 "C03": {
  "text": "Proof (Lean 4, real arithmetic) that the closed form computed by forward() — rotation r_0c*r_ce and the translation with "
          "kappa/psi3 — equals, for every parameter set and every joint vector, the product of the six elementary joint "
          "rotations and accumulated OPW offsets (closed_form_eq_reference_chain); generic structural proof that link i depends "
          "only on joints 1..i and that there are six links. The model's Float reading is compared with forward / "
          "forward_with_joint_poses on every run, and the property predicates (closed form = independent chain = last link, "
          "origin gaps = parameter offsets, unit rotations, prefix dependence) are evaluated on the implementation's output.",
  "note": "Trusted: Lean kernel + propext/Classical.choice/Quot.sound; the hand-written model (tied by the differential run, "
          "25k cases quick); IEEE rounding (sampled: agreement at 1e-9); nalgebra quaternion routines are modelled. "
          "The quaternion form of the chain (toMat of the link quaternions = the matrix products) is proved in Lemmas/ as it lands.",
 },
}
ENTRIES.update({
 "C01": {
  "text": "Generic ([G], any number type, hence of the IEEE reading itself) Lean proofs that the run-time forward-kinematics cross-check is "
          "on every path: every element of inverse_intern / inverse / inverse_5dof / inverse_continuing_5dof satisfies compare_poses "
          "(resp. the xyz check) against the requested pose, unreachable poses give [], wrapper stacks return exactly the core's answers "
          "for the local pose (Props/C01). inverse_continuing is proved in the partial form stated in DESIGN §7 (solutions taken from a "
          "0.125 um-shifted pose when the unshifted solve is empty are checked against the shifted pose). Every run compares the model's "
          "Float reading with all four entry points and the two private solvers (hook) and evaluates on the implementation's answers: "
          "finite, independent chain-FK within 1 um / 1 urad (position+axis for 5-DOF), range [-pi,pi], empty for non-finite poses, no panic.",
  "note": "Trusted: Lean kernel + 3 standard axioms; model tied by the differential run (15k lines quick, all four entry points, bare and "
          "wrapped); rounding inside compare_poses itself; `forward` used by the check is the code's own closed form, shown equal to the "
          "link chain in C03. inverseContinuing_sound is partial (named so in Props/C01.lean).",
 },
 "C06": {
  "text": "[G] proofs: joint 6 of every answer of inverse_5dof is exactly the caller's value (also through tool/base/frame/shape stacks), the "
          "tool point passes the run-time xyz check, a robot declared 5-DOF dispatches inverse -> inverse_5dof(pose, 0) and "
          "inverse_continuing -> inverse_continuing_5dof; J6 of inverse_continuing_5dof is normalize_near(prev6, prev6) (partial: the "
          "arithmetic fact normalize_near(x,x)=x is in Props/C04). Runs compare all entry points for dof 5 and 6, bare and behind axial "
          "stacks, and check on implementation output: J6 bit-equal to the request, tool point <= 1 um, tool axis <= 1 urad, originating "
          "J1..J5 present when non-singular, 5-DOF robots non-empty on reachable poses.",
  "note": "Tool-axis accuracy and presence of the originating joints are decided by predicates on sampled implementation output only (no "
          "theorem yet). Trusted base as for C01.",
 },
 "C07": {
  "text": "[R] proofs (Props/C07): inside_bounds <=> some 2pi-representative within tol of the centre; the unwrap loop computes the least "
          "to+2pi*n >= from; compliant <=> every joint on the arc from 'from' in the positive direction to 'to' (OnArc), boundaries included; "
          "invariance under whole turns of the angle and of both limits; spans >= 2pi accept everything; centres accepted; [G] from == to is "
          "unconstrained. Runs compare the model EXACTLY (only correctly rounded IEEE operations are involved) on an exhaustive degree "
          "lattice through all three constructors and on random reals, and check the arc oracle on the implementation's verdicts.",
  "note": "Trusted: Lean kernel + 3 standard axioms; model tied by exact differential comparison (1e6 per-joint verdicts quick). Over the "
          "reals infinity does not exist, so the from==to clause is a [G] theorem with the hypothesis that 1/0 is infinite (true of f64).",
 },
 "C08": {
  "text": "[G] proofs (Props/C08): every answer of each of the four entry points (both dof values) is compliant; plain inverse / inverse_5dof "
          "with limits equal the filter of the same call without limits; inverse_continuing_5dof likewise for sorting weight BY_PREV; every "
          "wrapper (tool, base, frame, parallelogram, shape) reports its core's limits; stacks without parallelogram return only compliant "
          "vectors. Runs execute every query with and without limits (cmp2) and check compliance and that no compliant solution of the "
          "unconstrained run is lost (modulo 2pi), through stacks to depth 3 incl. parallelogram (compliance of the inner vector).",
  "note": "The 6-DOF inverse_continuing superset clause is decided by the sampled predicate C08.superset (the early exit of the shift loop "
          "differs between the two runs only after a non-compliant singular candidate); no theorem yet. Trusted base as for C01.",
 },
})
ENTRIES.update({
 "C04": {
  "text": "[R] proofs (Props/C04): normalize_near shifts by whole turns and returns the representative nearest to the previous angle for "
          "|now - prev| <= 5pi (tight), hence every returned angle is within pi of the previous one for previous in [-2pi,2pi]^6 "
          "(inverseContinuing_nearest, both dof paths and recovered singular candidates); sort_by_closeness yields a permutation in "
          "non-decreasing documented cost in each of the three weight modes; the returned list of inverse_continuing / _5dof is sorted; "
          "every solution of plain inverse is still returned (modulo the normalisation), with or without limits; if the previous joints "
          "are among the raw solutions (completeness of the closed form, C02) they are the head of the result. Runs compare hook-level "
          "helpers exactly and the entry points at 1e-9, and check nearest/sorted/superset/previous-first/trajectory tracking on the output.",
  "note": "'previous comes back first' is proved conditionally on the closed form reproducing the previous joints (hypothesis hsol), "
          "which is C02's completeness; unconditionally it is decided by the predicates C04.prev_first and C04.track on sampled runs "
          "(4k trajectory steps quick). Trusted base as for C01.",
 },
})
ENTRIES.update({
 "C02": {
  "text": "[R] proofs (Props/C02) of the closure clause: the forward map is invariant under the wrist flip (theta4+pi, -theta5, theta6-pi) and "
          "under whole turns; sign/offset maps are mutually inverse for signs +-1; the eight raw candidates are four plus their flips; if a "
          "candidate passes the forward cross-check so does its twin; hence for every answer of inverse_intern (and of inverse without "
          "limits) the wrist-flipped twin is among the answers (modulo 2pi) with the same pose. Completeness (originating joints among the "
          "answers), absence of duplicates and equal answer-set sizes are decided on every run by predicates on the implementation's "
          "output at oracle-checked non-singular configurations; the model's Float reading is compared with inverse and inverse_intern.",
  "note": "PARTIAL proof: completeness, no-duplicates and same-size are sampled (3000 configurations quick), not theorems. Trusted: Lean "
          "kernel + 3 standard axioms; model tied by the differential run; rounding (an analytic branch lost to a NaN one ulp beyond a "
          "domain edge is visible only to the run).",
 },
 "C05": {
  "text": "[R] proofs (Props/C05): the code's band test on the sign/offset-corrected J5 holds iff some multiple of pi is within the "
          "threshold (two-sided, every multiple); the threshold regenerated from the source is within 7e-21 of 0.01 degree; the cross "
          "product of the joint-4 and joint-6 axes of the model's own link chain has norm |sin theta5|, so 'reported singular' <=> "
          "'axes collinear within the band' (singular_iff_axes); the recovered candidate moves J4 and J6 by the same amount and keeps "
          "the arm joints, and in the theta5=0 branch preserves the sign-corrected J4+J6 modulo 2pi. Runs compare hook helpers and "
          "kinematic_singularity (through wrappers, with J5 offsets/negative sign) exactly and check first-answer = previous and "
          "equal J4/J6 shift at exactly singular poses under the oracle-computed premise of the property.",
  "note": "'first continuation answer equals the previous joints' is decided by the sampled predicate C05.first_eq_prev (premise: "
          "sensitivity to the 0.125 um shift small enough and a single singular arm branch, computed by the driver's oracle); no theorem "
          "(it depends on IK completeness and on f64 rounding at cos theta5 = 1). Trusted base as for C01.",
 },
})
ENTRIES.update({
 "C09": {
  "text": "[R]/[G] proofs (Props/C09): for every stack of tool/base/frame with unit quaternions, forward = base * robot * tool (induction over "
          "the stack, associativity of rigid motions); pose round trips; an answer whose core forward equals (or is the same rigid motion "
          "as) the local pose maps back through the stack's forward onto the requested pose, and conversely; all 24 delegation equations; "
          "stacks return exactly the core's answer lists for the local pose, so ordering and J6 pass-through survive; links unchanged by a "
          "tool, pre-multiplied by a base, last link = forward (same rigid motion) for base/frame stacks; LinearAxis/Gantry = base * "
          "translate * robot, invalid axis = panic (modelled as none). Runs enumerate the delegation matrix exhaustively over wrapper "
          "orders and compare every entry point with the model; answers are checked against the independent chain-FK through the stack.",
  "note": "Rounding inside the isometry products is sampled (agreement at 1e-9). The amplification of the 1 urad tolerance by a tool lever "
          "is allowed for in the predicate (slack aTol * lever). Trusted base as for C01.",
 },
 "C16": {
  "text": "[G]/[R] proofs (Props/C16): forward and link poses of the wrapper are the inner robot's at the un-coupled vector; couple and "
          "un-couple are mutually inverse for driven and coupled joints in different slots (6x6 case split; indices >= 5 address joint 6), "
          "counter-examples kept for equal slots; every answer of every entry point is the coupled image of an inner answer and maps back "
          "through the wrapper's forward onto whatever the inner answer maps to; two stacked couplings compose in both directions. Runs "
          "cover all 30 index pairs, scalings in [-2,2] and nestings with tool/base, and check answers against the chain-FK of the stack.",
  "note": "Trusted base as for C01; the arithmetic of the coupling (one multiply-add) is compared at 1e-9.",
 },
})
ENTRIES.update({
 "C10": {
  "text": "[A] proofs (Props/C10) for every scene (any number of environment objects, any geometric oracle), safety table and scheduler "
          "choice: the enumerated tasks are exactly the relevant pairs of the statement that pass the never-collides gate (plus the always "
          "enumerated tool-base pair), without duplicates; under a conservative pre-filter the per-pair verdict is the brute-force one; "
          "in all-collisions mode the report is exactly the relevant pairs with a positive verdict; in first-collision mode it has at "
          "most one element, is a subset and is empty iff that set is, for every choice function; nothing in no-check mode; collides <=> "
          "set non-empty; reports and collides do not depend on the choice. Runs compare the model with collision_details / collides / "
          "near on real meshes under rayon pools 1,2,4,16, with the oracle table computed by direct parry3d calls, and check brute force.",
  "note": "Trusted: parry3d (distance, intersection_test, Aabb) as oracle; that the world-AABB pre-filter is conservative is a hypothesis "
          "(PrefilterSound) checked per case by the predicate C10.prefilter_conservative; pairs within 1e-5 of their threshold are "
          "don't-care (f32). rayon's find_map_any is modelled by an arbitrary choice function.",
 },
 "C11": {
  "text": "[A] proofs (Props/C11): each of the four entry points of the robot with shape is the order-preserving filter of the inner stack's "
          "answers by the collision verdict (sublist, nothing colliding, nothing free dropped); forward, links, limits and singularity are "
          "the inner stack's; both constructors build tool(base(opw with limits)). Runs call the inner stack, the robot's own collides per "
          "answer and the wrapper on the same query and require bit-equal vectors in the same order; positioned_robot against link poses.",
  "note": "The collision verdict is the oracle of C10. Trusted base as for C10.",
 },
 "C14": {
  "text": "[A] proofs (Props/C14): the candidates are exactly the twelve single-joint replacements in order; the result is a sublist of them, "
          "each within limits; under the hypothesis that pairs of bodies that both did not move do not collide (initial vector free), the "
          "skip-based check equals the full first-collision check, so the result is exactly the candidates that are within limits and "
          "that collides() reports free. Runs supply per candidate the compliance verdict, the robot's full collides() verdict and the "
          "oracle table, replay the skip logic in the model and require the offered list to equal the filter.",
  "note": "Trusted base as for C10; the Unmoved hypothesis is what the property's 'collision-free initial vectors' provides.",
 },
 "C15": {
  "text": "[R]/[G] proofs (Props/C15): torques are the transpose applied to the wrench (entrywise and as virtual work (J^T F).x = F.(J x)); the "
          "isometry and vector entry points extract the same 6-vector; J x is linear; for joint 1 (representative) perturbing the joint "
          "rotates the whole pose about the joint axis, the angular part of the column is exactly sign*(0,0,1) for |eps| < pi and the "
          "linear part converges to axis x lever arm. Runs compare the whole matrix with the model's finite-difference Jacobian and check "
          "on the implementation's matrix: every column against sign_i (a_i x (p - o_i), a_i) from the independent link chain within the "
          "differencing step, J.velocities = twist for cond < 1e4 through all three velocity entry points, torques = J^T F.",
  "note": "PARTIAL proof of the geometric clause (joint 1 only); columns 2-6 and wrapped robots are decided by the sampled predicate "
          "C15.geometric. try_inverse/SVD are nalgebra (oracle; only the residual is checked). Trusted base as for C01.",
 },
 "C17": {
  "text": "[R]/[G] proofs (Props/C17): order and content of the three rejections; the 5 mm constant; for non-collinear inputs the frame is a "
          "proper rigid transform (unit quaternion, rotation matrix in SO(3)) mapping p1 to q1; if the targets are the images of a rigid "
          "motion g the frame IS g (same translation, same rotation, maps every point like g) — frame_recovers_motion, full; uniqueness of "
          "the motion; forward_transformed returns (inverse_continuing(frame*forward(qs), previous), frame*forward(qs)), sorted, every answer "
          "passing the run-time pose check (C01's partial form). Runs compare Frame::frame with the model and check mapping, properness, "
          "rejections and forward_transformed on the implementation's output.",
  "note": "The collinearity guard is an exact == 0.0 test in the code (and model); near-collinear conditioning is reflected in the "
          "predicate's tolerance (1e-9/sine). Trusted base as for C01.",
 },
 "C18": {
  "text": "[R] proofs (Props/C18), the random draw being the parameter u in [0, span): the span handed to gen_range is positive exactly for arcs "
          "of positive width (and for from == to), so the call cannot panic there; it equals the arc width the constraint check uses; every "
          "sample from+u lies on the arc and is accepted by inside_bounds for ordinary and wrap-around ranges wherever they lie; zero-width "
          "arcs return `from`, which is accepted; six joints together are compliant; [G] unconstrained joints. Runs draw from the real "
          "thread-local generator, check that each sample is from+u with u in [0, span) (refinement) and that compliant() accepts it.",
  "note": "rand's gen_range contract (value in [0, len), panic iff len <= 0) is trusted; the real generator's stream is not modelled, the "
          "theorem quantifies over all draws. Trusted base as for C07.",
 },
})
ENTRIES.update({
 "C13": {
  "text": "[A] proofs (Props/C13) for every collision predicate, sample stream, valid nearest-neighbour function and flag history, no bound on "
          "tries or tree sizes: the tree invariant (root, parent indices decrease, every non-root vertex accepted by is_free) is preserved by "
          "extend/connect; a returned path is start :: mid ++ [goal] with every element of mid accepted by is_free, in both parities of the "
          "tree swap; a flag raised at iteration i makes the result Cancelled, and a returned path was found before any iteration that "
          "saw the flag; [R] every tree edge is at most one step long and consecutive path nodes at most three steps apart (the two "
          "meeting vertices are omitted from the path); if start, goal and samples lie in a box so does every node. Runs replay "
          "dual_rrt_connect (hook) in the model with the same samples/obstacles/flag and require identical paths, and check endpoints, "
          "freeness, gaps, limits and cancellation on plan_rrt with the same robot's collides().",
  "note": "kdtree's nearest neighbour is modelled by a linear scan (ties are the only difference; the theorems hold for any valid choice); "
          "connect's termination is modelled with fuel 1e6; thread timing of the cancellation flag is not modelled (the theorem "
          "quantifies over all flag histories; the run raises it before and during planning). Trusted base as for C10/C11.",
 },
})
ENTRIES.update({
 "C19": {
  "text": "[A] proofs (Props/C19) at the level of the YAML tree the library hands to the reader, for all trees and all leaf contracts: what "
          "to_yaml prints reads back with the same geometry, sign corrections and dof and with offsets at the printed precision (5-DOF: "
          "joint-6 sign reads 0); every file of the documented shape (lengths as integers or reals; offsets as integers, reals, plain "
          "numeric strings or deg(..); arrays of five or six entries; arrays absent; dof at top level, nested or absent; keys in any order, "
          "other keys allowed) parses to the expected value; the reader is total and every failure is one of ParseError / MissingField "
          "(in the order a1..c4) / InvalidLength, with the precedence of the checks. Runs send the real file through from_yaml_file "
          "together with yaml-rust2's own tree of the same text, compare with the model and check round trip, variants and no-panic.",
  "note": "Trusted: YAML lexing (yaml-rust2) and Rust's float printing/parsing enter as leaf contracts (LenLeaf/OffLeaf) and are exercised by "
          "the run, which ships the library's tree and parser results with every case. File I/O errors (non-UTF-8) are compared as IoError.",
 },
 "C20": {
  "text": "[A] proofs (Props/C20) at the level of the XML element tree: for every parameter set, axis signs and limits and each of the 32 layout "
          "combinations (with the stated side conditions: c2 != 0 when b != 0 sits on joint 3; a2 != 0 and c3 != 0 when c3 sits on joint 4) "
          "populate returns exactly the parameters, signs and limits; the result depends on the joint list only through first-occurrence "
          "lookup, hence is invariant under permutation of declarations, an identical second copy, wrapping in non-joint elements and "
          "joint-free siblings; conflicting duplicates, missing joints, missing root and unreadable origins are errors; a joint without "
          "readable limits has from = to = 0 (unconstrained by C07); axis -> sign rule; the documented decorations simplify to joint1..6 "
          "(kernel-evaluated). Runs generate descriptions as text, send sxd-document's DOM with the case, compare with the model and "
          "check parameters/signs/limits, the unconstrained clause on the solver built from the result, and error/no-panic cases.",
  "note": "Trusted: XML parsing (sxd-document), regex (the three regular expressions are replaced by a hand-written equivalent tied by "
          "differential testing on generated ASCII names), Rust's float parser (parse results travel with the attributes).",
 },
})
ENTRIES.update({
 "C12": {
  "text": "[A] proofs (Props/C12) for every inverse-kinematics oracle, RRT planner, collision predicate and scheduler choice: the densified pose list "
          "is land, interpolated poses, steps in order, park with their flags; interpolated translations are convex combinations on the "
          "segment ([R]); a successful adaptive transition is a chain of inverse-kinematics continuations within the transition cost ending "
          "in a solution of the target pose; without random re-planning the trace consists, per pose, of interpolated waypoints (flag "
          "LIN_INTERP, never TRACE/PARK) followed by a waypoint with the pose's flags solving that pose, in order; a returned plan was not "
          "stopped, has no colliding waypoint, starts with the RRT onboarding path (from `from` under the C13 contract) flagged ONBOARDING "
          "followed by the landing solution, and contains interpolated waypoints only if requested; plan succeeds iff some strategy "
          "succeeds, for every choice of the parallel search. Runs compare the densification exactly, re-compute the Cartesian part of "
          "every returned plan in the model, and check every clause of the property on the returned waypoints with the same robot's "
          "collides()/compliant() and the independent chain-FK.",
  "note": "Limits and pose reproduction of Cartesian waypoints are inherited from the ik oracle (C01, C08); RRT randomness is not replayed at "
          "API level (hook-level replay is in C13); rayon's find_map_any and the stop flag are modelled by a choice index / pure "
          "per-strategy outcomes. Orientation along the segment (slerp) is compared with the model, not characterised by a theorem.",
 },
})
ENTRIES["C02"]["text"] = ("[R] proofs (Props/C02, Props/C02b): COMPLETENESS — for every parameter set with c2 > 0 and kappa > 0, signs +-1, and every joint "
          "vector whose theta-image is not at a shoulder (cx1 != 0), elbow (sin(theta3+psi3) != 0) or wrist (sin theta5 != 0) singularity, "
          "inverse_intern / inverse applied to its forward pose return a vector equal to it modulo 2pi with the same pose (ik_complete, both "
          "shoulder branches, both elbow branches, both wrist branches), and the vector itself when all joints are inside (-pi, pi) "
          "(inverse_roundtrip); CLOSURE — the forward map is invariant under the wrist flip and whole turns, the eight candidates are four "
          "plus their flips, and the twin of every answer is an answer. Runs compare inverse and inverse_intern with the model and check "
          "completeness, twin, no duplicates and equal answer-set sizes on the implementation's output at oracle-checked configurations.")
ENTRIES["C02"]["note"] = ("No-duplicates and same-size are sampled (predicates), not theorems. Completeness is a theorem over the reals; an analytic branch "
          "lost to f64 rounding one ulp beyond a domain edge (acos argument > 1) is visible only to the run. Trusted: Lean kernel + 3 standard axioms.")
ENTRIES["C04"]["text"] += (" Props/C04b: with IK completeness (C02b) 'previous comes back first' is now UNCONDITIONAL for previous joints that are "
    "compliant, inside (-pi,pi) and non-singular (prev_first_unconditional); a trajectory point within pi of the previous answer is in "
    "the answer list (target_mem) and is its head whenever it is strictly nearer than every other answer (track_step; the non-strict form "
    "of that separation is necessary, sep_necessary), hence a trajectory satisfying it step by step is tracked exactly (track_trajectory).")
ENTRIES["C04"]["note"] = ("The branch-separation premise of track_step (every other answer strictly farther from the previous joints) is a hypothesis "
    "about the actual answer list; the run checks tracking on dense trajectories (predicate C04.track). Trusted base as for C01.")
ENTRIES["C06"]["text"] += (" Props/C06b (with IK completeness): the tool point does not depend on joint 6; for every non-singular configuration the 5-DOF "
    "solvers return a vector whose J1..J5 equal the originating ones modulo 2pi with J6 the caller's value and exactly the requested tool "
    "point (inverse5_origin, inverse5dof_origin, inverseContinuing5dof_origin), and the originating vector itself when inside (-pi,pi) "
    "(inverse5_roundtrip, inverse_dof5_roundtrip for robots declared 5-DOF).")
ENTRIES["C06"]["note"] = "Tool-axis accuracy of the OTHER (non-originating) 5-DOF answers is decided by the sampled predicate C06.axis. Trusted base as for C01."
ENTRIES["C08"]["text"] += (" Props/C08b: the superset clause for the 6-DOF inverse_continuing is now a theorem for any sorting weight — every compliant element of "
    "the unconstrained answer (including a recovered singular candidate) is in the constrained answer (continuing_superset, by a "
    "simulation of the two shift loops; generic form continuing_superset_generic), and conversely every constrained answer is compliant "
    "(continuing_sandwich).")
ENTRIES["C08"]["note"] = "Trusted base as for C01. (The converse inclusion is false in general and is not claimed: the constrained run may continue past a non-compliant recovered candidate.)"
ENTRIES["C15"]["text"] = ("[R]/[G] proofs (Props/C15, C15b) for ALL SIX joints, any sign/offset convention: perturbing joint i rotates the whole flange pose about the "
    "world axis a_i of that joint through the origin o_i of link i (perturb_joint, forward_perturb_joint); the angular part of column i is "
    "EXACTLY sign_i * a_i for |eps| < pi; the linear part is ((E_i(eps s_i) - 1)(t - o_i))/eps, converges to sign_i * a_i x (t - o_i), and "
    "for |eps| <= 1 differs from it by at most |eps| * |t - o_i| per component (jacobian_column_geometric_within_step: 'within the "
    "differencing step' with the constant), a_i and o_i being read off the model's own link chain; torques are the transpose applied to "
    "the wrench (virtual work), isometry and vector entry points extract the same 6-vector, J x is linear. Runs compare the whole matrix "
    "with the model's finite differences and check on the implementation's matrix the geometric columns, J.velocities = twist for "
    "cond < 1e4 through the three velocity entry points, and torques = J^T F.")
ENTRIES["C15"]["note"] = ("The geometric clause is proved for the bare robot; for tool/base/frame stacks it follows from C09 (stack_forward) and is decided by the "
    "sampled predicate C15.geometric on wrapped robots. try_inverse/SVD are nalgebra (oracle; only the residual is checked).")
NOT_APPLICABLE = {}

# ---- additions of the later sessions ---------------------------------------------------------------
ENTRIES["C01"]["text"] += (" Props/C01c ([R]): the RETURNED vector itself (after the final normalize_near) reproduces the REQUESTED pose: "
    "inverse_continuing within DISTANCE_TOLERANCE + SINGULARITY_SHIFT (<= 1.125 um) and ANGULAR_TOLERANCE, within 1 um when the unshifted solve is "
    "non-empty; inverse within 1 um / 1 urad; the 5-DOF entry points within 1 um of the tool point; for any integer-valued sign corrections; "
    "the same against the local pose through wrapper stacks. This closes the gap of inverseContinuing_sound_partial over the reals.")
ENTRIES["C01"]["note"] = ("Trusted: Lean kernel + 3 standard axioms; model tied by the differential run and by the source translators (Props/Tie: forward, "
    "forward_with_joint_poses, inverse_intern, inverse_intern_5_dof, compare_poses, normalize_near are the formulas translated from the current source "
    "text). The generic [G] form for inverse_continuing stays partial (named so); the full bound is [R] (exact reals), IEEE rounding sampled.")
ENTRIES["C15"]["text"] += (" Props/C15c ([R]): the same for WRAPPED robots -- for every tool/base/frame/shape stack with unit quaternions and every joint: "
    "perturbing joint i rotates the stack's flange pose about the base-moved joint axis through the base-moved link origin; the angular part of the "
    "finite-difference column is exactly s_i * (R_B a_i); the linear part is ((E' - 1)(t' - o'))/eps, converges to s_i (R_B a_i) x (t' - o') and obeys "
    "the same within-step error bound; assembled against the stack's own link poses.")
ENTRIES["C15"]["note"] = ("Matrix inverse / SVD are nalgebra (oracle; only the residual J*qdot = x is checked). For the last link of a stack containing a Frame the "
    "link-pose form is not claimed (the model multiplies the last link by the frame); the axis/origin form holds for all six joints. Trusted base as for C01.")
ENTRIES["C14"]["text"] += (" After the repair of defect D21 (non_colliding_offsets ignored CheckMode::NoCheck) offsets_exact holds in EVERY check mode: the "
    "hypothesis own.mode != noCheck of the earlier theorem was the excluded point at which the real code failed.")
ENTRIES["C07"]["note"] += (" inside_bounds and the per-joint body of compute_centers are additionally tied by the statement-level source translator (Props/Tie, generic in the number type).")
ENTRIES["C18"]["note"] += (" Known finding D22 (arcs a few ulp wide whose midpoint is not representable) is printed as KNOWN-FINDING; the exact sub-epsilon family must pass.")
ENTRIES["C11"]["note"] += (" The check also runs C10-style oracle-table scenes: the verdicts 'not reported colliding' rests on are compared with the brute-force pairwise check (C10.all_exact / first_subset / collides_iff decide C11 too).")

ENTRIES["C02"]["text"] += (" Props/C02c ([R]): NO DUPLICATES -- for a non-singular configuration whose other shoulder configuration also reaches the wrist "
    "centre with a proper elbow (OtherShoulderRegular; automatic for a1 = 0) the eight raw candidates are pairwise not congruent modulo whole turns, hence "
    "inverse_intern / inverse return no two answers congruent modulo 2pi (inverse_nodup); with NonSingular alone the answer congruent to the originating "
    "vector (and its twin) occurs exactly once; the extra hypothesis is shown necessary (candidates_duplicate_of_unreachable: arccos clamps, two rows "
    "coincide); answer count = number of candidates passing the cross-check, between 2 and 8; same count for the pose of an exactly reproducing answer.")
ENTRIES["C02"]["note"] = ("Completeness, closure and no-duplicates are theorems over the reals (no-duplicates under OtherShoulderRegular, shown necessary in the model: "
    "Real.arccos clamps where IEEE acos returns NaN); equal answer-set sizes for the pose of EVERY returned solution stays sampled (C02.same_count). Trusted: "
    "Lean kernel + 3 standard axioms; model tied by the differential run and the source translators.")

ENTRIES["C02"]["text"] += (" Props/C02d ([R]): ANALYTIC SOUNDNESS on all eight branches -- for any pose with a unit quaternion, each raw candidate whose arm "
    "branch reaches the wrist centre (square-root and arccos arguments in range, non-strict) places the wrist centre exactly (candidate_arm_sound); each "
    "candidate with sin(theta5) != 0 has exactly the rotation matrix of the pose (candidate_wrist_sound, ZYZ decomposition, flips included); hence it "
    "reproduces the pose as a rigid motion and is an answer of inverse_intern (candidate_sound, candidate_is_answer); when both shoulder configurations "
    "reach and no row is wrist-singular inverse_intern / inverse return exactly the eight normalised candidates (all_reachable_eight_answers).")
ENTRIES["C02"]["note"] = ("Completeness, closure, no-duplicates (under OtherShoulderRegular, shown necessary) and analytic soundness of all eight branches are theorems "
    "over the reals; 'same size for the pose of each returned solution' follows where all branches reach and is otherwise sampled (C02.same_count). Trusted: Lean "
    "kernel + 3 standard axioms; model tied by the differential run and the source translators.")
ENTRIES["C06"]["text"] += (" Props/C02d ([R]): every 5-DOF answer built from a candidate whose arm branch reaches has EXACTLY the requested tool point and tool axis, "
    "for any J6 (inverse5_candidate_exact), and when both shoulders reach there are exactly eight such answers (inverse5_eight_answers).")
ENTRIES["C06"]["note"] = ("Over the reals the tool axis of every answer coming from a reaching branch is exact (C02d); answers admitted only by the 1 um tolerance of the position "
    "check (unreachable branch within tolerance) and IEEE rounding are decided by the sampled predicate C06.axis. Trusted base as for C01.")

ENTRIES["C02"]["text"] += (" Props/C02e ([R]): SAME SIZE -- the solver reads a pose only as a rigid motion (inverseIntern_congr_same: q and -q, equal rotation matrix), "
    "so for every answer s that reproduces the pose as a rigid motion inverse_intern(forward s) is the SAME list (same_size_of_sound_answer); under the reach "
    "conditions of C02d this holds for every one of the eight answers (same_size_for_every_answer).")
ENTRIES["C02"]["note"] = ("All four clauses (completeness, same size, twin closure, no duplicates) are theorems over the reals under explicit reach / regularity hypotheses that "
    "the generator's oracle also evaluates; answers admitted only by the 1 um / 1 urad tolerance of the cross-check and IEEE rounding stay sampled (predicates C02.*). "
    "Trusted: Lean kernel + 3 standard axioms; model tied by the differential run and the source translators.")

ENTRIES["C14"]["text"] += (" After the repair of D23 the skip list is the set of links before the tweaked joint whose pose is unchanged (model `skipOf`, the unchanged-link "
    "verdicts are reported by the harness from forward_with_joint_poses); offsets_exact is proved for that list, so it also covers kinematics with coupled joints.")

ENTRIES["C10"]["text"] += (" Props/C10b ([R]): the geometric fact behind the pre-filter hypothesis -- if two bodies contained in their bounding boxes have two points within r, "
    "the box of either body loosened by r intersects the box of the other (prefilter_conservative, prefilter_conservative_sets, rejected_imp_far). Props/TieColl: the "
    "per-pair decision of the model is CollisionTask::collides as translated from the current source.")

# ---- round 7 -----------------------------------------------------------------------------------------
ENTRIES["C11"]["text"] += (" Props/Tie (shape_is_source, shape_facade_is_source, [G]): KinematicsWithShape as the CURRENT source text defines it -- each inverse entry "
    "point is the same entry point of the wrapped stack followed by the order-preserving filter remove_collisions, forward / link poses / limits / singularity "
    "are those of the stack, and collides / collision_details / near / non_colliding_offsets hand the question to the body unchanged -- is the model's shape node "
    "(regenerated by tools/rs2lean_wrap.py on every run, equations by rfl).")
ENTRIES["C10"]["text"] += (" Props/TieColl.minDistance_is_source ([G]): the pair's safety distance as SafetyDistances::min_distance looks it up in the CURRENT source (exact key, "
    "reversed key, environment default, robot default, in that order) is the model's Safety.minDistance. The reports are asked through the KinematicsWithShape "
    "facade as well as through the body; the brute-force oracle runs the distance query with the bodies in either order (threshold = the two answers disagree "
    "or are within 1e-4 relative), which makes micrometre gaps against micrometre safety distances decidable.")
ENTRIES["C14"]["text"] += (" Props/Tie.wrapper_reports_are_source ([G]): the joint limits a tool / base / frame / parallelogram wrapper reports in the CURRENT source are those of "
    "the robot it wraps, so the limit filter of non_colliding_offsets sees the robot's limits through any stack; the offsets are also asked through the "
    "KinematicsWithShape facade and with a frame / tool around the kinematics.")
ENTRIES["C04"]["text"] += (" Sampled additionally: the sorting weight of a Constraints object equals the requested number whatever constructor built it (C04.weight_kept; "
    "whole-degree limits go through from_degrees), a robot with shape keeps the order of its stack's answers (C11.exact_filter), and the wrist-singular "
    "continuation families of C05 (previous whole turns away) run under C04 with C05.first_eq_prev / C05.equal_shift.")
ENTRIES["C06"]["text"] += (" Props/Tie.opw_entry_points_are_source ([G]): inverse_5dof / inverse_continuing_5dof as the CURRENT source composes them (J6 = prev[5] as given, "
    "the CONSTRAINT_CENTERED sentinel resolving the reference vector only, dof-5 robots dispatched from inverse / inverse_continuing) are the model's entry points "
    "(tools/rs2lean_opw.py, regenerated on every run).")
ENTRIES["C08"]["text"] += (" Props/Tie.constraints_compliant_is_source and opw_entry_points_are_source ([G]): Constraints::compliant / filter and the solver's "
    "filter_constraints_compliant, and the place of the filter at the end of each entry point, are translated from the CURRENT source on every run.")
ENTRIES["C05"]["text"] += (" Props/Tie.singularCandidate_is_source ([G]): the wrist-singular recovery block of inverse_continuing, translated statement by statement from "
    "the CURRENT source (branch test, both while-wraps, half difference with the joint signs), is the model's singularCandidate on which equal_shift is proved.")
ENTRIES["C04"]["text"] += (" Props/Tie.sortCost_is_source ([G]): the comparators of sort_by_closeness in the CURRENT source compute the model's sortCost; "
    "opw_entry_points_are_source: answers are normalised next to the reference, then sorted, then filtered.")
ENTRIES["C10"]["text"] += (" TieColl.tasks_is_source ([G]): the task enumeration of detect_collisions_with_skips and check_required, parsed from the CURRENT source "
    "(nested for / if / if-let blocks around tasks.push, each push checked to carry the pose and mesh of its own indices), is the model's `tasks` in push order.")
ENTRIES["C14"]["text"] += (" TieColl.nonCollidingOffsets_is_source ([G]): non_colliding_offsets as the CURRENT source has it (one recognised idiom incl. the repairs D21 / D23) "
    "is the model's nonCollidingOffsets; TieColl.tasks_is_source: the skip set reaches the task enumeration as in the model.")
ENTRIES["C10"]["text"] += (" TieColl.robotBody_is_source ([G]): collision_details / near / collides / process_collision_tasks as wired in the CURRENT source (which table, "
    "which mode override, no skips) are the model's functions.")
ENTRIES["C17"]["text"] += (" Props/Tie.frame_is_source' ([G]): Frame::frame and distances_match, translated expression by expression from the CURRENT source (rejections in "
    "order with their own errors and the triple they name, the two bases, their product, the translation), are the model's frameOf / distancesMatch (rfl).")
ENTRIES["C15"]["text"] += (" Props/Tie.jacobian_is_source ([G]): the column closure of compute_jacobian and the wrench of Jacobian::torques, translated from the CURRENT "
    "source on every run, are the model's jacobianColumn / wrenchOfIso (rfl).")
ENTRIES["C18"]["text"] += (" TieCons.randomAngle_is_source ([G]): the per-joint sampler nested in random_angles, translated from the CURRENT source with the generator's draw as "
    "a parameter, is the model's randomAngle; the six calls pair from[i] with to[i] (translator check).")
ENTRIES["C13"]["text"] += (" Props/C13b ([G]): plan_rrt_nodes_legal_and_free -- with the acceptance closure that tools/rs2lean_rrt.py reads from the CURRENT text of "
    "RRTPlanner::plan_path (inside the robot's limits AND not reported colliding by the same robot), every interior node of a returned path is a six-joint "
    "vector within limits and collision-free, for every robot, sample stream, step, budget and cancellation history.")
ENTRIES["C12"]["text"] += (" Props/TieCart ([G]): add_intermediate_poses (expression by expression), with_intermediate_poses (idiom) and utils::transition_costs, read from the "
    "CURRENT source on every run, are the model's intermediatePoses / withIntermediatePoses / transitionCosts.")
