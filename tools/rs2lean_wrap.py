#!/usr/bin/env python3
"""Translator for the `Kinematics` implementations of the wrappers (tool.rs: Tool, Base; frame.rs: Frame incl.
`forward_transformed`; parallelogram.rs: Parallelogram) into lean/OpwVerif/Generated/SrcWrap.lean.

Each method body is a short sequence of
    let [mut] v = EXPR;                     EXPR over  self.robot.METHOD(args)  self.FIELD  x.inverse()  a * b  &x  *x  (..)
    v.iter_mut().for_each(|x| x[self.A] += self.S * x[self.B]);          (parallelogram: couple every answer)
    v[self.A] -= self.S * v[self.B];                                     (parallelogram: un-couple the joints)
    v[5] = v[5] * self.frame;  /  for pose in v.iter_mut() { *pose = self.base * *pose; }   (link poses)
    EXPR | (a, b)                                                         (result)
and becomes a Lean definition over the model's `Kin` (the wrapped robot is the parameter `robot`).  The tie theorems
(Lemmas/SrcWrapTie.lean, Props/Tie.lean) state, by `rfl`, that `Kin.forward/inverse/...` of a `tool/base/frame/para` node
are these definitions.  Anything outside the subset raises TranslateError (a broken tie, never skipped)."""
import re, sys

from rs2lean import TranslateError
from rs2lean_ctl import tokenize

METHODS = {"inverse": "inverse", "inverse_continuing": "inverseContinuing", "inverse_5dof": "inverse5dof",
           "inverse_continuing_5dof": "inverseContinuing5dof", "forward": "forward",
           "forward_with_joint_poses": "links", "kinematic_singularity": "singularity", "constraints": "constraints"}
# kind of value an expression denotes: iso / joints / sols / links / num / other
RET = {"inverse": "sols", "inverseContinuing": "sols", "inverse5dof": "sols", "inverseContinuing5dof": "sols",
       "forward": "iso", "links": "links", "singularity": "sing", "constraints": "cons"}


class P:
    def __init__(self, toks, env, fields):
        self.t, self.i, self.env, self.fields = toks, 0, env, fields

    def peek(self, k=0):
        return self.t[self.i + k] if self.i + k < len(self.t) else ("eof", "")

    def next(self):
        tok = self.peek(); self.i += 1; return tok

    def accept(self, v):
        if self.peek()[1] == v:
            self.i += 1
            return True
        return False

    def expect(self, v):
        if not self.accept(v):
            raise TranslateError(f"expected `{v}`, got `{self.peek()[1]}`")

    def expr(self):
        lhs = self.unary()
        while self.peek()[1] == "*":
            self.next()
            rhs = self.unary()
            if lhs[0] != "iso" or rhs[0] != "iso":
                raise TranslateError("product of non-isometries")
            lhs = ("iso", f"({lhs[1]}.mul {rhs[1]})")
        return lhs

    def unary(self):
        while self.peek()[1] in ("&", "*"):
            self.next()
        return self.postfix()

    def postfix(self):
        e = self.atom()
        while self.peek()[1] == "." and self.peek(1)[0] == "id":
            self.next()
            name = self.next()[1]
            if name == "inverse" and self.peek()[1] == "(" and self.peek(1)[1] == ")" and e[0] == "iso":
                self.next(); self.next()
                e = ("iso", f"{e[1]}.inv")
            else:
                raise TranslateError(f"unsupported .{name}")
        return e

    def atom(self):
        k, x = self.next()
        if x == "(":
            e = self.expr()
            self.expect(")")
            return e
        if k == "id" and x == "self":
            self.expect(".")
            f = self.next()[1]
            if f == "remove_collisions" and "remove_collisions" in self.fields:
                self.expect("(")
                a = self.expr()
                self.expect(")")
                if a[0] != "sols":
                    raise TranslateError("remove_collisions of a non-solution list")
                return ("sols", f"(kwsRemoveCollisions collides {a[1]})")
            if f in ("robot", "kinematics"):
                self.expect(".")
                m = self.next()[1]
                if m not in METHODS:
                    raise TranslateError("unknown method of the wrapped robot: " + m)
                self.expect("(")
                args = []
                while not self.accept(")"):
                    args.append(self.expr()[1])
                    self.accept(",")
                lm = METHODS[m]
                return (RET[lm], f"(robot.{lm} {' '.join(args)})" if args else f"robot.{lm}")
            if f in self.fields:
                return self.fields[f]
            raise TranslateError("unknown field self." + f)
        if k == "id" and x in self.env:
            return self.env[x]
        raise TranslateError("unexpected token " + x)


def impl_block(src, header):
    m = re.search(re.escape(header) + r"\s*\{", src)
    if not m:
        raise TranslateError("not found: " + header)
    i, depth = m.end(), 1
    while depth:
        if src[i] == "{":
            depth += 1
        elif src[i] == "}":
            depth -= 1
        i += 1
    return src[m.end():i - 1]


def method(block, name):
    m = re.search(r"fn " + name + r"\s*\(&self(?:,\s*([^)]*))?\)[^{]*\{", block)
    if not m:
        raise TranslateError("method not found: " + name)
    i, depth = m.end(), 1
    while depth:
        if block[i] == "{":
            depth += 1
        elif block[i] == "}":
            depth -= 1
        i += 1
    params = [p.split(":")[0].strip() for p in (m.group(1) or "").split(",") if p.strip()]
    body = re.sub(r"//[^\n]*", "", block[m.end():i - 1])
    return params, " ".join(body.split())


PKIND = {"tcp": "iso", "pose": "iso", "qs": "joints", "joints": "joints", "previous": "joints", "prev": "joints", "j6": "num"}
PTYPE = {"iso": "Iso R", "joints": "J6 R", "num": "R"}
RTYPE = {"sols": "List (J6 R)", "iso": "Iso R", "links": "List (Iso R)", "pair": "List (J6 R) × Iso R", "sing": "Bool",
         "cons": "Option (Constraints R)"}


def translate_method(block, rust_name, lean_name, fields, fdecl, doc):
    params, body = method(block, rust_name)
    env = {}
    for p in params:
        if p not in PKIND:
            raise TranslateError(f"{rust_name}: unknown parameter {p}")
        env[p] = (PKIND[p], p + "_")
    lines = []
    rest = body
    result = None
    while rest:
        rest = rest.strip()
        # parallelogram: couple every answer
        m = re.match(r"(\w+)\.iter_mut\(\)\.for_each\(\|x\| x\[self\.(\w+)\] (\+=|-=) self\.(\w+) \* x\[self\.(\w+)\]\);", rest)
        if m:
            v, a, op, s, b = m.groups()
            if v not in env or env[v][0] != "sols" or s != "scaling":
                raise TranslateError(f"{rust_name}: unsupported for_each")
            sym = "+" if op == "+=" else "-"
            lines.append(f"  let {v}_ : List (J6 R) := {env[v][1]}.map (fun x => x.set {a} (x.get {a} {sym} scaling * x.get {b}));")
            env[v] = ("sols", v + "_")
            rest = rest[m.end():]
            continue
        # parallelogram: un-couple the joint vector
        m = re.match(r"(\w+)\[self\.(\w+)\] (\+=|-=) self\.(\w+) \* (\w+)\[self\.(\w+)\];", rest)
        if m:
            v, a, op, s, v2, b = m.groups()
            if v != v2 or v not in env or env[v][0] != "joints" or s != "scaling":
                raise TranslateError(f"{rust_name}: unsupported indexed update")
            sym = "+" if op == "+=" else "-"
            lines.append(f"  let {v}_ : J6 R := {env[v][1]}.set {a} ({env[v][1]}.get {a} {sym} scaling * {env[v][1]}.get {b});")
            env[v] = ("joints", v + "_")
            rest = rest[m.end():]
            continue
        # link poses: last pose times the frame / every pose after the base
        m = re.match(r"(\w+)\[5\] = (\w+)\[5\] \* self\.(\w+);", rest)
        if m and m.group(1) == m.group(2) and m.group(1) in env and env[m.group(1)][0] == "links" and m.group(3) in fields:
            v = m.group(1)
            lines.append(f"  let {v}_ : List (Iso R) := match {env[v][1]} with\n"
                         f"    | [p1, p2, p3, p4, p5, p6] => [p1, p2, p3, p4, p5, p6.mul {fields[m.group(3)][1]}]\n    | l => l;")
            env[v] = ("links", v + "_")
            rest = rest[m.end():]
            continue
        m = re.match(r"for (\w+) in (\w+)\.iter_mut\(\) \{ \*(\w+) = self\.(\w+) \* \*(\w+); \}", rest)
        if m and m.group(1) == m.group(3) == m.group(5) and m.group(2) in env and env[m.group(2)][0] == "links" and m.group(4) in fields:
            v = m.group(2)
            lines.append(f"  let {v}_ : List (Iso R) := {env[v][1]}.map (fun x => {fields[m.group(4)][1]}.mul x);")
            env[v] = ("links", v + "_")
            rest = rest[m.end():]
            continue
        m = re.match(r"let (?:mut )?(\w+) = ([^;]*);", rest)
        if m:
            v, e = m.groups()
            ps = P(tokenize(e), env, fields)
            kind, term = ps.expr()
            if ps.peek()[0] != "eof":
                raise TranslateError(f"{rust_name}: trailing tokens in `{e}`")
            ty = {"iso": "Iso R", "joints": "J6 R", "sols": "List (J6 R)", "links": "List (Iso R)"}.get(kind)
            if ty is None:
                raise TranslateError(f"{rust_name}: unsupported binding of kind {kind}")
            lines.append(f"  let {v}_ : {ty} := {term};")
            env[v] = (kind, v + "_")
            rest = rest[m.end():]
            continue
        m = re.match(r"\((\w+), (\w+)\)$", rest)
        if m and m.group(1) in env and m.group(2) in env:
            result = ("pair", f"({env[m.group(1)][1]}, {env[m.group(2)][1]})")
            break
        ps = P(tokenize(rest), env, fields)
        result = ps.expr()
        if ps.peek()[0] != "eof":
            raise TranslateError(f"{rust_name}: cannot read `{rest[:60]}`")
        break
    if result is None or result[0] not in RTYPE:
        raise TranslateError(f"{rust_name}: no result")
    pdecl = " ".join(f"({p}_ : {PTYPE[PKIND[p]]})" for p in params)
    text = f"/-- {doc} -/\ndef {lean_name} (robot : Kin R) {fdecl} {pdecl} : {RTYPE[result[0]]} :=\n"
    text += "\n".join(lines) + ("\n" if lines else "") + f"  {result[1]}\n"
    return text


def kws_inherent(block, rust_name, lean_name, extra):
    """`self.body.NAME(args.., self.kinematics.as_ref()[, more])`: the facade hands the question to its body unchanged"""
    params, body = method(block, rust_name)
    flat = body.replace(" ", "")
    args = ",".join(["&" + p if False else p for p in params[:len(params) - len(extra)]] + ["self.kinematics.as_ref()"] + extra)
    want = f"self.body.{rust_name}({args})"
    if flat.replace("&", "") != want.replace("&", ""):
        raise TranslateError(f"KinematicsWithShape::{rust_name} is not the plain delegation `{want}`: `{body}`")
    ps = " ".join(f"({p}_ : α{i})" for i, p in enumerate(params))
    ts = " ".join(f"{{α{i} : Type}}" for i in range(len(params)))
    fty = " → ".join([f"α{i}" for i in range(len(params))] + ["β"])
    call = " ".join(p + "_" for p in params)
    return (f"/-- `KinematicsWithShape::{rust_name}`: the body's `{rust_name}` on the same arguments and the wrapped kinematics -/\n"
            f"def {lean_name} {ts} {{β : Type}} (body : {fty}) {ps} : β :=\n  body {call}\n")


def remove_collisions(block):
    params, body = method(block, "remove_collisions")
    m = re.match(r"let mut (\w+) = Vec::with_capacity\((\w+)\.len\(\)\); for (\w+) in (\w+) \{ if (!?)self\.body\.collides\(&(\w+), "
                 r"self\.kinematics\.as_ref\(\)\) \{ (\w+)\.push\((\w+)\); \} \} (\w+)$", body)
    if not m:
        raise TranslateError("remove_collisions: not a keep-in-order filter loop: " + body)
    out, src, it, src2, neg, arg, out2, pushed, ret = m.groups()
    if not (params == [src] and src == src2 and out == out2 == ret and it == arg == pushed):
        raise TranslateError("remove_collisions: loop variables do not line up: " + body)
    keep = f"!(collides {it}_)" if neg else f"collides {it}_"
    return ("/-- `KinematicsWithShape::remove_collisions`: answers kept in order, those reported colliding dropped -/\n"
            f"def kwsRemoveCollisions (collides : J6 R → Bool) ({src}_ : List (J6 R)) : List (J6 R) :=\n"
            f"  {src}_.filter (fun {it}_ => {keep})\n")


def generate(tool_src, frame_src, para_src, kws_src=None):
    L = ["/- GENERATED by tools/rs2lean_wrap.py from /repo/src/{tool,frame,parallelogram}.rs on every run. Do not edit. -/",
         "import OpwVerif.Wrappers", "set_option linter.unusedVariables false", "namespace Opw.SrcWrap", "open Opw",
         "variable {R : Type} [OpwNum R]", ""]
    five = [("inverse", "Inverse"), ("inverse_continuing", "InverseContinuing"), ("inverse_5dof", "Inverse5dof"),
            ("inverse_continuing_5dof", "InverseContinuing5dof"), ("forward", "Forward"), ("forward_with_joint_poses", "Links"),
            ("kinematic_singularity", "Singularity"), ("constraints", "Constraints")]
    for struct, src, field in [("Tool", tool_src, "tool"), ("Base", tool_src, "base"), ("Frame", frame_src, "frame")]:
        block = impl_block(src, f"impl Kinematics for {struct}")
        fields = {field: ("iso", "w")}
        for rn, ln in five:
            L.append(translate_method(block, rn, f"{field}{ln}", fields, "(w : Iso R)", f"`<{struct} as Kinematics>::{rn}`"))
    fblock = impl_block(frame_src, "impl Frame")
    L.append(translate_method(fblock, "forward_transformed", "frameForwardTransformed", {"frame": ("iso", "w")}, "(w : Iso R)",
                              "`Frame::forward_transformed`"))
    pblock = impl_block(para_src, "impl Kinematics for Parallelogram")
    for rn, ln in five:
        L.append(translate_method(pblock, rn, f"para{ln}", {}, "(scaling : R) (driven coupled : Nat)", f"`<Parallelogram as Kinematics>::{rn}`"))
    if kws_src is not None:
        kws_src = re.sub(r"//[^\n]*", "", kws_src)
        # the inherent block that holds remove_collisions and the facade methods
        rest, inh2 = kws_src, None
        while inh2 is None:
            blk = impl_block(rest, "impl KinematicsWithShape")
            if "fn remove_collisions" in blk:
                inh2 = blk
            rest = rest[rest.index(blk) + len(blk):]
        L.append(remove_collisions(inh2))
        kblock = impl_block(kws_src, "impl Kinematics for KinematicsWithShape")
        for rn, ln in five:
            L.append(translate_method(kblock, rn, f"kws{ln}", {"remove_collisions": True}, "(collides : J6 R → Bool)",
                                      f"`<KinematicsWithShape as Kinematics>::{rn}`"))
        for rn, ln, extra in [("collides", "kwsCollides", []), ("non_colliding_offsets", "kwsNonCollidingOffsets", []),
                              ("collision_details", "kwsCollisionDetails", []), ("near", "kwsNear", ["safety"])]:
            L.append(kws_inherent(inh2, rn, ln, extra))
    # LinearAxis / Gantry (tool.rs): base * cart translation * robot pose
    def product(expr, names):
        parts = [x.strip() for x in expr.split("*")]
        if any(x not in names for x in parts) or len(parts) != 3:
            raise TranslateError("unsupported product `" + expr + "`")
        t = names[parts[0]]
        for x in parts[1:]:
            t = f"({t}.mul {names[x]})"
        return t
    lblock = impl_block(re.sub(r"//[^\n]*", "", tool_src), "impl LinearAxis")
    _, body = method(lblock, "forward")
    m = re.match(r"^let cart_translation = match self\.axis \{ (.*) \}; let robot_pose = self\.robot\.forward\(joint_angles\); ([^;{}]*)$", body)
    if not m:
        raise TranslateError("LinearAxis::forward changed: " + body)
    arms = []
    for pat, val in re.findall(r"(\d+|_) => (Translation3::new\([^)]*\)|panic!\([^)]*\)),", m.group(1)):
        if val.startswith("panic!"):
            arms.append(f"| {pat} => none")
        else:
            comps = [c.strip() for c in val[len("Translation3::new("):-1].split(",")]
            if len(comps) != 3 or any(c not in ("distance", "0.0") for c in comps):
                raise TranslateError("LinearAxis::forward: unsupported translation " + val)
            arms.append(f"| {pat} => some ⟨" + ", ".join("distance" if c == "distance" else "0" for c in comps) + "⟩")
    if not arms or not arms[-1].startswith("| _"):
        raise TranslateError("LinearAxis::forward: no catch-all arm")
    prod = product(m.group(2), {"self.base": "base", "cart_translation": "(Iso.ofTranslation v)", "robot_pose": "(robot.forward joint_angles)"})
    L.append("/-- `LinearAxis::forward` (`none` = the panic on an invalid axis index) -/\n"
             "def linearAxisForwardSrc (robot : Kin R) (axis : Nat) (base : Iso R) (distance : R) (joint_angles : J6 R) : Option (Iso R) :=\n"
             "  let cart : Option (V3 R) := match axis with\n    " + " ".join(arms) + "\n"
             f"  cart.map (fun v => {prod})\n")
    gblock = impl_block(re.sub(r"//[^\n]*", "", tool_src), "impl Gantry")
    _, body = method(gblock, "forward")
    m = re.match(r"^let robot_pose = self\.robot\.forward\(joint_angles\); ([^;{}]*)$", body)
    if not m:
        raise TranslateError("Gantry::forward changed: " + body)
    prod = product(m.group(1), {"self.base": "base", "translation": "(Iso.ofTranslation translation)", "robot_pose": "(robot.forward joint_angles)"})
    L.append("/-- `Gantry::forward` -/\ndef gantryForwardSrc (robot : Kin R) (base : Iso R) (translation : V3 R) (joint_angles : J6 R) : Iso R :=\n"
             f"  {prod}\n")
    L.append("end Opw.SrcWrap")
    return "\n".join(L) + "\n"


if __name__ == "__main__":
    sys.stdout.write(generate(open("/repo/src/tool.rs").read(), open("/repo/src/frame.rs").read(), open("/repo/src/parallelogram.rs").read(),
                              open("/repo/src/kinematics_with_shape.rs").read()))
