#!/usr/bin/env python3
"""Run the registered quick checks against (a) every confirmed seeded mutation in /verif/seeded/<id>/patch.diff and
(b) every 'fix:' commit of /repo reverted, one at a time, applied to /repo's working tree and undone straight afterwards.
Evidence/replays of these runs go to a scratch directory (VERIF_OUT), never into /verif/evidence.
Writes /verif/seeded/RESULTS.json and RESULTS.md."""
import glob, json, os, re, subprocess, sys, time
ROOT = "/verif"
OUTDIR = "/tmp/seeded_out"
ENV = dict(os.environ, VERIF_OUT=OUTDIR, CARGO_NET_OFFLINE="true")

def sh(cmd, cwd=None, timeout=7200):
    p = subprocess.run(cmd, cwd=cwd, env=ENV, stdout=subprocess.PIPE, stderr=subprocess.STDOUT, text=True, timeout=timeout)
    return p.returncode, p.stdout

def clean_repo():
    rc, out = sh(["git", "-C", "/repo", "status", "--porcelain"])
    return out.strip() == ""

def run_checks(props):
    res = {}
    for p in props:
        t0 = time.time()
        rc, out = sh(["python3", os.path.join(ROOT, "run_check.py"), p, "quick"], cwd=ROOT)
        viol = [l for l in out.splitlines() if l.startswith("VIOLATION")]
        res[p] = {"exit": rc, "violation": viol[:1], "wall_s": round(time.time() - t0, 1),
                  "summary": [l for l in out.splitlines() if l.startswith(p + " quick")][:1]}
    return res

def main():
    which = sys.argv[1] if len(sys.argv) > 1 else "all"
    os.makedirs(OUTDIR, exist_ok=True)
    results = json.load(open(os.path.join(ROOT, "seeded", "RESULTS.json"))) if os.path.exists(os.path.join(ROOT, "seeded", "RESULTS.json")) else {}
    assert clean_repo(), "/repo working tree not clean"
    if which in ("all", "seeded"):
        for d in sorted(glob.glob(os.path.join(ROOT, "seeded", "C*-*"))):
            name = os.path.basename(d)
            if len(sys.argv) > 2 and name not in sys.argv[2:]:
                continue
            prop = name.split("-")[0]
            patch = os.path.join(d, "patch.diff")
            rc, out = sh(["git", "-C", "/repo", "apply", patch])
            if rc != 0:
                results["seeded:" + name] = {"error": "patch does not apply: " + out[:200]}
                continue
            try:
                r = run_checks([prop])
            finally:
                sh(["git", "-C", "/repo", "checkout", "--", "."])
            results["seeded:" + name] = r
            print(name, {k: (v["exit"], v["violation"]) for k, v in r.items()}, flush=True)
            json.dump(results, open(os.path.join(ROOT, "seeded", "RESULTS.json"), "w"), indent=1)
    if which in ("all", "fixes"):
        kf = json.load(open(os.path.join(ROOT, "known_findings.json")))
        for f in kf["findings"]:
            if f.get("status") != "fixed":
                continue
            c = f["commit"]
            if len(sys.argv) > 2 and f["id"] not in sys.argv[2:]:
                continue
            rc, out = sh(["git", "-C", "/repo", "revert", "-n"] + f.get("revert_commits", [c]))
            if rc != 0:
                sh(["git", "-C", "/repo", "revert", "--abort"]); sh(["git", "-C", "/repo", "reset", "-q", "--hard", "HEAD"])
                results["revert:" + f["id"]] = {"error": "revert does not apply cleanly (later fixes touch the same lines)"}
                continue
            try:
                r = run_checks(f["properties"])
            finally:
                sh(["git", "-C", "/repo", "reset", "-q", "--hard", "HEAD"])
            results["revert:" + f["id"]] = r
            print("revert", f["id"], {k: (v["exit"], v["violation"]) for k, v in r.items()}, flush=True)
            json.dump(results, open(os.path.join(ROOT, "seeded", "RESULTS.json"), "w"), indent=1)
    # markdown
    lines = ["# Seeded changes and reverted fixes against the quick checks", "",
             "| change | property check | exit | verdict line |", "|---|---|---|---|"]
    for k in sorted(results):
        v = results[k]
        if "error" in v:
            lines.append(f"| {k} | - | - | {v['error']} |"); continue
        for p, r in v.items():
            lines.append(f"| {k} | {p} | {r['exit']} | {(r['violation'] or ['(no violation reported)'])[0]} |")
    open(os.path.join(ROOT, "seeded", "RESULTS.md"), "w").write("\n".join(lines) + "\n")

if __name__ == "__main__":
    main()
