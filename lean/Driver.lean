/-
  Model driver: reads case lines produced by the Rust harness (inputs and the implementation's
  outputs), replays each through the `Float` reading of the model, and prints per line the
  correspondence verdict and the property predicates evaluated on the implementation's output.
-/
import OpwVerif.Drv.KinOps2
import OpwVerif.Drv.MiscOps
import OpwVerif.Drv.MiscOps2
import OpwVerif.Drv.CollOps
import OpwVerif.Drv.PlanOps
import OpwVerif.Drv.FileOps
open Opw Opw.Proto Opw.Drv

def dispatch (op : String) : Option (RM Res) :=
  match op with
  | "links" => some opLinks
  | "preset" => some opPreset
  | "linksp" => some opLinksP
  | "inv" => some (opInverse .inv)
  | "invc" => some (opInverse .invc)
  | "inv5" => some (opInverse .inv5)
  | "invc5" => some (opInverse .invc5)
  | "sing" => some opSing2
  | "invcs" => some opInvCS
  | "cmp2" => some opCmp2
  | "invcl" => some opInvCl
  | "h_norm" => some opHNorm
  | "h_close" => some opHClose
  | "h_mpi" => some opHMpi
  | "h_dist" => some opHDist
  | "h_cmp" => some opHCmp
  | "c07" => some opC07
  | "coll" => some opColl
  | "offs" => some opOffs
  | "h_dense" => some opHDense
  | "plan" => some opPlan
  | "plan_sched" => some opPlanSched
  | "plan_exists" => some opPlanExists
  | "h_rrt" => some opHRrt
  | "rrt" => some opRrt
  | "rrt_cancel" => some opRrtCancel
  | "yaml" => some opYaml
  | "urdf" => some opUrdf
  | "h_name" => some opHName
  | "kws" => some opKws
  | "kwsd" => some opKwsD
  | "c18" => some opC18
  | "frame" => some opFrame
  | "frame_tr" => some opFrameTr
  | "fwd_tr" => some opFwdTr
  | "jac" => some opJac
  | "lin" => some opLin
  | "gantry" => some opGantry
  | "cons_of" => some opConsOf
  | "h_iki" => some (opHIki false)
  | "h_iki5" => some (opHIki true)
  | _ => none

def processLine (line : String) : String :=
  let toks := (line.trimAscii.toString.splitOn " ").filter (· != "") |>.toArray
  if toks.size < 3 then "?? ?? ?? ERROR short line"
  else
    let prop := toks[0]!
    let fam := toks[1]!
    let op := toks[2]!
    match dispatch op with
    | none => s!"{prop} {fam} {op} ERROR unknown op"
    | some h =>
      match (h.run { toks := toks, pos := 3 }) with
      | .ok (r, st) =>
        if st.pos < toks.size then s!"{prop} {fam} {op} ERROR trailing tokens at {st.pos} of {toks.size}"
        else s!"{prop} {fam} {op} {r.render}"
      | .error e => s!"{prop} {fam} {op} ERROR {e}"

partial def loop (hin : IO.FS.Stream) (hout : IO.FS.Stream) : IO Unit := do
  let line ← hin.getLine
  if line.isEmpty then return ()
  if line.trimAscii.toString.isEmpty then loop hin hout
  else
    hout.putStrLn (processLine line)
    loop hin hout

def main : IO Unit := do
  let hin ← IO.getStdin
  let hout ← IO.getStdout
  loop hin hout
