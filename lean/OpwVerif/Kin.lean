/-
  Model of `src/kinematics_impl.rs`, `src/constraints.rs` (limits part) and `src/utils/utils.rs`
  (`is_valid`, `transition_costs`).  Written against `OpwNum`, follows the Rust operation order.
  No Mathlib import here.
-/
import OpwVerif.Geom
import OpwVerif.Generated.Consts
namespace Opw

/-- `Joints = [f64; 6]` -/
structure J6 (R : Type) where
  j1 : R
  j2 : R
  j3 : R
  j4 : R
  j5 : R
  j6 : R
deriving Inhabited

variable {R : Type} [OpwNum R]

namespace J6
def get (q : J6 R) : Nat → R
  | 0 => q.j1 | 1 => q.j2 | 2 => q.j3 | 3 => q.j4 | 4 => q.j5 | _ => q.j6
def set (q : J6 R) (i : Nat) (v : R) : J6 R :=
  match i with
  | 0 => { q with j1 := v } | 1 => { q with j2 := v } | 2 => { q with j3 := v }
  | 3 => { q with j4 := v } | 4 => { q with j5 := v } | _ => { q with j6 := v }
def map (f : R → R) (q : J6 R) : J6 R := ⟨f q.j1, f q.j2, f q.j3, f q.j4, f q.j5, f q.j6⟩
def zipWith (f : R → R → R) (a b : J6 R) : J6 R :=
  ⟨f a.j1 b.j1, f a.j2 b.j2, f a.j3 b.j3, f a.j4 b.j4, f a.j5 b.j5, f a.j6 b.j6⟩
def toList (q : J6 R) : List R := [q.j1, q.j2, q.j3, q.j4, q.j5, q.j6]
def zero : J6 R := ⟨0, 0, 0, 0, 0, 0⟩
/-- `is_valid` -/
def allFinite (q : J6 R) : Bool := fin q.j1 && fin q.j2 && fin q.j3 && fin q.j4 && fin q.j5 && fin q.j6
def first5Finite (q : J6 R) : Bool := fin q.j1 && fin q.j2 && fin q.j3 && fin q.j4 && fin q.j5
end J6

/-- `Parameters` (sign corrections are stored as the `f64` the code casts them to) -/
structure Params (R : Type) where
  a1 : R
  a2 : R
  b : R
  c1 : R
  c2 : R
  c3 : R
  c4 : R
  offsets : J6 R
  signs : J6 R
  dof : Int
deriving Inhabited

/-- `Constraints` -/
structure Constraints (R : Type) where
  from_ : J6 R
  to : J6 R
  centers : J6 R
  tolerances : J6 R
  sortingWeight : R
deriving Inhabited

/-! ### Constants (regenerated from the source, see `Generated/Consts.lean`) -/
def distTol : R := OpwNum.ofDyadic Gen.distTolM Gen.distTolE
def angTol : R := OpwNum.ofDyadic Gen.angTolM Gen.angTolE
def singThr : R := OpwNum.ofDyadic Gen.singThrM Gen.singThrE
def singShift : R := OpwNum.ofDyadic Gen.singShiftM Gen.singShiftE
def byPrev : R := OpwNum.ofDyadic Gen.byPrevM Gen.byPrevE
def byConstraints : R := OpwNum.ofDyadic Gen.byConstraintsM Gen.byConstraintsE

/-! ### Small helpers of `kinematics_impl.rs` -/

/-- The pair of loops `while angle > PI { angle -= 2π }  while angle < -PI { angle += 2π }`.
Fuel bounds the number of iterations of each loop. -/
def loopDown : Nat → R → R
  | 0, x => x
  | n + 1, x => if x > pi then loopDown n (x - 2 * pi) else x
def loopUp : Nat → R → R
  | 0, x => x
  | n + 1, x => if x < -pi then loopUp n (x + 2 * pi) else x
def normFuel : Nat := 100000
def normPiF (fuel : Nat) (x : R) : R := loopUp fuel (loopDown fuel x)
def normPi (x : R) : R := normPiF normFuel x

/-- `is_close_to_multiple_of_pi` -/
def isCloseToMultipleOfPi (v thr : R) : Bool :=
  let n := remEuclid v (2 * pi)
  decide (n < thr) || decide (2 * pi - n < thr) || decide (nabs (pi - n) < thr)

/-- the `while diff > PI { diff = 2π - diff }` loop of `are_angles_close` -/
def foldDiff : Nat → R → R
  | 0, d => d
  | n + 1, d => if d > pi then foldDiff n (2 * pi - d) else d

/-- `are_angles_close` -/
def areAnglesClose (a b : R) : Bool :=
  let d := nfmod (nabs (a - b)) (2 * pi)
  decide (foldDiff 4 d < singThr)

/-- inner `adjust` of `normalize_near` -/
def adjustNear (now prev : R) : R :=
  let n1 := if nabs (now - prev) > nabs ((now - twoPi) - prev) then now - twoPi else now
  let n2 := if nabs (n1 - prev) > nabs ((n1 + twoPi) - prev) then n1 + twoPi else n1
  if feq (nabs n2) pi && !(feq (OpwNum.signum prev) (OpwNum.signum n2)) then -n2 else n2

/-- `normalize_near` -/
def normalizeNear (now prev : R) : R := adjustNear (adjustNear now prev) prev

def J6.normalizeNear (s prev : J6 R) : J6 R := J6.zipWith Opw.normalizeNear s prev

/-- `calculate_distance`: `Σ |aᵢ − bᵢ|` (iterator sum, left to right from 0) -/
def calculateDistance (a b : J6 R) : R :=
  0 + nabs (a.j1 - b.j1) + nabs (a.j2 - b.j2) + nabs (a.j3 - b.j3) + nabs (a.j4 - b.j4)
    + nabs (a.j5 - b.j5) + nabs (a.j6 - b.j6)

/-- `compare_poses` -/
def comparePoses (ta tb : Iso R) (dT aT : R) : Bool :=
  let td := (ta.t.sub tb.t).norm
  let ad := Quat.angleTo ta.q tb.q
  if !(decide (nabs td ≤ dT)) then false
  else if !(decide (nabs ad ≤ aT)) then false
  else true

/-- `compare_xyz_only` -/
def compareXyz (a b : V3 R) (tol : R) : Bool := decide ((a.sub b).norm ≤ tol)

/-- `transition_costs` (utils.rs) -/
def transitionCosts (a b c : J6 R) : R :=
  nabs (a.j1 - b.j1) * c.j1 + nabs (a.j2 - b.j2) * c.j2 + nabs (a.j3 - b.j3) * c.j3
    + nabs (a.j4 - b.j4) * c.j4 + nabs (a.j5 - b.j5) * c.j5 + nabs (a.j6 - b.j6) * c.j6

/-! ### Limits (`constraints.rs`) -/

/-- `while b < a { b += 2π }` -/
def unwrapTo : Nat → R → R → R
  | 0, _, b => b
  | n + 1, a, b => if b < a then unwrapTo n a (b + twoPi) else b

def infTol : R := (1 : R) / 0

/-- one joint of `compute_centers`: `(centre, tolerance)` -/
def centerTol (a b : R) : R × R :=
  if feq a b then (0, infTol)
  else if a < b then ((a + b) / 2, (b - a) / 2)
  else
    let b' := unwrapTo normFuel a b
    ((a + b') / 2, (b' - a) / 2)

/-- `Constraints::new` / `update_range` -/
def Constraints.mk' (f t : J6 R) (w : R) : Constraints R :=
  let c := fun (a b : R) => (centerTol a b).1
  let tl := fun (a b : R) => (centerTol a b).2
  ⟨f, t, J6.zipWith c f t, J6.zipWith tl f t, w⟩

/-- `Constraints::from_degrees` -/
def Constraints.ofDegrees (f t : J6 R) (w : R) : Constraints R :=
  Constraints.mk' (f.map toRadians) (t.map toRadians) w

def isInfinite (x : R) : Bool := !(fin x) && !(isNaN x)

/-- `inside_bounds` -/
def insideBounds (angle centre tol : R) : Bool :=
  if isInfinite tol then true
  else
    let d := nfmod (nabs (angle - centre)) twoPi
    let d' := if d > pi then twoPi - d else d
    decide (d' ≤ tol)

/-- `Constraints::compliant` -/
def Constraints.compliant (c : Constraints R) (a : J6 R) : Bool :=
  insideBounds a.j1 c.centers.j1 c.tolerances.j1 && insideBounds a.j2 c.centers.j2 c.tolerances.j2 &&
  insideBounds a.j3 c.centers.j3 c.tolerances.j3 && insideBounds a.j4 c.centers.j4 c.tolerances.j4 &&
  insideBounds a.j5 c.centers.j5 c.tolerances.j5 && insideBounds a.j6 c.centers.j6 c.tolerances.j6

/-- `Constraints::filter` -/
def Constraints.filter (c : Constraints R) (l : List (J6 R)) : List (J6 R) := l.filter c.compliant

/-! ### The solver -/

/-- `OPWKinematics` -/
structure Opw (R : Type) where
  p : Params R
  cons : Option (Constraints R)
deriving Inhabited

/-- sign/offset map into the θ-space of the paper: `q = joints * sign - offset` -/
def thetaOf (p : Params R) (j : J6 R) : J6 R :=
  ⟨j.j1 * p.signs.j1 - p.offsets.j1, j.j2 * p.signs.j2 - p.offsets.j2, j.j3 * p.signs.j3 - p.offsets.j3,
   j.j4 * p.signs.j4 - p.offsets.j4, j.j5 * p.signs.j5 - p.offsets.j5, j.j6 * p.signs.j6 - p.offsets.j6⟩

/-- and back: `(θ + offset) * sign` -/
def jointsOf (p : Params R) (t : J6 R) : J6 R :=
  ⟨(t.j1 + p.offsets.j1) * p.signs.j1, (t.j2 + p.offsets.j2) * p.signs.j2, (t.j3 + p.offsets.j3) * p.signs.j3,
   (t.j4 + p.offsets.j4) * p.signs.j4, (t.j5 + p.offsets.j5) * p.signs.j5, (t.j6 + p.offsets.j6) * p.signs.j6⟩

def r0c (s1 c1 s2 c2 s3 c3 : R) : M3 R :=
  ⟨c1 * c2 * c3 - c1 * s2 * s3, -s1, c1 * c2 * s3 + c1 * s2 * c3,
   s1 * c2 * c3 - s1 * s2 * s3, c1, s1 * c2 * s3 + s1 * s2 * c3,
   -s2 * c3 - c2 * s3, 0, -s2 * s3 + c2 * c3⟩

def rce (s4 c4 s5 c5 s6 c6 : R) : M3 R :=
  ⟨c4 * c5 * c6 - s4 * s6, -c4 * c5 * s6 - s4 * c6, c4 * s5,
   s4 * c5 * c6 + c4 * s6, -s4 * c5 * s6 + c4 * c6, s4 * s5,
   -s5 * c6, s5 * s6, c5⟩

def M3.scaleL (s : R) (a : M3 R) : M3 R :=
  ⟨s * a.m00, s * a.m01, s * a.m02, s * a.m10, s * a.m11, s * a.m12, s * a.m20, s * a.m21, s * a.m22⟩

/-- rotation matrix and translation of `forward` in θ-space (closed form) -/
def forwardTheta (p : Params R) (q : J6 R) : M3 R × V3 R :=
  let psi3 := natan2 p.a2 p.c3
  let k := nsqrt (p.a2 * p.a2 + p.c3 * p.c3)
  let q23 := q.j2 + q.j3 + psi3
  let s23 := nsin q23
  let c23 := ncos q23
  let cx1 := p.c2 * nsin q.j2 + k * s23 + p.a1
  let cy1 := p.b
  let cz1 := p.c2 * ncos q.j2 + k * c23
  let cx0 := cx1 * ncos q.j1 - cy1 * nsin q.j1
  let cy0 := cx1 * nsin q.j1 + cy1 * ncos q.j1
  let cz0 := cz1 + p.c1
  let roe := (r0c (nsin q.j1) (ncos q.j1) (nsin q.j2) (ncos q.j2) (nsin q.j3) (ncos q.j3)).mul
             (rce (nsin q.j4) (ncos q.j4) (nsin q.j5) (ncos q.j5) (nsin q.j6) (ncos q.j6))
  let tr := (V3.mk cx0 cy0 cz0).add ((M3.scaleL p.c4 roe).mulVec V3.ez)
  (roe, tr)

/-- `OPWKinematics::forward` -/
def forward (p : Params R) (j : J6 R) : Iso R :=
  let (roe, tr) := forwardTheta p (thetaOf p j)
  ⟨tr, Quat.ofMat roe⟩

/-- `OPWKinematics::forward_with_joint_poses`: the six link poses -/
def chainTheta (p : Params R) (q : J6 R) : List (Iso R) :=
  let p1 : Iso R := ⟨⟨0, 0, p.c1⟩, Quat.rotZ q.j1⟩
  let p2 := p1.mul ⟨⟨p.a1, p.b, 0⟩, Quat.rotY q.j2⟩
  let p3 := p2.mul ⟨⟨0, 0, p.c2⟩, Quat.rotY q.j3⟩
  let p4 := p3.mul ⟨⟨p.a2, 0, 0⟩, Quat.rotZ q.j4⟩
  let p5 := p4.mul ⟨⟨0, 0, p.c3⟩, Quat.rotY q.j5⟩
  let p6 := p5.mul ⟨⟨0, 0, p.c4⟩, Quat.rotZ q.j6⟩
  [p1, p2, p3, p4, p5, p6]

def chain (p : Params R) (j : J6 R) : List (Iso R) := chainTheta p (thetaOf p j)

/-- the eight raw θ candidates of `inverse_intern` (the 5-DOF variant computes the same first five) -/
def thetaCandidates (p : Params R) (pose : Iso R) : List (J6 R) :=
  let m := pose.q.toMat
  let zv := m.mulVec V3.ez
  let c := pose.t.sub ⟨p.c4 * zv.x, p.c4 * zv.y, p.c4 * zv.z⟩   -- translation - c4 * (matrix * z)
  let nx1 := nsqrt ((c.x * c.x + c.y * c.y) - p.b * p.b) - p.a1
  let tmp1 := natan2 c.y c.x
  let tmp2 := natan2 p.b (nx1 + p.a1)
  let th1i := tmp1 - tmp2
  let th1ii := tmp1 + tmp2 - pi
  let tmp3 := c.z - p.c1
  let s1_2 := nx1 * nx1 + tmp3 * tmp3
  let tmp4 := nx1 + 2 * p.a1
  let s2_2 := tmp4 * tmp4 + tmp3 * tmp3
  let kappa2 := p.a2 * p.a2 + p.c3 * p.c3
  let c2_2 := p.c2 * p.c2
  let tmp5 := s1_2 + c2_2 - kappa2
  let s1 := nsqrt s1_2
  let s2 := nsqrt s2_2
  let tmp13 := nacos (tmp5 / (2 * s1 * p.c2))
  let tmp14 := natan2 nx1 (c.z - p.c1)
  let th2i := -tmp13 + tmp14
  let th2ii := tmp13 + tmp14
  let tmp6 := s2_2 + c2_2 - kappa2
  let tmp15 := nacos (tmp6 / (2 * s2 * p.c2))
  let tmp16 := natan2 (nx1 + 2 * p.a1) (c.z - p.c1)
  let th2iii := -tmp15 - tmp16
  let th2iv := tmp15 - tmp16
  let tmp7 := s1_2 - c2_2 - kappa2
  let tmp8 := s2_2 - c2_2 - kappa2
  let tmp9 := 2 * p.c2 * nsqrt kappa2
  let tmp10 := natan2 p.a2 p.c3
  let tmp11 := nacos (tmp7 / tmp9)
  let th3i := tmp11 - tmp10
  let th3ii := -tmp11 - tmp10
  let tmp12 := nacos (tmp8 / tmp9)
  let th3iii := tmp12 - tmp10
  let th3iv := -tmp12 - tmp10
  let s1i := nsin th1i
  let c1i := ncos th1i
  let s1ii := nsin th1ii
  let c1ii := ncos th1ii
  -- one wrist solution for a given (sin θ1, cos θ1, θ2 + θ3)
  let wrist := fun (sin1 cos1 t23 : R) =>
    let s23 := nsin t23
    let c23 := ncos t23
    let mm := m.m02 * s23 * cos1 + m.m12 * s23 * sin1 + m.m22 * c23
    let th5 := natan2 (nsqrt (1 - mm * mm)) mm
    let th4y := m.m12 * cos1 - m.m02 * sin1
    let th4x := m.m02 * c23 * cos1 + m.m12 * c23 * sin1 - m.m22 * s23
    let th4 := natan2 th4y th4x
    let th6y := m.m01 * s23 * cos1 + m.m11 * s23 * sin1 + m.m21 * c23
    let th6x := -m.m00 * s23 * cos1 - m.m10 * s23 * sin1 - m.m20 * c23
    let th6 := natan2 th6y th6x
    (th4, th5, th6)
  let w1 := wrist s1i c1i (th2i + th3i)
  let w2 := wrist s1i c1i (th2ii + th3ii)
  let w3 := wrist s1ii c1ii (th2iii + th3iii)
  let w4 := wrist s1ii c1ii (th2iv + th3iv)
  [⟨th1i, th2i, th3i, w1.1, w1.2.1, w1.2.2⟩,
   ⟨th1i, th2ii, th3ii, w2.1, w2.2.1, w2.2.2⟩,
   ⟨th1ii, th2iii, th3iii, w3.1, w3.2.1, w3.2.2⟩,
   ⟨th1ii, th2iv, th3iv, w4.1, w4.2.1, w4.2.2⟩,
   ⟨th1i, th2i, th3i, w1.1 + pi, -w1.2.1, w1.2.2 - pi⟩,
   ⟨th1i, th2ii, th3ii, w2.1 + pi, -w2.2.1, w2.2.2 - pi⟩,
   ⟨th1ii, th2iii, th3iii, w3.1 + pi, -w3.2.1, w3.2.2 - pi⟩,
   ⟨th1ii, th2iv, th3iv, w4.1 + pi, -w4.2.1, w4.2.2 - pi⟩]

/-- post-processing of one candidate in `inverse_intern`: finite?, normalise, FK cross-check -/
def finishCandidate (p : Params R) (pose : Iso R) (s : J6 R) : Option (J6 R) :=
  if s.allFinite then
    let s' := s.map normPi
    if comparePoses pose (forward p s') distTol angTol then some s' else none
  else none

/-- `inverse_intern` -/
def inverseIntern (p : Params R) (pose : Iso R) : List (J6 R) :=
  (thetaCandidates p pose).filterMap (fun t => finishCandidate p pose (jointsOf p t))

/-- post-processing of one candidate in `inverse_intern_5_dof` -/
def finishCandidate5 (p : Params R) (pose : Iso R) (j6 : R) (s : J6 R) : Option (J6 R) :=
  let s0 : J6 R := { s with j6 := j6 }
  if s0.first5Finite then
    let s' : J6 R := ⟨normPi s0.j1, normPi s0.j2, normPi s0.j3, normPi s0.j4, normPi s0.j5, j6⟩
    if compareXyz pose.t (forward p s').t distTol then some s' else none
  else none

/-- `inverse_intern_5_dof` -/
def inverseIntern5 (p : Params R) (pose : Iso R) (j6 : R) : List (J6 R) :=
  (thetaCandidates p pose).filterMap (fun t => finishCandidate5 p pose j6 (jointsOf p t))

def Opw.filterCompliant (k : Opw R) (l : List (J6 R)) : List (J6 R) :=
  match k.cons with
  | some c => c.filter l
  | none => l

def Opw.compliant (k : Opw R) (s : J6 R) : Bool :=
  match k.cons with
  | some c => c.compliant s
  | none => true

def Opw.constraintCenters (k : Opw R) : J6 R :=
  match k.cons with
  | some c => c.centers
  | none => J6.zero

/-- the cost `sort_by_closeness` sorts by -/
def Opw.sortCost (k : Opw R) (previous : J6 R) (a : J6 R) : R :=
  match k.cons with
  | none => calculateDistance a previous
  | some c =>
    if feq c.sortingWeight byPrev then calculateDistance a previous
    else
      let prevA : R := if !(feq c.sortingWeight byConstraints) then calculateDistance a previous else 0
      let consA := calculateDistance a c.centers
      prevA * (1 - c.sortingWeight) + consA * c.sortingWeight

/-- `sort_by_closeness`: stable sort, `partial_cmp(..).unwrap_or(Equal)` -/
def Opw.sortByCloseness (k : Opw R) (l : List (J6 R)) (previous : J6 R) : List (J6 R) :=
  l.mergeSort (fun a b => !(decide (k.sortCost previous b < k.sortCost previous a)))

/-- `kinematic_singularity` (true = `Some(Singularity::A)`) -/
def kinematicSingularity (p : Params R) (j : J6 R) : Bool :=
  isCloseToMultipleOfPi (j.j5 * p.signs.j5 - p.offsets.j5) singThr

/-- the J4/J6 redistribution of `inverse_continuing` for one singular candidate `now` -/
def singularCandidate (p : Params R) (previous now : J6 R) : J6 R :=
  let s4 := p.signs.j4
  let s6 := p.signs.j6
  let q5 := now.j5 * p.signs.j5 - p.offsets.j5
  let zeroCase := areAnglesClose q5 0
  let s := if zeroCase then previous.j4 * s4 + previous.j6 * s6 else previous.j4 * s4 - previous.j6 * s6
  let sn := if zeroCase then now.j4 * s4 + now.j6 * s6 else now.j4 * s4 - now.j6 * s6
  let now5 := if zeroCase then now.j5 else normalizeNear now.j5 previous.j5
  let angle := normPi (sn - s)
  let jd := angle / 2
  { now with j4 := previous.j4 + jd * s4, j5 := now5, j6 := previous.j6 + jd * s6 }

/-- one iteration of the `'shifts` loop: new `solutions` and whether `break 'shifts` was taken -/
def shiftStep (k : Opw R) (pose : Iso R) (previous : J6 R) (sols : List (J6 R)) (d : V3 R) :
    List (J6 R) × Bool :=
  let shifted : Iso R := ⟨⟨pose.t.x + d.x, pose.t.y + d.y, pose.t.z + d.z⟩, pose.q⟩
  let ik := inverseIntern k.p shifted
  let sols1 := if sols.isEmpty then sols ++ ik else sols
  match ik.find? (fun s => kinematicSingularity k.p s && s.allFinite) with
  | none => (sols1, false)
  | some s0 =>
    let now := singularCandidate k.p previous s0
    if comparePoses pose (forward k.p now) distTol angTol && k.compliant now then (sols1 ++ [now], true)
    else (sols1, false)

def shifts : List (V3 R) := [⟨0, 0, 0⟩, ⟨singShift, 0, 0⟩, ⟨0, singShift, 0⟩, ⟨0, 0, singShift⟩]

def shiftLoop (k : Opw R) (pose : Iso R) (previous : J6 R) : List (V3 R) → List (J6 R) → List (J6 R)
  | [], sols => sols
  | d :: ds, sols =>
    let (sols', brk) := shiftStep k pose previous sols d
    if brk then sols' else shiftLoop k pose previous ds sols'

/-- reference vector: constraint centres for the `CONSTRAINT_CENTERED` sentinel -/
def Opw.reference (k : Opw R) (prev : J6 R) : J6 R :=
  if isNaN prev.j1 then k.constraintCenters else prev

/-- `inverse_continuing` for a robot not declared 5-DOF -/
def Opw.inverseContinuing6 (k : Opw R) (pose : Iso R) (prev : J6 R) : List (J6 R) :=
  let previous := k.reference prev
  let sols := shiftLoop k pose previous shifts []
  let sols := sols.map (fun s => s.normalizeNear previous)
  k.filterCompliant (k.sortByCloseness sols previous)

/-- `inverse_5dof` -/
def Opw.inverse5dof (k : Opw R) (pose : Iso R) (j6 : R) : List (J6 R) :=
  k.filterCompliant (inverseIntern5 k.p pose j6)

/-- `inverse_continuing_5dof` -/
def Opw.inverseContinuing5dof (k : Opw R) (pose : Iso R) (prev : J6 R) : List (J6 R) :=
  let previous := k.reference prev
  let sols := inverseIntern5 k.p pose prev.j6
  let sols := sols.map (fun s => s.normalizeNear previous)
  k.filterCompliant (k.sortByCloseness sols previous)

/-- `inverse` -/
def Opw.inverse (k : Opw R) (pose : Iso R) : List (J6 R) :=
  if k.p.dof == 5 then k.inverse5dof pose 0
  else k.filterCompliant (inverseIntern k.p pose)

/-- `inverse_continuing` -/
def Opw.inverseContinuing (k : Opw R) (pose : Iso R) (prev : J6 R) : List (J6 R) :=
  if k.p.dof == 5 then k.inverseContinuing5dof pose prev
  else k.inverseContinuing6 pose prev

end Opw
