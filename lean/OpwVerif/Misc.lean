/-
  Models of `Constraints::random_angles` (sampler, with the uniform draw as a parameter),
  `frame.rs` (`Frame::frame`, `Frame::translation`, `is_valid_isometry`) and `jacobian.rs`
  (`compute_jacobian`, `torques`, the 6-vector extraction).  No Mathlib import.
-/
import OpwVerif.Wrappers
namespace Opw
variable {R : Type} [OpwNum R]

/-! ### Sampler (`constraints.rs::random_angles`) -/

/-- the length of the range handed to `gen_range(0.0..len)` for one joint -/
def sampleSpan (f t : R) : R :=
  if f < t then t - f
  else if feq f t then 2 * pi
  else remEuclid (t - f) (2 * pi)

/-- one joint of `random_angles`, `u` being the uniform draw from `[0, sampleSpan f t)` -/
def randomAngle (f t u : R) : R :=
  if f < t then f + u
  else if sampleSpan f t > 0 then f + u
  else f

def randomAngles (c : Constraints R) (u : J6 R) : J6 R :=
  ⟨randomAngle c.from_.j1 c.to.j1 u.j1, randomAngle c.from_.j2 c.to.j2 u.j2, randomAngle c.from_.j3 c.to.j3 u.j3,
   randomAngle c.from_.j4 c.to.j4 u.j4, randomAngle c.from_.j5 c.to.j5 u.j5, randomAngle c.from_.j6 c.to.j6 u.j6⟩

/-! ### Frames (`frame.rs`) -/

inductive FrameErr where
  | notIsometry
  | colinearSource
  | colinearTarget
deriving BEq, Repr, DecidableEq

def nonIsoTol : R := OpwNum.ofDyadic Gen.nonIsoTolM Gen.nonIsoTolE

/-- `distances_match` -/
def distancesMatch (a1 a2 a3 b1 b2 b3 : V3 R) (tol : R) : Bool :=
  let da12 := (a1.sub a2).norm
  let da13 := (a1.sub a3).norm
  let da23 := (a2.sub a3).norm
  let db12 := (b1.sub b2).norm
  let db13 := (b1.sub b3).norm
  let db23 := (b2.sub b3).norm
  decide (nabs (da12 - db12) < tol) && decide (nabs (da13 - db13) < tol) && decide (nabs (da23 - db23) < tol)

/-- orthonormal basis built from two vectors: `(v1/‖v1‖, (v1×v2)/‖v1×v2‖, b1×b2)` as matrix columns -/
def basisOf (v1 v2 : V3 R) : M3 R :=
  let b1 := v1.normalize
  let b2 := (V3.cross v1 v2).normalize
  let b3 := V3.cross b1 b2
  M3.ofColumns b1 b2 b3

/-- `Frame::frame` -/
def frameOf (p1 p2 p3 q1 q2 q3 : V3 R) : Except FrameErr (Iso R) :=
  if !(distancesMatch p1 p2 p3 q1 q2 q3 nonIsoTol) then .error .notIsometry
  else
    let v1 := p2.sub p1
    let v2 := p3.sub p1
    if feq (V3.cross v1 v2).norm 0 then .error .colinearSource
    else
      let w1 := q2.sub q1
      let w2 := q3.sub q1
      if feq (V3.cross w1 w2).norm 0 then .error .colinearTarget
      else
        let m := (basisOf w1 w2).mul (basisOf v1 v2).transpose
        let rot := Quat.ofMat m
        .ok ⟨q1.sub (rot.rotate p1), rot⟩

/-- `Frame::translation` -/
def frameTranslation (p q : V3 R) : Iso R := ⟨q.sub p, Quat.one⟩

/-! ### Jacobian (`jacobian.rs`) -/

/-- a 6-vector of columns/rows -/
structure Col (R : Type) where
  lin : V3 R
  ang : V3 R
deriving Inhabited

/-- one column of `compute_jacobian`: finite difference of position, scaled axis of the relative rotation -/
def jacobianColumn (fwd : J6 R → Iso R) (q : J6 R) (eps : R) (i : Nat) : Col R :=
  let cur := fwd q
  let pert := fwd (q.set i (q.get i + eps))
  let dp := (pert.t.sub cur.t).divs eps
  let dq := ((pert.q.mul cur.q.conj).scaledAxis).divs eps
  ⟨dp, dq⟩

/-- `compute_jacobian`: the six columns -/
def computeJacobian (fwd : J6 R → Iso R) (q : J6 R) (eps : R) : List (Col R) :=
  [jacobianColumn fwd q eps 0, jacobianColumn fwd q eps 1, jacobianColumn fwd q eps 2,
   jacobianColumn fwd q eps 3, jacobianColumn fwd q eps 4, jacobianColumn fwd q eps 5]

/-- `self.matrix.transpose() * F`: torque of joint `i` is column `i` dotted with the wrench -/
def torquesFromVector (jac : List (Col R)) (f : Col R) : List R :=
  jac.map (fun c => V3.dot c.lin f.lin + V3.dot c.ang f.ang)

/-- 6-vector extraction used by `velocities` and `torques`: translation, scaled axis of the rotation -/
def wrenchOfIso (i : Iso R) : Col R := ⟨i.t, i.q.scaledAxis⟩

/-- `J * x` for a joint-space vector `x` -/
def jacMulVec (jac : List (Col R)) (x : List R) : Col R :=
  (jac.zip x).foldl (fun acc (c, xi) => ⟨acc.lin.add (c.lin.scale xi), acc.ang.add (c.ang.scale xi)⟩) ⟨V3.zero, V3.zero⟩

end Opw
