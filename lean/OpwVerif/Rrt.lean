/-
  Model of `path_plan/rrt_to.rs` (`dual_rrt_connect`) with the collision predicate, the sample
  stream, the nearest-neighbour search and the cancellation flag as parameters.  No Mathlib import.
-/
import OpwVerif.Kin
namespace Opw
variable {R : Type} [OpwNum R]

abbrev Cfg (R : Type) := List R

/-- `kdtree::distance::squared_euclidean` -/
def sqDist (a b : Cfg R) : R := (a.zip b).foldl (fun acc (x, y) => acc + (x - y) * (x - y)) 0

def cfgDist (a b : Cfg R) : R := nsqrt (sqDist a b)

structure RNode (R : Type) where
  parent : Option Nat
  data : Cfg R

/-- one of the two trees; `isStart` is the `name == "start"` tag -/
structure RTree (R : Type) where
  vertices : List (RNode R)
  isStart : Bool

inductive ExtendStatus where
  | reached (i : Nat)
  | advanced (i : Nat)
  | trapped
deriving Repr

/-- nearest-neighbour search: linear scan, first minimum (the k-d tree of the code returns a
nearest vertex; ties are the only place where the two can differ) -/
def nearestIdx (t : RTree R) (q : Cfg R) : Nat :=
  let rec go : List (RNode R) → Nat → Nat → Option R → Nat
    | [], _, best, _ => best
    | v :: vs, i, best, bd =>
      let d := sqDist q v.data
      match bd with
      | none => go vs (i + 1) i (some d)
      | some b => if d < b then go vs (i + 1) i (some d) else go vs (i + 1) best bd
  go t.vertices 0 0 none

def RTree.get (t : RTree R) (i : Nat) : Cfg R := (t.vertices.getD i ⟨none, []⟩).data

/-- `Tree::extend` with an arbitrary nearest-neighbour function -/
def extendWith (nearest : RTree R → Cfg R → Nat) (t : RTree R) (target : Cfg R) (ext : R) (isFree : Cfg R → Bool) :
    RTree R × ExtendStatus :=
  let ni := nearest t target
  let nq := t.get ni
  let dd := cfgDist target nq
  let qnew : Cfg R := if dd < ext then target
    else (nq.zip target).map (fun (near, tg) => near + (tg - near) * ext / dd)
  if isFree qnew then
    let idx := t.vertices.length
    let t' : RTree R := { t with vertices := t.vertices ++ [⟨some ni, qnew⟩] }
    if cfgDist qnew target < ext then (t', .reached idx) else (t', .advanced idx)
  else (t, .trapped)

/-- `Tree::connect`: extend until reached or trapped (fuel bounds the loop) -/
def connectWith (nearest : RTree R → Cfg R → Nat) : Nat → RTree R → Cfg R → R → (Cfg R → Bool) → RTree R × ExtendStatus
  | 0, t, _, _, _ => (t, .trapped)
  | fuel + 1, t, target, ext, isFree =>
    match extendWith nearest t target ext isFree with
    | (t', .advanced _) => connectWith nearest fuel t' target ext isFree
    | r => r

/-- `get_until_root`: data of the ancestors of `index` (the vertex itself is not included) -/
def untilRoot (t : RTree R) : Nat → Nat → List (Cfg R)
  | 0, _ => []
  | fuel + 1, i =>
    match (t.vertices.getD i ⟨none, []⟩).parent with
    | some p => t.get p :: untilRoot t fuel p
    | none => []

inductive RrtResult (R : Type) where
  | path (p : List (Cfg R))
  | cancelled
  | failed

def connectFuel : Nat := 1000000

/-- `dual_rrt_connect`; `samples` is the stream `random_sample()` yields, `stop i` the value of the
cancellation flag read at the start of iteration `i` -/
def dualRrtWith (nearest : RTree R → Cfg R → Nat) (isFree : Cfg R → Bool) (ext : R) (stop : Nat → Bool) :
    Nat → Nat → List (Cfg R) → RTree R → RTree R → RrtResult R
  | 0, _, _, _, _ => .failed
  | n + 1, i, samples, ta, tb =>
    if stop i then .cancelled
    else
      match samples with
      | [] => .failed   -- the stream is exhausted (the caller supplies at least `max_try` samples)
      | q :: rest =>
        match extendWith nearest ta q ext isFree with
        | (ta', .trapped) => dualRrtWith nearest isFree ext stop n (i + 1) rest tb ta'
        | (ta', .advanced ni) | (ta', .reached ni) =>
          let qn := ta'.get ni
          match connectWith nearest connectFuel tb qn ext isFree with
          | (tb', .reached ri) =>
            let a := (untilRoot ta' ta'.vertices.length ni).reverse
            let b := untilRoot tb' tb'.vertices.length ri
            let all := a ++ b
            .path (if tb'.isStart then all.reverse else all)
          | (tb', _) => dualRrtWith nearest isFree ext stop n (i + 1) rest tb' ta'

def dualRrtConnect (start goal : Cfg R) (isFree : Cfg R → Bool) (samples : List (Cfg R)) (ext : R) (maxTry : Nat)
    (stop : Nat → Bool) : RrtResult R :=
  dualRrtWith nearestIdx isFree ext stop maxTry 0 samples ⟨[⟨none, start⟩], true⟩ ⟨[⟨none, goal⟩], false⟩

end Opw
