/-
  Number class shared by the executable (`Float`) and the proof (`ℝ`) readings of the model.
  No Mathlib import here: this file is linked into the `driver` executable.
-/
namespace Opw

/-- The operations the repository's `f64` code uses.  One program text is written against this
class; `Float` runs it (IEEE binary64, same libm as the Rust code), `ℝ` proves about it. -/
class OpwNum (R : Type) extends Add R, Sub R, Mul R, Div R, Neg R, LT R, LE R where
  ofNat : Nat → R
  /-- `m * 2^e`, used for constants regenerated from the source as exact dyadic numbers -/
  ofDyadic : Int → Int → R
  pi : R
  sin : R → R
  cos : R → R
  acos : R → R
  sqrt : R → R
  abs : R → R
  atan2 : R → R → R
  /-- Rust `%` on `f64` (C `fmod`) -/
  fmod : R → R → R
  /-- Rust `f64::signum` -/
  signum : R → R
  isFinite : R → Bool
  isNaN : R → Bool
  /-- Rust `==` on `f64` -/
  beq : R → R → Bool
  /-- `x.ceil() as usize` (saturating, NaN ↦ 0) -/
  ceilNat : R → Nat
  decLt : DecidableRel (α := R) (· < ·)
  decLe : DecidableRel (α := R) (· ≤ ·)

attribute [instance_reducible, instance] OpwNum.decLt OpwNum.decLe

instance (priority := low) instOfNatOpw {R} [OpwNum R] {n : Nat} : OfNat R n := ⟨OpwNum.ofNat n⟩

section
variable {R : Type} [OpwNum R]

@[inline] def pi : R := OpwNum.pi
@[inline] def twoPi : R := 2 * (OpwNum.pi : R)
@[inline] def nabs (x : R) : R := OpwNum.abs x
@[inline] def nsin (x : R) : R := OpwNum.sin x
@[inline] def ncos (x : R) : R := OpwNum.cos x
@[inline] def nsqrt (x : R) : R := OpwNum.sqrt x
@[inline] def nacos (x : R) : R := OpwNum.acos x
@[inline] def natan2 (y x : R) : R := OpwNum.atan2 y x
@[inline] def nfmod (x y : R) : R := OpwNum.fmod x y
@[inline] def fin (x : R) : Bool := OpwNum.isFinite x
@[inline] def isNaN (x : R) : Bool := OpwNum.isNaN x
@[inline] def feq (x y : R) : Bool := OpwNum.beq x y

/-- Rust `f64::rem_euclid` -/
def remEuclid (x rhs : R) : R :=
  let r := nfmod x rhs
  if r < 0 then r + nabs rhs else r

/-- Rust `f64::to_radians`: `x * (PI / 180.0)` -/
def toRadians (x : R) : R := x * ((OpwNum.pi : R) / 180)
/-- Rust `f64::to_degrees`: `x * (180.0 / PI)` -/
def toDegrees (x : R) : R := x * (180 / (OpwNum.pi : R))

def nmax (a b : R) : R := if a < b then b else a
def nmin (a b : R) : R := if b < a then b else a
end

/-! ### The `Float` instance -/

namespace F

/-- Decompose a finite positive double into `(m, e)` with value `m * 2^e`, `m : Nat`. -/
def decode (x : Float) : Nat × Int :=
  let b := x.toBits.toNat
  let ef : Nat := (b / 2^52) % 2048
  let mf : Nat := b % 2^52
  if ef == 0 then (mf, -1074) else (mf + 2^52, (Int.ofNat ef) - 1075)

/-- `m * 2^e` as a double; exact when `m < 2^53` and the result is representable. -/
def encode (m : Nat) (e : Int) : Float := (Float.ofNat m).scaleB e

/-- C `fmod`, exact. -/
def fmod (x y : Float) : Float :=
  if x.isNaN || y.isNaN || x.isInf || y == 0.0 then Float.ofBits 0x7FF8000000000000
  else if y.isInf then x
  else
    let ax := x.abs
    let ay := y.abs
    if ax < ay then x
    else
      let (mx, ex) := decode ax
      let (my, ey) := decode ay
      -- ax ≥ ay > 0
      let r : Float :=
        if ex ≥ ey then
          let k := (ex - ey).toNat
          let rm := (mx * 2^k) % my
          encode rm ey
        else
          let k := (ey - ex).toNat
          let rm := mx % (my * 2^k)
          encode rm ex
      -- sign of the dividend (also for a zero result)
      if x.toBits >= 0x8000000000000000 then -r else r

def signum (x : Float) : Float :=
  if x.isNaN then x else if x.toBits >= 0x8000000000000000 then -1.0 else 1.0

/-- `x.ceil() as usize` -/
def ceilNat (x : Float) : Nat :=
  let c := x.ceil
  if c.isNaN then 0 else if c ≤ 0.0 then 0
  else if c ≥ 18446744073709551615.0 then 18446744073709551615 else c.toUInt64.toNat

def ofDyadic (m : Int) (e : Int) : Float :=
  if m ≥ 0 then encode m.toNat e else -(encode (-m).toNat e)

end F

instance : OpwNum Float where
  ofNat n := Float.ofNat n
  ofDyadic := F.ofDyadic
  pi := Float.ofBits 0x400921FB54442D18
  sin := Float.sin
  cos := Float.cos
  acos := Float.acos
  sqrt := Float.sqrt
  abs := Float.abs
  atan2 := Float.atan2
  fmod := F.fmod
  signum := F.signum
  isFinite := Float.isFinite
  isNaN := Float.isNaN
  beq a b := a == b
  ceilNat := F.ceilNat
  decLt := fun a b => inferInstanceAs (Decidable (a < b))
  decLe := fun a b => inferInstanceAs (Decidable (a ≤ b))

end Opw
