/-
  Model of the `nalgebra` 0.33 routines the repository calls (vectors, 3×3 matrices, unit
  quaternions, isometries).  Operation order follows the library source so that the `Float`
  reading predicts the Rust results; the `ℝ` lemmas in `Lemmas/Geom*.lean` say these are the
  usual objects.  No Mathlib import here.
-/
import OpwVerif.Num
namespace Opw

structure V3 (R : Type) where
  x : R
  y : R
  z : R
deriving Inhabited

structure M3 (R : Type) where
  m00 : R
  m01 : R
  m02 : R
  m10 : R
  m11 : R
  m12 : R
  m20 : R
  m21 : R
  m22 : R
deriving Inhabited

/-- `Quaternion::new(w, i, j, k)` -/
structure Quat (R : Type) where
  w : R
  i : R
  j : R
  k : R
deriving Inhabited

/-- `Isometry3`: translation and (unit) quaternion -/
structure Iso (R : Type) where
  t : V3 R
  q : Quat R
deriving Inhabited

variable {R : Type} [OpwNum R]

namespace V3
def zero : V3 R := ⟨0, 0, 0⟩
def ez : V3 R := ⟨0, 0, 1⟩
def add (a b : V3 R) : V3 R := ⟨a.x + b.x, a.y + b.y, a.z + b.z⟩
def sub (a b : V3 R) : V3 R := ⟨a.x - b.x, a.y - b.y, a.z - b.z⟩
def neg (a : V3 R) : V3 R := ⟨-a.x, -a.y, -a.z⟩
/-- `v * s` -/
def scale (a : V3 R) (s : R) : V3 R := ⟨a.x * s, a.y * s, a.z * s⟩
/-- `v / s` -/
def divs (a : V3 R) (s : R) : V3 R := ⟨a.x / s, a.y / s, a.z / s⟩
def dot (a b : V3 R) : R := (a.x * b.x + a.y * b.y) + a.z * b.z
def normSq (a : V3 R) : R := dot a a
def norm (a : V3 R) : R := nsqrt (normSq a)
def cross (a b : V3 R) : V3 R :=
  ⟨a.y * b.z - a.z * b.y, a.z * b.x - a.x * b.z, a.x * b.y - a.y * b.x⟩
def normalize (a : V3 R) : V3 R := divs a (norm a)
/-- nalgebra `lerp`: `self * (1 - t) + rhs * t`, computed by `axpy(t, rhs, 1 - t)` -/
def lerp (a b : V3 R) (t : R) : V3 R :=
  ⟨t * b.x + (1 - t) * a.x, t * b.y + (1 - t) * a.y, t * b.z + (1 - t) * a.z⟩
def allFinite (a : V3 R) : Bool := fin a.x && fin a.y && fin a.z
end V3

namespace M3
def one : M3 R := ⟨1, 0, 0, 0, 1, 0, 0, 0, 1⟩
def mul (a b : M3 R) : M3 R :=
  ⟨a.m00 * b.m00 + a.m01 * b.m10 + a.m02 * b.m20,
   a.m00 * b.m01 + a.m01 * b.m11 + a.m02 * b.m21,
   a.m00 * b.m02 + a.m01 * b.m12 + a.m02 * b.m22,
   a.m10 * b.m00 + a.m11 * b.m10 + a.m12 * b.m20,
   a.m10 * b.m01 + a.m11 * b.m11 + a.m12 * b.m21,
   a.m10 * b.m02 + a.m11 * b.m12 + a.m12 * b.m22,
   a.m20 * b.m00 + a.m21 * b.m10 + a.m22 * b.m20,
   a.m20 * b.m01 + a.m21 * b.m11 + a.m22 * b.m21,
   a.m20 * b.m02 + a.m21 * b.m12 + a.m22 * b.m22⟩
def mulVec (a : M3 R) (v : V3 R) : V3 R :=
  ⟨a.m00 * v.x + a.m01 * v.y + a.m02 * v.z,
   a.m10 * v.x + a.m11 * v.y + a.m12 * v.z,
   a.m20 * v.x + a.m21 * v.y + a.m22 * v.z⟩
def transpose (a : M3 R) : M3 R :=
  ⟨a.m00, a.m10, a.m20, a.m01, a.m11, a.m21, a.m02, a.m12, a.m22⟩
def ofColumns (c0 c1 c2 : V3 R) : M3 R :=
  ⟨c0.x, c1.x, c2.x, c0.y, c1.y, c2.y, c0.z, c1.z, c2.z⟩
def col2 (a : M3 R) : V3 R := ⟨a.m02, a.m12, a.m22⟩
def col0 (a : M3 R) : V3 R := ⟨a.m00, a.m10, a.m20⟩
def col1 (a : M3 R) : V3 R := ⟨a.m01, a.m11, a.m21⟩
def trace (a : M3 R) : R := a.m00 + a.m11 + a.m22
/-- rotation about z with given sine and cosine -/
def rz (s c : R) : M3 R := ⟨c, -s, 0, s, c, 0, 0, 0, 1⟩
/-- rotation about y with given sine and cosine -/
def ry (s c : R) : M3 R := ⟨c, 0, s, 0, 1, 0, -s, 0, c⟩
end M3

namespace Quat
def one : Quat R := ⟨1, 0, 0, 0⟩
def imag (q : Quat R) : V3 R := ⟨q.i, q.j, q.k⟩
def mul (a b : Quat R) : Quat R :=
  ⟨a.w * b.w - a.i * b.i - a.j * b.j - a.k * b.k,
   a.w * b.i + a.i * b.w + a.j * b.k - a.k * b.j,
   a.w * b.j - a.i * b.k + a.j * b.w + a.k * b.i,
   a.w * b.k + a.i * b.j - a.j * b.i + a.k * b.w⟩
def conj (q : Quat R) : Quat R := ⟨q.w, -q.i, -q.j, -q.k⟩
def neg (q : Quat R) : Quat R := ⟨-q.w, -q.i, -q.j, -q.k⟩
/-- 4-vector dot product in nalgebra's summation order (coordinates stored `[i, j, k, w]`) -/
def dot (a b : Quat R) : R := (a.i * b.i + a.k * b.k) + (a.j * b.j + a.w * b.w)
def normSq (q : Quat R) : R := q.w * q.w + q.i * q.i + q.j * q.j + q.k * q.k
/-- `UnitQuaternion * Vector3` -/
def rotate (q : Quat R) (v : V3 R) : V3 R :=
  let u := q.imag
  let t := (V3.cross u v).scale 2
  let c := V3.cross u t
  ((t.scale q.w).add c).add v
/-- `to_rotation_matrix` -/
def toMat (q : Quat R) : M3 R :=
  let ww := q.w * q.w
  let ii := q.i * q.i
  let jj := q.j * q.j
  let kk := q.k * q.k
  let ij := q.i * q.j * 2
  let wk := q.w * q.k * 2
  let wj := q.w * q.j * 2
  let ik := q.i * q.k * 2
  let jk := q.j * q.k * 2
  let wi := q.w * q.i * 2
  ⟨ww + ii - jj - kk, ij - wk, wj + ik,
   wk + ij, ww - ii + jj - kk, jk - wi,
   ik - wj, wi + jk, ww - ii - jj + kk⟩
/-- `UnitQuaternion::from_rotation_matrix` (four-branch trace method) -/
def ofMat (m : M3 R) : Quat R :=
  let tr := m.m00 + m.m11 + m.m22
  if tr > 0 then
    let d := nsqrt (tr + 1) * 2
    ⟨d / 4, (m.m21 - m.m12) / d, (m.m02 - m.m20) / d, (m.m10 - m.m01) / d⟩
  else if m.m00 > m.m11 ∧ m.m00 > m.m22 then
    let d := nsqrt (1 + m.m00 - m.m11 - m.m22) * 2
    ⟨(m.m21 - m.m12) / d, d / 4, (m.m01 + m.m10) / d, (m.m02 + m.m20) / d⟩
  else if m.m11 > m.m22 then
    let d := nsqrt (1 + m.m11 - m.m00 - m.m22) * 2
    ⟨(m.m02 - m.m20) / d, (m.m01 + m.m10) / d, d / 4, (m.m12 + m.m21) / d⟩
  else
    let d := nsqrt (1 + m.m22 - m.m00 - m.m11) * 2
    ⟨(m.m10 - m.m01) / d, (m.m02 + m.m20) / d, (m.m12 + m.m21) / d, d / 4⟩
/-- `UnitQuaternion::angle` -/
def angle (q : Quat R) : R := natan2 (q.imag.norm) (nabs q.w) * 2
/-- `self.rotation_to(other) = other / self` -/
def rotationTo (a b : Quat R) : Quat R := mul b (conj a)
/-- `self.angle_to(other)` -/
def angleTo (a b : Quat R) : R := angle (rotationTo a b)
/-- `from_axis_angle` for a unit axis -/
def ofAxisAngle (axis : V3 R) (θ : R) : Quat R :=
  let h := θ / 2
  let s := nsin h
  let c := ncos h
  ⟨c, axis.x * s, axis.y * s, axis.z * s⟩
def rotZ (θ : R) : Quat R := ofAxisAngle ⟨0, 0, 1⟩ θ
def rotY (θ : R) : Quat R := ofAxisAngle ⟨0, 1, 0⟩ θ
/-- `UnitQuaternion::slerp` (the `try_slerp(...).expect` panic branch cannot be taken for finite
unit inputs; for non-finite inputs the result is non-finite, which is all the callers observe). -/
def slerp (a b : Quat R) (t : R) : Quat R :=
  let d0 := dot a b
  let b' := if d0 < 0 then neg b else b
  let c := dot a b'
  if c ≥ 1 then a
  else
    let h := nacos c
    let s := nsqrt (1 - c * c)
    let ta := nsin ((1 - t) * h) / s
    let tb := nsin (t * h) / s
    ⟨a.w * ta + b'.w * tb, a.i * ta + b'.i * tb, a.j * ta + b'.j * tb, a.k * ta + b'.k * tb⟩
/-- `UnitQuaternion::scaled_axis` -/
def scaledAxis (q : Quat R) : V3 R :=
  let v : V3 R := if q.w ≥ 0 then q.imag else q.imag.neg
  let sq := v.normSq
  if sq > 0 then (v.divs (nsqrt sq)).scale (angle q) else V3.zero
def allFinite (q : Quat R) : Bool := fin q.w && fin q.i && fin q.j && fin q.k
end Quat

namespace Iso
def one : Iso R := ⟨V3.zero, Quat.one⟩
def mul (a b : Iso R) : Iso R := ⟨a.t.add (a.q.rotate b.t), a.q.mul b.q⟩
def inv (a : Iso R) : Iso R :=
  let q' := a.q.conj
  ⟨q'.rotate a.t.neg, q'⟩
def transformPoint (a : Iso R) (p : V3 R) : V3 R := (a.q.rotate p).add a.t
def ofTranslation (v : V3 R) : Iso R := ⟨v, Quat.one⟩
def allFinite (a : Iso R) : Bool := a.t.allFinite && a.q.allFinite
end Iso

end Opw
