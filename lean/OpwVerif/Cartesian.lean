/-
  Model of `path_plan/cartesian.rs`: densification of the stroke, adaptive linear transitions,
  strategy probing with the final collision check, and `plan` with the parallel `find_map_any`
  as an arbitrary choice.  The RRT planner, the collision verdict and the inverse kinematics of the
  robot are parameters.  No Mathlib import.
-/
import OpwVerif.Wrappers
namespace Opw
variable {R : Type} [OpwNum R]

/-- `PathFlags` bits used by the planner -/
def flagOnboarding : Nat := 2
def flagTrace : Nat := 4
def flagLinInterp : Nat := 8
def flagLand : Nat := 16
def flagPark : Nat := 64

def hasFlag (flags bit : Nat) : Bool := (flags / bit) % 2 == 1
def setFlag (flags bit : Nat) : Nat := if hasFlag flags bit then flags else flags + bit
def clearFlag (flags bit : Nat) : Nat := if hasFlag flags bit then flags - bit else flags

/-- `AnnotatedPose` -/
structure APose (R : Type) where
  pose : Iso R
  flags : Nat

/-- `AnnotatedJoints` -/
structure AJoints (R : Type) where
  joints : J6 R
  flags : Nat

/-- `AnnotatedPose::interpolate` -/
def APose.interpolate (a b : APose R) (p : R) : APose R :=
  ⟨⟨a.pose.t.lerp b.pose.t p, a.pose.q.slerp b.pose.q p⟩, flagLinInterp⟩

/-- `add_intermediate_poses`: the poses strictly between `start` and `end` -/
def intermediatePoses (start end_ : Iso R) (stepM stepRad : R) (ofNat : Nat → R) : List (APose R) :=
  let diff := end_.t.sub start.t
  let dist := diff.norm
  let rdiff := end_.q.mul start.q.conj
  let ang := rdiff.angle
  let ts := OpwNum.ceilNat (dist / stepM)
  let rs := OpwNum.ceilNat (ang / stepRad)
  let steps := max (max ts rs) 1
  let tstep := diff.divs (ofNat steps)
  (List.range (steps - 1)).map (fun k =>
    let i := k + 1
    let fraction := ofNat i / ofNat steps
    ⟨⟨start.t.add (tstep.scale (ofNat i)), start.q.slerp end_.q fraction⟩, flagLinInterp⟩)

/-- `with_intermediate_poses`: land, densified stroke, park -/
def withIntermediatePoses (land : Iso R) (steps : List (Iso R)) (park : Iso R) (stepM stepRad : R) (ofNat : Nat → R) : List (APose R) :=
  let ip := fun (a b : Iso R) => intermediatePoses a b stepM stepRad ofNat
  let rec stroke : Iso R → List (Iso R) → List (APose R)
    | prev, [] => ip prev park
    | prev, s :: rest => ip prev s ++ [⟨s, flagTrace⟩] ++ stroke s rest
  [⟨land, flagLand⟩] ++ stroke land steps ++ [⟨park, flagPark⟩]

/-- parameters of the planner that matter for the Cartesian part -/
structure CartCfg (R : Type) where
  maxTransitionCost : R
  coefficients : J6 R
  recursionDepth : Nat
  includeLinearInterpolation : Bool

/-- `step_adaptive_linear_transition`; `ik pose prev` is the inner `inverse_continuing` (no collision
filtering). `none` = the transition failed at the recursion limit. -/
def stepAdaptive (cfg : CartCfg R) (ik : Iso R → J6 R → List (J6 R)) (half : R) :
    Nat → Nat → J6 R → APose R → APose R → Option (List (J6 R))
  | 0, _, _, _, _ => none
  | fuel + 1, depth, starting, from_, to =>
    let sols := ik to.pose starting
    match sols.find? (fun next => decide (transitionCosts starting next cfg.coefficients ≤ cfg.maxTransitionCost)) with
    | some next => some [next]
    | none =>
      if depth < cfg.recursionDepth then
        let mid := from_.interpolate to half
        match stepAdaptive cfg ik half fuel (depth + 1) starting from_ mid with
        | none => none
        | some first =>
          match first.getLast? with
          | none => none
          | some midStep =>
            match stepAdaptive cfg ik half fuel (depth + 1) midStep mid to with
            | none => none
            | some second => some (first ++ second)
      else none

/-- flags of the waypoints produced for one transition towards `to` -/
def extensionFlags (toFlags : Nat) (n : Nat) : List Nat :=
  (List.range n).map (fun p =>
    if p + 1 < n then clearFlag (clearFlag (setFlag toFlags flagLinInterp) flagTrace) flagPark else toFlags)

/-- the Cartesian part of `probe_strategy`: from the strategy point along the densified poses.
`closeWithRrt prev pose flags` models the fallback (inverse kinematics of the pose + RRT to one of its
solutions); `none` = the strategy fails. -/
def cartesianTrace (cfg : CartCfg R) (ik : Iso R → J6 R → List (J6 R)) (half : R)
    (closeWithRrt : J6 R → APose R → Option (List (AJoints R))) :
    List (APose R) → List (AJoints R) → Option (List (AJoints R))
  | from_ :: to :: rest, trace =>
    match trace.getLast? with
    | none => none
    | some prev =>
      match stepAdaptive cfg ik half (cfg.recursionDepth + 2) 0 prev.joints from_ to with
      | some ext =>
        let fl := extensionFlags to.flags ext.length
        cartesianTrace cfg ik half closeWithRrt (to :: rest) (trace ++ (ext.zip fl).map (fun (j, f) => ⟨j, f⟩))
      | none =>
        match closeWithRrt prev.joints to with
        | some path => cartesianTrace cfg ik half closeWithRrt (to :: rest) (trace ++ path)
        | none => none
  | _, trace => some trace

/-- `probe_strategy`: onboarding by RRT, Cartesian part, stop flag, final collision check, optional
removal of interpolated waypoints -/
def probeStrategy (cfg : CartCfg R) (ik : Iso R → J6 R → List (J6 R)) (half : R)
    (rrt : J6 R → J6 R → Option (List (J6 R))) (closeWithRrt : J6 R → APose R → Option (List (AJoints R)))
    (collides : J6 R → Bool) (stopped : Bool)
    (from_ strategy : J6 R) (poses : List (APose R)) : Option (List (AJoints R)) :=
  match rrt from_ strategy with
  | none => none
  | some onboarding =>
    let onb : List (AJoints R) := (onboarding.take (onboarding.length - 1)).map (fun j => ⟨j, flagOnboarding⟩)
    match cartesianTrace cfg ik half closeWithRrt poses (onb ++ [⟨strategy, flagLand⟩]) with
    | none => none
    | some trace =>
      if stopped then none
      else if trace.any (fun s => collides s.joints) then none
      else if !cfg.includeLinearInterpolation then some (trace.filter (fun s => !(hasFlag s.flags flagLinInterp)))
      else some trace

/-- `plan`: `outcome s` is what `probe_strategy` yields for strategy `s` on its own; `choice` says which
of the successful strategies the parallel `find_map_any` reports -/
def planWith (collidesFrom : Bool) (strategies : List (J6 R)) (outcome : J6 R → Option (List (AJoints R)))
    (choice : Nat) : Option (List (AJoints R)) :=
  if collidesFrom then none
  else
    let oks := strategies.filterMap outcome
    match oks with
    | [] => none
    | _ :: _ => oks[choice % oks.length]?

end Opw
