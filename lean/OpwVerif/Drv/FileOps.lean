/-
  Driver handlers for the loaders: C19 (YAML).
-/
import OpwVerif.Drv.PlanOps
import OpwVerif.Yaml
import OpwVerif.Urdf
import OpwVerif.Generated.Presets
namespace Opw.Drv
open Opw Opw.Proto

/-- hex-encoded UTF-8 text token `x6162…` -/
def rText : RM String := do
  let t ← next
  if !t.startsWith "x" then throw s!"bad text token {t}"
  let hex := (t.drop 1).toString.toList
  let rec go : List Char → List UInt8 → Option (List UInt8)
    | a :: b :: rest, acc => match hexVal a, hexVal b with
      | some x, some y => go rest (UInt8.ofNat (x * 16 + y) :: acc)
      | _, _ => none
    | [], acc => some acc.reverse
    | _, _ => none
  match go hex [] with
  | some bytes => pure (String.fromUTF8! (ByteArray.mk bytes.toArray))
  | none => throw s!"bad text token {t}"

def rOptF : RM (Option Float) := do
  let n ← rN
  if n == 1 then pure (some (← rF)) else pure none

partial def rYaml : RM (Yaml Float) := do
  let tag ← next
  if tag == "I" then pure (.int (← rI))
  else if tag == "R" then
    let t ← rText; let a ← rOptF; let b ← rOptF
    pure (.real t a b)
  else if tag == "S" then
    let t ← rText; let w ← rOptF
    let hasDeg ← rN
    let inner : Option (Option Float) ← (if hasDeg == 1 then (do pure (some (← rOptF))) else pure none)
    pure (.str t w inner)
  else if tag == "A" then
    let n ← rN
    let mut acc : Array (Yaml Float) := #[]
    for _ in [0:n] do acc := acc.push (← rYaml)
    pure (.arr acc.toList)
  else if tag == "H" then
    let n ← rN
    let mut acc : Array (Yaml Float × Yaml Float) := #[]
    for _ in [0:n] do
      let k ← rYaml; let v ← rYaml
      acc := acc.push (k, v)
    pure (.hash acc.toList)
  else if tag == "O" then pure .other
  else throw s!"bad yaml tag {tag}"

structure YP where
  geo : List Float
  off : List Float
  sg : List Int
  dof : Int

def rYP : RM YP := do
  let mut g : Array Float := #[]
  for _ in [0:7] do g := g.push (← rF)
  let o ← rJ6
  let mut s : Array Int := #[]
  for _ in [0:6] do s := s.push (← rI)
  let d ← rI
  pure ⟨g.toList, o.toList, s.toList, d⟩

def ypOfModel (m : YParams Float) : YP := ⟨[m.a1, m.a2, m.b, m.c1, m.c2, m.c3, m.c4], m.offsets, m.signs, m.dof⟩

def ypClose (tol : Float) (a b : YP) : Bool :=
  closeList (close tol) a.geo b.geo && closeList (close tol) a.off b.off && a.sg == b.sg && a.dof == b.dof

/-- `yaml #loaded #ndocs docs… (#1 expected | #0) => ok … | err kind … | panic` -/
def opYaml : RM Res := do
  let loaded ← rN      -- 1 lexed, 0 lexer error, 2 not UTF-8 (IO error in the reader)
  let nd ← rN
  let mut docs : Array (Yaml Float) := #[]
  for _ in [0:nd] do docs := docs.push (← rYaml)
  let hasExp ← rN
  let exp : Option YP ← (if hasExp == 1 then (do pure (some (← rYP))) else pure none)
  expect "=>"
  let tag ← next
  let model := fromYamlDocs Float.ofInt (loaded == 1) docs.toList
  if tag == "panic" then
    pure { corr := "MISMATCH", detail := "from_yaml_file panicked", preds := [P "C19.nopanic" (false, "the reader panicked")] }
  else if tag == "err" then
    let kind ← next
    let ok ← (match kind with
      | "parse" => pure (loaded != 2 && (match model with | .error .parse => true | _ => false))
      | "missing" => do
        let f ← rText
        pure (match model with | .error (.missing g) => f == g | _ => false)
      | "len" => do
        let n ← rN
        pure (match model with | .error (.invalidLength m) => n == m | _ => false)
      | "io" => pure (loaded == 2)
      | _ => pure false)
    let preds := [P "C19.nopanic" (true, "")] ++ (match exp with
      | some _ => [P "C19.parses" (false, s!"a file in the documented format / written by to_yaml was rejected with {kind}")]
      | none => if hasExp == 2 then [P "C19.rejects" (true, "")] else [])
    pure { corr := if ok then "OK" else "MISMATCH", detail := if ok then "" else s!"reader Err({kind}) but the model says otherwise",
           preds := preds, tags := [s!"err={kind}"] }
  else
    let got ← rYP
    let ok := match model with
      | .ok m => ypClose 0.0 got (ypOfModel m) || ypClose 1e-15 got (ypOfModel m)
      | .error _ => false
    let mut preds := [P "C19.nopanic" (true, "")]
    if hasExp == 2 then
      preds := preds ++ [P "C19.rejects" (false, s!"a file that is not in the documented format was accepted: lengths {got.geo} offsets {got.off}")]
    match exp with
    | some e =>
      -- geometry, signs, dof exactly; offsets to the printed precision (4 decimals of a degree)
      let offOk := closeList (fun (a b : Float) => (a - b).abs ≤ 0.00005 * piF / 180.0 + 1e-12) got.off e.off
      preds := preds ++ [P "C19.geometry" (closeList (fun (a b : Float) => a == b || (a - b).abs ≤ 1e-15 * (1.0 + b.abs)) got.geo e.geo, s!"lengths {got.geo} expected {e.geo}"),
                         P "C19.signs_dof" (got.sg == e.sg && got.dof == e.dof, s!"signs {got.sg} dof {got.dof} expected {e.sg} {e.dof}"),
                         P "C19.offsets" (offOk, s!"offsets {got.off} expected {e.off}")]
    | none => pure ()
    pure { corr := if ok then "OK" else "MISMATCH", detail := if ok then "" else s!"reader Ok({got.geo} {got.off} {got.sg} {got.dof}) differs from the model",
           preds := preds, tags := ["ok", "n=1"] }

end Opw.Drv

namespace Opw.Drv
open Opw Opw.Proto

def rAttr : RM (Attr Float) := do
  let n ← rText
  let v ← rText
  let toks ← rList rOptF
  let whole ← rOptF
  let hasRad ← rN
  let rad : Option (String × Option Float) ← (if hasRad == 1 then (do let t ← rText; let p ← rOptF; pure (some (t, p))) else pure none)
  pure ⟨n, v, toks, whole, rad⟩

partial def rXml : RM (Xml Float) := do
  expect "E"
  let name ← rText
  let na ← rN
  let mut attrs : Array (Attr Float) := #[]
  for _ in [0:na] do attrs := attrs.push (← rAttr)
  let nc ← rN
  let mut kids : Array (Xml Float) := #[]
  for _ in [0:nc] do kids := kids.push (← rXml)
  pure (.elem name attrs.toList kids.toList)

structure UP where
  geo : List Float
  sg : List Int
  fr : List Float
  tt : List Float
  dof : Int

def rUP : RM UP := do
  let mut g : Array Float := #[]
  for _ in [0:7] do g := g.push (← rF)
  let mut s : Array Int := #[]
  for _ in [0:6] do s := s.push (← rI)
  let f ← rJ6
  let t ← rJ6
  let d ← rI
  pure ⟨g.toList, s.toList, f.toList, t.toList, d⟩

def upOfModel (u : UParams Float) : UP := ⟨[u.a1, u.a2, u.b, u.c1, u.c2, u.c3, u.c4], u.signs, u.from_, u.to, u.dof⟩

def upClose (tol : Float) (a b : UP) : Bool :=
  closeList (close tol) a.geo b.geo && a.sg == b.sg && closeList (close tol) a.fr b.fr && closeList (close tol) a.tt b.tt && a.dof == b.dof

/-- `urdf (#1 root|#0) (#1 names×6|#0) (#1 expected|#0) => ok up compliantProbe | err kind | panic` -/
def opUrdf : RM Res := do
  let hasRoot ← rN
  let root : Option (Xml Float) ← (if hasRoot == 1 then (do pure (some (← rXml))) else pure none)
  let hasNames ← rN
  let names : Option (List String) ← (if hasNames == 1 then (do
      let mut a : Array String := #[]
      for _ in [0:6] do a := a.push (← rText)
      pure (some a.toList)) else pure none)
  let hasExp ← rN
  let exp : Option UP ← (if hasExp == 1 then (do pure (some (← rUP))) else pure none)
  expect "=>"
  let tag ← next
  let model := fromUrdf root names
  if tag == "panic" then
    pure { corr := "MISMATCH", detail := "from_urdf panicked", preds := [P "C20.nopanic" (false, "from_urdf panicked")] }
  else if tag == "err" then
    let kind ← next
    let ok := match model with
      | .error .xml => kind == "xml"
      | .error .populate => kind == "populate"
      | .ok _ => false
    let preds := [P "C20.nopanic" (true, "")] ++ (match exp with
      | some _ => [P "C20.extracts" (false, s!"a description generated from OPW parameters in a supported layout was rejected ({kind})")]
      | none => if hasExp == 2 then [P "C20.rejects" (true, "")] else [])
    pure { corr := if ok then "OK" else "MISMATCH", detail := if ok then "" else s!"from_urdf Err({kind}), model differs", preds := preds, tags := [s!"err={kind}"] }
  else
    let got ← rUP
    let probe ← rB
    let ok := match model with
      | .ok m => upClose 0.0 got (upOfModel m)
      | .error _ => false
    let mut preds := [P "C20.nopanic" (true, ""), P "C20.unconstrained" (probe, "a joint without limits is not unconstrained in the resulting solver")]
    if hasExp == 2 then
      preds := preds ++ [P "C20.rejects" (false, s!"a description with a missing joint, a conflicting duplicate or malformed XML was accepted: {got.geo} limits {got.fr} {got.tt}")]
    match exp with
    | some e =>
      preds := preds ++ [P "C20.parameters" (closeList (fun (a b : Float) => a == b || (a - b).abs ≤ 1e-12 * (1.0 + b.abs)) got.geo e.geo, s!"parameters {got.geo} expected {e.geo}"),
                         P "C20.signs" (got.sg == e.sg && got.dof == e.dof, s!"signs {got.sg} dof {got.dof} expected {e.sg} {e.dof}"),
                         P "C20.limits" (closeList (close 1e-12) got.fr e.fr && closeList (close 1e-12) got.tt e.tt, s!"limits {got.fr} {got.tt} expected {e.fr} {e.tt}")]
    | none => pure ()
    pure { corr := if ok then "OK" else "MISMATCH", detail := if ok then "" else s!"from_urdf Ok({got.geo} {got.sg} {got.fr} {got.tt}) differs from the model {match model with | .ok m => toString (upOfModel m).geo | .error _ => "error"}",
           preds := preds, tags := ["ok", "n=1"] }

/-- `h_name text => text` -/
def opHName : RM Res := do
  let s ← rText
  expect "=>"
  let t ← next
  if t == "panic" then pure (panicRes "preprocess_joint_name")
  else
    let hex := t
    let r := (do
      let toks : Array String := #[hex]
      match (rText.run { toks := toks, pos := 0 }) with
      | .ok (v, _) => some v
      | .error _ => none : Option String)
    let m := preprocessJointName s
    pure (mkRes (r == some m) s!"preprocess_joint_name({s}): impl {r} model {m}" [])

end Opw.Drv

namespace Opw.Drv
open Opw Opw.Proto

/-- `preset name => K`: the hard-coded robot `name` as compiled into the library, against the table the translator
regenerated from parameters_robots.rs on this run (`Generated/Presets.lean`); exact comparison -/
def opPreset : RM Res := do
  let name ← rText
  expect "=>"
  let k ← rKin
  let p := k.core.p
  match (Presets.all : List (String × Params Float)).find? (fun np => np.1 == name) with
  | none => pure (mkRes false s!"preset {name} is not in the translated table" [])
  | some (_, m) =>
    let ok := bitEq p.a1 m.a1 && bitEq p.a2 m.a2 && bitEq p.b m.b && bitEq p.c1 m.c1 && bitEq p.c2 m.c2 && bitEq p.c3 m.c3 &&
      bitEq p.c4 m.c4 && bitEqJ p.offsets m.offsets && bitEqJ p.signs m.signs && p.dof == m.dof
    pure (mkRes ok s!"preset {name}: compiled constants differ from the table translated from the source" [])

end Opw.Drv
