/-
  Driver handlers: sampler (C18), frames (C17), Jacobian (C15).
-/
import OpwVerif.Drv.MiscOps
import OpwVerif.Misc
namespace Opw.Drv
open Opw Opw.Proto

/-- a predicate result (forces the condition to `Bool`) -/
def P (n : String) (x : Bool × String) : String × Bool × String := (n, x.1, x.2)

/-- `c18 from to => #n (sample compliant)… | panic` -/
def opC18 : RM Res := do
  let f ← rJ6
  let t ← rJ6
  let out ← rOut (rList (do let a ← rJ6; let c ← rB; pure (a, c)))
  let m : Constraints Float := Constraints.mk' f t 0.0
  let positive := (f.toList.zip t.toList).all (fun (a, b) => sampleSpan a b > 0.0)
  match out with
  | none =>
    pure { corr := if positive then "MISMATCH" else "OK", detail := "random_angles panicked",
           preds := [P "C18.nopanic" (!positive, s!"panic for limits from {showJ6 f} to {showJ6 t} describing arcs of positive width")] }
  | some rows =>
    -- refinement: every implementation sample is `randomAngle f t u` for an admissible draw u ∈ [0, span)
    let inImage := fun (ff tt a : Float) =>
      let span := sampleSpan ff tt
      if span > 0.0 then
        let u := a - ff
        u ≥ -1e-12 && u < span + 1e-12
      else a == ff
    let bad := rows.find? (fun (a, _) => !((a.toList.zip (f.toList.zip t.toList)).all (fun (x, (ff, tt)) => inImage ff tt x)))
    let badC := rows.find? (fun (a, c) => c != m.compliant a)
    let nonc := rows.find? (fun (_, c) => !c)
    let wraps := (f.toList.zip t.toList).filter (fun (a, b) => !(a < b)) |>.length
    pure { corr := if bad.isNone && badC.isNone then "OK" else "MISMATCH",
           detail := match bad, badC with
             | some (a, _), _ => s!"sample {showJ6 a} is not from + u with u in [0, span) for from {showJ6 f} to {showJ6 t}"
             | _, some (a, c) => s!"compliant({showJ6 a}) impl {c} model {m.compliant a}"
             | _, _ => "",
           preds := [P "C18.compliant" (nonc.isNone, match nonc with
             | some (a, _) => s!"sample {showJ6 a} rejected by its own constraints from {showJ6 f} to {showJ6 t}"
             | none => "")],
           tags := [s!"wrapping_joints={wraps}", s!"draws={rows.length}"] }

def rP3 : RM (V3 Float) := rV3

def errName : Nat → String
  | 0 => "NotIsometry" | 1 => "ColinearSource" | 2 => "ColinearTarget" | _ => "other"

def errCode : FrameErr → Nat
  | .notIsometry => 0 | .colinearSource => 1 | .colinearTarget => 2

/-- `frame p1 p2 p3 q1 q2 q3 (#1 g | #0) => ok iso | err #kind | panic` -/
def opFrame : RM Res := do
  let p1 ← rP3; let p2 ← rP3; let p3 ← rP3
  let q1 ← rP3; let q2 ← rP3; let q3 ← rP3
  let hasG ← rN
  let g : Option (Iso Float) ← (if hasG == 1 then (do pure (some (← rIso))) else pure none)
  expect "=>"
  let tag ← next
  let model := frameOf p1 p2 p3 q1 q2 q3
  let scale := max (max (p1.sub p2).norm (p1.sub p3).norm) (max 1e-3 (max p1.norm q1.norm))
  if tag == "panic" then pure (panicRes "Frame::frame")
  else if tag == "err" then
    let kind ← rN
    let ok := match model with
      | .error e => errCode e == kind
      | .ok _ => false
    -- oracle for the rejection clauses
    let dmax := max (max (((p1.sub p2).norm - (q1.sub q2).norm).abs) (((p1.sub p3).norm - (q1.sub q3).norm).abs)) (((p2.sub p3).norm - (q2.sub q3).norm).abs)
    -- the error names the triple that is collinear: a triple blamed as collinear has (nearly) no area
    let sineOf := fun (a b c : V3 Float) => let v1 := b.sub a; let v2 := c.sub a; (V3.cross v1 v2).norm / (max (v1.norm * v2.norm) 1e-300)
    let blamed := if kind == 1 then sineOf p1 p2 p3 ≤ 1e-6 else if kind == 2 then sineOf q1 q2 q3 ≤ 1e-6 else true
    let preds := (match g with
      | some _ => [P "C17.accepts_rigid" (false, s!"rigid images rejected with {errName kind}")]
      | none => if kind == 0 then [P "C17.reject_not_isometry" (dmax ≥ 0.005 * 0.99, s!"NotIsometry although distances differ by only {dmax}")] else []) ++
      [P "C17.reject_kind" (blamed, s!"rejected with {errName kind} although that triple is a proper triangle (sine source {sineOf p1 p2 p3}, target {sineOf q1 q2 q3})")]
    pure (mkRes ok s!"Frame::frame impl Err({errName kind}) model {match model with | .error e => errName (errCode e) | .ok _ => "Ok"}" preds [s!"err={errName kind}"])
  else
    let iso ← rIso
    let ok := match model with
      | .ok mi => closeIso (1e-9 * (1.0 + scale)) iso mi || (closeQuat 1e-9 iso.q mi.q && closeV3 (1e-9 * (1.0 + scale)) iso.t mi.t)
      | .error _ => false
    let dmax := max (max (((p1.sub p2).norm - (q1.sub q2).norm).abs) (((p1.sub p3).norm - (q1.sub q3).norm).abs)) (((p2.sub p3).norm - (q2.sub q3).norm).abs)
    let mut preds : List (String × Bool × String) := []
    preds := preds ++ [P "C17.proper" ((iso.q.normSq - 1.0).abs ≤ 1e-9, s!"rotation not unit: {iso.q.normSq}")]
    preds := preds ++ [P "C17.accept_only_congruent" (dmax ≤ 0.005 * 1.01, s!"accepted although distances differ by {dmax}")]
    match g with
    | some gi =>
      -- conditioning: the sine of the angle at p1 bounds how well the rotation is determined
      let v1 := p2.sub p1; let v2 := p3.sub p1
      let sine := (V3.cross v1 v2).norm / (v1.norm * v2.norm)
      let tolP := 1e-9 * (1.0 + scale) / (max sine 1e-12)
      let maps := fun (p q : V3 Float) => (iso.transformPoint p).sub q |>.norm
      let worst := max (maps p1 q1) (max (maps p2 q2) (maps p3 q3))
      preds := preds ++ [P "C17.maps_points" (worst ≤ tolP, s!"worst image error {worst} (tolerance {tolP}, sine {sine})")]
      -- the rotation is determined by edge DIRECTIONS: coordinates of magnitude M carry a rounding error of about
      -- eps*M, an edge of length L then has a direction error of eps*M/L (tiny triangles far from the origin)
      let coordMax := [p1, p2, p3, q1, q2, q3].foldl (fun m (v : V3 Float) => max m (max v.x.abs (max v.y.abs v.z.abs))) 1.0
      let edgeMin := min (min v1.norm v2.norm) (min ((q2.sub q1).norm) ((q3.sub q1).norm))
      let tolQ := (1e-9 + 16.0 * 2.220446049250313e-16 * coordMax / (max edgeMin 1e-300)) / (max sine 1e-12)
      preds := preds ++ [P "C17.equals_motion" (closeQuat tolQ iso.q gi.q, s!"frame {showIso iso} motion {showIso gi} (tolerance {tolQ})")]
    | none => pure ()
    pure (mkRes ok s!"Frame::frame impl {showIso iso} model {match model with | .ok mi => showIso mi | .error e => errName (errCode e)}" preds ["ok"])

/-- `frame_tr p q => iso` -/
def opFrameTr : RM Res := do
  let p ← rP3; let q ← rP3
  expect "=>"
  let iso ← rIso
  let m := frameTranslation p q
  pure (mkRes (closeIso 0.0 iso m) "Frame::translation differs" [P "C17.translation" (closeV3 1e-12 (iso.transformPoint p) q, "does not map p to q")])

/-- `fwd_tr K frame qs prev => sols pose` -/
def opFwdTr : RM Res := do
  let k ← rKin
  let fr ← rIso
  let qs ← rJ6
  let prev ← rJ6
  let out ← rOut (do let s ← rList rJ6; let p ← rIso; pure (s, p))
  match out with
  | none => pure (panicRes "forward_transformed")
  | some (sols, pose) =>
    let (ms, mp) := forwardTransformed k fr qs prev
    let ok := closeIso tolC pose mp && (solsCloseOrdered sols ms || solsCloseAsSets sols ms)
    let want := fr.mul (forwardC k qs)
    let bad := sols.find? (fun s => !(posErr pose (forwardC k s) ≤ dT + 1e-9) || !((angErr pose (forwardC k s)).abs ≤ aT + 1e-9))
    let preds := [P "C17.moved_pose" (closeIso tolC pose want, "returned pose is not frame * forward(qs)"),
                  ("C17.solutions_realise", bad.isNone, match bad with | some s => s!"{showJ6 s} does not realise the moved pose" | none => ""),
                  ("C17.sorted", pairwiseNondecreasing (sols.map (costOf k prev)), "not ordered by closeness to previous")]
    pure (mkRes ok s!"forward_transformed differs: {sols.length} vs {ms.length}" preds [s!"n={sols.length}"])

def rV6 : RM (List Float) := do
  let a ← rF; let b ← rF; let c ← rF; let d ← rF; let e ← rF; let f ← rF
  pure [a, b, c, d, e, f]

def rOptV6 : RM (Option (List Float)) := do
  let n ← rN
  if n == 1 then pure (some (← rV6)) else pure none

def colOfList : List Float → Col Float
  | [a, b, c, d, e, f] => ⟨⟨a, b, c⟩, ⟨d, e, f⟩⟩
  | _ => default

def closeL (tol : Float) (a b : List Float) : Bool := closeList (close tol) a b

/-- `jac K q eps cond => panic | 36 (rows) X6 iso (panic | vel? veliso? velfix? tor toriso)` -/
def opJac : RM Res := do
  let k ← rKin
  let q ← rJ6
  let eps ← rF
  let cond ← rF
  expect "=>"
  if (← peek?) == some "panic" then
    let _ ← next
    return panicRes "Jacobian::new / torques_from_vector"
  let mut rows : Array (List Float) := #[]
  for _ in [0:6] do rows := rows.push (← rV6)
  let x ← rV6
  let iso ← rIso
  if (← peek?) == some "panic" then
    let _ ← next
    return panicRes "a velocity / torque entry point of the Jacobian (wrench or twist in the case line)"
  let vel ← rOptV6
  let velIso ← rOptV6
  let velFix ← rOptV6
  let tor ← rV6
  let torIso ← rV6
  -- implementation matrix as columns
  let col := fun (j : Nat) => (rows.toList.map (fun r => r.getD j 0.0))
  let implCols : List (Col Float) := (List.range 6).map (fun j => colOfList (col j))
  let model := computeJacobian (k.forward) q eps
  let tolJ := 1e-6
  let closeCol := fun (a b : Col Float) => closeV3 tolJ a.lin b.lin && closeV3 tolJ a.ang b.ang
  let okJ := closeList closeCol implCols model
  -- geometric Jacobian from the independent link chain: sign_i (a_i × (p − o_i), a_i)
  let p := k.core.p
  let mut preds : List (String × Bool × String) := []
  if !hasPara k then
    let rec baseOf : Kin Float → Iso Float
      | .opw _ => Iso.one
      | .tool i _ => baseOf i
      | .base i b => (baseOf i |> fun inner => b.mul inner)
      | .frame i _ => baseOf i
      | .para i _ _ _ => baseOf i
      | .shape i _ => baseOf i
    -- outermost base first: accumulate properly
    let rec baseAcc : Kin Float → Iso Float
      | .opw _ => Iso.one
      | .tool i _ => baseAcc i
      | .base i b => b.mul (baseAcc i)
      | .frame i _ => baseAcc i
      | .para i _ _ _ => baseAcc i
      | .shape i _ => baseAcc i
    let _ := baseOf
    let bs := baseAcc k
    let ls := (chain p q).map (fun l => bs.mul l)
    let tcp := (forwardC k q).t
    let localAxis : List (V3 Float) := [⟨0.0, 0.0, 1.0⟩, ⟨0.0, 1.0, 0.0⟩, ⟨0.0, 1.0, 0.0⟩, ⟨0.0, 0.0, 1.0⟩, ⟨0.0, 1.0, 0.0⟩, ⟨0.0, 0.0, 1.0⟩]
    let signs := p.signs.toList
    let geo : List (Col Float) := (List.range 6).map (fun i =>
      let l := ls.getD i default
      let a := l.q.rotate (localAxis.getD i default)
      let s := signs.getD i 1.0
      ⟨(V3.cross a (tcp.sub l.t)).scale s, a.scale s⟩)
    let reach := 1.0 + tcp.norm + (toolLever k)
    let tolG := 2.0 * (eps * reach * 2.0 + 4e-16 * reach / eps) + 1e-12
    let worst := (implCols.zip geo).foldl (fun acc (a, b) =>
      max acc (max ((a.lin.sub b.lin).norm) ((a.ang.sub b.ang).norm))) 0.0
    preds := preds ++ [P "C15.geometric" (worst ≤ tolG, s!"max column deviation from the geometric Jacobian {worst} (tolerance {tolG}, eps {eps})")]
  -- torques are the transpose applied to the wrench; isometry and vector entry points agree
  let xc := colOfList x
  let mt := torquesFromVector implCols xc
  preds := preds ++ [P "C15.transpose" (closeL 1e-9 tor mt, s!"torques {tor} vs J^T F {mt}")]
  let xi := wrenchOfIso iso
  let mti := torquesFromVector implCols xi
  preds := preds ++ [P "C15.torques_iso" (closeL 1e-9 torIso mti, s!"torques(iso) {torIso} vs J^T wrench(iso) {mti}")]
  -- velocities reproduce the twist when well conditioned
  match vel with
  | some v =>
    if cond < 1e4 then
      let back := jacMulVec implCols v
      let res := max ((back.lin.sub xc.lin).norm) ((back.ang.sub xc.ang).norm)
      preds := preds ++ [P "C15.velocities" (res ≤ 1e-9 * cond * 10.0, s!"J * velocities differs from the twist by {res} (cond {cond})")]
  | none => pure ()
  -- the isometry built by Isometry3::new(v, w) has scaled axis w (|w| < pi here): entry points agree
  match vel, velIso with
  | some v, some vi =>
    if cond < 1e4 then
      let back := jacMulVec implCols vi
      let res := max ((back.lin.sub xi.lin).norm) ((back.ang.sub xi.ang).norm)
      preds := preds ++ [P "C15.velocities_iso" (res ≤ 1e-9 * cond * 10.0, s!"J * velocities(iso) differs from the twist of the isometry by {res}")]
      let _ := v
  | _, _ => pure ()
  match velFix with
  | some vf =>
    if cond < 1e4 then
      let back := jacMulVec implCols vf
      let want : Col Float := ⟨xc.lin, V3.zero⟩
      let res := max ((back.lin.sub want.lin).norm) ((back.ang.sub want.ang).norm)
      preds := preds ++ [P "C15.velocities_fixed" (res ≤ 1e-9 * cond * 10.0, s!"J * velocities_fixed differs by {res}")]
  | none => pure ()
  pure (mkRes okJ s!"Jacobian differs from the model: impl col0 {showV3 (implCols.getD 0 default).lin} model {showV3 (model.getD 0 default).lin}" preds
    [s!"cond<1e4={decide (cond < 1e4)}"])

end Opw.Drv
