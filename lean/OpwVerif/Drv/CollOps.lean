/-
  Driver handlers for the collision properties: C10 (reports), C14 (offsets).
-/
import OpwVerif.Drv.MiscOps2
import OpwVerif.Collisions
namespace Opw.Drv
open Opw Opw.Proto

def rMode : RM CheckMode := do
  let n ← rN
  pure (match n with | 0 => .firstCollisionOnly | 1 => .allCollisions | _ => .noCheck)

def rSafety : RM (Safety Float) := do
  let e ← rF; let rb ← rF
  let m ← rMode
  let sp ← rList (do let a ← rN; let b ← rN; let v ← rF; pure ((a, b), v))
  pure ⟨e, rb, sp, m⟩

structure Row where
  a : Nat
  b : Nat
  inter : Bool
  dist : Float
  nearOwn : Bool
  nearOther : Bool

def rTable : RM (List Row) := rList (do
  let a ← rN; let b ← rN; let i ← rB; let d ← rF; let n1 ← rB; let n2 ← rB
  pure ⟨a, b, i, d, n1, n2⟩)

def findRow (t : List Row) (i j : Nat) : Option Row :=
  t.find? (fun r => (r.a == i && r.b == j) || (r.a == j && r.b == i))

/-- scene whose oracles are the table (pre-filter verdict chosen for the safety table in use) -/
def sceneOf (envLen : Nat) (hasTool hasBase : Bool) (t : List Row) (useOther : Bool) : Scene Float :=
  { envLen := envLen, hasTool := hasTool, hasBase := hasBase,
    intersects := fun i j => match findRow t i j with | some r => r.inter | none => false,
    distance := fun i j => match findRow t i j with | some r => r.dist | none => 1e30,
    aabbNear := fun i j _ => match findRow t i j with | some r => (if useOther then r.nearOther else r.nearOwn) | none => false }

def rPairs : RM (List (Nat × Nat)) := rList (do let a ← rN; let b ← rN; pure (a, b))

def sortPairs (l : List (Nat × Nat)) : List (Nat × Nat) :=
  (l.map normPair).mergeSort (fun x y => x.1 < y.1 || (x.1 == y.1 && x.2 ≤ y.2))

/-- a pair whose verdict sits on the threshold: don't care.  The harness runs the distance query with the bodies in either
order and writes the distance as exactly the safety distance where the two answers disagree about it or come within 1e-4
(relative) of it; a distance of a few micrometres against a safety distance of a few micrometres more is NOT on the threshold -/
def ambiguous (sc : Scene Float) (s : Safety Float) (p : Nat × Nat) : Bool :=
  let r := s.minDistance p.1 p.2
  r > 0.0 && (sc.distance p.1 p.2 - r).abs ≤ 1e-4 * r

def dropAmb (sc : Scene Float) (s : Safety Float) (l : List (Nat × Nat)) : List (Nat × Nat) :=
  l.filter (fun p => !(ambiguous sc s p))

def showPairs (l : List (Nat × Nat)) : String := toString l

/-- compare an implementation report with the model's hit list under a mode -/
def reportOk (mode : CheckMode) (impl hits : List (Nat × Nat)) (anyAmb : Bool) : Bool :=
  match mode with
  | .noCheck => impl.isEmpty
  | .allCollisions => sortPairs impl == sortPairs hits
  | .firstCollisionOnly =>
    impl.length ≤ 1 && impl.all (fun p => hits.contains (normPair p) ) && (anyAmb || (impl.isEmpty == hits.isEmpty))

/-- `coll K q tool base envLen OWN OTHER TABLE #pool => details collides near` -/
def opColl : RM Res := do
  let _k ← rKin
  let _q ← rJ6
  let hasTool ← rB; let hasBase ← rB; let envLen ← rN
  let own ← rSafety
  let other ← rSafety
  let table ← rTable
  let pool ← rN
  let out ← rOut (do let d ← rPairs; let c ← rB; let n ← rPairs; pure (d, c, n))
  match out with
  | none => pure (panicRes "collision_details/collides/near")
  | some (details, coll, nearR) =>
    let sc := sceneOf envLen hasTool hasBase table false
    let scO := sceneOf envLen hasTool hasBase table true
    let first := fun (l : List (Nat × Nat)) => l.head?
    -- model: all hits (mode-independent), then per mode
    let ts := tasks sc own []
    let hitsOwn := (ts.filter (fun p => taskCollides sc own p.1 p.2)).map normPair
    let hitsOther := (ts.filter (fun p => taskCollides scO other p.1 p.2)).map normPair
    let ambOwn := ts.any (ambiguous sc own)
    let ambOther := ts.any (ambiguous scO other)
    let dI := dropAmb sc own (details.map normPair)
    let hO := dropAmb sc own hitsOwn
    let nI := dropAmb scO other (nearR.map normPair)
    let hT := dropAmb scO other hitsOther
    let okD := reportOk own.mode dI hO ambOwn
    let okN := reportOk other.mode nI hT ambOther
    let mColl := collides sc own first
    let okC := ambOwn || coll == mColl
    let _ := first
    -- property predicates: brute force over the relevant pairs of the statement
    let rel := relevantPairs sc
    let brute := dropAmb sc own ((rel.filter (fun p => pairVerdict sc own p.1 p.2)).map normPair)
    let mut preds : List (String × Bool × String) := []
    -- the pre-filter must be conservative for the brute-force equivalence to hold
    let unsound := rel.find? (fun p =>
      let r := own.minDistance p.1 p.2
      r > 0.0 && sc.distance p.1 p.2 ≤ r - 1e-5 * (1.0 + r) && !(sc.aabbNear p.1 p.2 r))
    preds := preds ++ [P "C10.prefilter_conservative" (unsound.isNone, s!"pair {unsound} is within its safety distance but rejected by the AABB pre-filter")]
    match own.mode with
    | .allCollisions =>
      preds := preds ++ [P "C10.all_exact" (sortPairs dI == sortPairs brute, s!"report {showPairs (sortPairs dI)} brute force {showPairs (sortPairs brute)}")]
    | .firstCollisionOnly =>
      preds := preds ++ [P "C10.first_subset" (dI.length ≤ 1 && dI.all brute.contains && (ambOwn || dI.isEmpty == brute.isEmpty), s!"report {showPairs dI} brute force {showPairs brute}")]
    | .noCheck =>
      preds := preds ++ [P "C10.nocheck_empty" (details.isEmpty, s!"report {showPairs details} in no-check mode")]
    if own.mode != .noCheck then
      preds := preds ++ [P "C10.collides_iff" (ambOwn || coll == !brute.isEmpty, s!"collides = {coll}, brute-force colliding pairs {showPairs brute}")]
    else
      preds := preds ++ [P "C10.collides_iff" (coll == false, "collides true in no-check mode")]
    -- `near` answers for the safety table it is given (its own mode), whatever the robot's own table says
    let relO := relevantPairs scO
    -- exempt are the pairs marked never-colliding in the given table or in the robot's own one (`near_all_mode`)
    let bruteO := dropAmb scO other ((relO.filter (fun p =>
      pairVerdict scO other p.1 p.2 && (own.minDistance p.1 p.2 > neverCollides || p == (jTool, jBase)))).map normPair)
    match other.mode with
    | .allCollisions =>
      preds := preds ++ [P "C10.near_all_exact" (sortPairs nI == sortPairs bruteO, s!"near reports {showPairs (sortPairs nI)} brute force at the given distances {showPairs (sortPairs bruteO)}")]
    | .firstCollisionOnly =>
      preds := preds ++ [P "C10.near_first_subset" (nI.length ≤ 1 && nI.all bruteO.contains && (ambOther || nI.isEmpty == bruteO.isEmpty), s!"near reports {showPairs nI} brute force {showPairs bruteO}")]
    | .noCheck =>
      preds := preds ++ [P "C10.near_nocheck_empty" (nearR.isEmpty, s!"near reports {showPairs nearR} in no-check mode")]
    pure { corr := if okD && okN && okC then "OK" else "MISMATCH",
           detail := if okD && okN && okC then "" else s!"details {okD} near {okN} collides {okC}: impl details {showPairs details} model hits {showPairs hitsOwn}; impl near {showPairs nearR} model {showPairs hitsOther}; collides impl {coll} model {mColl}",
           preds := preds,
           tags := [s!"pool={pool}", s!"hits={hitsOwn.length}", s!"mode={repr own.mode}", s!"n={hitsOwn.length}"] }

/-- `offs K q from to tool base envLen OWN #12 (cand compliant collides TABLE)* #pool => sols` -/
def opOffs : RM Res := do
  let k ← rKin
  let q ← rJ6
  let f ← rJ6
  let t ← rJ6
  let hasTool ← rB; let hasBase ← rB; let envLen ← rN
  let own ← rSafety
  let cands ← rList (do
    let c ← rJ6; let comp ← rB; let col ← rB
    let u1 ← rB; let u2 ← rB; let u3 ← rB; let u4 ← rB; let u5 ← rB; let u6 ← rB
    let tb ← rTable
    pure (c, comp, col, tb, [u1, u2, u3, u4, u5, u6]))
  let pool ← rN
  let out ← rOut (rList rJ6)
  match out with
  | none => pure (panicRes "non_colliding_offsets")
  | some offered =>
    let first := fun (l : List (Nat × Nat)) => l.head?
    -- model: scene of a candidate = its table (looked up by the candidate's bits)
    let sceneAt := fun (c : J6 Float) =>
      match cands.find? (fun (cc, _, _, _, _) => bitEqJ6 cc c) with
      | some (_, _, _, tb, _) => sceneOf envLen hasTool hasBase tb false
      | none => sceneOf envLen hasTool hasBase [] false
    -- which links keep their pose (reported by the harness from forward_with_joint_poses)
    let unchanged := fun (c : J6 Float) (i : Nat) =>
      match cands.find? (fun (cc, _, _, _, _) => bitEqJ6 cc c) with
      | some (_, _, _, _, us) => us.getD i false
      | none => false
    let model := nonCollidingOffsets sceneAt unchanged own k.constraints q f t first
    let mc := offsetCandidates q f t
    let candOk := closeList bitEqJ6 (mc.map (·.2)) (cands.map (·.1))
    -- ambiguity: any candidate with a threshold pair
    let amb := cands.any (fun (_, _, _, tb, _) =>
      let sc := sceneOf envLen hasTool hasBase tb false
      (tasks sc own []).any (ambiguous sc own))
    let ok := candOk && (amb || closeList bitEqJ6 offered model)
    -- property: offered = candidates that are within limits and free by the full check of the same robot
    let want := (cands.filter (fun (_, comp, col, _, _) => comp && !col)).map (fun (c, _, _, _, _) => c)
    let colliding := offered.find? (fun o => cands.any (fun (c, _, col, _, _) => bitEqJ6 c o && col))
    let withheld := want.find? (fun w => !(offered.any (bitEqJ6 w)))
    -- limits as the case line states them (the model's own constraint object), not as the library object reports them
    let outside := offered.find? (fun o => match k.constraints with | some cc => !cc.compliant o | none => false)
    let preds := [P "C14.within_limits" (outside.isNone, s!"offered {outside.map showJ6} is outside the joint limits of the robot"),
                  P "C14.nothing_colliding" (amb || colliding.isNone, s!"offered {colliding.map showJ6} is reported colliding by the full check"),
                  P "C14.nothing_withheld" (amb || withheld.isNone, s!"{withheld.map showJ6} is legal and free but not offered"),
                  P "C14.exact" (amb || closeList bitEqJ6 offered want, s!"offered {offered.length} expected {want.length}")]
    pure { corr := if ok then "OK" else "MISMATCH",
           detail := if ok then "" else s!"offsets: candidates {candOk}; impl {offered.map showJ6} model {model.map showJ6}",
           preds := preds, tags := [s!"pool={pool}", s!"n={offered.length}", s!"offered={offered.length}"] }

end Opw.Drv

namespace Opw.Drv
open Opw Opw.Proto

/-- `kws K #entry pose prev j6 => inner #n verdicts outer` -/
def opKws : RM Res := do
  let k ← rKin
  let entry ← rN
  let pose ← rIso
  let prev ← rJ6
  let j6 ← rF
  let out ← rOut (do let a ← rList rJ6; let v ← rList rB; let o ← rList rJ6; pure (a, v, o))
  match out with
  | none => pure (panicRes "KinematicsWithShape inverse")
  | some (inner, verdicts, outer) =>
    let table := inner.zip verdicts
    let oracle := fun (s : J6 Float) => match table.find? (fun (x, _) => bitEqJ6 x s) with
      | some (_, v) => v
      | none => false
    let ks := Kin.shape k oracle
    let call := fun (kk : Kin Float) => match entry with
      | 0 => kk.inverse pose | 1 => kk.inverseContinuing pose prev | 2 => kk.inverse5dof pose j6 | _ => kk.inverseContinuing5dof pose prev
    let mInner := call k
    let okInner := solsCloseOrdered inner mInner || solsCloseAsSets inner mInner
    -- the wrapper itself is compared exactly: same vectors, same order
    let want := (table.filter (fun (_, v) => !v)).map (·.1)
    let exact := closeList bitEqJ6 outer want
    let mOuter := removeCollisions oracle inner
    let okOuter := closeList bitEqJ6 outer mOuter
    let _ := ks
    let coll := outer.find? oracle
    let preds := [P "C11.exact_filter" (exact, s!"outer {outer.map showJ6} expected the non-colliding inner answers in order {want.map showJ6}"),
                  P "C11.nothing_colliding" (coll.isNone, s!"{coll.map showJ6} is reported colliding but returned")]
    pure { corr := if okInner && okOuter then "OK" else "MISMATCH",
           detail := if okInner && okOuter then "" else s!"kws entry {entry}: inner ok {okInner} outer ok {okOuter}",
           preds := preds, tags := [s!"n={outer.length}", s!"dropped={inner.length - outer.length}", s!"entry={entry}"] }

/-- `kwsd K q => fwdO fwdI linksO×6 linksI×6 singO singI consO consI #6 transforms (#1 tool|#0) #env` -/
def opKwsD : RM Res := do
  let k ← rKin
  let q ← rJ6
  expect "=>"
  let fo ← rIso; let fi ← rIso
  let lo ← readIsos 6; let li ← readIsos 6
  let so ← rB; let si ← rB
  let cfo ← rJ6; let cto ← rJ6; let cwo ← rF; let cfi ← rJ6; let cti ← rJ6; let cwi ← rF
  let tr ← rList rIso
  let hasT ← rN
  let tt : Option (Iso Float) ← (if hasT == 1 then (do pure (some (← rIso))) else pure none)
  let _env ← rN
  let sameIso := fun (a b : Iso Float) => closeV3 0.0 a.t b.t && closeQuatComp 0.0 a.q b.q
  let ok := closeIso tolC fo (k.forward q) && closeList (closeIso tolC) lo (k.links q) && so == k.singularity q
  let deleg := sameIso fo fi && closeList sameIso lo li && so == si && bitEqJ6 cfo cfi && bitEqJ6 cto cti && cwo == cwi
  -- body meshes placed at the link poses (cast to f32); tool at link 6
  let placed := closeList (fun (a b : Iso Float) => closeV3 1e-5 a.t b.t && closeQuat 1e-5 a.q b.q) tr lo &&
    (match tt with
      | some t => (match lo.getLast? with | some l6 => closeV3 1e-5 t.t l6.t && closeQuat 1e-5 t.q l6.q | none => false)
      | none => false)
  pure (mkRes ok "forward/links/singularity of the robot with shape differ from the model of the inner stack"
    [P "C09.shape_forward" (closeIso tolC fo (k.forward q) && closeList (closeIso tolC) lo (k.links q),
        s!"robot with shape: forward {showIso fo} is not base * robot * tool = {showIso (k.forward q)} (or the link poses differ)"),
     P "C11.delegates" (deleg, "forward, link poses, limits or singularity differ from the underlying stack"),
     P "C11.positioned" (placed, "positioned_robot transforms differ from the link poses")])

end Opw.Drv
