/-
  Driver handlers: constraints (C07).
-/
import OpwVerif.Drv.KinOps2
namespace Opw.Drv
open Opw Opw.Proto

def bitEq (a b : Float) : Bool := a.toBits == b.toBits || (a == b)

def bitEqJ (a b : J6 Float) : Bool :=
  bitEq a.j1 b.j1 && bitEq a.j2 b.j2 && bitEq a.j3 b.j3 && bitEq a.j4 b.j4 && bitEq a.j5 b.j5 && bitEq a.j6 b.j6

/-- arc-membership oracle (independent arithmetic): `none` when within 1e-9 of an arc end -/
def onArcOracle (f t x : Float) : Option Bool :=
  let tp := 2.0 * piF
  if f == t then some true
  else
    let t' := if t < f then t + tp * Float.ceil ((f - t) / tp) else t
    let width := t' - f
    if width < 1e-9 then
      -- a sliver arc [f, t] (f < t): only angles next to f can be on it; when the limits were wrapped (t < f) and
      -- from ≡ to modulo a turn, rounding decides between an empty and a full arc: don't care
      if f < t then
        let d0 := F.fmod (x - f) tp
        let d := if d0 < 0.0 then d0 + tp else d0
        if d > 1e-9 && tp - d > 1e-9 then some false else none
      else none
    else if width ≥ tp + 1e-9 then some true
    else
      let d0 := F.fmod (x - f) tp
      let d := if d0 < 0.0 then d0 + tp else d0
      if (d - width).abs < 1e-9 || d < 1e-9 || tp - d < 1e-9 || (width - tp).abs < 1e-9 then none
      else some (d ≤ width)

/-- `c07 #ctor from to w #n angles… => from to centers tolerances weight #kept (compliant inside×6)×n centre_ok` -/
def opC07 : RM Res := do
  let ctor ← rN
  let f ← rJ6
  let t ← rJ6
  let w ← rF
  let angles ← rList rJ6
  expect "=>"
  let cf ← rJ6; let ct ← rJ6; let cc ← rJ6; let ctl ← rJ6; let cw ← rF
  let kept ← rN
  let mut rows : Array (Bool × List Bool) := #[]
  for _ in [0:angles.length] do
    let c ← rB
    let i1 ← rB; let i2 ← rB; let i3 ← rB; let i4 ← rB; let i5 ← rB; let i6 ← rB
    rows := rows.push (c, [i1, i2, i3, i4, i5, i6])
  let centreOk ← rB
  let m : Constraints Float := if ctor == 1 then Constraints.ofDegrees f t w else Constraints.mk' f t w
  -- exact comparison: only correctly rounded IEEE operations are involved
  let okHead := bitEqJ cf m.from_ && bitEqJ ct m.to && bitEqJ cc m.centers && bitEqJ ctl m.tolerances && bitEq cw m.sortingWeight
  let mrows := angles.map (fun a => (m.compliant a,
    [insideBounds a.j1 m.centers.j1 m.tolerances.j1, insideBounds a.j2 m.centers.j2 m.tolerances.j2,
     insideBounds a.j3 m.centers.j3 m.tolerances.j3, insideBounds a.j4 m.centers.j4 m.tolerances.j4,
     insideBounds a.j5 m.centers.j5 m.tolerances.j5, insideBounds a.j6 m.centers.j6 m.tolerances.j6]))
  let okRows := rows.toList == mrows
  let okKept := kept == (m.filter angles).length
  -- predicates on the implementation's verdicts
  -- the arc is the one the caller asked for (degrees converted here), not whatever the object reports back
  let deg := fun (x : Float) => if ctor == 1 then x * (piF / 180.0) else x
  let fr := f.toList.map deg
  let tt := t.toList.map deg
  let limitsKept := (fr.zip cf.toList).all (fun (a, b) => (a - b).abs ≤ 1e-12 * (1.0 + a.abs)) &&
                    (tt.zip ct.toList).all (fun (a, b) => (a - b).abs ≤ 1e-12 * (1.0 + a.abs))
  let mut badArc : Option String := none
  let mut checked := 0
  let mut accepted := 0
  for (a, (c, ins)) in angles.zip rows.toList do
    let want := (a.toList.zip (fr.zip tt)).map (fun (x, (ff, tv)) => onArcOracle ff tv x)
    for (o, got) in want.zip ins do
      match o with
      | some b =>
        checked := checked + 1
        if got then accepted := accepted + 1
        if b != got && badArc.isNone then badArc := some s!"angles {showJ6 a} from {fr} to {tt}: inside {ins} expected {want}"
      | none => pure ()
    if c != ins.all id && badArc.isNone then badArc := some s!"compliant {c} is not the conjunction of the per-joint verdicts {ins}"
  let preds := [("C07.arc", badArc.isNone, badArc.getD ""),
                ("C07.limits_kept", limitsKept, s!"requested limits {fr} .. {tt}, the object reports {showJ6 cf} .. {showJ6 ct}"),
                ("C07.centre_accepted", centreOk, s!"centres {showJ6 cc} rejected by their own constraints"),
                ("C07.filter", kept == (rows.toList.filter (·.1)).length, "filter keeps a different number than compliant accepts")]
  pure { corr := if okHead && okRows && okKept then "OK" else "MISMATCH",
         detail := if okHead && okRows && okKept then "" else s!"constraints differ: head {okHead} rows {okRows} kept {okKept}; impl centres {showJ6 cc} tol {showJ6 ctl}; model {showJ6 m.centers} {showJ6 m.tolerances}",
         preds := preds, tags := [s!"ctor={ctor}", s!"checked={checked}", s!"accepted={accepted}"] }

end Opw.Drv
