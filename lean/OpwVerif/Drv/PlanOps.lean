/-
  Driver handlers for the planners: C13 (RRT).
-/
import OpwVerif.Drv.CollOps
import OpwVerif.Rrt
namespace Opw.Drv
open Opw Opw.Proto

def rCfg6 : RM (Cfg Float) := do
  let j ← rJ6
  pure j.toList

def maxGap (p : List (Cfg Float)) : Float :=
  let rec go : List (Cfg Float) → Float → Float
    | a :: b :: rest, m => go (b :: rest) (max m (cfgDist a b))
    | _, m => m
  go p 0.0

def cfgEq (a b : Cfg Float) : Bool := closeList (fun (x y : Float) => x.toBits == y.toBits || x == y) a b

/-- `h_rrt start goal ext #maxTry #stopAfter #nb boxes… #ns samples… => ok #n path… | err cancelled|failed` -/
def opHRrt : RM Res := do
  let start ← rCfg6
  let goal ← rCfg6
  let ext ← rF
  let maxTry ← rN
  let stopAfter ← rN
  let boxes ← rList (do let a ← rJ6; let b ← rJ6; pure (a.toList, b.toList))
  let samples ← rList rCfg6
  expect "=>"
  let tag ← next
  let inside := fun (b : Cfg Float × Cfg Float) (q : Cfg Float) =>
    ((q.zip (b.1.zip b.2)).all (fun (x, (lo, hi)) => x ≥ lo && x ≤ hi))
  let isFree := fun (q : Cfg Float) => !(boxes.any (fun b => inside b q))
  let stop := fun (i : Nat) => i ≥ stopAfter
  let model := dualRrtConnect start goal isFree samples ext maxTry stop
  if tag == "panic" then pure (panicRes "dual_rrt_connect")
  else if tag == "err" then
    let kind ← next
    let ok := match model with
      | .cancelled => kind == "cancelled"
      | .failed => kind == "failed"
      | .path _ => false
    pure (mkRes ok s!"dual_rrt_connect impl Err({kind}), model {match model with | .path p => s!"path of {p.length}" | .cancelled => "cancelled" | .failed => "failed"}"
      [P "C13.cancel" (!(stopAfter == 0) || kind == "cancelled", "flag raised before planning but the error is not Cancelled")] [s!"err={kind}"])
  else
    let path ← rList rCfg6
    let ok := match model with
      | .path p => closeList (closeList (close 1e-12)) path p
      | _ => false
    let first := path.head?.getD []
    let last := path.getLast?.getD []
    let inner := (path.drop 1).dropLast
    let notFree := inner.find? (fun q => !(isFree q))
    let lo := -2.0; let hi := 2.0
    let inBox := fun (q : Cfg Float) => q.all (fun x => x ≥ lo && x ≤ hi)
    let outBox := path.find? (fun q => !(inBox q))
    let preds := [P "C13.endpoints" (cfgEq first start && cfgEq last goal, s!"path starts with {first} ends with {last}; start {start} goal {goal}"),
                  P "C13.free" (notFree.isNone, s!"node {notFree} is not collision-free"),
                  P "C13.gap" (maxGap path ≤ 3.0 * ext + 1e-9, s!"largest gap {maxGap path} exceeds three steps of {ext}"),
                  P "C13.in_box" (outBox.isNone || !(inBox start && inBox goal), s!"node {outBox} leaves the sampling box"),
                  P "C13.cancel" (stopAfter != 0, "a path was returned although the flag was raised before planning")]
    pure (mkRes ok s!"dual_rrt_connect impl path of {path.length}, model {match model with | .path p => s!"path of {p.length}" | .cancelled => "cancelled" | .failed => "failed"}"
      preds [s!"n={path.length}", "path"])

/-- `rrt start goal step #maxTry #cancel from to => ok #n (node collides compliant)… | err kind` -/
def opRrt : RM Res := do
  let start ← rJ6
  let goal ← rJ6
  let step ← rF
  let _maxTry ← rN
  let cancel ← rB
  let _f ← rJ6
  let _t ← rJ6
  expect "=>"
  let tag ← next
  if tag == "panic" then pure (panicRes "plan_rrt")
  else if tag == "err" then
    let kind ← next
    pure { corr := "OK", preds := [P "C13.cancel" (!cancel || kind == "cancelled", "flag raised before planning but the error is not Cancelled")], tags := [s!"err={kind}", "n=0"] }
  else
    let rows ← rList (do let q ← rJ6; let c ← rB; let l ← rB; pure (q, c, l))
    let path := rows.map (fun (q, _, _) => q.toList)
    let first := rows.head?.map (·.1)
    let last := rows.getLast?.map (·.1)
    let coll := rows.find? (fun (_, c, _) => c)
    let outl := rows.find? (fun (_, _, l) => !l)
    let preds := [P "C13.endpoints" ((match first, last with
                      | some a, some b => bitEqJ6 a start && bitEqJ6 b goal
                      | _, _ => false), s!"path starts with {first.map showJ6} ends with {last.map showJ6}"),
                  P "C13.free" (coll.isNone, s!"node {coll.map (fun x => showJ6 x.1)} is reported colliding by the same robot"),
                  P "C13.gap" (maxGap path ≤ 3.0 * step + 1e-9, s!"largest gap {maxGap path} exceeds three steps of {step}"),
                  P "C13.limits" (outl.isNone, s!"node {outl.map (fun x => showJ6 x.1)} is outside the (non-wrapping) limits"),
                  P "C13.cancel" (!cancel, "a path was returned although the flag was raised before planning")]
    pure { corr := "OK", preds := preds, tags := [s!"n={rows.length}", "path"] }

/-- `rrt_cancel => err cancelled | …` (flag raised from another thread during planning) -/
def opRrtCancel : RM Res := do
  expect "=>"
  let tag ← next
  if tag == "panic" then pure (panicRes "plan_rrt")
  else if tag == "err" then
    let kind ← next
    pure { corr := "OK", preds := [P "C13.cancel_during" (kind == "cancelled", s!"error kind {kind} after the flag was raised during planning")], tags := ["n=1"] }
  else
    let n ← rN
    -- a path found within the 30 ms before the flag went up is legitimate
    pure { corr := "OK", preds := [], tags := [s!"finished-before-cancel={n}", "n=1"] }

end Opw.Drv
