/-
  Driver handlers for the planners: C13 (RRT).
-/
import OpwVerif.Drv.CollOps
import OpwVerif.Rrt
import OpwVerif.Cartesian
namespace Opw.Drv
open Opw Opw.Proto

def rCfg6 : RM (Cfg Float) := do
  let j ← rJ6
  pure j.toList

def maxGap (p : List (Cfg Float)) : Float :=
  let rec go : List (Cfg Float) → Float → Float
    | a :: b :: rest, m => go (b :: rest) (max m (cfgDist a b))
    | _, m => m
  go p 0.0

def cfgEq (a b : Cfg Float) : Bool := closeList (fun (x y : Float) => x.toBits == y.toBits || x == y) a b

/-- `h_rrt start goal ext #maxTry #stopAfter #nb boxes… #ns samples… => ok #n path… | err cancelled|failed` -/
def opHRrt : RM Res := do
  let start ← rCfg6
  let goal ← rCfg6
  let ext ← rF
  let maxTry ← rN
  let stopAfter ← rN
  let boxes ← rList (do let a ← rJ6; let b ← rJ6; pure (a.toList, b.toList))
  let samples ← rList rCfg6
  expect "=>"
  let tag ← next
  let inside := fun (b : Cfg Float × Cfg Float) (q : Cfg Float) =>
    ((q.zip (b.1.zip b.2)).all (fun (x, (lo, hi)) => x ≥ lo && x ≤ hi))
  let isFree := fun (q : Cfg Float) => !(boxes.any (fun b => inside b q))
  let stop := fun (i : Nat) => i ≥ stopAfter
  let model := dualRrtConnect start goal isFree samples ext maxTry stop
  if tag == "panic" then pure (panicRes "dual_rrt_connect")
  else if tag == "err" then
    let kind ← next
    let ok := match model with
      | .cancelled => kind == "cancelled"
      | .failed => kind == "failed"
      | .path _ => false
    pure (mkRes ok s!"dual_rrt_connect impl Err({kind}), model {match model with | .path p => s!"path of {p.length}" | .cancelled => "cancelled" | .failed => "failed"}"
      [P "C13.cancel" (!(stopAfter == 0) || kind == "cancelled", "flag raised before planning but the error is not Cancelled")] [s!"err={kind}"])
  else
    let path ← rList rCfg6
    let ok := match model with
      | .path p => closeList (closeList (close 1e-12)) path p
      | _ => false
    let first := path.head?.getD []
    let last := path.getLast?.getD []
    let inner := (path.drop 1).dropLast
    let notFree := inner.find? (fun q => !(isFree q))
    let lo := -2.0; let hi := 2.0
    let inBox := fun (q : Cfg Float) => q.all (fun x => x ≥ lo && x ≤ hi)
    let outBox := path.find? (fun q => !(inBox q))
    let preds := [P "C13.endpoints" (cfgEq first start && cfgEq last goal, s!"path starts with {first} ends with {last}; start {start} goal {goal}"),
                  P "C13.free" (notFree.isNone, s!"node {notFree} is not collision-free"),
                  P "C13.gap" (maxGap path ≤ 3.0 * ext + 1e-9, s!"largest gap {maxGap path} exceeds three steps of {ext}"),
                  P "C13.in_box" (outBox.isNone || !(inBox start && inBox goal), s!"node {outBox} leaves the sampling box"),
                  P "C13.cancel" (stopAfter != 0, "a path was returned although the flag was raised before planning")]
    pure (mkRes ok s!"dual_rrt_connect impl path of {path.length}, model {match model with | .path p => s!"path of {p.length}" | .cancelled => "cancelled" | .failed => "failed"}"
      preds [s!"n={path.length}", "path"])

/-- `rrt start goal step #maxTry #cancel from to => ok #n (node collides compliant)… | err kind` -/
def opRrt : RM Res := do
  let start ← rJ6
  let goal ← rJ6
  let step ← rF
  let _maxTry ← rN
  let cancel ← rB
  let f ← rJ6
  let t ← rJ6
  expect "=>"
  let tag ← next
  if tag == "panic" then pure (panicRes "plan_rrt")
  else if tag == "err" then
    let kind ← next
    pure { corr := "OK", preds := [P "C13.cancel" (!cancel || kind == "cancelled", "flag raised before planning but the error is not Cancelled")], tags := [s!"err={kind}", "n=0"] }
  else
    let rows ← rList (do let q ← rJ6; let c ← rB; let l ← rB; pure (q, c, l))
    let path := rows.map (fun (q, _, _) => q.toList)
    let first := rows.head?.map (·.1)
    let last := rows.getLast?.map (·.1)
    let coll := rows.find? (fun (_, c, _) => c)
    -- limits as stated in the case line (the model's own constraint object), besides the verdict of the library's object
    let lim : Constraints Float := Constraints.mk' f t 0.0
    let outl := rows.find? (fun (q, _, l) => !l || !lim.compliant q)
    let preds := [P "C13.endpoints" ((match first, last with
                      | some a, some b => bitEqJ6 a start && bitEqJ6 b goal
                      | _, _ => false), s!"path starts with {first.map showJ6} ends with {last.map showJ6}"),
                  P "C13.free" (coll.isNone, s!"node {coll.map (fun x => showJ6 x.1)} is reported colliding by the same robot"),
                  P "C13.gap" (maxGap path ≤ 3.0 * step + 1e-9, s!"largest gap {maxGap path} exceeds three steps of {step}"),
                  P "C13.limits" (outl.isNone, s!"node {outl.map (fun x => showJ6 x.1)} is outside the (non-wrapping) limits"),
                  P "C13.cancel" (!cancel, "a path was returned although the flag was raised before planning")]
    pure { corr := "OK", preds := preds, tags := [s!"n={rows.length}", "path"] }

/-- `rrt_cancel => err cancelled | …` (flag raised from another thread during planning) -/
def opRrtCancel : RM Res := do
  expect "=>"
  let tag ← next
  if tag == "panic" then pure (panicRes "plan_rrt")
  else if tag == "err" then
    let kind ← next
    pure { corr := "OK", preds := [P "C13.cancel_during" (kind == "cancelled", s!"error kind {kind} after the flag was raised during planning")], tags := ["n=1"] }
  else
    let n ← rN
    -- a path found within the 30 ms before the flag went up is legitimate
    pure { corr := "OK", preds := [], tags := [s!"finished-before-cancel={n}", "n=1"] }

end Opw.Drv

namespace Opw.Drv
open Opw Opw.Proto

def closeList2 {α β} (f : α → β → Bool) : List α → List β → Bool
  | [], [] => true
  | a :: as, b :: bs => f a b && closeList2 f as bs
  | _, _ => false

def rAPoses : RM (List (Iso Float × Nat)) := rList (do let p ← rIso; let f ← rN; pure (p, f))

/-- `h_dense land #n steps… park stepM stepRad => #m (pose flags)…` -/
def opHDense : RM Res := do
  let land ← rIso
  let steps ← rList rIso
  let park ← rIso
  let sm ← rF; let sr ← rF
  expect "=>"
  let out ← rAPoses
  let model := withIntermediatePoses land steps park sm sr Float.ofNat
  let ok := closeList2 (fun (a : Iso Float × Nat) (b : APose Float) => a.2 == b.flags && closeV3 1e-12 a.1.t b.pose.t && closeQuat 1e-12 a.1.q b.pose.q) out model
  -- predicates: order land, (interp*, step)*, interp*, park with the right flags; interpolated translations on the segment
  let originals := out.filter (fun (_, f) => f != flagLinInterp)
  let wantOrig : List (Iso Float × Nat) := [(land, flagLand)] ++ steps.map (fun s => (s, flagTrace)) ++ [(park, flagPark)]
  let okOrig := closeList (fun (a b : Iso Float × Nat) => a.2 == b.2 && closeV3 0.0 a.1.t b.1.t && closeQuatComp 0.0 a.1.q b.1.q) originals wantOrig
  -- each interpolated pose lies on the segment between its neighbours among the originals
  let rec segs : List (Iso Float × Nat) → Option (Iso Float) → List (Iso Float × Iso Float × Iso Float) → List (Iso Float × Iso Float × Iso Float)
    | [], _, acc => acc
    | (p, f) :: rest, prev, acc =>
      if f == flagLinInterp then
        let nxt := (rest.find? (fun (_, g) => g != flagLinInterp)).map (·.1)
        match prev, nxt with
        | some a, some b => segs rest prev (acc ++ [(p, a, b)])
        | _, _ => segs rest prev acc
      else segs rest (some p) acc
  let offSeg := (segs out none []).find? (fun (p, a, b) =>
    let ab := b.t.sub a.t
    let ap := p.t.sub a.t
    let l2 := ab.normSq
    let tpar := if l2 > 0.0 then (V3.dot ap ab) / l2 else 0.0
    let foot := a.t.add (ab.scale tpar)
    !((p.t.sub foot).norm ≤ 1e-9 && tpar ≥ -1e-9 && tpar ≤ 1.0 + 1e-9))
  pure (mkRes ok s!"densified poses differ: impl {out.length} model {model.length}"
    [P "C12.dense_order" (okOrig, "land / steps / park do not appear in order with their flags"),
     P "C12.dense_on_segment" (offSeg.isNone, "an interpolated pose is off the segment between the poses it interpolates")]
    [s!"n={out.length}"])

structure WP where
  joints : J6 Float
  flags : Nat
  collides : Bool
  compliant : Bool

/-- `plan K from land #n steps park stepM stepRad maxCost coeff6 #depth #include #pool => ok #m (joints flags collides compliant)… | err | panic` -/
def opPlan : RM Res := do
  let k ← rKin
  let from_ ← rJ6
  let land ← rIso
  let steps ← rList rIso
  let park ← rIso
  let sm ← rF; let sr ← rF; let maxCost ← rF
  let coeff ← rJ6
  let depth ← rN
  let incl ← rB
  let pool ← rN
  expect "=>"
  let tag ← next
  if tag == "panic" then pure (panicRes "Cartesian::plan")
  else if tag == "err" then pure { corr := "OK", tags := ["err", "n=0", s!"pool={pool}"] }
  else
    let wps ← rList (do let j ← rJ6; let f ← rN; let c ← rB; let l ← rB; pure (⟨j, f, c, l⟩ : WP))
    let poses := withIntermediatePoses land steps park sm sr Float.ofNat
    let cfg : CartCfg Float := ⟨maxCost, coeff, depth, incl⟩
    -- split at the landing waypoint
    let onb := wps.takeWhile (fun w => !(hasFlag w.flags flagLand))
    let cart := wps.dropWhile (fun w => !(hasFlag w.flags flagLand))
    let mut preds : List (String × Bool × String) := []
    let bad := wps.find? (·.collides)
    preds := preds ++ [P "C12.collision_free" (bad.isNone, s!"waypoint {bad.map (fun w => showJ6 w.joints)} is reported colliding by the same robot")]
    -- the library object's verdict AND the limits as stated in the case line (the model's own constraint object)
    let outl := wps.find? (fun w => !w.compliant || (match k.constraints with | some cc => !cc.compliant w.joints | none => false))
    preds := preds ++ [P "C12.limits" (outl.isNone, s!"waypoint {outl.map (fun w => showJ6 w.joints)} is outside the joint limits")]
    preds := preds ++ [P "C12.starts_at_from" ((match wps.head? with | some w => bitEqJ6 w.joints from_ | none => false), s!"path starts at {(wps.head?).map (fun w => showJ6 w.joints)}, requested start {showJ6 from_}")]
    preds := preds ++ [P "C12.onboarding_flags" (onb.all (fun w => w.flags == flagOnboarding) && !cart.isEmpty, "waypoints before the landing are not flagged ONBOARDING, or there is no landing waypoint")]
    -- landing, stroke and parking poses in order, reproduced by forward kinematics
    let fkOk := fun (w : WP) (p : Iso Float) => posErr p (forwardC k w.joints) ≤ dT + 1e-9 && (angErr p (forwardC k w.joints)).abs ≤ aT + 1e-9
    let origW := cart.filter (fun w => hasFlag w.flags flagLand || hasFlag w.flags flagTrace || hasFlag w.flags flagPark)
    let wantOrig : List (Iso Float × Nat) := [(land, flagLand)] ++ steps.map (fun s => (s, flagTrace)) ++ [(park, flagPark)]
    -- every landing/stroke/parking pose is realised, in order, by a waypoint carrying its flag (waypoints of an RRT
    -- re-planning carry the flag of the pose they lead to, so the match is a subsequence)
    let rec subseq : List WP → List (Iso Float × Nat) → Bool
      | _, [] => true
      | [], _ :: _ => false
      | w :: ws, e :: es => if hasFlag w.flags e.2 && fkOk w e.1 then subseq ws es else subseq ws (e :: es)
    let okOrder := subseq origW wantOrig
    preds := preds ++ [P "C12.poses_in_order" (okOrder && (match wps.getLast? with | some w => hasFlag w.flags flagPark | none => false),
      s!"landing/stroke/parking waypoints: flags {origW.map (·.flags)}; expected {wantOrig.map (·.2)} each reproducing its pose")]
    -- the LAND flag marks the landing waypoint and nothing else: exactly one waypoint carries it, it reproduces the
    -- landing pose and it is not an interpolated one (waypoints of a subdivided step carry the flag of the pose they lead TO)
    let landW := wps.filter (fun w => hasFlag w.flags flagLand)
    preds := preds ++ [P "C12.land_flag" ((match landW with | [w] => fkOk w land && !(hasFlag w.flags flagLinInterp) | _ => false),
      s!"{landW.length} waypoints carry LAND (flags {landW.map (·.flags)}); exactly one is expected, reproducing the landing pose")]
    preds := preds ++ [P "C12.interp_only_if_requested" (incl || wps.all (fun w => !(hasFlag w.flags flagLinInterp)), "interpolated waypoints returned although not requested")]
    -- interpolated waypoints lie on the straight segment between the original poses around them
    -- walk along the Cartesian part: a waypoint that carries the flag of the next original pose and reproduces it
    -- advances to the next segment; interpolated waypoints in between must lie on the current segment; waypoints of an
    -- RRT re-planning (they carry the flag of the pose they lead to but are joint-space relocations) are not Cartesian
    let rec onSeg : List WP → Option (Iso Float) → List (Iso Float × Nat) → Bool
      | [], _, _ => true
      | w :: rest, prev, remaining =>
        match remaining with
        | (pose, fl) :: more =>
          if hasFlag w.flags fl && fkOk w pose then onSeg rest (some pose) more
          else if hasFlag w.flags flagLinInterp then
            match prev with
            | some a =>
              -- distance from the tool point to the closed segment [a, b]; the waypoint reproduces its pose within
              -- 1 µm / 1 µrad at the flange, a tool lever adds lever·1 µrad
              let p := (forwardC k w.joints).t
              let ab := pose.t.sub a.t
              let l2 := ab.normSq
              let t0 := if l2 > 0.0 then (V3.dot (p.sub a.t) ab) / l2 else 0.0
              let tpar := if t0 < 0.0 then 0.0 else if t0 > 1.0 then 1.0 else t0
              let foot := a.t.add (ab.scale tpar)
              ((p.sub foot).norm ≤ 2e-6 + 1e-6 * toolLever k) && onSeg rest prev remaining
            | none => onSeg rest prev remaining
          else onSeg rest prev remaining
        | [] => true
    preds := preds ++ [P "C12.on_segment" (onSeg cart none wantOrig, "a Cartesian waypoint is off the straight segment between the poses it interpolates")]
    -- the Cartesian part recomputed by the model from the strategy (no RRT fallback): exact tie + cost bound
    let mut corrOk := true
    let mut tags := [s!"n={wps.length}", s!"pool={pool}", "ok"]
    match cart.head? with
    | some w0 =>
      let ik := fun (pose : Iso Float) (prev : J6 Float) => k.inverseContinuing pose prev
      match cartesianTrace cfg ik 0.5 (fun _ _ => none) poses [⟨w0.joints, flagLand⟩] with
      | some tr =>
        let tr' := if incl then tr else tr.filter (fun s => !(hasFlag s.flags flagLinInterp))
        corrOk := closeList2 (fun (w : WP) (m : AJoints Float) => w.flags == m.flags && closeJ6 tolC w.joints m.joints) cart tr'
        if incl then
          let rec costOk : List WP → Bool
            | a :: b :: rest => (transitionCosts a.joints b.joints coeff ≤ maxCost + 1e-9) && costOk (b :: rest)
            | _ => true
          preds := preds ++ [P "C12.transition_cost" (costOk cart, s!"consecutive Cartesian waypoints differ by more than the configured cost {maxCost}")]
        tags := tags ++ ["no-rrt-fallback"]
      | none => tags := tags ++ ["rrt-fallback"]
    | none => pure ()
    pure { corr := if corrOk then "OK" else "MISMATCH", detail := if corrOk then "" else "the Cartesian part of the plan differs from the model's recomputation from the landing solution",
           preds := preds, tags := tags }

/-- `plan_sched => #first #n outcomes…` -/
def opPlanSched : RM Res := do
  let free ← rB     -- no obstacles: no random re-planning is needed (the premise of the scheduling clause)
  expect "=>"
  let first ← rB
  let os ← rList rB
  let preds := if free then [P "C12.schedule" (os.all (· == first), s!"success of planning varies with the pool size / repetition: first {first}, others {os}")] else []
  pure { corr := "OK", preds := preds, tags := ["n=1", s!"varies={!(os.all (· == first))}"] }

/-- `plan_exists exists => #n retries…` (emitted after a failed `plan`): `exists` = some landing branch plans on its own and
is reachable from the start by the RRT (each twice in a row); the retries are further `plan` calls on the same problem -/
def opPlanExists : RM Res := do
  let ex ← rB
  expect "=>"
  let os ← rList rB
  pure { corr := "OK",
         preds := [P "C12.finds_existing_branch" (!(ex && os.all (· == false)),
           "planning fails repeatedly although a collision-free continuous landing branch exists and is reachable from the start")],
         tags := ["n=1", s!"exists={ex}"] }

end Opw.Drv
