/-
  More driver handlers: two-result comparisons (C04 superset, C08 with/without limits, C02 closure),
  hook-level scalar helpers, singularity band, LinearAxis/Gantry.
-/
import OpwVerif.Drv.KinOps
namespace Opw.Drv
open Opw Opw.Proto

def l1 (a b : J6 Float) : Float :=
  (a.j1 - b.j1).abs + (a.j2 - b.j2).abs + (a.j3 - b.j3).abs + (a.j4 - b.j4).abs + (a.j5 - b.j5).abs + (a.j6 - b.j6).abs

/-- `invcs K pose prev => sols(inverse) sols(inverse_continuing)` -/
def opInvCS : RM Res := do
  let k ← rKin
  let pose ← rIso
  let prev ← rJ6
  let out ← rOut (do let a ← rList rJ6; let b ← rList rJ6; pure (a, b))
  match out with
  | none => pure (panicRes "inverse/inverse_continuing")
  | some (a, b) =>
    let ma := k.inverse pose
    let mb := k.inverseContinuing pose prev
    let ok := solsCloseOrdered a ma && (solsCloseOrdered b mb || solsCloseAsSets b mb)
    -- every solution plain inverse finds is still there (modulo whole turns)
    -- with limits: a solution counts only if it is inside them with a margin (the continuation re-normalises every
    -- angle near the previous one, a whole-turn shift rounds, and an arc a few ulp wide may then miss it)
    let robust := fun (s : J6 Float) => match k.constraints with
      | some c => robustCompliant c s
      | none => true
    let missing := a.find? (fun s => robust s && !(b.any (fun t => equivJ6 1e-9 s t)))
    let guard := k.core.p.dof != 5 && !hasPara k
    let preds := if guard then [("C04.superset", missing.isNone, match missing with
      | some s => s!"{showJ6 s} found by inverse but not by inverse_continuing"
      | none => "")] else []
    pure (mkRes ok s!"invcs: impl {a.length}/{b.length} model {ma.length}/{mb.length}" preds [s!"n={b.length}"])

/-- `cmp2 K #entry pose prev j6 => sols(with limits) sols(without)` -/
def opCmp2 : RM Res := do
  let k ← rKin
  let entry ← rN
  let pose ← rIso
  let prev ← rJ6
  let j6 ← rF
  let out ← rOut (do let a ← rList rJ6; let b ← rList rJ6; pure (a, b))
  match out with
  | none => pure (panicRes "inverse entry point")
  | some (a, b) =>
    -- the same stack without limits
    let rec strip : Kin Float → Kin Float
      | .opw kk => .opw ⟨kk.p, none⟩
      | .tool i t => .tool (strip i) t
      | .base i t => .base (strip i) t
      | .frame i t => .frame (strip i) t
      | .para i s d c => .para (strip i) s d c
      | .shape i c => .shape (strip i) c
    let k0 := strip k
    let call := fun (kk : Kin Float) => match entry with
      | 0 => kk.inverse pose | 1 => kk.inverseContinuing pose prev | 2 => kk.inverse5dof pose j6 | _ => kk.inverseContinuing5dof pose prev
    let ma := call k
    let mb := call k0
    let ok := (solsCloseOrdered a ma || solsCloseAsSets a ma) && (solsCloseOrdered b mb || solsCloseAsSets b mb)
    let mut preds : List (String × Bool × String) := []
    match k.constraints with
    | some c =>
      -- limits are applied to the inner (un-coupled) vector when a parallelogram is on top
      let rec inner : Kin Float → J6 Float → J6 Float
        | .para i s d cc, x => inner i (paraUncouple s d cc x)
        | .tool i _, x => inner i x
        | .base i _, x => inner i x
        | .frame i _, x => inner i x
        | .shape i _, x => inner i x
        | .opw _, x => x
      -- the un-coupled vector is recomputed here (one multiply-add, rounded): next to a sliver arc that may land an
      -- ulp outside, so with a parallelogram in the stack each arc is widened by 1e-9 (relative) on either side
      let nearOk := fun (x : J6 Float) =>
        (List.zip x.toList (List.zip c.centers.toList c.tolerances.toList)).all (fun (v, (ce, tol)) =>
          insideBounds v ce (tol + 1e-9 * (1.0 + v.abs)))
      let okc := fun (s : J6 Float) => if hasPara k then nearOk (inner k s) else c.compliant (inner k s)
      let surely := fun (s : J6 Float) => if hasPara k then robustCompliant c (inner k s) else c.compliant (inner k s)
      let badc := a.find? (fun s => !okc s)
      preds := preds ++ [("C08.compliant", badc.isNone, match badc with
        | some s => s!"non-compliant answer {showJ6 s}"
        | none => "")]
      -- sentinel previous changes the reference vector between the two runs: superset only otherwise
      -- (only the 6-DOF continuation: its recovered singular candidate depends on the reference; the 5-DOF one keeps
      -- the caller's J6 and the same J1..J5 whatever the reference is)
      -- (with a parallelogram on top a whole-turn shift of the driven joint changes the coupled one by s*2pi: skip)
      if !(prev.j1.isNaN && (entry == 1 || hasPara k)) then
        let lost := b.find? (fun s => surely s && !(a.any (fun t => equivJ6 1e-9 s t)))
        preds := preds ++ [("C08.superset", lost.isNone, match lost with
          | some s => s!"compliant solution {showJ6 s} of the unconstrained query is not returned with limits"
          | none => "")]
    | none => pure ()
    pure (mkRes ok s!"cmp2 entry {entry}: impl {a.length}/{b.length} model {ma.length}/{mb.length}" preds [s!"n={a.length}", s!"entry={entry}"])

def twin (s : J6 Float) : J6 Float := { s with j4 := s.j4 + piF, j5 := -s.j5, j6 := s.j6 - piF }

/-- `invcl K q => pose sols #m counts…` -/
def opInvCl : RM Res := do
  let k ← rKin
  let q ← rJ6
  let out ← rOut (do let p ← rIso; let s ← rList rJ6; let c ← rList rN; pure (p, s, c))
  match out with
  | none => pure (panicRes "inverse")
  | some (pose, sols, counts) =>
    let mpose := k.forward q
    let ms := k.inverse pose
    let ok := closeIso tolC pose mpose && solsCloseOrdered sols ms
    let p := k.core.p
    let (m5, m3, m1) := thetaMargins p q
    let mut preds : List (String × Bool × String) := []
    if m5 > 1e-3 && m3 > 1e-3 && m1 > 1e-3 then
      preds := preds ++ [("C02.complete", sols.any (fun s => equivJ6 1e-6 s q), s!"{showJ6 q} not among {sols.length} answers")]
      -- wrist-flipped twin (in θ-space the flip is (θ4+π, −θ5, θ6−π); map through signs/offsets)
      let twinOf := fun (s : J6 Float) => jointsOf p (twin (thetaOf p s))
      let lone := sols.find? (fun s => !(sols.any (fun t => equivJ6 1e-6 t (twinOf s))))
      preds := preds ++ [("C02.twin", lone.isNone, match lone with
        | some s => s!"no wrist-flipped twin of {showJ6 s}"
        | none => "")]
      let rec dup : List (J6 Float) → Bool
        | [] => false
        | x :: xs => xs.any (fun y => equivJ6 1e-9 x y) || dup xs
      preds := preds ++ [("C02.distinct", !(dup sols), "duplicate answers")]
      preds := preds ++ [("C02.same_count", counts.all (fun c => c == sols.length), s!"counts {counts} vs {sols.length}")]
    pure (mkRes ok s!"invcl: impl {sols.length} answers model {ms.length}" preds [s!"n={sols.length}"])

def opHNorm : RM Res := do
  let now ← rF; let prev ← rF
  expect "=>"
  let r ← rF
  let m := normalizeNear now prev
  let ok := r.toBits == m.toBits || (r == m) || (r.isNaN && m.isNaN)
  let mut preds : List (String × Bool × String) := []
  -- two passes of the adjustment reach the nearest representative whenever the two angles are at most 5π apart
  -- (`normalizeNear_nearest_wide`): an answer in [-π, π] against a reference up to 4π away (centres of wrapping limits)
  if (now.abs ≤ piF && prev.abs ≤ 2.0 * piF) || (now - prev).abs ≤ 5.0 * piF - 1e-9 then
    preds := preds ++ [("C04.h_nearest", (r - prev).abs ≤ piF + 1e-12 && angEquiv 1e-12 r now, s!"normalize_near({now},{prev}) = {r}")]
  pure (mkRes ok s!"normalize_near({now},{prev}): impl {r} model {m}" preds)

def opHClose : RM Res := do
  let a ← rF; let b ← rF
  expect "=>"
  let r ← rB
  let m := areAnglesClose a b
  pure (mkRes (r == m) s!"are_angles_close({a},{b}): impl {r} model {m}" [])

def opHMpi : RM Res := do
  let v ← rF; let thr ← rF
  expect "=>"
  let r ← rB
  let m := isCloseToMultipleOfPi v thr
  -- oracle: distance of v to the nearest multiple of π
  let d := F.fmod v.abs piF
  let dist := if d > piF / 2.0 then piF - d else d
  let clear := (dist - thr).abs > thr * 1e-7
  let preds := if clear && thr > 0.0 && v.isFinite then
      [("C05.h_band", r == (dist < thr), s!"is_close_to_multiple_of_pi({v}) = {r}, distance to k*pi = {dist}, thr = {thr}")]
    else []
  pure (mkRes (r == m) s!"is_close_to_multiple_of_pi({v},{thr}): impl {r} model {m}" preds)

def opHDist : RM Res := do
  let a ← rJ6; let b ← rJ6
  expect "=>"
  let r ← rF
  let m := calculateDistance a b
  pure (mkRes (close 1e-12 r m) s!"calculate_distance: impl {r} model {m}" [])

def opHCmp : RM Res := do
  let a ← rIso; let b ← rIso; let dt ← rF; let at_ ← rF
  expect "=>"
  let r ← rB
  let m := comparePoses a b dt at_
  pure (mkRes (r == m) s!"compare_poses: impl {r} model {m}" [])

/-- `sing K q => #b` with the geometric oracle: joint-4 and joint-6 axes collinear within the band -/
def opSing2 : RM Res := do
  let k ← rKin
  let q ← rJ6
  let out ← rOut rB
  match out with
  | none => pure (panicRes "kinematic_singularity")
  | some b =>
    let m := k.singularity q
    let rec innerQ : Kin Float → J6 Float → J6 Float
      | .para i _ _ _, x => innerQ i x   -- the library passes the vector through unchanged
      | .tool i _, x => innerQ i x
      | .base i _, x => innerQ i x
      | .frame i _, x => innerQ i x
      | .shape i _, x => innerQ i x
      | .opw _, x => x
    let qq := innerQ k q
    let ls := chain k.core.p qq
    let a4 := zAxis (ls.getD 3 default)
    let a6 := zAxis (ls.getD 5 default)
    let s := (V3.cross a4 a6).norm          -- |sin θ5|
    let ang := Float.asin (if s > 1.0 then 1.0 else s)
    let thr : Float := singThr
    let clear := (ang - thr).abs > thr * 1e-5 + 1e-12
    let preds := if clear && qq.allFinite && !hasPara k then
        [("C05.band", b == (ang < thr), s!"reported {b}, angle between joint-4 and joint-6 axes {ang}, band {thr}, q={showJ6 q}")]
      else []
    pure (mkRes (b == m) s!"kinematic_singularity impl {b} model {m} at {showJ6 q}" preds)

/-- `lin K #axis base dist q => iso | panic` -/
def opLin : RM Res := do
  let k ← rKin
  let axis ← rN
  let base ← rIso
  let dist ← rF
  let q ← rJ6
  let out ← rOut rIso
  let m := linearAxisForward k axis base dist q
  match out, m with
  | none, none => pure (mkRes true "" [] ["panic-as-modelled"])
  | some r, some mm =>
    let ref := (base.mul (Iso.ofTranslation (match axis with | 0 => ⟨dist, 0.0, 0.0⟩ | 1 => ⟨0.0, dist, 0.0⟩ | _ => ⟨0.0, 0.0, dist⟩))).mul (forwardC k q)
    pure (mkRes (closeIso tolC r mm) s!"LinearAxis.forward impl {showIso r} model {showIso mm}" [("C09.linear_axis", closeIso tolC r ref, "not base*translate*robot")])
  | none, some _ => pure (mkRes false "LinearAxis.forward panicked on a valid axis" [("C09.linear_axis", false, "panic")])
  | some _, none => pure (mkRes false "LinearAxis.forward returned for an invalid axis (model: panic)" [])

/-- `gantry K base tr q => iso` -/
def opGantry : RM Res := do
  let k ← rKin
  let base ← rIso
  let tr ← rV3
  let q ← rJ6
  let out ← rOut rIso
  match out with
  | none => pure (panicRes "Gantry.forward")
  | some r =>
    let mm := gantryForward k base tr q
    let ref := (base.mul (Iso.ofTranslation tr)).mul (forwardC k q)
    pure (mkRes (closeIso tolC r mm) s!"Gantry.forward impl {showIso r} model {showIso mm}" [("C09.gantry", closeIso tolC r ref, "not base*translate*robot")])

end Opw.Drv
