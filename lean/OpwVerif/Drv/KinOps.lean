/-
  Driver handlers for the `Kinematics` entry points: correspondence (model vs implementation)
  and the property predicates evaluated on the implementation's output.
-/
import OpwVerif.Proto
namespace Opw.Drv
open Opw Opw.Proto

def tolC : Float := 1e-9      -- correspondence tolerance
def dT : Float := (distTol : Float)
def aT : Float := (angTol : Float)
def piF : Float := (OpwNum.pi : Float)

/-- chain-based forward kinematics through a stack: the "independent forward model" -/
def forwardC : Kin Float → J6 Float → Iso Float
  | .opw k, q => (chain k.p q).getD 5 default
  | .tool i t, q => (forwardC i q).mul t
  | .base i b, q => b.mul (forwardC i q)
  | .frame i f, q => (forwardC i q).mul f
  | .para i s d c, q => forwardC i (paraUncouple s d c q)
  | .shape i _, q => forwardC i q

/-- accumulated lever of tools/frames: how much an angular error of the flange is amplified -/
def toolLever : Kin Float → Float
  | .opw _ => 0.0
  | .tool i t => toolLever i + t.t.norm
  | .base i _ => toolLever i
  | .frame i f => toolLever i + f.t.norm
  | .para i _ _ _ => toolLever i
  | .shape i _ => toolLever i

def axialIso (t : Iso Float) : Bool := t.t.x == 0.0 && t.t.y == 0.0 && t.q.i == 0.0 && t.q.j == 0.0

/-- all tools/frames of the stack lie on the flange axis (what the 5-DOF variants presuppose) -/
def axialStack : Kin Float → Bool
  | .opw _ => true
  | .tool i t => axialStack i && axialIso t
  | .base i _ => axialStack i
  | .frame i f => axialStack i && axialIso f
  | .para i _ _ _ => axialStack i
  | .shape i _ => axialStack i

/-- the pose the core solver is asked for (wrappers stripped) -/
def Kin.localPoseF : Kin Float → Iso Float → Iso Float
  | .opw _, pose => pose
  | .tool i t, pose => Kin.localPoseF i (pose.mul t.inv)
  | .base i b, pose => Kin.localPoseF i (b.inv.mul pose)
  | .frame i f, pose => Kin.localPoseF i (pose.mul f.inv)
  | .para i _ _ _, pose => Kin.localPoseF i pose
  | .shape i _, pose => Kin.localPoseF i pose

def isBare : Kin Float → Bool
  | .opw _ => true
  | _ => false

def hasPara : Kin Float → Bool
  | .opw _ => false
  | .tool i _ => hasPara i
  | .base i _ => hasPara i
  | .frame i _ => hasPara i
  | .para _ _ _ _ => true
  | .shape i _ => hasPara i

def posErr (a b : Iso Float) : Float := (a.t.sub b.t).norm
def angErr (a b : Iso Float) : Float := Quat.angleTo a.q b.q
def zAxis (a : Iso Float) : V3 Float := a.q.rotate V3.ez
def axisErr (a b : Iso Float) : Float :=
  let c := V3.cross (zAxis a) (zAxis b)
  Float.atan2 c.norm (V3.dot (zAxis a) (zAxis b))

/-- oracle for C05's premise ("sensitivity of the arm to a 0.125 µm shift below the bound and no
second IK branch simultaneously singular"): among the answers of the pose shifted by the four
`SINGULARITY_SHIFTS`, wrist-singular ones exist, all lie on one arm branch (J1..J3), and their
|sin θ5| is small enough for the redistributed candidate to stay within the angular tolerance. -/
def singPremise (p : Params Float) (pose : Iso Float) : Bool :=
  let sing := (shifts : List (V3 Float)).flatMap (fun d =>
    let shifted : Iso Float := ⟨⟨pose.t.x + d.x, pose.t.y + d.y, pose.t.z + d.z⟩, pose.q⟩
    (inverseIntern p shifted).filter (kinematicSingularity p))
  match sing with
  | [] => false
  | s0 :: _ =>
    sing.all (fun s => angEquiv 1e-4 s.j1 s0.j1 && angEquiv 1e-4 s.j2 s0.j2 && angEquiv 1e-4 s.j3 s0.j3) &&
    sing.all (fun s => 2.0 * (Float.sin (thetaOf p s).j5).abs < 0.9e-6)

/-- premise "the vector is inside the limits", robust against the rounding of a recomputed answer: the vector and
its neighbours 1e-9 away on either side are accepted (a sliver arc narrower than that never satisfies it) -/
def robustCompliant (c : Constraints Float) (q : J6 Float) : Bool :=
  c.compliant q && c.compliant (q.map (· + 1e-9)) && c.compliant (q.map (· - 1e-9))

def rOut {α} (rd : RM α) : RM (Option α) := do
  expect "=>"
  match (← peek?) with
  | some "panic" => let _ ← next; pure none
  | _ => pure (some (← rd))

def rOrigin : RM (Option (J6 Float)) := do
  let n ← rN
  if n == 0 then pure none else pure (some (← rJ6))

def mkRes (ok : Bool) (detail : String) (preds : List (String × Bool × String)) (tags : List String := []) : Res :=
  { corr := if ok then "OK" else "MISMATCH", detail := if ok then "" else detail, preds := preds, tags := tags }

def panicRes (what : String) : Res :=
  { corr := "MISMATCH", detail := s!"implementation panicked in {what}", preds := [("nopanic", false, what)] }

def readIsos (n : Nat) : RM (List (Iso Float)) := do
  let mut acc : Array (Iso Float) := #[]
  for _ in [0:n] do acc := acc.push (← rIso)
  pure acc.toList

/-- `links K q => fwd link1..link6` -/
def opLinks : RM Res := do
  let k ← rKin
  let q ← rJ6
  let out ← rOut (do let f ← rIso; let ls ← readIsos 6; pure (f, ls))
  match out with
  | none => pure (panicRes "forward")
  | some (f, ls) =>
    let mf := k.forward q
    let ml := k.links q
    let qfin := q.allFinite
    let okF := closeIso tolC f mf
    let okL := closeList (closeIso tolC) ls ml
    let mut preds : List (String × Bool × String) := []
    if qfin then
      -- independent reference: product of the six elementary transforms
      let ref := forwardC k q
      preds := preds ++ [("C03.fwd_eq_chain_ref", closeIso tolC f ref, s!"fwd {showIso f} ref {showIso ref}")]
      preds := preds ++ [("C03.links_eq_ref", okL, "link poses differ from the reference chain")]
      -- unit rotations
      let unit := fun (i : Iso Float) => (i.q.normSq - 1.0).abs ≤ 1e-12
      preds := preds ++ [("C03.unit", (unit f) && ls.all unit, "non-unit rotation")]
      if isBare k then
        let l6 := ls.getD 5 default
        preds := preds ++ [("C03.fwd_eq_last_link", closeIso tolC f l6, s!"fwd {showIso f} link6 {showIso l6}")]
        let p := k.core.p
        let o := fun (i : Nat) => (ls.getD i default).t
        let dist := fun (i j : Nat) => ((o i).sub (o j)).norm
        let want : List Float := [Float.sqrt (p.a1 * p.a1 + p.b * p.b), p.c2.abs, p.a2.abs, p.c3.abs, p.c4.abs]
        let got : List Float := [dist 1 0, dist 2 1, dist 3 2, dist 4 3, dist 5 4]
        let okO := closeList (close tolC) got want && closeV3 tolC (o 0) ⟨0.0, 0.0, p.c1⟩
        preds := preds ++ [("C03.offsets", okO, s!"origin gaps {got} expected {want}")]
    pure (mkRes (okF && okL) s!"forward/links differ: impl fwd {showIso f} model {showIso mf}" preds)

/-- `linksp K q q' #i => links(q) links(q')`: q and q' agree on joints 0..i -/
def opLinksP : RM Res := do
  let k ← rKin
  let q ← rJ6
  let q' ← rJ6
  let i ← rN
  let out ← rOut (do let a ← readIsos 6; let b ← readIsos 6; pure (a, b))
  match out with
  | none => pure (panicRes "forward_with_joint_poses")
  | some (a, b) =>
    let ma := k.links q
    let mb := k.links q'
    let ok := closeList (closeIso tolC) a ma && closeList (closeIso tolC) b mb
    let same := closeList (fun (x y : Iso Float) => closeV3 0.0 x.t y.t && closeQuatComp 0.0 x.q y.q) (a.take (i + 1)) (b.take (i + 1))
    pure (mkRes ok "link poses differ from model" [("C03.prefix", same, s!"links 0..{i} differ although joints 0..{i} agree")])

/-- which entry point -/
inductive Entry | inv | invc | inv5 | invc5
deriving BEq

def Entry.name : Entry → String
  | .inv => "inverse" | .invc => "inverse_continuing" | .inv5 => "inverse_5dof" | .invc5 => "inverse_continuing_5dof"

def solsCloseOrdered (a b : List (J6 Float)) : Bool := closeList (closeJ6 tolC) a b

/-- every element of `a` has a close partner in `b` and vice versa -/
def solsCloseAsSets (a b : List (J6 Float)) : Bool :=
  a.length == b.length && a.all (fun x => b.any (closeJ6 tolC x)) && b.all (fun x => a.any (closeJ6 tolC x))

/-- cost used by `sort_by_closeness`, recomputed for the predicate -/
def costOf (k : Kin Float) (prev : J6 Float) (s : J6 Float) : Float :=
  k.core.sortCost (k.core.reference prev) s

def pairwiseNondecreasing : List Float → Bool
  | a :: b :: rest => (a ≤ b + 1e-12 || a.isNaN || b.isNaN) && pairwiseNondecreasing (b :: rest)
  | _ => true

/-- the unique 2π-representative nearest to `prev` is within π (+slack) -/
def nearestRep (s prev : J6 Float) : Bool :=
  let ok := fun (a b : Float) => !(a.isFinite && b.isFinite) || (a - b).abs ≤ piF + 1e-9
  ok s.j1 prev.j1 && ok s.j2 prev.j2 && ok s.j3 prev.j3 && ok s.j4 prev.j4 && ok s.j5 prev.j5 && ok s.j6 prev.j6

def inRange (s : J6 Float) : Bool :=
  s.toList.all (fun x => x.abs ≤ piF)

def thetaMargins (p : Params Float) (q : J6 Float) : Float × Float × Float :=
  -- (|sin θ5|, |sin(θ3 + ψ3)|, wrist-centre distance from the J1 axis measure |cx1|)
  let th := thetaOf p q
  let psi3 := Float.atan2 p.a2 p.c3
  let kk := Float.sqrt (p.a2 * p.a2 + p.c3 * p.c3)
  let cx1 := p.c2 * Float.sin th.j2 + kk * Float.sin (th.j2 + th.j3 + psi3) + p.a1
  ((Float.sin th.j5).abs, (Float.sin (th.j3 + psi3)).abs, cx1.abs)

/-- shared handler of the four inverse entry points -/
def opInverse (e : Entry) : RM Res := do
  let k ← rKin
  let pose ← rIso
  let prev : J6 Float ← (if e == .invc || e == .invc5 then rJ6 else pure default)
  let j6 : Float ← (if e == .inv5 then rF else pure 0.0)
  let org ← rOrigin
  let out ← rOut (rList rJ6)
  match out with
  | none => pure (panicRes e.name)
  | some sols =>
    let model := match e with
      | .inv => k.inverse pose
      | .invc => k.inverseContinuing pose prev
      | .inv5 => k.inverse5dof pose j6
      | .invc5 => k.inverseContinuing5dof pose prev
    let okOrd := solsCloseOrdered sols model
    let okSet := solsCloseAsSets sols model
    -- a different order among solutions of (nearly) equal cost is not a disagreement
    let ok := okOrd || (okSet && (e == .invc || e == .invc5) &&
                pairwiseNondecreasing (sols.map (costOf k prev)))
    let five := e == .inv5 || e == .invc5 || k.core.p.dof == 5
    let lever := toolLever k
    let mut preds : List (String × Bool × String) := []
    -- C01: finite, reproduces the pose through the independent forward model
    let finOk := sols.all (fun s => if five then s.first5Finite else s.allFinite)
    preds := preds ++ [("C01.finite", finOk, "non-finite joint value returned")]
    let slackP := dT + aT * lever + 1e-9
    let bad := sols.find? (fun s =>
      let f := forwardC k s
      if five then axialStack k && !(posErr pose f ≤ slackP)
      else !(posErr pose f ≤ slackP) || !((angErr pose f).abs ≤ aT + 1e-9))
    preds := preds ++ [("C01.fk", bad.isNone, match bad with
      | some s => s!"solution {showJ6 s} maps to {showIso (forwardC k s)} requested {showIso pose}"
      | none => "")]
    if e == .inv && !hasPara k && k.core.p.dof != 5 then
      preds := preds ++ [("C01.range", sols.all inRange, "plain inverse angle outside [-pi, pi]")]
    if !pose.allFinite then
      preds := preds ++ [("C01.nonfinite_pose_empty", sols.isEmpty, "answers for a non-finite pose")]
    -- C08: every answer compliant with the limits the stack reports
    match k.constraints with
    | some c =>
      if !hasPara k then
        let badc := sols.find? (fun s => !c.compliant s)
        preds := preds ++ [("C08.compliant", badc.isNone, match badc with
          | some s => s!"non-compliant answer {showJ6 s}"
          | none => "")]
    | none => pure ()
    -- C04: continuation contracts
    if (e == .invc || e == .invc5) && !hasPara k then
      let refv := k.core.reference prev
      if refv.allFinite && refv.toList.all (fun x => x.abs ≤ 4.0 * piF - 1e-9) then
        let solsN := if e == .invc5 then sols.map (fun s => { s with j6 := refv.j6 }) else sols
        preds := preds ++ [("C04.nearest", solsN.all (fun s => nearestRep s refv), "angle not the nearest representative")]
      if refv.allFinite then
        preds := preds ++ [("C04.sorted", pairwiseNondecreasing (sols.map (costOf k prev)), s!"costs {sols.map (costOf k prev)}")]
    -- C06: J6 as requested
    if e == .inv5 then
      let coupled6 := hasPara k
      if !coupled6 then
        preds := preds ++ [("C06.j6", sols.all (fun s => s.j6.toBits == j6.toBits || (s.j6.isNaN && j6.isNaN)), "J6 differs from the argument")]
    -- a robot declared 5-DOF: plain `inverse` is `inverse_5dof(pose, 0.0)` -- joint 6 of every answer is 0
    if e == .inv && k.core.p.dof == 5 && !hasPara k then
      preds := preds ++ [("C06.j6", sols.all (fun s => s.j6 == 0.0), s!"5-DOF robot: plain inverse returned J6 {sols.map (·.j6)}, not 0")]
    let cont5 := e == .invc5 || (e == .invc && k.core.p.dof == 5)
    if cont5 && !hasPara k && !prev.j1.isNaN && prev.j6.isFinite then
      preds := preds ++ [("C06.j6", sols.all (fun s => s.j6.toBits == prev.j6.toBits), s!"J6 differs from previous J6: {sols.map (·.j6)}")]
    -- the CONSTRAINT_CENTERED sentinel [NaN,0,0,0,0,0]: the caller's J6 is 0, whatever the centre of the J6 limits
    if cont5 && !hasPara k && prev.j1.isNaN && prev.j6 == 0.0 &&
        (match k.constraints with | some c => c.centers.j6.abs < 3.0 | none => true) then
      preds := preds ++ [("C06.j6", sols.all (fun s => s.j6 == 0.0), s!"CONSTRAINT_CENTERED: J6 differs from the caller's 0: {sols.map (·.j6)}")]
    -- the position-only solvers answer every pose whose wrist centre the arm reaches (oracle: the planar two-link
    -- reachability condition of the OPW geometry, front-shoulder branch, with a margin)
    if (e == .inv5 || e == .invc5 || k.core.p.dof == 5) && !hasPara k && k.constraints.isNone && pose.allFinite &&
        (e == .inv5 || e == .inv || prev.allFinite || prev.j1.isNaN && prev.j6.isFinite) && (e != .inv5 || j6.isFinite) then
      let p := k.core.p
      let lp := Kin.localPoseF k pose
      let zv := lp.q.toMat.mulVec V3.ez
      let cx := lp.t.x - p.c4 * zv.x
      let cy := lp.t.y - p.c4 * zv.y
      let cz := lp.t.z - p.c4 * zv.z
      let rho2 := cx * cx + cy * cy - p.b * p.b
      let kappa := Float.sqrt (p.a2 * p.a2 + p.c3 * p.c3)
      if rho2 ≥ 0.0 && kappa > 1e-3 && p.c2.abs > 1e-3 then
        let nx1 := Float.sqrt rho2 - p.a1
        let s1 := Float.sqrt (nx1 * nx1 + (cz - p.c1) * (cz - p.c1))
        let lo := (p.c2.abs - kappa).abs
        let hi := p.c2.abs + kappa
        if s1 ≥ lo + 1e-4 && s1 ≤ hi - 1e-4 then
          preds := preds ++ [("C06.reachable_nonempty", !sols.isEmpty, s!"no answer although the arm reaches the wrist centre ({cx}, {cy}, {cz}): |c2|-kappa = {lo} <= {s1} <= {hi}")]
    if five && !hasPara k && axialStack k then
      -- tool point and tool axis exact (C06)
      let badp := sols.find? (fun s => !(posErr pose (forwardC k s) ≤ slackP))
      preds := preds ++ [("C06.point", badp.isNone, "tool point off")]
      let bada := sols.find? (fun s => !(axisErr pose (forwardC k s) ≤ aT + 1e-9))
      preds := preds ++ [("C06.axis", bada.isNone, match bada with
        | some s => s!"tool axis off by {axisErr pose (forwardC k s)} for {showJ6 s}"
        | none => "")]
    -- origin-based predicates (C02 completeness, C04 prev-first, C06 originating joints)
    match org with
    | some q =>
      let p := k.core.p
      let (m5, m3, m1) := thetaMargins p q
      let nonsing := m5 > 1e-3 && m3 > 1e-3 && m1 > 1e-3 && q.allFinite
      -- the vector that has to come back: for the 5-DOF variants joint 6 carries the caller's value
      let j6req : Float := match e with
        | .inv5 => j6
        | .invc5 => prev.j6
        | .inv => if k.core.p.dof == 5 then 0.0 else q.j6
        | .invc => if k.core.p.dof == 5 then prev.j6 else q.j6
      let compliantQ := match k.constraints with
        | some c => robustCompliant c { q with j6 := j6req }
        | none => true
      let prevOk := !(e == .invc || e == .invc5) || prev.allFinite || prev.j1.isNaN && prev.j6.isFinite
      if nonsing && compliantQ && !hasPara k && pose.allFinite && prevOk && (!five || axialStack k) then
        if e == .inv || e == .invc then
          if p.dof != 5 then
            let found := sols.any (fun s => equivJ6 1e-6 s q)
            preds := preds ++ [("C02.complete", found, s!"originating joints {showJ6 q} not among {sols.length} answers")]
            -- away from the singularities the continuation adds nothing to the answer set: no vector twice
            if e == .invc then
              let rec dup : List (J6 Float) → Option (J6 Float)
                | [] => none
                | x :: rest => if rest.any (fun y => closeJ6 1e-9 x y) then some x else dup rest
              let d := dup sols
              preds := preds ++ [("C02.distinct_continuing", d.isNone, s!"answer {d.map showJ6} is returned twice by inverse_continuing ({sols.length} answers)")]
        else
          let found := sols.any (fun s => equivJ6 1e-6 { s with j6 := q.j6 } q)
          preds := preds ++ [("C06.origin", found, s!"originating J1..J5 {showJ6 q} not among {sols.length} answers")]
        if p.dof == 5 && (e == .inv || e == .invc) then
          preds := preds ++ [("C06.dof5_nonempty", !sols.isEmpty, "5-DOF robot returned nothing for a reachable pose")]
    | none => pure ()
    -- C04/C05: previous joints that realise the pose come back first
    if e == .invc && !hasPara k && k.core.p.dof != 5 && prev.allFinite then
      let p := k.core.p
      let realises := posErr pose (forwardC k prev) ≤ 1e-9 && (angErr pose (forwardC k prev)).abs ≤ 1e-9
      let (m5, m3, m1) := thetaMargins p prev
      let byPrevSort := match k.constraints with
        | some c => c.sortingWeight == 0.0 && robustCompliant c prev
        | none => true
      let inRange2 := prev.toList.all (fun x => x.abs ≤ 2.0 * piF)
      -- at the singularity J4 and J6 of the previous vector may be up to two whole turns beyond that
      let inRange4 := [prev.j1, prev.j2, prev.j3, prev.j5].all (fun x => x.abs ≤ 2.0 * piF) &&
        [prev.j4, prev.j6].all (fun x => x.abs ≤ 5.0 * piF)
      if realises && byPrevSort && (inRange2 || (inRange4 && m5 < 1e-12)) && m3 > 0.2 && m1 > 0.2 then
        if m5 > 0.2 then
          let first := sols.head?
          preds := preds ++ [("C04.prev_first", match first with
            | some s => closeJ6 1e-6 s prev
            | none => false, s!"previous {showJ6 prev} realises the pose but the first answer is {first.map showJ6}")]
        else if m5 < 1e-12 && (Float.sin ((thetaOf p prev).j5 / 2.0)).abs < 1e-6 &&
            singPremise p (Kin.localPoseF k pose) then
          -- exactly singular with θ5 = 0 (mod 2π): first answer equals previous (0.125 µm shift allowed for)
          let first := sols.head?
          preds := preds ++ [("C05.first_eq_prev", match first with
            | some s => closeJ6 2e-5 s prev
            | none => false, s!"singular pose realised by previous {showJ6 prev}, first answer {first.map showJ6}")]
    -- C04: a trajectory point close to the previous answer is tracked
    match org with
    | some q =>
      if e == .invc && !hasPara k && k.core.p.dof != 5 && prev.allFinite && q.allFinite then
        let p := k.core.p
        let (m5, m3, m1) := thetaMargins p q
        let byPrevSort := match k.constraints with
          | some c => c.sortingWeight == 0.0 && robustCompliant c q
          | none => true
        if byPrevSort && m5 > 0.25 && m3 > 0.25 && m1 > 0.25 &&
            ((prev.j1 - q.j1).abs + (prev.j2 - q.j2).abs + (prev.j3 - q.j3).abs + (prev.j4 - q.j4).abs + (prev.j5 - q.j5).abs + (prev.j6 - q.j6).abs) ≤ 0.1 &&
            q.toList.all (fun x => x.abs ≤ piF) then
          let first := sols.head?
          preds := preds ++ [("C04.track", match first with
            | some s => closeJ6 1e-6 s q
            | none => false, s!"trajectory point {showJ6 q} (previous {showJ6 prev}) not tracked: first answer {first.map showJ6}")]
        -- C05: singular pose (θ5 = 0), previous with another J4/J6 split: some answer moves J4 and J6 by the same amount
        if k.constraints.isNone && m5 < 1e-12 && m3 > 0.25 && m1 > 0.25 && (Float.sin ((thetaOf p q).j5 / 2.0)).abs < 1e-6 &&
            singPremise p (Kin.localPoseF k pose) then
          let good := sols.any (fun s =>
            ((s.j4 - prev.j4).abs - (s.j6 - prev.j6).abs).abs ≤ 1e-6 && posErr pose (forwardC k s) ≤ dT + 1e-9)
          preds := preds ++ [("C05.equal_shift", good, s!"no answer moves J4 and J6 by the same amount from previous {showJ6 prev}: {sols.map showJ6}")]
      -- the same with the CONSTRAINT_CENTERED sentinel: "previous" are the centres of the limits; the limits are wide
      -- enough around the originating joints for the redistributed answer to be compliant
      if e == .invc && !hasPara k && k.core.p.dof != 5 && prev.j1.isNaN && q.allFinite &&
          [prev.j2, prev.j3, prev.j4, prev.j5, prev.j6].all (fun x => x == 0.0) then
        match k.constraints with
        | some c =>
          let p := k.core.p
          let (m5, m3, m1) := thetaMargins p q
          let wide := (List.zip q.toList (List.zip c.centers.toList c.tolerances.toList)).all
            (fun (x, (ce, tol)) => (x - ce).abs ≤ 0.31 && tol ≥ 0.5 && tol ≤ 3.0)
          if wide && m5 < 1e-12 && m3 > 0.25 && m1 > 0.25 && (Float.sin ((thetaOf p q).j5 / 2.0)).abs < 1e-6 &&
              singPremise p (Kin.localPoseF k pose) then
            let good := sols.any (fun s =>
              ((s.j4 - c.centers.j4).abs - (s.j6 - c.centers.j6).abs).abs ≤ 1e-6 && posErr pose (forwardC k s) ≤ dT + 1e-9)
            preds := preds ++ [("C05.equal_shift", good, s!"CONSTRAINT_CENTERED: no answer moves J4 and J6 by the same amount from the centres {showJ6 c.centers}: {sols.map showJ6}")]
        | none => pure ()
    | none => pure ()
    let tags := [s!"n={sols.length}", s!"entry={e.name}"]
    pure { corr := if ok then "OK" else "MISMATCH",
           detail := if ok then "" else s!"{e.name}: impl {sols.map showJ6} model {model.map showJ6}",
           preds := preds, tags := tags }

/-- `sing K q => #b` -/
def opSing : RM Res := do
  let k ← rKin
  let q ← rJ6
  let out ← rOut rB
  match out with
  | none => pure (panicRes "kinematic_singularity")
  | some b =>
    let m := k.singularity q
    pure (mkRes (b == m) s!"kinematic_singularity impl {b} model {m} at {showJ6 q}" [])

/-- `cons_of K => #0 | #1 from to centers tolerances weight` -/
def opConsOf : RM Res := do
  let k ← rKin
  expect "=>"
  let n ← rN
  if n == 0 then
    pure (mkRes k.constraints.isNone "constraints(): impl None, model Some" [("C08.wrapper_constraints", k.constraints.isNone, "")])
  else
    let f ← rJ6; let t ← rJ6; let c ← rJ6; let tl ← rJ6; let w ← rF
    match k.constraints with
    | none => pure (mkRes false "constraints(): impl Some, model None" [("C08.wrapper_constraints", false, "")])
    | some mc =>
      let ok := bitEqJ6 f mc.from_ && bitEqJ6 t mc.to && closeJ6 0.0 c mc.centers && closeJ6 0.0 tl mc.tolerances && close 0.0 w mc.sortingWeight
      -- the limits a wrapper reports are those of the robot it wraps
      let coreC := k.core.cons
      let same := match coreC with
        | some cc => bitEqJ6 f cc.from_ && bitEqJ6 t cc.to
        | none => false
      pure (mkRes ok s!"constraints() differ: impl centers {showJ6 c} tol {showJ6 tl} model {showJ6 mc.centers} {showJ6 mc.tolerances}"
        [("C08.wrapper_constraints", same, "wrapper reports other limits than its core"),
         -- the sorting weight is a pure number: whatever constructor built the object, it is the requested one
         ("C04.weight_kept", (match coreC with | some cc => w == cc.sortingWeight | none => false),
            s!"sorting weight {w} is not the requested {coreC.map (·.sortingWeight)}")])

/-- hook level: `h_iki K pose => sols`, `h_iki5 K pose j6 => sols` -/
def opHIki (five : Bool) : RM Res := do
  let k ← rKin
  let pose ← rIso
  let j6 : Float ← (if five then rF else pure 0.0)
  let out ← rOut (rList rJ6)
  match out with
  | none => pure (panicRes "inverse_intern")
  | some sols =>
    let p := k.core.p
    let model := if five then inverseIntern5 p pose j6 else inverseIntern p pose
    let ok := solsCloseOrdered sols model
    pure (mkRes ok s!"inverse_intern: impl {sols.map showJ6} model {model.map showJ6}" [] [s!"n={sols.length}"])

end Opw.Drv
