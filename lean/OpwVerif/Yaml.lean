/-
  Model of `parameters_from_file.rs` (`Parameters::from_yaml_file`) at the level of the YAML tree
  that `yaml-rust2` hands to the code, and of `Parameters::to_yaml` at the same level.
  Text ↔ tree (the YAML lexer) and decimal text ↔ `f64` (Rust's float parser/printer) are the
  libraries; they enter through the parse results attached to scalar leaves.  No Mathlib import.
-/
import OpwVerif.Kin
namespace Opw
variable {R : Type} [OpwNum R]

/-- `yaml_rust2::Yaml` as the code sees it.  `real` carries the scalar text with the results of the two
parsers applied to it (`Yaml::as_f64`, i.e. yaml-rust2's `parse_f64`, and Rust's `str::parse::<f64>`);
`str` carries the text with `str::parse::<f64>` of the whole text and of the trimmed inside of
`deg(...)` when the text has that shape. -/
inductive Yaml (R : Type) where
  | int (i : Int)
  | real (text : String) (asF64 : Option R) (rustParse : Option R)
  | str (text : String) (rustParse : Option R) (degInner : Option (Option R))
  | arr (l : List (Yaml R))
  | hash (l : List (Yaml R × Yaml R))
  | other            -- Null, Boolean, Alias, BadValue

inductive YamlErr where
  | parse
  | missing (field : String)
  | invalidLength (found : Nat)
deriving BEq, Repr, DecidableEq

def Yaml.isStr : Yaml R → String → Bool
  | .str t _ _, k => t == k
  | _, _ => false

/-- `doc["key"]`: value under the string key, `BadValue` if absent or if the node is not a hash -/
def Yaml.get (y : Yaml R) (k : String) : Yaml R :=
  match y with
  | .hash l => match l.find? (fun e => e.1.isStr k) with
    | some e => e.2
    | none => .other
  | _ => .other

def Yaml.asI64 : Yaml R → Option Int
  | .int i => some i
  | _ => none

/-- `as_number` of the repaired reader: reals and integers -/
def Yaml.asNumber (ofInt : Int → R) : Yaml R → Option R
  | .real _ v _ => v
  | .int i => some (ofInt i)
  | _ => none

def Yaml.asVec : Yaml R → Option (List (Yaml R))
  | .arr l => some l
  | _ => none

/-- `x as i8` for an `i64` (two's-complement truncation) -/
def toI8 (i : Int) : Int :=
  let m := i % 256
  if m ≥ 128 then m - 256 else m

def listToJ6 : List R → Option (J6 R)
  | [a, b, c, d, e, f] => some ⟨a, b, c, d, e, f⟩
  | _ => none

/-- `read_sign_corrections` (values as `i8`, returned as integers) -/
def readSigns (y : Yaml R) : Except YamlErr (List Int) :=
  let items : List (Yaml R) := (y.asVec).getD (List.replicate 6 (.int 1))
  let v := items.map (fun it => toI8 ((it.asI64).getD 0))
  let v := if v.length == 5 then v ++ [0] else v
  if v.length != 6 then .error (.invalidLength v.length) else .ok v

/-- `parse_degrees` on a string scalar -/
def parseDegrees : Yaml R → Except YamlErr R
  | .str _ whole inner =>
    match inner with
    | some (some d) => .ok (toRadians d)
    | some none => .error .parse
    | none => match whole with
      | some v => .ok v
      | none => .error .parse
  | _ => .error .parse

/-- `read_offsets` -/
def readOffsets (ofInt : Int → R) (y : Yaml R) : Except YamlErr (List R) :=
  let items : List (Yaml R) := (y.asVec).getD (List.replicate 6 (.int 0))
  let rec go : List (Yaml R) → Except YamlErr (List R)
    | [] => .ok []
    | it :: rest =>
      let v : Except YamlErr R := match it with
        | .str _ _ _ => parseDegrees it
        | .real _ _ rp => (match rp with | some x => .ok x | none => .error .parse)
        | .int i => .ok (ofInt i)
        | _ => .ok 0
      match v with
      | .error e => .error e
      | .ok x => match go rest with
        | .error e => .error e
        | .ok xs => .ok (x :: xs)
  match go items with
  | .error e => .error e
  | .ok v =>
    let v := if v.length == 5 then v ++ [0] else v
    if v.length != 6 then .error (.invalidLength v.length) else .ok v

/-- what the reader returns: geometry, offsets, sign corrections (as integers), dof -/
structure YParams (R : Type) where
  a1 : R
  a2 : R
  b : R
  c1 : R
  c2 : R
  c3 : R
  c4 : R
  offsets : List R
  signs : List Int
  dof : Int

/-- `Parameters::from_yaml_file` after the file has been read and lexed into documents;
`loaded = false` models a lexer error (`ParseError`) -/
def fromYamlDocs (ofInt : Int → R) (loaded : Bool) (docs : List (Yaml R)) : Except YamlErr (YParams R) :=
  if !loaded then .error .parse
  else match docs with
  | [] => .error .parse
  | doc :: _ =>
    let params := doc.get "opw_kinematics_geometric_parameters"
    let dof := toI8 (((doc.get "dof").asI64.orElse (fun _ => (params.get "dof").asI64)).getD 6)
    match readSigns (doc.get "opw_kinematics_joint_sign_corrections") with
    | .error e => .error e
    | .ok signs0 =>
      let signs := if dof == 5 then (signs0.take 5) ++ [0] else signs0
      let num := fun (k : String) => (params.get k).asNumber ofInt
      match num "a1" with
      | none => .error (.missing "a1")
      | some a1 => match num "a2" with
      | none => .error (.missing "a2")
      | some a2 => match num "b" with
      | none => .error (.missing "b")
      | some b => match num "c1" with
      | none => .error (.missing "c1")
      | some c1 => match num "c2" with
      | none => .error (.missing "c2")
      | some c2 => match num "c3" with
      | none => .error (.missing "c3")
      | some c3 => match num "c4" with
      | none => .error (.missing "c4")
      | some c4 =>
        match readOffsets ofInt (doc.get "opw_kinematics_joint_offsets") with
        | .error e => .error e
        | .ok offs => .ok ⟨a1, a2, b, c1, c2, c3, c4, offs, signs, dof⟩

/-! ### the writer at tree level -/

/-- tree that `yaml-rust2` yields for what `to_yaml` prints, given the leaves for the seven lengths
and the six offsets (what the printed number lexes to) -/
def toYamlTree (leafLen : R → Yaml R) (leafOff : R → Yaml R) (p : Params R) (signs : List Int) : Yaml R :=
  let k := fun (s : String) => (Yaml.str s none none : Yaml R)
  .hash [
    (k "opw_kinematics_geometric_parameters", .hash [
      (k "a1", leafLen p.a1), (k "a2", leafLen p.a2), (k "b", leafLen p.b), (k "c1", leafLen p.c1),
      (k "c2", leafLen p.c2), (k "c3", leafLen p.c3), (k "c4", leafLen p.c4)]),
    (k "opw_kinematics_joint_offsets", .arr (p.offsets.toList.map leafOff)),
    (k "opw_kinematics_joint_sign_corrections", .arr (signs.map (fun s => .int s))),
    (k "dof", .int p.dof)]

end Opw
