/-
  Model of the wrappers that implement `Kinematics` around another `Kinematics`:
  `tool.rs` (Tool, Base, LinearAxis, Gantry), `frame.rs` (Frame), `parallelogram.rs`,
  `kinematics_with_shape.rs` (collision filtering with the collision verdict as an oracle).
  "Any implementation of `Kinematics` built from the repository's own types" = any `Kin`.
-/
import OpwVerif.Kin
namespace Opw
variable {R : Type} [OpwNum R]

inductive Kin (R : Type) where
  | opw (k : Opw R)
  | tool (inner : Kin R) (t : Iso R)
  | base (inner : Kin R) (b : Iso R)
  | frame (inner : Kin R) (f : Iso R)
  | para (inner : Kin R) (scaling : R) (driven coupled : Nat)
  /-- `KinematicsWithShape`: `collides` is the verdict of `RobotBody::collides` for this robot -/
  | shape (inner : Kin R) (collides : J6 R → Bool)

/-- `x[coupled] += scaling * x[driven]` -/
def paraCouple (s : R) (driven coupled : Nat) (x : J6 R) : J6 R :=
  x.set coupled (x.get coupled + s * x.get driven)
/-- `x[coupled] -= scaling * x[driven]` -/
def paraUncouple (s : R) (driven coupled : Nat) (x : J6 R) : J6 R :=
  x.set coupled (x.get coupled - s * x.get driven)

/-- `remove_collisions` -/
def removeCollisions (collides : J6 R → Bool) (l : List (J6 R)) : List (J6 R) :=
  l.filter (fun s => !collides s)

namespace Kin

def forward : Kin R → J6 R → Iso R
  | opw k, q => Opw.forward k.p q
  | tool i t, q => (forward i q).mul t
  | base i b, q => b.mul (forward i q)
  | frame i f, q => (forward i q).mul f
  | para i s d c, q => forward i (paraUncouple s d c q)
  | shape i _, q => forward i q

def links : Kin R → J6 R → List (Iso R)
  | opw k, q => chain k.p q
  | tool i _, q => links i q
  | base i b, q => (links i q).map (fun x => b.mul x)
  | frame i f, q =>
    match links i q with
    | [p1, p2, p3, p4, p5, p6] => [p1, p2, p3, p4, p5, p6.mul f]
    | l => l
  | para i s d c, q => links i (paraUncouple s d c q)
  | shape i _, q => links i q

def inverse : Kin R → Iso R → List (J6 R)
  | opw k, pose => k.inverse pose
  | tool i t, pose => inverse i (pose.mul t.inv)
  | base i b, pose => inverse i (b.inv.mul pose)
  | frame i f, pose => inverse i (pose.mul f.inv)
  | para i s d c, pose => (inverse i pose).map (paraCouple s d c)
  | shape i col, pose => removeCollisions col (inverse i pose)

def inverseContinuing : Kin R → Iso R → J6 R → List (J6 R)
  | opw k, pose, prev => k.inverseContinuing pose prev
  | tool i t, pose, prev => inverseContinuing i (pose.mul t.inv) prev
  | base i b, pose, prev => inverseContinuing i (b.inv.mul pose) prev
  | frame i f, pose, prev => inverseContinuing i (pose.mul f.inv) prev
  | para i s d c, pose, prev => (inverseContinuing i pose prev).map (paraCouple s d c)
  | shape i col, pose, prev => removeCollisions col (inverseContinuing i pose prev)

def inverse5dof : Kin R → Iso R → R → List (J6 R)
  | opw k, pose, j6 => k.inverse5dof pose j6
  | tool i t, pose, j6 => inverse5dof i (pose.mul t.inv) j6
  | base i b, pose, j6 => inverse5dof i (b.inv.mul pose) j6
  | frame i f, pose, j6 => inverse5dof i (pose.mul f.inv) j6
  | para i s d c, pose, j6 => (inverse5dof i pose j6).map (paraCouple s d c)
  | shape i col, pose, j6 => removeCollisions col (inverse5dof i pose j6)

def inverseContinuing5dof : Kin R → Iso R → J6 R → List (J6 R)
  | opw k, pose, prev => k.inverseContinuing5dof pose prev
  | tool i t, pose, prev => inverseContinuing5dof i (pose.mul t.inv) prev
  | base i b, pose, prev => inverseContinuing5dof i (b.inv.mul pose) prev
  | frame i f, pose, prev => inverseContinuing5dof i (pose.mul f.inv) prev
  | para i s d c, pose, prev => (inverseContinuing5dof i pose prev).map (paraCouple s d c)
  | shape i col, pose, prev => removeCollisions col (inverseContinuing5dof i pose prev)

def singularity : Kin R → J6 R → Bool
  | opw k, q => kinematicSingularity k.p q
  | tool i _, q => singularity i q
  | base i _, q => singularity i q
  | frame i _, q => singularity i q
  | para i _ _ _, q => singularity i q
  | shape i _, q => singularity i q

def constraints : Kin R → Option (Constraints R)
  | opw k => k.cons
  | tool i _ => constraints i
  | base i _ => constraints i
  | frame i _ => constraints i
  | para i _ _ _ => constraints i
  | shape i _ => constraints i

/-- the innermost solver -/
def core : Kin R → Opw R
  | opw k => k
  | tool i _ => core i
  | base i _ => core i
  | frame i _ => core i
  | para i _ _ _ => core i
  | shape i _ => core i

end Kin

/-- `Frame::forward_transformed` -/
def forwardTransformed (robot : Kin R) (f : Iso R) (qs previous : J6 R) : List (J6 R) × Iso R :=
  let tcp := f.mul (robot.forward qs)
  (robot.inverseContinuing tcp previous, tcp)

/-- `LinearAxis::forward`; `none` models the `panic!` on an invalid axis index -/
def linearAxisForward (robot : Kin R) (axis : Nat) (base : Iso R) (distance : R) (q : J6 R) : Option (Iso R) :=
  let tr : Option (V3 R) := match axis with
    | 0 => some ⟨distance, 0, 0⟩ | 1 => some ⟨0, distance, 0⟩ | 2 => some ⟨0, 0, distance⟩ | _ => none
  tr.map (fun v => (base.mul (Iso.ofTranslation v)).mul (robot.forward q))

/-- `Gantry::forward` -/
def gantryForward (robot : Kin R) (base : Iso R) (tr : V3 R) (q : J6 R) : Iso R :=
  (base.mul (Iso.ofTranslation tr)).mul (robot.forward q)

end Opw
