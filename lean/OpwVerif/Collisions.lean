/-
  Model of `collisions.rs`: which pairs of bodies are tested, at which distance, in which mode,
  with the geometric queries (`parry3d`) as oracles.  Also `non_colliding_offsets`.
  Body identifiers are the reporting indices of the code: joints 0..5, J_TOOL, J_BASE, ENV_START_IDX + k.
  No Mathlib import.
-/
import OpwVerif.Kin
namespace Opw
variable {R : Type} [OpwNum R]

def jTool : Nat := Gen.jTool
def jBase : Nat := Gen.jBase
def envStart : Nat := Gen.envStartIdx
def neverCollides : R := OpwNum.ofDyadic Gen.neverCollidesM Gen.neverCollidesE
def touchOnly : R := OpwNum.ofDyadic Gen.touchOnlyM Gen.touchOnlyE

inductive CheckMode where
  | firstCollisionOnly
  | allCollisions
  | noCheck
deriving BEq, DecidableEq, Repr

/-- `SafetyDistances` -/
structure Safety (R : Type) where
  toEnvironment : R
  toRobotDefault : R
  /-- `special_distances`: a map; the list has unique keys -/
  special : List ((Nat × Nat) × R)
  mode : CheckMode

def lookupPair (l : List ((Nat × Nat) × R)) (a b : Nat) : Option R :=
  (l.find? (fun e => e.1.1 == a && e.1.2 == b)).map (·.2)

/-- `SafetyDistances::min_distance` -/
def Safety.minDistance (s : Safety R) (a b : Nat) : R :=
  match lookupPair s.special a b with
  | some r => r
  | none =>
    match lookupPair s.special b a with
    | some r => r
    | none => if a ≥ envStart || b ≥ envStart then s.toEnvironment else s.toRobotDefault

/-- the geometric side of a robot body placed at some joint vector: what `parry3d` answers -/
structure Scene (R : Type) where
  envLen : Nat
  hasTool : Bool
  hasBase : Bool
  /-- `intersection_test` of the two placed shapes -/
  intersects : Nat → Nat → Bool
  /-- `distance` of the two placed shapes -/
  distance : Nat → Nat → R
  /-- the pre-filter: enlarged world AABB of the shape with fewer vertices meets the AABB of the other -/
  aabbNear : Nat → Nat → R → Bool

/-- `CollisionTask::collides`: verdict of one pair at the safety distance of that pair -/
def taskCollides (sc : Scene R) (safety : Safety R) (i j : Nat) : Bool :=
  let r := safety.minDistance i j
  if r ≤ neverCollides then false
  else if feq r touchOnly then sc.intersects i j
  else if !(sc.aabbNear i j r) then false
  else decide (sc.distance i j ≤ r)

/-- a body that did not move between the initial and the candidate configuration -/
def unmoved (skip : List Nat) (k : Nat) : Bool := skip.contains k || k == jBase || k ≥ envStart

/-- `check_required` (uses the body's own safety table, `self.safety`) -/
def checkRequired (own : Safety R) (skip : List Nat) (i j : Nat) : Bool :=
  !(unmoved skip i && unmoved skip j) && decide (own.minDistance i j > neverCollides)

def envIds (n : Nat) : List Nat := (List.range n).map (fun k => envStart + k)

/-- the task list of `detect_collisions_with_skips`, in the order the code pushes them -/
def tasks (sc : Scene R) (own : Safety R) (skip : List Nat) : List (Nat × Nat) :=
  let checkTool := !(skip.contains jTool)
  let toolEnv : List (Nat × Nat) :=
    if checkTool && sc.hasTool then
      (envIds sc.envLen).filterMap (fun e => if checkRequired own skip jTool e then some (jTool, e) else none)
    else []
  let perJoint : List (Nat × Nat) := (List.range 6).flatMap (fun i =>
    let jj : List (Nat × Nat) := ((List.range 6).reverse).filterMap (fun j =>
      if j > i && j - i > 1 && checkRequired own skip i j then some (i, j) else none)
    let je : List (Nat × Nat) := (envIds sc.envLen).filterMap (fun e =>
      if checkRequired own skip i e then some (i, e) else none)
    let jt : List (Nat × Nat) :=
      if checkTool && i != 5 && i != 4 && checkRequired own skip i jTool && sc.hasTool then [(i, jTool)] else []
    let jb : List (Nat × Nat) :=
      if i != 0 && !(skip.contains i) && checkRequired own skip i jBase && sc.hasBase then [(i, jBase)] else []
    jj ++ je ++ jt ++ jb)
  let toolBase : List (Nat × Nat) :=
    if (checkTool || checkRequired own skip jTool jBase) && sc.hasTool && sc.hasBase then [(jTool, jBase)] else []
  toolEnv ++ perJoint ++ toolBase

def normPair (p : Nat × Nat) : Nat × Nat := (min p.1 p.2, max p.1 p.2)

/-- `process_collision_tasks`; `choice` models `find_map_any` (which colliding task is reported) -/
def processTasks (sc : Scene R) (safety : Safety R) (mode : CheckMode) (ts : List (Nat × Nat))
    (choice : List (Nat × Nat) → Option (Nat × Nat)) : List (Nat × Nat) :=
  let hits := (ts.filter (fun p => taskCollides sc safety p.1 p.2)).map normPair
  match mode with
  | .noCheck => []
  | .allCollisions => hits
  | .firstCollisionOnly =>
    match hits with
    | [] => []
    | h :: _ => match choice hits with
      | some c => if hits.contains c then [c] else [h]
      | none => [h]

/-- `detect_collisions_with_skips` -/
def detect (sc : Scene R) (own safety : Safety R) (overrideMode : Option CheckMode) (skip : List Nat)
    (choice : List (Nat × Nat) → Option (Nat × Nat)) : List (Nat × Nat) :=
  processTasks sc safety (overrideMode.getD safety.mode) (tasks sc own skip) choice

/-- `RobotBody::collision_details` -/
def collisionDetails (sc : Scene R) (own : Safety R) (choice : List (Nat × Nat) → Option (Nat × Nat)) : List (Nat × Nat) :=
  detect sc own own none [] choice

/-- `RobotBody::near` (other distances, but pair gating still by the body's own table) -/
def near (sc : Scene R) (own other : Safety R) (choice : List (Nat × Nat) → Option (Nat × Nat)) : List (Nat × Nat) :=
  detect sc own other none [] choice

/-- `RobotBody::collides` -/
def collides (sc : Scene R) (own : Safety R) (choice : List (Nat × Nat) → Option (Nat × Nat)) : Bool :=
  if own.mode == .noCheck then false
  else !(detect sc own own (some .firstCollisionOnly) [] choice).isEmpty

/-- the pairs of the property statement: non-adjacent links, link/tool vs environment, tool vs links 1–4,
base vs links 2–6, tool vs base -/
def relevantPairs (sc : Scene R) : List (Nat × Nat) :=
  let jj := (List.range 6).flatMap (fun i => (List.range 6).filterMap (fun j => if j > i + 1 then some (i, j) else none))
  let je := (List.range 6).flatMap (fun i => (envIds sc.envLen).map (fun e => (i, e)))
  let te := if sc.hasTool then (envIds sc.envLen).map (fun e => (jTool, e)) else []
  let jt := if sc.hasTool then (List.range 4).map (fun i => (i, jTool)) else []
  let jb := if sc.hasBase then (List.range 6).filterMap (fun i => if i ≥ 1 then some (i, jBase) else none) else []
  let tb := if sc.hasTool && sc.hasBase then [(jTool, jBase)] else []
  jj ++ je ++ te ++ jt ++ jb ++ tb

/-- brute-force verdict of the property statement (no pre-filter) -/
def pairVerdict (sc : Scene R) (safety : Safety R) (i j : Nat) : Bool :=
  let r := safety.minDistance i j
  if r ≤ neverCollides then false
  else if feq r touchOnly then sc.intersects i j
  else decide (sc.distance i j ≤ r)

/-! ### `non_colliding_offsets` -/

/-- the twelve candidates: joint `k` replaced by `from[k]`, then by `to[k]`, for k = 0..5 -/
def offsetCandidates (initial f t : J6 R) : List (Nat × J6 R) :=
  (List.range 6).flatMap (fun k => [(k, initial.set k (f.get k)), (k, initial.set k (t.get k))])

/-- the links the collision check of candidate `(k, c)` may skip: those before the tweaked joint whose pose is the
same as in the initial configuration (`unchanged c i`; for an OPW robot all of `0..k-1`, with coupled joints fewer) -/
def skipOf (unchanged : J6 R → Nat → Bool) (k : Nat) (c : J6 R) : List Nat :=
  (List.range k).filter (unchanged c)

/-- `non_colliding_offsets`; `sceneAt` is the placed scene for a joint vector, `unchanged c i` says that link `i` has
the same pose at `c` as at the initial vector -/
def nonCollidingOffsets (sceneAt : J6 R → Scene R) (unchanged : J6 R → Nat → Bool) (own : Safety R)
    (cons : Option (Constraints R)) (initial f t : J6 R) (choice : List (Nat × Nat) → Option (Nat × Nat)) : List (J6 R) :=
  (offsetCandidates initial f t).filterMap (fun (k, c) =>
    let compliant := match cons with
      | some cc => cc.compliant c
      | none => true
    if !compliant then none
    else if own.mode == .noCheck then some c   -- collision checks are disabled completely (as in `collides`)
    else if (detect (sceneAt c) own own (some .firstCollisionOnly) (skipOf unchanged k c) choice).isEmpty then some c
    else none)

end Opw
