/-
  Line protocol between the Rust harness and the Lean driver: token reader, object decoders,
  comparison helpers.  `Float` only; no Mathlib import.
-/
import OpwVerif.Wrappers
namespace Opw.Proto
open Opw

structure Rd where
  toks : Array String
  pos : Nat

abbrev RM := StateT Rd (Except String)

def hexVal (c : Char) : Option Nat :=
  if '0' ≤ c ∧ c ≤ '9' then some (c.toNat - '0'.toNat)
  else if 'a' ≤ c ∧ c ≤ 'f' then some (c.toNat - 'a'.toNat + 10)
  else if 'A' ≤ c ∧ c ≤ 'F' then some (c.toNat - 'A'.toNat + 10)
  else none

def parseHex (s : String) : Option Nat :=
  s.toList.foldl (fun acc c => match acc, hexVal c with
    | some a, some v => some (a * 16 + v)
    | _, _ => none) (some 0)

def peek? : RM (Option String) := do
  let r ← get
  pure (r.toks[r.pos]?)

def next : RM String := do
  let r ← get
  match r.toks[r.pos]? with
  | some t => set { r with pos := r.pos + 1 }; pure t
  | none => throw "unexpected end of line"

def expect (s : String) : RM Unit := do
  let t ← next
  if t == s then pure () else throw s!"expected {s}, got {t}"

/-- a double: 16 hex digits of `to_bits()` -/
def rF : RM Float := do
  let t ← next
  if t.length != 16 then throw s!"bad float token {t}"
  match parseHex t with
  | some n => pure (Float.ofBits n.toUInt64)
  | none => throw s!"bad float token {t}"

/-- a natural number: `#123` -/
def rN : RM Nat := do
  let t ← next
  if t.startsWith "#" then
    match (t.drop 1).toString.toNat? with
    | some n => pure n
    | none => throw s!"bad nat token {t}"
  else throw s!"bad nat token {t}"

/-- an integer: `#123` or `#-5` -/
def rI : RM Int := do
  let t ← next
  if t.startsWith "#-" then
    match (t.drop 2).toString.toNat? with
    | some n => pure (-(Int.ofNat n))
    | none => throw s!"bad int token {t}"
  else if t.startsWith "#" then
    match (t.drop 1).toString.toNat? with
    | some n => pure (Int.ofNat n)
    | none => throw s!"bad int token {t}"
  else throw s!"bad int token {t}"

def rB : RM Bool := do
  let n ← rN
  pure (n != 0)

def rJ6 : RM (J6 Float) := do
  let a ← rF; let b ← rF; let c ← rF; let d ← rF; let e ← rF; let f ← rF
  pure ⟨a, b, c, d, e, f⟩

def rV3 : RM (V3 Float) := do
  let a ← rF; let b ← rF; let c ← rF
  pure ⟨a, b, c⟩

/-- isometry: `tx ty tz w i j k` -/
def rIso : RM (Iso Float) := do
  let t ← rV3
  let w ← rF; let i ← rF; let j ← rF; let k ← rF
  pure ⟨t, ⟨w, i, j, k⟩⟩

def rList {α} (rd : RM α) : RM (List α) := do
  let n ← rN
  let mut acc : Array α := #[]
  for _ in [0:n] do
    acc := acc.push (← rd)
  pure acc.toList

/-- robot: a1 a2 b c1 c2 c3 c4, offsets×6, signs×6 (as doubles), dof -/
def rParams : RM (Params Float) := do
  let a1 ← rF; let a2 ← rF; let b ← rF; let c1 ← rF; let c2 ← rF; let c3 ← rF; let c4 ← rF
  let off ← rJ6
  let sg ← rJ6
  let dof ← rI
  pure ⟨a1, a2, b, c1, c2, c3, c4, off, sg, dof⟩

/-- constraints: `#0` | `#1 from×6 to×6 weight` (built with `Constraints::new`) -/
def rCons : RM (Option (Constraints Float)) := do
  let n ← rN
  if n == 0 then pure none
  else
    let f ← rJ6; let t ← rJ6; let w ← rF
    pure (some (Constraints.mk' f t w))

/-- kinematic object: robot, constraints, then wrappers innermost first:
`#n` × (`T` iso | `B` iso | `F` iso | `P` scaling `#driven` `#coupled`) -/
def rKin : RM (Kin Float) := do
  let p ← rParams
  let c ← rCons
  let n ← rN
  let mut k : Kin Float := Kin.opw ⟨p, c⟩
  for _ in [0:n] do
    let tag ← next
    if tag == "T" then k := Kin.tool k (← rIso)
    else if tag == "B" then k := Kin.base k (← rIso)
    else if tag == "F" then k := Kin.frame k (← rIso)
    else if tag == "P" then
      let s ← rF; let d ← rN; let c ← rN
      k := Kin.para k s d c
    else throw s!"bad wrapper tag {tag}"
  pure k

def atEnd : RM Bool := do
  let r ← get
  pure (r.pos ≥ r.toks.size)

/-! ### comparison helpers -/

/-- absolute-or-relative closeness; two NaNs and equal infinities count as close -/
def close (tol a b : Float) : Bool :=
  if a.isNaN || b.isNaN then a.isNaN && b.isNaN
  else if a == b then true
  else
    let d := (a - b).abs
    d ≤ tol || d ≤ tol * (max a.abs b.abs)

def closeJ6 (tol : Float) (a b : J6 Float) : Bool :=
  close tol a.j1 b.j1 && close tol a.j2 b.j2 && close tol a.j3 b.j3 &&
  close tol a.j4 b.j4 && close tol a.j5 b.j5 && close tol a.j6 b.j6

def closeV3 (tol : Float) (a b : V3 Float) : Bool :=
  close tol a.x b.x && close tol a.y b.y && close tol a.z b.z

def closeQuatComp (tol : Float) (a b : Quat Float) : Bool :=
  close tol a.w b.w && close tol a.i b.i && close tol a.j b.j && close tol a.k b.k

/-- same rotation: componentwise equal up to a common sign -/
def closeQuat (tol : Float) (a b : Quat Float) : Bool :=
  closeQuatComp tol a b || closeQuatComp tol a b.neg

def closeIso (tol : Float) (a b : Iso Float) : Bool := closeV3 tol a.t b.t && closeQuat tol a.q b.q

def bitEqJ6 (a b : J6 Float) : Bool :=
  a.j1.toBits == b.j1.toBits && a.j2.toBits == b.j2.toBits && a.j3.toBits == b.j3.toBits &&
  a.j4.toBits == b.j4.toBits && a.j5.toBits == b.j5.toBits && a.j6.toBits == b.j6.toBits

def closeList {α} (f : α → α → Bool) : List α → List α → Bool
  | [], [] => true
  | a :: as, b :: bs => f a b && closeList f as bs
  | _, _ => false

def showJ6 (a : J6 Float) : String := s!"[{a.j1},{a.j2},{a.j3},{a.j4},{a.j5},{a.j6}]"
def showV3 (a : V3 Float) : String := s!"({a.x},{a.y},{a.z})"
def showIso (a : Iso Float) : String := s!"t={showV3 a.t} q=({a.q.w},{a.q.i},{a.q.j},{a.q.k})"

/-- 2π-equivalence of two joint values within `tol` -/
def angEquiv (tol a b : Float) : Bool :=
  let d := (a - b).abs
  let r := F.fmod d (2.0 * (OpwNum.pi : Float))
  let r' := if r > (OpwNum.pi : Float) then 2.0 * (OpwNum.pi : Float) - r else r
  r' ≤ tol

def equivJ6 (tol : Float) (a b : J6 Float) : Bool :=
  angEquiv tol a.j1 b.j1 && angEquiv tol a.j2 b.j2 && angEquiv tol a.j3 b.j3 &&
  angEquiv tol a.j4 b.j4 && angEquiv tol a.j5 b.j5 && angEquiv tol a.j6 b.j6

/-- result of processing one line -/
structure Res where
  /-- "OK", "MISMATCH", "BOUNDARY" -/
  corr : String
  detail : String := ""
  /-- predicate results: name, passed?, detail -/
  preds : List (String × Bool × String) := []
  /-- free-form tags for the histograms in the evidence (branch hit, count, …) -/
  tags : List String := []

def Res.render (r : Res) : String :=
  let ps := r.preds.map (fun (n, ok, d) => if ok then s!"P:{n}=ok" else s!"P:{n}=FAIL({d})")
  let ts := r.tags.map (fun t => s!"T:{t}")
  String.intercalate " ; " ([s!"{r.corr} {r.detail}"] ++ ps ++ ts)

end Opw.Proto
