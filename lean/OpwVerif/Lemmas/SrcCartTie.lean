/-
  Tie between the model of the stroke densification (`Cartesian.lean`: `intermediatePoses`, `withIntermediatePoses`;
  `Kin.lean`: `transitionCosts`) and `add_intermediate_poses` / `with_intermediate_poses` (path_plan/cartesian.rs) and
  `utils::transition_costs` translated from the CURRENT source text (`Generated/SrcCart.lean`, rewritten by
  `tools/rs2lean_cart.py` on every run).  Generic in the number type.
-/
import OpwVerif.Generated.SrcCart
namespace Opw
variable {R : Type} [OpwNum R]
set_option linter.unusedSectionVars false

/-- `add_intermediate_poses` -/
theorem intermediatePosesSrc_eq (a b : Iso R) (stepM stepRad : R) (ofNat : Nat → R) :
    SrcCart.intermediatePosesSrc a b stepM stepRad ofNat = intermediatePoses a b stepM stepRad ofNat := rfl

/-- the stroke part of `with_intermediate_poses` -/
theorem stroke_eq (park : Iso R) (ip : Iso R → Iso R → List (APose R)) (prev : Iso R) (steps : List (Iso R)) :
    SrcCart.withIntermediatePosesSrc.stroke park ip prev steps = withIntermediatePoses.stroke park ip prev steps := by
  induction steps generalizing prev with
  | nil => rfl
  | cons s rest ih =>
    simp only [SrcCart.withIntermediatePosesSrc.stroke, withIntermediatePoses.stroke, ih]

/-- `with_intermediate_poses` -/
theorem withIntermediatePosesSrc_eq (land : Iso R) (steps : List (Iso R)) (park : Iso R) (stepM stepRad : R) (ofNat : Nat → R) :
    SrcCart.withIntermediatePosesSrc land steps park stepM stepRad ofNat = withIntermediatePoses land steps park stepM stepRad ofNat := by
  unfold SrcCart.withIntermediatePosesSrc withIntermediatePoses
  simp only [stroke_eq]
  rfl

/-- `transition_costs` -/
theorem transitionCostsSrc_eq (a b c : J6 R) : SrcCart.transitionCostsSrc a b c = transitionCosts a b c := rfl

end Opw
