/-
  Helper lemmas for C04 (`normalize_near`, `sort_by_closeness`, `inverse_continuing`).
  Real-arithmetic reading of the model unless a lemma is stated for a generic `R`.
-/
import OpwVerif.Kin
import OpwVerif.Real

namespace Opw.Nearest
open Opw

-- `ofNatLit_real` and `Nat.cast_ofNat` rewrite numerals back and forth; keep it out of `simp` here
attribute [-simp] Opw.ofNatLit_real

/-! ### Literals of the generic code at `ℝ` -/

theorem lit0 : (@OfNat.ofNat ℝ 0 instOfNatOpw) = (0 : ℝ) := by
  show ((0 : ℕ) : ℝ) = 0; exact Nat.cast_zero
theorem lit1 : (@OfNat.ofNat ℝ 1 instOfNatOpw) = (1 : ℝ) := by
  show ((1 : ℕ) : ℝ) = 1; exact Nat.cast_one
theorem lit2 : (@OfNat.ofNat ℝ 2 instOfNatOpw) = (2 : ℝ) := by
  show ((2 : ℕ) : ℝ) = 2; exact Nat.cast_ofNat

/-! ### `loopDown`, `loopUp`, `normPiF` -/

theorem loopDown_zero (x : ℝ) : loopDown 0 x = x := rfl
theorem loopDown_succ (n : ℕ) (x : ℝ) :
    loopDown (n + 1) x = if x > Real.pi then loopDown n (x - 2 * Real.pi) else x := by
  show (if x > pi then loopDown n (x - OfNat.ofNat 2 * pi) else x) = _
  rw [lit2, pi_def_real]
theorem loopUp_zero (x : ℝ) : loopUp 0 x = x := rfl
theorem loopUp_succ (n : ℕ) (x : ℝ) :
    loopUp (n + 1) x = if x < -Real.pi then loopUp n (x + 2 * Real.pi) else x := by
  show (if x < -pi then loopUp n (x + OfNat.ofNat 2 * pi) else x) = _
  rw [lit2, pi_def_real]

theorem loopDown_le (n : ℕ) (x : ℝ) (h : x ≤ Real.pi + 2 * Real.pi * n) :
    loopDown n x ≤ Real.pi := by
  induction n generalizing x with
  | zero => simp only [Nat.cast_zero, mul_zero, add_zero] at h; exact h
  | succ n ih =>
    rw [loopDown_succ]
    split_ifs with hx
    · apply ih; push_cast at h; linarith
    · linarith

theorem loopDown_id_or_gt (n : ℕ) (x : ℝ) : loopDown n x = x ∨ -Real.pi < loopDown n x := by
  induction n generalizing x with
  | zero => left; rfl
  | succ n ih =>
    rw [loopDown_succ]
    split_ifs with hx
    · right
      rcases ih (x - 2 * Real.pi) with h | h
      · rw [h]; linarith
      · exact h
    · left; rfl

theorem loopDown_turn (n : ℕ) (x : ℝ) : ∃ k : ℤ, loopDown n x = x + 2 * Real.pi * k := by
  induction n generalizing x with
  | zero => exact ⟨0, by simp only [loopDown_zero, Int.cast_zero, mul_zero, add_zero]⟩
  | succ n ih =>
    rw [loopDown_succ]
    split_ifs with hx
    · obtain ⟨k, hk⟩ := ih (x - 2 * Real.pi)
      exact ⟨k - 1, by rw [hk]; push_cast; ring⟩
    · exact ⟨0, by simp only [Int.cast_zero, mul_zero, add_zero]⟩

theorem loopUp_ge (n : ℕ) (x : ℝ) (h : -Real.pi - 2 * Real.pi * n ≤ x) :
    -Real.pi ≤ loopUp n x := by
  induction n generalizing x with
  | zero => simp only [Nat.cast_zero, mul_zero, sub_zero] at h; exact h
  | succ n ih =>
    rw [loopUp_succ]
    split_ifs with hx
    · apply ih; push_cast at h; linarith
    · linarith

theorem loopUp_le (n : ℕ) (x : ℝ) (h : x ≤ Real.pi) : loopUp n x ≤ Real.pi := by
  induction n generalizing x with
  | zero => exact h
  | succ n ih =>
    rw [loopUp_succ]
    split_ifs with hx
    · apply ih; linarith
    · exact h

theorem loopUp_id (n : ℕ) (x : ℝ) (h : -Real.pi ≤ x) : loopUp n x = x := by
  cases n with
  | zero => rfl
  | succ n => rw [loopUp_succ, if_neg (by linarith)]

theorem loopDown_id (n : ℕ) (x : ℝ) (h : x ≤ Real.pi) : loopDown n x = x := by
  cases n with
  | zero => rfl
  | succ n => rw [loopDown_succ, if_neg (by linarith)]

theorem loopUp_turn (n : ℕ) (x : ℝ) : ∃ k : ℤ, loopUp n x = x + 2 * Real.pi * k := by
  induction n generalizing x with
  | zero => exact ⟨0, by simp only [loopUp_zero, Int.cast_zero, mul_zero, add_zero]⟩
  | succ n ih =>
    rw [loopUp_succ]
    split_ifs with hx
    · obtain ⟨k, hk⟩ := ih (x + 2 * Real.pi)
      exact ⟨k + 1, by rw [hk]; push_cast; ring⟩
    · exact ⟨0, by simp only [Int.cast_zero, mul_zero, add_zero]⟩

theorem normPiF_turn (fuel : ℕ) (x : ℝ) : ∃ k : ℤ, normPiF fuel x = x + 2 * Real.pi * k := by
  obtain ⟨k1, h1⟩ := loopDown_turn fuel x
  obtain ⟨k2, h2⟩ := loopUp_turn fuel (loopDown fuel x)
  exact ⟨k1 + k2, by unfold normPiF; rw [h2, h1]; push_cast; ring⟩

theorem normPiF_mem (fuel : ℕ) (x : ℝ) (h : |x| ≤ Real.pi + 2 * Real.pi * fuel) :
    -Real.pi ≤ normPiF fuel x ∧ normPiF fuel x ≤ Real.pi := by
  have hpi := Real.pi_pos
  rw [abs_le] at h
  have hd : loopDown fuel x ≤ Real.pi := loopDown_le fuel x h.2
  unfold normPiF
  refine ⟨?_, loopUp_le _ _ hd⟩
  rcases loopDown_id_or_gt fuel x with e | e
  · rw [e]; apply loopUp_ge; linarith
  · rw [loopUp_id _ _ e.le]; exact e.le

/-- a value already in `[-π, π]` is left alone -/
theorem normPiF_id (fuel : ℕ) (x : ℝ) (h1 : -Real.pi ≤ x) (h2 : x ≤ Real.pi) : normPiF fuel x = x := by
  unfold normPiF; rw [loopDown_id _ _ h2, loopUp_id _ _ h1]

/-! ### `adjustNear` / `normalizeNear` -/

/-- `f64::signum` over ℝ -/
theorem signum_nonneg {x : ℝ} (h : 0 ≤ x) : (OpwNum.signum x : ℝ) = 1 := by
  simp [OpwNum.signum, h]
theorem signum_neg {x : ℝ} (h : x < 0) : (OpwNum.signum x : ℝ) = -1 := by
  simp [OpwNum.signum, not_le.mpr h]

/-- the first two `if`s of `adjust` -/
noncomputable def adj12 (now prev : ℝ) : ℝ :=
  let n1 := if |now - prev| > |now - 2 * Real.pi - prev| then now - 2 * Real.pi else now
  if |n1 - prev| > |n1 + 2 * Real.pi - prev| then n1 + 2 * Real.pi else n1

/-- the third `if` of `adjust`: the condition under which the value is negated -/
def flips (n2 prev : ℝ) : Prop :=
  |n2| = Real.pi ∧ ¬ ((OpwNum.signum prev : ℝ) = OpwNum.signum n2)

theorem adjustNear_eq (now prev : ℝ) :
    adjustNear now prev = (open Classical in if flips (adj12 now prev) prev then -adj12 now prev else adj12 now prev) := by
  unfold adjustNear adj12 flips
  simp only [twoPi_real, nabs_real, feq_real, pi_def_real, Bool.and_eq_true, decide_eq_true_eq,
    Bool.not_eq_eq_eq_not, Bool.not_true, decide_eq_false_iff_not]

theorem adj12_turn (now prev : ℝ) : ∃ k : ℤ, adj12 now prev = now + 2 * Real.pi * k := by
  unfold adj12
  simp only
  split_ifs
  · exact ⟨0, by push_cast; ring⟩
  · exact ⟨-1, by push_cast; ring⟩
  · exact ⟨1, by push_cast; ring⟩
  · exact ⟨0, by push_cast; ring⟩

/-- one pass of the first two `if`s brings the distance to `prev` down by a turn (never below `π`) -/
theorem adj12_dist (now prev c : ℝ) (hc : Real.pi ≤ c) (h : |now - prev| ≤ c + 2 * Real.pi) :
    |adj12 now prev - prev| ≤ c := by
  have hpi := Real.pi_pos
  unfold adj12
  simp only
  rw [abs_le] at h
  split_ifs with h1 h2 h2 <;> rw [abs_le] <;> constructor <;>
    (rcases abs_cases (now - prev) with ⟨e1, _⟩ | ⟨e1, _⟩ <;>
     rcases abs_cases (now - 2 * Real.pi - prev) with ⟨e2, _⟩ | ⟨e2, _⟩ <;>
     rcases abs_cases (now - 2 * Real.pi + 2 * Real.pi - prev) with ⟨e3, _⟩ | ⟨e3, _⟩ <;>
     rcases abs_cases (now + 2 * Real.pi - prev) with ⟨e4, _⟩ | ⟨e4, _⟩ <;>
     simp only [e1, e2, e3, e4] at * <;> linarith)

theorem flip_turn (n : ℝ) (h : |n| = Real.pi) : ∃ k : ℤ, -n = n + 2 * Real.pi * k := by
  rcases abs_cases n with ⟨e, _⟩ | ⟨e, _⟩
  · exact ⟨-1, by push_cast; rw [← h, e]; ring⟩
  · exact ⟨1, by push_cast; rw [← h, e]; ring⟩

/-- negating `±π` when its sign differs from the sign of `prev` never increases the distance -/
theorem flip_dist (n prev : ℝ) (h : flips n prev) : |-n - prev| ≤ |n - prev| := by
  have hpi := Real.pi_pos
  obtain ⟨ha, hs⟩ := h
  rcases lt_or_ge prev 0 with hp | hp <;> rcases lt_or_ge n 0 with hn | hn
  · rw [signum_neg hp, signum_neg hn] at hs; exact absurd rfl hs
  · rw [abs_of_nonneg hn] at ha
    rcases abs_cases (-n - prev) with ⟨e1, _⟩ | ⟨e1, _⟩ <;>
    rcases abs_cases (n - prev) with ⟨e2, _⟩ | ⟨e2, _⟩ <;> rw [e1, e2] <;> linarith
  · rw [abs_of_neg hn] at ha
    rcases abs_cases (-n - prev) with ⟨e1, _⟩ | ⟨e1, _⟩ <;>
    rcases abs_cases (n - prev) with ⟨e2, _⟩ | ⟨e2, _⟩ <;> rw [e1, e2] <;> linarith
  · rw [signum_nonneg hp, signum_nonneg hn] at hs; exact absurd rfl hs

theorem adjustNear_turn (now prev : ℝ) : ∃ k : ℤ, adjustNear now prev = now + 2 * Real.pi * k := by
  rw [adjustNear_eq]
  obtain ⟨k, hk⟩ := adj12_turn now prev
  split_ifs with hf
  · obtain ⟨j, hj⟩ := flip_turn _ hf.1
    exact ⟨k + j, by rw [hj, hk]; push_cast; ring⟩
  · exact ⟨k, hk⟩

theorem adjustNear_dist (now prev c : ℝ) (hc : Real.pi ≤ c) (h : |now - prev| ≤ c + 2 * Real.pi) :
    |adjustNear now prev - prev| ≤ c := by
  rw [adjustNear_eq]
  have h12 := adj12_dist now prev c hc h
  split_ifs with hf
  · exact (flip_dist _ _ hf).trans h12
  · exact h12

theorem normalizeNear_turn (now prev : ℝ) : ∃ k : ℤ, normalizeNear now prev = now + 2 * Real.pi * k := by
  unfold normalizeNear
  obtain ⟨k1, h1⟩ := adjustNear_turn now prev
  obtain ⟨k2, h2⟩ := adjustNear_turn (adjustNear now prev) prev
  exact ⟨k1 + k2, by rw [h2, h1]; push_cast; ring⟩

theorem normalizeNear_dist (now prev : ℝ) (h : |now - prev| ≤ 5 * Real.pi) :
    |normalizeNear now prev - prev| ≤ Real.pi := by
  have hpi := Real.pi_pos
  unfold normalizeNear
  apply adjustNear_dist _ _ _ le_rfl
  have := adjustNear_dist now prev (3 * Real.pi) (by linarith) (by linarith)
  linarith

/-- a representative within `π` of `prev` is at least as close as any other representative -/
theorem nearest_of_dist_le_pi (r prev : ℝ) (h : |r - prev| ≤ Real.pi) (k : ℤ) :
    |r - prev| ≤ |r + 2 * Real.pi * k - prev| := by
  have hpi := Real.pi_pos
  have h' := h
  rw [abs_le] at h'
  rcases lt_trichotomy k 0 with hk | hk | hk
  · have h1 : (k : ℝ) ≤ -1 := by exact_mod_cast Int.le_sub_one_of_lt hk
    have h2 : 2 * Real.pi * k ≤ -(2 * Real.pi) := by nlinarith
    exact h.trans (le_abs.mpr (Or.inr (by linarith)))
  · subst hk; simp only [Int.cast_zero, mul_zero, add_zero]; exact le_rfl
  · have h1 : (1 : ℝ) ≤ k := by exact_mod_cast Int.add_one_le_of_lt hk
    have h2 : 2 * Real.pi ≤ 2 * Real.pi * k := by nlinarith
    exact h.trans (le_abs.mpr (Or.inl (by linarith)))

/-! ### Distance, cost, sorting -/

theorem byPrev_real : (byPrev : ℝ) = 0 := by
  show ((Gen.byPrevM : ℤ) : ℝ) * (2 : ℝ) ^ Gen.byPrevE = 0
  simp only [Gen.byPrevM, Int.cast_zero, zero_mul]

theorem byConstraints_real : (byConstraints : ℝ) = 1 := by
  show ((Gen.byConstraintsM : ℤ) : ℝ) * (2 : ℝ) ^ Gen.byConstraintsE = 1
  simp only [Gen.byConstraintsM, Gen.byConstraintsE, Int.cast_one, zpow_zero, mul_one]

theorem J6.ext' {R : Type} {a b : J6 R} (h1 : a.j1 = b.j1) (h2 : a.j2 = b.j2) (h3 : a.j3 = b.j3)
    (h4 : a.j4 = b.j4) (h5 : a.j5 = b.j5) (h6 : a.j6 = b.j6) : a = b := by
  cases a; cases b; simp_all

theorem calculateDistance_real (a b : J6 ℝ) :
    calculateDistance a b =
      |a.j1 - b.j1| + |a.j2 - b.j2| + |a.j3 - b.j3| + |a.j4 - b.j4| + |a.j5 - b.j5| + |a.j6 - b.j6| := by
  unfold calculateDistance
  simp only [nabs_real, lit0, zero_add]

theorem calculateDistance_nonneg (a b : J6 ℝ) : 0 ≤ calculateDistance a b := by
  rw [calculateDistance_real]; positivity

theorem calculateDistance_self (a : J6 ℝ) : calculateDistance a a = 0 := by
  rw [calculateDistance_real]; simp only [sub_self, abs_zero, add_zero]

theorem calculateDistance_eq_zero_iff (a b : J6 ℝ) : calculateDistance a b = 0 ↔ a = b := by
  constructor
  · intro h
    rw [calculateDistance_real] at h
    have n1 := abs_nonneg (a.j1 - b.j1)
    have n2 := abs_nonneg (a.j2 - b.j2)
    have n3 := abs_nonneg (a.j3 - b.j3)
    have n4 := abs_nonneg (a.j4 - b.j4)
    have n5 := abs_nonneg (a.j5 - b.j5)
    have n6 := abs_nonneg (a.j6 - b.j6)
    apply J6.ext' <;> apply sub_eq_zero.mp <;> apply abs_eq_zero.mp <;> linarith
  · rintro rfl; exact calculateDistance_self a

/-- without constraints the cost is the distance to `previous` (any number type) -/
theorem sortCost_none {R : Type} [OpwNum R] (k : Opw R) (previous a : J6 R) (h : k.cons = none) :
    k.sortCost previous a = calculateDistance a previous := by
  unfold Opw.sortCost; rw [h]

theorem sortCost_byPrev (k : Opw ℝ) (c : Constraints ℝ) (previous a : J6 ℝ) (h : k.cons = some c)
    (hw : c.sortingWeight = 0) : k.sortCost previous a = calculateDistance a previous := by
  unfold Opw.sortCost; rw [h]
  simp only [feq_real, byPrev_real, hw, decide_true, if_true]

theorem sortCost_byConstraints (k : Opw ℝ) (c : Constraints ℝ) (previous a : J6 ℝ) (h : k.cons = some c)
    (hw : c.sortingWeight = 1) : k.sortCost previous a = calculateDistance a c.centers := by
  unfold Opw.sortCost; rw [h]
  simp only [feq_real, byPrev_real, byConstraints_real, hw, lit0, lit1]
  norm_num

theorem sortCost_mixed (k : Opw ℝ) (c : Constraints ℝ) (previous a : J6 ℝ) (h : k.cons = some c)
    (h0 : c.sortingWeight ≠ 0) (h1 : c.sortingWeight ≠ 1) :
    k.sortCost previous a =
      calculateDistance a previous * (1 - c.sortingWeight) + calculateDistance a c.centers * c.sortingWeight := by
  unfold Opw.sortCost; rw [h]
  simp only [feq_real, byPrev_real, byConstraints_real, lit1, h0, h1, decide_false, Bool.not_false,
    if_true, Bool.false_eq_true, if_false]

theorem sortByCloseness_perm {R : Type} [OpwNum R] (k : Opw R) (l : List (J6 R)) (previous : J6 R) :
    (k.sortByCloseness l previous).Perm l := by
  unfold Opw.sortByCloseness; exact List.mergeSort_perm _ _

theorem mem_sortByCloseness {R : Type} [OpwNum R] (k : Opw R) (l : List (J6 R)) (previous s : J6 R) :
    s ∈ k.sortByCloseness l previous ↔ s ∈ l := (sortByCloseness_perm k l previous).mem_iff

theorem sortByCloseness_pairwise (k : Opw ℝ) (l : List (J6 ℝ)) (previous : J6 ℝ) :
    (k.sortByCloseness l previous).Pairwise (fun a b => k.sortCost previous a ≤ k.sortCost previous b) := by
  unfold Opw.sortByCloseness
  have hp := List.pairwise_mergeSort
    (le := fun a b => !(decide (k.sortCost previous b < k.sortCost previous a)))
    (by
      intro a b c hab hbc
      simp only [Bool.not_eq_eq_eq_not, Bool.not_true, decide_eq_false_iff_not, not_lt] at hab hbc ⊢
      exact hab.trans hbc)
    (by
      intro a b
      simp only [Bool.or_eq_true, Bool.not_eq_eq_eq_not, Bool.not_true, decide_eq_false_iff_not, not_lt]
      exact le_total _ _) l
  refine hp.imp ?_
  intro a b hab
  simpa only [Bool.not_eq_eq_eq_not, Bool.not_true, decide_eq_false_iff_not, not_lt] using hab

theorem filterCompliant_sublist {R : Type} [OpwNum R] (k : Opw R) (l : List (J6 R)) :
    (k.filterCompliant l).Sublist l := by
  unfold Opw.filterCompliant
  cases k.cons with
  | none => exact List.Sublist.refl _
  | some c => exact List.filter_sublist

theorem mem_filterCompliant {R : Type} [OpwNum R] (k : Opw R) (l : List (J6 R)) (s : J6 R) :
    s ∈ k.filterCompliant l ↔ s ∈ l ∧ k.compliant s = true := by
  unfold Opw.filterCompliant Opw.compliant
  cases k.cons with
  | none => simp
  | some c => simp [Constraints.filter, List.mem_filter]

theorem compliant_of_none {R : Type} [OpwNum R] (k : Opw R) (s : J6 R) (h : k.cons = none) :
    k.compliant s = true := by
  unfold Opw.compliant; rw [h]

/-- over ℝ there is no NaN sentinel: the reference vector is `prev` itself -/
theorem reference_real (k : Opw ℝ) (prev : J6 ℝ) : k.reference prev = prev := by
  unfold Opw.reference; simp only [isNaN_real, Bool.false_eq_true, if_false]

/-! ### The shift loop only ever appends (any number type) -/

/-- the pose handed to `inverse_intern` by the first (zero) shift -/
def zeroShifted {R : Type} [OpwNum R] (pose : Iso R) : Iso R :=
  ⟨⟨pose.t.x + 0, pose.t.y + 0, pose.t.z + 0⟩, pose.q⟩

theorem zeroShifted_real (pose : Iso ℝ) : zeroShifted pose = pose := by
  unfold zeroShifted
  simp only [lit0, add_zero]

theorem shiftStep_mono {R : Type} [OpwNum R] (k : Opw R) (pose : Iso R) (previous : J6 R)
    (sols : List (J6 R)) (d : V3 R) {s : J6 R} (h : s ∈ sols) :
    s ∈ (shiftStep k pose previous sols d).1 := by
  unfold shiftStep
  simp only
  split <;> split_ifs <;> simp [h]

theorem shiftStep_nil {R : Type} [OpwNum R] (k : Opw R) (pose : Iso R) (previous : J6 R)
    (d : V3 R) {s : J6 R}
    (h : s ∈ inverseIntern k.p ⟨⟨pose.t.x + d.x, pose.t.y + d.y, pose.t.z + d.z⟩, pose.q⟩) :
    s ∈ (shiftStep k pose previous [] d).1 := by
  unfold shiftStep
  simp only [List.isEmpty_nil, if_true, List.nil_append]
  split <;> (try split_ifs) <;> simp [h]

theorem shiftLoop_mono {R : Type} [OpwNum R] (k : Opw R) (pose : Iso R) (previous : J6 R)
    (ds : List (V3 R)) (sols : List (J6 R)) {s : J6 R} (h : s ∈ sols) :
    s ∈ shiftLoop k pose previous ds sols := by
  induction ds generalizing sols with
  | nil => exact h
  | cons d ds ih =>
    unfold shiftLoop
    have h1 := shiftStep_mono k pose previous sols d h
    simp only
    split_ifs
    · exact h1
    · exact ih _ h1

theorem shiftLoop_shifts {R : Type} [OpwNum R] (k : Opw R) (pose : Iso R) (previous : J6 R)
    {s : J6 R} (h : s ∈ inverseIntern k.p (zeroShifted pose)) :
    s ∈ shiftLoop k pose previous shifts [] := by
  unfold shifts shiftLoop
  have h1 := shiftStep_nil k pose previous ⟨0, 0, 0⟩ (s := s) h
  simp only
  split_ifs
  · exact h1
  · exact shiftLoop_mono _ _ _ _ _ h1

/-! ### Heads of sorted lists -/

theorem head_of_sorted_min {α : Type} (f : α → ℝ) (l : List α)
    (hs : l.Pairwise (fun a b => f a ≤ f b)) {x : α} (hx : x ∈ l) :
    ∃ h, l.head? = some h ∧ f h ≤ f x := by
  cases l with
  | nil => cases hx
  | cons h t =>
    refine ⟨h, rfl, ?_⟩
    rcases List.mem_cons.mp hx with rfl | hx
    · exact le_rfl
    · exact (List.pairwise_cons.mp hs).1 x hx

/-! ### The constraint check is 2π-periodic in the angle (ℝ) -/

/-- what `inside_bounds` compares with the tolerance: `|u|` reduced modulo a turn and folded into `[0, π]` -/
noncomputable def foldDist (u : ℝ) : ℝ :=
  let d := |u| - 2 * Real.pi * ⌊|u| / (2 * Real.pi)⌋
  if d > Real.pi then 2 * Real.pi - d else d

theorem nfmod_real_of_nonneg (x y : ℝ) (h : 0 ≤ x / y) : nfmod x y = x - y * ⌊x / y⌋ := by
  simp [nfmod, OpwNum.fmod, h]

theorem insideBounds_real (angle centre tol : ℝ) :
    insideBounds angle centre tol = decide (foldDist (angle - centre) ≤ tol) := by
  have hpi := Real.pi_pos
  have h0 : 0 ≤ |angle - centre| / (2 * Real.pi) := div_nonneg (abs_nonneg _) (by linarith)
  unfold insideBounds isInfinite foldDist
  simp only [fin_real, isNaN_real, Bool.not_true, Bool.false_and, Bool.false_eq_true, if_false,
    twoPi_real, nabs_real, pi_def_real, nfmod_real_of_nonneg _ _ h0]

theorem foldDist_spec (u : ℝ) :
    0 ≤ foldDist u ∧ foldDist u ≤ Real.pi ∧
      ∃ m : ℤ, u = 2 * Real.pi * m + foldDist u ∨ u = 2 * Real.pi * m - foldDist u := by
  have hpi := Real.pi_pos
  have h2 : 0 < 2 * Real.pi := by linarith
  unfold foldDist
  set x := |u| with hx
  set m0 := ⌊x / (2 * Real.pi)⌋ with hm0
  have hf1 : (m0 : ℝ) ≤ x / (2 * Real.pi) := Int.floor_le _
  have hf2 : x / (2 * Real.pi) < m0 + 1 := Int.lt_floor_add_one _
  rw [le_div_iff₀ h2] at hf1
  rw [div_lt_iff₀ h2] at hf2
  simp only
  split_ifs with hd
  · refine ⟨by linarith, by linarith, ?_⟩
    rcases abs_cases u with ⟨e, _⟩ | ⟨e, _⟩
    · have e' : x = u := e
      exact ⟨m0 + 1, Or.inr (by push_cast; linarith)⟩
    · have e' : x = -u := e
      exact ⟨-m0 - 1, Or.inl (by push_cast; linarith)⟩
  · refine ⟨by linarith, by linarith, ?_⟩
    rcases abs_cases u with ⟨e, _⟩ | ⟨e, _⟩
    · have e' : x = u := e
      exact ⟨m0, Or.inl (by linarith)⟩
    · have e' : x = -u := e
      exact ⟨-m0, Or.inr (by push_cast; linarith)⟩

theorem int_eq_zero_of_abs_lt_one (j : ℤ) (h1 : -1 < (j : ℝ)) (h2 : (j : ℝ) < 1) : j = 0 := by
  have a : (-1 : ℤ) < j := by exact_mod_cast h1
  have b : j < (1 : ℤ) := by exact_mod_cast h2
  omega

/-- a number has only one "distance to the nearest whole turn" -/
theorem foldDist_unique (u d1 d2 : ℝ) (k m1 m2 : ℤ) (h1 : 0 ≤ d1) (h1' : d1 ≤ Real.pi) (h2 : 0 ≤ d2)
    (h2' : d2 ≤ Real.pi) (e1 : u = 2 * Real.pi * m1 + d1 ∨ u = 2 * Real.pi * m1 - d1)
    (e2 : u + 2 * Real.pi * k = 2 * Real.pi * m2 + d2 ∨ u + 2 * Real.pi * k = 2 * Real.pi * m2 - d2) :
    d1 = d2 := by
  have hpi := Real.pi_pos
  rcases e1 with e1 | e1 <;> rcases e2 with e2 | e2
  · -- d1 - d2 = 2π (m2 - m1 - k)
    have hj : ((m2 - m1 - k : ℤ) : ℝ) * (2 * Real.pi) = d1 - d2 := by push_cast; linarith
    have : m2 - m1 - k = 0 := by
      apply int_eq_zero_of_abs_lt_one
      · by_contra hh; rw [not_lt] at hh; nlinarith
      · by_contra hh; rw [not_lt] at hh; nlinarith
    rw [this] at hj; simp only [Int.cast_zero, zero_mul] at hj; linarith
  · -- d1 + d2 = 2π (m2 - m1 - k)
    have hj : ((m2 - m1 - k : ℤ) : ℝ) * (2 * Real.pi) = d1 + d2 := by push_cast; linarith
    rcases lt_trichotomy (m2 - m1 - k) 0 with hn | hn | hn
    · have : ((m2 - m1 - k : ℤ) : ℝ) ≤ -1 := by exact_mod_cast Int.le_sub_one_of_lt hn
      nlinarith
    · rw [hn] at hj; simp only [Int.cast_zero, zero_mul] at hj; linarith
    · have : (1 : ℝ) ≤ ((m2 - m1 - k : ℤ) : ℝ) := by exact_mod_cast Int.add_one_le_of_lt hn
      nlinarith
  · -- -(d1 + d2) = 2π (m2 - m1 - k)
    have hj : ((m2 - m1 - k : ℤ) : ℝ) * (2 * Real.pi) = -(d1 + d2) := by push_cast; linarith
    rcases lt_trichotomy (m2 - m1 - k) 0 with hn | hn | hn
    · have : ((m2 - m1 - k : ℤ) : ℝ) ≤ -1 := by exact_mod_cast Int.le_sub_one_of_lt hn
      nlinarith
    · rw [hn] at hj; simp only [Int.cast_zero, zero_mul] at hj; linarith
    · have : (1 : ℝ) ≤ ((m2 - m1 - k : ℤ) : ℝ) := by exact_mod_cast Int.add_one_le_of_lt hn
      nlinarith
  · have hj : ((m2 - m1 - k : ℤ) : ℝ) * (2 * Real.pi) = d2 - d1 := by push_cast; linarith
    have : m2 - m1 - k = 0 := by
      apply int_eq_zero_of_abs_lt_one
      · by_contra hh; rw [not_lt] at hh; nlinarith
      · by_contra hh; rw [not_lt] at hh; nlinarith
    rw [this] at hj; simp only [Int.cast_zero, zero_mul] at hj; linarith

theorem foldDist_add_turn (u : ℝ) (k : ℤ) : foldDist (u + 2 * Real.pi * k) = foldDist u := by
  obtain ⟨a1, a2, m1, e1⟩ := foldDist_spec u
  obtain ⟨b1, b2, m2, e2⟩ := foldDist_spec (u + 2 * Real.pi * k)
  exact (foldDist_unique u _ _ k m1 m2 a1 a2 b1 b2 e1 e2).symm

theorem insideBounds_add_turn (angle centre tol : ℝ) (k : ℤ) :
    insideBounds (angle + 2 * Real.pi * k) centre tol = insideBounds angle centre tol := by
  rw [insideBounds_real, insideBounds_real]
  have : angle + 2 * Real.pi * k - centre = (angle - centre) + 2 * Real.pi * k := by ring
  rw [this, foldDist_add_turn]

theorem insideBounds_normalizeNear (now prev centre tol : ℝ) :
    insideBounds (normalizeNear now prev) centre tol = insideBounds now centre tol := by
  obtain ⟨k, hk⟩ := normalizeNear_turn now prev
  rw [hk, insideBounds_add_turn]

/-- moving a joint vector next to `prev` does not change whether it satisfies the constraints -/
theorem compliant_normalizeNear (k : Opw ℝ) (s prev : J6 ℝ) :
    k.compliant (s.normalizeNear prev) = k.compliant s := by
  unfold Opw.compliant
  cases k.cons with
  | none => rfl
  | some c =>
    simp only [Constraints.compliant, J6.normalizeNear, J6.zipWith, insideBounds_normalizeNear]

/-! ### `normalize_near x x = x` -/

theorem adj12_of_close (now prev : ℝ) (h : |now - prev| ≤ Real.pi) : adj12 now prev = now := by
  have hpi := Real.pi_pos
  rw [abs_le] at h
  unfold adj12
  have h1 : ¬ (|now - prev| > |now - 2 * Real.pi - prev|) := by
    rw [not_lt]
    rcases abs_cases (now - prev) with ⟨e1, _⟩ | ⟨e1, _⟩ <;>
    rcases abs_cases (now - 2 * Real.pi - prev) with ⟨e2, _⟩ | ⟨e2, _⟩ <;> rw [e1, e2] <;> linarith
  have h2 : ¬ (|now - prev| > |now + 2 * Real.pi - prev|) := by
    rw [not_lt]
    rcases abs_cases (now - prev) with ⟨e1, _⟩ | ⟨e1, _⟩ <;>
    rcases abs_cases (now + 2 * Real.pi - prev) with ⟨e2, _⟩ | ⟨e2, _⟩ <;> rw [e1, e2] <;> linarith
  simp only [if_neg h1, if_neg h2]

theorem adjustNear_self (x : ℝ) : adjustNear x x = x := by
  have hpi := Real.pi_pos
  have h : adj12 x x = x := adj12_of_close x x (by rw [sub_self, abs_zero]; exact hpi.le)
  rw [adjustNear_eq, h, if_neg]
  unfold flips
  exact fun hf => hf.2 rfl

theorem normalizeNear_self (x : ℝ) : normalizeNear x x = x := by
  unfold normalizeNear; rw [adjustNear_self, adjustNear_self]

theorem J6_normalizeNear_self (s : J6 ℝ) : s.normalizeNear s = s := by
  unfold J6.normalizeNear J6.zipWith
  simp only [normalizeNear_self]

/-! ### A concrete solved instance (non-vacuity of the `inverse_continuing` theorems)

Robot `c2 = c3 = 1`, all other lengths `0`, no offsets, signs `+1`; pose = tool at `(0, 0, 2)` with the
identity orientation; the zero joint vector is found by `inverse_intern`. -/

theorem arg_mk_im_zero (x : ℝ) (h : 0 ≤ x) : Complex.arg ⟨x, 0⟩ = 0 :=
  Complex.arg_ofReal_of_nonneg h

theorem sqrt_four : Real.sqrt 4 = 2 := by
  rw [show (4 : ℝ) = 2 ^ 2 by norm_num]; exact Real.sqrt_sq (by norm_num)

noncomputable def exParams : Params ℝ := ⟨0, 0, 0, 0, 1, 1, 0, ⟨0, 0, 0, 0, 0, 0⟩, ⟨1, 1, 1, 1, 1, 1⟩, 6⟩
noncomputable def exPose : Iso ℝ := ⟨⟨0, 0, 2⟩, ⟨1, 0, 0, 0⟩⟩
noncomputable def zero6 : J6 ℝ := ⟨0, 0, 0, 0, 0, 0⟩
noncomputable def exOpw : Opw ℝ := ⟨exParams, none⟩

theorem ex_cand : zero6 ∈ thetaCandidates exParams exPose := by
  unfold thetaCandidates
  simp only [List.mem_cons]
  left
  simp only [exParams, exPose, zero6, Quat.toMat, M3.mulVec, V3.ez, V3.sub, lit0, lit1, lit2,
    natan2_real, nsqrt_real, nacos_real, nsin_real, ncos_real]
  norm_num [arg_mk_im_zero, sqrt_four]

theorem normPi_zero : normPi (0 : ℝ) = 0 :=
  normPiF_id _ 0 (by linarith [Real.pi_pos]) (by linarith [Real.pi_pos])

theorem distTol_nonneg : (0 : ℝ) ≤ distTol := by
  show (0 : ℝ) ≤ ((Gen.distTolM : ℤ) : ℝ) * (2 : ℝ) ^ Gen.distTolE
  unfold Gen.distTolM
  positivity

theorem angTol_nonneg : (0 : ℝ) ≤ angTol := by
  show (0 : ℝ) ≤ ((Gen.angTolM : ℤ) : ℝ) * (2 : ℝ) ^ Gen.angTolE
  unfold Gen.angTolM
  positivity

theorem ex_forward : forward exParams zero6 = exPose := by
  simp only [forward, thetaOf, forwardTheta, exParams, zero6, exPose, r0c, rce, M3.mul, M3.scaleL, M3.mulVec,
    V3.add, V3.ez, Quat.ofMat, lit0, lit1, lit2, natan2_real, nsqrt_real, nsin_real, ncos_real]
  norm_num [arg_mk_im_zero, sqrt_four]

theorem ex_compare : comparePoses exPose exPose distTol angTol = true := by
  have h1 := distTol_nonneg
  have h2 := angTol_nonneg
  simp only [comparePoses, exPose, V3.sub, V3.norm, V3.normSq, V3.dot, Quat.angleTo, Quat.rotationTo, Quat.mul,
    Quat.conj, Quat.angle, Quat.imag, lit2, natan2_real, nsqrt_real, nabs_real]
  norm_num [arg_mk_im_zero, h1, h2]

theorem ex_finish : finishCandidate exParams exPose (jointsOf exParams zero6) = some zero6 := by
  have h : jointsOf exParams zero6 = zero6 := by
    simp only [jointsOf, exParams, zero6]; norm_num
  rw [h]
  have hm : zero6.map normPi = zero6 := by simp only [J6.map, zero6, normPi_zero]
  unfold finishCandidate
  simp only [hm, ex_forward, ex_compare, if_true]
  simp [J6.allFinite, zero6]

/-- the zero vector is a solution that plain `inverse_intern` finds for the example pose -/
theorem ex_mem : zero6 ∈ inverseIntern exParams exPose := by
  unfold inverseIntern
  rw [List.mem_filterMap]
  exact ⟨zero6, ex_cand, ex_finish⟩

theorem ex_dof : exOpw.p.dof ≠ 5 := by
  show (6 : ℤ) ≠ 5
  decide

theorem ex_mem_inverse : zero6 ∈ exOpw.inverse exPose := by
  unfold Opw.inverse
  rw [if_neg (by simpa using ex_dof)]
  exact ex_mem

/-! ### Every raw solution of the shift loop is within `3π` of a previous vector in `[-2π, 2π]` -/

/-- `|x| ≤ n·π` -/
def B (n : ℕ) (x : ℝ) : Prop := |x| ≤ n * Real.pi

theorem B_arg (y x : ℝ) : B 1 (natan2 y x) := by
  unfold B; rw [natan2_real, Nat.cast_one, one_mul]; exact Complex.abs_arg_le_pi _
theorem B_arccos (x : ℝ) : B 1 (nacos x) := by
  unfold B; rw [nacos_real, Nat.cast_one, one_mul, abs_of_nonneg (Real.arccos_nonneg x)]
  exact Real.arccos_le_pi x
theorem B_pi : B 1 (pi : ℝ) := by
  unfold B; rw [pi_def_real, Nat.cast_one, one_mul, abs_of_pos Real.pi_pos]
theorem B_add {m n : ℕ} {a b : ℝ} (ha : B m a) (hb : B n b) : B (m + n) (a + b) := by
  unfold B at *; push_cast; have := abs_add_le a b; linarith
theorem B_sub {m n : ℕ} {a b : ℝ} (ha : B m a) (hb : B n b) : B (m + n) (a - b) := by
  unfold B at *; push_cast; have := abs_sub a b; linarith
theorem B_neg {m : ℕ} {a : ℝ} (ha : B m a) : B m (-a) := by
  unfold B at *; rwa [abs_neg]
theorem B_mono {m n : ℕ} {a : ℝ} (ha : B m a) (h : m ≤ n) : B n a := by
  unfold B at *
  have : (m : ℝ) ≤ n := by exact_mod_cast h
  have := Real.pi_pos
  nlinarith

/-- `|aᵢ| ≤ c` for all six joints -/
def absLe (a : J6 ℝ) (c : ℝ) : Prop :=
  |a.j1| ≤ c ∧ |a.j2| ≤ c ∧ |a.j3| ≤ c ∧ |a.j4| ≤ c ∧ |a.j5| ≤ c ∧ |a.j6| ≤ c

theorem B3_abs (x : ℝ) (hx : B 3 x) : |x| ≤ 3 * Real.pi := by
  unfold B at hx; push_cast at hx; exact hx

macro "bnd3" : tactic => `(tactic|
  (apply B3_abs
   apply B_mono
   · repeat' (first | exact B_arg _ _ | exact B_arccos _ | exact B_pi | apply B_add | apply B_sub | apply B_neg)
   · decide))

theorem thetaCandidates_bound (p : Params ℝ) (pose : Iso ℝ) (t : J6 ℝ)
    (ht : t ∈ thetaCandidates p pose) : absLe t (3 * Real.pi) := by
  unfold thetaCandidates at ht
  simp only [List.mem_cons, List.not_mem_nil, or_false] at ht
  unfold absLe
  rcases ht with rfl | rfl | rfl | rfl | rfl | rfl | rfl | rfl <;>
    refine ⟨?_, ?_, ?_, ?_, ?_, ?_⟩ <;> bnd3

/-- `|aᵢ − bᵢ| ≤ c` for all six joints -/
def within (a b : J6 ℝ) (c : ℝ) : Prop :=
  |a.j1 - b.j1| ≤ c ∧ |a.j2 - b.j2| ≤ c ∧ |a.j3 - b.j3| ≤ c ∧ |a.j4 - b.j4| ≤ c ∧ |a.j5 - b.j5| ≤ c ∧
    |a.j6 - b.j6| ≤ c

theorem prod_bound (a s c : ℝ) (ha : |a| ≤ c) (hs : |s| ≤ 1) : |a * s| ≤ c := by
  rw [abs_mul]
  have := abs_nonneg a
  have := abs_nonneg s
  nlinarith

theorem joint_bound (t o s : ℝ) (ht : |t| ≤ 3 * Real.pi) (ho : |o| ≤ 100000) (hs : |s| ≤ 1) :
    |(t + o) * s| ≤ 2 * Real.pi * 100000 := by
  have h2 := Real.two_le_pi
  have h4 := Real.pi_le_four
  have h1 : |t + o| ≤ 3 * Real.pi + 100000 := (abs_add_le t o).trans (by linarith)
  exact (prod_bound _ _ _ h1 hs).trans (by linarith)

theorem jointsOf_bound (p : Params ℝ) (t : J6 ℝ) (ht : absLe t (3 * Real.pi)) (hs : absLe p.signs 1)
    (ho : absLe p.offsets 100000) : absLe (jointsOf p t) (2 * Real.pi * 100000) := by
  obtain ⟨t1, t2, t3, t4, t5, t6⟩ := ht
  obtain ⟨s1, s2, s3, s4, s5, s6⟩ := hs
  obtain ⟨o1, o2, o3, o4, o5, o6⟩ := ho
  exact ⟨joint_bound _ _ _ t1 o1 s1, joint_bound _ _ _ t2 o2 s2, joint_bound _ _ _ t3 o3 s3,
    joint_bound _ _ _ t4 o4 s4, joint_bound _ _ _ t5 o5 s5, joint_bound _ _ _ t6 o6 s6⟩

theorem normPi_abs_le (x : ℝ) (h : |x| ≤ 2 * Real.pi * 100000) : |normPi x| ≤ Real.pi := by
  have hm : -Real.pi ≤ normPi x ∧ normPi x ≤ Real.pi := by
    unfold normPi normFuel
    apply normPiF_mem
    push_cast
    linarith [Real.pi_pos]
  exact abs_le.mpr hm

/-- the solutions of `inverse_intern` have all angles in `[-π, π]` (sign corrections `±1`, offsets
small enough for the fuel of `normPi`) -/
theorem inverseIntern_absLe (p : Params ℝ) (pose : Iso ℝ) (s : J6 ℝ) (hs : absLe p.signs 1)
    (ho : absLe p.offsets 100000) (h : s ∈ inverseIntern p pose) : absLe s Real.pi := by
  unfold inverseIntern at h
  rw [List.mem_filterMap] at h
  obtain ⟨t, ht, hf⟩ := h
  obtain ⟨b1, b2, b3, b4, b5, b6⟩ := jointsOf_bound p t (thetaCandidates_bound p pose t ht) hs ho
  unfold finishCandidate at hf
  simp only at hf
  split_ifs at hf
  cases hf
  exact ⟨normPi_abs_le _ b1, normPi_abs_le _ b2, normPi_abs_le _ b3, normPi_abs_le _ b4,
    normPi_abs_le _ b5, normPi_abs_le _ b6⟩

/-- the same for the first five angles of `inverse_intern_5_dof`; the sixth is the given `j6` -/
theorem inverseIntern5_absLe (p : Params ℝ) (pose : Iso ℝ) (j6 : ℝ) (s : J6 ℝ) (hs : absLe p.signs 1)
    (ho : absLe p.offsets 100000) (h : s ∈ inverseIntern5 p pose j6) :
    |s.j1| ≤ Real.pi ∧ |s.j2| ≤ Real.pi ∧ |s.j3| ≤ Real.pi ∧ |s.j4| ≤ Real.pi ∧ |s.j5| ≤ Real.pi ∧
      s.j6 = j6 := by
  unfold inverseIntern5 at h
  rw [List.mem_filterMap] at h
  obtain ⟨t, ht, hf⟩ := h
  obtain ⟨b1, b2, b3, b4, b5, b6⟩ := jointsOf_bound p t (thetaCandidates_bound p pose t ht) hs ho
  unfold finishCandidate5 at hf
  simp only at hf
  split_ifs at hf
  cases hf
  exact ⟨normPi_abs_le _ b1, normPi_abs_le _ b2, normPi_abs_le _ b3, normPi_abs_le _ b4,
    normPi_abs_le _ b5, rfl⟩

/-- the pose handed to `inverse_intern` for the shift `d` -/
def shiftedPose {R : Type} [OpwNum R] (pose : Iso R) (d : V3 R) : Iso R :=
  ⟨⟨pose.t.x + d.x, pose.t.y + d.y, pose.t.z + d.z⟩, pose.q⟩

/-- where the elements of the list after one shift step come from (any number type) -/
theorem shiftStep_mem {R : Type} [OpwNum R] (k : Opw R) (pose : Iso R) (previous : J6 R)
    (sols : List (J6 R)) (d : V3 R) {s : J6 R} (h : s ∈ (shiftStep k pose previous sols d).1) :
    s ∈ sols ∨ s ∈ inverseIntern k.p (shiftedPose pose d) ∨
      ∃ s0 ∈ inverseIntern k.p (shiftedPose pose d), s = singularCandidate k.p previous s0 := by
  unfold shiftStep at h
  simp only at h
  unfold shiftedPose
  split at h
  · split_ifs at h
    · simp only [List.mem_append] at h; tauto
    · exact Or.inl h
  · rename_i s0 hfind
    have hs0 := List.mem_of_find?_eq_some hfind
    split_ifs at h <;> simp only [List.mem_append, List.mem_singleton] at h
    · rcases h with (h | h) | h
      · exact Or.inl h
      · exact Or.inr (Or.inl h)
      · exact Or.inr (Or.inr ⟨s0, hs0, h⟩)
    · rcases h with h | h
      · exact Or.inl h
      · exact Or.inr (Or.inr ⟨s0, hs0, h⟩)
    · rcases h with h | h
      · exact Or.inl h
      · exact Or.inr (Or.inl h)
    · exact Or.inl h

/-- where the elements of the final list of the shift loop come from (any number type) -/
theorem shiftLoop_mem {R : Type} [OpwNum R] (k : Opw R) (pose : Iso R) (previous : J6 R)
    (ds : List (V3 R)) (sols : List (J6 R)) {s : J6 R} (h : s ∈ shiftLoop k pose previous ds sols) :
    s ∈ sols ∨ ∃ d ∈ ds, s ∈ inverseIntern k.p (shiftedPose pose d) ∨
      ∃ s0 ∈ inverseIntern k.p (shiftedPose pose d), s = singularCandidate k.p previous s0 := by
  induction ds generalizing sols with
  | nil => exact Or.inl h
  | cons d ds ih =>
    unfold shiftLoop at h
    simp only at h
    have step : ∀ {s}, s ∈ (shiftStep k pose previous sols d).1 → s ∈ sols ∨ ∃ d' ∈ d :: ds,
        s ∈ inverseIntern k.p (shiftedPose pose d') ∨
          ∃ s0 ∈ inverseIntern k.p (shiftedPose pose d'), s = singularCandidate k.p previous s0 := by
      intro s hs
      rcases shiftStep_mem k pose previous sols d hs with h1 | h1
      · exact Or.inl h1
      · exact Or.inr ⟨d, List.mem_cons_self, h1⟩
    split_ifs at h
    · exact step h
    · rcases ih _ h with h1 | ⟨d', hd', h1⟩
      · exact step h1
      · exact Or.inr ⟨d', List.mem_cons_of_mem _ hd', h1⟩

theorem within_of_absLe (s prev : J6 ℝ) (hs : absLe s Real.pi) (hp : absLe prev (2 * Real.pi)) :
    within s prev (3 * Real.pi) := by
  obtain ⟨s1, s2, s3, s4, s5, s6⟩ := hs
  obtain ⟨p1, p2, p3, p4, p5, p6⟩ := hp
  refine ⟨?_, ?_, ?_, ?_, ?_, ?_⟩ <;> refine (abs_sub _ _).trans ?_ <;> linarith

theorem half_turn_bound (prev4 x s4 : ℝ) (hx : |x| ≤ 2 * Real.pi * 100000) (hs : |s4| ≤ 1) :
    |prev4 + normPi x / 2 * s4 - prev4| ≤ 3 * Real.pi := by
  have hpi := Real.pi_pos
  have h1 : |normPi x / 2| ≤ Real.pi := by
    rw [abs_div, abs_of_pos (by norm_num : (0 : ℝ) < 2)]
    have := normPi_abs_le x hx
    linarith
  have : prev4 + normPi x / 2 * s4 - prev4 = normPi x / 2 * s4 := by ring
  rw [this]
  exact (prod_bound _ _ _ h1 hs).trans (by linarith)

/-- the redistributed singular candidate stays within `3π` of `previous` -/
theorem singularCandidate_within (p : Params ℝ) (prev s0 : J6 ℝ) (hs : absLe p.signs 1)
    (h0 : absLe s0 Real.pi) (hp : absLe prev (2 * Real.pi)) :
    within (singularCandidate p prev s0) prev (3 * Real.pi) := by
  have hpi := Real.pi_pos
  obtain ⟨w1, w2, w3, w4, w5, w6⟩ := within_of_absLe s0 prev h0 hp
  obtain ⟨a1, a2, a3, a4, a5, a6⟩ := h0
  obtain ⟨p1, p2, p3, p4, p5, p6⟩ := hp
  obtain ⟨g1, g2, g3, g4, g5, g6⟩ := hs
  have q1 := prod_bound _ _ _ a4 g4
  have q2 := prod_bound _ _ _ a6 g6
  have q3 := prod_bound _ _ _ p4 g4
  have q4 := prod_bound _ _ _ p6 g6
  rw [abs_le] at q1 q2 q3 q4
  have hx : ∀ z : Bool, |(if z = true then
        s0.j4 * p.signs.j4 + s0.j6 * p.signs.j6 else s0.j4 * p.signs.j4 - s0.j6 * p.signs.j6) -
      (if z = true then
        prev.j4 * p.signs.j4 + prev.j6 * p.signs.j6 else prev.j4 * p.signs.j4 - prev.j6 * p.signs.j6)|
      ≤ 2 * Real.pi * 100000 := by
    intro z
    split_ifs <;> rw [abs_le] <;> constructor <;> linarith
  unfold singularCandidate within
  simp only
  refine ⟨w1, w2, w3, half_turn_bound _ _ _ (hx _) g4, ?_, half_turn_bound _ _ _ (hx _) g6⟩
  split_ifs
  · exact w5
  · exact (normalizeNear_dist _ _ (by linarith)).trans (by linarith)

/-- all raw solutions collected by the shift loop are within `3π` of `prev` -/
theorem shiftLoop_within (k : Opw ℝ) (pose : Iso ℝ) (prev : J6 ℝ) (hs : absLe k.p.signs 1)
    (ho : absLe k.p.offsets 100000) (hp : absLe prev (2 * Real.pi)) (ds : List (V3 ℝ)) (s : J6 ℝ)
    (h : s ∈ shiftLoop k pose prev ds []) : within s prev (3 * Real.pi) := by
  rcases shiftLoop_mem k pose prev ds [] h with h | ⟨d, _, h | ⟨s0, h0, rfl⟩⟩
  · cases h
  · exact within_of_absLe s prev (inverseIntern_absLe _ _ s hs ho h) hp
  · exact singularCandidate_within _ _ _ hs (inverseIntern_absLe _ _ s0 hs ho h0) hp

theorem normalizeNear_within (s prev : J6 ℝ) (h : within s prev (5 * Real.pi)) :
    within (s.normalizeNear prev) prev Real.pi := by
  obtain ⟨h1, h2, h3, h4, h5, h6⟩ := h
  exact ⟨normalizeNear_dist _ _ h1, normalizeNear_dist _ _ h2, normalizeNear_dist _ _ h3,
    normalizeNear_dist _ _ h4, normalizeNear_dist _ _ h5, normalizeNear_dist _ _ h6⟩

theorem within_mono {a b : J6 ℝ} {c c' : ℝ} (h : within a b c) (hc : c ≤ c') : within a b c' := by
  obtain ⟨h1, h2, h3, h4, h5, h6⟩ := h
  exact ⟨h1.trans hc, h2.trans hc, h3.trans hc, h4.trans hc, h5.trans hc, h6.trans hc⟩

/-! ### The `5π` range of `normalizeNear_dist` cannot be widened -/

theorem adj12_of_gt (now prev : ℝ) (h : now - prev > Real.pi) : adj12 now prev = now - 2 * Real.pi := by
  have hpi := Real.pi_pos
  unfold adj12
  have h1 : |now - prev| > |now - 2 * Real.pi - prev| := by
    rcases abs_cases (now - prev) with ⟨e1, _⟩ | ⟨e1, _⟩ <;>
    rcases abs_cases (now - 2 * Real.pi - prev) with ⟨e2, _⟩ | ⟨e2, _⟩ <;> rw [e1, e2] <;> linarith
  have h2 : ¬ (|now - 2 * Real.pi - prev| > |now - 2 * Real.pi + 2 * Real.pi - prev|) := by
    rw [not_lt]
    rcases abs_cases (now - 2 * Real.pi - prev) with ⟨e1, _⟩ | ⟨e1, _⟩ <;>
    rcases abs_cases (now - 2 * Real.pi + 2 * Real.pi - prev) with ⟨e2, _⟩ | ⟨e2, _⟩ <;> rw [e1, e2] <;> linarith
  simp only [if_pos h1, if_neg h2]

theorem adjustNear_of_gt (now prev : ℝ) (h : now - prev > Real.pi) (hn : |now - 2 * Real.pi| ≠ Real.pi) :
    adjustNear now prev = now - 2 * Real.pi := by
  rw [adjustNear_eq, adj12_of_gt now prev h, if_neg]
  unfold flips
  exact fun hf => hn hf.1

/-- six half-turns away: two passes remove only two turns -/
theorem normalizeNear_six_pi : normalizeNear (6 * Real.pi) 0 = 2 * Real.pi := by
  have hpi := Real.pi_pos
  unfold normalizeNear
  rw [adjustNear_of_gt (6 * Real.pi) 0 (by linarith) (by rw [abs_of_pos (by linarith)]; linarith)]
  rw [adjustNear_of_gt _ 0 (by linarith) (by rw [abs_of_pos (by linarith)]; linarith)]
  ring

/-- the list `inverse_continuing` builds before filtering: shift loop, `normalize_near`, sort -/
def sortedUnfiltered {R : Type} [OpwNum R] (k : Opw R) (pose : Iso R) (prev : J6 R) : List (J6 R) :=
  k.sortByCloseness ((shiftLoop k pose (k.reference prev) shifts []).map
    (fun s => s.normalizeNear (k.reference prev))) (k.reference prev)

end Opw.Nearest
