/-
  Helper lemmas for the control-structure properties C01 (every returned solution passed the
  run-time forward-kinematics cross-check), C08 (constraints) and C06 (5-DOF entry points).

  Everything here is GENERIC: `{R : Type} [OpwNum R]`, with no assumption on the arithmetic
  operations, so every statement holds of the IEEE `Float` reading of the model itself.
  Only list/control-structure reasoning is used.  No Mathlib import.
-/
import OpwVerif.Wrappers
namespace Opw
variable {R : Type} [OpwNum R]

/-! ### The run-time acceptance predicates -/

/-- `s` passes the run-time cross-check of `inverse_intern` against `pose`:
`compare_poses(pose, forward(s), DISTANCE_TOLERANCE, ANGULAR_TOLERANCE)`. -/
def Sound (p : Params R) (pose : Iso R) (s : J6 R) : Prop :=
  comparePoses pose (forward p s) distTol angTol = true

/-- `s` passes the run-time cross-check of `inverse_intern_5_dof` (position only). -/
def Sound5 (p : Params R) (pose : Iso R) (s : J6 R) : Prop :=
  compareXyz pose.t (forward p s).t distTol = true

/-- the pose `inverse_continuing` solves for in the iteration of the `'shifts` loop with shift `d`
(translation shifted component-wise, rotation kept) -/
def shiftPose (pose : Iso R) (d : V3 R) : Iso R :=
  ⟨⟨pose.t.x + d.x, pose.t.y + d.y, pose.t.z + d.z⟩, pose.q⟩

/-! ### `inverse_intern`, `inverse_intern_5_dof` -/

theorem finishCandidate_eq_some {p : Params R} {pose : Iso R} {s s' : J6 R} :
    finishCandidate p pose s = some s' ↔
      s.allFinite = true ∧ s' = s.map normPi ∧ Sound p pose s' := by
  unfold finishCandidate Sound
  by_cases h1 : s.allFinite = true
  · by_cases h2 : comparePoses pose (forward p (s.map normPi)) distTol angTol = true
    · simp only [h1, h2, if_true, Option.some.injEq, true_and]
      constructor
      · intro h; subst h; exact ⟨rfl, h2⟩
      · rintro ⟨rfl, _⟩; rfl
    · simp only [h1, h2, if_true, true_and]
      constructor
      · intro h; cases h
      · rintro ⟨rfl, h⟩; exact absurd h h2
  · simp [h1]

theorem mem_inverseIntern {p : Params R} {pose : Iso R} {s : J6 R} :
    s ∈ inverseIntern p pose ↔
      ∃ t ∈ thetaCandidates p pose,
        (jointsOf p t).allFinite = true ∧ s = (jointsOf p t).map normPi ∧ Sound p pose s := by
  unfold inverseIntern
  rw [List.mem_filterMap]
  constructor
  · rintro ⟨t, ht, h⟩; exact ⟨t, ht, finishCandidate_eq_some.mp h⟩
  · rintro ⟨t, ht, h⟩; exact ⟨t, ht, finishCandidate_eq_some.mpr h⟩

theorem sound_of_mem_inverseIntern {p : Params R} {pose : Iso R} {s : J6 R}
    (h : s ∈ inverseIntern p pose) : Sound p pose s := by
  obtain ⟨_, _, _, _, hs⟩ := mem_inverseIntern.mp h
  exact hs

/-- the normalised vector `inverse_intern_5_dof` builds from a raw candidate -/
def norm5 (s : J6 R) (j6 : R) : J6 R :=
  ⟨normPi s.j1, normPi s.j2, normPi s.j3, normPi s.j4, normPi s.j5, j6⟩

theorem finishCandidate5_eq_some {p : Params R} {pose : Iso R} {j6 : R} {s s' : J6 R} :
    finishCandidate5 p pose j6 s = some s' ↔
      ({ s with j6 := j6 } : J6 R).first5Finite = true ∧ s' = norm5 s j6 ∧ Sound5 p pose s' := by
  unfold finishCandidate5 Sound5 norm5
  by_cases h1 : ({ s with j6 := j6 } : J6 R).first5Finite = true
  · by_cases h2 : compareXyz pose.t
        (forward p ⟨normPi s.j1, normPi s.j2, normPi s.j3, normPi s.j4, normPi s.j5, j6⟩).t
        distTol = true
    · simp only [h1, h2, if_true, Option.some.injEq, true_and]
      constructor
      · intro h; subst h; exact ⟨rfl, h2⟩
      · rintro ⟨rfl, _⟩; rfl
    · simp only [h1, h2, if_true, true_and]
      constructor
      · intro h; cases h
      · rintro ⟨rfl, h⟩; exact absurd h h2
  · simp [h1]

theorem mem_inverseIntern5 {p : Params R} {pose : Iso R} {j6 : R} {s : J6 R} :
    s ∈ inverseIntern5 p pose j6 ↔
      ∃ t ∈ thetaCandidates p pose,
        ({ jointsOf p t with j6 := j6 } : J6 R).first5Finite = true ∧
        s = norm5 (jointsOf p t) j6 ∧ Sound5 p pose s := by
  unfold inverseIntern5
  rw [List.mem_filterMap]
  constructor
  · rintro ⟨t, ht, h⟩; exact ⟨t, ht, finishCandidate5_eq_some.mp h⟩
  · rintro ⟨t, ht, h⟩; exact ⟨t, ht, finishCandidate5_eq_some.mpr h⟩

theorem sound5_of_mem_inverseIntern5 {p : Params R} {pose : Iso R} {j6 : R} {s : J6 R}
    (h : s ∈ inverseIntern5 p pose j6) : Sound5 p pose s ∧ s.j6 = j6 := by
  obtain ⟨_, _, _, rfl, hs⟩ := mem_inverseIntern5.mp h
  exact ⟨hs, rfl⟩

/-! ### Constraint filtering and sorting keep membership -/

theorem mem_filterCompliant {k : Opw R} {l : List (J6 R)} {s : J6 R} :
    s ∈ k.filterCompliant l ↔ s ∈ l ∧ k.compliant s = true := by
  unfold Opw.filterCompliant Opw.compliant
  cases k.cons with
  | none => simp
  | some c => simp [Constraints.filter, List.mem_filter]

theorem mem_of_mem_filterCompliant {k : Opw R} {l : List (J6 R)} {s : J6 R}
    (h : s ∈ k.filterCompliant l) : s ∈ l := (mem_filterCompliant.mp h).1

theorem mem_sortByCloseness {k : Opw R} {l : List (J6 R)} {prev s : J6 R} :
    s ∈ k.sortByCloseness l prev ↔ s ∈ l := by
  unfold Opw.sortByCloseness
  exact (List.mergeSort_perm _ _).mem_iff

theorem compliant_of_cons {k : Opw R} {c : Constraints R} {s : J6 R}
    (hc : k.cons = some c) (h : k.compliant s = true) : c.compliant s = true := by
  unfold Opw.compliant at h
  rw [hc] at h
  exact h

/-! ### The `'shifts` loop of `inverse_continuing` -/

/-- the first component of `shiftStep` keeps the old solutions, possibly adds the raw solutions of
the shifted pose (only if there were none so far) and possibly one recovered singular candidate,
which passed the cross-check against the REQUESTED pose and the constraints. -/
theorem mem_shiftStep {k : Opw R} {pose : Iso R} {previous : J6 R} {sols : List (J6 R)} {d : V3 R}
    {s : J6 R} (h : s ∈ (shiftStep k pose previous sols d).1) :
    s ∈ sols ∨ (Sound k.p pose s ∧ k.compliant s = true) ∨
      (sols = [] ∧ s ∈ inverseIntern k.p (shiftPose pose d)) := by
  unfold shiftStep at h
  simp only [] at h
  have hsols1 : ∀ x, x ∈ (if sols.isEmpty = true then
        sols ++ inverseIntern k.p (shiftPose pose d) else sols) →
      x ∈ sols ∨ (sols = [] ∧ x ∈ inverseIntern k.p (shiftPose pose d)) := by
    intro x hx
    by_cases he : sols.isEmpty = true
    · rw [if_pos he] at hx
      have : sols = [] := List.isEmpty_iff.mp he
      subst this
      right; exact ⟨rfl, by simpa using hx⟩
    · rw [if_neg he] at hx; exact Or.inl hx
  change s ∈ (match (inverseIntern k.p (shiftPose pose d)).find?
      (fun s => kinematicSingularity k.p s && s.allFinite) with
    | none => ((if sols.isEmpty = true then
        sols ++ inverseIntern k.p (shiftPose pose d) else sols), false)
    | some s0 =>
      if (comparePoses pose (forward k.p (singularCandidate k.p previous s0)) distTol angTol
            && k.compliant (singularCandidate k.p previous s0)) = true then
        ((if sols.isEmpty = true then
          sols ++ inverseIntern k.p (shiftPose pose d) else sols)
          ++ [singularCandidate k.p previous s0], true)
      else ((if sols.isEmpty = true then
        sols ++ inverseIntern k.p (shiftPose pose d) else sols), false)).1 at h
  split at h
  · rcases hsols1 _ h with h | h
    · exact Or.inl h
    · exact Or.inr (Or.inr h)
  · split at h
    · rename_i hchk
      rw [Bool.and_eq_true] at hchk
      rcases List.mem_append.mp h with h | h
      · rcases hsols1 _ h with h | h
        · exact Or.inl h
        · exact Or.inr (Or.inr h)
      · obtain rfl := List.mem_singleton.mp h
        exact Or.inr (Or.inl ⟨hchk.1, hchk.2⟩)
    · rcases hsols1 _ h with h | h
      · exact Or.inl h
      · exact Or.inr (Or.inr h)

/-- nothing is ever removed by a step -/
theorem shiftStep_subset {k : Opw R} {pose : Iso R} {previous : J6 R} {sols : List (J6 R)} {d : V3 R}
    {s : J6 R} (h : s ∈ sols) : s ∈ (shiftStep k pose previous sols d).1 := by
  unfold shiftStep
  simp only []
  have h1 : s ∈ (if sols.isEmpty = true then
      sols ++ inverseIntern k.p (shiftPose pose d) else sols) := by
    split
    · exact List.mem_append_left _ h
    · exact h
  change s ∈ (match (inverseIntern k.p (shiftPose pose d)).find?
      (fun s => kinematicSingularity k.p s && s.allFinite) with
    | none => ((if sols.isEmpty = true then
        sols ++ inverseIntern k.p (shiftPose pose d) else sols), false)
    | some s0 =>
      if (comparePoses pose (forward k.p (singularCandidate k.p previous s0)) distTol angTol
            && k.compliant (singularCandidate k.p previous s0)) = true then
        ((if sols.isEmpty = true then
          sols ++ inverseIntern k.p (shiftPose pose d) else sols)
          ++ [singularCandidate k.p previous s0], true)
      else ((if sols.isEmpty = true then
        sols ++ inverseIntern k.p (shiftPose pose d) else sols), false)).1
  split
  · exact h1
  · split
    · exact List.mem_append_left _ h1
    · exact h1

/-- Invariant of the `'shifts` loop (induction over the remaining shifts).  Every vector in the
result was already there, or passed the cross-check against the requested pose (recovered singular
candidate), or — only when the loop was entered with no solutions — is a raw solution of the FIRST
shifted pose whose raw solution list is non-empty. -/
theorem mem_shiftLoop {k : Opw R} {pose : Iso R} {previous : J6 R} :
    ∀ (ds : List (V3 R)) (sols : List (J6 R)) (s : J6 R),
      s ∈ shiftLoop k pose previous ds sols →
      s ∈ sols ∨ (Sound k.p pose s ∧ k.compliant s = true) ∨
        (sols = [] ∧ ∃ pre d post, ds = pre ++ d :: post ∧
          (∀ d' ∈ pre, inverseIntern k.p (shiftPose pose d') = []) ∧
          s ∈ inverseIntern k.p (shiftPose pose d)) := by
  intro ds
  induction ds with
  | nil => intro sols s h; exact Or.inl (by simpa [shiftLoop] using h)
  | cons d ds ih =>
    intro sols s h
    have hstep : ∀ x, x ∈ (shiftStep k pose previous sols d).1 →
        x ∈ sols ∨ (Sound k.p pose x ∧ k.compliant x = true) ∨
          (sols = [] ∧ ∃ pre d0 post, d :: ds = pre ++ d0 :: post ∧
            (∀ d' ∈ pre, inverseIntern k.p (shiftPose pose d') = []) ∧
            x ∈ inverseIntern k.p (shiftPose pose d0)) := by
      intro x hx
      rcases mem_shiftStep hx with hx | hx | ⟨he, hx⟩
      · exact Or.inl hx
      · exact Or.inr (Or.inl hx)
      · exact Or.inr (Or.inr ⟨he, [], d, ds, rfl, by simp, hx⟩)
    unfold shiftLoop at h
    generalize hst : shiftStep k pose previous sols d = st at h hstep
    obtain ⟨sols', brk⟩ := st
    simp only [] at h hstep
    cases brk with
    | true =>
      simp only [if_true] at h
      exact hstep s h
    | false =>
      simp only [Bool.false_eq_true, if_false] at h
      rcases ih sols' s h with h | h | ⟨he, pre, d0, post, hds, hpre, hs⟩
      · exact hstep s h
      · exact Or.inr (Or.inl h)
      · -- `sols'` is empty: so `sols` was empty and the raw solution list of this shift is empty
        subst he
        have hsols : sols = [] := by
          cases sols with
          | nil => rfl
          | cons a l =>
            have : a ∈ (shiftStep k pose previous (a :: l) d).1 :=
              shiftStep_subset (List.mem_cons_self ..)
            rw [hst] at this
            cases this
        subst hsols
        have hik : inverseIntern k.p (shiftPose pose d) = [] := by
          -- `[] ++ ik ⊆ sols' = []`
          apply List.eq_nil_iff_forall_not_mem.mpr
          intro x hx
          have hx' : x ∈ (shiftStep k pose previous [] d).1 := by
            unfold shiftStep
            simp only []
            change x ∈ (match (inverseIntern k.p (shiftPose pose d)).find?
                (fun s => kinematicSingularity k.p s && s.allFinite) with
              | none => ((if ([] : List (J6 R)).isEmpty = true then
                  [] ++ inverseIntern k.p (shiftPose pose d) else []), false)
              | some s0 =>
                if (comparePoses pose (forward k.p (singularCandidate k.p previous s0)) distTol angTol
                      && k.compliant (singularCandidate k.p previous s0)) = true then
                  ((if ([] : List (J6 R)).isEmpty = true then
                    [] ++ inverseIntern k.p (shiftPose pose d) else [])
                    ++ [singularCandidate k.p previous s0], true)
                else ((if ([] : List (J6 R)).isEmpty = true then
                  [] ++ inverseIntern k.p (shiftPose pose d) else []), false)).1
            split
            · simpa using hx
            · split
              · simp [hx]
              · simpa using hx
          rw [hst] at hx'
          cases hx'
        refine Or.inr (Or.inr ⟨rfl, d :: pre, d0, post, by rw [hds]; rfl, ?_, hs⟩)
        intro d' hd'
        rcases List.mem_cons.mp hd' with rfl | hd'
        · exact hik
        · exact hpre d' hd'

/-! ### Wrapper stacks -/

namespace Kin

/-- stacks built from `Tool`, `Base`, `Frame` around an `OPWKinematics` only -/
def plain : Kin R → Prop
  | opw _ => True
  | tool i _ => plain i
  | base i _ => plain i
  | frame i _ => plain i
  | para _ _ _ _ => False
  | shape _ _ => False

/-- stacks without a `Parallelogram` (collision-filtering `KinematicsWithShape` allowed) -/
def noPara : Kin R → Prop
  | opw _ => True
  | tool i _ => noPara i
  | base i _ => noPara i
  | frame i _ => noPara i
  | para _ _ _ _ => False
  | shape i _ => noPara i

omit [OpwNum R] in
theorem plain.noPara : ∀ {k : Kin R}, k.plain → k.noPara
  | opw _, _ => trivial
  | tool i _, h => plain.noPara (k := i) h
  | base i _, h => plain.noPara (k := i) h
  | frame i _, h => plain.noPara (k := i) h
  | para _ _ _ _, h => h.elim
  | shape _ _, h => h.elim

/-- the pose the innermost solver is asked for: the wrappers stripped from outside in -/
def localPose : Kin R → Iso R → Iso R
  | opw _, pose => pose
  | tool i t, pose => localPose i (pose.mul t.inv)
  | base i b, pose => localPose i (b.inv.mul pose)
  | frame i f, pose => localPose i (pose.mul f.inv)
  | para i _ _ _, pose => localPose i pose
  | shape i _, pose => localPose i pose

theorem plain_inverse_eq : ∀ (k : Kin R), k.plain → ∀ pose,
    k.inverse pose = k.core.inverse (k.localPose pose)
  | opw _, _, _ => rfl
  | tool i _, h, pose => by simpa [inverse, core, localPose] using plain_inverse_eq i h _
  | base i _, h, pose => by simpa [inverse, core, localPose] using plain_inverse_eq i h _
  | frame i _, h, pose => by simpa [inverse, core, localPose] using plain_inverse_eq i h _
  | para _ _ _ _, h, _ => h.elim
  | shape _ _, h, _ => h.elim

theorem plain_inverseContinuing_eq : ∀ (k : Kin R), k.plain → ∀ pose prev,
    k.inverseContinuing pose prev = k.core.inverseContinuing (k.localPose pose) prev
  | opw _, _, _, _ => rfl
  | tool i _, h, pose, prev => by
    simpa [inverseContinuing, core, localPose] using plain_inverseContinuing_eq i h _ prev
  | base i _, h, pose, prev => by
    simpa [inverseContinuing, core, localPose] using plain_inverseContinuing_eq i h _ prev
  | frame i _, h, pose, prev => by
    simpa [inverseContinuing, core, localPose] using plain_inverseContinuing_eq i h _ prev
  | para _ _ _ _, h, _, _ => h.elim
  | shape _ _, h, _, _ => h.elim

theorem plain_inverse5dof_eq : ∀ (k : Kin R), k.plain → ∀ pose j6,
    k.inverse5dof pose j6 = k.core.inverse5dof (k.localPose pose) j6
  | opw _, _, _, _ => rfl
  | tool i _, h, pose, j6 => by
    simpa [inverse5dof, core, localPose] using plain_inverse5dof_eq i h _ j6
  | base i _, h, pose, j6 => by
    simpa [inverse5dof, core, localPose] using plain_inverse5dof_eq i h _ j6
  | frame i _, h, pose, j6 => by
    simpa [inverse5dof, core, localPose] using plain_inverse5dof_eq i h _ j6
  | para _ _ _ _, h, _, _ => h.elim
  | shape _ _, h, _, _ => h.elim

theorem plain_inverseContinuing5dof_eq : ∀ (k : Kin R), k.plain → ∀ pose prev,
    k.inverseContinuing5dof pose prev = k.core.inverseContinuing5dof (k.localPose pose) prev
  | opw _, _, _, _ => rfl
  | tool i _, h, pose, prev => by
    simpa [inverseContinuing5dof, core, localPose] using plain_inverseContinuing5dof_eq i h _ prev
  | base i _, h, pose, prev => by
    simpa [inverseContinuing5dof, core, localPose] using plain_inverseContinuing5dof_eq i h _ prev
  | frame i _, h, pose, prev => by
    simpa [inverseContinuing5dof, core, localPose] using plain_inverseContinuing5dof_eq i h _ prev
  | para _ _ _ _, h, _, _ => h.elim
  | shape _ _, h, _, _ => h.elim

/-- with collision filtering in the stack: membership instead of equality -/
theorem noPara_inverse_mem : ∀ (k : Kin R), k.noPara → ∀ pose s,
    s ∈ k.inverse pose → s ∈ k.core.inverse (k.localPose pose)
  | opw _, _, _, _, hs => hs
  | tool i _, h, _, s, hs => noPara_inverse_mem i h _ s hs
  | base i _, h, _, s, hs => noPara_inverse_mem i h _ s hs
  | frame i _, h, _, s, hs => noPara_inverse_mem i h _ s hs
  | para _ _ _ _, h, _, _, _ => h.elim
  | shape i _, h, _, s, hs =>
    noPara_inverse_mem i h _ s (List.mem_filter.mp hs).1

theorem noPara_inverseContinuing_mem : ∀ (k : Kin R), k.noPara → ∀ pose prev s,
    s ∈ k.inverseContinuing pose prev → s ∈ k.core.inverseContinuing (k.localPose pose) prev
  | opw _, _, _, _, _, hs => hs
  | tool i _, h, _, prev, s, hs => noPara_inverseContinuing_mem i h _ prev s hs
  | base i _, h, _, prev, s, hs => noPara_inverseContinuing_mem i h _ prev s hs
  | frame i _, h, _, prev, s, hs => noPara_inverseContinuing_mem i h _ prev s hs
  | para _ _ _ _, h, _, _, _, _ => h.elim
  | shape i _, h, _, prev, s, hs =>
    noPara_inverseContinuing_mem i h _ prev s (List.mem_filter.mp hs).1

theorem noPara_inverse5dof_mem : ∀ (k : Kin R), k.noPara → ∀ pose j6 s,
    s ∈ k.inverse5dof pose j6 → s ∈ k.core.inverse5dof (k.localPose pose) j6
  | opw _, _, _, _, _, hs => hs
  | tool i _, h, _, j6, s, hs => noPara_inverse5dof_mem i h _ j6 s hs
  | base i _, h, _, j6, s, hs => noPara_inverse5dof_mem i h _ j6 s hs
  | frame i _, h, _, j6, s, hs => noPara_inverse5dof_mem i h _ j6 s hs
  | para _ _ _ _, h, _, _, _, _ => h.elim
  | shape i _, h, _, j6, s, hs =>
    noPara_inverse5dof_mem i h _ j6 s (List.mem_filter.mp hs).1

theorem noPara_inverseContinuing5dof_mem : ∀ (k : Kin R), k.noPara → ∀ pose prev s,
    s ∈ k.inverseContinuing5dof pose prev →
      s ∈ k.core.inverseContinuing5dof (k.localPose pose) prev
  | opw _, _, _, _, _, hs => hs
  | tool i _, h, _, prev, s, hs => noPara_inverseContinuing5dof_mem i h _ prev s hs
  | base i _, h, _, prev, s, hs => noPara_inverseContinuing5dof_mem i h _ prev s hs
  | frame i _, h, _, prev, s, hs => noPara_inverseContinuing5dof_mem i h _ prev s hs
  | para _ _ _ _, h, _, _, _, _ => h.elim
  | shape i _, h, _, prev, s, hs =>
    noPara_inverseContinuing5dof_mem i h _ prev s (List.mem_filter.mp hs).1

end Kin

/-! ### Concrete `Float` objects for the `example`s in `Props/` -/

namespace Ex

/-- a 6-DOF parameter set (IRB 2400/10-like numbers) -/
def p6 : Params Float :=
  ⟨0.1, -0.135, 0.0, 0.615, 0.705, 0.755, 0.085,
   ⟨0.0, 0.0, -1.5707963267948966, 0.0, 0.0, 0.0⟩, ⟨1.0, 1.0, 1.0, 1.0, 1.0, 1.0⟩, 6⟩

/-- the same geometry declared 5-DOF -/
def p5 : Params Float := { p6 with dof := 5 }

/-- limits -90°..90° on every joint, sort by previous -/
def cons : Constraints Float :=
  Constraints.ofDegrees ⟨-90.0, -90.0, -90.0, -90.0, -90.0, -90.0⟩ ⟨90.0, 90.0, 90.0, 90.0, 90.0, 90.0⟩
    byPrev

def k6 : Opw Float := ⟨p6, none⟩
def k6c : Opw Float := ⟨p6, some cons⟩
def k5 : Opw Float := ⟨p5, none⟩
def k5c : Opw Float := ⟨p5, some cons⟩

def pose : Iso Float := ⟨⟨0.9, 0.1, 1.2⟩, ⟨1.0, 0.0, 0.0, 0.0⟩⟩
def prev : J6 Float := ⟨0.1, 0.2, 0.3, 0.4, 0.5, 0.6⟩
def tcp : Iso Float := ⟨⟨0.0, 0.0, 0.2⟩, ⟨1.0, 0.0, 0.0, 0.0⟩⟩

/-- tool on a robot on a base, in a frame -/
def stack6 : Kin Float := .frame (.base (.tool (.opw k6c) tcp) tcp) tcp
/-- the same with collision filtering on top (nothing collides) -/
def stack6s : Kin Float := .shape stack6 (fun _ => false)
def stack5 : Kin Float := .tool (.opw k5c) tcp

theorem p6_dof : p6.dof ≠ 5 := by decide
theorem p5_dof : p5.dof = 5 := rfl
theorem stack6_plain : stack6.plain := trivial
theorem stack5_plain : stack5.plain := trivial
theorem stack6s_noPara : stack6s.noPara := trivial

end Ex

end Opw
