/-
  The closed form of `forward` equals the product of the six elementary joint rotations and the
  accumulated link offsets (real arithmetic).
-/
import OpwVerif.Kin
import OpwVerif.Lemmas.GeomReal
namespace Opw

/-- `r_0c * r_ce` is the product of the six elementary rotations (polynomial identity). -/
theorem closed_rot_eq_product (s1 c1 s2 c2 s3 c3 s4 c4 s5 c5 s6 c6 : ℝ) :
    (r0c s1 c1 s2 c2 s3 c3).mul (rce s4 c4 s5 c5 s6 c6) =
    (((((M3.rz s1 c1).mul (M3.ry s2 c2)).mul (M3.ry s3 c3)).mul (M3.rz s4 c4)).mul (M3.ry s5 c5)).mul (M3.rz s6 c6) := by
  apply M3.ext' <;> simp [M3.mul, r0c, rce, M3.rz, M3.ry] <;> ring

end Opw

namespace Opw

/-- `κ cos ψ₃ = c₃` for `κ = √(a₂² + c₃²)`, `ψ₃ = atan2 a₂ c₃` -/
theorem kappa_cos (a c : ℝ) : Real.sqrt (a * a + c * c) * Real.cos (Complex.arg ⟨c, a⟩) = c := by
  by_cases h : (⟨c, a⟩ : ℂ) = 0
  · have hc : c = 0 := by simpa using congrArg Complex.re h
    have ha : a = 0 := by simpa using congrArg Complex.im h
    subst hc; subst ha; simp
  · rw [Complex.cos_arg h]
    have hn : ‖(⟨c, a⟩ : ℂ)‖ = Real.sqrt (a * a + c * c) := by
      rw [Complex.norm_def, Complex.normSq_mk]; congr 1; ring
    rw [hn]
    have hpos : Real.sqrt (a * a + c * c) ≠ 0 := by rw [← hn]; exact norm_ne_zero_iff.mpr h
    simp only
    rw [mul_div_assoc', mul_comm, mul_div_assoc, div_self hpos, mul_one]

/-- `κ sin ψ₃ = a₂` -/
theorem kappa_sin (a c : ℝ) : Real.sqrt (a * a + c * c) * Real.sin (Complex.arg ⟨c, a⟩) = a := by
  by_cases h : (⟨c, a⟩ : ℂ) = 0
  · have hc : c = 0 := by simpa using congrArg Complex.re h
    have ha : a = 0 := by simpa using congrArg Complex.im h
    subst hc; subst ha; simp
  · rw [Complex.sin_arg]
    have hn : ‖(⟨c, a⟩ : ℂ)‖ = Real.sqrt (a * a + c * c) := by
      rw [Complex.norm_def, Complex.normSq_mk]; congr 1; ring
    rw [hn]
    have hpos : Real.sqrt (a * a + c * c) ≠ 0 := by rw [← hn]; exact norm_ne_zero_iff.mpr h
    simp only
    rw [mul_div_assoc', mul_comm, mul_div_assoc, div_self hpos, mul_one]

/-! Reference chain in matrix form: products of elementary rotations and accumulated offsets. -/
noncomputable def rot1 (q : J6 ℝ) : M3 ℝ := M3.rz (Real.sin q.j1) (Real.cos q.j1)
noncomputable def rot2 (q : J6 ℝ) : M3 ℝ := (rot1 q).mul (M3.ry (Real.sin q.j2) (Real.cos q.j2))
noncomputable def rot3 (q : J6 ℝ) : M3 ℝ := (rot2 q).mul (M3.ry (Real.sin q.j3) (Real.cos q.j3))
noncomputable def rot4 (q : J6 ℝ) : M3 ℝ := (rot3 q).mul (M3.rz (Real.sin q.j4) (Real.cos q.j4))
noncomputable def rot5 (q : J6 ℝ) : M3 ℝ := (rot4 q).mul (M3.ry (Real.sin q.j5) (Real.cos q.j5))
noncomputable def rot6 (q : J6 ℝ) : M3 ℝ := (rot5 q).mul (M3.rz (Real.sin q.j6) (Real.cos q.j6))

noncomputable def org1 (p : Params ℝ) (_q : J6 ℝ) : V3 ℝ := ⟨0, 0, p.c1⟩
noncomputable def org2 (p : Params ℝ) (q : J6 ℝ) : V3 ℝ := (org1 p q).add ((rot1 q).mulVec ⟨p.a1, p.b, 0⟩)
noncomputable def org3 (p : Params ℝ) (q : J6 ℝ) : V3 ℝ := (org2 p q).add ((rot2 q).mulVec ⟨0, 0, p.c2⟩)
noncomputable def org4 (p : Params ℝ) (q : J6 ℝ) : V3 ℝ := (org3 p q).add ((rot3 q).mulVec ⟨p.a2, 0, 0⟩)
noncomputable def org5 (p : Params ℝ) (q : J6 ℝ) : V3 ℝ := (org4 p q).add ((rot4 q).mulVec ⟨0, 0, p.c3⟩)
noncomputable def org6 (p : Params ℝ) (q : J6 ℝ) : V3 ℝ := (org5 p q).add ((rot5 q).mulVec ⟨0, 0, p.c4⟩)

theorem forwardTheta_rot (p : Params ℝ) (q : J6 ℝ) : (forwardTheta p q).1 = rot6 q := by
  simp only [forwardTheta, rot6, rot5, rot4, rot3, rot2, rot1, nsin_real, ncos_real]
  exact closed_rot_eq_product _ _ _ _ _ _ _ _ _ _ _ _

theorem forwardTheta_tr (p : Params ℝ) (q : J6 ℝ) : (forwardTheta p q).2 = org6 p q := by
  have hc := kappa_cos p.a2 p.c3
  have hs := kappa_sin p.a2 p.c3
  apply V3.ext' <;>
    simp [forwardTheta, org6, org5, org4, org3, org2, org1, rot5, rot4, rot3, rot2, rot1, V3.add, M3.mulVec, M3.mul,
      M3.rz, M3.ry, M3.scaleL, V3.ez, r0c, rce, Real.sin_add, Real.cos_add]
  · linear_combination ((Real.sin q.j2 * Real.cos q.j3 + Real.cos q.j2 * Real.sin q.j3) * Real.cos q.j1) * hc +
      ((Real.cos q.j2 * Real.cos q.j3 - Real.sin q.j2 * Real.sin q.j3) * Real.cos q.j1) * hs
  · linear_combination ((Real.sin q.j2 * Real.cos q.j3 + Real.cos q.j2 * Real.sin q.j3) * Real.sin q.j1) * hc +
      ((Real.cos q.j2 * Real.cos q.j3 - Real.sin q.j2 * Real.sin q.j3) * Real.sin q.j1) * hs
  · linear_combination (Real.cos q.j2 * Real.cos q.j3 - Real.sin q.j2 * Real.sin q.j3) * hc -
      (Real.sin q.j2 * Real.cos q.j3 + Real.cos q.j2 * Real.sin q.j3) * hs

end Opw
