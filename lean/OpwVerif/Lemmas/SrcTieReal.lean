/-
  Real-number version of the source tie, robust against algebraically harmless rewrites of `forward` in the source:
  each goal is closed by `rfl` if the translated text is definitionally the model, otherwise by
  unfolding both sides and normalising with `ring_nf` inside the transcendental functions.
-/
import OpwVerif.Generated.Src
import OpwVerif.Lemmas.Fk
namespace Opw.SrcTieReal
open Opw
attribute [-simp] Opw.ofNatLit_real
set_option linter.unusedTactic false
set_option linter.unreachableTactic false

theorem thetaOf_tie (p : Params ℝ) (j : J6 ℝ) : Src.thetaOfSrc p j = thetaOf p j := by
  first
  | rfl
  | (simp only [Src.thetaOfSrc, thetaOf]; congr 1 <;> ring)

theorem forwardTheta_tie (p : Params ℝ) (q : J6 ℝ) : Src.forwardThetaSrc p q = forwardTheta p q := by
  first
  | rfl
  | (simp only [Src.forwardThetaSrc, forwardTheta, r0c, rce, M3.mul, M3.scaleL, M3.mulVec, V3.add, V3.ez,
       nsin_real, ncos_real, nsqrt_real, natan2_real, lit0, lit1, lit2]
     refine Prod.ext ?_ ?_
     · apply M3.ext' <;> first | rfl | ring
     · apply V3.ext' <;> first | rfl | ring)

theorem thetaCandidates_tie (p : Params ℝ) (pose : Iso ℝ) :
    Src.thetaCandidatesSrc p pose = thetaCandidates p pose := by
  -- the inverse formulas go through atan2/acos/sqrt: only the literal text is accepted here
  rfl

end Opw.SrcTieReal
