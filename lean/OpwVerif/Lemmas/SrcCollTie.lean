/-
  Tie between the collision model (`Collisions.lean`) and the per-pair decision `CollisionTask::collides` translated
  from the CURRENT source text (`Generated/SrcColl.lean`, rewritten by `tools/rs2lean_ctl.py coll` on every run): the
  order of the three cases (never-colliding, touch only, distance with the AABB pre-filter) and their comparisons.
-/
import OpwVerif.Generated.SrcColl
namespace Opw
variable {R : Type} [OpwNum R]

theorem taskCollidesSrc_eq (sc : Scene R) (safety : Safety R) (i j : Nat) :
    SrcColl.taskCollidesSrc (safety.minDistance i j) (sc.intersects i j)
      (sc.aabbNear i j (safety.minDistance i j)) (sc.distance i j) = taskCollides sc safety i j := rfl

/-- `check_required` (with the translated `min_distance`) -/
theorem checkRequiredSrc_eq (own : Safety R) (skip : List Nat) (i j : Nat) :
    SrcColl.checkRequiredSrc own skip i j = checkRequired own skip i j := rfl

theorem ite_ite_nil {β : Type} (a b : Bool) (x : List β) :
    (if a = true then (if b = true then x else []) else []) = if (a && b) = true then x else [] := by
  cases a <;> cases b <;> rfl

theorem flatMap_ite_single {α β : Type} (l : List α) (c : α → Bool) (g : α → β) :
    l.flatMap (fun x => if c x = true then [g x] else []) = l.filterMap (fun x => if c x = true then some (g x) else none) := by
  induction l with
  | nil => rfl
  | cons a t ih =>
    simp only [List.flatMap_cons, List.filterMap_cons, ih]
    cases c a <;> simp

theorem flatMap_guard_single {α β : Type} (l : List α) (p : α → Prop) [DecidablePred p] (c : α → Bool) (g : α → β) :
    l.flatMap (fun x => if p x then (if c x = true then [g x] else []) else []) =
      l.filterMap (fun x => if (decide (p x) && c x) = true then some (g x) else none) := by
  induction l with
  | nil => rfl
  | cons a t ih =>
    simp only [List.flatMap_cons, List.filterMap_cons, ih]
    by_cases h : p a <;> cases c a <;> simp [h]

/-- the task list of `detect_collisions_with_skips`: nested `for` / `if` / `if let` blocks of the source, read as list
comprehensions, give the model's `tasks` (same pairs, same push order) -/
theorem tasksSrc_eq (sc : Scene R) (own : Safety R) (skip : List Nat) :
    SrcColl.tasksSrc sc own skip = tasks sc own skip := by
  unfold SrcColl.tasksSrc tasks
  simp only [ite_ite_nil, flatMap_ite_single, flatMap_guard_single, Bool.and_assoc]

end Opw
