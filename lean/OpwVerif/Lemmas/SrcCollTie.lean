/-
  Tie between the collision model (`Collisions.lean`) and the per-pair decision `CollisionTask::collides` translated
  from the CURRENT source text (`Generated/SrcColl.lean`, rewritten by `tools/rs2lean_ctl.py coll` on every run): the
  order of the three cases (never-colliding, touch only, distance with the AABB pre-filter) and their comparisons.
-/
import OpwVerif.Generated.SrcColl
namespace Opw
variable {R : Type} [OpwNum R]

theorem taskCollidesSrc_eq (sc : Scene R) (safety : Safety R) (i j : Nat) :
    SrcColl.taskCollidesSrc (safety.minDistance i j) (sc.intersects i j)
      (sc.aabbNear i j (safety.minDistance i j)) (sc.distance i j) = taskCollides sc safety i j := rfl

/-- `check_required` (with the translated `min_distance`) -/
theorem checkRequiredSrc_eq (own : Safety R) (skip : List Nat) (i j : Nat) :
    SrcColl.checkRequiredSrc own skip i j = checkRequired own skip i j := rfl

theorem ite_ite_nil {β : Type} (a b : Bool) (x : List β) :
    (if a = true then (if b = true then x else []) else []) = if (a && b) = true then x else [] := by
  cases a <;> cases b <;> rfl

theorem flatMap_ite_single {α β : Type} (l : List α) (c : α → Bool) (g : α → β) :
    l.flatMap (fun x => if c x = true then [g x] else []) = l.filterMap (fun x => if c x = true then some (g x) else none) := by
  induction l with
  | nil => rfl
  | cons a t ih =>
    simp only [List.flatMap_cons, List.filterMap_cons, ih]
    cases c a <;> simp

theorem flatMap_guard_single {α β : Type} (l : List α) (p : α → Prop) [DecidablePred p] (c : α → Bool) (g : α → β) :
    l.flatMap (fun x => if p x then (if c x = true then [g x] else []) else []) =
      l.filterMap (fun x => if (decide (p x) && c x) = true then some (g x) else none) := by
  induction l with
  | nil => rfl
  | cons a t ih =>
    simp only [List.flatMap_cons, List.filterMap_cons, ih]
    by_cases h : p a <;> cases c a <;> simp [h]

/-- the task list of `detect_collisions_with_skips`: nested `for` / `if` / `if let` blocks of the source, read as list
comprehensions, give the model's `tasks` (same pairs, same push order) -/
theorem tasksSrc_eq (sc : Scene R) (own : Safety R) (skip : List Nat) :
    SrcColl.tasksSrc sc own skip = tasks sc own skip := by
  unfold SrcColl.tasksSrc tasks
  simp only [ite_ite_nil, flatMap_ite_single, flatMap_guard_single, Bool.and_assoc]

/-! ### the public methods of `RobotBody` and `process_collision_tasks` -/

theorem processTasksSrc_eq (sc : Scene R) (safety : Safety R) (om : Option CheckMode) (ts : List (Nat × Nat))
    (choice : List (Nat × Nat) → Option (Nat × Nat)) :
    SrcColl.processTasksSrc sc safety om ts choice = processTasks sc safety (om.getD safety.mode) ts choice := by
  unfold SrcColl.processTasksSrc processTasks
  cases om.getD safety.mode <;> rfl

theorem detectCollisionsSrc_eq (sc : Scene R) (own safety : Safety R) (om : Option CheckMode)
    (choice : List (Nat × Nat) → Option (Nat × Nat)) :
    SrcColl.detectCollisionsSrc sc own safety om choice = detect sc own safety om [] choice := by
  unfold SrcColl.detectCollisionsSrc detect
  rw [processTasksSrc_eq, tasksSrc_eq]

theorem collisionDetailsSrc_eq (sc : Scene R) (own other : Safety R) (choice : List (Nat × Nat) → Option (Nat × Nat)) :
    SrcColl.collisionDetailsSrc sc own other choice = collisionDetails sc own choice := by
  unfold SrcColl.collisionDetailsSrc collisionDetails; exact detectCollisionsSrc_eq ..

theorem nearSrc_eq (sc : Scene R) (own other : Safety R) (choice : List (Nat × Nat) → Option (Nat × Nat)) :
    SrcColl.nearSrc sc own other choice = near sc own other choice := by
  unfold SrcColl.nearSrc near; exact detectCollisionsSrc_eq ..

theorem collidesSrc_eq (sc : Scene R) (own : Safety R) (choice : List (Nat × Nat) → Option (Nat × Nat)) :
    SrcColl.collidesSrc sc own choice = collides sc own choice := by
  unfold SrcColl.collidesSrc collides detect
  rw [processTasksSrc_eq, tasksSrc_eq]

theorem nonCollidingOffsetsSrc_eq (sceneAt : J6 R → Scene R) (unchanged : J6 R → Nat → Bool) (own : Safety R)
    (cons : Option (Constraints R)) (initial f t : J6 R) (choice : List (Nat × Nat) → Option (Nat × Nat)) :
    SrcColl.nonCollidingOffsetsSrc sceneAt unchanged own cons initial f t choice =
      nonCollidingOffsets sceneAt unchanged own cons initial f t choice := by
  unfold SrcColl.nonCollidingOffsetsSrc nonCollidingOffsets offsetCandidates skipOf detect
  simp only [processTasksSrc_eq, tasksSrc_eq, List.filterMap_flatMap, List.map_cons, List.map_nil]
  congr 1
  funext k
  cases cons <;> simp [List.filterMap_cons]
end Opw
