/-
  Tie between the collision model (`Collisions.lean`) and the per-pair decision `CollisionTask::collides` translated
  from the CURRENT source text (`Generated/SrcColl.lean`, rewritten by `tools/rs2lean_ctl.py coll` on every run): the
  order of the three cases (never-colliding, touch only, distance with the AABB pre-filter) and their comparisons.
-/
import OpwVerif.Generated.SrcColl
namespace Opw
variable {R : Type} [OpwNum R]

theorem taskCollidesSrc_eq (sc : Scene R) (safety : Safety R) (i j : Nat) :
    SrcColl.taskCollidesSrc (safety.minDistance i j) (sc.intersects i j)
      (sc.aabbNear i j (safety.minDistance i j)) (sc.distance i j) = taskCollides sc safety i j := rfl

end Opw
