/-
  Lemmas for C02 ("the answer set contains no duplicates"), real arithmetic.

  The eight raw candidates `thetaCandidates p pose` are `[A, B, C, D, flip A, flip B, flip C, flip D]`
  where `A, B` share the front shoulder angle `θ1_i`, `C, D` the back shoulder angle `θ1_ii`, and
  the two members of each pair differ by the sign of the elbow `acos` (`tmp11` for `A, B`, `tmp12`
  for `C, D`).

  Stages
  * T   tools: `not_turnEq_of_sub`, `not_turnEq_add_pi`;
  * P   list shape: `pairwise8` (eight-element list `[A,B,C,D,flip A,…]` is pairwise distinct modulo
        whole turns once the four arm solutions differ pairwise in `θ1` or `θ3`);
  * G   generic pose: `candidates_pairwise_of` (hypotheses on `th1i/th1ii`, `tmp11`, `tmp12`);
  * S   the pose of a non-singular `θ`: `shoulder_distinct`, `tmp11_own`, `tmp12_own`,
        `tmp11_other`, `tmp12_other`;
  * F   through `finishCandidate` (`jointsOf`, `normPi`, filter): `inverseIntern_pairwise_of`.
-/
import OpwVerif.Lemmas.IkComplete

attribute [-simp] Opw.ofNatLit_real

namespace Opw.IkDistinct
open Opw Opw.Wrist Opw.C02 Opw.IkComplete

/-! ### T. Tools -/

/-- two angles whose difference lies strictly between `0` and `2π` are not congruent -/
theorem not_turnEq_of_sub {a b : ℝ} (h0 : 0 < a - b) (h1 : a - b < 2 * Real.pi) : ¬ TurnEq a b := by
  rintro ⟨k, hk⟩
  have hp := Real.pi_pos
  have e : a - b = 2 * Real.pi * k := by rw [hk]; ring
  rw [e] at h0 h1
  have k0 : (0 : ℝ) < k := by
    by_contra hc
    have : (k : ℝ) ≤ 0 := not_lt.mp hc
    nlinarith
  have k1 : (k : ℝ) < 1 := by
    by_contra hc
    have : (1 : ℝ) ≤ k := not_lt.mp hc
    nlinarith
  have k0' : (0 : ℤ) < k := by exact_mod_cast k0
  have k1' : k < (1 : ℤ) := by exact_mod_cast k1
  omega

theorem not_turnEq_of_sub' {a b : ℝ} (h0 : 0 < a - b) (h1 : a - b < 2 * Real.pi) : ¬ TurnEq b a :=
  fun h => not_turnEq_of_sub h0 h1 h.symm

/-- half a turn apart: never congruent -/
theorem not_turnEq_add_pi (a : ℝ) : ¬ TurnEq a (a + Real.pi) := by
  have hp := Real.pi_pos
  exact not_turnEq_of_sub' (a := a + Real.pi) (b := a) (by linarith) (by linarith)

theorem not_turnEq_add_pi' (a : ℝ) : ¬ TurnEq (a + Real.pi) a :=
  fun h => not_turnEq_add_pi a h.symm

/-! ### P. The shape of the candidate list -/

/-- two arm solutions that differ (modulo whole turns) in `θ1` or in `θ3` -/
def ArmNe (x y : J6 ℝ) : Prop := ¬ (TurnEq x.j1 y.j1 ∧ TurnEq x.j3 y.j3)

theorem ArmNe.symm {x y : J6 ℝ} (h : ArmNe x y) : ArmNe y x := fun g => h ⟨g.1.symm, g.2.symm⟩
theorem ArmNe.flip_right {x y : J6 ℝ} (h : ArmNe x y) : ArmNe x (flip y) := h
theorem ArmNe.flip_left {x y : J6 ℝ} (h : ArmNe x y) : ArmNe (flip x) y := h
theorem ArmNe.not_turnEq {x y : J6 ℝ} (h : ArmNe x y) : ¬ J6TurnEq x y := fun g => h ⟨g.1, g.2.2.1⟩

theorem flip_not_turnEq (x : J6 ℝ) : ¬ J6TurnEq x (flip x) := fun g => not_turnEq_add_pi x.j4 g.2.2.2.1

/-- the shape lemma for a general relation `S` implied by non-congruence: the sixteen pairs that
join a front-shoulder candidate (`A`, `B` or a twin) to a back-shoulder one (`C`, `D` or a twin) and
the four flip pairs are settled by `θ1`/`θ3` resp. `θ4`; the eight pairs inside one shoulder are
hypotheses. -/
theorem pairwise8_gen {S : J6 ℝ → J6 ℝ → Prop} (hS : ∀ x y, ¬ J6TurnEq x y → S x y)
    {A B C D : J6 ℝ} (hAC : ArmNe A C) (hAD : ArmNe A D) (hBC : ArmNe B C) (hBD : ArmNe B D)
    (hAB : S A B) (hAfB : S A (flip B)) (hBfA : S B (flip A)) (hfAfB : S (flip A) (flip B))
    (hCD : S C D) (hCfD : S C (flip D)) (hDfC : S D (flip C)) (hfCfD : S (flip C) (flip D)) :
    List.Pairwise S [A, B, C, D, flip A, flip B, flip C, flip D] := by
  simp only [List.pairwise_cons, List.mem_cons, List.not_mem_nil, or_false, forall_eq_or_imp,
    forall_eq, IsEmpty.forall_iff, implies_true, and_true, List.Pairwise.nil]
  refine ⟨⟨hAB, hS _ _ hAC.not_turnEq, hS _ _ hAD.not_turnEq, hS _ _ (flip_not_turnEq A),
      hAfB, hS _ _ hAC.flip_right.not_turnEq, hS _ _ hAD.flip_right.not_turnEq⟩,
    ⟨hS _ _ hBC.not_turnEq, hS _ _ hBD.not_turnEq, hBfA, hS _ _ (flip_not_turnEq B),
      hS _ _ hBC.flip_right.not_turnEq, hS _ _ hBD.flip_right.not_turnEq⟩,
    ⟨hCD, hS _ _ hAC.symm.flip_right.not_turnEq, hS _ _ hBC.symm.flip_right.not_turnEq,
      hS _ _ (flip_not_turnEq C), hCfD⟩,
    ⟨hS _ _ hAD.symm.flip_right.not_turnEq, hS _ _ hBD.symm.flip_right.not_turnEq,
      hDfC, hS _ _ (flip_not_turnEq D)⟩,
    ⟨hfAfB, hS _ _ hAC.flip_left.flip_right.not_turnEq,
      hS _ _ hAD.flip_left.flip_right.not_turnEq⟩,
    ⟨hS _ _ hBC.flip_left.flip_right.not_turnEq, hS _ _ hBD.flip_left.flip_right.not_turnEq⟩,
    hfCfD⟩

/-- four arm solutions that pairwise differ in `θ1` or `θ3`, followed by their wrist-flipped
twins: no two of the eight are congruent modulo whole turns -/
theorem pairwise8 {A B C D : J6 ℝ} (hAB : ArmNe A B) (hAC : ArmNe A C) (hAD : ArmNe A D)
    (hBC : ArmNe B C) (hBD : ArmNe B D) (hCD : ArmNe C D) :
    List.Pairwise (fun a b => ¬ J6TurnEq a b) [A, B, C, D, flip A, flip B, flip C, flip D] :=
  pairwise8_gen (fun _ _ h => h) hAC hAD hBC hBD hAB.not_turnEq hAB.flip_right.not_turnEq
    hAB.symm.flip_right.not_turnEq hAB.flip_left.flip_right.not_turnEq hCD.not_turnEq
    hCD.flip_right.not_turnEq hCD.symm.flip_right.not_turnEq hCD.flip_left.flip_right.not_turnEq

/-! ### G. A general pose -/

theorem arccos_mem {x : ℝ} (h1 : -1 < x) (h2 : x < 1) :
    0 < Real.arccos x ∧ Real.arccos x < Real.pi :=
  ⟨Real.arccos_pos.mpr h2, Real.arccos_lt_pi.mpr h1⟩

/-- `t − ψ` and `−t − ψ` for `0 < t < π` are not congruent -/
theorem elbow_pair_distinct {t ψ : ℝ} (h : 0 < t ∧ t < Real.pi) : ¬ TurnEq (t - ψ) (-t - ψ) :=
  not_turnEq_of_sub (by linarith [h.1]) (by linarith [h.2])

theorem candidates_list (p : Params ℝ) (pose : Iso ℝ) :
    thetaCandidates p pose =
      [cand pose.q.toMat (th1i p (wc p pose)) (th2i p (wc p pose)) (th3i p (wc p pose)),
       cand pose.q.toMat (th1i p (wc p pose)) (th2ii p (wc p pose)) (th3ii p (wc p pose)),
       cand pose.q.toMat (th1ii p (wc p pose)) (th2iii p (wc p pose)) (th3iii p (wc p pose)),
       cand pose.q.toMat (th1ii p (wc p pose)) (th2iv p (wc p pose)) (th3iv p (wc p pose)),
       flip (cand pose.q.toMat (th1i p (wc p pose)) (th2i p (wc p pose)) (th3i p (wc p pose))),
       flip (cand pose.q.toMat (th1i p (wc p pose)) (th2ii p (wc p pose)) (th3ii p (wc p pose))),
       flip (cand pose.q.toMat (th1ii p (wc p pose)) (th2iii p (wc p pose)) (th3iii p (wc p pose))),
       flip (cand pose.q.toMat (th1ii p (wc p pose)) (th2iv p (wc p pose)) (th3iv p (wc p pose)))] :=
  rfl

theorem armNe_of_j1 {x y : J6 ℝ} (h : ¬ TurnEq x.j1 y.j1) : ArmNe x y := fun g => h g.1
theorem armNe_of_j3 {x y : J6 ℝ} (h : ¬ TurnEq x.j3 y.j3) : ArmNe x y := fun g => h g.2

/-- the front pair `A, B` differs in `θ3` when `0 < tmp11 < π` -/
theorem front_pair_armNe (p : Params ℝ) (c : V3 ℝ) (m : M3 ℝ)
    (h : 0 < tmp11 p c ∧ tmp11 p c < Real.pi) :
    ArmNe (cand m (th1i p c) (th2i p c) (th3i p c)) (cand m (th1i p c) (th2ii p c) (th3ii p c)) :=
  armNe_of_j3 (elbow_pair_distinct (t := tmp11 p c) (ψ := natan2 p.a2 p.c3) h)

/-- the back pair `C, D` differs in `θ3` when `0 < tmp12 < π` -/
theorem back_pair_armNe (p : Params ℝ) (c : V3 ℝ) (m : M3 ℝ)
    (h : 0 < tmp12 p c ∧ tmp12 p c < Real.pi) :
    ArmNe (cand m (th1ii p c) (th2iii p c) (th3iii p c))
      (cand m (th1ii p c) (th2iv p c) (th3iv p c)) :=
  armNe_of_j3 (elbow_pair_distinct (t := tmp12 p c) (ψ := natan2 p.a2 p.c3) h)

/-- G: for ANY pose, if the two shoulder angles are not congruent and both elbow `acos` values lie
strictly between `0` and `π`, the eight raw candidates are pairwise not congruent -/
theorem candidates_pairwise_of (p : Params ℝ) (pose : Iso ℝ)
    (h1 : ¬ TurnEq (th1i p (wc p pose)) (th1ii p (wc p pose)))
    (h11 : 0 < tmp11 p (wc p pose) ∧ tmp11 p (wc p pose) < Real.pi)
    (h12 : 0 < tmp12 p (wc p pose) ∧ tmp12 p (wc p pose) < Real.pi) :
    List.Pairwise (fun a b => ¬ J6TurnEq a b) (thetaCandidates p pose) := by
  rw [candidates_list]
  exact pairwise8 (front_pair_armNe p _ _ h11) (armNe_of_j1 h1) (armNe_of_j1 h1) (armNe_of_j1 h1)
    (armNe_of_j1 h1) (back_pair_armNe p _ _ h12)

/-- the two shoulder angles are not congruent when `nx1 + a1 = √(cx² + cy² − b²) > 0` -/
theorem shoulder_distinct_of (p : Params ℝ) (c : V3 ℝ) (h : 0 < nx1 p c + p.a1) :
    ¬ TurnEq (th1i p c) (th1ii p c) := by
  have ha : |Complex.arg ⟨nx1 p c + p.a1, p.b⟩| < Real.pi / 2 :=
    Complex.abs_arg_lt_pi_div_two_iff.mpr (Or.inl h)
  rw [abs_lt] at ha
  have e : th1i p c - th1ii p c = Real.pi - 2 * Complex.arg ⟨nx1 p c + p.a1, p.b⟩ := by
    show (Complex.arg ⟨c.x, c.y⟩ - Complex.arg ⟨nx1 p c + p.a1, p.b⟩) -
      (Complex.arg ⟨c.x, c.y⟩ + Complex.arg ⟨nx1 p c + p.a1, p.b⟩ - Real.pi) = _
    ring
  exact not_turnEq_of_sub (by rw [e]; linarith [ha.2]) (by rw [e]; linarith [ha.1])

/-! ### S. The pose of a non-singular configuration -/

/-- squared distance from the J2 axis of the OTHER shoulder configuration to the wrist centre -/
noncomputable def otherS2 (p : Params ℝ) (θ : J6 ℝ) : ℝ :=
  (armX p θ + 2 * p.a1) ^ 2 + cz1 p θ ^ 2

/-- the other shoulder configuration (J1 turned by half a turn, arm reaching over) reaches the wrist
centre of `θ` with an elbow that is neither stretched nor folded:
`|s² − c2² − κ²| < 2·c2·κ` for its shoulder–wrist-centre distance `s`. -/
def OtherShoulderRegular (p : Params ℝ) (θ : J6 ℝ) : Prop :=
  |otherS2 p θ - p.c2 ^ 2 - kappa p ^ 2| < 2 * p.c2 * kappa p

theorem nx1_add_a1 (p : Params ℝ) (θ : J6 ℝ) : nx1 p (wcθ p θ) + p.a1 = |cx1 p θ| := by
  rw [nx1_eq]; ring

/-- S1: the two shoulder candidates differ (shoulder non-singular) -/
theorem shoulder_distinct (p : Params ℝ) (θ : J6 ℝ) (h : cx1 p θ ≠ 0) :
    ¬ TurnEq (th1i p (wcθ p θ)) (th1ii p (wcθ p θ)) :=
  shoulder_distinct_of p _ (by rw [nx1_add_a1]; exact abs_pos.mpr h)

theorem cos_mem_of_sin_ne {x : ℝ} (h : Real.sin x ≠ 0) : -1 < Real.cos x ∧ Real.cos x < 1 := by
  have h2 := Real.sin_sq_add_cos_sq x
  have h3 : 0 < Real.sin x ^ 2 := by positivity
  have h4 : Real.cos x ^ 2 < 1 := by linarith
  have := abs_lt.mp ((sq_lt_one_iff_abs_lt_one _).mp h4)
  exact this

theorem s2sq_front_other (p : Params ℝ) (θ : J6 ℝ) (h : 0 < cx1 p θ) :
    s2sq p (wcθ p θ) = otherS2 p θ := by
  unfold s2sq otherS2
  rw [lit2, nx1_front p θ h, wcθ_z]; ring

theorem s1sq_back_other (p : Params ℝ) (θ : J6 ℝ) (h : cx1 p θ < 0) :
    s1sq p (wcθ p θ) = otherS2 p θ := by
  have e : nx1 p (wcθ p θ) = -(armX p θ + 2 * p.a1) := by
    have := nx1_back p θ h; linarith
  unfold s1sq otherS2
  rw [e, wcθ_z]; ring

/-- the elbow ratio lies strictly inside `(−1, 1)` -/
theorem elbow_ratio_mem (p : Params ℝ) (hc : 0 < p.c2) (hk : 0 < kappa p) {S : ℝ}
    (h : |S - p.c2 ^ 2 - kappa p ^ 2| < 2 * p.c2 * kappa p) :
    -1 < (S - p.c2 * p.c2 - kappa2 p) / tmp9 p ∧ (S - p.c2 * p.c2 - kappa2 p) / tmp9 p < 1 := by
  rw [kappa2_eq, tmp9_eq]
  have hpos : 0 < 2 * p.c2 * kappa p := by positivity
  rw [abs_lt] at h
  constructor
  · rw [lt_div_iff₀ hpos]; nlinarith [h.1]
  · rw [div_lt_one hpos]; nlinarith [h.2]

/-- S2 own elbow, front shoulder -/
theorem tmp11_own (p : Params ℝ) (θ : J6 ℝ) (hc : 0 < p.c2) (hk : 0 < kappa p)
    (h : 0 < cx1 p θ) (he : Real.sin (phi p θ) ≠ 0) :
    0 < tmp11 p (wcθ p θ) ∧ tmp11 p (wcθ p θ) < Real.pi := by
  rw [tmp11_front p θ hc hk h]
  exact arccos_mem (cos_mem_of_sin_ne he).1 (cos_mem_of_sin_ne he).2

/-- S2 own elbow, back shoulder -/
theorem tmp12_own (p : Params ℝ) (θ : J6 ℝ) (hc : 0 < p.c2) (hk : 0 < kappa p)
    (h : cx1 p θ < 0) (he : Real.sin (phi p θ) ≠ 0) :
    0 < tmp12 p (wcθ p θ) ∧ tmp12 p (wcθ p θ) < Real.pi := by
  rw [tmp12_back p θ hc hk h]
  exact arccos_mem (cos_mem_of_sin_ne he).1 (cos_mem_of_sin_ne he).2

/-- S2 other elbow, front shoulder (the back candidates) -/
theorem tmp12_other (p : Params ℝ) (θ : J6 ℝ) (hc : 0 < p.c2) (hk : 0 < kappa p)
    (h : 0 < cx1 p θ) (ho : OtherShoulderRegular p θ) :
    0 < tmp12 p (wcθ p θ) ∧ tmp12 p (wcθ p θ) < Real.pi := by
  show 0 < Real.arccos ((s2sq p (wcθ p θ) - p.c2 * p.c2 - kappa2 p) / tmp9 p) ∧
    Real.arccos ((s2sq p (wcθ p θ) - p.c2 * p.c2 - kappa2 p) / tmp9 p) < Real.pi
  rw [s2sq_front_other p θ h]
  have := elbow_ratio_mem p hc hk ho
  exact arccos_mem this.1 this.2

/-- S2 other elbow, back shoulder (the front candidates) -/
theorem tmp11_other (p : Params ℝ) (θ : J6 ℝ) (hc : 0 < p.c2) (hk : 0 < kappa p)
    (h : cx1 p θ < 0) (ho : OtherShoulderRegular p θ) :
    0 < tmp11 p (wcθ p θ) ∧ tmp11 p (wcθ p θ) < Real.pi := by
  show 0 < Real.arccos ((s1sq p (wcθ p θ) - p.c2 * p.c2 - kappa2 p) / tmp9 p) ∧
    Real.arccos ((s1sq p (wcθ p θ) - p.c2 * p.c2 - kappa2 p) / tmp9 p) < Real.pi
  rw [s1sq_back_other p θ h]
  have := elbow_ratio_mem p hc hk ho
  exact arccos_mem this.1 this.2

/-- with `a1 = 0` the other shoulder configuration is the mirror image of the own one: regular as
soon as the own elbow is -/
theorem otherShoulderRegular_of_a1_zero (p : Params ℝ) (θ : J6 ℝ) (h : NonSingular p θ)
    (ha : p.a1 = 0) : OtherShoulderRegular p θ := by
  obtain ⟨hc, hk, -, hel, -⟩ := h
  have hcos := cos_mem_of_sin_ne hel
  have e : otherS2 p θ - p.c2 ^ 2 - kappa p ^ 2 = 2 * p.c2 * kappa p * Real.cos (phi p θ) := by
    have h1 := reach_sq p θ
    have h2 := uv_sq p θ
    unfold otherS2; rw [ha]; linarith
  unfold OtherShoulderRegular
  rw [e]
  have hpos : 0 < 2 * p.c2 * kappa p := by positivity
  rw [abs_lt]
  constructor <;> nlinarith [hcos.1, hcos.2]

/-- S: all eight raw candidates of the pose of a regular `θ` are pairwise not congruent -/
theorem candidates_pairwise (p : Params ℝ) (θ : J6 ℝ) (h : NonSingular p θ)
    (ho : OtherShoulderRegular p θ) :
    List.Pairwise (fun a b => ¬ J6TurnEq a b) (thetaCandidates p (poseOf p θ)) := by
  obtain ⟨hc, hk, hsh, hel, -⟩ := h
  apply candidates_pairwise_of
  · rw [wc_poseOf]; exact shoulder_distinct p θ hsh
  · rw [wc_poseOf]
    rcases lt_or_gt_of_ne hsh with hb | hf
    · exact tmp11_other p θ hc hk hb ho
    · exact tmp11_own p θ hc hk hf hel
  · rw [wc_poseOf]
    rcases lt_or_gt_of_ne hsh with hb | hf
    · exact tmp12_own p θ hc hk hb hel
    · exact tmp12_other p θ hc hk hf ho

/-- S, without the assumption on the other shoulder: at most one POSITION of the candidate list
holds a candidate congruent to a given `τ` on the own shoulder of `θ` (`τ.j1 ≡ θ.j1`; e.g. `θ`
itself or its wrist-flipped twin) -/
theorem candidates_match_unique (p : Params ℝ) (θ : J6 ℝ) (h : NonSingular p θ) (τ : J6 ℝ)
    (hτ : TurnEq τ.j1 θ.j1) :
    List.Pairwise (fun a b => ¬ (J6TurnEq a τ ∧ J6TurnEq b τ)) (thetaCandidates p (poseOf p θ)) := by
  obtain ⟨hc, hk, hsh, hel, -⟩ := h
  have hS : ∀ x y : J6 ℝ, ¬ J6TurnEq x y → ¬ (J6TurnEq x τ ∧ J6TurnEq y τ) :=
    fun x y hn g => hn (g.1.trans g.2.symm)
  have h1 := shoulder_distinct p θ hsh
  rw [candidates_list, wc_poseOf]
  rcases lt_or_gt_of_ne hsh with hb | hf
  · -- back shoulder: `τ.j1 ≡ θ1_ii`, no front candidate matches
    have hA : ∀ x : J6 ℝ, x.j1 = th1i p (wcθ p θ) → ¬ J6TurnEq x τ := fun x hx g =>
      h1 (hx ▸ (g.1.trans (hτ.trans (th1ii_back p θ hb).symm)))
    have hCD := back_pair_armNe p (wcθ p θ) (poseOf p θ).q.toMat (tmp12_own p θ hc hk hb hel)
    exact pairwise8_gen hS (armNe_of_j1 h1) (armNe_of_j1 h1) (armNe_of_j1 h1) (armNe_of_j1 h1)
      (fun g => hA _ rfl g.1) (fun g => hA _ rfl g.1) (fun g => hA _ rfl g.1)
      (fun g => hA _ rfl g.1) (hS _ _ hCD.not_turnEq) (hS _ _ hCD.flip_right.not_turnEq)
      (hS _ _ hCD.symm.flip_right.not_turnEq) (hS _ _ hCD.flip_left.flip_right.not_turnEq)
  · -- front shoulder: `τ.j1 ≡ θ1_i`, no back candidate matches
    have hC : ∀ x : J6 ℝ, x.j1 = th1ii p (wcθ p θ) → ¬ J6TurnEq x τ := fun x hx g =>
      h1 (((th1i_front p θ hf).trans hτ.symm).trans (hx ▸ g.1.symm))
    have hAB := front_pair_armNe p (wcθ p θ) (poseOf p θ).q.toMat (tmp11_own p θ hc hk hf hel)
    exact pairwise8_gen hS (armNe_of_j1 h1) (armNe_of_j1 h1) (armNe_of_j1 h1) (armNe_of_j1 h1)
      (hS _ _ hAB.not_turnEq) (hS _ _ hAB.flip_right.not_turnEq)
      (hS _ _ hAB.symm.flip_right.not_turnEq) (hS _ _ hAB.flip_left.flip_right.not_turnEq)
      (fun g => hC _ rfl g.1) (fun g => hC _ rfl g.1) (fun g => hC _ rfl g.1)
      (fun g => hC _ rfl g.1)

/-! ### F. Through `finishCandidate`: `jointsOf`, `normPi`, cross-check filter -/

/-- two answers congruent in joint space come from congruent raw candidates -/
theorem finish_turnEq_reflect (p : Params ℝ) (hs : SignsOk p) {t t' : J6 ℝ}
    (h : J6TurnEq ((jointsOf p t).map normPi) ((jointsOf p t').map normPi)) : J6TurnEq t t' :=
  (thetaOf_finish_turnEq p hs t).symm.trans
    ((thetaOf_turnEq p hs h).trans (thetaOf_finish_turnEq p hs t'))

/-- a relation between raw candidates at different positions is inherited by the answers -/
theorem inverseIntern_pairwise_transport (p : Params ℝ) (pose : Iso ℝ)
    {R S : J6 ℝ → J6 ℝ → Prop}
    (H : ∀ a a', R a a' → S ((jointsOf p a).map normPi) ((jointsOf p a').map normPi))
    (h : List.Pairwise R (thetaCandidates p pose)) : List.Pairwise S (inverseIntern p pose) := by
  unfold inverseIntern
  refine List.Pairwise.filterMap _ ?_ h
  intro a a' hR b hb b' hb'
  obtain ⟨-, rfl, -⟩ := finishCandidate_eq_some.mp hb
  obtain ⟨-, rfl, -⟩ := finishCandidate_eq_some.mp hb'
  exact H a a' hR

/-- F: pairwise non-congruent candidates give pairwise non-congruent answers -/
theorem inverseIntern_pairwise_of (p : Params ℝ) (hs : SignsOk p) (pose : Iso ℝ)
    (h : List.Pairwise (fun a b => ¬ J6TurnEq a b) (thetaCandidates p pose)) :
    List.Pairwise (fun a b => ¬ J6TurnEq a b) (inverseIntern p pose) :=
  inverseIntern_pairwise_transport p pose
    (fun _ _ hR g => hR (finish_turnEq_reflect p hs g)) h

theorem nodup_of_pairwise {l : List (J6 ℝ)} (h : List.Pairwise (fun a b => ¬ J6TurnEq a b) l) :
    l.Nodup :=
  List.Pairwise.imp (fun {a b} (hn : ¬ J6TurnEq a b) (e : a = b) => hn (e ▸ J6TurnEq.refl a)) h

theorem filterCompliant_sublist (k : Opw ℝ) (l : List (J6 ℝ)) : (k.filterCompliant l).Sublist l := by
  unfold Opw.filterCompliant
  cases k.cons with
  | none => exact List.Sublist.refl _
  | some c => exact List.filter_sublist

theorem inverse_eq_filter (k : Opw ℝ) (hdof : k.p.dof ≠ 5) (pose : Iso ℝ) :
    k.inverse pose = k.filterCompliant (inverseIntern k.p pose) := by
  unfold Opw.inverse
  simp only [beq_iff_eq, hdof, if_false]

/-- congruence in θ-space and in joint space are the same thing -/
theorem thetaOf_turnEq_iff (p : Params ℝ) (hs : SignsOk p) (a b : J6 ℝ) :
    J6TurnEq (thetaOf p a) (thetaOf p b) ↔ J6TurnEq a b := by
  constructor
  · intro h
    have := jointsOf_turnEq p hs h
    rwa [jointsOf_thetaOf p hs, jointsOf_thetaOf p hs] at this
  · exact thetaOf_turnEq p hs

/-- over ℝ a candidate is kept exactly when it passes the cross-check -/
theorem finishCandidate_isSome (p : Params ℝ) (pose : Iso ℝ) (s : J6 ℝ) :
    (finishCandidate p pose s).isSome = comparePoses pose (forward p (s.map normPi)) distTol angTol := by
  unfold finishCandidate
  rw [allFinite_real]
  simp only [if_true]
  split <;> simp_all

theorem two_le_length_of_mem_ne {α : Type} {l : List α} {a b : α} (ha : a ∈ l) (hb : b ∈ l)
    (hab : a ≠ b) : 2 ≤ l.length := by
  match l, ha, hb with
  | [x], ha, hb =>
    rw [List.mem_singleton] at ha hb
    exact absurd (ha.trans hb.symm) hab
  | _ :: _ :: _, _, _ => simp

/-! ### Sharpness: the assumption on the other shoulder cannot be dropped -/

/-- if the wrist centre is out of reach of the back-shoulder arm (`(c2 + κ)² ≤ s2²`), both elbow
`acos` are clamped to `0` and the back candidates `C`, `D` are the same vector -/
theorem back_pair_eq_of_far (p : Params ℝ) (c : V3 ℝ) (m : M3 ℝ) (hc : 0 < p.c2)
    (hk : 0 < kappa p) (h : (p.c2 + kappa p) ^ 2 ≤ s2sq p c) :
    cand m (th1ii p c) (th2iii p c) (th3iii p c) = cand m (th1ii p c) (th2iv p c) (th3iv p c) := by
  have e12 : tmp12 p c = 0 := by
    show Real.arccos ((s2sq p c - p.c2 * p.c2 - kappa2 p) / tmp9 p) = 0
    rw [Real.arccos_eq_zero, kappa2_eq, tmp9_eq, one_le_div (by positivity)]
    nlinarith
  have e15 : tmp15 p c = 0 := by
    show Real.arccos ((s2sq p c + p.c2 * p.c2 - kappa2 p) /
      (OfNat.ofNat 2 * Real.sqrt (s2sq p c) * p.c2)) = 0
    have hs0 : 0 ≤ s2sq p c := le_trans (by positivity) h
    have hs : p.c2 + kappa p ≤ Real.sqrt (s2sq p c) := by
      rw [← Real.sqrt_sq (by positivity : 0 ≤ p.c2 + kappa p)]
      exact Real.sqrt_le_sqrt h
    have hsq := Real.sq_sqrt hs0
    have hspos : 0 < Real.sqrt (s2sq p c) := by linarith
    rw [lit2, Real.arccos_eq_zero, kappa2_eq, one_le_div (by positivity)]
    nlinarith [mul_nonneg (sub_nonneg.mpr hs) hk.le,
      sq_nonneg (Real.sqrt (s2sq p c) - p.c2 - kappa p)]
  have e2 : th2iii p c = th2iv p c := by
    show -tmp15 p c - tmp16 p c = tmp15 p c - tmp16 p c
    rw [e15]; ring
  have e3 : th3iii p c = th3iv p c := by
    show tmp12 p c - natan2 p.a2 p.c3 = -tmp12 p c - natan2 p.a2 p.c3
    rw [e12]; ring
  rw [e2, e3]

end Opw.IkDistinct
