/-
  Lemmas for C02 (completeness of the closed-form inverse kinematics), real arithmetic.

  For a configuration θ (θ-space) that is not at a shoulder, elbow or wrist singularity the eight raw
  candidates `thetaCandidates p (poseOf p θ)` contain θ modulo whole turns; the matching candidate
  passes the run-time cross-check of `inverse_intern`.

  Stages (every one a compiled lemma, nothing left open):
  * G   decomposition of the `let` chain of `thetaCandidates` into named functions (`thetaCandidates_eq`);
  * T   tools: `turnEq_of_cos_sin`, `arg_polar`, `arg_rot`, `arg_reflect`, `arccos_cos_of_sin_pos`,
        `neg_arccos_cos_of_sin_neg`, `arccos_div_norm_of_im_pos`, `neg_arccos_div_norm_of_im_neg`;
  * S0  wrist centre (`wc_poseOf`);
  * S1  shoulder (`nx1_eq`, `th1i_front`, `th1ii_back`);
  * S2  elbow (`s1sq_front`, `s2sq_back`, `elbow_ratio`, `th3i_front`, `th3ii_front`, `th3iii_back`,
        `th3iv_back`);
  * S3  θ2 (`shoulder_ratio`, `tmp14_front`, `tmp16_back`, `th2i_front`, `th2ii_front`, `th2iii_back`,
        `th2iv_back`);
  * S4  wrist (`r0cT_mul_roe`, `wrist_entries`, `wristSol_turnEq`);
  * S5  assembly in θ-space (`cand_turnEq`, `theta_candidate_complete_pos`, and through the wrist
        flip `theta_candidate_complete`);
  * S6  lift to the solver (`comparePoses_self`, `ik_complete_intern`, `ik_complete_intern_joint`,
        `ik_roundtrip_intern`).
-/
import OpwVerif.Lemmas.Wrist
import OpwVerif.Lemmas.Sound
import OpwVerif.Lemmas.Nearest
import OpwVerif.Props.C02
import Mathlib.Analysis.SpecialFunctions.Trigonometric.Angle
import Mathlib.Analysis.SpecialFunctions.Complex.Arg

attribute [-simp] Opw.ofNatLit_real

namespace Opw.IkComplete
open Opw Opw.Wrist Opw.C02

/-! ### G. The `let` chain of `thetaCandidates`, named (generic: any number type) -/

section Generic
variable {R : Type} [OpwNum R]

/-- wrist centre `c = t − c4·(R·e_z)` -/
def wc (p : Params R) (pose : Iso R) : V3 R :=
  let m := pose.q.toMat
  let zv := m.mulVec V3.ez
  pose.t.sub ⟨p.c4 * zv.x, p.c4 * zv.y, p.c4 * zv.z⟩

def nx1 (p : Params R) (c : V3 R) : R := nsqrt ((c.x * c.x + c.y * c.y) - p.b * p.b) - p.a1
def th1i (p : Params R) (c : V3 R) : R := natan2 c.y c.x - natan2 p.b (nx1 p c + p.a1)
def th1ii (p : Params R) (c : V3 R) : R := natan2 c.y c.x + natan2 p.b (nx1 p c + p.a1) - pi
def s1sq (p : Params R) (c : V3 R) : R := nx1 p c * nx1 p c + (c.z - p.c1) * (c.z - p.c1)
def s2sq (p : Params R) (c : V3 R) : R :=
  (nx1 p c + 2 * p.a1) * (nx1 p c + 2 * p.a1) + (c.z - p.c1) * (c.z - p.c1)
def kappa2 (p : Params R) : R := p.a2 * p.a2 + p.c3 * p.c3
def tmp13 (p : Params R) (c : V3 R) : R :=
  nacos ((s1sq p c + p.c2 * p.c2 - kappa2 p) / (2 * nsqrt (s1sq p c) * p.c2))
def tmp14 (p : Params R) (c : V3 R) : R := natan2 (nx1 p c) (c.z - p.c1)
def th2i (p : Params R) (c : V3 R) : R := -tmp13 p c + tmp14 p c
def th2ii (p : Params R) (c : V3 R) : R := tmp13 p c + tmp14 p c
def tmp15 (p : Params R) (c : V3 R) : R :=
  nacos ((s2sq p c + p.c2 * p.c2 - kappa2 p) / (2 * nsqrt (s2sq p c) * p.c2))
def tmp16 (p : Params R) (c : V3 R) : R := natan2 (nx1 p c + 2 * p.a1) (c.z - p.c1)
def th2iii (p : Params R) (c : V3 R) : R := -tmp15 p c - tmp16 p c
def th2iv (p : Params R) (c : V3 R) : R := tmp15 p c - tmp16 p c
def tmp9 (p : Params R) : R := 2 * p.c2 * nsqrt (kappa2 p)
def tmp11 (p : Params R) (c : V3 R) : R := nacos ((s1sq p c - p.c2 * p.c2 - kappa2 p) / tmp9 p)
def tmp12 (p : Params R) (c : V3 R) : R := nacos ((s2sq p c - p.c2 * p.c2 - kappa2 p) / tmp9 p)
def th3i (p : Params R) (c : V3 R) : R := tmp11 p c - natan2 p.a2 p.c3
def th3ii (p : Params R) (c : V3 R) : R := -tmp11 p c - natan2 p.a2 p.c3
def th3iii (p : Params R) (c : V3 R) : R := tmp12 p c - natan2 p.a2 p.c3
def th3iv (p : Params R) (c : V3 R) : R := -tmp12 p c - natan2 p.a2 p.c3

/-- one wrist solution for a given `(sin θ1, cos θ1, θ2 + θ3)` -/
def wristSol (m : M3 R) (sin1 cos1 t23 : R) : R × R × R :=
  let s23 := nsin t23
  let c23 := ncos t23
  let mm := m.m02 * s23 * cos1 + m.m12 * s23 * sin1 + m.m22 * c23
  let th5 := natan2 (nsqrt (1 - mm * mm)) mm
  let th4y := m.m12 * cos1 - m.m02 * sin1
  let th4x := m.m02 * c23 * cos1 + m.m12 * c23 * sin1 - m.m22 * s23
  let th4 := natan2 th4y th4x
  let th6y := m.m01 * s23 * cos1 + m.m11 * s23 * sin1 + m.m21 * c23
  let th6x := -m.m00 * s23 * cos1 - m.m10 * s23 * sin1 - m.m20 * c23
  let th6 := natan2 th6y th6x
  (th4, th5, th6)

/-- the raw candidate built from `(θ1, θ2, θ3)` -/
def cand (m : M3 R) (t1 t2 t3 : R) : J6 R :=
  let w := wristSol m (nsin t1) (ncos t1) (t2 + t3)
  ⟨t1, t2, t3, w.1, w.2.1, w.2.2⟩

/-- the wrist-flipped twin as the code forms it -/
def flipG (t : J6 R) : J6 R := ⟨t.j1, t.j2, t.j3, t.j4 + pi, -t.j5, t.j6 - pi⟩

theorem thetaCandidates_eq (p : Params R) (pose : Iso R) :
    thetaCandidates p pose =
      [cand pose.q.toMat (th1i p (wc p pose)) (th2i p (wc p pose)) (th3i p (wc p pose)),
       cand pose.q.toMat (th1i p (wc p pose)) (th2ii p (wc p pose)) (th3ii p (wc p pose)),
       cand pose.q.toMat (th1ii p (wc p pose)) (th2iii p (wc p pose)) (th3iii p (wc p pose)),
       cand pose.q.toMat (th1ii p (wc p pose)) (th2iv p (wc p pose)) (th3iv p (wc p pose)),
       flipG (cand pose.q.toMat (th1i p (wc p pose)) (th2i p (wc p pose)) (th3i p (wc p pose))),
       flipG (cand pose.q.toMat (th1i p (wc p pose)) (th2ii p (wc p pose)) (th3ii p (wc p pose))),
       flipG (cand pose.q.toMat (th1ii p (wc p pose)) (th2iii p (wc p pose)) (th3iii p (wc p pose))),
       flipG (cand pose.q.toMat (th1ii p (wc p pose)) (th2iv p (wc p pose)) (th3iv p (wc p pose)))] :=
  rfl

end Generic

theorem flipG_eq (t : J6 ℝ) : flipG t = flip t := rfl

/-! ### T. Tools: congruence modulo whole turns from sine and cosine -/

/-- equal cosine and sine: equal modulo whole turns -/
theorem turnEq_of_cos_sin {a b : ℝ} (hc : Real.cos a = Real.cos b) (hs : Real.sin a = Real.sin b) :
    TurnEq a b := by
  have h := Real.Angle.cos_sin_inj hc hs
  obtain ⟨k, hk⟩ := Real.Angle.angle_eq_iff_two_pi_dvd_sub.mp h
  exact ⟨k, by linarith⟩

theorem norm_mk (x y : ℝ) : ‖(⟨x, y⟩ : ℂ)‖ = Real.sqrt (x * x + y * y) := by
  rw [Complex.norm_def, Complex.normSq_mk]

/-- polar form: `arg (r cos t + i r sin t) ≡ t` -/
theorem arg_polar {r : ℝ} (hr : 0 < r) (t : ℝ) :
    TurnEq (Complex.arg ⟨r * Real.cos t, r * Real.sin t⟩) t := by
  have hn : ‖(⟨r * Real.cos t, r * Real.sin t⟩ : ℂ)‖ = r := by
    rw [norm_mk]
    have : r * Real.cos t * (r * Real.cos t) + r * Real.sin t * (r * Real.sin t) = r ^ 2 := by
      linear_combination r ^ 2 * Real.sin_sq_add_cos_sq t
    rw [this, Real.sqrt_sq hr.le]
  have hz : (⟨r * Real.cos t, r * Real.sin t⟩ : ℂ) ≠ 0 := by
    rw [← norm_ne_zero_iff, hn]; exact hr.ne'
  apply turnEq_of_cos_sin
  · rw [Complex.cos_arg hz, hn]; simp only; field_simp
  · rw [Complex.sin_arg, hn]; simp only; field_simp

/-- a point as modulus and argument -/
theorem re_eq_norm_cos (x y : ℝ) :
    x = Real.sqrt (x * x + y * y) * Real.cos (Complex.arg ⟨x, y⟩) := by
  have := Complex.norm_mul_cos_arg (⟨x, y⟩ : ℂ)
  rw [norm_mk] at this; exact this.symm

theorem im_eq_norm_sin (x y : ℝ) :
    y = Real.sqrt (x * x + y * y) * Real.sin (Complex.arg ⟨x, y⟩) := by
  have := Complex.norm_mul_sin_arg (⟨x, y⟩ : ℂ)
  rw [norm_mk] at this; exact this.symm

theorem sqrt_sumsq_pos {x y : ℝ} (h : x ≠ 0 ∨ y ≠ 0) : 0 < Real.sqrt (x * x + y * y) := by
  apply Real.sqrt_pos.mpr
  rcases h with h | h
  · have := mul_self_pos.mpr h; nlinarith [mul_self_nonneg y]
  · have := mul_self_pos.mpr h; nlinarith [mul_self_nonneg x]

/-- rotating a non-zero point by `t` adds `t` to its argument -/
theorem arg_rot {x y : ℝ} (h : x ≠ 0 ∨ y ≠ 0) (t : ℝ) :
    TurnEq (Complex.arg ⟨x * Real.cos t - y * Real.sin t, x * Real.sin t + y * Real.cos t⟩)
      (Complex.arg ⟨x, y⟩ + t) := by
  have hx := re_eq_norm_cos x y
  have hy := im_eq_norm_sin x y
  have hr := sqrt_sumsq_pos h
  have e1 : x * Real.cos t - y * Real.sin t =
      Real.sqrt (x * x + y * y) * Real.cos (Complex.arg ⟨x, y⟩ + t) := by
    rw [Real.cos_add]; linear_combination Real.cos t * hx - Real.sin t * hy
  have e2 : x * Real.sin t + y * Real.cos t =
      Real.sqrt (x * x + y * y) * Real.sin (Complex.arg ⟨x, y⟩ + t) := by
    rw [Real.sin_add]; linear_combination Real.sin t * hx + Real.cos t * hy
  rw [e1, e2]
  exact arg_polar hr _

/-- `arccos (cos x) ≡ x` when `sin x > 0` -/
theorem arccos_cos_of_sin_pos {x : ℝ} (h : 0 < Real.sin x) : TurnEq (Real.arccos (Real.cos x)) x := by
  apply turnEq_of_cos_sin
  · exact Real.cos_arccos (Real.neg_one_le_cos x) (Real.cos_le_one x)
  · rw [Real.sin_arccos, ← Real.sin_sq x, Real.sqrt_sq h.le]

/-- `−arccos (cos x) ≡ x` when `sin x < 0` -/
theorem neg_arccos_cos_of_sin_neg {x : ℝ} (h : Real.sin x < 0) :
    TurnEq (-Real.arccos (Real.cos x)) x := by
  apply turnEq_of_cos_sin
  · rw [Real.cos_neg]; exact Real.cos_arccos (Real.neg_one_le_cos x) (Real.cos_le_one x)
  · rw [Real.sin_neg, Real.sin_arccos, ← Real.sin_sq x, Real.sqrt_sq_eq_abs, abs_of_neg h, neg_neg]

/-- `arccos (u / |z|) = |arg z|`, upper half plane -/
theorem arccos_div_norm_of_im_pos {u v : ℝ} (hv : 0 < v) :
    TurnEq (Real.arccos (u / Real.sqrt (u * u + v * v))) (Complex.arg ⟨u, v⟩) := by
  have hz : (⟨u, v⟩ : ℂ) ≠ 0 := by
    intro h; have := congrArg Complex.im h; simp at this; exact hv.ne' this
  have hc := Complex.cos_arg hz
  rw [norm_mk] at hc
  simp only at hc
  rw [← hc]
  apply arccos_cos_of_sin_pos
  rw [Complex.sin_arg, norm_mk]
  exact div_pos hv (sqrt_sumsq_pos (Or.inr hv.ne'))

theorem neg_arccos_div_norm_of_im_neg {u v : ℝ} (hv : v < 0) :
    TurnEq (-Real.arccos (u / Real.sqrt (u * u + v * v))) (Complex.arg ⟨u, v⟩) := by
  have hz : (⟨u, v⟩ : ℂ) ≠ 0 := by
    intro h; have := congrArg Complex.im h; simp at this; exact hv.ne this
  have hc := Complex.cos_arg hz
  rw [norm_mk] at hc
  simp only at hc
  rw [← hc]
  apply neg_arccos_cos_of_sin_neg
  rw [Complex.sin_arg, norm_mk]
  exact div_neg_of_neg_of_pos hv (sqrt_sumsq_pos (Or.inr hv.ne))


theorem _root_.Opw.Wrist.TurnEq.congr_right {a b c : ℝ} (h : TurnEq a b) (e : b = c) : TurnEq a c := e ▸ h
theorem _root_.Opw.Wrist.TurnEq.congr_left {a b c : ℝ} (h : TurnEq a b) (e : a = c) : TurnEq c b := e ▸ h
theorem _root_.Opw.Wrist.TurnEq.sub {a b c d : ℝ} (h : TurnEq a b) (g : TurnEq c d) : TurnEq (a - c) (b - d) := by
  have := h.add g.neg
  rwa [← sub_eq_add_neg, ← sub_eq_add_neg] at this

/-! ### Vocabulary -/

/-- `κ = √(a₂² + c₃²)` -/
noncomputable def kappa (p : Params ℝ) : ℝ := Real.sqrt (p.a2 * p.a2 + p.c3 * p.c3)
/-- `ψ₃ = atan2(a₂, c₃)` -/
noncomputable def psi3 (p : Params ℝ) : ℝ := Complex.arg ⟨p.c3, p.a2⟩
/-- elbow angle `φ = θ₃ + ψ₃` (angle between upper arm and the line elbow–wrist centre) -/
noncomputable def phi (p : Params ℝ) (θ : J6 ℝ) : ℝ := θ.j3 + psi3 p
/-- horizontal reach of the wrist centre from the J2 axis, in the arm plane -/
noncomputable def armX (p : Params ℝ) (θ : J6 ℝ) : ℝ :=
  p.c2 * Real.sin θ.j2 + kappa p * Real.sin (θ.j2 + θ.j3 + psi3 p)
/-- horizontal coordinate of the wrist centre in the frame of link 1 -/
noncomputable def cx1 (p : Params ℝ) (θ : J6 ℝ) : ℝ := armX p θ + p.a1
/-- height of the wrist centre above the J2 axis -/
noncomputable def cz1 (p : Params ℝ) (θ : J6 ℝ) : ℝ :=
  p.c2 * Real.cos θ.j2 + kappa p * Real.cos (θ.j2 + θ.j3 + psi3 p)
/-- the wrist centre of configuration `θ` in base coordinates -/
noncomputable def wcθ (p : Params ℝ) (θ : J6 ℝ) : V3 ℝ :=
  ⟨cx1 p θ * Real.cos θ.j1 - p.b * Real.sin θ.j1, cx1 p θ * Real.sin θ.j1 + p.b * Real.cos θ.j1,
   cz1 p θ + p.c1⟩
/-- the rotation matrix of configuration `θ` (closed form of `forward`) -/
noncomputable def roe (θ : J6 ℝ) : M3 ℝ :=
  (r0c (Real.sin θ.j1) (Real.cos θ.j1) (Real.sin θ.j2) (Real.cos θ.j2) (Real.sin θ.j3) (Real.cos θ.j3)).mul
    (rce (Real.sin θ.j4) (Real.cos θ.j4) (Real.sin θ.j5) (Real.cos θ.j5) (Real.sin θ.j6) (Real.cos θ.j6))
/-- the pose of configuration `θ` as `forward` returns it -/
noncomputable def poseOf (p : Params ℝ) (θ : J6 ℝ) : Iso ℝ :=
  ⟨(forwardTheta p θ).2, Quat.ofMat (forwardTheta p θ).1⟩

/-- `θ` is away from the shoulder, elbow and wrist singularities (and the arm is not degenerate) -/
structure NonSingular (p : Params ℝ) (θ : J6 ℝ) : Prop where
  c2_pos : 0 < p.c2
  kappa_pos : 0 < kappa p
  /-- the wrist centre is not in the plane through the J1 axis normal to the arm plane -/
  shoulder : cx1 p θ ≠ 0
  /-- the arm is neither stretched nor folded -/
  elbow : Real.sin (phi p θ) ≠ 0
  /-- J4 and J6 are not collinear -/
  wrist : Real.sin θ.j5 ≠ 0

/-! ### S0. The wrist centre -/

theorem forwardTheta_fst (p : Params ℝ) (θ : J6 ℝ) : (forwardTheta p θ).1 = roe θ := rfl

theorem forwardTheta_snd (p : Params ℝ) (θ : J6 ℝ) :
    (forwardTheta p θ).2 = (wcθ p θ).add ((M3.scaleL p.c4 (roe θ)).mulVec V3.ez) := rfl

theorem IsRot_roe (θ : J6 ℝ) : IsRot (roe θ) := by
  rw [← forwardTheta_fst default θ, forwardTheta_rot]; exact IsRot_rot6 θ

theorem poseOf_toMat (p : Params ℝ) (θ : J6 ℝ) : (poseOf p θ).q.toMat = roe θ :=
  Quat.toMat_ofMat _ (IsRot_roe θ)

theorem poseOf_unit (p : Params ℝ) (θ : J6 ℝ) : (poseOf p θ).q.normSq = 1 :=
  Quat.normSq_ofMat _ (IsRot_roe θ)

/-- S0: the solver's wrist centre `t − c4·R·e_z` is the wrist centre of `θ` -/
theorem wc_poseOf (p : Params ℝ) (θ : J6 ℝ) : wc p (poseOf p θ) = wcθ p θ := by
  unfold wc
  simp only [poseOf_toMat]
  show ((forwardTheta p θ).2).sub _ = _
  rw [forwardTheta_snd]
  generalize roe θ = M
  apply V3.ext' <;> simp only [V3.sub, V3.add, M3.mulVec, M3.scaleL, V3.ez, lit0, lit1] <;> ring

/-! ### S1. Shoulder -/

theorem wc_sq (p : Params ℝ) (θ : J6 ℝ) :
    ((wcθ p θ).x * (wcθ p θ).x + (wcθ p θ).y * (wcθ p θ).y) - p.b * p.b = cx1 p θ ^ 2 := by
  simp only [wcθ]
  linear_combination (cx1 p θ ^ 2 + p.b ^ 2) * Real.sin_sq_add_cos_sq θ.j1

theorem nx1_eq (p : Params ℝ) (θ : J6 ℝ) : nx1 p (wcθ p θ) = |cx1 p θ| - p.a1 := by
  show Real.sqrt (((wcθ p θ).x * (wcθ p θ).x + (wcθ p θ).y * (wcθ p θ).y) - p.b * p.b) - p.a1 = _
  rw [wc_sq, Real.sqrt_sq_eq_abs]

theorem nx1_front (p : Params ℝ) (θ : J6 ℝ) (h : 0 < cx1 p θ) : nx1 p (wcθ p θ) = armX p θ := by
  rw [nx1_eq, abs_of_pos h]; unfold cx1; ring

theorem nx1_back (p : Params ℝ) (θ : J6 ℝ) (h : cx1 p θ < 0) :
    nx1 p (wcθ p θ) + 2 * p.a1 = -armX p θ := by
  rw [nx1_eq, abs_of_neg h]; unfold cx1; ring

theorem tmp1_turnEq (p : Params ℝ) (θ : J6 ℝ) (h : cx1 p θ ≠ 0) :
    TurnEq (Complex.arg ⟨(wcθ p θ).x, (wcθ p θ).y⟩) (Complex.arg ⟨cx1 p θ, p.b⟩ + θ.j1) :=
  arg_rot (Or.inl h) θ.j1

/-- S1, front branch: `θ1_i ≡ θ1` -/
theorem th1i_front (p : Params ℝ) (θ : J6 ℝ) (h : 0 < cx1 p θ) :
    TurnEq (th1i p (wcθ p θ)) θ.j1 := by
  have e : nx1 p (wcθ p θ) + p.a1 = cx1 p θ := by rw [nx1_front p θ h]; rfl
  show TurnEq (Complex.arg ⟨(wcθ p θ).x, (wcθ p θ).y⟩ - Complex.arg ⟨nx1 p (wcθ p θ) + p.a1, p.b⟩) _
  rw [e]
  exact ((tmp1_turnEq p θ h.ne').sub_const _).congr_right (by ring)

/-- reflection in the imaginary axis: `arg (−x + i y) ≡ π − arg (x + i y)` -/
theorem arg_reflect {x y : ℝ} (h : x ≠ 0 ∨ y ≠ 0) :
    TurnEq (Complex.arg ⟨-x, y⟩) (Real.pi - Complex.arg ⟨x, y⟩) := by
  have hx := re_eq_norm_cos x y
  have hy := im_eq_norm_sin x y
  have hr := sqrt_sumsq_pos h
  have e1 : -x = Real.sqrt (x * x + y * y) * Real.cos (Real.pi - Complex.arg ⟨x, y⟩) := by
    rw [Real.cos_pi_sub]; linear_combination -hx
  have e2 : y = Real.sqrt (x * x + y * y) * Real.sin (Real.pi - Complex.arg ⟨x, y⟩) := by
    rw [Real.sin_pi_sub]; exact hy
  have := arg_polar hr (Real.pi - Complex.arg ⟨x, y⟩)
  rw [← e1, ← e2] at this
  exact this

/-- S1, back branch: `θ1_ii ≡ θ1` -/
theorem th1ii_back (p : Params ℝ) (θ : J6 ℝ) (h : cx1 p θ < 0) :
    TurnEq (th1ii p (wcθ p θ)) θ.j1 := by
  have e : nx1 p (wcθ p θ) + p.a1 = -cx1 p θ := by rw [nx1_eq, abs_of_neg h]; ring
  show TurnEq (Complex.arg ⟨(wcθ p θ).x, (wcθ p θ).y⟩ + Complex.arg ⟨nx1 p (wcθ p θ) + p.a1, p.b⟩
    - Real.pi) _
  rw [e]
  have h1 := tmp1_turnEq p θ h.ne
  have h2 := arg_reflect (x := cx1 p θ) (y := p.b) (Or.inl h.ne)
  exact ((h1.add h2).sub_const Real.pi).congr_right (by ring)

/-! ### S2. Elbow -/

/-- wrist centre in the frame of the upper arm: along the arm … -/
noncomputable def uu (p : Params ℝ) (θ : J6 ℝ) : ℝ := p.c2 + kappa p * Real.cos (phi p θ)
/-- … and across it -/
noncomputable def vv (p : Params ℝ) (θ : J6 ℝ) : ℝ := kappa p * Real.sin (phi p θ)

theorem kappa2_eq (p : Params ℝ) : kappa2 p = kappa p ^ 2 := by
  show p.a2 * p.a2 + p.c3 * p.c3 = (Real.sqrt _) ^ 2
  rw [Real.sq_sqrt (by nlinarith [mul_self_nonneg p.a2, mul_self_nonneg p.c3])]

theorem tmp9_eq (p : Params ℝ) : tmp9 p = 2 * p.c2 * kappa p := by
  unfold tmp9; rw [lit2]; rfl

theorem cz1_rot (p : Params ℝ) (θ : J6 ℝ) :
    cz1 p θ = uu p θ * Real.cos θ.j2 - vv p θ * Real.sin θ.j2 := by
  unfold cz1 uu vv
  rw [show θ.j2 + θ.j3 + psi3 p = θ.j2 + phi p θ by unfold phi; ring, Real.cos_add]; ring

theorem armX_rot (p : Params ℝ) (θ : J6 ℝ) :
    armX p θ = uu p θ * Real.sin θ.j2 + vv p θ * Real.cos θ.j2 := by
  unfold armX uu vv
  rw [show θ.j2 + θ.j3 + psi3 p = θ.j2 + phi p θ by unfold phi; ring, Real.sin_add]; ring

theorem reach_sq (p : Params ℝ) (θ : J6 ℝ) :
    armX p θ * armX p θ + cz1 p θ * cz1 p θ = uu p θ * uu p θ + vv p θ * vv p θ := by
  rw [cz1_rot, armX_rot]
  linear_combination (uu p θ * uu p θ + vv p θ * vv p θ) * Real.sin_sq_add_cos_sq θ.j2

/-- law of cosines in the triangle shoulder – elbow – wrist centre -/
theorem uv_sq (p : Params ℝ) (θ : J6 ℝ) :
    uu p θ * uu p θ + vv p θ * vv p θ =
      p.c2 ^ 2 + kappa p ^ 2 + 2 * p.c2 * kappa p * Real.cos (phi p θ) := by
  unfold uu vv
  linear_combination (kappa p ^ 2) * Real.sin_sq_add_cos_sq (phi p θ)

theorem wcθ_z (p : Params ℝ) (θ : J6 ℝ) : (wcθ p θ).z - p.c1 = cz1 p θ := by
  simp only [wcθ]; ring

/-- S2: `s1² = |u + i v|²` on the front branch -/
theorem s1sq_front (p : Params ℝ) (θ : J6 ℝ) (h : 0 < cx1 p θ) :
    s1sq p (wcθ p θ) = uu p θ * uu p θ + vv p θ * vv p θ := by
  unfold s1sq; rw [nx1_front p θ h, wcθ_z, reach_sq]

/-- `s2² = |u + i v|²` on the back branch -/
theorem s2sq_back (p : Params ℝ) (θ : J6 ℝ) (h : cx1 p θ < 0) :
    s2sq p (wcθ p θ) = uu p θ * uu p θ + vv p θ * vv p θ := by
  unfold s2sq
  rw [show (nx1 p (wcθ p θ) + OfNat.ofNat 2 * p.a1) = nx1 p (wcθ p θ) + 2 * p.a1 by rw [lit2],
    nx1_back p θ h, wcθ_z, ← reach_sq]; ring

/-- the argument of the elbow `acos` is `cos φ` -/
theorem elbow_ratio (p : Params ℝ) (θ : J6 ℝ) (hc : 0 < p.c2) (hk : 0 < kappa p) :
    (uu p θ * uu p θ + vv p θ * vv p θ - p.c2 * p.c2 - kappa2 p) / tmp9 p = Real.cos (phi p θ) := by
  rw [uv_sq, kappa2_eq, tmp9_eq]
  field_simp
  ring

theorem tmp11_front (p : Params ℝ) (θ : J6 ℝ) (hc : 0 < p.c2) (hk : 0 < kappa p)
    (h : 0 < cx1 p θ) : tmp11 p (wcθ p θ) = Real.arccos (Real.cos (phi p θ)) := by
  show Real.arccos ((s1sq p (wcθ p θ) - p.c2 * p.c2 - kappa2 p) / tmp9 p) = _
  rw [s1sq_front p θ h, elbow_ratio p θ hc hk]

theorem tmp12_back (p : Params ℝ) (θ : J6 ℝ) (hc : 0 < p.c2) (hk : 0 < kappa p)
    (h : cx1 p θ < 0) : tmp12 p (wcθ p θ) = Real.arccos (Real.cos (phi p θ)) := by
  show Real.arccos ((s2sq p (wcθ p θ) - p.c2 * p.c2 - kappa2 p) / tmp9 p) = _
  rw [s2sq_back p θ h, elbow_ratio p θ hc hk]

theorem phi_sub (p : Params ℝ) (θ : J6 ℝ) : phi p θ - psi3 p = θ.j3 := by unfold phi; ring

/-- S2, elbow "up" (`sin φ > 0`): `θ3_i ≡ θ3` -/
theorem th3i_front (p : Params ℝ) (θ : J6 ℝ) (hc : 0 < p.c2) (hk : 0 < kappa p)
    (h : 0 < cx1 p θ) (he : 0 < Real.sin (phi p θ)) : TurnEq (th3i p (wcθ p θ)) θ.j3 := by
  show TurnEq (tmp11 p (wcθ p θ) - psi3 p) _
  rw [tmp11_front p θ hc hk h]
  exact ((arccos_cos_of_sin_pos he).sub_const _).congr_right (phi_sub p θ)

/-- S2, elbow "down" (`sin φ < 0`): `θ3_ii ≡ θ3` -/
theorem th3ii_front (p : Params ℝ) (θ : J6 ℝ) (hc : 0 < p.c2) (hk : 0 < kappa p)
    (h : 0 < cx1 p θ) (he : Real.sin (phi p θ) < 0) : TurnEq (th3ii p (wcθ p θ)) θ.j3 := by
  show TurnEq (-tmp11 p (wcθ p θ) - psi3 p) _
  rw [tmp11_front p θ hc hk h]
  exact ((neg_arccos_cos_of_sin_neg he).sub_const _).congr_right (phi_sub p θ)

theorem th3iii_back (p : Params ℝ) (θ : J6 ℝ) (hc : 0 < p.c2) (hk : 0 < kappa p)
    (h : cx1 p θ < 0) (he : 0 < Real.sin (phi p θ)) : TurnEq (th3iii p (wcθ p θ)) θ.j3 := by
  show TurnEq (tmp12 p (wcθ p θ) - psi3 p) _
  rw [tmp12_back p θ hc hk h]
  exact ((arccos_cos_of_sin_pos he).sub_const _).congr_right (phi_sub p θ)

theorem th3iv_back (p : Params ℝ) (θ : J6 ℝ) (hc : 0 < p.c2) (hk : 0 < kappa p)
    (h : cx1 p θ < 0) (he : Real.sin (phi p θ) < 0) : TurnEq (th3iv p (wcθ p θ)) θ.j3 := by
  show TurnEq (-tmp12 p (wcθ p θ) - psi3 p) _
  rw [tmp12_back p θ hc hk h]
  exact ((neg_arccos_cos_of_sin_neg he).sub_const _).congr_right (phi_sub p θ)

/-! ### S3. θ2 -/

/-- the argument of the shoulder `acos` is `u / |u + i v|` -/
theorem shoulder_ratio (p : Params ℝ) (θ : J6 ℝ) (hc : 0 < p.c2) (hv : vv p θ ≠ 0) :
    (uu p θ * uu p θ + vv p θ * vv p θ + p.c2 * p.c2 - kappa2 p) /
        (2 * Real.sqrt (uu p θ * uu p θ + vv p θ * vv p θ) * p.c2) =
      uu p θ / Real.sqrt (uu p θ * uu p θ + vv p θ * vv p θ) := by
  have hnum : uu p θ * uu p θ + vv p θ * vv p θ + p.c2 * p.c2 - kappa2 p = 2 * p.c2 * uu p θ := by
    rw [uv_sq, kappa2_eq]; unfold uu; ring
  have hr := sqrt_sumsq_pos (x := uu p θ) (Or.inr hv)
  rw [hnum]
  generalize Real.sqrt (uu p θ * uu p θ + vv p θ * vv p θ) = r at hr
  field_simp

theorem tmp13_front (p : Params ℝ) (θ : J6 ℝ) (hc : 0 < p.c2) (hv : vv p θ ≠ 0)
    (h : 0 < cx1 p θ) :
    tmp13 p (wcθ p θ) = Real.arccos (uu p θ / Real.sqrt (uu p θ * uu p θ + vv p θ * vv p θ)) := by
  show Real.arccos ((s1sq p (wcθ p θ) + p.c2 * p.c2 - kappa2 p) /
    (OfNat.ofNat 2 * Real.sqrt (s1sq p (wcθ p θ)) * p.c2)) = _
  rw [lit2, s1sq_front p θ h, shoulder_ratio p θ hc hv]

theorem tmp15_back (p : Params ℝ) (θ : J6 ℝ) (hc : 0 < p.c2) (hv : vv p θ ≠ 0)
    (h : cx1 p θ < 0) :
    tmp15 p (wcθ p θ) = Real.arccos (uu p θ / Real.sqrt (uu p θ * uu p θ + vv p θ * vv p θ)) := by
  show Real.arccos ((s2sq p (wcθ p θ) + p.c2 * p.c2 - kappa2 p) /
    (OfNat.ofNat 2 * Real.sqrt (s2sq p (wcθ p θ)) * p.c2)) = _
  rw [lit2, s2sq_back p θ h, shoulder_ratio p θ hc hv]

theorem tmp14_front (p : Params ℝ) (θ : J6 ℝ) (hv : vv p θ ≠ 0) (h : 0 < cx1 p θ) :
    TurnEq (tmp14 p (wcθ p θ)) (Complex.arg ⟨uu p θ, vv p θ⟩ + θ.j2) := by
  show TurnEq (Complex.arg ⟨(wcθ p θ).z - p.c1, nx1 p (wcθ p θ)⟩) _
  rw [nx1_front p θ h, wcθ_z, cz1_rot, armX_rot]
  exact arg_rot (Or.inr hv) θ.j2

theorem tmp16_back (p : Params ℝ) (θ : J6 ℝ) (hv : vv p θ ≠ 0) (h : cx1 p θ < 0) :
    TurnEq (tmp16 p (wcθ p θ)) (Complex.arg ⟨uu p θ, -vv p θ⟩ + -θ.j2) := by
  show TurnEq (Complex.arg ⟨(wcθ p θ).z - p.c1, nx1 p (wcθ p θ) + OfNat.ofNat 2 * p.a1⟩) _
  rw [lit2, nx1_back p θ h, wcθ_z, cz1_rot, armX_rot]
  have := arg_rot (x := uu p θ) (y := -vv p θ) (Or.inr (neg_ne_zero.mpr hv)) (-θ.j2)
  rw [Real.cos_neg, Real.sin_neg] at this
  convert this using 3 <;> ring

/-- S3, elbow up: `θ2_i ≡ θ2` -/
theorem th2i_front (p : Params ℝ) (θ : J6 ℝ) (hc : 0 < p.c2) (h : 0 < cx1 p θ)
    (hv : 0 < vv p θ) : TurnEq (th2i p (wcθ p θ)) θ.j2 := by
  show TurnEq (-tmp13 p (wcθ p θ) + tmp14 p (wcθ p θ)) _
  rw [tmp13_front p θ hc hv.ne' h]
  exact ((arccos_div_norm_of_im_pos hv).neg.add (tmp14_front p θ hv.ne' h)).congr_right (by ring)

/-- S3, elbow down: `θ2_ii ≡ θ2` -/
theorem th2ii_front (p : Params ℝ) (θ : J6 ℝ) (hc : 0 < p.c2) (h : 0 < cx1 p θ)
    (hv : vv p θ < 0) : TurnEq (th2ii p (wcθ p θ)) θ.j2 := by
  show TurnEq (tmp13 p (wcθ p θ) + tmp14 p (wcθ p θ)) _
  rw [tmp13_front p θ hc hv.ne h]
  have h13 := ((neg_arccos_div_norm_of_im_neg (u := uu p θ) hv).neg).congr_left (neg_neg _)
  exact (h13.add (tmp14_front p θ hv.ne h)).congr_right (by ring)

theorem th2iii_back (p : Params ℝ) (θ : J6 ℝ) (hc : 0 < p.c2) (h : cx1 p θ < 0)
    (hv : 0 < vv p θ) : TurnEq (th2iii p (wcθ p θ)) θ.j2 := by
  show TurnEq (-tmp15 p (wcθ p θ) - tmp16 p (wcθ p θ)) _
  rw [tmp15_back p θ hc hv.ne' h]
  have h15 := neg_arccos_div_norm_of_im_neg (u := uu p θ) (v := -vv p θ) (by linarith)
  rw [neg_mul_neg] at h15
  exact (h15.sub (tmp16_back p θ hv.ne' h)).congr_right (by ring)

theorem th2iv_back (p : Params ℝ) (θ : J6 ℝ) (hc : 0 < p.c2) (h : cx1 p θ < 0)
    (hv : vv p θ < 0) : TurnEq (th2iv p (wcθ p θ)) θ.j2 := by
  show TurnEq (tmp15 p (wcθ p θ) - tmp16 p (wcθ p θ)) _
  rw [tmp15_back p θ hc hv.ne h]
  have h15 := arccos_div_norm_of_im_pos (u := uu p θ) (v := -vv p θ) (by linarith)
  rw [neg_mul_neg] at h15
  exact (h15.sub (tmp16_back p θ hv.ne h)).congr_right (by ring)

/-! ### S4. Wrist -/

theorem r0c_eq_product (s1 c1 s2 c2 s3 c3 : ℝ) :
    r0c s1 c1 s2 c2 s3 c3 = ((M3.rz s1 c1).mul (M3.ry s2 c2)).mul (M3.ry s3 c3) := by
  apply M3.ext' <;> simp only [M3.mul, r0c, M3.rz, M3.ry, lit0, lit1] <;> ring

theorem IsRot_r0c (a b c : ℝ) :
    IsRot (r0c (Real.sin a) (Real.cos a) (Real.sin b) (Real.cos b) (Real.sin c) (Real.cos c)) := by
  rw [r0c_eq_product]; exact ((IsRot_rz a).mul (IsRot_ry b)).mul (IsRot_ry c)

/-- `R0cᵀ · R = Rce` -/
theorem r0cT_mul_roe (θ : J6 ℝ) :
    (r0c (Real.sin θ.j1) (Real.cos θ.j1) (Real.sin θ.j2) (Real.cos θ.j2) (Real.sin θ.j3)
        (Real.cos θ.j3)).transpose.mul (roe θ) =
      rce (Real.sin θ.j4) (Real.cos θ.j4) (Real.sin θ.j5) (Real.cos θ.j5) (Real.sin θ.j6)
        (Real.cos θ.j6) := by
  unfold roe
  rw [← M3.mul_assoc, (IsRot_r0c θ.j1 θ.j2 θ.j3).tm, M3.one_mul]

/-- the five quantities the wrist solution is computed from, for the true `(θ1, θ2 + θ3)` -/
theorem wrist_entries (θ : J6 ℝ) :
    (roe θ).m02 * Real.sin (θ.j2 + θ.j3) * Real.cos θ.j1 + (roe θ).m12 * Real.sin (θ.j2 + θ.j3) * Real.sin θ.j1
        + (roe θ).m22 * Real.cos (θ.j2 + θ.j3) = Real.cos θ.j5 ∧
    (roe θ).m12 * Real.cos θ.j1 - (roe θ).m02 * Real.sin θ.j1 = Real.sin θ.j5 * Real.sin θ.j4 ∧
    (roe θ).m02 * Real.cos (θ.j2 + θ.j3) * Real.cos θ.j1 + (roe θ).m12 * Real.cos (θ.j2 + θ.j3) * Real.sin θ.j1
        - (roe θ).m22 * Real.sin (θ.j2 + θ.j3) = Real.sin θ.j5 * Real.cos θ.j4 ∧
    (roe θ).m01 * Real.sin (θ.j2 + θ.j3) * Real.cos θ.j1 + (roe θ).m11 * Real.sin (θ.j2 + θ.j3) * Real.sin θ.j1
        + (roe θ).m21 * Real.cos (θ.j2 + θ.j3) = Real.sin θ.j5 * Real.sin θ.j6 ∧
    -(roe θ).m00 * Real.sin (θ.j2 + θ.j3) * Real.cos θ.j1 - (roe θ).m10 * Real.sin (θ.j2 + θ.j3) * Real.sin θ.j1
        - (roe θ).m20 * Real.cos (θ.j2 + θ.j3) = Real.sin θ.j5 * Real.cos θ.j6 := by
  have h := r0cT_mul_roe θ
  generalize roe θ = M at h ⊢
  have h22 := congrArg M3.m22 h
  have h12 := congrArg M3.m12 h
  have h02 := congrArg M3.m02 h
  have h21 := congrArg M3.m21 h
  have h20 := congrArg M3.m20 h
  simp only [M3.mul, M3.transpose, r0c, rce, lit0] at h22 h12 h02 h21 h20
  rw [Real.sin_add, Real.cos_add]
  refine ⟨?_, ?_, ?_, ?_, ?_⟩
  · linear_combination h22
  · linear_combination h12
  · linear_combination h02
  · linear_combination h21
  · linear_combination -h20

/-- S4: for `(θ1, θ2 + θ3)` known modulo whole turns and `sin θ5 > 0`, the wrist solution is
`(θ4, θ5, θ6)` modulo whole turns -/
theorem wristSol_turnEq (θ : J6 ℝ) {s1 c1 t23 : ℝ} (hs1 : s1 = Real.sin θ.j1) (hc1 : c1 = Real.cos θ.j1)
    (h23 : TurnEq t23 (θ.j2 + θ.j3)) (h5 : 0 < Real.sin θ.j5) :
    TurnEq (wristSol (roe θ) s1 c1 t23).1 θ.j4 ∧ TurnEq (wristSol (roe θ) s1 c1 t23).2.1 θ.j5 ∧
      TurnEq (wristSol (roe θ) s1 c1 t23).2.2 θ.j6 := by
  obtain ⟨e5, e4y, e4x, e6y, e6x⟩ := wrist_entries θ
  subst hs1 hc1
  simp only [wristSol, nsin_real, ncos_real, natan2_real, nsqrt_real, lit1, h23.sin_eq, h23.cos_eq,
    e5, e4y, e4x, e6y, e6x]
  refine ⟨arg_polar h5 _, ?_, arg_polar h5 _⟩
  have : Real.sqrt (1 - Real.cos θ.j5 * Real.cos θ.j5) = Real.sin θ.j5 := by
    rw [show 1 - Real.cos θ.j5 * Real.cos θ.j5 = Real.sin θ.j5 ^ 2 by
      linear_combination -Real.sin_sq_add_cos_sq θ.j5, Real.sqrt_sq h5.le]
  rw [this]
  simpa using arg_polar one_pos θ.j5

/-! ### S5. Assembly in θ-space -/

/-- a candidate built from a shoulder/arm solution congruent to `(θ1, θ2, θ3)` is congruent to `θ`
(`sin θ5 > 0`) -/
theorem cand_turnEq (θ : J6 ℝ) {t1 t2 t3 : ℝ} (h1 : TurnEq t1 θ.j1) (h2 : TurnEq t2 θ.j2)
    (h3 : TurnEq t3 θ.j3) (h5 : 0 < Real.sin θ.j5) : J6TurnEq (cand (roe θ) t1 t2 t3) θ := by
  obtain ⟨w4, w5, w6⟩ := wristSol_turnEq θ (s1 := Real.sin t1) (c1 := Real.cos t1) h1.sin_eq h1.cos_eq
    (h2.add h3) h5
  exact ⟨h1, h2, h3, w4, w5, w6⟩

theorem vv_pos (p : Params ℝ) (θ : J6 ℝ) (hk : 0 < kappa p) (he : 0 < Real.sin (phi p θ)) :
    0 < vv p θ := mul_pos hk he
theorem vv_neg (p : Params ℝ) (θ : J6 ℝ) (hk : 0 < kappa p) (he : Real.sin (phi p θ) < 0) :
    vv p θ < 0 := mul_neg_of_pos_of_neg hk he

/-- S5 for `sin θ5 > 0`: one of the first four raw candidates is `θ` modulo whole turns
(front/back shoulder × elbow up/down) -/
theorem theta_candidate_complete_pos (p : Params ℝ) (θ : J6 ℝ) (h : NonSingular p θ)
    (h5 : 0 < Real.sin θ.j5) : ∃ t ∈ thetaCandidates p (poseOf p θ), J6TurnEq t θ := by
  obtain ⟨hc, hk, hsh, hel, -⟩ := h
  rw [thetaCandidates_eq, wc_poseOf, poseOf_toMat]
  rcases lt_or_gt_of_ne hsh with hb | hf
  · rcases lt_or_gt_of_ne hel with he | he
    · exact ⟨_, List.mem_cons_of_mem _ (List.mem_cons_of_mem _ (List.mem_cons_of_mem _ List.mem_cons_self)),
        cand_turnEq θ (th1ii_back p θ hb) (th2iv_back p θ hc hb (vv_neg p θ hk he))
          (th3iv_back p θ hc hk hb he) h5⟩
    · exact ⟨_, List.mem_cons_of_mem _ (List.mem_cons_of_mem _ List.mem_cons_self),
        cand_turnEq θ (th1ii_back p θ hb) (th2iii_back p θ hc hb (vv_pos p θ hk he))
          (th3iii_back p θ hc hk hb he) h5⟩
  · rcases lt_or_gt_of_ne hel with he | he
    · exact ⟨_, List.mem_cons_of_mem _ List.mem_cons_self,
        cand_turnEq θ (th1i_front p θ hf) (th2ii_front p θ hc hf (vv_neg p θ hk he))
          (th3ii_front p θ hc hk hf he) h5⟩
    · exact ⟨_, List.mem_cons_self,
        cand_turnEq θ (th1i_front p θ hf) (th2i_front p θ hc hf (vv_pos p θ hk he))
          (th3i_front p θ hc hk hf he) h5⟩

theorem nonSingular_flip {p : Params ℝ} {θ : J6 ℝ} (h : NonSingular p θ) : NonSingular p (flip θ) :=
  ⟨h.c2_pos, h.kappa_pos, h.shoulder, h.elbow, by
    show Real.sin (-θ.j5) ≠ 0
    rw [Real.sin_neg]; exact neg_ne_zero.mpr h.wrist⟩

theorem poseOf_flip (p : Params ℝ) (θ : J6 ℝ) : poseOf p (flip θ) = poseOf p θ := by
  unfold poseOf; rw [forwardTheta_flip']

/-- S5: the raw candidates of the pose of a non-singular `θ` contain `θ` modulo whole turns -/
theorem theta_candidate_complete (p : Params ℝ) (θ : J6 ℝ) (h : NonSingular p θ) :
    ∃ t ∈ thetaCandidates p (poseOf p θ), J6TurnEq t θ := by
  rcases lt_or_gt_of_ne h.wrist with h5 | h5
  · have h5' : 0 < Real.sin (flip θ).j5 := by
      show 0 < Real.sin (-θ.j5)
      rw [Real.sin_neg]; linarith
    obtain ⟨t, ht, hte⟩ := theta_candidate_complete_pos p (flip θ) (nonSingular_flip h) h5'
    rw [poseOf_flip] at ht
    obtain ⟨t', ht', hc⟩ := candidates_twin p _ t ht
    exact ⟨t', ht', hc.trans ((flip_turnEq hte).trans (flip_flip_turnEq θ))⟩
  · exact theta_candidate_complete_pos p θ h h5

/-! ### S6. Lift to the solver -/

/-- a pose with a unit quaternion passes the comparison with itself -/
theorem comparePoses_self (a : Iso ℝ) (ha : a.q.normSq = 1) {dT aT : ℝ} (hd : 0 ≤ dT) (hA : 0 ≤ aT) :
    comparePoses a a dT aT = true := by
  have htd : (a.t.sub a.t).norm = 0 := by
    simp [V3.norm, V3.normSq, V3.dot, V3.sub]
  have had : Quat.angleTo a.q a.q = 0 := by
    unfold Quat.angleTo Quat.rotationTo
    rw [Quat.mul_conj_self _ ha]
    simp [Quat.angle, Quat.one, Quat.imag, V3.norm, V3.normSq, V3.dot, lit0, lit1, lit2,
      Nearest.arg_mk_im_zero]
  simp only [comparePoses, htd, had, nabs_real, abs_zero, hd, hA, decide_true, Bool.not_true,
    Bool.false_eq_true, if_false]

theorem forward_eq_poseOf (p : Params ℝ) (j : J6 ℝ) : forward p j = poseOf p (thetaOf p j) := rfl

/-- S6: `inverse_intern`, asked for the pose of a joint vector `j` whose θ is non-singular, returns a
solution that is `j` in θ-space modulo whole turns -/
theorem ik_complete_intern (p : Params ℝ) (hs : SignsOk p) (j : J6 ℝ)
    (h : NonSingular p (thetaOf p j)) :
    ∃ s ∈ inverseIntern p (forward p j), J6TurnEq (thetaOf p s) (thetaOf p j) := by
  obtain ⟨t, ht, hte⟩ := theta_candidate_complete p (thetaOf p j) h
  have hθ := (thetaOf_finish_turnEq p hs t).trans hte
  refine ⟨(jointsOf p t).map normPi,
    mem_inverseIntern.mpr ⟨t, by rw [forward_eq_poseOf]; exact ht, allFinite_real _, rfl, ?_⟩, hθ⟩
  unfold Sound
  rw [forward_congr p hθ]
  exact comparePoses_self _ (poseOf_unit p _) Nearest.distTol_nonneg Nearest.angTol_nonneg

/-- the matching solution has the requested pose exactly -/
theorem ik_complete_intern_pose (p : Params ℝ) (hs : SignsOk p) (j : J6 ℝ)
    (h : NonSingular p (thetaOf p j)) :
    ∃ s ∈ inverseIntern p (forward p j), J6TurnEq (thetaOf p s) (thetaOf p j) ∧
      forward p s = forward p j := by
  obtain ⟨s, hs1, hs2⟩ := ik_complete_intern p hs j h
  exact ⟨s, hs1, hs2, forward_congr p hs2⟩

/-! ### Back to joint space; exact round trip for joints in `(−π, π)` -/

theorem jointsOf_turnEq (p : Params ℝ) (hs : SignsOk p) {a b : J6 ℝ} (h : J6TurnEq a b) :
    J6TurnEq (jointsOf p a) (jointsOf p b) := by
  obtain ⟨s1, s2, s3, s4, s5, s6⟩ := hs
  obtain ⟨h1, h2, h3, h4, h5, h6⟩ := h
  exact ⟨(h1.add_const _).mul_sign s1, (h2.add_const _).mul_sign s2, (h3.add_const _).mul_sign s3,
    (h4.add_const _).mul_sign s4, (h5.add_const _).mul_sign s5, (h6.add_const _).mul_sign s6⟩

/-- in joint space: the returned solution is `j` modulo whole turns -/
theorem ik_complete_intern_joint (p : Params ℝ) (hs : SignsOk p) (j : J6 ℝ)
    (h : NonSingular p (thetaOf p j)) : ∃ s ∈ inverseIntern p (forward p j), J6TurnEq s j := by
  obtain ⟨s, hs1, hs2⟩ := ik_complete_intern p hs j h
  have := jointsOf_turnEq p hs hs2
  rw [jointsOf_thetaOf p hs, jointsOf_thetaOf p hs] at this
  exact ⟨s, hs1, this⟩

/-- two angles congruent modulo whole turns, one in `[−π, π]`, the other in `(−π, π)`, are equal -/
theorem eq_of_turnEq_of_abs {a b : ℝ} (h : TurnEq a b) (ha : |a| ≤ Real.pi) (hb : |b| < Real.pi) :
    a = b := by
  obtain ⟨k, hk⟩ := h
  have h1 : |2 * Real.pi * (k : ℝ)| < 2 * Real.pi := by
    have e : 2 * Real.pi * (k : ℝ) = a - b := by rw [hk]; ring
    rw [e]
    have := abs_sub a b
    linarith
  have h2 : |(k : ℝ)| < 1 := by
    rw [abs_mul, abs_of_pos Real.two_pi_pos] at h1
    have := Real.two_pi_pos
    nlinarith
  have h3 : |k| < 1 := by exact_mod_cast h2
  have h4 : k = 0 := Int.abs_lt_one_iff.mp h3
  rw [hk, h4]; simp

theorem signsOk_absLe {p : Params ℝ} (hs : SignsOk p) : Nearest.absLe p.signs 1 := by
  obtain ⟨s1, s2, s3, s4, s5, s6⟩ := hs
  exact ⟨(IsSign.abs s1).le, (IsSign.abs s2).le, (IsSign.abs s3).le, (IsSign.abs s4).le,
    (IsSign.abs s5).le, (IsSign.abs s6).le⟩

/-- `|jᵢ| < π` for all six joints -/
def InsidePi (j : J6 ℝ) : Prop :=
  |j.j1| < Real.pi ∧ |j.j2| < Real.pi ∧ |j.j3| < Real.pi ∧ |j.j4| < Real.pi ∧ |j.j5| < Real.pi ∧
    |j.j6| < Real.pi

/-- exact round trip: a non-singular joint vector with all joints in `(−π, π)` is itself among the
answers of `inverse_intern` for its own forward pose (offsets within the fuel of the
normalisation loop) -/
theorem ik_roundtrip_intern (p : Params ℝ) (hs : SignsOk p) (ho : Nearest.absLe p.offsets 100000)
    (j : J6 ℝ) (hj : InsidePi j) (h : NonSingular p (thetaOf p j)) :
    j ∈ inverseIntern p (forward p j) := by
  obtain ⟨s, hs1, e1, e2, e3, e4, e5, e6⟩ := ik_complete_intern_joint p hs j h
  obtain ⟨b1, b2, b3, b4, b5, b6⟩ := Nearest.inverseIntern_absLe p _ s (signsOk_absLe hs) ho hs1
  obtain ⟨j1, j2, j3, j4, j5, j6⟩ := hj
  have : s = j := J6.ext' (eq_of_turnEq_of_abs e1 b1 j1) (eq_of_turnEq_of_abs e2 b2 j2)
    (eq_of_turnEq_of_abs e3 b3 j3) (eq_of_turnEq_of_abs e4 b4 j4) (eq_of_turnEq_of_abs e5 b5 j5)
    (eq_of_turnEq_of_abs e6 b6 j6)
  exact this ▸ hs1

end Opw.IkComplete
