/-
  Helper lemmas for C09 (Tool / Base / Frame wrapper stacks) and C16 (Parallelogram coupling).

  * `Iso.Same`            — "same rigid motion" (translation and rotation MATRIX agree; a quaternion
                            and its negative are the same rotation), congruence for `Iso.mul`
  * `Kin.baseOf/toolOf`   — accumulated base / tool+frame transforms of a stack
  * `Kin.WF`              — every wrapper isometry carries a unit quaternion
  * `Kin.baseFrameOnly`   — stacks built from Base and Frame only
  * `Kin.stack_forward`, `Kin.stack_maps_back`, `Kin.stack_maps_back_conv`,
    `Kin.stack_maps_back_same`, `Kin.links_last`
  * `slot`, `J6.get_slot`, `J6.set_slot`, `paraUncouple_paraCouple`, `paraCouple_paraUncouple`
-/
import OpwVerif.Wrappers
import OpwVerif.Real
import OpwVerif.Lemmas.GeomReal
import OpwVerif.Lemmas.Chain
import OpwVerif.Lemmas.Sound
import Mathlib.Tactic.IntervalCases

namespace Opw

/-! ## Generic definitions -/

section Generic
variable {R : Type} [OpwNum R]

/-- the same rigid motion: equal translation, equal rotation matrix -/
def Iso.Same (a b : Iso R) : Prop := a.t = b.t ∧ a.q.toMat = b.q.toMat

theorem Iso.Same.refl (a : Iso R) : Iso.Same a a := ⟨rfl, rfl⟩
theorem Iso.Same.of_eq {a b : Iso R} (h : a = b) : Iso.Same a b := h ▸ Iso.Same.refl a
theorem Iso.Same.symm {a b : Iso R} (h : Iso.Same a b) : Iso.Same b a := ⟨h.1.symm, h.2.symm⟩
theorem Iso.Same.trans {a b c : Iso R} (h1 : Iso.Same a b) (h2 : Iso.Same b c) : Iso.Same a c :=
  ⟨h1.1.trans h2.1, h1.2.trans h2.2⟩

namespace Kin

/-- accumulated `Base` transforms, outermost first: `b_outer * … * b_inner` -/
def baseOf : Kin R → Iso R
  | opw _ => Iso.one
  | tool i _ => baseOf i
  | base i b => b.mul (baseOf i)
  | frame i _ => baseOf i
  | para i _ _ _ => baseOf i
  | shape i _ => baseOf i

/-- accumulated `Tool` and `Frame` transforms, innermost first: `t_inner * … * t_outer` -/
def toolOf : Kin R → Iso R
  | opw _ => Iso.one
  | tool i t => (toolOf i).mul t
  | base i _ => toolOf i
  | frame i f => (toolOf i).mul f
  | para i _ _ _ => toolOf i
  | shape i _ => toolOf i

/-- stacks built from `Base` and `Frame` around an `OPWKinematics` only -/
def baseFrameOnly : Kin R → Prop
  | opw _ => True
  | tool _ _ => False
  | base i _ => baseFrameOnly i
  | frame i _ => baseFrameOnly i
  | para _ _ _ _ => False
  | shape _ _ => False

omit [OpwNum R] in
theorem baseFrameOnly.plain : ∀ {k : Kin R}, k.baseFrameOnly → k.plain
  | opw _, _ => trivial
  | tool _ _, h => h.elim
  | base i _, h => baseFrameOnly.plain (k := i) h
  | frame i _, h => baseFrameOnly.plain (k := i) h
  | para _ _ _ _, h => h.elim
  | shape _ _, h => h.elim

end Kin

/-- the slot a joint index addresses: `J6.get`/`J6.set` treat every index `≥ 5` as joint 6 -/
def slot (n : Nat) : Nat := min n 5

theorem slot_lt (n : Nat) : slot n < 6 := by unfold slot; omega

omit [OpwNum R] in
theorem J6.get_slot (q : J6 R) : ∀ n, q.get (slot n) = q.get n
  | 0 => rfl | 1 => rfl | 2 => rfl | 3 => rfl | 4 => rfl
  | n + 5 => by
    have h : slot (n + 5) = 5 := by unfold slot; omega
    rw [h]; rfl

omit [OpwNum R] in
theorem J6.set_slot (q : J6 R) (v : R) : ∀ n, q.set (slot n) v = q.set n v
  | 0 => rfl | 1 => rfl | 2 => rfl | 3 => rfl | 4 => rfl
  | n + 5 => by
    have h : slot (n + 5) = 5 := by unfold slot; omega
    rw [h]; rfl

theorem paraCouple_slot (s : R) (d c : Nat) (x : J6 R) :
    paraCouple s (slot d) (slot c) x = paraCouple s d c x := by
  unfold paraCouple
  rw [J6.set_slot, J6.get_slot, J6.get_slot]

theorem paraUncouple_slot (s : R) (d c : Nat) (x : J6 R) :
    paraUncouple s (slot d) (slot c) x = paraUncouple s d c x := by
  unfold paraUncouple
  rw [J6.set_slot, J6.get_slot, J6.get_slot]

end Generic

/-! ## Real arithmetic: isometries -/

theorem J6.ext' {a b : J6 ℝ} (h1 : a.j1 = b.j1) (h2 : a.j2 = b.j2) (h3 : a.j3 = b.j3)
    (h4 : a.j4 = b.j4) (h5 : a.j5 = b.j5) (h6 : a.j6 = b.j6) : a = b := by
  cases a; cases b; simp_all

/-- negating the quaternion does not change the rigid motion -/
theorem Iso.same_neg (a : Iso ℝ) : Iso.Same a ⟨a.t, a.q.neg⟩ := ⟨rfl, (Quat.toMat_neg a.q).symm⟩

theorem Iso.Same.mul_left {a b : Iso ℝ} (c : Iso ℝ) (h : Iso.Same a b) :
    Iso.Same (c.mul a) (c.mul b) := by
  refine ⟨?_, ?_⟩
  · show c.t.add (c.q.rotate a.t) = c.t.add (c.q.rotate b.t)
    rw [h.1]
  · show (c.q.mul a.q).toMat = (c.q.mul b.q).toMat
    rw [Quat.toMat_mul, Quat.toMat_mul, h.2]

theorem Iso.Same.mul_right {a b : Iso ℝ} (c : Iso ℝ) (ha : a.q.normSq = 1) (hb : b.q.normSq = 1)
    (h : Iso.Same a b) : Iso.Same (a.mul c) (b.mul c) := by
  refine ⟨?_, ?_⟩
  · show a.t.add (a.q.rotate c.t) = b.t.add (b.q.rotate c.t)
    rw [Quat.rotate_eq_mulVec a.q ha, Quat.rotate_eq_mulVec b.q hb, h.1, h.2]
  · show (a.q.mul c.q).toMat = (b.q.mul c.q).toMat
    rw [Quat.toMat_mul, Quat.toMat_mul, h.2]

theorem Iso.Same.mul {a b c d : Iso ℝ} (ha : a.q.normSq = 1) (hb : b.q.normSq = 1)
    (h1 : Iso.Same a b) (h2 : Iso.Same c d) : Iso.Same (a.mul c) (b.mul d) :=
  (h1.mul_right c ha hb).trans (h2.mul_left b)

/-- two isometries that are the `Same` move every point to the same place -/
theorem Iso.Same.transformPoint {a b : Iso ℝ} (ha : a.q.normSq = 1) (hb : b.q.normSq = 1)
    (h : Iso.Same a b) (p : V3 ℝ) : a.transformPoint p = b.transformPoint p := by
  show (a.q.rotate p).add a.t = (b.q.rotate p).add b.t
  rw [Quat.rotate_eq_mulVec a.q ha, Quat.rotate_eq_mulVec b.q hb, h.1, h.2]

theorem pose_roundtrip_tool {t pose : Iso ℝ} (ht : t.q.normSq = 1) (hp : pose.q.normSq = 1) :
    (pose.mul t.inv).mul t = pose := by
  rw [Iso.mul_assoc pose t.inv t hp (Iso.inv_unit t ht), Iso.inv_mul_cancel t ht, Iso.mul_one]

/-- the base direction does not need the pose to be a unit quaternion -/
theorem pose_roundtrip_base' {b : Iso ℝ} (pose : Iso ℝ) (hb : b.q.normSq = 1) :
    b.mul (b.inv.mul pose) = pose := by
  rw [← Iso.mul_assoc b b.inv pose hb (Iso.inv_unit b hb), Iso.mul_inv_cancel b hb, Iso.one_mul]

theorem pose_roundtrip_base {b pose : Iso ℝ} (hb : b.q.normSq = 1) (_hp : pose.q.normSq = 1) :
    b.mul (b.inv.mul pose) = pose := pose_roundtrip_base' pose hb

/-- the quaternion `forward` returns is a unit quaternion (every parameter set, every joint vector) -/
theorem forward_unit (p : Params ℝ) (j : J6 ℝ) : (forward p j).q.normSq = 1 := by
  obtain ⟨_, _, _, _, hu, _⟩ := forwardTheta_last_link p (thetaOf p j)
  exact hu

/-- the six link poses, with `forward` the same rigid motion as the last one -/
theorem chain_last (p : Params ℝ) (j : J6 ℝ) :
    ∃ l1 l2 l3 l4 l5 l6, chain p j = [l1, l2, l3, l4, l5, l6] ∧
      Iso.Same (forward p j) l6 ∧ l6.q.normSq = 1 := by
  obtain ⟨l6, h5, ht, hr, _, hl⟩ := forwardTheta_last_link p (thetaOf p j)
  have hc := chainTheta_eq p (thetaOf p j)
  rw [hc] at h5
  have h6 : lnk6 p (thetaOf p j) = l6 := by simpa using h5
  subst h6
  exact ⟨_, _, _, _, _, _, hc, ⟨ht, hr⟩, hl⟩

/-! ## Real arithmetic: wrapper stacks -/

namespace Kin

/-- every wrapper isometry of the stack carries a unit quaternion -/
def WF : Kin ℝ → Prop
  | opw _ => True
  | tool i t => WF i ∧ t.q.normSq = 1
  | base i b => WF i ∧ b.q.normSq = 1
  | frame i f => WF i ∧ f.q.normSq = 1
  | para i _ _ _ => WF i
  | shape i _ => WF i

theorem baseOf_unit : ∀ (k : Kin ℝ), k.WF → k.baseOf.q.normSq = 1
  | opw _, _ => Iso.one_unit
  | tool i _, h => baseOf_unit i h.1
  | base i b, h => Iso.mul_unit b _ h.2 (baseOf_unit i h.1)
  | frame i _, h => baseOf_unit i h.1
  | para i _ _ _, h => baseOf_unit i h
  | shape i _, h => baseOf_unit i h

theorem toolOf_unit : ∀ (k : Kin ℝ), k.WF → k.toolOf.q.normSq = 1
  | opw _, _ => Iso.one_unit
  | tool i t, h => Iso.mul_unit _ t (toolOf_unit i h.1) h.2
  | base i _, h => toolOf_unit i h.1
  | frame i f, h => Iso.mul_unit _ f (toolOf_unit i h.1) h.2
  | para i _ _ _, h => toolOf_unit i h
  | shape i _, h => toolOf_unit i h

/-- the forward pose of a well-formed stack (any wrappers) is a unit quaternion -/
theorem forward_unit : ∀ (k : Kin ℝ), k.WF → ∀ q, (k.forward q).q.normSq = 1
  | opw k, _, q => Opw.forward_unit k.p q
  | tool i t, h, q => Iso.mul_unit _ t (forward_unit i h.1 q) h.2
  | base i b, h, q => Iso.mul_unit b _ h.2 (forward_unit i h.1 q)
  | frame i f, h, q => Iso.mul_unit _ f (forward_unit i h.1 q) h.2
  | para i s d c, h, q => forward_unit i h (paraUncouple s d c q)
  | shape i _, h, q => forward_unit i h q

/-- forward = base * robot * tool -/
theorem stack_forward : ∀ (k : Kin ℝ), k.plain → k.WF → ∀ q,
    k.forward q = k.baseOf.mul ((_root_.Opw.forward k.core.p q).mul k.toolOf)
  | opw k, _, _, q => by
    show _root_.Opw.forward k.p q = Iso.one.mul ((_root_.Opw.forward k.p q).mul Iso.one)
    rw [Iso.mul_one, Iso.one_mul]
  | tool i t, hp, hw, q => by
    have ih := stack_forward i hp hw.1 q
    have hF := Opw.forward_unit i.core.p q
    have hB := baseOf_unit i hw.1
    have hT := toolOf_unit i hw.1
    show (i.forward q).mul t = i.baseOf.mul ((_root_.Opw.forward i.core.p q).mul (i.toolOf.mul t))
    rw [ih, Iso.mul_assoc _ _ t hB (Iso.mul_unit _ _ hF hT), Iso.mul_assoc _ _ t hF hT]
  | base i b, hp, hw, q => by
    have ih := stack_forward i hp hw.1 q
    have hB := baseOf_unit i hw.1
    show b.mul (i.forward q) = (b.mul i.baseOf).mul ((_root_.Opw.forward i.core.p q).mul i.toolOf)
    rw [ih, Iso.mul_assoc b _ _ hw.2 hB]
  | frame i f, hp, hw, q => by
    have ih := stack_forward i hp hw.1 q
    have hF := Opw.forward_unit i.core.p q
    have hB := baseOf_unit i hw.1
    have hT := toolOf_unit i hw.1
    show (i.forward q).mul f = i.baseOf.mul ((_root_.Opw.forward i.core.p q).mul (i.toolOf.mul f))
    rw [ih, Iso.mul_assoc _ _ f hB (Iso.mul_unit _ _ hF hT), Iso.mul_assoc _ _ f hF hT]
  | para _ _ _ _, hp, _, _ => hp.elim
  | shape _ _, hp, _, _ => hp.elim

/-- if the core's forward at `s` is the local pose, the stack's forward at `s` is the pose -/
theorem stack_maps_back : ∀ (k : Kin ℝ), k.plain → k.WF → ∀ (pose : Iso ℝ), pose.q.normSq = 1 →
    ∀ s, _root_.Opw.forward k.core.p s = k.localPose pose → k.forward s = pose
  | opw _, _, _, _, _, _, h => h
  | tool i t, hp, hw, pose, hu, s, h => by
    have ih := stack_maps_back i hp hw.1 (pose.mul t.inv)
      (Iso.mul_unit _ _ hu (Iso.inv_unit t hw.2)) s h
    show (i.forward s).mul t = pose
    rw [ih]; exact pose_roundtrip_tool hw.2 hu
  | base i b, hp, hw, pose, hu, s, h => by
    have ih := stack_maps_back i hp hw.1 (b.inv.mul pose)
      (Iso.mul_unit _ _ (Iso.inv_unit b hw.2) hu) s h
    show b.mul (i.forward s) = pose
    rw [ih]; exact pose_roundtrip_base hw.2 hu
  | frame i f, hp, hw, pose, hu, s, h => by
    have ih := stack_maps_back i hp hw.1 (pose.mul f.inv)
      (Iso.mul_unit _ _ hu (Iso.inv_unit f hw.2)) s h
    show (i.forward s).mul f = pose
    rw [ih]; exact pose_roundtrip_tool hw.2 hu
  | para _ _ _ _, hp, _, _, _, _, _ => hp.elim
  | shape _ _, hp, _, _, _, _, _ => hp.elim

/-- converse of `stack_maps_back` (no hypothesis on `pose`): if the stack's forward at `s` is the
pose, the core's forward at `s` is the local pose -/
theorem stack_maps_back_conv : ∀ (k : Kin ℝ), k.plain → k.WF → ∀ (pose : Iso ℝ) s,
    k.forward s = pose → _root_.Opw.forward k.core.p s = k.localPose pose
  | opw _, _, _, _, _, h => h
  | tool i t, hp, hw, pose, s, h => by
    refine stack_maps_back_conv i hp hw.1 (pose.mul t.inv) s ?_
    rw [← h]
    show i.forward s = ((i.forward s).mul t).mul t.inv
    rw [Iso.mul_assoc _ t t.inv (forward_unit i hw.1 s) hw.2, Iso.mul_inv_cancel t hw.2, Iso.mul_one]
  | base i b, hp, hw, pose, s, h => by
    refine stack_maps_back_conv i hp hw.1 (b.inv.mul pose) s ?_
    rw [← h]
    show i.forward s = b.inv.mul (b.mul (i.forward s))
    rw [← Iso.mul_assoc b.inv b _ (Iso.inv_unit b hw.2) hw.2, Iso.inv_mul_cancel b hw.2, Iso.one_mul]
  | frame i f, hp, hw, pose, s, h => by
    refine stack_maps_back_conv i hp hw.1 (pose.mul f.inv) s ?_
    rw [← h]
    show i.forward s = ((i.forward s).mul f).mul f.inv
    rw [Iso.mul_assoc _ f f.inv (forward_unit i hw.1 s) hw.2, Iso.mul_inv_cancel f hw.2, Iso.mul_one]
  | para _ _ _ _, hp, _, _, _, _ => hp.elim
  | shape _ _, hp, _, _, _, _ => hp.elim

/-- the same with "same rigid motion" instead of equality -/
theorem stack_maps_back_same : ∀ (k : Kin ℝ), k.plain → k.WF → ∀ (pose : Iso ℝ),
    pose.q.normSq = 1 → ∀ s, Iso.Same (_root_.Opw.forward k.core.p s) (k.localPose pose) →
      Iso.Same (k.forward s) pose
  | opw _, _, _, _, _, _, h => h
  | tool i t, hp, hw, pose, hu, s, h => by
    have hu' := Iso.mul_unit _ _ hu (Iso.inv_unit t hw.2)
    have ih := stack_maps_back_same i hp hw.1 (pose.mul t.inv) hu' s h
    have := ih.mul_right t (forward_unit i hw.1 s) hu'
    rw [pose_roundtrip_tool hw.2 hu] at this
    exact this
  | base i b, hp, hw, pose, hu, s, h => by
    have hu' := Iso.mul_unit _ _ (Iso.inv_unit b hw.2) hu
    have ih := stack_maps_back_same i hp hw.1 (b.inv.mul pose) hu' s h
    have := ih.mul_left b
    rw [pose_roundtrip_base hw.2 hu] at this
    exact this
  | frame i f, hp, hw, pose, hu, s, h => by
    have hu' := Iso.mul_unit _ _ hu (Iso.inv_unit f hw.2)
    have ih := stack_maps_back_same i hp hw.1 (pose.mul f.inv) hu' s h
    have := ih.mul_right f (forward_unit i hw.1 s) hu'
    rw [pose_roundtrip_tool hw.2 hu] at this
    exact this
  | para _ _ _ _, hp, _, _, _, _, _ => hp.elim
  | shape _ _, hp, _, _, _, _, _ => hp.elim

/-- Base/Frame stacks: six links, the last one is the same rigid motion as `forward` -/
theorem links_last : ∀ (k : Kin ℝ), k.baseFrameOnly → k.WF → ∀ q,
    ∃ l1 l2 l3 l4 l5 l6, k.links q = [l1, l2, l3, l4, l5, l6] ∧
      Iso.Same (k.forward q) l6 ∧ l6.q.normSq = 1
  | opw k, _, _, q => chain_last k.p q
  | tool _ _, hp, _, _ => hp.elim
  | base i b, hp, hw, q => by
    obtain ⟨l1, l2, l3, l4, l5, l6, hl, hs, hu⟩ := links_last i hp hw.1 q
    refine ⟨b.mul l1, b.mul l2, b.mul l3, b.mul l4, b.mul l5, b.mul l6, ?_, hs.mul_left b,
      Iso.mul_unit b l6 hw.2 hu⟩
    show (i.links q).map (fun x => b.mul x) = _
    rw [hl]; rfl
  | frame i f, hp, hw, q => by
    obtain ⟨l1, l2, l3, l4, l5, l6, hl, hs, hu⟩ := links_last i hp hw.1 q
    refine ⟨l1, l2, l3, l4, l5, l6.mul f, ?_, hs.mul_right f (forward_unit i hw.1 q) hu,
      Iso.mul_unit l6 f hu hw.2⟩
    simp only [links, hl]
  | para _ _ _ _, hp, _, _ => hp.elim
  | shape _ _, hp, _, _ => hp.elim

end Kin

/-! ## Real arithmetic: parallelogram coupling -/

set_option linter.unnecessarySeqFocus false in
/-- on distinct slots below 6, uncoupling undoes coupling -/
theorem paraUncouple_paraCouple_lt (s : ℝ) (d c : Nat) (hd : d < 6) (hc : c < 6) (h : d ≠ c)
    (x : J6 ℝ) : paraUncouple s d c (paraCouple s d c x) = x := by
  interval_cases d <;> interval_cases c <;>
    first
    | exact absurd rfl h
    | (apply J6.ext' <;> simp only [paraUncouple, paraCouple, J6.get, J6.set] <;> ring)

set_option linter.unnecessarySeqFocus false in
theorem paraCouple_paraUncouple_lt (s : ℝ) (d c : Nat) (hd : d < 6) (hc : c < 6) (h : d ≠ c)
    (x : J6 ℝ) : paraCouple s d c (paraUncouple s d c x) = x := by
  interval_cases d <;> interval_cases c <;>
    first
    | exact absurd rfl h
    | (apply J6.ext' <;> simp only [paraUncouple, paraCouple, J6.get, J6.set] <;> ring)

theorem paraUncouple_paraCouple (s : ℝ) (d c : Nat) (h : slot d ≠ slot c) (x : J6 ℝ) :
    paraUncouple s d c (paraCouple s d c x) = x := by
  rw [← paraUncouple_slot, ← paraCouple_slot]
  exact paraUncouple_paraCouple_lt s _ _ (slot_lt d) (slot_lt c) h x

theorem paraCouple_paraUncouple (s : ℝ) (d c : Nat) (h : slot d ≠ slot c) (x : J6 ℝ) :
    paraCouple s d c (paraUncouple s d c x) = x := by
  rw [← paraCouple_slot, ← paraUncouple_slot]
  exact paraCouple_paraUncouple_lt s _ _ (slot_lt d) (slot_lt c) h x

end Opw
