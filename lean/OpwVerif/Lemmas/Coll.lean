/-
  Helper lemmas about the collision model (`Collisions.lean`): which pairs `tasks` enumerates,
  what `processTasks` does with them in each mode, and the effect of the `skip` list.
  Everything is list reasoning for an arbitrary scene (any environment length, any oracles), an
  arbitrary safety table and an arbitrary `choice` function.  Generic number type: the comparisons
  of `R` carry no assumed property.
-/
import OpwVerif.Collisions
import OpwVerif.Wrappers
import Mathlib.Data.List.Nodup

namespace Opw.Coll
open Opw

/-! ### The reporting indices -/

/-- the only facts about the three regenerated index constants that the proofs use -/
theorem consts : 6 ≤ jTool ∧ jTool < jBase ∧ jBase < envStart := by decide

theorem mem_envIds {n e : Nat} : e ∈ envIds n ↔ envStart ≤ e ∧ e < envStart + n := by
  simp only [envIds, List.mem_map, List.mem_range]
  constructor
  · rintro ⟨k, hk, rfl⟩; omega
  · rintro ⟨h1, h2⟩; exact ⟨e - envStart, by omega, by omega⟩

theorem nodup_envIds (n : Nat) : (envIds n).Nodup :=
  List.nodup_range.map (fun a b h => by simpa using h)

/-! ### The pairs of the property statement -/

section
variable {R : Type}

/-- membership in `relevantPairs`, written out -/
def Relevant (sc : Scene R) (p : Nat × Nat) : Prop :=
  (p.1 < 6 ∧ p.2 < 6 ∧ p.1 + 1 < p.2) ∨
  (p.1 < 6 ∧ p.2 ∈ envIds sc.envLen) ∨
  (sc.hasTool = true ∧ p.1 = jTool ∧ p.2 ∈ envIds sc.envLen) ∨
  (sc.hasTool = true ∧ p.1 < 4 ∧ p.2 = jTool) ∨
  (sc.hasBase = true ∧ 1 ≤ p.1 ∧ p.1 < 6 ∧ p.2 = jBase) ∨
  (sc.hasTool = true ∧ sc.hasBase = true ∧ p = (jTool, jBase))

theorem mem_relevantPairs (sc : Scene R) (p : Nat × Nat) : p ∈ relevantPairs sc ↔ Relevant sc p := by
  obtain ⟨i, j⟩ := p
  simp only [relevantPairs, Relevant, List.mem_append, List.mem_flatMap, List.mem_filterMap,
    List.mem_map, List.mem_range]
  cases sc.hasTool <;> cases sc.hasBase <;> simp <;> grind

/-- the first body of a relevant pair is a joint or the tool -/
theorem Relevant.fst {sc : Scene R} {p : Nat × Nat} (h : Relevant sc p) : p.1 < 6 ∨ p.1 = jTool := by
  rcases h with h | h | h | h | h | h
  · exact .inl h.1
  · exact .inl h.1
  · exact .inr h.2.1
  · exact .inl (by omega)
  · exact .inl h.2.2.1
  · exact .inr (by rw [h.2.2])

end

variable {R : Type} [OpwNum R]

/-! ### `unmoved`, `checkRequired` -/

theorem unmoved_mono {skip : List Nat} {k : Nat} (h : unmoved [] k = true) : unmoved skip k = true := by
  simp only [unmoved, List.contains_nil, Bool.false_or] at h
  simp only [unmoved, Bool.or_assoc, h, Bool.or_true]

/-- with an empty skip list a joint or the tool counts as moved -/
theorem unmoved_nil_false {k : Nat} (h : k < 6 ∨ k = jTool) : unmoved [] k = false := by
  have hc := consts
  simp only [unmoved, List.contains_nil, Bool.false_or, Bool.or_eq_false_iff, beq_eq_false_iff_ne,
    decide_eq_false_iff_not]
  omega

theorem checkRequired_iff {own : Safety R} {skip : List Nat} {i j : Nat} :
    checkRequired own skip i j = true ↔
      ¬ (unmoved skip i = true ∧ unmoved skip j = true) ∧ own.minDistance i j > neverCollides := by
  unfold checkRequired
  cases unmoved skip i <;> cases unmoved skip j <;> simp

theorem checkRequired_mono {own : Safety R} {skip : List Nat} {i j : Nat}
    (h : checkRequired own skip i j = true) : checkRequired own [] i j = true := by
  rw [checkRequired_iff] at h ⊢
  exact ⟨fun hh => h.1 ⟨unmoved_mono hh.1, unmoved_mono hh.2⟩, h.2⟩

theorem checkRequired_base {own : Safety R} {skip : List Nat} {i : Nat}
    (h : checkRequired own skip i jBase = true) : skip.contains i = false := by
  rw [checkRequired_iff] at h
  cases hs : skip.contains i
  · rfl
  · have hs' : i ∈ skip := by simpa using hs
    exact absurd ⟨by simp [unmoved, hs'], by simp [unmoved]⟩ h.1

theorem checkRequired_env {own : Safety R} {skip : List Nat} {i e : Nat} (he : envStart ≤ e)
    (h : checkRequired own skip i e = true) : skip.contains i = false := by
  rw [checkRequired_iff] at h
  cases hs : skip.contains i
  · rfl
  · have hs' : i ∈ skip := by simpa using hs
    exact absurd ⟨by simp [unmoved, hs'], by simp [unmoved, he]⟩ h.1

/-- for a relevant pair and the empty skip list the gate is just the distance comparison -/
theorem checkRequired_nil_relevant {sc : Scene R} {own : Safety R} {p : Nat × Nat} (hp : Relevant sc p) :
    checkRequired own [] p.1 p.2 = true ↔ own.minDistance p.1 p.2 > neverCollides := by
  rw [checkRequired_iff, unmoved_nil_false hp.fst]; simp

/-! ### The task list, part by part -/

def toolEnvL (sc : Scene R) (own : Safety R) (skip : List Nat) : List (Nat × Nat) :=
  if !(skip.contains jTool) && sc.hasTool then
    (envIds sc.envLen).filterMap (fun e => if checkRequired own skip jTool e then some (jTool, e) else none)
  else []
def jjL (own : Safety R) (skip : List Nat) (i : Nat) : List (Nat × Nat) :=
  ((List.range 6).reverse).filterMap (fun j =>
    if j > i && j - i > 1 && checkRequired own skip i j then some (i, j) else none)
def jeL (sc : Scene R) (own : Safety R) (skip : List Nat) (i : Nat) : List (Nat × Nat) :=
  (envIds sc.envLen).filterMap (fun e => if checkRequired own skip i e then some (i, e) else none)
def jtL (sc : Scene R) (own : Safety R) (skip : List Nat) (i : Nat) : List (Nat × Nat) :=
  if !(skip.contains jTool) && i != 5 && i != 4 && checkRequired own skip i jTool && sc.hasTool
  then [(i, jTool)] else []
def jbL (sc : Scene R) (own : Safety R) (skip : List Nat) (i : Nat) : List (Nat × Nat) :=
  if i != 0 && !(skip.contains i) && checkRequired own skip i jBase && sc.hasBase then [(i, jBase)] else []
def perJointL (sc : Scene R) (own : Safety R) (skip : List Nat) (i : Nat) : List (Nat × Nat) :=
  jjL own skip i ++ jeL sc own skip i ++ jtL sc own skip i ++ jbL sc own skip i
def toolBaseL (sc : Scene R) (own : Safety R) (skip : List Nat) : List (Nat × Nat) :=
  if (!(skip.contains jTool) || checkRequired own skip jTool jBase) && sc.hasTool && sc.hasBase
  then [(jTool, jBase)] else []

theorem tasks_eq (sc : Scene R) (own : Safety R) (skip : List Nat) :
    tasks sc own skip =
      toolEnvL sc own skip ++ (List.range 6).flatMap (perJointL sc own skip) ++ toolBaseL sc own skip := rfl

theorem mem_toolEnvL {sc : Scene R} {own : Safety R} {skip : List Nat} {p : Nat × Nat} :
    p ∈ toolEnvL sc own skip ↔ skip.contains jTool = false ∧ sc.hasTool = true ∧ p.1 = jTool ∧
      p.2 ∈ envIds sc.envLen ∧ checkRequired own skip jTool p.2 = true := by
  obtain ⟨i, j⟩ := p
  unfold toolEnvL
  split <;> rename_i h
  · simp only [Bool.and_eq_true, Bool.not_eq_true'] at h
    simp only [List.mem_filterMap, Option.ite_none_right_eq_some, Option.some.injEq, Prod.mk.injEq, h]
    constructor
    · rintro ⟨e, he, hc, rfl, rfl⟩; exact ⟨trivial, trivial, rfl, he, hc⟩
    · rintro ⟨-, -, rfl, he, hc⟩; exact ⟨j, he, hc, rfl, rfl⟩
  · simp only [Bool.and_eq_true, Bool.not_eq_true'] at h
    simp only [List.not_mem_nil, false_iff]
    rintro ⟨h1, h2, -⟩; exact h ⟨h1, h2⟩

theorem mem_jjL {own : Safety R} {skip : List Nat} {i : Nat} {p : Nat × Nat} :
    p ∈ jjL own skip i ↔ p.1 = i ∧ p.2 < 6 ∧ i + 1 < p.2 ∧ checkRequired own skip i p.2 = true := by
  obtain ⟨a, b⟩ := p
  simp only [jjL, List.mem_filterMap, List.mem_reverse, List.mem_range, Option.ite_none_right_eq_some,
    Option.some.injEq, Prod.mk.injEq, Bool.and_eq_true, decide_eq_true_eq]
  constructor
  · rintro ⟨j, hj, ⟨⟨h1, h2⟩, hc⟩, rfl, rfl⟩; exact ⟨rfl, hj, by omega, hc⟩
  · rintro ⟨rfl, hj, h, hc⟩; exact ⟨b, hj, ⟨⟨by omega, by omega⟩, hc⟩, rfl, rfl⟩

theorem mem_jeL {sc : Scene R} {own : Safety R} {skip : List Nat} {i : Nat} {p : Nat × Nat} :
    p ∈ jeL sc own skip i ↔ p.1 = i ∧ p.2 ∈ envIds sc.envLen ∧ checkRequired own skip i p.2 = true := by
  obtain ⟨a, b⟩ := p
  simp only [jeL, List.mem_filterMap, Option.ite_none_right_eq_some, Option.some.injEq, Prod.mk.injEq]
  constructor
  · rintro ⟨e, he, hc, rfl, rfl⟩; exact ⟨rfl, he, hc⟩
  · rintro ⟨rfl, he, hc⟩; exact ⟨b, he, hc, rfl, rfl⟩

theorem mem_jtL {sc : Scene R} {own : Safety R} {skip : List Nat} {i : Nat} {p : Nat × Nat} :
    p ∈ jtL sc own skip i ↔ p = (i, jTool) ∧ skip.contains jTool = false ∧ i ≠ 5 ∧ i ≠ 4 ∧
      checkRequired own skip i jTool = true ∧ sc.hasTool = true := by
  unfold jtL
  split <;> rename_i h
  · simp only [Bool.and_eq_true, Bool.not_eq_true', bne_iff_ne, ne_eq] at h
    simp only [List.mem_singleton, ne_eq]; tauto
  · simp only [Bool.and_eq_true, Bool.not_eq_true', bne_iff_ne, ne_eq] at h
    simp only [List.not_mem_nil, false_iff, ne_eq]; tauto

theorem mem_jbL {sc : Scene R} {own : Safety R} {skip : List Nat} {i : Nat} {p : Nat × Nat} :
    p ∈ jbL sc own skip i ↔ p = (i, jBase) ∧ i ≠ 0 ∧ skip.contains i = false ∧
      checkRequired own skip i jBase = true ∧ sc.hasBase = true := by
  unfold jbL
  split <;> rename_i h
  · simp only [Bool.and_eq_true, Bool.not_eq_true', bne_iff_ne, ne_eq] at h
    simp only [List.mem_singleton, ne_eq]; tauto
  · simp only [Bool.and_eq_true, Bool.not_eq_true', bne_iff_ne, ne_eq] at h
    simp only [List.not_mem_nil, false_iff, ne_eq]; tauto

theorem mem_toolBaseL {sc : Scene R} {own : Safety R} {skip : List Nat} {p : Nat × Nat} :
    p ∈ toolBaseL sc own skip ↔ p = (jTool, jBase) ∧
      (skip.contains jTool = false ∨ checkRequired own skip jTool jBase = true) ∧
      sc.hasTool = true ∧ sc.hasBase = true := by
  unfold toolBaseL
  split <;> rename_i h
  · simp only [Bool.and_eq_true, Bool.or_eq_true, Bool.not_eq_true'] at h
    simp only [List.mem_singleton]; tauto
  · simp only [Bool.and_eq_true, Bool.or_eq_true, Bool.not_eq_true'] at h
    simp only [List.not_mem_nil, false_iff]; tauto

/-- the gate the code applies to a relevant pair, for an arbitrary skip list: the tool–base pair is
pushed when the tool is not skipped (or `check_required` holds); every other pair needs
`check_required`, and a joint–tool pair additionally needs the tool not to be skipped -/
def TaskGate (own : Safety R) (skip : List Nat) (p : Nat × Nat) : Prop :=
  (p = (jTool, jBase) ∧ (skip.contains jTool = false ∨ checkRequired own skip jTool jBase = true)) ∨
  (p ≠ (jTool, jBase) ∧ checkRequired own skip p.1 p.2 = true ∧
    (p.2 = jTool → skip.contains jTool = false))

/-- `tasks` enumerates exactly the relevant pairs that pass the gate (any skip list) -/
theorem mem_tasks_raw (sc : Scene R) (own : Safety R) (skip : List Nat) (p : Nat × Nat) :
    p ∈ tasks sc own skip ↔ Relevant sc p ∧ TaskGate own skip p := by
  obtain ⟨i, j⟩ := p
  have hc := consts
  simp only [tasks_eq, perJointL, List.mem_append, List.mem_flatMap, List.mem_range, mem_toolEnvL, mem_jjL,
    mem_jeL, mem_jtL, mem_jbL, mem_toolBaseL, Relevant, TaskGate, mem_envIds, Prod.mk.injEq, ne_eq]
  constructor
  · rintro ((h | ⟨a, ha, ((h | h) | h) | h⟩) | h)
    · obtain ⟨h1, h2, rfl, h4, h5⟩ := h
      exact ⟨by tauto, .inr ⟨by omega, h5, by omega⟩⟩
    · obtain ⟨rfl, h2, h3, h4⟩ := h
      exact ⟨.inl ⟨ha, h2, h3⟩, .inr ⟨by omega, h4, by omega⟩⟩
    · obtain ⟨rfl, h2, h3⟩ := h
      exact ⟨.inr (.inl ⟨ha, h2⟩), .inr ⟨by omega, h3, by omega⟩⟩
    · obtain ⟨⟨rfl, rfl⟩, h2, h3, h4, h5, h6⟩ := h
      exact ⟨.inr (.inr (.inr (.inl ⟨h6, by omega, rfl⟩))), .inr ⟨by omega, h5, fun _ => h2⟩⟩
    · obtain ⟨⟨rfl, rfl⟩, h2, h3, h4, h5⟩ := h
      exact ⟨.inr (.inr (.inr (.inr (.inl ⟨h5, by omega, ha, rfl⟩)))), .inr ⟨by omega, h4, by omega⟩⟩
    · obtain ⟨⟨rfl, rfl⟩, h2, h3, h4⟩ := h
      exact ⟨.inr (.inr (.inr (.inr (.inr ⟨h3, h4, rfl, rfl⟩)))), .inl ⟨⟨rfl, rfl⟩, h2⟩⟩
  · rintro ⟨hr, hg⟩
    rcases hr with h | h | h | h | h | h
    · rcases hg with hg | hg
      · omega
      · exact .inl (.inr ⟨i, h.1, .inl (.inl (.inl ⟨rfl, h.2.1, h.2.2, hg.2.1⟩))⟩)
    · rcases hg with hg | hg
      · omega
      · exact .inl (.inr ⟨i, h.1, .inl (.inl (.inr ⟨rfl, h.2, hg.2.1⟩))⟩)
    · rcases hg with hg | hg
      · omega
      · obtain ⟨h1, rfl, h3⟩ := h
        exact .inl (.inl ⟨checkRequired_env h3.1 hg.2.1, h1, rfl, h3, hg.2.1⟩)
    · rcases hg with hg | hg
      · omega
      · obtain ⟨h1, h2, rfl⟩ := h
        exact .inl (.inr ⟨i, by omega, .inl (.inr
          ⟨⟨rfl, rfl⟩, hg.2.2 rfl, by omega, by omega, hg.2.1, h1⟩)⟩)
    · rcases hg with hg | hg
      · omega
      · obtain ⟨h1, h2, h3, rfl⟩ := h
        exact .inl (.inr ⟨i, h3, .inr
          ⟨⟨rfl, rfl⟩, by omega, checkRequired_base hg.2.1, hg.2.1, h1⟩⟩)
    · obtain ⟨h1, h2, rfl, rfl⟩ := h
      rcases hg with hg | hg
      · exact .inr ⟨⟨rfl, rfl⟩, hg.2, h1, h2⟩
      · exact absurd ⟨rfl, rfl⟩ hg.1

/-- when the tool is not in the skip list (in particular for `skip = []` and for the skip lists
`non_colliding_offsets` builds) the gate is: `check_required`, or the pair is tool–base -/
theorem mem_tasks_of_tool_moved (sc : Scene R) (own : Safety R) {skip : List Nat}
    (hT : skip.contains jTool = false) (p : Nat × Nat) :
    p ∈ tasks sc own skip ↔
      Relevant sc p ∧ (checkRequired own skip p.1 p.2 = true ∨ p = (jTool, jBase)) := by
  rw [mem_tasks_raw]
  refine and_congr_right fun _ => ?_
  unfold TaskGate
  have hT' : jTool ∉ skip := by simpa using hT
  by_cases hp : p = (jTool, jBase)
  · simp [hp, hT']
  · simp [hp, hT']

theorem tasks_subset (sc : Scene R) (own : Safety R) (skip : List Nat) {p : Nat × Nat}
    (h : p ∈ tasks sc own skip) : p ∈ tasks sc own [] := by
  rw [mem_tasks_raw] at h
  rw [mem_tasks_of_tool_moved sc own (by simp)]
  refine ⟨h.1, ?_⟩
  rcases h.2 with hg | hg
  · exact .inr hg.1
  · exact .inl (checkRequired_mono hg.2.1)

/-- a pair of the full task list that the skip-based list leaves out consists of two unmoved bodies -/
theorem missing_unmoved (sc : Scene R) (own : Safety R) {skip : List Nat}
    (hT : skip.contains jTool = false) {p : Nat × Nat}
    (h1 : p ∈ tasks sc own []) (h2 : p ∉ tasks sc own skip) :
    unmoved skip p.1 = true ∧ unmoved skip p.2 = true := by
  rw [mem_tasks_of_tool_moved sc own (by simp)] at h1
  rw [mem_tasks_of_tool_moved sc own hT] at h2
  obtain ⟨hr, hg⟩ := h1
  rcases hg with hg | hg
  · rw [checkRequired_iff] at hg
    by_contra hu
    exact h2 ⟨hr, .inl (checkRequired_iff.2 ⟨hu, hg.2⟩)⟩
  · exact absurd ⟨hr, .inr hg⟩ h2

/-! ### No pair is enumerated twice -/

theorem nodup_perJointL (sc : Scene R) (own : Safety R) (skip : List Nat) (i : Nat) :
    (perJointL sc own skip i).Nodup := by
  have hc := consts
  have hjj : (jjL own skip i).Nodup := by
    unfold jjL
    refine List.Nodup.filterMap ?_ (List.nodup_reverse.2 List.nodup_range)
    intro a a' b h1 h2
    simp only [Option.mem_def, Option.ite_none_right_eq_some, Option.some.injEq] at h1 h2
    have := h1.2.trans h2.2.symm
    simp only [Prod.mk.injEq, true_and] at this; exact this
  have hje : (jeL sc own skip i).Nodup := by
    unfold jeL
    refine List.Nodup.filterMap ?_ (nodup_envIds _)
    intro a a' b h1 h2
    simp only [Option.mem_def, Option.ite_none_right_eq_some, Option.some.injEq] at h1 h2
    have := h1.2.trans h2.2.symm
    simp only [Prod.mk.injEq, true_and] at this; exact this
  have hjt : (jtL sc own skip i).Nodup := by unfold jtL; split <;> simp
  have hjb : (jbL sc own skip i).Nodup := by unfold jbL; split <;> simp
  unfold perJointL
  refine List.nodup_append.2 ⟨List.nodup_append.2 ⟨List.nodup_append.2 ⟨hjj, hje, ?_⟩, hjt, ?_⟩, hjb, ?_⟩
  · intro a ha b hb hab
    rw [mem_jjL] at ha; rw [mem_jeL, mem_envIds] at hb; subst hab; omega
  · intro a ha b hb hab
    rw [List.mem_append, mem_jjL, mem_jeL, mem_envIds] at ha; rw [mem_jtL] at hb
    subst hab; obtain ⟨rfl, -⟩ := hb; simp only at ha; omega
  · intro a ha b hb hab
    rw [List.mem_append, List.mem_append, mem_jjL, mem_jeL, mem_envIds, mem_jtL] at ha; rw [mem_jbL] at hb
    subst hab; obtain ⟨rfl, -⟩ := hb; simp only [Prod.mk.injEq] at ha; omega

theorem fst_of_mem_perJointL {sc : Scene R} {own : Safety R} {skip : List Nat} {i : Nat} {p : Nat × Nat}
    (h : p ∈ perJointL sc own skip i) : p.1 = i := by
  simp only [perJointL, List.mem_append, mem_jjL, mem_jeL, mem_jtL, mem_jbL] at h
  rcases h with ((h | h) | h) | h
  · exact h.1
  · exact h.1
  · rw [h.1]
  · rw [h.1]

/-- the code never pushes the same pair twice (any skip list) -/
theorem tasks_nodup (sc : Scene R) (own : Safety R) (skip : List Nat) : (tasks sc own skip).Nodup := by
  have hc := consts
  rw [tasks_eq]
  have hte : (toolEnvL sc own skip).Nodup := by
    unfold toolEnvL
    split
    · refine List.Nodup.filterMap ?_ (nodup_envIds _)
      intro a a' b h1 h2
      simp only [Option.mem_def, Option.ite_none_right_eq_some, Option.some.injEq] at h1 h2
      have := h1.2.trans h2.2.symm
      simp only [Prod.mk.injEq, true_and] at this; exact this
    · exact List.nodup_nil
  have hpj : ((List.range 6).flatMap (perJointL sc own skip)).Nodup := by
    rw [List.nodup_flatMap]
    refine ⟨fun i _ => nodup_perJointL sc own skip i, ?_⟩
    refine List.nodup_range.imp ?_
    intro a b hab
    simp only [Function.onFun]
    rw [List.disjoint_left]
    intro p hp hq
    exact hab ((fst_of_mem_perJointL hp).symm.trans (fst_of_mem_perJointL hq))
  have htb : (toolBaseL sc own skip).Nodup := by unfold toolBaseL; split <;> simp
  refine List.nodup_append.2 ⟨List.nodup_append.2 ⟨hte, hpj, ?_⟩, htb, ?_⟩
  · intro a ha b hb hab
    rw [mem_toolEnvL] at ha
    rw [List.mem_flatMap] at hb
    obtain ⟨i, hi, hb⟩ := hb
    rw [List.mem_range] at hi
    have := fst_of_mem_perJointL hb
    subst hab; omega
  · intro a ha b hb hab
    rw [mem_toolBaseL] at hb
    subst hab
    obtain ⟨rfl, -⟩ := hb
    rw [List.mem_append, mem_toolEnvL, List.mem_flatMap] at ha
    rcases ha with ha | ⟨i, hi, ha⟩
    · have := ha.2.2.2.1; rw [mem_envIds] at this; simp only at this; omega
    · rw [List.mem_range] at hi
      have := fst_of_mem_perJointL ha; simp only at this; omega

/-! ### One pair: the pre-filter -/

/-- if the AABB pre-filter never discards a pair whose shapes are within the safety distance, the
verdict of a task is the brute-force verdict -/
theorem taskCollides_eq_pairVerdict {sc : Scene R} {safety : Safety R}
    (h : ∀ i j, sc.distance i j ≤ safety.minDistance i j →
      sc.aabbNear i j (safety.minDistance i j) = true)
    (i j : Nat) : taskCollides sc safety i j = pairVerdict sc safety i j := by
  unfold taskCollides pairVerdict
  simp only
  split
  · rfl
  · split
    · rfl
    · cases hn : sc.aabbNear i j (safety.minDistance i j)
      · have : ¬ sc.distance i j ≤ safety.minDistance i j := fun hd => by
          rw [h i j hd] at hn; exact Bool.noConfusion hn
        simp [this]
      · simp

theorem taskCollides_true_not_le {sc : Scene R} {safety : Safety R} {i j : Nat}
    (h : taskCollides sc safety i j = true) : ¬ safety.minDistance i j ≤ neverCollides := by
  intro hle
  simp [taskCollides, hle] at h

/-! ### `processTasks` in each mode -/

theorem beq_noCheck (m : CheckMode) : (m == CheckMode.noCheck) = decide (m = CheckMode.noCheck) := by
  cases m <;> rfl

/-- the list of colliding tasks, as reported (pairs normalised to smaller index first) -/
def hitsOf (sc : Scene R) (safety : Safety R) (ts : List (Nat × Nat)) : List (Nat × Nat) :=
  (ts.filter (fun p => taskCollides sc safety p.1 p.2)).map normPair

theorem processTasks_all (sc : Scene R) (safety : Safety R) (ts : List (Nat × Nat))
    (choice : List (Nat × Nat) → Option (Nat × Nat)) :
    processTasks sc safety .allCollisions ts choice = hitsOf sc safety ts := rfl

theorem processTasks_noCheck (sc : Scene R) (safety : Safety R) (ts : List (Nat × Nat))
    (choice : List (Nat × Nat) → Option (Nat × Nat)) :
    processTasks sc safety .noCheck ts choice = [] := rfl

/-- what first-collision mode reports, given the list of hits -/
def pickFirst (choice : List (Nat × Nat) → Option (Nat × Nat)) (hits : List (Nat × Nat)) : List (Nat × Nat) :=
  match hits with
  | [] => []
  | h :: _ => match choice hits with
    | some c => if hits.contains c then [c] else [h]
    | none => [h]

theorem processTasks_first_eq (sc : Scene R) (safety : Safety R) (ts : List (Nat × Nat))
    (choice : List (Nat × Nat) → Option (Nat × Nat)) :
    processTasks sc safety .firstCollisionOnly ts choice = pickFirst choice (hitsOf sc safety ts) := rfl

theorem pickFirst_spec (choice : List (Nat × Nat) → Option (Nat × Nat)) (hits : List (Nat × Nat)) :
    (hits = [] ∧ pickFirst choice hits = []) ∨ (∃ c ∈ hits, pickFirst choice hits = [c]) := by
  cases hits with
  | nil => exact .inl ⟨rfl, rfl⟩
  | cons h tl =>
    right
    unfold pickFirst
    simp only
    cases hc : choice (h :: tl) with
    | none => exact ⟨h, List.mem_cons_self, rfl⟩
    | some c =>
      simp only
      by_cases hm : (h :: tl).contains c = true
      · exact ⟨c, by simpa using hm, by rw [if_pos hm]⟩
      · exact ⟨h, List.mem_cons_self, by rw [if_neg hm]⟩

/-- first-collision mode: nothing if there is no hit, otherwise exactly one of the hits -/
theorem processTasks_first (sc : Scene R) (safety : Safety R) (ts : List (Nat × Nat))
    (choice : List (Nat × Nat) → Option (Nat × Nat)) :
    (hitsOf sc safety ts = [] ∧ processTasks sc safety .firstCollisionOnly ts choice = []) ∨
    (∃ c ∈ hitsOf sc safety ts, processTasks sc safety .firstCollisionOnly ts choice = [c]) := by
  rw [processTasks_first_eq]; exact pickFirst_spec choice _

theorem processTasks_first_isEmpty (sc : Scene R) (safety : Safety R) (ts : List (Nat × Nat))
    (choice : List (Nat × Nat) → Option (Nat × Nat)) :
    (processTasks sc safety .firstCollisionOnly ts choice).isEmpty = (hitsOf sc safety ts).isEmpty := by
  rcases processTasks_first sc safety ts choice with ⟨h1, h2⟩ | ⟨c, hc, h2⟩
  · rw [h1, h2]
  · rw [h2]
    cases hh : hitsOf sc safety ts with
    | nil => rw [hh] at hc; exact absurd hc List.not_mem_nil
    | cons => rfl

theorem hitsOf_isEmpty (sc : Scene R) (safety : Safety R) (ts : List (Nat × Nat)) :
    (hitsOf sc safety ts).isEmpty = true ↔ ∀ p ∈ ts, taskCollides sc safety p.1 p.2 = false := by
  simp [hitsOf, List.isEmpty_iff, List.filter_eq_nil_iff]

theorem mem_hitsOf {sc : Scene R} {safety : Safety R} {ts : List (Nat × Nat)} {q : Nat × Nat} :
    q ∈ hitsOf sc safety ts ↔ ∃ p ∈ ts, taskCollides sc safety p.1 p.2 = true ∧ q = normPair p := by
  simp only [hitsOf, List.mem_map, List.mem_filter]
  constructor
  · rintro ⟨p, ⟨h1, h2⟩, rfl⟩; exact ⟨p, h1, h2, rfl⟩
  · rintro ⟨p, h1, h2, rfl⟩; exact ⟨p, ⟨h1, h2⟩, rfl⟩

/-! ### The skip list of `non_colliding_offsets` -/

/-- if no pair of two unmoved bodies collides, the skip-based first-collision check is empty exactly
when the full one is -/
theorem detect_skip_isEmpty (sc : Scene R) (own : Safety R) {skip : List Nat}
    (choice : List (Nat × Nat) → Option (Nat × Nat))
    (hT : skip.contains jTool = false)
    (hU : ∀ p ∈ relevantPairs sc, unmoved skip p.1 = true → unmoved skip p.2 = true →
      taskCollides sc own p.1 p.2 = false) :
    (detect sc own own (some .firstCollisionOnly) skip choice).isEmpty =
      (detect sc own own (some .firstCollisionOnly) [] choice).isEmpty := by
  simp only [detect, Option.getD_some, processTasks_first_isEmpty]
  rw [Bool.eq_iff_iff, hitsOf_isEmpty, hitsOf_isEmpty]
  constructor
  · intro h p hp
    by_cases hps : p ∈ tasks sc own skip
    · exact h p hps
    · obtain ⟨u1, u2⟩ := missing_unmoved sc own hT hp hps
      have hr : p ∈ relevantPairs sc := by
        rw [mem_relevantPairs]; exact ((mem_tasks_raw sc own [] p).1 hp).1
      exact hU p hr u1 u2
  · intro h p hp
    exact h p (tasks_subset sc own skip hp)

theorem range_contains_jTool {k : Nat} (hk : k ≤ 6) : (List.range k).contains jTool = false := by
  have hc := consts
  rw [Bool.eq_false_iff]
  simp only [List.contains_iff_mem, List.mem_range, ne_eq]
  omega

/-- `filterMap` of an `if … then some … else none` is filter-then-map -/
theorem filterMap_ite {α β : Type} (l : List α) (p : α → Bool) (g : α → β) :
    l.filterMap (fun x => if p x then some (g x) else none) = (l.filter p).map g := by
  induction l with
  | nil => rfl
  | cons a tl ih =>
    by_cases h : p a = true
    · simp [h, ih]
    · simp [h, ih]

end Opw.Coll
