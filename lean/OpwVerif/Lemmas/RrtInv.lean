/-
  Helper lemmas for C13 (`dual_rrt_connect`, model in `Rrt.lean`).
  Part 1 is generic (any number type `R`, any collision predicate, any sample stream, any valid
  nearest-neighbour function, any cancellation history); Part 2 is the real-arithmetic reading
  (`R := ℝ`): Euclidean distance, edge bound, triangle inequality, box containment.
-/
import OpwVerif.Rrt
import OpwVerif.Real
import Mathlib.Data.List.Chain

namespace Opw.RrtInv
open Opw

attribute [-simp] Opw.ofNatLit_real
set_option linter.unusedSectionVars false

/-! ## Part 1: generic -/
section Generic
variable {R : Type} [OpwNum R]

/-- parent index stored in vertex `i` (the model reads `vertices[i].parent_index`) -/
def parentOf (t : RTree R) (i : Nat) : Option Nat := (t.vertices.getD i ⟨none, []⟩).parent

/-- the tree `t` with one more vertex `⟨some p, q⟩` (`Tree::add_vertex` + `add_edge`) -/
def push (t : RTree R) (p : Nat) (q : Cfg R) : RTree R :=
  { t with vertices := t.vertices ++ [⟨some p, q⟩] }

/-- the nearest-neighbour function returns an index of the tree -/
def ValidNearest (nearest : RTree R → Cfg R → Nat) : Prop :=
  ∀ t q, t.vertices ≠ [] → nearest t q < t.vertices.length

/-- the configuration `Tree::extend` tries to add -/
def extNew (nearest : RTree R → Cfg R → Nat) (t : RTree R) (target : Cfg R) (ext : R) : Cfg R :=
  if cfgDist target (t.get (nearest t target)) < ext then target
  else ((t.get (nearest t target)).zip target).map
    (fun (near, tg) => near + (tg - near) * ext / cfgDist target (t.get (nearest t target)))

/-- Tree invariant: vertex 0 is the root (no parent, data `root`); every other vertex has a parent
with a smaller index and data accepted by `isFree`. -/
structure TreeInv (isFree : Cfg R → Bool) (root : Cfg R) (t : RTree R) : Prop where
  nonempty : t.vertices ≠ []
  root_parent : parentOf t 0 = none
  root_data : t.get 0 = root
  parent_lt : ∀ i, 1 ≤ i → i < t.vertices.length → ∃ p, parentOf t i = some p ∧ p < i
  free : ∀ i, 1 ≤ i → i < t.vertices.length → isFree (t.get i) = true

/-! ### `push` -/

@[simp] theorem push_length (t : RTree R) (p : Nat) (q : Cfg R) :
    (push t p q).vertices.length = t.vertices.length + 1 := by
  simp [push]

@[simp] theorem push_isStart (t : RTree R) (p : Nat) (q : Cfg R) :
    (push t p q).isStart = t.isStart := rfl

theorem get_push_lt (t : RTree R) (p : Nat) (q : Cfg R) {i : Nat} (h : i < t.vertices.length) :
    (push t p q).get i = t.get i := by
  simp [push, RTree.get, List.getElem?_append_left h]

theorem get_push_last (t : RTree R) (p : Nat) (q : Cfg R) :
    (push t p q).get t.vertices.length = q := by
  simp [push, RTree.get]

theorem parentOf_push_lt (t : RTree R) (p : Nat) (q : Cfg R) {i : Nat} (h : i < t.vertices.length) :
    parentOf (push t p q) i = parentOf t i := by
  simp [push, parentOf, List.getElem?_append_left h]

theorem parentOf_push_last (t : RTree R) (p : Nat) (q : Cfg R) :
    parentOf (push t p q) t.vertices.length = some p := by
  simp [push, parentOf]

theorem TreeInv.length_pos {isFree : Cfg R → Bool} {root : Cfg R} {t : RTree R}
    (h : TreeInv isFree root t) : 0 < t.vertices.length :=
  List.length_pos_iff.mpr h.nonempty

theorem TreeInv.init (isFree : Cfg R → Bool) (root : Cfg R) (b : Bool) :
    TreeInv isFree root ⟨[⟨none, root⟩], b⟩ where
  nonempty := by simp
  root_parent := rfl
  root_data := rfl
  parent_lt := by intro i h1 h2; simp at h2; omega
  free := by intro i h1 h2; simp at h2; omega

theorem TreeInv.push {isFree : Cfg R → Bool} {root : Cfg R} {t : RTree R}
    (h : TreeInv isFree root t) {p : Nat} {q : Cfg R} (hp : p < t.vertices.length)
    (hq : isFree q = true) : TreeInv isFree root (push t p q) where
  nonempty := by simp [RrtInv.push]
  root_parent := by rw [parentOf_push_lt t p q h.length_pos]; exact h.root_parent
  root_data := by rw [get_push_lt t p q h.length_pos]; exact h.root_data
  parent_lt := by
    intro i h1 h2
    rw [push_length] at h2
    by_cases hi : i < t.vertices.length
    · rw [parentOf_push_lt t p q hi]; exact h.parent_lt i h1 hi
    · have : i = t.vertices.length := by omega
      subst this
      exact ⟨p, parentOf_push_last t p q, hp⟩
  free := by
    intro i h1 h2
    rw [push_length] at h2
    by_cases hi : i < t.vertices.length
    · rw [get_push_lt t p q hi]; exact h.free i h1 hi
    · have : i = t.vertices.length := by omega
      subst this
      rw [get_push_last]; exact hq

/-! ### `nearestIdx` returns an index of the tree -/

theorem nearestIdx_go_some (q : Cfg R) (v : RNode R) (vs : List (RNode R)) (i best : Nat) (b : R) :
    nearestIdx.go q (v :: vs) i best (some b) =
      if sqDist q v.data < b then nearestIdx.go q vs (i + 1) i (some (sqDist q v.data))
      else nearestIdx.go q vs (i + 1) best (some b) := rfl

theorem nearestIdx_go_none (q : Cfg R) (v : RNode R) (vs : List (RNode R)) (i best : Nat) :
    nearestIdx.go q (v :: vs) i best none = nearestIdx.go q vs (i + 1) i (some (sqDist q v.data)) :=
  rfl

theorem nearestIdx_go_bound (q : Cfg R) : ∀ (vs : List (RNode R)) (i best : Nat) (bd : Option R),
    nearestIdx.go q vs i best bd = best ∨
      (i ≤ nearestIdx.go q vs i best bd ∧ nearestIdx.go q vs i best bd < i + vs.length) := by
  intro vs
  induction vs with
  | nil => intro i best bd; left; rfl
  | cons v vs ih =>
    intro i best bd
    have key : ∀ bd', nearestIdx.go q vs (i + 1) i bd' = best ∨
        (i ≤ nearestIdx.go q vs (i + 1) i bd' ∧
          nearestIdx.go q vs (i + 1) i bd' < i + (v :: vs).length) := by
      intro bd'
      right
      rcases ih (i + 1) i bd' with h | h
      · rw [h]; simp
      · simp only [List.length_cons]; omega
    cases bd with
    | none => rw [nearestIdx_go_none]; exact key _
    | some b =>
      rw [nearestIdx_go_some]
      by_cases hlt : sqDist q v.data < b
      · simp only [if_pos hlt]; exact key _
      · simp only [if_neg hlt]
        rcases ih (i + 1) best (some b) with h | h
        · left; exact h
        · right; simp only [List.length_cons]; omega

theorem nearestIdx_valid : ValidNearest (nearestIdx (R := R)) := by
  intro t q hne
  have hpos : 0 < t.vertices.length := List.length_pos_iff.mpr hne
  rcases nearestIdx_go_bound q t.vertices 0 0 none with h | h
  · show nearestIdx.go q t.vertices 0 0 none < _
    rw [h]; exact hpos
  · show nearestIdx.go q t.vertices 0 0 none < _
    omega

/-! ### Unfolding `extendWith`, `connectWith`, `dualRrtWith` -/

theorem extendWith_eq (nearest : RTree R → Cfg R → Nat) (t : RTree R) (target : Cfg R) (ext : R)
    (isFree : Cfg R → Bool) :
    extendWith nearest t target ext isFree =
      if isFree (extNew nearest t target ext) = true then
        (push t (nearest t target) (extNew nearest t target ext),
          if cfgDist (extNew nearest t target ext) target < ext then .reached t.vertices.length
          else .advanced t.vertices.length)
      else (t, .trapped) := by
  unfold extendWith
  show (if isFree (extNew nearest t target ext) = true then
      if cfgDist (extNew nearest t target ext) target < ext then
        (push t (nearest t target) (extNew nearest t target ext), ExtendStatus.reached t.vertices.length)
      else (push t (nearest t target) (extNew nearest t target ext), .advanced t.vertices.length)
    else (t, .trapped)) = _
  by_cases h1 : isFree (extNew nearest t target ext) = true
  · by_cases h2 : cfgDist (extNew nearest t target ext) target < ext
    · simp only [if_pos h1, if_pos h2]
    · simp only [if_pos h1, if_neg h2]
  · simp only [if_neg h1]

theorem connectWith_succ (nearest : RTree R → Cfg R → Nat) (fuel : Nat) (t : RTree R)
    (target : Cfg R) (ext : R) (isFree : Cfg R → Bool) :
    connectWith nearest (fuel + 1) t target ext isFree =
      if isFree (extNew nearest t target ext) = true then
        if cfgDist (extNew nearest t target ext) target < ext then
          (push t (nearest t target) (extNew nearest t target ext), .reached t.vertices.length)
        else connectWith nearest fuel (push t (nearest t target) (extNew nearest t target ext))
          target ext isFree
      else (t, .trapped) := by
  rw [connectWith, extendWith_eq]
  by_cases h1 : isFree (extNew nearest t target ext) = true
  · by_cases h2 : cfgDist (extNew nearest t target ext) target < ext
    · simp only [if_pos h1, if_pos h2]
    · simp only [if_pos h1, if_neg h2]
  · simp only [if_neg h1]

/-- the list returned when the connect step reaches: ancestors of the new vertex of tree a
(reversed), then ancestors of the reaching vertex of tree b; reversed if tree b is the start tree -/
def joinPath (ta' tb' : RTree R) (ni ri : Nat) : List (Cfg R) :=
  if tb'.isStart = true then
    ((untilRoot ta' ta'.vertices.length ni).reverse ++ untilRoot tb' tb'.vertices.length ri).reverse
  else (untilRoot ta' ta'.vertices.length ni).reverse ++ untilRoot tb' tb'.vertices.length ri

section Unfold
variable (nearest : RTree R → Cfg R → Nat) (isFree : Cfg R → Bool) (ext : R) (stop : Nat → Bool)

theorem dualRrtWith_zero (i : Nat) (samples : List (Cfg R)) (ta tb : RTree R) :
    dualRrtWith nearest isFree ext stop 0 i samples ta tb = .failed := by
  unfold dualRrtWith; rfl

theorem dualRrtWith_stop (n i : Nat) (samples : List (Cfg R)) (ta tb : RTree R)
    (h : stop i = true) :
    dualRrtWith nearest isFree ext stop (n + 1) i samples ta tb = .cancelled := by
  cases samples <;> (rw [dualRrtWith]; simp only [h, if_true])

theorem dualRrtWith_nil (n i : Nat) (ta tb : RTree R) (h : stop i = false) :
    dualRrtWith nearest isFree ext stop (n + 1) i [] ta tb = .failed := by
  rw [dualRrtWith]; simp [h]

theorem dualRrtWith_trapped (n i : Nat) (q : Cfg R) (rest : List (Cfg R)) (ta tb : RTree R)
    (h : stop i = false) (hf : ¬ isFree (extNew nearest ta q ext) = true) :
    dualRrtWith nearest isFree ext stop (n + 1) i (q :: rest) ta tb =
      dualRrtWith nearest isFree ext stop n (i + 1) rest tb ta := by
  rw [dualRrtWith]; simp only [h, extendWith_eq, if_neg hf]; simp

theorem dualRrtWith_reached (n i : Nat) (q : Cfg R) (rest : List (Cfg R)) (ta tb tb' : RTree R)
    (ri : Nat) (h : stop i = false) (hf : isFree (extNew nearest ta q ext) = true)
    (hc : connectWith nearest connectFuel tb (extNew nearest ta q ext) ext isFree = (tb', .reached ri)) :
    dualRrtWith nearest isFree ext stop (n + 1) i (q :: rest) ta tb =
      .path (joinPath (push ta (nearest ta q) (extNew nearest ta q ext)) tb' ta.vertices.length ri) := by
  rw [dualRrtWith]
  simp only [h, extendWith_eq, if_pos hf]
  by_cases h2 : cfgDist (extNew nearest ta q ext) q < ext
  · simp only [if_pos h2, get_push_last, hc]; simp [joinPath]
  · simp only [if_neg h2, get_push_last, hc]; simp [joinPath]

theorem dualRrtWith_continue (n i : Nat) (q : Cfg R) (rest : List (Cfg R)) (ta tb tb' : RTree R)
    (s : ExtendStatus) (h : stop i = false) (hf : isFree (extNew nearest ta q ext) = true)
    (hc : connectWith nearest connectFuel tb (extNew nearest ta q ext) ext isFree = (tb', s))
    (hs : ∀ ri, s ≠ .reached ri) :
    dualRrtWith nearest isFree ext stop (n + 1) i (q :: rest) ta tb =
      dualRrtWith nearest isFree ext stop n (i + 1) rest tb'
        (push ta (nearest ta q) (extNew nearest ta q ext)) := by
  rw [dualRrtWith]
  simp only [h, extendWith_eq, if_pos hf]
  cases s with
  | reached ri => exact absurd rfl (hs ri)
  | advanced ri =>
    by_cases h2 : cfgDist (extNew nearest ta q ext) q < ext
    · simp only [if_pos h2, get_push_last, hc]; simp
    · simp only [if_neg h2, get_push_last, hc]; simp
  | trapped =>
    by_cases h2 : cfgDist (extNew nearest ta q ext) q < ext
    · simp only [if_pos h2, get_push_last, hc]; simp
    · simp only [if_neg h2, get_push_last, hc]; simp

end Unfold

/-! ### Abstract invariant principle

`Inv` is any predicate on trees that is kept by adding the vertex `extend` adds, `Good` any
predicate on targets that holds of the samples and of the vertices of an `Inv`-tree. -/

structure StepHyp (nearest : RTree R → Cfg R → Nat) (isFree : Cfg R → Bool) (ext : R)
    (Inv : RTree R → Prop) (Good : Cfg R → Prop) : Prop where
  ne : ∀ t, Inv t → t.vertices ≠ []
  step : ∀ t target, Inv t → Good target → isFree (extNew nearest t target ext) = true →
    Inv (push t (nearest t target) (extNew nearest t target ext))
  good : ∀ t i, Inv t → i < t.vertices.length → Good (t.get i)

section Abstract
variable {nearest : RTree R → Cfg R → Nat} {isFree : Cfg R → Bool} {ext : R} {stop : Nat → Bool}
  {Inv : RTree R → Prop} {Good : Cfg R → Prop}

theorem extendWith_inv (H : StepHyp nearest isFree ext Inv Good) {t : RTree R} {target : Cfg R}
    (ht : Inv t) (hg : Good target) : Inv (extendWith nearest t target ext isFree).1 := by
  rw [extendWith_eq]
  split
  · next h => exact H.step t target ht hg h
  · exact ht

theorem connectWith_spec (H : StepHyp nearest isFree ext Inv Good) {target : Cfg R}
    (hg : Good target) : ∀ (fuel : Nat) (t : RTree R), Inv t → ∀ (t' : RTree R) (s : ExtendStatus),
      connectWith nearest fuel t target ext isFree = (t', s) →
      Inv t' ∧ t'.isStart = t.isStart ∧ ∀ ri, s = .reached ri →
        1 ≤ ri ∧ ri + 1 = t'.vertices.length ∧ cfgDist (t'.get ri) target < ext := by
  intro fuel
  induction fuel with
  | zero =>
    intro t ht t' s h
    rw [connectWith] at h
    obtain ⟨rfl, rfl⟩ := Prod.mk.inj h
    exact ⟨ht, rfl, fun ri hri => by cases hri⟩
  | succ fuel ih =>
    intro t ht t' s h
    rw [connectWith_succ] at h
    by_cases h1 : isFree (extNew nearest t target ext) = true
    · by_cases h2 : cfgDist (extNew nearest t target ext) target < ext
      · simp only [if_pos h1, if_pos h2] at h
        obtain ⟨rfl, rfl⟩ := Prod.mk.inj h
        refine ⟨H.step t target ht hg h1, rfl, ?_⟩
        intro ri hri
        cases hri
        have hpos : 0 < t.vertices.length := List.length_pos_iff.mpr (H.ne t ht)
        refine ⟨hpos, by simp, ?_⟩
        rw [get_push_last]; exact h2
      · simp only [if_pos h1, if_neg h2] at h
        obtain ⟨hi, hs, hr⟩ := ih _ (H.step t target ht hg h1) t' s h
        exact ⟨hi, by rw [hs]; rfl, hr⟩
    · simp only [if_neg h1] at h
      obtain ⟨rfl, rfl⟩ := Prod.mk.inj h
      exact ⟨ht, rfl, fun ri hri => by cases hri⟩

/-- Shape of a successful run: the path is `joinPath ta' tb' ni ri` for two trees satisfying the
invariant, which carry the two `isStart` tags of the initial trees (in some order), `ni`/`ri` being
their last vertices (each ≥ 1) and the configurations of these two vertices less than `ext` apart
in the sense of the model's comparison. -/
theorem dualRrtWith_path (H : StepHyp nearest isFree ext Inv Good) :
    ∀ (n i : Nat) (samples : List (Cfg R)) (ta tb : RTree R) (p : List (Cfg R)),
      (∀ q ∈ samples, Good q) → Inv ta → Inv tb →
      dualRrtWith nearest isFree ext stop n i samples ta tb = .path p →
      ∃ ta' tb' ni ri, Inv ta' ∧ Inv tb' ∧
        ((ta'.isStart = ta.isStart ∧ tb'.isStart = tb.isStart) ∨
          (ta'.isStart = tb.isStart ∧ tb'.isStart = ta.isStart)) ∧
        1 ≤ ni ∧ ni + 1 = ta'.vertices.length ∧ 1 ≤ ri ∧ ri + 1 = tb'.vertices.length ∧
        cfgDist (tb'.get ri) (ta'.get ni) < ext ∧ p = joinPath ta' tb' ni ri := by
  intro n
  induction n with
  | zero =>
    intro i samples ta tb p _ _ _ h
    rw [dualRrtWith_zero] at h; cases h
  | succ n ih =>
    intro i samples ta tb p hs ha hb h
    by_cases hstop : stop i = true
    · rw [dualRrtWith_stop _ _ _ _ _ _ _ _ _ hstop] at h; cases h
    · have hstop' : stop i = false := by simpa using hstop
      cases samples with
      | nil => rw [dualRrtWith_nil _ _ _ _ _ _ _ _ hstop'] at h; cases h
      | cons q rest =>
        have hq : Good q := hs q (by simp)
        have hrest : ∀ q' ∈ rest, Good q' := fun q' hq' => hs q' (by simp [hq'])
        by_cases hf : isFree (extNew nearest ta q ext) = true
        · have ha' := H.step ta q ha hq hf
          have hapos : 0 < ta.vertices.length := List.length_pos_iff.mpr (H.ne ta ha)
          have hqn : Good (extNew nearest ta q ext) := by
            have := H.good _ ta.vertices.length ha' (by simp)
            rwa [get_push_last] at this
          rcases hc : connectWith nearest connectFuel tb (extNew nearest ta q ext) ext isFree
            with ⟨tb', s⟩
          obtain ⟨hb', hsb, hr⟩ := connectWith_spec H hqn connectFuel tb hb tb' s hc
          by_cases hsr : ∃ ri, s = .reached ri
          · obtain ⟨ri, rfl⟩ := hsr
            rw [dualRrtWith_reached _ _ _ _ _ _ _ _ _ _ _ _ hstop' hf hc] at h
            obtain ⟨h1, h2, h3⟩ := hr ri rfl
            refine ⟨_, tb', ta.vertices.length, ri, ha', hb', Or.inl ⟨rfl, hsb⟩, hapos, by simp,
              h1, h2, ?_, ?_⟩
            · rw [get_push_last]; exact h3
            · injection h with h; exact h.symm
          · have hsr' : ∀ ri, s ≠ .reached ri := fun ri hri => hsr ⟨ri, hri⟩
            rw [dualRrtWith_continue _ _ _ _ _ _ _ _ _ _ _ _ hstop' hf hc hsr'] at h
            obtain ⟨ta2, tb2, ni, ri, i1, i2, i3, rest'⟩ := ih _ rest _ _ p hrest hb' ha' h
            refine ⟨ta2, tb2, ni, ri, i1, i2, ?_, rest'⟩
            rcases i3 with ⟨e1, e2⟩ | ⟨e1, e2⟩
            · right; exact ⟨by rw [e1, hsb], by rw [e2]; rfl⟩
            · left; exact ⟨by rw [e1]; rfl, by rw [e2, hsb]⟩
        · rw [dualRrtWith_trapped _ _ _ _ _ _ _ _ _ _ hstop' hf] at h
          obtain ⟨ta2, tb2, ni, ri, i1, i2, i3, rest'⟩ := ih _ rest _ _ p hrest hb ha h
          refine ⟨ta2, tb2, ni, ri, i1, i2, ?_, rest'⟩
          rcases i3 with ⟨e1, e2⟩ | ⟨e1, e2⟩
          · right; exact ⟨e1, e2⟩
          · left; exact ⟨e1, e2⟩

end Abstract

/-! ### `untilRoot` -/

theorem untilRoot_of_some {t : RTree R} {i p : Nat} (fuel : Nat) (h : parentOf t i = some p) :
    untilRoot t (fuel + 1) i = t.get p :: untilRoot t fuel p := by
  rw [untilRoot]; unfold parentOf at h; rw [h]

theorem untilRoot_of_none {t : RTree R} {i : Nat} (fuel : Nat) (h : parentOf t i = none) :
    untilRoot t fuel i = [] := by
  cases fuel with
  | zero => rfl
  | succ f => rw [untilRoot]; unfold parentOf at h; rw [h]

/-- ancestors of a non-root vertex: some non-root vertices, then the root -/
theorem untilRoot_decomp {isFree : Cfg R → Bool} {root : Cfg R} {t : RTree R}
    (h : TreeInv isFree root t) : ∀ (fuel i : Nat), 1 ≤ i → i < t.vertices.length → i ≤ fuel →
      ∃ l, untilRoot t fuel i = l ++ [root] ∧
        ∀ q ∈ l, ∃ j, 1 ≤ j ∧ j < t.vertices.length ∧ q = t.get j := by
  intro fuel
  induction fuel with
  | zero => intro i h1 _ h3; omega
  | succ fuel ih =>
    intro i h1 h2 h3
    obtain ⟨p, hp, hlt⟩ := h.parent_lt i h1 h2
    rw [untilRoot_of_some fuel hp]
    by_cases hp0 : p = 0
    · subst hp0
      rw [untilRoot_of_none fuel h.root_parent, h.root_data]
      exact ⟨[], rfl, by simp⟩
    · obtain ⟨l, hl, hmem⟩ := ih p (by omega) (by omega) (by omega)
      refine ⟨t.get p :: l, by rw [hl]; rfl, ?_⟩
      intro q hq
      rcases List.mem_cons.mp hq with rfl | hq
      · exact ⟨p, by omega, by omega, rfl⟩
      · exact hmem q hq

/-- the un-reversed concatenation of the two ancestor lists -/
theorem join_decomp {isFree : Cfg R → Bool} {ra rb : Cfg R} {ta tb : RTree R}
    (ha : TreeInv isFree ra ta) (hb : TreeInv isFree rb tb) {ni ri : Nat}
    (hn1 : 1 ≤ ni) (hn2 : ni + 1 = ta.vertices.length) (hr1 : 1 ≤ ri)
    (hr2 : ri + 1 = tb.vertices.length) :
    ∃ mid, (untilRoot ta ta.vertices.length ni).reverse ++ untilRoot tb tb.vertices.length ri =
        ra :: mid ++ [rb] ∧
      ∀ q ∈ mid, (∃ j, 1 ≤ j ∧ j < ta.vertices.length ∧ q = ta.get j) ∨
        (∃ j, 1 ≤ j ∧ j < tb.vertices.length ∧ q = tb.get j) := by
  obtain ⟨la, hla, ma⟩ := untilRoot_decomp ha ta.vertices.length ni hn1 (by omega) (by omega)
  obtain ⟨lb, hlb, mb⟩ := untilRoot_decomp hb tb.vertices.length ri hr1 (by omega) (by omega)
  refine ⟨la.reverse ++ lb, by rw [hla, hlb]; simp, ?_⟩
  intro q hq
  rcases List.mem_append.mp hq with hq | hq
  · left; exact ma q (List.mem_reverse.mp hq)
  · right; exact mb q hq

/-- the returned list: root of the start-tagged tree … root of the other tree, all interior
elements being non-root vertices of one of the two trees -/
theorem joinPath_decomp {isFree : Cfg R → Bool} {ra rb : Cfg R} {ta tb : RTree R}
    (ha : TreeInv isFree ra ta) (hb : TreeInv isFree rb tb) {ni ri : Nat}
    (hn1 : 1 ≤ ni) (hn2 : ni + 1 = ta.vertices.length) (hr1 : 1 ≤ ri)
    (hr2 : ri + 1 = tb.vertices.length) :
    ∃ mid, joinPath ta tb ni ri =
        (if tb.isStart = true then rb :: mid ++ [ra] else ra :: mid ++ [rb]) ∧
      ∀ q ∈ mid, (∃ j, 1 ≤ j ∧ j < ta.vertices.length ∧ q = ta.get j) ∨
        (∃ j, 1 ≤ j ∧ j < tb.vertices.length ∧ q = tb.get j) := by
  obtain ⟨mid, hmid, hmem⟩ := join_decomp ha hb hn1 hn2 hr1 hr2
  unfold joinPath
  by_cases hs : tb.isStart = true
  · refine ⟨mid.reverse, ?_, fun q hq => hmem q (List.mem_reverse.mp hq)⟩
    simp only [if_pos hs]
    rw [hmid]; simp
  · refine ⟨mid, ?_, hmem⟩
    simp only [if_neg hs]
    exact hmid

/-! ### Cancellation -/

section Cancel
variable (nearest : RTree R → Cfg R → Nat) (isFree : Cfg R → Bool) (ext : R) (stop : Nat → Bool)

/-- If the flag is up at iteration `j` and a path is returned nevertheless, it was found in one of
the iterations before `j` (the run limited to `j - i` tries returns the same path). -/
theorem dualRrtWith_path_before_stop : ∀ (n i : Nat) (samples : List (Cfg R)) (ta tb : RTree R)
    (p : List (Cfg R)) (j : Nat), i ≤ j → stop j = true →
    dualRrtWith nearest isFree ext stop n i samples ta tb = .path p →
    dualRrtWith nearest isFree ext stop (j - i) i samples ta tb = .path p := by
  intro n
  induction n with
  | zero =>
    intro i samples ta tb p j _ _ h
    rw [dualRrtWith_zero] at h; cases h
  | succ n ih =>
    intro i samples ta tb p j hij hj h
    by_cases hstop : stop i = true
    · rw [dualRrtWith_stop _ _ _ _ _ _ _ _ _ hstop] at h; cases h
    · have hstop' : stop i = false := by simpa using hstop
      have hne : i ≠ j := by rintro rfl; exact hstop hj
      obtain ⟨m, hm⟩ : ∃ m, j - i = m + 1 := ⟨j - i - 1, by omega⟩
      have hm' : j - (i + 1) = m := by omega
      rw [hm]
      cases samples with
      | nil => rw [dualRrtWith_nil _ _ _ _ _ _ _ _ hstop'] at h; cases h
      | cons q rest =>
        by_cases hf : isFree (extNew nearest ta q ext) = true
        · rcases hc : connectWith nearest connectFuel tb (extNew nearest ta q ext) ext isFree
            with ⟨tb', s⟩
          by_cases hsr : ∃ ri, s = .reached ri
          · obtain ⟨ri, rfl⟩ := hsr
            rw [dualRrtWith_reached _ _ _ _ _ _ _ _ _ _ _ _ hstop' hf hc] at h
            rw [dualRrtWith_reached _ _ _ _ _ _ _ _ _ _ _ _ hstop' hf hc]
            exact h
          · have hsr' : ∀ ri, s ≠ .reached ri := fun ri hri => hsr ⟨ri, hri⟩
            rw [dualRrtWith_continue _ _ _ _ _ _ _ _ _ _ _ _ hstop' hf hc hsr'] at h
            rw [dualRrtWith_continue _ _ _ _ _ _ _ _ _ _ _ _ hstop' hf hc hsr', ← hm']
            exact ih _ _ _ _ p j (by omega) hj h
        · rw [dualRrtWith_trapped _ _ _ _ _ _ _ _ _ _ hstop' hf] at h
          rw [dualRrtWith_trapped _ _ _ _ _ _ _ _ _ _ hstop' hf, ← hm']
          exact ih _ _ _ _ p j (by omega) hj h

end Cancel

/-! ### Predicates on all vertices -/

/-- every vertex configuration of `t` satisfies `P` -/
def AllV (P : Cfg R → Prop) (t : RTree R) : Prop := ∀ i, i < t.vertices.length → P (t.get i)

theorem AllV.push {P : Cfg R → Prop} {t : RTree R} (h : AllV P t) (p : Nat) {q : Cfg R} (hq : P q) :
    AllV P (push t p q) := by
  intro i hi
  rw [push_length] at hi
  by_cases hlt : i < t.vertices.length
  · rw [get_push_lt t p q hlt]; exact h i hlt
  · have : i = t.vertices.length := by omega
    subst this
    rw [get_push_last]; exact hq

theorem AllV.init (P : Cfg R → Prop) (root : Cfg R) (b : Bool) (h : P root) :
    AllV P ⟨[⟨none, root⟩], b⟩ := by
  intro i hi
  have : i = 0 := by simp at hi; omega
  subst this; exact h

/-- all vertex configurations have `n` components -/
def DimInv (n : Nat) (t : RTree R) : Prop := AllV (fun q => q.length = n) t

theorem extNew_length (nearest : RTree R → Cfg R → Nat) (t : RTree R) (target : Cfg R) (ext : R)
    {n : Nat} (h1 : (t.get (nearest t target)).length = n) (h2 : target.length = n) :
    (extNew nearest t target ext).length = n := by
  unfold extNew
  split
  · exact h2
  · simp [h1, h2]

/-! ### The tree invariant as an instance of the abstract principle -/

/-- the root a tree must have according to its tag -/
def rootOf (start goal : Cfg R) (t : RTree R) : Cfg R := if t.isStart = true then start else goal

theorem stepHyp_tree {nearest : RTree R → Cfg R → Nat} (hn : ValidNearest nearest)
    (isFree : Cfg R → Bool) (ext : R) (rt : RTree R → Cfg R)
    (hrt : ∀ t p q, rt (push t p q) = rt t) :
    StepHyp nearest isFree ext (fun t => TreeInv isFree (rt t) t) (fun _ => True) where
  ne := fun _ h => h.nonempty
  step := fun t target h _ hf => by
    rw [hrt]; exact h.push (hn t target h.nonempty) hf
  good := fun _ _ _ _ => trivial

end Generic

/-! ## Part 2: real arithmetic -/
section RealPart

/-- sum of squared differences over the common prefix of two lists -/
def sumSq : List ℝ → List ℝ → ℝ
  | x :: a, y :: b => (x - y) ^ 2 + sumSq a b
  | [], _ => 0
  | _ :: _, [] => 0

theorem sqDist_foldl (a b : List ℝ) (acc : ℝ) :
    (a.zip b).foldl (fun acc (p : ℝ × ℝ) => acc + (p.1 - p.2) * (p.1 - p.2)) acc = acc + sumSq a b := by
  induction a generalizing b acc with
  | nil => simp [sumSq]
  | cons x a ih =>
    cases b with
    | nil => simp [sumSq]
    | cons y b =>
      simp only [List.zip_cons_cons, List.foldl_cons, sumSq]
      rw [ih]; ring

theorem sqDist_eq (a b : List ℝ) : sqDist a b = sumSq a b := by
  have := sqDist_foldl a b 0
  rw [zero_add] at this
  rw [← this]
  show (a.zip b).foldl _ (@OfNat.ofNat ℝ 0 instOfNatOpw) = _
  rw [show (@OfNat.ofNat ℝ 0 instOfNatOpw) = (0 : ℝ) from by
    show ((0 : ℕ) : ℝ) = 0; exact Nat.cast_zero]

theorem cfgDist_eq (a b : List ℝ) : cfgDist a b = Real.sqrt (sumSq a b) := by
  show Real.sqrt (sqDist a b) = _
  rw [sqDist_eq]

theorem sumSq_nonneg (a b : List ℝ) : 0 ≤ sumSq a b := by
  induction a generalizing b with
  | nil => simp [sumSq]
  | cons x a ih =>
    cases b with
    | nil => simp [sumSq]
    | cons y b => simp only [sumSq]; have := ih b; positivity

theorem sumSq_comm (a b : List ℝ) : sumSq a b = sumSq b a := by
  induction a generalizing b with
  | nil => cases b <;> simp [sumSq]
  | cons x a ih =>
    cases b with
    | nil => simp [sumSq]
    | cons y b => simp only [sumSq]; rw [ih b]; ring

theorem sumSq_self (a : List ℝ) : sumSq a a = 0 := by
  induction a with
  | nil => simp [sumSq]
  | cons x a ih => simp only [sumSq]; rw [ih]; ring

theorem cfgDist_nonneg (a b : List ℝ) : 0 ≤ cfgDist a b := by
  rw [cfgDist_eq]; exact Real.sqrt_nonneg _

theorem cfgDist_comm (a b : List ℝ) : cfgDist a b = cfgDist b a := by
  rw [cfgDist_eq, cfgDist_eq, sumSq_comm]

theorem cfgDist_self (a : List ℝ) : cfgDist a a = 0 := by
  rw [cfgDist_eq, sumSq_self, Real.sqrt_zero]

/-- two-dimensional Minkowski inequality -/
theorem mink2 (u v P Q : ℝ) :
    Real.sqrt ((u + v) ^ 2 + (P + Q) ^ 2) ≤ Real.sqrt (u ^ 2 + P ^ 2) + Real.sqrt (v ^ 2 + Q ^ 2) := by
  have hA : 0 ≤ u ^ 2 + P ^ 2 := by positivity
  have hB : 0 ≤ v ^ 2 + Q ^ 2 := by positivity
  rw [Real.sqrt_le_left (by positivity)]
  have h1 : (Real.sqrt (u ^ 2 + P ^ 2) + Real.sqrt (v ^ 2 + Q ^ 2)) ^ 2 =
      (u ^ 2 + P ^ 2) + (v ^ 2 + Q ^ 2) +
        2 * (Real.sqrt (u ^ 2 + P ^ 2) * Real.sqrt (v ^ 2 + Q ^ 2)) := by
    have e1 := Real.sq_sqrt hA
    have e2 := Real.sq_sqrt hB
    linear_combination e1 + e2
  have h2 : u * v + P * Q ≤ Real.sqrt (u ^ 2 + P ^ 2) * Real.sqrt (v ^ 2 + Q ^ 2) := by
    rw [← Real.sqrt_mul hA]
    refine le_trans (le_abs_self _) (Real.abs_le_sqrt ?_)
    nlinarith [sq_nonneg (u * Q - v * P)]
  rw [h1]; nlinarith [h2]

/-- triangle inequality for `cfgDist` on configurations of equal length -/
theorem cfgDist_triangle : ∀ (a b c : List ℝ), a.length = b.length → b.length = c.length →
    cfgDist a c ≤ cfgDist a b + cfgDist b c := by
  intro a
  induction a with
  | nil =>
    intro b c _ _
    rw [cfgDist_eq [] c]
    simp only [sumSq, Real.sqrt_zero]
    exact add_nonneg (cfgDist_nonneg _ _) (cfgDist_nonneg _ _)
  | cons x a ih =>
    intro b c hab hbc
    cases b with
    | nil => simp at hab
    | cons y b =>
      cases c with
      | nil => simp at hbc
      | cons z c =>
        have hab' : a.length = b.length := by simpa using hab
        have hbc' : b.length = c.length := by simpa using hbc
        have IH := ih b c hab' hbc'
        rw [cfgDist_eq, cfgDist_eq, cfgDist_eq] at IH ⊢
        simp only [sumSq]
        have hP := Real.sq_sqrt (sumSq_nonneg a b)
        have hQ := Real.sq_sqrt (sumSq_nonneg b c)
        have hS : sumSq a c ≤ (Real.sqrt (sumSq a b) + Real.sqrt (sumSq b c)) ^ 2 := by
          have := (Real.sqrt_le_left (add_nonneg (Real.sqrt_nonneg _) (Real.sqrt_nonneg _))).mp IH
          exact this
        calc Real.sqrt ((x - z) ^ 2 + sumSq a c)
            ≤ Real.sqrt (((x - y) + (y - z)) ^ 2 +
                (Real.sqrt (sumSq a b) + Real.sqrt (sumSq b c)) ^ 2) := by
              apply Real.sqrt_le_sqrt
              have : (x - y) + (y - z) = x - z := by ring
              rw [this]; linarith
          _ ≤ Real.sqrt ((x - y) ^ 2 + Real.sqrt (sumSq a b) ^ 2) +
                Real.sqrt ((y - z) ^ 2 + Real.sqrt (sumSq b c) ^ 2) := mink2 _ _ _ _
          _ = _ := by rw [hP, hQ]

/-- moving from `nq` towards `tg` by the fraction `e / d` scales the squared distance -/
theorem sumSq_scale (e d : ℝ) : ∀ (nq tg : List ℝ),
    sumSq nq ((nq.zip tg).map (fun (p : ℝ × ℝ) => p.1 + (p.2 - p.1) * e / d)) =
      (e / d) ^ 2 * sumSq tg nq := by
  intro nq
  induction nq with
  | nil => intro tg; cases tg <;> simp [sumSq]
  | cons x nq ih =>
    intro tg
    cases tg with
    | nil => simp [sumSq]
    | cons y tg =>
      simp only [List.zip_cons_cons, List.map_cons, sumSq]
      rw [ih tg]; ring

section Ext
variable (nearest : RTree ℝ → Cfg ℝ → Nat) (t : RTree ℝ) (target : Cfg ℝ) (ext : ℝ)

theorem extNew_real :
    extNew nearest t target ext =
      if cfgDist target (t.get (nearest t target)) < ext then target
      else ((t.get (nearest t target)).zip target).map
        (fun (p : ℝ × ℝ) => p.1 + (p.2 - p.1) * ext / cfgDist target (t.get (nearest t target))) :=
  rfl

/-- the vertex `extend` adds is at most `ext` away from the vertex it is attached to -/
theorem extNew_edge (hext : 0 < ext) :
    cfgDist (t.get (nearest t target)) (extNew nearest t target ext) ≤ ext := by
  rw [extNew_real]
  split
  · next h => rw [cfgDist_comm]; exact le_of_lt h
  · next h =>
    have hd : ext ≤ cfgDist target (t.get (nearest t target)) := not_lt.mp h
    have hdpos : 0 < cfgDist target (t.get (nearest t target)) := lt_of_lt_of_le hext hd
    rw [cfgDist_eq _ (List.map _ _), sumSq_scale]
    have hsq : sumSq target (t.get (nearest t target)) =
        cfgDist target (t.get (nearest t target)) ^ 2 := by
      rw [cfgDist_eq, Real.sq_sqrt (sumSq_nonneg _ _)]
    rw [hsq, ← mul_pow, div_mul_cancel₀ _ (ne_of_gt hdpos), Real.sqrt_sq (le_of_lt hext)]

end Ext

/-! ### Edge-length invariant -/

/-- every parent→child edge of `t` has length at most `ext` -/
def EdgeInv (ext : ℝ) (t : RTree ℝ) : Prop :=
  ∀ i p, i < t.vertices.length → parentOf t i = some p → cfgDist (t.get p) (t.get i) ≤ ext

theorem EdgeInv.init (ext : ℝ) (root : Cfg ℝ) (b : Bool) : EdgeInv ext ⟨[⟨none, root⟩], b⟩ := by
  intro i p hi hp
  have : i = 0 := by simp at hi; omega
  subst this
  cases hp

theorem EdgeInv.push {isFree : Cfg ℝ → Bool} {root : Cfg ℝ} {ext : ℝ} {t : RTree ℝ}
    (ht : TreeInv isFree root t) (h : EdgeInv ext t) {p : Nat} {q : Cfg ℝ}
    (hp : p < t.vertices.length) (hq : cfgDist (t.get p) q ≤ ext) : EdgeInv ext (push t p q) := by
  intro i p' hi hp'
  rw [push_length] at hi
  by_cases hlt : i < t.vertices.length
  · rw [parentOf_push_lt t p q hlt] at hp'
    have hp'lt : p' < t.vertices.length := by
      by_cases hi0 : i = 0
      · subst hi0; rw [ht.root_parent] at hp'; cases hp'
      · obtain ⟨p2, e, hlt2⟩ := ht.parent_lt i (by omega) hlt
        rw [e] at hp'; cases hp'; omega
    rw [get_push_lt t p q hlt, get_push_lt t p q hp'lt]
    exact h i p' hlt hp'
  · have : i = t.vertices.length := by omega
    subst this
    rw [parentOf_push_last] at hp'
    cases hp'
    rw [get_push_last, get_push_lt t p q hp]
    exact hq

/-- a vertex followed by its ancestors is a chain of steps of length at most `ext` -/
theorem untilRoot_chain {isFree : Cfg ℝ → Bool} {root : Cfg ℝ} {ext : ℝ} {t : RTree ℝ}
    (ht : TreeInv isFree root t) (h : EdgeInv ext t) : ∀ (fuel i : Nat), i < t.vertices.length →
      List.IsChain (fun a b => cfgDist a b ≤ ext) (t.get i :: untilRoot t fuel i) := by
  intro fuel
  induction fuel with
  | zero => intro i _; exact List.isChain_singleton _
  | succ fuel ih =>
    intro i hi
    cases hpar : parentOf t i with
    | none => rw [untilRoot_of_none _ hpar]; exact List.isChain_singleton _
    | some p =>
      rw [untilRoot_of_some _ hpar]
      have hplt : p < t.vertices.length := by
        by_cases hi0 : i = 0
        · subst hi0; rw [ht.root_parent] at hpar; cases hpar
        · obtain ⟨p2, e, hlt2⟩ := ht.parent_lt i (by omega) hi
          rw [e] at hpar; cases hpar; omega
      refine List.isChain_cons_cons.mpr ⟨?_, ih p hplt⟩
      rw [cfgDist_comm]; exact h i p hi hpar

theorem isChain_symm_reverse {r : Cfg ℝ → Cfg ℝ → Prop} (hr : ∀ a b, r a b → r b a)
    {l : List (Cfg ℝ)} (h : List.IsChain r l) : List.IsChain r l.reverse :=
  List.isChain_reverse.mpr (h.imp fun a b hab => hr a b hab)

/-- consecutive elements of the joined path are at most `3 * ext` apart -/
theorem join_chain {isFree : Cfg ℝ → Bool} {ra rb : Cfg ℝ} {ext : ℝ} {n : Nat} {ta tb : RTree ℝ}
    (hext : 0 < ext)
    (ha : TreeInv isFree ra ta) (hb : TreeInv isFree rb tb)
    (ea : EdgeInv ext ta) (eb : EdgeInv ext tb) (da : DimInv n ta) (db : DimInv n tb)
    {ni ri : Nat} (hn : ni < ta.vertices.length) (hr : ri < tb.vertices.length)
    (hjoin : cfgDist (tb.get ri) (ta.get ni) < ext) :
    List.IsChain (fun a b => cfgDist a b ≤ 3 * ext) (joinPath ta tb ni ri) := by
  have hsymm : ∀ a b : Cfg ℝ, cfgDist a b ≤ 3 * ext → cfgDist b a ≤ 3 * ext :=
    fun a b h => by rw [cfgDist_comm]; exact h
  have hweak : ∀ ⦃a b : Cfg ℝ⦄, cfgDist a b ≤ ext → cfgDist a b ≤ 3 * ext :=
    fun a b h => by linarith
  have ca := untilRoot_chain ha ea ta.vertices.length ni hn
  have cb := untilRoot_chain hb eb tb.vertices.length ri hr
  -- every ancestor is a vertex, hence has `n` components
  have key : List.IsChain (fun a b => cfgDist a b ≤ 3 * ext)
      ((untilRoot ta ta.vertices.length ni).reverse ++ untilRoot tb tb.vertices.length ri) := by
    rw [List.isChain_append]
    refine ⟨isChain_symm_reverse hsymm ((List.IsChain.tail ca).imp hweak),
      (List.IsChain.tail cb).imp hweak, ?_⟩
    intro x hx y hy
    rw [List.getLast?_reverse] at hx
    -- `x` is the parent of the new vertex, `y` the parent of the reaching vertex
    cases hua : untilRoot ta ta.vertices.length ni with
    | nil => rw [hua] at hx; cases hx
    | cons x' la =>
      cases hub : untilRoot tb tb.vertices.length ri with
      | nil => rw [hub] at hy; cases hy
      | cons y' lb =>
        rw [hua] at hx ca; rw [hub] at hy cb
        have hx' : x' = x := by simpa using hx
        have hy' : y' = y := by simpa using hy
        subst hx'; subst hy'
        have d1 : cfgDist (ta.get ni) x' ≤ ext := (List.isChain_cons_cons.mp ca).1
        have d2 : cfgDist (tb.get ri) y' ≤ ext := (List.isChain_cons_cons.mp cb).1
        -- lengths
        obtain ⟨pa, hpa, hxa⟩ : ∃ pa, pa < ta.vertices.length ∧ x' = ta.get pa := by
          cases hpar : parentOf ta ni with
          | none =>
            rw [untilRoot_of_none _ hpar] at hua; cases hua
          | some p =>
            have hne : ta.vertices.length ≠ 0 := by omega
            obtain ⟨f, hf⟩ : ∃ f, ta.vertices.length = f + 1 := ⟨ta.vertices.length - 1, by omega⟩
            rw [hf, untilRoot_of_some _ hpar] at hua
            have hplt : p < ta.vertices.length := by
              by_cases hi0 : ni = 0
              · subst hi0; rw [ha.root_parent] at hpar; cases hpar
              · obtain ⟨p2, e, hlt2⟩ := ha.parent_lt ni (by omega) hn
                rw [e] at hpar; cases hpar; omega
            exact ⟨p, hplt, by injection hua with h1 _; exact h1.symm⟩
        obtain ⟨pb, hpb, hyb⟩ : ∃ pb, pb < tb.vertices.length ∧ y' = tb.get pb := by
          cases hpar : parentOf tb ri with
          | none =>
            rw [untilRoot_of_none _ hpar] at hub; cases hub
          | some p =>
            obtain ⟨f, hf⟩ : ∃ f, tb.vertices.length = f + 1 := ⟨tb.vertices.length - 1, by omega⟩
            rw [hf, untilRoot_of_some _ hpar] at hub
            have hplt : p < tb.vertices.length := by
              by_cases hi0 : ri = 0
              · subst hi0; rw [hb.root_parent] at hpar; cases hpar
              · obtain ⟨p2, e, hlt2⟩ := hb.parent_lt ri (by omega) hr
                rw [e] at hpar; cases hpar; omega
            exact ⟨p, hplt, by injection hub with h1 _; exact h1.symm⟩
        have lx : x'.length = n := by rw [hxa]; exact da pa hpa
        have ly : y'.length = n := by rw [hyb]; exact db pb hpb
        have lnew : (ta.get ni).length = n := da ni hn
        have lreach : (tb.get ri).length = n := db ri hr
        have t1 := cfgDist_triangle x' (ta.get ni) y' (by rw [lx, lnew]) (by rw [lnew, ly])
        have t2 := cfgDist_triangle (ta.get ni) (tb.get ri) y' (by rw [lnew, lreach])
          (by rw [lreach, ly])
        have d1' : cfgDist x' (ta.get ni) ≤ ext := by rw [cfgDist_comm]; exact d1
        have d3 : cfgDist (ta.get ni) (tb.get ri) < ext := by rw [cfgDist_comm]; exact hjoin
        linarith
  unfold joinPath
  split
  · exact isChain_symm_reverse hsymm key
  · exact key

/-! ### Box invariant -/

/-- componentwise `lo ≤ q ≤ hi` (all three lists of the same length) -/
def InBox (lo hi q : List ℝ) : Prop := List.Forall₂ (· ≤ ·) lo q ∧ List.Forall₂ (· ≤ ·) q hi

theorem forall₂_convex_lo {e d : ℝ} (h0 : 0 ≤ e / d) (h1 : e / d ≤ 1) :
    ∀ (lo a b : List ℝ), List.Forall₂ (· ≤ ·) lo a → List.Forall₂ (· ≤ ·) lo b →
      List.Forall₂ (· ≤ ·) lo ((a.zip b).map (fun (p : ℝ × ℝ) => p.1 + (p.2 - p.1) * e / d)) := by
  intro lo
  induction lo with
  | nil => intro a b ha hb; cases ha; cases hb; exact List.Forall₂.nil
  | cons l lo ih =>
    intro a b ha hb
    cases ha with
    | cons hx ha' =>
      cases hb with
      | cons hy hb' =>
        simp only [List.zip_cons_cons, List.map_cons]
        refine List.Forall₂.cons ?_ (ih _ _ ha' hb')
        rw [mul_div_assoc]
        nlinarith [mul_nonneg h0 (sub_nonneg.mpr hy), mul_nonneg (sub_nonneg.mpr h1) (sub_nonneg.mpr hx)]

theorem forall₂_convex_hi {e d : ℝ} (h0 : 0 ≤ e / d) (h1 : e / d ≤ 1) :
    ∀ (hi a b : List ℝ), List.Forall₂ (· ≤ ·) a hi → List.Forall₂ (· ≤ ·) b hi →
      List.Forall₂ (· ≤ ·) ((a.zip b).map (fun (p : ℝ × ℝ) => p.1 + (p.2 - p.1) * e / d)) hi := by
  intro hi
  induction hi with
  | nil => intro a b ha hb; cases ha; cases hb; exact List.Forall₂.nil
  | cons l hi ih =>
    intro a b ha hb
    cases ha with
    | cons hx ha' =>
      cases hb with
      | cons hy hb' =>
        simp only [List.zip_cons_cons, List.map_cons]
        refine List.Forall₂.cons ?_ (ih _ _ ha' hb')
        rw [mul_div_assoc]
        nlinarith [mul_nonneg h0 (sub_nonneg.mpr hy), mul_nonneg (sub_nonneg.mpr h1) (sub_nonneg.mpr hx)]

/-- the configuration `extend` tries to add lies in any box containing the nearest vertex and
the target -/
theorem extNew_inBox (nearest : RTree ℝ → Cfg ℝ → Nat) (t : RTree ℝ) (target : Cfg ℝ) {ext : ℝ}
    (hext : 0 < ext) {lo hi : List ℝ} (hn : InBox lo hi (t.get (nearest t target)))
    (ht : InBox lo hi target) : InBox lo hi (extNew nearest t target ext) := by
  rw [extNew_real]
  split
  · exact ht
  · next h =>
    have hd : ext ≤ cfgDist target (t.get (nearest t target)) := not_lt.mp h
    have hdpos : 0 < cfgDist target (t.get (nearest t target)) := lt_of_lt_of_le hext hd
    have h0 : 0 ≤ ext / cfgDist target (t.get (nearest t target)) := le_of_lt (div_pos hext hdpos)
    have h1 : ext / cfgDist target (t.get (nearest t target)) ≤ 1 := (div_le_one hdpos).mpr hd
    exact ⟨forall₂_convex_lo h0 h1 _ _ _ hn.1 ht.1, forall₂_convex_hi h0 h1 _ _ _ hn.2 ht.2⟩

/-! ### The real invariants as instances of the abstract principle -/

theorem stepHyp_gap {nearest : RTree ℝ → Cfg ℝ → Nat} (hn : ValidNearest nearest)
    (isFree : Cfg ℝ → Bool) {ext : ℝ} (hext : 0 < ext) (n : Nat) (rt : RTree ℝ → Cfg ℝ)
    (hrt : ∀ t p q, rt (push t p q) = rt t) :
    StepHyp nearest isFree ext
      (fun t => TreeInv isFree (rt t) t ∧ DimInv n t ∧ EdgeInv ext t) (fun q => q.length = n) where
  ne := fun _ h => h.1.nonempty
  step := fun t target h hg hf => by
    have hv := hn t target h.1.nonempty
    refine ⟨by rw [hrt]; exact h.1.push hv hf, ?_, ?_⟩
    · exact AllV.push h.2.1 _ (extNew_length nearest t target ext (h.2.1 _ hv) hg)
    · exact EdgeInv.push h.1 h.2.2 hv (extNew_edge nearest t target ext hext)
  good := fun t i h hi => h.2.1 i hi

theorem stepHyp_box {nearest : RTree ℝ → Cfg ℝ → Nat} (hn : ValidNearest nearest)
    (isFree : Cfg ℝ → Bool) {ext : ℝ} (hext : 0 < ext) (lo hi : List ℝ) (rt : RTree ℝ → Cfg ℝ)
    (hrt : ∀ t p q, rt (push t p q) = rt t) :
    StepHyp nearest isFree ext
      (fun t => TreeInv isFree (rt t) t ∧ AllV (InBox lo hi) t) (InBox lo hi) where
  ne := fun _ h => h.1.nonempty
  step := fun t target h hg hf => by
    have hv := hn t target h.1.nonempty
    refine ⟨by rw [hrt]; exact h.1.push hv hf, ?_⟩
    exact AllV.push h.2 _ (extNew_inBox nearest t target hext (h.2 _ hv) hg)
  good := fun t i h hi => h.2 i hi

end RealPart
end Opw.RrtInv
