/-
  The quaternion link chain of `forward_with_joint_poses` equals the matrix-form reference chain
  (`rot1..rot6`, `org1..org6` of `Fk.lean`), every link rotation is a unit quaternion, and
  `forward` (closed form + `from_rotation_matrix`) is the last link.
-/
import OpwVerif.Lemmas.Fk
import OpwVerif.Lemmas.OfMat
namespace Opw

/-- a link: unit quaternion whose matrix is `r`, translation `o` -/
structure LinkIs (l : Iso ℝ) (r : M3 ℝ) (o : V3 ℝ) : Prop where
  unit : l.q.normSq = 1
  rot : l.q.toMat = r
  org : l.t = o

theorem LinkIs.step {l : Iso ℝ} {r : M3 ℝ} {o : V3 ℝ} (h : LinkIs l r o) (d : V3 ℝ) (q : Quat ℝ)
    (hq : q.normSq = 1) : LinkIs (l.mul ⟨d, q⟩) (r.mul q.toMat) (o.add (r.mulVec d)) := by
  refine ⟨?_, ?_, ?_⟩
  · exact Iso.mul_unit l ⟨d, q⟩ h.unit hq
  · show (l.q.mul q).toMat = _
    rw [Quat.toMat_mul, h.rot]
  · show l.t.add (l.q.rotate d) = _
    rw [Quat.rotate_eq_mulVec l.q h.unit, h.rot, h.org]

noncomputable def lnk1 (p : Params ℝ) (q : J6 ℝ) : Iso ℝ := ⟨⟨0, 0, p.c1⟩, Quat.rotZ q.j1⟩
noncomputable def lnk2 (p : Params ℝ) (q : J6 ℝ) : Iso ℝ := (lnk1 p q).mul ⟨⟨p.a1, p.b, 0⟩, Quat.rotY q.j2⟩
noncomputable def lnk3 (p : Params ℝ) (q : J6 ℝ) : Iso ℝ := (lnk2 p q).mul ⟨⟨0, 0, p.c2⟩, Quat.rotY q.j3⟩
noncomputable def lnk4 (p : Params ℝ) (q : J6 ℝ) : Iso ℝ := (lnk3 p q).mul ⟨⟨p.a2, 0, 0⟩, Quat.rotZ q.j4⟩
noncomputable def lnk5 (p : Params ℝ) (q : J6 ℝ) : Iso ℝ := (lnk4 p q).mul ⟨⟨0, 0, p.c3⟩, Quat.rotY q.j5⟩
noncomputable def lnk6 (p : Params ℝ) (q : J6 ℝ) : Iso ℝ := (lnk5 p q).mul ⟨⟨0, 0, p.c4⟩, Quat.rotZ q.j6⟩

/-- the model's link list, with the generic literals normalised -/
theorem chainTheta_eq (p : Params ℝ) (q : J6 ℝ) :
    chainTheta p q = [lnk1 p q, lnk2 p q, lnk3 p q, lnk4 p q, lnk5 p q, lnk6 p q] := by
  simp only [chainTheta, lnk1, lnk2, lnk3, lnk4, lnk5, lnk6, lit0]

theorem lnk1_is (p : Params ℝ) (q : J6 ℝ) : LinkIs (lnk1 p q) (rot1 q) (org1 p q) :=
  ⟨Quat.normSq_rotZ _, Quat.toMat_rotZ _, rfl⟩
theorem lnk2_is (p : Params ℝ) (q : J6 ℝ) : LinkIs (lnk2 p q) (rot2 q) (org2 p q) := by
  have h := (lnk1_is p q).step ⟨p.a1, p.b, 0⟩ (Quat.rotY q.j2) (Quat.normSq_rotY _)
  rw [Quat.toMat_rotY] at h; exact h
theorem lnk3_is (p : Params ℝ) (q : J6 ℝ) : LinkIs (lnk3 p q) (rot3 q) (org3 p q) := by
  have h := (lnk2_is p q).step ⟨0, 0, p.c2⟩ (Quat.rotY q.j3) (Quat.normSq_rotY _)
  rw [Quat.toMat_rotY] at h; exact h
theorem lnk4_is (p : Params ℝ) (q : J6 ℝ) : LinkIs (lnk4 p q) (rot4 q) (org4 p q) := by
  have h := (lnk3_is p q).step ⟨p.a2, 0, 0⟩ (Quat.rotZ q.j4) (Quat.normSq_rotZ _)
  rw [Quat.toMat_rotZ] at h; exact h
theorem lnk5_is (p : Params ℝ) (q : J6 ℝ) : LinkIs (lnk5 p q) (rot5 q) (org5 p q) := by
  have h := (lnk4_is p q).step ⟨0, 0, p.c3⟩ (Quat.rotY q.j5) (Quat.normSq_rotY _)
  rw [Quat.toMat_rotY] at h; exact h
theorem lnk6_is (p : Params ℝ) (q : J6 ℝ) : LinkIs (lnk6 p q) (rot6 q) (org6 p q) := by
  have h := (lnk5_is p q).step ⟨0, 0, p.c4⟩ (Quat.rotZ q.j6) (Quat.normSq_rotZ _)
  rw [Quat.toMat_rotZ] at h; exact h

/-- the six link poses of `chainTheta` against the reference chain -/
theorem chainTheta_links (p : Params ℝ) (q : J6 ℝ) :
    ∃ l1 l2 l3 l4 l5 l6, chainTheta p q = [l1, l2, l3, l4, l5, l6] ∧
      LinkIs l1 (rot1 q) (org1 p q) ∧ LinkIs l2 (rot2 q) (org2 p q) ∧ LinkIs l3 (rot3 q) (org3 p q) ∧
      LinkIs l4 (rot4 q) (org4 p q) ∧ LinkIs l5 (rot5 q) (org5 p q) ∧ LinkIs l6 (rot6 q) (org6 p q) :=
  ⟨_, _, _, _, _, _, chainTheta_eq p q, lnk1_is p q, lnk2_is p q, lnk3_is p q, lnk4_is p q, lnk5_is p q, lnk6_is p q⟩

theorem IsRot_rot6 (q : J6 ℝ) : IsRot (rot6 q) := by
  unfold rot6 rot5 rot4 rot3 rot2 rot1
  exact ((((((IsRot_rz _).mul (IsRot_ry _)).mul (IsRot_ry _)).mul (IsRot_rz _)).mul (IsRot_ry _)).mul (IsRot_rz _))

/-- `forward` in θ-space is the last link: same translation, same rotation matrix, unit quaternion -/
theorem forwardTheta_last_link (p : Params ℝ) (q : J6 ℝ) :
    ∃ l6, (chainTheta p q)[5]? = some l6 ∧
      (forwardTheta p q).2 = l6.t ∧ (Quat.ofMat (forwardTheta p q).1).toMat = l6.q.toMat ∧
      (Quat.ofMat (forwardTheta p q).1).normSq = 1 ∧ l6.q.normSq = 1 := by
  obtain ⟨l1, l2, l3, l4, l5, l6, hc, -, -, -, -, -, h6⟩ := chainTheta_links p q
  refine ⟨l6, by rw [hc]; rfl, ?_, ?_, ?_, h6.unit⟩
  · rw [forwardTheta_tr, h6.org]
  · rw [forwardTheta_rot, Quat.toMat_ofMat _ (IsRot_rot6 q), h6.rot]
  · rw [forwardTheta_rot]; exact Quat.normSq_ofMat _ (IsRot_rot6 q)

end Opw
