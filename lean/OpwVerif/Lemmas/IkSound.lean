/-
  Lemmas for C02d (analytic SOUNDNESS of the closed-form inverse kinematics), real arithmetic.

  For an arbitrary pose with a unit quaternion, every one of the eight raw candidates
  `thetaCandidates p pose` whose branch conditions hold reproduces the pose under the forward model.

  Stages (every one a compiled lemma, nothing left open):
  * P   planar two-link geometry (`two_link`, `elbow_polar`, `planar_up`, `planar_down`) and the
        shoulder (`shoulder_polar`, `shoulder_front`, `shoulder_back`);
  * A   the arm rows: `FrontReach`, `BackReach`, `arm_plane_row1 … 4`, `wc_front`, `wc_back`,
        `arm_row1 … arm_row4` (wrist centre of the forward model = wrist centre of the pose);
  * W   the wrist: ZYZ decomposition of a rotation matrix (`rce_of_zyz`), `wristTarget`, `mmOf`,
        `wristSol_spec`, `roe_cand`; the wrist condition (`mm_ne_of_sin_j5`, `sin_j5_of_mm_ne`);
  * F   assembly (`wc_add`, `forwardTheta_of_parts`, `ArmCond`, `arm_sound_idx`, `wrist_sound_mem`,
        `candidate_sound_idx`, `candidate_sound_mem`);
  * Q   `angleTo` of unit quaternions with the same matrix is `0` (`angleTo_of_toMat_eq`), the
        cross-check passes (`comparePoses_of_same`, `finish_of_forwardTheta`), 5-DOF
        (`roe_ez_congr5`, `finish5_of_forwardTheta`);
  * remarks (`shoulder_ratio_range`, `frontReach_poseOf`, `backReach_poseOf`) and the concrete
        instance `pX`, `poseX` with all branch conditions (`armCond_X`, `wristCond_X`).
-/
import OpwVerif.Lemmas.IkComplete
import OpwVerif.Lemmas.Corollaries
import OpwVerif.Lemmas.Stack
import OpwVerif.Lemmas.SoundReal

attribute [-simp] Opw.ofNatLit_real

namespace Opw.IkSound
open Opw Opw.Wrist Opw.C02 Opw.IkComplete

/-! ### P. Planar two-link geometry -/

/-- two links `c2`, `κ` with elbow angle `B`; if the elbow–wrist vector in the frame of the upper
arm is `S e^{iA}`, then turning the upper arm to `t − A` puts the wrist at `S e^{it}` -/
theorem two_link (c2 κ S A B t : ℝ) (h1 : c2 + κ * Real.cos B = S * Real.cos A)
    (h2 : κ * Real.sin B = S * Real.sin A) :
    c2 * Real.cos (t - A) + κ * Real.cos (t - A + B) = S * Real.cos t ∧
      c2 * Real.sin (t - A) + κ * Real.sin (t - A + B) = S * Real.sin t := by
  have ec : Real.cos t = Real.cos A * Real.cos (t - A) - Real.sin A * Real.sin (t - A) := by
    rw [← Real.cos_add]; congr 1; ring
  have es : Real.sin t = Real.sin A * Real.cos (t - A) + Real.cos A * Real.sin (t - A) := by
    rw [← Real.sin_add]; congr 1; ring
  constructor
  · rw [Real.cos_add, ec]
    linear_combination Real.cos (t - A) * h1 - Real.sin (t - A) * h2
  · rw [Real.sin_add, es]
    linear_combination Real.sin (t - A) * h1 + Real.cos (t - A) * h2

/-- the elbow ratio in `[−1, 1]` makes the triangle close: with `B = arccos` of the elbow ratio and
`A = arccos` of the shoulder ratio, `c2 + κ e^{iB} = √s e^{iA}` (also when `s = 0`) -/
theorem elbow_polar (c2 κ s : ℝ) (hc : 0 < c2) (hk : 0 < κ) (hs : 0 ≤ s)
    (hb1 : -1 ≤ (s - c2 * c2 - κ * κ) / (2 * c2 * κ)) (hb2 : (s - c2 * c2 - κ * κ) / (2 * c2 * κ) ≤ 1) :
    c2 + κ * Real.cos (Real.arccos ((s - c2 * c2 - κ * κ) / (2 * c2 * κ))) =
        Real.sqrt s * Real.cos (Real.arccos ((s + c2 * c2 - κ * κ) / (2 * Real.sqrt s * c2))) ∧
      κ * Real.sin (Real.arccos ((s - c2 * c2 - κ * κ) / (2 * c2 * κ))) =
        Real.sqrt s * Real.sin (Real.arccos ((s + c2 * c2 - κ * κ) / (2 * Real.sqrt s * c2))) := by
  set bb := (s - c2 * c2 - κ * κ) / (2 * c2 * κ) with hbb
  have hcosB : Real.cos (Real.arccos bb) = bb := Real.cos_arccos hb1 hb2
  have hsinB0 : 0 ≤ Real.sin (Real.arccos bb) := Real.sin_arccos bb ▸ Real.sqrt_nonneg _
  have hsc := Real.sin_sq_add_cos_sq (Real.arccos bb)
  rw [hcosB] at hsc ⊢
  set w := κ * Real.sin (Real.arccos bb) with hw
  have hw0 : 0 ≤ w := mul_nonneg hk.le hsinB0
  have hu : c2 + κ * bb = (s + c2 * c2 - κ * κ) / (2 * c2) := by
    rw [hbb]; field_simp; ring
  -- law of cosines: u² + w² = s
  have hlaw : (c2 + κ * bb) ^ 2 + w ^ 2 = s := by
    have e : 2 * c2 * κ * bb = s - c2 * c2 - κ * κ := by rw [hbb]; field_simp
    have : w ^ 2 = κ ^ 2 * (1 - bb ^ 2) := by rw [hw]; linear_combination κ ^ 2 * hsc
    rw [this]; linear_combination e
  have hS := Real.sq_sqrt hs
  rcases (Real.sqrt_nonneg s).eq_or_lt with h0 | hpos
  · -- degenerate: s = 0
    have hs0 : s = 0 := by rw [← hS, ← h0]; ring
    rw [← h0]
    have hu0 : c2 + κ * bb = 0 := by nlinarith [sq_nonneg (c2 + κ * bb), sq_nonneg w]
    have hw00 : w = 0 := by nlinarith [sq_nonneg (c2 + κ * bb), sq_nonneg w]
    exact ⟨by rw [hu0]; ring, by rw [hw00]; ring⟩
  · set S := Real.sqrt s with hSdef
    have ha : (s + c2 * c2 - κ * κ) / (2 * S * c2) = (c2 + κ * bb) / S := by
      rw [hu]; field_simp
    rw [ha]
    set u := c2 + κ * bb with hudef
    have hle : u ^ 2 ≤ S ^ 2 := by rw [hS, ← hlaw]; nlinarith [sq_nonneg w]
    have habs : |u| ≤ S := abs_le_of_sq_le_sq' hle hpos.le |> fun h => abs_le.mpr h
    have ha1 : -1 ≤ u / S := by
      rw [le_div_iff₀ hpos]; have := (abs_le.mp habs).1; linarith
    have ha2 : u / S ≤ 1 := by
      rw [div_le_iff₀ hpos]; have := (abs_le.mp habs).2; linarith
    have hcosA : Real.cos (Real.arccos (u / S)) = u / S := Real.cos_arccos ha1 ha2
    have hsinA0 : 0 ≤ Real.sin (Real.arccos (u / S)) := Real.sin_arccos (u / S) ▸ Real.sqrt_nonneg _
    have hscA := Real.sin_sq_add_cos_sq (Real.arccos (u / S))
    rw [hcosA] at hscA ⊢
    refine ⟨by field_simp, ?_⟩
    have h1 : 0 ≤ S * Real.sin (Real.arccos (u / S)) := mul_nonneg hpos.le hsinA0
    have hsq : w ^ 2 = (S * Real.sin (Real.arccos (u / S))) ^ 2 := by
      have e1 : (S * Real.sin (Real.arccos (u / S))) ^ 2 = S ^ 2 - u ^ 2 := by
        have : Real.sin (Real.arccos (u / S)) ^ 2 = 1 - (u / S) ^ 2 := by linear_combination hscA
        rw [mul_pow, this]; field_simp
      rw [e1, hS]; linear_combination hlaw
    exact (sq_eq_sq₀ hw0 h1).mp hsq

/-- both elbow configurations for a target `√s e^{it}` -/
theorem planar_up (c2 κ s t : ℝ) (hc : 0 < c2) (hk : 0 < κ) (hs : 0 ≤ s)
    (hb1 : -1 ≤ (s - c2 * c2 - κ * κ) / (2 * c2 * κ)) (hb2 : (s - c2 * c2 - κ * κ) / (2 * c2 * κ) ≤ 1)
    {A B t2 t23 : ℝ} (hA : A = Real.arccos ((s + c2 * c2 - κ * κ) / (2 * Real.sqrt s * c2)))
    (hB : B = Real.arccos ((s - c2 * c2 - κ * κ) / (2 * c2 * κ)))
    (h2 : t2 = t - A) (h23 : t23 = t - A + B) :
    c2 * Real.cos t2 + κ * Real.cos t23 = Real.sqrt s * Real.cos t ∧
      c2 * Real.sin t2 + κ * Real.sin t23 = Real.sqrt s * Real.sin t := by
  obtain ⟨e1, e2⟩ := elbow_polar c2 κ s hc hk hs hb1 hb2
  rw [← hA, ← hB] at e1 e2
  rw [h2, h23]
  exact two_link c2 κ _ A B t e1 e2

theorem planar_down (c2 κ s t : ℝ) (hc : 0 < c2) (hk : 0 < κ) (hs : 0 ≤ s)
    (hb1 : -1 ≤ (s - c2 * c2 - κ * κ) / (2 * c2 * κ)) (hb2 : (s - c2 * c2 - κ * κ) / (2 * c2 * κ) ≤ 1)
    {A B t2 t23 : ℝ} (hA : A = Real.arccos ((s + c2 * c2 - κ * κ) / (2 * Real.sqrt s * c2)))
    (hB : B = Real.arccos ((s - c2 * c2 - κ * κ) / (2 * c2 * κ)))
    (h2 : t2 = t + A) (h23 : t23 = t + A - B) :
    c2 * Real.cos t2 + κ * Real.cos t23 = Real.sqrt s * Real.cos t ∧
      c2 * Real.sin t2 + κ * Real.sin t23 = Real.sqrt s * Real.sin t := by
  obtain ⟨e1, e2⟩ := elbow_polar c2 κ s hc hk hs hb1 hb2
  rw [← hA, ← hB] at e1 e2
  have e1' : c2 + κ * Real.cos (-B) = Real.sqrt s * Real.cos (-A) := by
    rw [Real.cos_neg, Real.cos_neg]; exact e1
  have e2' : κ * Real.sin (-B) = Real.sqrt s * Real.sin (-A) := by
    rw [Real.sin_neg, Real.sin_neg]; linear_combination -e2
  have := two_link c2 κ _ (-A) (-B) t e1' e2'
  rw [h2, h23, show t + A = t - -A by ring, show t - -A - B = t - -A + -B by ring]
  exact this

/-! ### Shoulder: the horizontal position of the wrist centre -/

theorem shoulder_polar (x y b : ℝ) (h : 0 ≤ x * x + y * y - b * b) :
    Real.sqrt (x * x + y * y - b * b) =
        Real.sqrt (x * x + y * y) * Real.cos (Complex.arg ⟨Real.sqrt (x * x + y * y - b * b), b⟩) ∧
      b = Real.sqrt (x * x + y * y) * Real.sin (Complex.arg ⟨Real.sqrt (x * x + y * y - b * b), b⟩) := by
  have hr := Real.mul_self_sqrt h
  have e : Real.sqrt (x * x + y * y - b * b) * Real.sqrt (x * x + y * y - b * b) + b * b =
      x * x + y * y := by rw [hr]; ring
  have h1 := re_eq_norm_cos (Real.sqrt (x * x + y * y - b * b)) b
  have h2 := im_eq_norm_sin (Real.sqrt (x * x + y * y - b * b)) b
  rw [e] at h1 h2
  exact ⟨h1, h2⟩

/-- front shoulder: `(r + i b) e^{iθ1} = x + i y` for `θ1 = atan2(y, x) − atan2(b, r)` -/
theorem shoulder_front (x y b : ℝ) (h : 0 ≤ x * x + y * y - b * b) {r t1 : ℝ}
    (hr : r = Real.sqrt (x * x + y * y - b * b))
    (h1 : t1 = Complex.arg ⟨x, y⟩ - Complex.arg ⟨r, b⟩) :
    r * Real.cos t1 - b * Real.sin t1 = x ∧ r * Real.sin t1 + b * Real.cos t1 = y := by
  obtain ⟨er, eb⟩ := shoulder_polar x y b h
  rw [← hr] at er eb
  have ex := re_eq_norm_cos x y
  have ey := im_eq_norm_sin x y
  set D := Real.sqrt (x * x + y * y)
  set α := Complex.arg ⟨x, y⟩
  set β := Complex.arg ⟨r, b⟩
  have ec : Real.cos α = Real.cos β * Real.cos (α - β) - Real.sin β * Real.sin (α - β) := by
    rw [← Real.cos_add]; congr 1; ring
  have es : Real.sin α = Real.sin β * Real.cos (α - β) + Real.cos β * Real.sin (α - β) := by
    rw [← Real.sin_add]; congr 1; ring
  rw [h1]
  constructor
  · rw [ex, ec]; linear_combination Real.cos (α - β) * er - Real.sin (α - β) * eb
  · rw [ey, es]; linear_combination Real.sin (α - β) * er + Real.cos (α - β) * eb

/-- back shoulder: `(−r + i b) e^{iθ1} = x + i y` for `θ1 = atan2(y, x) + atan2(b, r) − π` -/
theorem shoulder_back (x y b : ℝ) (h : 0 ≤ x * x + y * y - b * b) {r t1 : ℝ}
    (hr : r = Real.sqrt (x * x + y * y - b * b))
    (h1 : t1 = Complex.arg ⟨x, y⟩ + Complex.arg ⟨r, b⟩ - Real.pi) :
    -r * Real.cos t1 - b * Real.sin t1 = x ∧ -r * Real.sin t1 + b * Real.cos t1 = y := by
  obtain ⟨er, eb⟩ := shoulder_polar x y b h
  rw [← hr] at er eb
  have ex := re_eq_norm_cos x y
  have ey := im_eq_norm_sin x y
  set D := Real.sqrt (x * x + y * y)
  set α := Complex.arg ⟨x, y⟩
  set β := Complex.arg ⟨r, b⟩
  have ec : Real.cos α = Real.cos β * Real.cos (α + β) + Real.sin β * Real.sin (α + β) := by
    have := Real.cos_sub (α + β) β
    rw [show α + β - β = α by ring] at this
    rw [this]; ring
  have es : Real.sin α = Real.cos β * Real.sin (α + β) - Real.sin β * Real.cos (α + β) := by
    have := Real.sin_sub (α + β) β
    rw [show α + β - β = α by ring] at this
    rw [this]; ring
  rw [h1, Real.cos_sub_pi, Real.sin_sub_pi]
  constructor
  · rw [ex, ec]; linear_combination Real.cos (α + β) * er + Real.sin (α + β) * eb
  · rw [ey, es]; linear_combination Real.sin (α + β) * er - Real.cos (α + β) * eb

/-! ### A. The four arm rows -/

/-- front shoulder reaches the wrist centre `c`: the square root of the shoulder is real and the
argument of the elbow `acos` (`tmp11`) lies in `[−1, 1]` -/
def FrontReach (p : Params ℝ) (c : V3 ℝ) : Prop :=
  0 ≤ (c.x * c.x + c.y * c.y) - p.b * p.b ∧
    -1 ≤ (s1sq p c - p.c2 * p.c2 - kappa2 p) / tmp9 p ∧
    (s1sq p c - p.c2 * p.c2 - kappa2 p) / tmp9 p ≤ 1

/-- back shoulder reaches the wrist centre `c` (`tmp12` in `[−1, 1]`) -/
def BackReach (p : Params ℝ) (c : V3 ℝ) : Prop :=
  0 ≤ (c.x * c.x + c.y * c.y) - p.b * p.b ∧
    -1 ≤ (s2sq p c - p.c2 * p.c2 - kappa2 p) / tmp9 p ∧
    (s2sq p c - p.c2 * p.c2 - kappa2 p) / tmp9 p ≤ 1

theorem kappa_mul_self (p : Params ℝ) : kappa p * kappa p = kappa2 p := by
  rw [kappa2_eq]; ring

theorem s1sq_nonneg (p : Params ℝ) (c : V3 ℝ) : 0 ≤ s1sq p c := by
  unfold s1sq; nlinarith [mul_self_nonneg (nx1 p c), mul_self_nonneg (c.z - p.c1)]

theorem s2sq_nonneg (p : Params ℝ) (c : V3 ℝ) : 0 ≤ s2sq p c := by
  unfold s2sq; nlinarith [mul_self_nonneg (nx1 p c + 2 * p.a1), mul_self_nonneg (c.z - p.c1)]

theorem s1sq_polar (p : Params ℝ) (c : V3 ℝ) :
    Real.sqrt (s1sq p c) * Real.cos (tmp14 p c) = c.z - p.c1 ∧
      Real.sqrt (s1sq p c) * Real.sin (tmp14 p c) = nx1 p c := by
  have e : s1sq p c = (c.z - p.c1) * (c.z - p.c1) + nx1 p c * nx1 p c := by unfold s1sq; ring
  rw [e]
  exact ⟨(re_eq_norm_cos _ _).symm, (im_eq_norm_sin _ _).symm⟩

theorem s2sq_polar (p : Params ℝ) (c : V3 ℝ) :
    Real.sqrt (s2sq p c) * Real.cos (tmp16 p c) = c.z - p.c1 ∧
      Real.sqrt (s2sq p c) * Real.sin (tmp16 p c) = nx1 p c + 2 * p.a1 := by
  have e : s2sq p c = (c.z - p.c1) * (c.z - p.c1) + (nx1 p c + 2 * p.a1) * (nx1 p c + 2 * p.a1) := by
    unfold s2sq; ring
  rw [e]
  exact ⟨(re_eq_norm_cos _ _).symm, (im_eq_norm_sin _ _).symm⟩

theorem elbow_arg_eq (p : Params ℝ) (s : ℝ) :
    (s - p.c2 * p.c2 - kappa2 p) / tmp9 p =
      (s - p.c2 * p.c2 - kappa p * kappa p) / (2 * p.c2 * kappa p) := by
  rw [kappa_mul_self, tmp9_eq]

theorem tmp13_eq (p : Params ℝ) (c : V3 ℝ) :
    tmp13 p c = Real.arccos ((s1sq p c + p.c2 * p.c2 - kappa p * kappa p) /
      (2 * Real.sqrt (s1sq p c) * p.c2)) := by
  rw [kappa_mul_self]; unfold tmp13; rw [lit2]; rfl

theorem tmp15_eq (p : Params ℝ) (c : V3 ℝ) :
    tmp15 p c = Real.arccos ((s2sq p c + p.c2 * p.c2 - kappa p * kappa p) /
      (2 * Real.sqrt (s2sq p c) * p.c2)) := by
  rw [kappa_mul_self]; unfold tmp15; rw [lit2]; rfl

theorem tmp11_eq (p : Params ℝ) (c : V3 ℝ) :
    tmp11 p c = Real.arccos ((s1sq p c - p.c2 * p.c2 - kappa p * kappa p) / (2 * p.c2 * kappa p)) := by
  rw [← elbow_arg_eq]; rfl

theorem tmp12_eq (p : Params ℝ) (c : V3 ℝ) :
    tmp12 p c = Real.arccos ((s2sq p c - p.c2 * p.c2 - kappa p * kappa p) / (2 * p.c2 * kappa p)) := by
  rw [← elbow_arg_eq]; rfl

/-- the arm-plane coordinates of the wrist centre for rows 1 and 2 -/
theorem arm_plane_row1 (p : Params ℝ) (c : V3 ℝ) (hc : 0 < p.c2) (hk : 0 < kappa p)
    (h : FrontReach p c) {θ : J6 ℝ} (h2 : θ.j2 = th2i p c) (h3 : θ.j3 = th3i p c) :
    cz1 p θ = c.z - p.c1 ∧ armX p θ = nx1 p c := by
  obtain ⟨-, hb1, hb2⟩ := h
  rw [elbow_arg_eq] at hb1 hb2
  obtain ⟨pc, ps⟩ := s1sq_polar p c
  obtain ⟨e1, e2⟩ := planar_up p.c2 (kappa p) (s1sq p c) (tmp14 p c) hc hk (s1sq_nonneg p c) hb1 hb2
    (tmp13_eq p c) (tmp11_eq p c) (t2 := θ.j2) (t23 := θ.j2 + θ.j3 + psi3 p)
    (by rw [h2]; unfold th2i; ring)
    (by rw [h2, h3]; unfold th2i th3i; show _ + (_ - psi3 p) + _ = _; ring)
  exact ⟨e1.trans pc, e2.trans ps⟩

theorem arm_plane_row2 (p : Params ℝ) (c : V3 ℝ) (hc : 0 < p.c2) (hk : 0 < kappa p)
    (h : FrontReach p c) {θ : J6 ℝ} (h2 : θ.j2 = th2ii p c) (h3 : θ.j3 = th3ii p c) :
    cz1 p θ = c.z - p.c1 ∧ armX p θ = nx1 p c := by
  obtain ⟨-, hb1, hb2⟩ := h
  rw [elbow_arg_eq] at hb1 hb2
  obtain ⟨pc, ps⟩ := s1sq_polar p c
  obtain ⟨e1, e2⟩ := planar_down p.c2 (kappa p) (s1sq p c) (tmp14 p c) hc hk (s1sq_nonneg p c) hb1 hb2
    (tmp13_eq p c) (tmp11_eq p c) (t2 := θ.j2) (t23 := θ.j2 + θ.j3 + psi3 p)
    (by rw [h2]; unfold th2ii; ring)
    (by rw [h2, h3]; unfold th2ii th3ii; show _ + (_ - psi3 p) + _ = _; ring)
  exact ⟨e1.trans pc, e2.trans ps⟩

/-- rows 3 and 4 (back shoulder): the arm points to `−(nx1 + 2 a1)` -/
theorem arm_plane_row3 (p : Params ℝ) (c : V3 ℝ) (hc : 0 < p.c2) (hk : 0 < kappa p)
    (h : BackReach p c) {θ : J6 ℝ} (h2 : θ.j2 = th2iii p c) (h3 : θ.j3 = th3iii p c) :
    cz1 p θ = c.z - p.c1 ∧ armX p θ = -(nx1 p c + 2 * p.a1) := by
  obtain ⟨-, hb1, hb2⟩ := h
  rw [elbow_arg_eq] at hb1 hb2
  obtain ⟨pc, ps⟩ := s2sq_polar p c
  obtain ⟨e1, e2⟩ := planar_up p.c2 (kappa p) (s2sq p c) (-tmp16 p c) hc hk (s2sq_nonneg p c) hb1 hb2
    (tmp15_eq p c) (tmp12_eq p c) (t2 := θ.j2) (t23 := θ.j2 + θ.j3 + psi3 p)
    (by rw [h2]; unfold th2iii; ring)
    (by rw [h2, h3]; unfold th2iii th3iii; show _ + (_ - psi3 p) + _ = _; ring)
  rw [Real.cos_neg] at e1
  rw [Real.sin_neg] at e2
  exact ⟨e1.trans pc, by rw [← ps]; unfold armX; linear_combination e2⟩

theorem arm_plane_row4 (p : Params ℝ) (c : V3 ℝ) (hc : 0 < p.c2) (hk : 0 < kappa p)
    (h : BackReach p c) {θ : J6 ℝ} (h2 : θ.j2 = th2iv p c) (h3 : θ.j3 = th3iv p c) :
    cz1 p θ = c.z - p.c1 ∧ armX p θ = -(nx1 p c + 2 * p.a1) := by
  obtain ⟨-, hb1, hb2⟩ := h
  rw [elbow_arg_eq] at hb1 hb2
  obtain ⟨pc, ps⟩ := s2sq_polar p c
  obtain ⟨e1, e2⟩ := planar_down p.c2 (kappa p) (s2sq p c) (-tmp16 p c) hc hk (s2sq_nonneg p c) hb1 hb2
    (tmp15_eq p c) (tmp12_eq p c) (t2 := θ.j2) (t23 := θ.j2 + θ.j3 + psi3 p)
    (by rw [h2]; unfold th2iv; ring)
    (by rw [h2, h3]; unfold th2iv th3iv; show _ + (_ - psi3 p) + _ = _; ring)
  rw [Real.cos_neg] at e1
  rw [Real.sin_neg] at e2
  exact ⟨e1.trans pc, by rw [← ps]; unfold armX; linear_combination e2⟩

/-- front shoulder: from the arm-plane coordinates to the wrist centre in base coordinates -/
theorem wc_front (p : Params ℝ) (c : V3 ℝ) (hr : 0 ≤ (c.x * c.x + c.y * c.y) - p.b * p.b) {θ : J6 ℝ}
    (h1 : θ.j1 = th1i p c) (hz : cz1 p θ = c.z - p.c1) (hx : armX p θ = nx1 p c) :
    wcθ p θ = c := by
  have hcx : cx1 p θ = Real.sqrt (c.x * c.x + c.y * c.y - p.b * p.b) := by
    unfold cx1; rw [hx]; unfold nx1; show Real.sqrt _ - p.a1 + p.a1 = _; ring
  obtain ⟨ex, ey⟩ := shoulder_front c.x c.y p.b hr (r := cx1 p θ) (t1 := θ.j1) hcx
    (by rw [h1, hcx]; unfold th1i nx1
        show Complex.arg ⟨c.x, c.y⟩ - Complex.arg ⟨Real.sqrt _ - p.a1 + p.a1, p.b⟩ = _
        rw [sub_add_cancel])
  apply V3.ext'
  · exact ex
  · exact ey
  · show cz1 p θ + p.c1 = c.z
    rw [hz]; ring

/-- back shoulder -/
theorem wc_back (p : Params ℝ) (c : V3 ℝ) (hr : 0 ≤ (c.x * c.x + c.y * c.y) - p.b * p.b) {θ : J6 ℝ}
    (h1 : θ.j1 = th1ii p c) (hz : cz1 p θ = c.z - p.c1) (hx : armX p θ = -(nx1 p c + 2 * p.a1)) :
    wcθ p θ = c := by
  have hcx : cx1 p θ = -Real.sqrt (c.x * c.x + c.y * c.y - p.b * p.b) := by
    unfold cx1; rw [hx]; unfold nx1; show -(Real.sqrt _ - p.a1 + 2 * p.a1) + p.a1 = _; ring
  obtain ⟨ex, ey⟩ := shoulder_back c.x c.y p.b hr (r := Real.sqrt (c.x * c.x + c.y * c.y - p.b * p.b))
    (t1 := θ.j1) rfl
    (by rw [h1]; unfold th1ii nx1
        show Complex.arg ⟨c.x, c.y⟩ + Complex.arg ⟨Real.sqrt _ - p.a1 + p.a1, p.b⟩ - Real.pi = _
        rw [sub_add_cancel])
  rw [← hcx] at ex ey
  apply V3.ext'
  · exact ex
  · exact ey
  · show cz1 p θ + p.c1 = c.z
    rw [hz]; ring

/-- rows 1 … 4: the forward model puts the wrist centre of the candidate at `c` -/
theorem arm_row1 (p : Params ℝ) (c : V3 ℝ) (m : M3 ℝ) (hc : 0 < p.c2) (hk : 0 < kappa p)
    (h : FrontReach p c) : wcθ p (cand m (th1i p c) (th2i p c) (th3i p c)) = c := by
  obtain ⟨hz, hx⟩ := arm_plane_row1 p c hc hk h (θ := cand m (th1i p c) (th2i p c) (th3i p c)) rfl rfl
  exact wc_front p c h.1 rfl hz hx

theorem arm_row2 (p : Params ℝ) (c : V3 ℝ) (m : M3 ℝ) (hc : 0 < p.c2) (hk : 0 < kappa p)
    (h : FrontReach p c) : wcθ p (cand m (th1i p c) (th2ii p c) (th3ii p c)) = c := by
  obtain ⟨hz, hx⟩ := arm_plane_row2 p c hc hk h (θ := cand m (th1i p c) (th2ii p c) (th3ii p c)) rfl rfl
  exact wc_front p c h.1 rfl hz hx

theorem arm_row3 (p : Params ℝ) (c : V3 ℝ) (m : M3 ℝ) (hc : 0 < p.c2) (hk : 0 < kappa p)
    (h : BackReach p c) : wcθ p (cand m (th1ii p c) (th2iii p c) (th3iii p c)) = c := by
  obtain ⟨hz, hx⟩ := arm_plane_row3 p c hc hk h (θ := cand m (th1ii p c) (th2iii p c) (th3iii p c)) rfl rfl
  exact wc_back p c h.1 rfl hz hx

theorem arm_row4 (p : Params ℝ) (c : V3 ℝ) (m : M3 ℝ) (hc : 0 < p.c2) (hk : 0 < kappa p)
    (h : BackReach p c) : wcθ p (cand m (th1ii p c) (th2iv p c) (th3iv p c)) = c := by
  obtain ⟨hz, hx⟩ := arm_plane_row4 p c hc hk h (θ := cand m (th1ii p c) (th2iv p c) (th3iv p c)) rfl rfl
  exact wc_back p c h.1 rfl hz hx

/-- the wrist centre of the forward model does not depend on the wrist angles -/
theorem wcθ_flip (p : Params ℝ) (t : J6 ℝ) : wcθ p (flipG t) = wcθ p t := rfl

/-! ### W. The wrist: ZYZ decomposition of a rotation matrix -/

theorem eq_of_sq_mul {s x y : ℝ} (hs : s ≠ 0) (h : s * s * (x - y) = 0) : x = y := by
  rcases mul_eq_zero.mp h with h | h
  · exact absurd (mul_self_eq_zero.mp h) hs
  · linarith

/-- a rotation matrix `N` whose `(3,3)` entry is not `±1` is `Rz(θ4) Ry(θ5) Rz(θ6)` for sines and
cosines that satisfy `s5 c4 = N02`, `s5 s4 = N12`, `s5 c6 = −N20`, `s5 s6 = N21`, `c5 = N22`,
`s5² = 1 − N22²`, `s5 ≠ 0` -/
theorem rce_of_zyz (N : M3 ℝ) (hN : IsRot N) {s4 c4 s5 c5 s6 c6 : ℝ} (h5 : s5 ≠ 0)
    (hc5 : c5 = N.m22) (hs5 : s5 * s5 = 1 - N.m22 * N.m22)
    (h4c : s5 * c4 = N.m02) (h4s : s5 * s4 = N.m12) (h6c : s5 * c6 = -N.m20) (h6s : s5 * s6 = N.m21) :
    rce s4 c4 s5 c5 s6 c6 = N := by
  have e := hN.eqs
  have k00 : -N.m02 * N.m20 * N.m22 - N.m12 * N.m21 = (1 - N.m22 * N.m22) * N.m00 := by
    linear_combination (-N.m20) * e.hr02 - N.m21 * e.hk12 + N.m00 * e.hr22
  have k01 : -N.m02 * N.m22 * N.m21 + N.m12 * N.m20 = (1 - N.m22 * N.m22) * N.m01 := by
    linear_combination (-N.m21) * e.hr02 + N.m20 * e.hk12 + N.m01 * e.hr22
  have k10 : -N.m12 * N.m22 * N.m20 + N.m02 * N.m21 = (1 - N.m22 * N.m22) * N.m10 := by
    linear_combination (-N.m20) * e.hr12 + N.m21 * e.hk02 + N.m10 * e.hr22
  have k11 : -N.m12 * N.m22 * N.m21 - N.m02 * N.m20 = (1 - N.m22 * N.m22) * N.m11 := by
    linear_combination (-N.m21) * e.hr12 - N.m20 * e.hk02 + N.m11 * e.hr22
  subst hc5
  apply M3.ext' <;> simp only [rce]
  · apply eq_of_sq_mul h5
    linear_combination (s5 * c6 * N.m22) * h4c + (N.m02 * N.m22) * h6c - (s5 * s6) * h4s - N.m12 * h6s
      - N.m00 * hs5 + k00
  · apply eq_of_sq_mul h5
    linear_combination (-(s5 * s6 * N.m22)) * h4c - (N.m02 * N.m22) * h6s - (s5 * c6) * h4s - N.m12 * h6c
      - N.m01 * hs5 + k01
  · linear_combination h4c
  · apply eq_of_sq_mul h5
    linear_combination (s5 * c6 * N.m22) * h4s + (N.m12 * N.m22) * h6c + (s5 * s6) * h4c + N.m02 * h6s
      - N.m10 * hs5 + k10
  · apply eq_of_sq_mul h5
    linear_combination (-(s5 * s6 * N.m22)) * h4s - (N.m12 * N.m22) * h6s + (s5 * c6) * h4c + N.m02 * h6c
      - N.m11 * hs5 + k11
  · linear_combination h4s
  · linear_combination -h6c
  · linear_combination h6s

/-- `R0c(θ1,θ2,θ3)ᵀ · R`, the rotation the wrist has to produce -/
noncomputable def wristTarget (R : M3 ℝ) (t1 t2 t3 : ℝ) : M3 ℝ :=
  (r0c (Real.sin t1) (Real.cos t1) (Real.sin t2) (Real.cos t2) (Real.sin t3) (Real.cos t3)).transpose.mul R

/-- the `(3,3)` entry of `R0cᵀ R` as the solver computes it (`cos θ5`) -/
noncomputable def mmOf (R : M3 ℝ) (t1 t23 : ℝ) : ℝ :=
  R.m02 * Real.sin t23 * Real.cos t1 + R.m12 * Real.sin t23 * Real.sin t1 + R.m22 * Real.cos t23

theorem IsRot_wristTarget {R : M3 ℝ} (hR : IsRot R) (t1 t2 t3 : ℝ) : IsRot (wristTarget R t1 t2 t3) :=
  (IsRot_r0c t1 t2 t3).transpose.mul hR

theorem r0c_mul_wristTarget (R : M3 ℝ) (t1 t2 t3 : ℝ) :
    (r0c (Real.sin t1) (Real.cos t1) (Real.sin t2) (Real.cos t2) (Real.sin t3) (Real.cos t3)).mul
      (wristTarget R t1 t2 t3) = R := by
  unfold wristTarget
  rw [← M3.mul_assoc, (IsRot_r0c t1 t2 t3).mt, M3.one_mul]

theorem wristTarget_entries (R : M3 ℝ) (t1 t2 t3 : ℝ) :
    (wristTarget R t1 t2 t3).m22 = mmOf R t1 (t2 + t3) ∧
    (wristTarget R t1 t2 t3).m12 = R.m12 * Real.cos t1 - R.m02 * Real.sin t1 ∧
    (wristTarget R t1 t2 t3).m02 =
      R.m02 * Real.cos (t2 + t3) * Real.cos t1 + R.m12 * Real.cos (t2 + t3) * Real.sin t1
        - R.m22 * Real.sin (t2 + t3) ∧
    (wristTarget R t1 t2 t3).m21 =
      R.m01 * Real.sin (t2 + t3) * Real.cos t1 + R.m11 * Real.sin (t2 + t3) * Real.sin t1
        + R.m21 * Real.cos (t2 + t3) ∧
    -(wristTarget R t1 t2 t3).m20 =
      -R.m00 * Real.sin (t2 + t3) * Real.cos t1 - R.m10 * Real.sin (t2 + t3) * Real.sin t1
        - R.m20 * Real.cos (t2 + t3) := by
  simp only [wristTarget, mmOf, M3.mul, M3.transpose, r0c, lit0, Real.sin_add, Real.cos_add]
  refine ⟨?_, ?_, ?_, ?_, ?_⟩ <;> ring

theorem mmOf_sq_le_one {R : M3 ℝ} (hR : IsRot R) (t1 t2 t3 : ℝ) :
    mmOf R t1 (t2 + t3) * mmOf R t1 (t2 + t3) ≤ 1 := by
  have e := (IsRot_wristTarget hR t1 t2 t3).eqs
  rw [← (wristTarget_entries R t1 t2 t3).1]
  nlinarith [e.hc22, mul_self_nonneg (wristTarget R t1 t2 t3).m02,
    mul_self_nonneg (wristTarget R t1 t2 t3).m12]

/-- W: the wrist angles computed by the solver decompose the wrist target (`cos² θ5 ≠ 1`) -/
theorem wristSol_spec {R : M3 ℝ} (hR : IsRot R) (t1 t2 t3 : ℝ)
    (hm : mmOf R t1 (t2 + t3) * mmOf R t1 (t2 + t3) ≠ 1) :
    rce (Real.sin (wristSol R (Real.sin t1) (Real.cos t1) (t2 + t3)).1)
        (Real.cos (wristSol R (Real.sin t1) (Real.cos t1) (t2 + t3)).1)
        (Real.sin (wristSol R (Real.sin t1) (Real.cos t1) (t2 + t3)).2.1)
        (Real.cos (wristSol R (Real.sin t1) (Real.cos t1) (t2 + t3)).2.1)
        (Real.sin (wristSol R (Real.sin t1) (Real.cos t1) (t2 + t3)).2.2)
        (Real.cos (wristSol R (Real.sin t1) (Real.cos t1) (t2 + t3)).2.2) =
      wristTarget R t1 t2 t3 := by
  have hN := IsRot_wristTarget hR t1 t2 t3
  have e := hN.eqs
  obtain ⟨n22, n12, n02, n21, n20⟩ := wristTarget_entries R t1 t2 t3
  have hle := mmOf_sq_le_one hR t1 t2 t3
  set N := wristTarget R t1 t2 t3 with hNdef
  set mm := mmOf R t1 (t2 + t3) with hmm
  have hpos : 0 < 1 - mm * mm := lt_of_le_of_ne (by linarith) (fun h => hm (by linarith))
  have hs5 : 0 < Real.sqrt (1 - mm * mm) := Real.sqrt_pos.mpr hpos
  have hss : Real.sqrt (1 - mm * mm) * Real.sqrt (1 - mm * mm) = 1 - mm * mm :=
    Real.mul_self_sqrt hpos.le
  -- the three angles
  have w4 : (wristSol R (Real.sin t1) (Real.cos t1) (t2 + t3)).1 = Complex.arg ⟨N.m02, N.m12⟩ := by
    rw [n02, n12]; rfl
  have w5 : (wristSol R (Real.sin t1) (Real.cos t1) (t2 + t3)).2.1 =
      Complex.arg ⟨mm, Real.sqrt (1 - mm * mm)⟩ := by
    rw [hmm]; unfold mmOf
    simp only [wristSol, natan2_real, nsqrt_real, nsin_real, ncos_real, lit1]
  have w6 : (wristSol R (Real.sin t1) (Real.cos t1) (t2 + t3)).2.2 = Complex.arg ⟨-N.m20, N.m21⟩ := by
    rw [n20, n21]; rfl
  rw [w4, w5, w6]
  -- moduli
  have r5 : Real.sqrt (mm * mm + Real.sqrt (1 - mm * mm) * Real.sqrt (1 - mm * mm)) = 1 := by
    rw [hss, show mm * mm + (1 - mm * mm) = 1 by ring, Real.sqrt_one]
  have r4 : Real.sqrt (N.m02 * N.m02 + N.m12 * N.m12) = Real.sqrt (1 - mm * mm) := by
    congr 1; rw [← n22]; linear_combination e.hc22
  have r6 : Real.sqrt (-N.m20 * -N.m20 + N.m21 * N.m21) = Real.sqrt (1 - mm * mm) := by
    congr 1; rw [← n22]; linear_combination e.hr22
  have c5 := re_eq_norm_cos mm (Real.sqrt (1 - mm * mm))
  have s5 := im_eq_norm_sin mm (Real.sqrt (1 - mm * mm))
  rw [r5, one_mul] at c5 s5
  have c4 := re_eq_norm_cos N.m02 N.m12
  have s4 := im_eq_norm_sin N.m02 N.m12
  rw [r4] at c4 s4
  have c6 := re_eq_norm_cos (-N.m20) N.m21
  have s6 := im_eq_norm_sin (-N.m20) N.m21
  rw [r6] at c6 s6
  refine rce_of_zyz N hN (by rw [← s5]; exact hs5.ne') (by rw [← c5]; exact n22.symm)
    (by rw [← s5, hss, n22]) (by rw [← s5]; exact c4.symm) (by rw [← s5]; exact s4.symm)
    (by rw [← s5]; exact c6.symm) (by rw [← s5]; exact s6.symm)

/-- W: the rotation of the forward model at a raw candidate is the requested rotation -/
theorem roe_cand {R : M3 ℝ} (hR : IsRot R) (t1 t2 t3 : ℝ)
    (hm : mmOf R t1 (t2 + t3) * mmOf R t1 (t2 + t3) ≠ 1) : roe (cand R t1 t2 t3) = R := by
  have h := wristSol_spec hR t1 t2 t3 hm
  show (r0c (Real.sin t1) (Real.cos t1) (Real.sin t2) (Real.cos t2) (Real.sin t3) (Real.cos t3)).mul
    (rce _ _ _ _ _ _) = R
  exact (congrArg _ h).trans (r0c_mul_wristTarget R t1 t2 t3)

/-! ### The wrist condition in terms of the computed `θ5` -/

theorem cand_j5 (R : M3 ℝ) (t1 t2 t3 : ℝ) :
    (cand R t1 t2 t3).j5 =
      Complex.arg ⟨mmOf R t1 (t2 + t3),
        Real.sqrt (1 - mmOf R t1 (t2 + t3) * mmOf R t1 (t2 + t3))⟩ := by
  unfold mmOf
  simp only [cand, wristSol, natan2_real, nsqrt_real, nsin_real, ncos_real, lit1]

/-- `sin θ5 ≠ 0` for the computed `θ5` says `cos² θ5 ≠ 1` for the `(3,3)` entry -/
theorem mm_ne_of_sin_j5 (R : M3 ℝ) (t1 t2 t3 : ℝ) (h : Real.sin (cand R t1 t2 t3).j5 ≠ 0) :
    mmOf R t1 (t2 + t3) * mmOf R t1 (t2 + t3) ≠ 1 := by
  intro h1
  apply h
  rw [cand_j5, h1, sub_self, Real.sqrt_zero, Complex.sin_arg]
  simp

theorem sin_j5_of_mm_ne {R : M3 ℝ} (hR : IsRot R) (t1 t2 t3 : ℝ)
    (h : mmOf R t1 (t2 + t3) * mmOf R t1 (t2 + t3) ≠ 1) : Real.sin (cand R t1 t2 t3).j5 ≠ 0 := by
  have hle := mmOf_sq_le_one hR t1 t2 t3
  rw [cand_j5]
  set mm := mmOf R t1 (t2 + t3)
  have hpos : 0 < 1 - mm * mm := lt_of_le_of_ne (by linarith) (fun h' => h (by linarith))
  have hs5 : 0 < Real.sqrt (1 - mm * mm) := Real.sqrt_pos.mpr hpos
  have hss := Real.mul_self_sqrt hpos.le
  have s5 := im_eq_norm_sin mm (Real.sqrt (1 - mm * mm))
  rw [hss, show mm * mm + (1 - mm * mm) = 1 by ring, Real.sqrt_one, one_mul] at s5
  rw [← s5]; exact hs5.ne'

/-! ### F. Assembly -/

/-- the requested translation is the wrist centre plus `c4` along the tool axis -/
theorem wc_add (p : Params ℝ) (pose : Iso ℝ) :
    (wc p pose).add ((M3.scaleL p.c4 pose.q.toMat).mulVec V3.ez) = pose.t := by
  unfold wc
  generalize pose.q.toMat = M
  apply V3.ext' <;> simp only [V3.sub, V3.add, M3.mulVec, M3.scaleL, V3.ez, lit0, lit1] <;> ring

/-- right wrist centre and right rotation: the forward model returns the pose -/
theorem forwardTheta_of_parts (p : Params ℝ) (pose : Iso ℝ) {θ : J6 ℝ}
    (harm : wcθ p θ = wc p pose) (hrot : roe θ = pose.q.toMat) :
    forwardTheta p θ = (pose.q.toMat, pose.t) := by
  apply Prod.ext
  · rw [forwardTheta_fst]; exact hrot
  · rw [forwardTheta_snd, harm, hrot]; exact wc_add p pose

/-- a raw candidate with the right wrist centre and `sin θ5 ≠ 0` reproduces the pose, and so does
its wrist-flipped twin -/
theorem forwardTheta_cand (p : Params ℝ) (pose : Iso ℝ) (hq : pose.q.normSq = 1) {t1 t2 t3 : ℝ}
    (harm : wcθ p (cand pose.q.toMat t1 t2 t3) = wc p pose)
    (h5 : Real.sin (cand pose.q.toMat t1 t2 t3).j5 ≠ 0) :
    forwardTheta p (cand pose.q.toMat t1 t2 t3) = (pose.q.toMat, pose.t) :=
  forwardTheta_of_parts p pose harm
    (roe_cand (IsRot_toMat _ hq) t1 t2 t3 (mm_ne_of_sin_j5 _ t1 t2 t3 h5))

theorem forwardTheta_cand_flip (p : Params ℝ) (pose : Iso ℝ) (hq : pose.q.normSq = 1) {t1 t2 t3 : ℝ}
    (harm : wcθ p (cand pose.q.toMat t1 t2 t3) = wc p pose)
    (h5 : Real.sin (flipG (cand pose.q.toMat t1 t2 t3)).j5 ≠ 0) :
    forwardTheta p (flipG (cand pose.q.toMat t1 t2 t3)) = (pose.q.toMat, pose.t) := by
  rw [flipG_eq, forwardTheta_flip']
  refine forwardTheta_cand p pose hq harm ?_
  intro h0
  apply h5
  show Real.sin (-(cand pose.q.toMat t1 t2 t3).j5) = 0
  rw [Real.sin_neg, h0, neg_zero]

/-- the arm condition of the `i`-th raw candidate (rows 0, 1, 4, 5: front shoulder; rows 2, 3, 6, 7:
back shoulder) -/
def ArmCond (p : Params ℝ) (pose : Iso ℝ) : ℕ → Prop
  | 0 | 1 | 4 | 5 => FrontReach p (wc p pose)
  | 2 | 3 | 6 | 7 => BackReach p (wc p pose)
  | _ => True

/-- arm part, by index -/
theorem arm_sound_idx (p : Params ℝ) (pose : Iso ℝ) (hc : 0 < p.c2) (hk : 0 < kappa p) (i : ℕ) (t : J6 ℝ)
    (ht : (thetaCandidates p pose)[i]? = some t) (ha : ArmCond p pose i) :
    wcθ p t = wc p pose := by
  rw [thetaCandidates_eq] at ht
  match i, ha with
  | 0, ha => cases ht; exact arm_row1 p _ _ hc hk ha
  | 1, ha => cases ht; exact arm_row2 p _ _ hc hk ha
  | 2, ha => cases ht; exact arm_row3 p _ _ hc hk ha
  | 3, ha => cases ht; exact arm_row4 p _ _ hc hk ha
  | 4, ha => cases ht; exact (wcθ_flip p _).trans (arm_row1 p _ _ hc hk ha)
  | 5, ha => cases ht; exact (wcθ_flip p _).trans (arm_row2 p _ _ hc hk ha)
  | 6, ha => cases ht; exact (wcθ_flip p _).trans (arm_row3 p _ _ hc hk ha)
  | 7, ha => cases ht; exact (wcθ_flip p _).trans (arm_row4 p _ _ hc hk ha)
  | n + 8, _ => cases ht

/-- wrist part, for every raw candidate -/
theorem wrist_sound_mem (p : Params ℝ) (pose : Iso ℝ) (hq : pose.q.normSq = 1) (t : J6 ℝ)
    (ht : t ∈ thetaCandidates p pose) (h5 : Real.sin t.j5 ≠ 0) : roe t = pose.q.toMat := by
  have hR := IsRot_toMat _ hq
  have key : ∀ t1 t2 t3, Real.sin (cand pose.q.toMat t1 t2 t3).j5 ≠ 0 →
      roe (cand pose.q.toMat t1 t2 t3) = pose.q.toMat :=
    fun t1 t2 t3 h => roe_cand hR t1 t2 t3 (mm_ne_of_sin_j5 _ t1 t2 t3 h)
  have keyf : ∀ t1 t2 t3, Real.sin (flipG (cand pose.q.toMat t1 t2 t3)).j5 ≠ 0 →
      roe (flipG (cand pose.q.toMat t1 t2 t3)) = pose.q.toMat := by
    intro t1 t2 t3 h
    have e : roe (flipG (cand pose.q.toMat t1 t2 t3)) = roe (cand pose.q.toMat t1 t2 t3) := by
      rw [← forwardTheta_fst p, ← forwardTheta_fst p, flipG_eq, forwardTheta_flip']
    rw [e]
    refine key t1 t2 t3 (fun h0 => h ?_)
    show Real.sin (-(cand pose.q.toMat t1 t2 t3).j5) = 0
    rw [Real.sin_neg, h0, neg_zero]
  rw [thetaCandidates_eq] at ht
  simp only [List.mem_cons, List.not_mem_nil, or_false] at ht
  rcases ht with rfl | rfl | rfl | rfl | rfl | rfl | rfl | rfl
  · exact key _ _ _ h5
  · exact key _ _ _ h5
  · exact key _ _ _ h5
  · exact key _ _ _ h5
  · exact keyf _ _ _ h5
  · exact keyf _ _ _ h5
  · exact keyf _ _ _ h5
  · exact keyf _ _ _ h5

/-- both parts, by index: the `i`-th raw candidate reproduces the pose under `forwardTheta` -/
theorem candidate_sound_idx (p : Params ℝ) (pose : Iso ℝ) (hc : 0 < p.c2) (hk : 0 < kappa p)
    (hq : pose.q.normSq = 1) (i : ℕ) (t : J6 ℝ) (ht : (thetaCandidates p pose)[i]? = some t)
    (ha : ArmCond p pose i) (h5 : Real.sin t.j5 ≠ 0) :
    forwardTheta p t = (pose.q.toMat, pose.t) :=
  forwardTheta_of_parts p pose (arm_sound_idx p pose hc hk i t ht ha)
    (wrist_sound_mem p pose hq t (List.mem_of_getElem? ht) h5)

/-! ### Q. Back to joint space; the cross-check -/

/-- the forward pose of the joint vector built from a θ vector that reproduces the pose -/
theorem forward_jointsOf_eq (p : Params ℝ) (hs : SignsOk p) (pose : Iso ℝ) {t : J6 ℝ}
    (h : forwardTheta p t = (pose.q.toMat, pose.t)) :
    forward p (jointsOf p t) = ⟨pose.t, Quat.ofMat pose.q.toMat⟩ := by
  rw [forward_eq, thetaOf_jointsOf p hs, h]

theorem Quat.neg_mul (a b : Quat ℝ) : (a.neg).mul b = (a.mul b).neg := by
  apply Quat.ext' <;> simp only [Quat.mul, Quat.neg] <;> ring

theorem angleTo_self (q : Quat ℝ) (hq : q.normSq = 1) : Quat.angleTo q q = 0 := by
  unfold Quat.angleTo Quat.rotationTo
  rw [Quat.mul_conj_self _ hq]
  simp [Quat.angle, Quat.one, Quat.imag, V3.norm, V3.normSq, V3.dot, lit0, lit1, lit2,
    Nearest.arg_mk_im_zero]

theorem angleTo_neg (q : Quat ℝ) (hq : q.normSq = 1) : Quat.angleTo q q.neg = 0 := by
  unfold Quat.angleTo Quat.rotationTo
  rw [Quat.neg_mul, Quat.mul_conj_self _ hq]
  simp [Quat.angle, Quat.one, Quat.neg, Quat.imag, V3.norm, V3.normSq, V3.dot, lit0, lit1, lit2,
    Nearest.arg_mk_im_zero]

/-- two unit quaternions with the same rotation matrix are at angle `0` -/
theorem angleTo_of_toMat_eq (a b : Quat ℝ) (ha : a.normSq = 1) (hb : b.normSq = 1)
    (h : a.toMat = b.toMat) : Quat.angleTo a b = 0 := by
  rcases Quat.eq_or_eq_neg_of_toMat_eq b a hb ha h.symm with e | e
  · rw [e]; exact angleTo_self a ha
  · rw [e]; exact angleTo_neg a ha

/-- the same rigid motion passes `compare_poses` (error `0` in both parts) -/
theorem comparePoses_of_same (a b : Iso ℝ) (ha : a.q.normSq = 1) (hb : b.q.normSq = 1)
    (h : Iso.Same a b) {dT aT : ℝ} (hd : 0 ≤ dT) (hA : 0 ≤ aT) : comparePoses a b dT aT = true := by
  rw [SoundReal.comparePoses_iff, h.1, angleTo_of_toMat_eq a.q b.q ha hb h.2, abs_zero]
  refine ⟨?_, hA⟩
  have : (b.t.sub b.t).norm = 0 := by simp [V3.norm, V3.normSq, V3.dot, V3.sub]
  rw [this]; exact hd

/-- what the solver does with a raw candidate that reproduces the pose: same rigid motion, the
normalisation keeps the forward pose, the cross-check passes -/
theorem finish_of_forwardTheta (p : Params ℝ) (hs : SignsOk p) (pose : Iso ℝ) (hq : pose.q.normSq = 1)
    {t : J6 ℝ} (h : forwardTheta p t = (pose.q.toMat, pose.t)) :
    Iso.Same (forward p (jointsOf p t)) pose ∧
      forward p ((jointsOf p t).map normPi) = forward p (jointsOf p t) ∧
      finishCandidate p pose (jointsOf p t) = some ((jointsOf p t).map normPi) := by
  have hR := IsRot_toMat _ hq
  have e := forward_jointsOf_eq p hs pose h
  have hsame : Iso.Same (forward p (jointsOf p t)) pose := by
    rw [e]; exact ⟨rfl, Quat.toMat_ofMat _ hR⟩
  have hn := forward_map_normPi p hs (jointsOf p t)
  refine ⟨hsame, hn, finishCandidate_eq_some.mpr ⟨allFinite_real _, rfl, ?_⟩⟩
  unfold Sound
  rw [hn]
  refine comparePoses_of_same _ _ hq ?_ hsame.symm Nearest.distTol_nonneg Nearest.angTol_nonneg
  rw [e]; exact Quat.normSq_ofMat _ hR

theorem filterMap_eq_map_of_forall {α β : Type} (f : α → Option β) (g : α → β) :
    ∀ l : List α, (∀ a ∈ l, f a = some (g a)) → l.filterMap f = l.map g
  | [], _ => rfl
  | a :: l, h => by
    rw [List.filterMap_cons_some (h a List.mem_cons_self), List.map_cons,
      filterMap_eq_map_of_forall f g l (fun b hb => h b (List.mem_cons_of_mem _ hb))]

/-! ### The 5-DOF solver: tool axis and tool point -/

theorem roe_ez (θ : J6 ℝ) :
    (roe θ).mulVec V3.ez =
      (r0c (Real.sin θ.j1) (Real.cos θ.j1) (Real.sin θ.j2) (Real.cos θ.j2) (Real.sin θ.j3)
        (Real.cos θ.j3)).mulVec ⟨Real.cos θ.j4 * Real.sin θ.j5, Real.sin θ.j4 * Real.sin θ.j5,
          Real.cos θ.j5⟩ := by
  unfold roe
  rw [M3.mulVec_mulVec]
  congr 1
  apply V3.ext' <;> simp only [rce, M3.mulVec, V3.ez, lit0, lit1] <;> ring

/-- the tool axis does not depend on `θ6`, and on `θ1 … θ5` only modulo whole turns -/
theorem roe_ez_congr5 {a b : J6 ℝ} (h : Corollaries.J5TurnEq a b) :
    (roe a).mulVec V3.ez = (roe b).mulVec V3.ez := by
  obtain ⟨h1, h2, h3, h4, h5⟩ := h
  rw [roe_ez, roe_ez, h1.sin_eq, h1.cos_eq, h2.sin_eq, h2.cos_eq, h3.sin_eq, h3.cos_eq, h4.sin_eq,
    h4.cos_eq, h5.sin_eq, h5.cos_eq]

/-- the 5-DOF answer built from a raw candidate that reproduces the pose: it is returned, and has
exactly the requested tool point and tool axis, whatever `j6` -/
theorem finish5_of_forwardTheta (p : Params ℝ) (hs : SignsOk p) (pose : Iso ℝ) (j6 : ℝ) {t : J6 ℝ}
    (h : forwardTheta p t = (pose.q.toMat, pose.t)) :
    finishCandidate5 p pose j6 (jointsOf p t) = some (norm5 (jointsOf p t) j6) ∧
      (forward p (norm5 (jointsOf p t) j6)).t = pose.t ∧
      (forward p (norm5 (jointsOf p t) j6)).q.toMat.mulVec V3.ez = pose.q.toMat.mulVec V3.ez := by
  have h5 := Corollaries.thetaOf_norm5_turnEq p hs t j6
  have ht : (forward p (norm5 (jointsOf p t) j6)).t = pose.t := by
    show (forwardTheta p (thetaOf p (norm5 (jointsOf p t) j6))).2 = _
    rw [Corollaries.forwardTheta_tr_congr5 p h5, h]
  refine ⟨?_, ht, ?_⟩
  · refine finishCandidate5_eq_some.mpr ⟨Corollaries.first5Finite_real _, rfl, ?_⟩
    unfold Sound5
    rw [ht]
    exact Corollaries.compareXyz_self _ Nearest.distTol_nonneg
  · show (Quat.ofMat (forwardTheta p (thetaOf p (norm5 (jointsOf p t) j6))).1).toMat.mulVec V3.ez = _
    rw [forwardTheta_fst, Quat.toMat_ofMat _ (IsRot_roe _), roe_ez_congr5 h5, ← forwardTheta_fst p, h]

/-! ### All branch conditions at once -/

theorem armCond_of_reach {p : Params ℝ} {pose : Iso ℝ} (hf : FrontReach p (wc p pose))
    (hb : BackReach p (wc p pose)) (i : ℕ) : ArmCond p pose i := by
  unfold ArmCond
  split <;> first | exact hf | exact hb | trivial

/-- both shoulders reach: every raw candidate with `sin θ5 ≠ 0` reproduces the pose -/
theorem candidate_sound_mem (p : Params ℝ) (pose : Iso ℝ) (hc : 0 < p.c2) (hk : 0 < kappa p)
    (hq : pose.q.normSq = 1) (hf : FrontReach p (wc p pose)) (hb : BackReach p (wc p pose))
    (t : J6 ℝ) (ht : t ∈ thetaCandidates p pose) (h5 : Real.sin t.j5 ≠ 0) :
    forwardTheta p t = (pose.q.toMat, pose.t) := by
  obtain ⟨i, hi⟩ := List.getElem?_of_mem ht
  exact candidate_sound_idx p pose hc hk hq i t hi (armCond_of_reach hf hb i) h5

theorem thetaCandidates_length (p : Params ℝ) (pose : Iso ℝ) : (thetaCandidates p pose).length = 8 := rfl

/-! ### Remarks on the branch conditions -/

/-- no separate hypothesis on the shoulder `acos` (`tmp13`, `tmp15`) is needed: with the elbow ratio
in `[−1, 1]` its argument lies in `[−1, 1]` too -/
theorem shoulder_ratio_range (c2 κ s : ℝ) (hc : 0 < c2) (hk : 0 < κ) (hs : 0 < s)
    (hb1 : -1 ≤ (s - c2 * c2 - κ * κ) / (2 * c2 * κ)) (hb2 : (s - c2 * c2 - κ * κ) / (2 * c2 * κ) ≤ 1) :
    -1 ≤ (s + c2 * c2 - κ * κ) / (2 * Real.sqrt s * c2) ∧
      (s + c2 * c2 - κ * κ) / (2 * Real.sqrt s * c2) ≤ 1 := by
  have hS := Real.sq_sqrt hs.le
  have hpos : 0 < Real.sqrt s := Real.sqrt_pos.mpr hs
  set S := Real.sqrt s
  have hden : 0 < 2 * S * c2 := by positivity
  have hck : 0 < 2 * c2 * κ := by positivity
  rw [le_div_iff₀ hck] at hb1
  rw [div_le_iff₀ hck] at hb2
  rw [le_div_iff₀ hden, div_le_iff₀ hden]
  -- (S ± c2)² ≥ κ² … from |c2 − κ| ≤ S ≤ c2 + κ
  constructor
  · nlinarith [sq_nonneg (S + c2 - κ), sq_nonneg (S + c2 + κ), sq_nonneg (S + c2)]
  · nlinarith [sq_nonneg (S - c2 - κ), sq_nonneg (S - c2 + κ), sq_nonneg (S - c2)]

/-- the pose of a configuration with the wrist centre in front of the J1 axis is reachable by the
front shoulder (link to the completeness theorem) -/
theorem frontReach_poseOf (p : Params ℝ) (θ : J6 ℝ) (hc : 0 < p.c2) (hk : 0 < kappa p)
    (h : 0 < cx1 p θ) : FrontReach p (wc p (poseOf p θ)) := by
  rw [wc_poseOf]
  refine ⟨by rw [wc_sq]; positivity, ?_, ?_⟩
  · rw [s1sq_front p θ h, elbow_ratio p θ hc hk]; exact Real.neg_one_le_cos _
  · rw [s1sq_front p θ h, elbow_ratio p θ hc hk]; exact Real.cos_le_one _

theorem backReach_poseOf (p : Params ℝ) (θ : J6 ℝ) (hc : 0 < p.c2) (hk : 0 < kappa p)
    (h : cx1 p θ < 0) : BackReach p (wc p (poseOf p θ)) := by
  rw [wc_poseOf]
  refine ⟨by rw [wc_sq]; positivity, ?_, ?_⟩
  · rw [s2sq_back p θ h, elbow_ratio p θ hc hk]; exact Real.neg_one_le_cos _
  · rw [s2sq_back p θ h, elbow_ratio p θ hc hk]; exact Real.cos_le_one _

/-! ### A concrete instance: all branch conditions hold (used for the `example`s of C02d)

Robot with `a1 = 1/2`, `a2 = 3/5`, `b = 0`, `c1 = 1/2`, `c2 = 1`, `c3 = 4/5`, `c4 = 1/4`, mixed signs and
offsets; pose with the tool tilted about `x` (quaternion `(3/5, −4/5, 0, 0)`), wrist centre
`(1, 0, 3/2)`: front elbow ratio `−3/8`, back elbow ratio `5/8`, `cos θ5 = −(7/25) cos θ23` in all rows. -/

noncomputable def pX : Params ℝ :=
  { a1 := 1 / 2, a2 := 3 / 5, b := 0, c1 := 1 / 2, c2 := 1, c3 := 4 / 5, c4 := 1 / 4,
    offsets := ⟨0, 0.3, 0, -0.2, 0, 1⟩, signs := ⟨1, 1, -1, -1, 1, -1⟩, dof := 6 }

noncomputable def poseX : Iso ℝ := ⟨⟨1, 6 / 25, 143 / 100⟩, ⟨3 / 5, -4 / 5, 0, 0⟩⟩

theorem signsOk_pX : SignsOk pX :=
  ⟨Or.inl rfl, Or.inl rfl, Or.inr rfl, Or.inr rfl, Or.inl rfl, Or.inr rfl⟩

theorem poseX_unit : poseX.q.normSq = 1 := by
  simp only [poseX, Quat.normSq]; norm_num

theorem c2_pX : 0 < pX.c2 := by simp only [pX]; norm_num

theorem kappa2_pX : kappa2 pX = 1 := by
  show pX.a2 * pX.a2 + pX.c3 * pX.c3 = 1
  simp only [pX]; norm_num

theorem kappa_pX : kappa pX = 1 := by
  show Real.sqrt (kappa2 pX) = 1
  rw [kappa2_pX, Real.sqrt_one]

theorem tmp9_pX : tmp9 pX = 2 := by
  rw [tmp9_eq, kappa_pX]; simp only [pX]; norm_num

theorem toMat_poseX : poseX.q.toMat = ⟨1, 0, 0, 0, -7 / 25, 24 / 25, 0, -24 / 25, -7 / 25⟩ := by
  apply M3.ext' <;> simp only [poseX, Quat.toMat, lit2] <;> norm_num

theorem wc_poseX : wc pX poseX = ⟨1, 0, 3 / 2⟩ := by
  unfold wc
  rw [toMat_poseX]
  apply V3.ext' <;> simp only [poseX, pX, V3.sub, M3.mulVec, V3.ez, lit0, lit1] <;> norm_num

theorem nx1_pX : nx1 pX ⟨1, 0, 3 / 2⟩ = 1 / 2 := by
  show Real.sqrt ((1 * 1 + 0 * 0) - pX.b * pX.b) - pX.a1 = 1 / 2
  simp only [pX]
  rw [show (1 * 1 + 0 * 0 : ℝ) - 0 * 0 = 1 by norm_num, Real.sqrt_one]; norm_num

theorem s1sq_pX : s1sq pX ⟨1, 0, 3 / 2⟩ = 5 / 4 := by
  unfold s1sq; rw [nx1_pX]; simp only [pX]; norm_num

theorem s2sq_pX : s2sq pX ⟨1, 0, 3 / 2⟩ = 13 / 4 := by
  unfold s2sq; rw [nx1_pX, lit2]; simp only [pX]; norm_num

theorem frontReach_X : FrontReach pX (wc pX poseX) := by
  rw [wc_poseX]; unfold FrontReach
  rw [s1sq_pX, kappa2_pX, tmp9_pX]
  simp only [pX]; norm_num

theorem backReach_X : BackReach pX (wc pX poseX) := by
  rw [wc_poseX]; unfold BackReach
  rw [s2sq_pX, kappa2_pX, tmp9_pX]
  simp only [pX]; norm_num

theorem armCond_X (i : ℕ) : ArmCond pX poseX i := armCond_of_reach frontReach_X backReach_X i

theorem th1i_X : th1i pX (wc pX poseX) = 0 := by
  rw [wc_poseX]; unfold th1i; rw [nx1_pX]
  simp only [natan2_real, pX]
  rw [Nearest.arg_mk_im_zero 1 (by norm_num), Nearest.arg_mk_im_zero _ (by norm_num)]; ring

theorem th1ii_X : th1ii pX (wc pX poseX) = -Real.pi := by
  rw [wc_poseX]; unfold th1ii; rw [nx1_pX]
  simp only [natan2_real, pX, pi_def_real]
  rw [Nearest.arg_mk_im_zero 1 (by norm_num), Nearest.arg_mk_im_zero _ (by norm_num)]; ring

/-- in every row the tool axis is away from the forearm axis: `cos² θ5 ≤ 49/625` -/
theorem mm_X (t1 t23 : ℝ) (h1 : Real.sin t1 = 0) :
    mmOf poseX.q.toMat t1 t23 * mmOf poseX.q.toMat t1 t23 ≠ 1 := by
  rw [toMat_poseX]
  simp only [mmOf, h1]
  have := Real.cos_sq_le_one t23
  intro h
  nlinarith

theorem wristCond_X : ∀ t ∈ thetaCandidates pX poseX, Real.sin t.j5 ≠ 0 := by
  have hR := IsRot_toMat _ poseX_unit
  have s1 : Real.sin (th1i pX (wc pX poseX)) = 0 := by rw [th1i_X, Real.sin_zero]
  have s2 : Real.sin (th1ii pX (wc pX poseX)) = 0 := by rw [th1ii_X, Real.sin_neg, Real.sin_pi, neg_zero]
  have key : ∀ t1 t2 t3, Real.sin t1 = 0 → Real.sin (cand poseX.q.toMat t1 t2 t3).j5 ≠ 0 :=
    fun t1 t2 t3 h => sin_j5_of_mm_ne hR t1 t2 t3 (mm_X t1 (t2 + t3) h)
  have keyf : ∀ t1 t2 t3, Real.sin t1 = 0 → Real.sin (flipG (cand poseX.q.toMat t1 t2 t3)).j5 ≠ 0 := by
    intro t1 t2 t3 h
    show Real.sin (-(cand poseX.q.toMat t1 t2 t3).j5) ≠ 0
    rw [Real.sin_neg]; exact neg_ne_zero.mpr (key t1 t2 t3 h)
  intro t ht
  rw [thetaCandidates_eq] at ht
  simp only [List.mem_cons, List.not_mem_nil, or_false] at ht
  rcases ht with rfl | rfl | rfl | rfl | rfl | rfl | rfl | rfl
  · exact key _ _ _ s1
  · exact key _ _ _ s1
  · exact key _ _ _ s2
  · exact key _ _ _ s2
  · exact keyf _ _ _ s1
  · exact keyf _ _ _ s1
  · exact keyf _ _ _ s2
  · exact keyf _ _ _ s2

end Opw.IkSound
