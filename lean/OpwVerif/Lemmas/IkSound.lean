/-
  Lemmas for C02d (analytic SOUNDNESS of the closed-form inverse kinematics), real arithmetic.

  For an arbitrary pose with a unit quaternion, every one of the eight raw candidates
  `thetaCandidates p pose` whose branch conditions hold reproduces the pose under the forward model.

  Stages (every one a compiled lemma, nothing left open):
  * P   planar two-link geometry (`two_link`, `elbow_polar`, `planar_front_up`, …);
  * A   the arm rows: `arm_row1 … arm_row4` (wrist centre of the forward model = wrist centre of
        the pose);
  * W   the wrist: ZYZ decomposition of a rotation matrix (`rce_of_zyz`), `roe_cand`;
  * F   assembly (`forwardTheta_cand`, flipped twins, lift through `jointsOf`);
  * Q   `angleTo` of unit quaternions with the same matrix is `0`, the cross-check passes.
-/
import OpwVerif.Lemmas.IkComplete
import OpwVerif.Lemmas.Corollaries
import OpwVerif.Lemmas.Stack

attribute [-simp] Opw.ofNatLit_real

namespace Opw.IkSound
open Opw Opw.Wrist Opw.C02 Opw.IkComplete

/-! ### P. Planar two-link geometry -/

/-- two links `c2`, `κ` with elbow angle `B`; if the elbow–wrist vector in the frame of the upper
arm is `S e^{iA}`, then turning the upper arm to `t − A` puts the wrist at `S e^{it}` -/
theorem two_link (c2 κ S A B t : ℝ) (h1 : c2 + κ * Real.cos B = S * Real.cos A)
    (h2 : κ * Real.sin B = S * Real.sin A) :
    c2 * Real.cos (t - A) + κ * Real.cos (t - A + B) = S * Real.cos t ∧
      c2 * Real.sin (t - A) + κ * Real.sin (t - A + B) = S * Real.sin t := by
  have ec : Real.cos t = Real.cos A * Real.cos (t - A) - Real.sin A * Real.sin (t - A) := by
    rw [← Real.cos_add]; congr 1; ring
  have es : Real.sin t = Real.sin A * Real.cos (t - A) + Real.cos A * Real.sin (t - A) := by
    rw [← Real.sin_add]; congr 1; ring
  constructor
  · rw [Real.cos_add, ec]
    linear_combination Real.cos (t - A) * h1 - Real.sin (t - A) * h2
  · rw [Real.sin_add, es]
    linear_combination Real.sin (t - A) * h1 + Real.cos (t - A) * h2

/-- the elbow ratio in `[−1, 1]` makes the triangle close: with `B = arccos` of the elbow ratio and
`A = arccos` of the shoulder ratio, `c2 + κ e^{iB} = √s e^{iA}` (also when `s = 0`) -/
theorem elbow_polar (c2 κ s : ℝ) (hc : 0 < c2) (hk : 0 < κ) (hs : 0 ≤ s)
    (hb1 : -1 ≤ (s - c2 * c2 - κ * κ) / (2 * c2 * κ)) (hb2 : (s - c2 * c2 - κ * κ) / (2 * c2 * κ) ≤ 1) :
    c2 + κ * Real.cos (Real.arccos ((s - c2 * c2 - κ * κ) / (2 * c2 * κ))) =
        Real.sqrt s * Real.cos (Real.arccos ((s + c2 * c2 - κ * κ) / (2 * Real.sqrt s * c2))) ∧
      κ * Real.sin (Real.arccos ((s - c2 * c2 - κ * κ) / (2 * c2 * κ))) =
        Real.sqrt s * Real.sin (Real.arccos ((s + c2 * c2 - κ * κ) / (2 * Real.sqrt s * c2))) := by
  set bb := (s - c2 * c2 - κ * κ) / (2 * c2 * κ) with hbb
  have hcosB : Real.cos (Real.arccos bb) = bb := Real.cos_arccos hb1 hb2
  have hsinB0 : 0 ≤ Real.sin (Real.arccos bb) := Real.sin_arccos bb ▸ Real.sqrt_nonneg _
  have hsc := Real.sin_sq_add_cos_sq (Real.arccos bb)
  rw [hcosB] at hsc ⊢
  set w := κ * Real.sin (Real.arccos bb) with hw
  have hw0 : 0 ≤ w := mul_nonneg hk.le hsinB0
  have hu : c2 + κ * bb = (s + c2 * c2 - κ * κ) / (2 * c2) := by
    rw [hbb]; field_simp; ring
  -- law of cosines: u² + w² = s
  have hlaw : (c2 + κ * bb) ^ 2 + w ^ 2 = s := by
    have e : 2 * c2 * κ * bb = s - c2 * c2 - κ * κ := by rw [hbb]; field_simp
    have : w ^ 2 = κ ^ 2 * (1 - bb ^ 2) := by rw [hw]; linear_combination κ ^ 2 * hsc
    rw [this]; linear_combination e
  have hS := Real.sq_sqrt hs
  rcases (Real.sqrt_nonneg s).eq_or_lt with h0 | hpos
  · -- degenerate: s = 0
    have hs0 : s = 0 := by rw [← hS, ← h0]; ring
    rw [← h0]
    have hu0 : c2 + κ * bb = 0 := by nlinarith [sq_nonneg (c2 + κ * bb), sq_nonneg w]
    have hw00 : w = 0 := by nlinarith [sq_nonneg (c2 + κ * bb), sq_nonneg w]
    exact ⟨by rw [hu0]; ring, by rw [hw00]; ring⟩
  · set S := Real.sqrt s with hSdef
    have ha : (s + c2 * c2 - κ * κ) / (2 * S * c2) = (c2 + κ * bb) / S := by
      rw [hu]; field_simp
    rw [ha]
    set u := c2 + κ * bb with hudef
    have hle : u ^ 2 ≤ S ^ 2 := by rw [hS, ← hlaw]; nlinarith [sq_nonneg w]
    have habs : |u| ≤ S := abs_le_of_sq_le_sq' hle hpos.le |> fun h => abs_le.mpr h
    have ha1 : -1 ≤ u / S := by
      rw [le_div_iff₀ hpos]; have := (abs_le.mp habs).1; linarith
    have ha2 : u / S ≤ 1 := by
      rw [div_le_iff₀ hpos]; have := (abs_le.mp habs).2; linarith
    have hcosA : Real.cos (Real.arccos (u / S)) = u / S := Real.cos_arccos ha1 ha2
    have hsinA0 : 0 ≤ Real.sin (Real.arccos (u / S)) := Real.sin_arccos (u / S) ▸ Real.sqrt_nonneg _
    have hscA := Real.sin_sq_add_cos_sq (Real.arccos (u / S))
    rw [hcosA] at hscA ⊢
    refine ⟨by field_simp, ?_⟩
    have h1 : 0 ≤ S * Real.sin (Real.arccos (u / S)) := mul_nonneg hpos.le hsinA0
    have hsq : w ^ 2 = (S * Real.sin (Real.arccos (u / S))) ^ 2 := by
      have e1 : (S * Real.sin (Real.arccos (u / S))) ^ 2 = S ^ 2 - u ^ 2 := by
        have : Real.sin (Real.arccos (u / S)) ^ 2 = 1 - (u / S) ^ 2 := by linear_combination hscA
        rw [mul_pow, this]; field_simp
      rw [e1, hS]; linear_combination hlaw
    exact (sq_eq_sq₀ hw0 h1).mp hsq

end Opw.IkSound
