/-
  Helper lemmas for the corollary properties C04b (trajectory following), C06b (the 5-DOF solvers
  reproduce the originating J1..J5) and C08b (`inverse_continuing` with limits keeps every compliant
  solution of the run without limits).

  Sections A–C are the real-arithmetic reading (`R := ℝ`); section D is GENERIC
  (`{R : Type} [OpwNum R]`, list/control-structure reasoning only).
-/
import OpwVerif.Lemmas.IkComplete
import OpwVerif.Props.C04

attribute [-simp] Opw.ofNatLit_real

namespace Opw.Corollaries
open Opw Opw.Wrist Opw.C02 Opw.IkComplete

/-! ### A. `normalize_near` leaves an angle that is already next to `prev` alone -/

/-- one pass of `adjust`: within `π` of `prev` and not `±π` itself — nothing happens -/
theorem adjustNear_of_close (now prev : ℝ) (h : |now - prev| ≤ Real.pi) (hn : |now| ≠ Real.pi) :
    adjustNear now prev = now := by
  rw [Nearest.adjustNear_eq, Nearest.adj12_of_close now prev h, if_neg]
  unfold Nearest.flips
  exact fun hf => hn hf.1

theorem normalizeNear_of_close (now prev : ℝ) (h : |now - prev| ≤ Real.pi) (hn : |now| ≠ Real.pi) :
    normalizeNear now prev = now := by
  unfold normalizeNear
  rw [adjustNear_of_close now prev h hn, adjustNear_of_close now prev h hn]

/-- a joint vector strictly inside `(−π, π)` whose every joint is within `π` of the previous one is
its own nearest representative -/
theorem J6_normalizeNear_of_close (q prev : J6 ℝ) (hin : InsidePi q)
    (hw : Nearest.within q prev Real.pi) : q.normalizeNear prev = q := by
  obtain ⟨i1, i2, i3, i4, i5, i6⟩ := hin
  obtain ⟨w1, w2, w3, w4, w5, w6⟩ := hw
  exact J6.ext' (normalizeNear_of_close _ _ w1 i1.ne) (normalizeNear_of_close _ _ w2 i2.ne)
    (normalizeNear_of_close _ _ w3 i3.ne) (normalizeNear_of_close _ _ w4 i4.ne)
    (normalizeNear_of_close _ _ w5 i5.ne) (normalizeNear_of_close _ _ w6 i6.ne)

theorem within_self (q : J6 ℝ) : Nearest.within q q Real.pi := by
  have h : ∀ x : ℝ, |x - x| ≤ Real.pi := fun x => by rw [sub_self, abs_zero]; exact Real.pi_pos.le
  exact ⟨h _, h _, h _, h _, h _, h _⟩

/-! ### B. Heads of cost-sorted lists -/

/-- in a cost-sorted list, a member that is strictly cheaper than every OTHER member is the head -/
theorem head_eq_of_sorted_of_sep {α : Type} (f : α → ℝ) (l : List α)
    (hs : l.Pairwise (fun a b => f a ≤ f b)) {q : α} (hq : q ∈ l)
    (hsep : ∀ s ∈ l, s ≠ q → f q < f s) : l.head? = some q := by
  cases l with
  | nil => cases hq
  | cons h t =>
    show some h = some q
    congr 1
    by_contra hne
    have h1 := hsep h List.mem_cons_self hne
    have h2 : f h ≤ f q := by
      rcases List.mem_cons.mp hq with e | hq'
      · rw [e]
      · exact (List.pairwise_cons.mp hs).1 q hq'
    linarith

/-- the head of a cost-sorted list is a cheapest member -/
theorem head_le_of_sorted {α : Type} (f : α → ℝ) (l : List α)
    (hs : l.Pairwise (fun a b => f a ≤ f b)) {h : α} (hh : l.head? = some h) {x : α} (hx : x ∈ l) :
    f h ≤ f x := by
  obtain ⟨h', hh', hle⟩ := Nearest.head_of_sorted_min f l hs hx
  rw [hh] at hh'
  cases hh'
  exact hle

theorem mem_of_head? {α : Type} {l : List α} {h : α} (hh : l.head? = some h) : h ∈ l := by
  cases l with
  | nil => cases hh
  | cons a t => cases hh; exact List.mem_cons_self

/-! ### C. The 5-DOF solvers: position does not depend on θ6; completeness of `inverse_intern_5_dof` -/

/-- congruence modulo whole turns of the first five joints -/
def J5TurnEq (a b : J6 ℝ) : Prop :=
  TurnEq a.j1 b.j1 ∧ TurnEq a.j2 b.j2 ∧ TurnEq a.j3 b.j3 ∧ TurnEq a.j4 b.j4 ∧ TurnEq a.j5 b.j5

theorem J5TurnEq.refl (a : J6 ℝ) : J5TurnEq a a := ⟨.refl _, .refl _, .refl _, .refl _, .refl _⟩
theorem J5TurnEq.trans {a b c : J6 ℝ} (h : J5TurnEq a b) (g : J5TurnEq b c) : J5TurnEq a c :=
  ⟨h.1.trans g.1, h.2.1.trans g.2.1, h.2.2.1.trans g.2.2.1, h.2.2.2.1.trans g.2.2.2.1,
    h.2.2.2.2.trans g.2.2.2.2⟩
theorem J5TurnEq.symm {a b : J6 ℝ} (h : J5TurnEq a b) : J5TurnEq b a :=
  ⟨h.1.symm, h.2.1.symm, h.2.2.1.symm, h.2.2.2.1.symm, h.2.2.2.2.symm⟩
theorem J5TurnEq.of_J6 {a b : J6 ℝ} (h : J6TurnEq a b) : J5TurnEq a b :=
  ⟨h.1, h.2.1, h.2.2.1, h.2.2.2.1, h.2.2.2.2.1⟩

/-- the translation of `forwardTheta` does not mention `θ6` (`org6` is built from `rot1 … rot5`) -/
theorem forwardTheta_tr_indep_j6 (p : Params ℝ) (θ : J6 ℝ) (x : ℝ) :
    (forwardTheta p { θ with j6 := x }).2 = (forwardTheta p θ).2 := by
  rw [forwardTheta_tr, forwardTheta_tr]
  rfl

/-- … hence it depends on `θ1 … θ5` modulo whole turns only -/
theorem forwardTheta_tr_congr5 (p : Params ℝ) {a b : J6 ℝ} (h : J5TurnEq a b) :
    (forwardTheta p a).2 = (forwardTheta p b).2 := by
  have e : J6TurnEq { a with j6 := b.j6 } b :=
    ⟨h.1, h.2.1, h.2.2.1, h.2.2.2.1, h.2.2.2.2, .refl _⟩
  rw [← forwardTheta_tr_indep_j6 p a b.j6, forwardTheta_congr p e]

/-- the position returned by `forward` depends on the joints only through `θ1 … θ5` modulo turns -/
theorem forward_t_congr5 (p : Params ℝ) {a b : J6 ℝ} (h : J5TurnEq (thetaOf p a) (thetaOf p b)) :
    (forward p a).t = (forward p b).t :=
  forwardTheta_tr_congr5 p h

/-- `compare_xyz_only` of a point with itself -/
theorem compareXyz_self (a : V3 ℝ) {tol : ℝ} (h : 0 ≤ tol) : compareXyz a a tol = true := by
  have e : (a.sub a).norm = 0 := by simp [V3.norm, V3.normSq, V3.dot, V3.sub]
  unfold compareXyz
  rw [e]
  exact decide_eq_true h

/-- θ of the vector `inverse_intern_5_dof` builds from the raw candidate `t`: `t` modulo whole turns
on the first five joints -/
theorem thetaOf_norm5_turnEq (p : Params ℝ) (hs : SignsOk p) (t : J6 ℝ) (j6 : ℝ) :
    J5TurnEq (thetaOf p (norm5 (jointsOf p t) j6)) t := by
  obtain ⟨h1, h2, h3, h4, h5, -⟩ := thetaOf_finish_turnEq p hs t
  exact ⟨h1, h2, h3, h4, h5⟩

theorem first5Finite_real (j : J6 ℝ) : j.first5Finite = true := by
  simp only [J6.first5Finite, fin_real, Bool.and_self]

/-- from θ-space back to joint space, one joint -/
theorem turnEq_of_theta {a b s o : ℝ} (hs : s = 1 ∨ s = -1) (h : TurnEq (a * s - o) (b * s - o)) :
    TurnEq a b := by
  have h' := (h.add_const o).mul_sign hs
  have hm : s * s = 1 := IsSign.mul_self hs
  have ea : (a * s - o + o) * s = a := by linear_combination a * hm
  have eb : (b * s - o + o) * s = b := by linear_combination b * hm
  rw [ea, eb] at h'
  exact h'

theorem J5TurnEq_of_theta (p : Params ℝ) (hs : SignsOk p) {a b : J6 ℝ}
    (h : J5TurnEq (thetaOf p a) (thetaOf p b)) : J5TurnEq a b := by
  obtain ⟨s1, s2, s3, s4, s5, -⟩ := hs
  obtain ⟨h1, h2, h3, h4, h5⟩ := h
  exact ⟨turnEq_of_theta s1 h1, turnEq_of_theta s2 h2, turnEq_of_theta s3 h3, turnEq_of_theta s4 h4,
    turnEq_of_theta s5 h5⟩

/-- completeness of `inverse_intern_5_dof`: for the pose of a joint vector `j` whose θ is
non-singular and ANY requested `j6`, one of the answers agrees with `j` on θ1 … θ5 modulo whole
turns, carries the requested `j6` and has exactly the requested position -/
theorem inverseIntern5_complete (p : Params ℝ) (hs : SignsOk p) (j : J6 ℝ) (j6 : ℝ)
    (h : NonSingular p (thetaOf p j)) :
    ∃ s ∈ inverseIntern5 p (forward p j) j6, J5TurnEq (thetaOf p s) (thetaOf p j) ∧ s.j6 = j6 ∧
      (forward p s).t = (forward p j).t := by
  obtain ⟨t, ht, hte⟩ := theta_candidate_complete p (thetaOf p j) h
  have h5 : J5TurnEq (thetaOf p (norm5 (jointsOf p t) j6)) (thetaOf p j) :=
    (thetaOf_norm5_turnEq p hs t j6).trans (J5TurnEq.of_J6 hte)
  have ht' := forward_t_congr5 p h5
  refine ⟨norm5 (jointsOf p t) j6,
    mem_inverseIntern5.mpr ⟨t, by rw [forward_eq_poseOf]; exact ht, first5Finite_real _, rfl, ?_⟩,
    h5, rfl, ht'⟩
  unfold Sound5
  rw [ht']
  exact compareXyz_self _ Nearest.distTol_nonneg

/-- `|jᵢ| < π` for the first five joints -/
def InsidePi5 (j : J6 ℝ) : Prop :=
  |j.j1| < Real.pi ∧ |j.j2| < Real.pi ∧ |j.j3| < Real.pi ∧ |j.j4| < Real.pi ∧ |j.j5| < Real.pi

/-- exact round trip of `inverse_intern_5_dof`: J1..J5 of a non-singular joint vector inside
`(−π, π)`, with the requested J6 appended, is among the answers for its own pose -/
theorem inverseIntern5_roundtrip (p : Params ℝ) (hs : SignsOk p)
    (ho : Nearest.absLe p.offsets 100000) (j : J6 ℝ) (j6 : ℝ) (hj : InsidePi5 j)
    (h : NonSingular p (thetaOf p j)) :
    ({ j with j6 := j6 } : J6 ℝ) ∈ inverseIntern5 p (forward p j) j6 := by
  obtain ⟨s, hs1, hθ, h6, -⟩ := inverseIntern5_complete p hs j j6 h
  obtain ⟨e1, e2, e3, e4, e5⟩ := J5TurnEq_of_theta p hs hθ
  obtain ⟨b1, b2, b3, b4, b5, -⟩ := Nearest.inverseIntern5_absLe p _ j6 s (signsOk_absLe hs) ho hs1
  obtain ⟨j1, j2, j3, j4, j5⟩ := hj
  have : s = { j with j6 := j6 } := J6.ext' (eq_of_turnEq_of_abs e1 b1 j1)
    (eq_of_turnEq_of_abs e2 b2 j2) (eq_of_turnEq_of_abs e3 b3 j3) (eq_of_turnEq_of_abs e4 b4 j4)
    (eq_of_turnEq_of_abs e5 b5 j5) h6
  exact this ▸ hs1

/-- `normalize_near` moves the first five joints by whole turns -/
theorem J5TurnEq_normalizeNear (s prev : J6 ℝ) : J5TurnEq (s.normalizeNear prev) s :=
  ⟨Nearest.normalizeNear_turn _ _, Nearest.normalizeNear_turn _ _, Nearest.normalizeNear_turn _ _,
    Nearest.normalizeNear_turn _ _, Nearest.normalizeNear_turn _ _⟩

/-! ### D. The `'shifts` loop with and without constraints (GENERIC) -/

section Generic
variable {R : Type} [OpwNum R]

theorem shiftLoop_cons (k : Opw R) (pose : Iso R) (prev : J6 R) (d : V3 R) (ds : List (V3 R))
    (sols : List (J6 R)) :
    shiftLoop k pose prev (d :: ds) sols =
      if (shiftStep k pose prev sols d).2 then (shiftStep k pose prev sols d).1
      else shiftLoop k pose prev ds (shiftStep k pose prev sols d).1 := rfl

/-- One iteration with constraints `c` versus the same iteration without constraints, from the SAME
accumulator: either they do exactly the same, or the run without constraints recovers a singular
candidate `now` that violates `c`, pushes it and breaks, while the run with constraints does not
push it and goes on. -/
theorem shiftStep_none_vs_some (p : Params R) (c : Constraints R) (pose : Iso R) (prev : J6 R)
    (sols : List (J6 R)) (d : V3 R) :
    shiftStep ⟨p, none⟩ pose prev sols d = shiftStep ⟨p, some c⟩ pose prev sols d ∨
    ∃ now, c.compliant now = false ∧
      shiftStep ⟨p, none⟩ pose prev sols d =
        ((shiftStep ⟨p, some c⟩ pose prev sols d).1 ++ [now], true) ∧
      (shiftStep ⟨p, some c⟩ pose prev sols d).2 = false := by
  unfold shiftStep
  simp only [Opw.compliant, Bool.and_true]
  split
  · exact Or.inl rfl
  · rename_i s0 _
    by_cases hp : comparePoses pose (forward p (singularCandidate p prev s0)) distTol angTol = true
    · by_cases hc : c.compliant (singularCandidate p prev s0) = true
      · left
        simp only [hp, hc, Bool.and_true]
      · right
        have hc' : c.compliant (singularCandidate p prev s0) = false := by simpa using hc
        exact ⟨singularCandidate p prev s0, hc', by simp only [hp, hc', if_true, Bool.and_false,
          Bool.false_eq_true, if_false], by simp only [hc', Bool.and_false, Bool.false_eq_true, if_false]⟩
    · left
      simp only [hp, Bool.false_and]

/-- Loop invariant: started from the same accumulator, every vector collected WITHOUT constraints
that satisfies the constraints `c` is also collected WITH them.  (As long as neither run has
broken out, the two accumulators are identical; the run with constraints breaks only when the other
one does; when only the run without constraints breaks, its extra element violates `c`.) -/
theorem shiftLoop_superset (p : Params R) (c : Constraints R) (pose : Iso R) (prev : J6 R) :
    ∀ (ds : List (V3 R)) (sols : List (J6 R)) (s : J6 R),
      s ∈ shiftLoop ⟨p, none⟩ pose prev ds sols → c.compliant s = true →
      s ∈ shiftLoop ⟨p, some c⟩ pose prev ds sols := by
  intro ds
  induction ds with
  | nil => intro sols s h _; exact h
  | cons d ds ih =>
    intro sols s h hc
    rw [shiftLoop_cons] at h ⊢
    rcases shiftStep_none_vs_some p c pose prev sols d with e | ⟨now, hnc, eU, eC⟩
    · rw [e] at h
      by_cases hb : (shiftStep ⟨p, some c⟩ pose prev sols d).2 = true
      · rw [if_pos hb] at h ⊢; exact h
      · rw [if_neg hb] at h ⊢; exact ih _ s h hc
    · rw [eU] at h
      simp only [if_true] at h
      rw [eC]
      simp only [Bool.false_eq_true, if_false]
      rcases List.mem_append.mp h with h | h
      · exact Nearest.shiftLoop_mono _ _ _ _ _ h
      · rw [List.mem_singleton] at h
        rw [h, hnc] at hc
        cases hc

end Generic

end Opw.Corollaries
