/-
  Helper lemmas for C07 (joint limits, `constraints.rs`): the real reading of `insideBounds`,
  `unwrapTo`, `centerTol`.  Everything here is about the model text of `Kin.lean` at `R := ℝ`,
  except the two generic lemmas at the end (any number type).
-/
import OpwVerif.Kin
import OpwVerif.Real
import Mathlib.Tactic
import Mathlib.Analysis.Real.Pi.Bounds
namespace Opw.Limits
open Real

-- `ofNatLit_real` matches every real literal (instances unify), which makes plain `simp` loop with
-- `Nat.cast_ofNat`; it is only used explicitly below.
attribute [-simp] ofNatLit_real

/-! ### Literals of the model at `ℝ` -/

theorem lit0_real : (@OfNat.ofNat ℝ 0 instOfNatOpw) = (0 : ℝ) := by
  rw [ofNatLit_real]; exact Nat.cast_zero
theorem lit1_real : (@OfNat.ofNat ℝ 1 instOfNatOpw) = (1 : ℝ) := by
  rw [ofNatLit_real]; exact Nat.cast_one
theorem lit2_real : (@OfNat.ofNat ℝ 2 instOfNatOpw) = (2 : ℝ) := by
  rw [ofNatLit_real]

/-! ### `fmod` with a non-negative dividend and the circular distance -/

/-- floor form of `fmod` (the branch the model takes for a non-negative quotient) -/
noncomputable def fmodR (x y : ℝ) : ℝ := x - y * ⌊x / y⌋

/-- the folded circular distance computed by `insideBounds` -/
noncomputable def circ (a c : ℝ) : ℝ :=
  let r := fmodR |a - c| (2 * π); if r > π then 2 * π - r else r

theorem nfmod_real_of_nonneg {x y : ℝ} (hx : 0 ≤ x) (hy : 0 < y) : nfmod x y = fmodR x y := by
  have h : 0 ≤ x / y := div_nonneg hx hy.le
  change @ite ℝ (0 ≤ x / y) _ (x - y * ⌊x / y⌋) (x - y * ⌈x / y⌉) = _
  rw [if_pos h]; rfl

/-- over `ℝ` the model's `insideBounds` is the test `circ a c ≤ tol` (the `isInfinite` branch is dead) -/
theorem insideBounds_real (a c tol : ℝ) : insideBounds a c tol = true ↔ circ a c ≤ tol := by
  unfold insideBounds isInfinite
  simp only [fin_real, isNaN_real, twoPi_real, pi_def_real, nabs_real]
  rw [nfmod_real_of_nonneg (abs_nonneg _) Real.two_pi_pos]
  simp only [Bool.not_true, Bool.false_and, Bool.false_eq_true, if_false, decide_eq_true_eq, circ]

theorem fmodR_nonneg (x : ℝ) {y : ℝ} (hy : 0 < y) : 0 ≤ fmodR x y := by
  unfold fmodR
  have h := Int.floor_le (x / y)
  have : y * (⌊x / y⌋ : ℝ) ≤ x := by
    calc y * (⌊x / y⌋ : ℝ) ≤ y * (x / y) := by exact mul_le_mul_of_nonneg_left h hy.le
      _ = x := by field_simp
  linarith

theorem fmodR_lt (x : ℝ) {y : ℝ} (hy : 0 < y) : fmodR x y < y := by
  unfold fmodR
  have h := Int.lt_floor_add_one (x / y)
  have : x < y * ((⌊x / y⌋ : ℝ) + 1) := by
    calc x = y * (x / y) := by field_simp
      _ < y * ((⌊x / y⌋ : ℝ) + 1) := by exact mul_lt_mul_of_pos_left h hy
  linarith

theorem circ_le_all (a c : ℝ) (k : ℤ) : circ a c ≤ |a - c + 2 * π * k| := by
  have hpi := Real.pi_pos
  have h2 : (0:ℝ) < 2 * π := by linarith
  set d := |a - c| with hd
  set n := ⌊d / (2 * π)⌋ with hn
  have hr0 := fmodR_nonneg d h2
  have hr1 := fmodR_lt d h2
  have hrdef : fmodR d (2 * π) = d - 2 * π * n := rfl
  have hc1 : circ a c ≤ fmodR d (2 * π) := by
    unfold circ; simp only [← hd]; split_ifs with h <;> linarith
  have hc2 : circ a c ≤ 2 * π - fmodR d (2 * π) := by
    unfold circ; simp only [← hd]; split_ifs with h <;> linarith
  obtain ⟨j, hj⟩ : ∃ j : ℤ, |a - c + 2 * π * k| = |d - 2 * π * j| := by
    rcases abs_cases (a - c) with ⟨e, _⟩ | ⟨e, _⟩
    · exact ⟨-k, by rw [hd, e]; push_cast; ring_nf⟩
    · refine ⟨k, ?_⟩
      rw [hd, e, ← abs_neg]; congr 1; ring
  rw [hj]
  have hdecomp : d - 2 * π * j = fmodR d (2 * π) + 2 * π * ((n - j : ℤ) : ℝ) := by
    rw [hrdef]; push_cast; ring
  rw [hdecomp]
  rcases le_or_gt 0 (n - j) with hm | hm
  · have : (0:ℝ) ≤ ((n - j : ℤ) : ℝ) := by exact_mod_cast hm
    have hnn : 0 ≤ fmodR d (2 * π) + 2 * π * ((n - j : ℤ) : ℝ) := by positivity
    rw [abs_of_nonneg hnn]
    nlinarith
  · have : ((n - j : ℤ) : ℝ) ≤ -1 := by exact_mod_cast (by omega : n - j ≤ -1)
    have hneg : fmodR d (2 * π) + 2 * π * ((n - j : ℤ) : ℝ) ≤ 0 := by nlinarith
    rw [abs_of_nonpos hneg]
    nlinarith

theorem circ_attained (a c : ℝ) : ∃ k : ℤ, |a - c + 2 * π * k| = circ a c := by
  have hpi := Real.pi_pos
  have h2 : (0:ℝ) < 2 * π := by linarith
  set d := |a - c| with hd
  set n := ⌊d / (2 * π)⌋ with hn
  have hr0 := fmodR_nonneg d h2
  have hr1 := fmodR_lt d h2
  have hrdef : fmodR d (2 * π) = d - 2 * π * n := rfl
  unfold circ
  simp only [← hd]
  rcases abs_cases (a - c) with ⟨e, _⟩ | ⟨e, _⟩
  · split_ifs with h
    · refine ⟨-(n+1), ?_⟩
      have : a - c + 2 * π * ((-(n+1) : ℤ) : ℝ) = -(2 * π - fmodR d (2 * π)) := by
        rw [hrdef, hd, e]; push_cast; ring
      rw [this, abs_neg, abs_of_nonneg (by linarith)]
    · refine ⟨-n, ?_⟩
      have : a - c + 2 * π * ((-n : ℤ) : ℝ) = fmodR d (2 * π) := by
        rw [hrdef, hd, e]; push_cast; ring
      rw [this, abs_of_nonneg hr0]
  · split_ifs with h
    · refine ⟨n+1, ?_⟩
      have : a - c + 2 * π * ((n+1 : ℤ) : ℝ) = 2 * π - fmodR d (2 * π) := by
        rw [hrdef, hd, e]; push_cast; ring
      rw [this, abs_of_nonneg (by linarith)]
    · refine ⟨n, ?_⟩
      have : a - c + 2 * π * ((n : ℤ) : ℝ) = -(fmodR d (2 * π)) := by
        rw [hrdef, hd, e]; ring
      rw [this, abs_neg, abs_of_nonneg hr0]

/-- the folded distance is the minimum of `|a + 2πk − c|` over whole turns `k` -/
theorem circ_le_iff (a c tol : ℝ) : circ a c ≤ tol ↔ ∃ k : ℤ, |a + 2 * π * k - c| ≤ tol := by
  constructor
  · intro h
    obtain ⟨k, hk⟩ := circ_attained a c
    exact ⟨k, by rw [show a + 2 * π * k - c = a - c + 2 * π * k by ring, hk]; exact h⟩
  · rintro ⟨k, hk⟩
    calc circ a c ≤ |a - c + 2 * π * k| := circ_le_all a c k
      _ = |a + 2 * π * k - c| := by congr 1; ring
      _ ≤ tol := hk

/-- core of C07 for the model's `insideBounds` at `ℝ` -/
theorem insideBounds_real_iff (a c tol : ℝ) :
    insideBounds a c tol = true ↔ ∃ k : ℤ, |a + 2 * π * k - c| ≤ tol := by
  rw [insideBounds_real, circ_le_iff]

/-- interval form: distance to the midpoint at most the half width -/
theorem abs_mid_le_iff (y f u : ℝ) : |y - (f + u) / 2| ≤ (u - f) / 2 ↔ f ≤ y ∧ y ≤ u := by
  rw [abs_le]
  constructor
  · rintro ⟨h1, h2⟩; constructor <;> linarith
  · rintro ⟨h1, h2⟩; constructor <;> linarith

/-- `insideBounds` with centre/tolerance of the interval `[f, u]` is membership modulo whole turns -/
theorem insideBounds_mid_iff (x f u : ℝ) :
    insideBounds x ((f + u) / 2) ((u - f) / 2) = true ↔
      ∃ k : ℤ, f ≤ x + 2 * π * k ∧ x + 2 * π * k ≤ u := by
  rw [insideBounds_real_iff]
  exact exists_congr fun k => abs_mid_le_iff _ _ _

/-- adding whole turns to the angle does not change the verdict -/
theorem insideBounds_add_turn (x c tol : ℝ) (k : ℤ) :
    insideBounds (x + 2 * π * k) c tol = insideBounds x c tol := by
  rw [Bool.eq_iff_iff, insideBounds_real_iff, insideBounds_real_iff]
  constructor
  · rintro ⟨j, hj⟩
    refine ⟨k + j, ?_⟩
    rw [show x + 2 * π * ((k + j : ℤ) : ℝ) - c = x + 2 * π * k + 2 * π * j - c by push_cast; ring]
    exact hj
  · rintro ⟨j, hj⟩
    refine ⟨j - k, ?_⟩
    rw [show x + 2 * π * k + 2 * π * ((j - k : ℤ) : ℝ) - c = x + 2 * π * j - c by push_cast; ring]
    exact hj

/-- adding whole turns to the centre does not change the verdict -/
theorem insideBounds_add_turn_centre (x c tol : ℝ) (m : ℤ) :
    insideBounds x (c + 2 * π * m) tol = insideBounds x c tol := by
  rw [Bool.eq_iff_iff, insideBounds_real_iff, insideBounds_real_iff]
  constructor
  · rintro ⟨j, hj⟩
    refine ⟨j - m, ?_⟩
    rw [show x + 2 * π * ((j - m : ℤ) : ℝ) - c = x + 2 * π * j - (c + 2 * π * m) by push_cast; ring]
    exact hj
  · rintro ⟨j, hj⟩
    refine ⟨j + m, ?_⟩
    rw [show x + 2 * π * ((j + m : ℤ) : ℝ) - (c + 2 * π * m) = x + 2 * π * j - c by push_cast; ring]
    exact hj

/-! ### The unwrap loop `while b < a { b += 2π }` -/

theorem unwrapTo_real_lt (n : ℕ) {a b : ℝ} (h : b < a) :
    unwrapTo (n + 1) a b = unwrapTo n a (b + 2 * π) := by
  rw [unwrapTo, if_pos h, twoPi_real]

theorem unwrapTo_real_ge (n : ℕ) {a b : ℝ} (h : a ≤ b) : unwrapTo (n + 1) a b = b := by
  rw [unwrapTo, if_neg (not_lt.mpr h)]

/-- closed form of the loop when the fuel suffices (no condition on the order of `a`, `b`) -/
theorem unwrapTo_eq (fuel : ℕ) (a b : ℝ) (h : (a - b) / (2 * π) < fuel) :
    unwrapTo fuel a b = b + 2 * π * (⌈(a - b) / (2 * π)⌉₊ : ℝ) := by
  have h2 := Real.two_pi_pos
  induction fuel generalizing b with
  | zero =>
    have h0 : ⌈(a - b) / (2 * π)⌉₊ = 0 :=
      Nat.ceil_eq_zero.mpr (by rw [Nat.cast_zero] at h; exact h.le)
    rw [h0, unwrapTo, Nat.cast_zero, mul_zero, add_zero]
  | succ n ih =>
    by_cases hba : b < a
    · rw [unwrapTo_real_lt n hba]
      have hx : (a - (b + 2 * π)) / (2 * π) = (a - b) / (2 * π) - 1 := by
        field_simp; ring
      have hn : (a - (b + 2 * π)) / (2 * π) < n := by
        rw [hx]; rw [Nat.cast_succ] at h; linarith
      rw [ih _ hn, hx, Nat.ceil_sub_one]
      have hpos : 0 < ⌈(a - b) / (2 * π)⌉₊ := Nat.ceil_pos.mpr (div_pos (by linarith) h2)
      have hc : ((⌈(a - b) / (2 * π)⌉₊ - 1 : ℕ) : ℝ) = (⌈(a - b) / (2 * π)⌉₊ : ℝ) - 1 := by
        rw [Nat.cast_sub hpos, Nat.cast_one]
      rw [hc]; ring
    · have hab : a ≤ b := not_lt.mp hba
      rw [unwrapTo_real_ge n hab]
      have h0 : ⌈(a - b) / (2 * π)⌉₊ = 0 :=
        Nat.ceil_eq_zero.mpr (div_nonpos_of_nonpos_of_nonneg (by linarith) h2.le)
      rw [h0, Nat.cast_zero, mul_zero, add_zero]

/-- the closed form reaches `a` -/
theorem le_ceilTop (f t : ℝ) : f ≤ t + 2 * π * (⌈(f - t) / (2 * π)⌉₊ : ℝ) := by
  have h2 := Real.two_pi_pos
  have h := Nat.le_ceil ((f - t) / (2 * π))
  have : f - t ≤ 2 * π * (⌈(f - t) / (2 * π)⌉₊ : ℝ) := by
    calc f - t = 2 * π * ((f - t) / (2 * π)) := by field_simp
      _ ≤ _ := mul_le_mul_of_nonneg_left h h2.le
  linarith

/-- … and not by more than one turn when `t ≤ f` -/
theorem ceilTop_sub_lt {f t : ℝ} (h : t ≤ f) :
    t + 2 * π * (⌈(f - t) / (2 * π)⌉₊ : ℝ) - 2 * π < f := by
  have h2 := Real.two_pi_pos
  have hc := Nat.ceil_lt_add_one (div_nonneg (by linarith : 0 ≤ f - t) h2.le)
  have h3 : 2 * π * (⌈(f - t) / (2 * π)⌉₊ : ℝ) < 2 * π * ((f - t) / (2 * π) + 1) :=
    mul_lt_mul_of_pos_left hc h2
  have e : 2 * π * ((f - t) / (2 * π) + 1) = f - t + 2 * π := by field_simp
  linarith

theorem ceilTop_of_le {f t : ℝ} (h : f ≤ t) : t + 2 * π * (⌈(f - t) / (2 * π)⌉₊ : ℝ) = t := by
  have h0 : ⌈(f - t) / (2 * π)⌉₊ = 0 :=
    Nat.ceil_eq_zero.mpr (div_nonpos_of_nonpos_of_nonneg (by linarith) Real.two_pi_pos.le)
  rw [h0, Nat.cast_zero, mul_zero, add_zero]

/-- minimality: every `t + 2πn ≥ f` (`n : ℕ`) is at least the closed form -/
theorem ceilTop_least {f t : ℝ} (n : ℕ) (h : f ≤ t + 2 * π * n) :
    t + 2 * π * (⌈(f - t) / (2 * π)⌉₊ : ℝ) ≤ t + 2 * π * n := by
  have h2 := Real.two_pi_pos
  have h1 : (f - t) / (2 * π) ≤ n := by
    rw [div_le_iff₀ h2]; linarith
  have h3 : (⌈(f - t) / (2 * π)⌉₊ : ℝ) ≤ n := by exact_mod_cast Nat.ceil_le.mpr h1
  have := mul_le_mul_of_nonneg_left h3 h2.le
  linarith

/-- two whole-turn counts that both bracket `a` coincide -/
theorem turn_count_unique {a b : ℝ} {n m : ℕ}
    (hn1 : a ≤ b + 2 * π * n) (hn2 : b + 2 * π * n - 2 * π < a)
    (hm1 : a ≤ b + 2 * π * m) (hm2 : b + 2 * π * m - 2 * π < a) : n = m := by
  have h2 := Real.two_pi_pos
  have h1 : (n : ℝ) < m + 1 := by
    by_contra hc
    have := mul_le_mul_of_nonneg_left (not_lt.mp hc) h2.le
    nlinarith
  have h3 : (m : ℝ) < n + 1 := by
    by_contra hc
    have := mul_le_mul_of_nonneg_left (not_lt.mp hc) h2.le
    nlinarith
  have h1' : n < m + 1 := by exact_mod_cast h1
  have h3' : m < n + 1 := by exact_mod_cast h3
  omega

/-- fuel of the model suffices for limits within `±4π` -/
theorem fuel_of_abs_le {f t : ℝ} (hf : |f| ≤ 4 * π) (ht : |t| ≤ 4 * π) :
    (f - t) / (2 * π) < (normFuel : ℝ) := by
  have h2 := Real.two_pi_pos
  rw [div_lt_iff₀ h2]
  have h1 := (abs_le.mp hf).2
  have h3 := (abs_le.mp ht).1
  have hN : (normFuel : ℝ) = 100000 := by norm_num [normFuel]
  rw [hN]
  nlinarith [Real.pi_pos]

/-! ### `centerTol` at `ℝ` -/

theorem centerTol_real_lt {f t : ℝ} (h : f < t) : centerTol f t = ((f + t) / 2, (t - f) / 2) := by
  unfold centerTol
  simp only [feq_real, ne_of_lt h, decide_false, Bool.false_eq_true, if_false]
  rw [if_pos h]

theorem centerTol_real_gt {f t : ℝ} (h : t < f) (hfuel : (f - t) / (2 * π) < (normFuel : ℝ)) :
    centerTol f t =
      ((f + (t + 2 * π * (⌈(f - t) / (2 * π)⌉₊ : ℝ))) / 2,
       ((t + 2 * π * (⌈(f - t) / (2 * π)⌉₊ : ℝ)) - f) / 2) := by
  unfold centerTol
  simp only [feq_real, ne_of_gt h, decide_false, Bool.false_eq_true, if_false]
  rw [if_neg (not_lt.mpr h.le)]
  simp only [lit2_real, unwrapTo_eq _ _ _ hfuel]

/-- for `f ≠ t` and enough fuel: centre and half width of `[f, top]`, `top` the closed form of the
unwrapped upper limit (equal to `t` when `f < t`) -/
theorem centerTol_real {f t : ℝ} (hne : f ≠ t) (hfuel : (f - t) / (2 * π) < (normFuel : ℝ)) :
    centerTol f t =
      ((f + (t + 2 * π * (⌈(f - t) / (2 * π)⌉₊ : ℝ))) / 2,
       ((t + 2 * π * (⌈(f - t) / (2 * π)⌉₊ : ℝ)) - f) / 2) := by
  rcases lt_or_gt_of_ne hne with h | h
  · rw [centerTol_real_lt h, ceilTop_of_le h.le]
  · exact centerTol_real_gt h hfuel

/-- shifting both limits by `m` whole turns shifts the centre and keeps the tolerance -/
theorem centerTol_shift {f t : ℝ} (hne : f ≠ t) (hfuel : (f - t) / (2 * π) < (normFuel : ℝ))
    (m : ℤ) :
    centerTol (f + 2 * π * m) (t + 2 * π * m) =
      ((centerTol f t).1 + 2 * π * m, (centerTol f t).2) := by
  have hd : f + 2 * π * m - (t + 2 * π * m) = f - t := by ring
  have hne' : f + 2 * π * m ≠ t + 2 * π * m := fun h => hne (by linarith)
  rw [centerTol_real hne' (by rw [hd]; exact hfuel), centerTol_real hne hfuel, hd]
  ext
  · show _ = _; ring
  · show _ = _; ring

/-- the tolerance is non-negative (so the centre is inside) -/
theorem centerTol_tol_nonneg {f t : ℝ} (hne : f ≠ t) (hfuel : (f - t) / (2 * π) < (normFuel : ℝ)) :
    0 ≤ (centerTol f t).2 := by
  rw [centerTol_real hne hfuel]
  have := le_ceilTop f t
  show 0 ≤ (t + 2 * π * (⌈(f - t) / (2 * π)⌉₊ : ℝ) - f) / 2
  linarith

/-! ### `compliant` of a constructed constraint set, joint by joint -/

theorem compliant_mk' {R : Type} [OpwNum R] (fr tu : J6 R) (w : R) (a : J6 R) :
    (Constraints.mk' fr tu w).compliant a =
      (insideBounds a.j1 (centerTol fr.j1 tu.j1).1 (centerTol fr.j1 tu.j1).2 &&
       insideBounds a.j2 (centerTol fr.j2 tu.j2).1 (centerTol fr.j2 tu.j2).2 &&
       insideBounds a.j3 (centerTol fr.j3 tu.j3).1 (centerTol fr.j3 tu.j3).2 &&
       insideBounds a.j4 (centerTol fr.j4 tu.j4).1 (centerTol fr.j4 tu.j4).2 &&
       insideBounds a.j5 (centerTol fr.j5 tu.j5).1 (centerTol fr.j5 tu.j5).2 &&
       insideBounds a.j6 (centerTol fr.j6 tu.j6).1 (centerTol fr.j6 tu.j6).2) := rfl

/-! ### Generic (any number type): the unconstrained case -/

theorem insideBounds_of_isInfinite {R : Type} [OpwNum R] (a c tol : R)
    (h : isInfinite tol = true) : insideBounds a c tol = true := by
  unfold insideBounds
  rw [if_pos h]

theorem centerTol_of_feq {R : Type} [OpwNum R] (a b : R) (h : feq a b = true) :
    centerTol a b = (0, infTol) := by
  unfold centerTol
  rw [if_pos h]

end Opw.Limits
