/-
  Tie between the model's `frameOf` / `distancesMatch` (`Misc.lean`) and `Frame::frame` / `distances_match` translated from the
  CURRENT source text (`Generated/SrcFrame.lean`, rewritten by `tools/rs2lean_frame.py` on every run).  Generic in the number
  type.
-/
import OpwVerif.Generated.SrcFrame
namespace Opw
variable {R : Type} [OpwNum R]

/-- `distances_match` -/
theorem distancesMatchSrc_eq (a1 a2 a3 b1 b2 b3 : V3 R) (tol : R) :
    SrcFrame.distancesMatchSrc a1 a2 a3 b1 b2 b3 tol = distancesMatch a1 a2 a3 b1 b2 b3 tol := rfl

/-- `Frame::frame`: the order of the three rejections (distances first, then the source triple, then the target triple, each
with its own error), the two orthonormal bases, target basis times transposed source basis, translation from the first pair -/
theorem frameSrc_eq (p1 p2 p3 q1 q2 q3 : V3 R) : SrcFrame.frameSrc p1 p2 p3 q1 q2 q3 = frameOf p1 p2 p3 q1 q2 q3 := rfl

end Opw
