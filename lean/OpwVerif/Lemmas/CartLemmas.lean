/-
  Vocabulary and helper lemmas for C12 (Cartesian stroke planning, model `Cartesian.lean`).
  Vocabulary: `CostOk` (the transition-cost test of `step_adaptive_linear_transition` accepted the
  pair), `Bisect` (poses reachable by repeated bisection of a Cartesian segment), `StepRel`/`WayRel`
  (cost-bounded inverse-kinematics continuation between consecutive waypoints), `interFlags` (flags
  of the non-final waypoints of a transition), `SegOk` (the waypoints appended for one transition),
  `Realises` (a waypoint carries the flags of a pose and solves it), `stepCount`, `onbOf`,
  `keepW`/`keepP` (the "not LIN_INTERP" filter).
  Generic part: any number type `R` (no arithmetic law is used).  Real part (marked [R]): `R := ℝ`.
-/
import OpwVerif.Cartesian
import OpwVerif.Real
import OpwVerif.Lemmas.GeomReal
namespace Opw.Cart
open Opw
attribute [-simp] Opw.ofNatLit_real
variable {R : Type} [OpwNum R]

/-- the cost test of `step_adaptive_linear_transition` accepts the pair `x`, `y` -/
def CostOk (cfg : CartCfg R) (x y : J6 R) : Prop :=
  decide (transitionCosts x y cfg.coefficients ≤ cfg.maxTransitionCost) = true

/-- `Bisect half a b p`: `p` is `b` or is reached from the segment `a`–`b` by repeatedly replacing one
end by the interpolated pose `a.interpolate b half` (the targets of the recursive calls) -/
inductive Bisect (half : R) : APose R → APose R → APose R → Prop
  | target (a b : APose R) : Bisect half a b b
  | left {a b p : APose R} : Bisect half a (a.interpolate b half) p → Bisect half a b p
  | right {a b p : APose R} : Bisect half (a.interpolate b half) b p → Bisect half a b p

/-- `y` is accepted by the cost test after `x` and is a solution, continued from `x`, of a pose in `P` -/
def StepRel (cfg : CartCfg R) (ik : Iso R → J6 R → List (J6 R)) (P : APose R → Prop) (x y : J6 R) : Prop :=
  CostOk cfg x y ∧ ∃ p, P p ∧ y ∈ ik p.pose x

theorem stepAdaptive_chain (cfg : CartCfg R) (ik : Iso R → J6 R → List (J6 R)) (half : R) :
    ∀ (fuel depth : Nat) (starting : J6 R) (from_ to_ : APose R) (l : List (J6 R)),
      stepAdaptive cfg ik half fuel depth starting from_ to_ = some l →
      List.IsChain (StepRel cfg ik (Bisect half from_ to_)) (starting :: l) ∧
      ∃ init last, l = init ++ [last] ∧ last ∈ ik to_.pose ((starting :: init).getLast (by simp)) := by
  intro fuel
  induction fuel with
  | zero => intro depth starting from_ to_ l h; simp [stepAdaptive] at h
  | succ fuel ih =>
    intro depth starting from_ to_ l h
    rw [stepAdaptive] at h
    simp only at h
    split at h
    · next next hf =>
      injection h with h; subst h
      have hc := List.find?_some hf
      have hm := List.mem_of_find?_eq_some hf
      refine ⟨?_, [], next, rfl, by simpa using hm⟩
      rw [List.isChain_cons_cons]
      exact ⟨⟨hc, to_, Bisect.target _ _, hm⟩, List.isChain_singleton _⟩
    · split at h
      · split at h
        · cases h
        · next first h1 =>
          split at h
          · cases h
          · next midStep hl =>
            split at h
            · cases h
            · next second h2 =>
              injection h with h; subst h
              obtain ⟨c1, i1, l1, e1, m1⟩ := ih _ _ _ _ _ h1
              obtain ⟨c2, i2, l2, e2, m2⟩ := ih _ _ _ _ _ h2
              subst e1 e2
              simp only [List.getLast?_append, List.getLast?_singleton, Option.some_or, Option.some.injEq] at hl
              subst hl
              refine ⟨?_, i1 ++ [l1] ++ i2, l2, by simp, ?_⟩
              · have c1' := c1.imp (S := StepRel cfg ik (Bisect half from_ to_)) (fun _ _ h => ⟨h.1, h.2.imp fun p hp => ⟨Bisect.left hp.1, hp.2⟩⟩)
                have c2' := c2.imp (S := StepRel cfg ik (Bisect half from_ to_)) (fun _ _ h => ⟨h.1, h.2.imp fun p hp => ⟨Bisect.right hp.1, hp.2⟩⟩)
                have : starting :: (i1 ++ [l1] ++ (i2 ++ [l2])) = (starting :: i1) ++ (l1 :: (i2 ++ [l2])) := by simp
                rw [this]
                have c1'' : List.IsChain (StepRel cfg ik (Bisect half from_ to_)) (starting :: i1 ++ [l1]) := by simpa using c1'
                rw [List.isChain_append] at c1'' 
                refine List.IsChain.append c1''.1 c2' ?_
                intro x hx y hy
                simp only [List.head?_cons, Option.mem_def, Option.some.injEq] at hy
                subst hy
                exact c1''.2.2 x hx _ (by simp)
              · have : (starting :: (i1 ++ [l1] ++ i2)) = (starting :: i1) ++ (l1 :: i2) := by simp
                simp only [this]
                rw [List.getLast_append_of_ne_nil (by simp)]  
                exact m2
      · cases h
theorem hasFlag_inter_lin (f : Nat) :
    hasFlag (clearFlag (clearFlag (setFlag f flagLinInterp) flagTrace) flagPark) flagLinInterp = true := by
  simp only [hasFlag, clearFlag, setFlag, flagLinInterp, flagTrace, flagPark, beq_iff_eq]
  split <;> split <;> split <;> omega

theorem hasFlag_inter_trace (f : Nat) :
    hasFlag (clearFlag (clearFlag (setFlag f flagLinInterp) flagTrace) flagPark) flagTrace = false := by
  simp only [hasFlag, clearFlag, setFlag, flagLinInterp, flagTrace, flagPark, beq_iff_eq, beq_eq_false_iff_ne]
  split <;> split <;> split <;> omega

omit [OpwNum R] in
theorem planWith_isSome (collidesFrom : Bool) (strategies : List (J6 R))
    (outcome : J6 R → Option (List (AJoints R))) (choice : Nat) :
    (planWith collidesFrom strategies outcome choice).isSome
      = (!collidesFrom && strategies.any (fun s => (outcome s).isSome)) := by
  unfold planWith
  cases collidesFrom
  · simp only [Bool.false_eq_true, if_false, Bool.not_false, Bool.true_and]
    cases h : strategies.filterMap outcome with
    | nil =>
      simp only [Option.isSome_none]
      rw [List.filterMap_eq_nil_iff] at h
      symm
      rw [List.any_eq_false]
      intro s hs
      simp [h s hs]
    | cons a l =>
      simp only
      have hlt : choice % (a :: l).length < (a :: l).length := Nat.mod_lt _ (by simp)
      rw [List.getElem?_eq_getElem hlt]
      have : a ∈ strategies.filterMap outcome := by rw [h]; simp
      rw [List.mem_filterMap] at this
      obtain ⟨s, hs, hso⟩ := this
      simp only [Option.isSome_some]
      symm
      rw [List.any_eq_true]
      exact ⟨s, hs, by simp [hso]⟩
  · simp

omit [OpwNum R] in
theorem planWith_some (collidesFrom : Bool) (strategies : List (J6 R))
    (outcome : J6 R → Option (List (AJoints R))) (choice : Nat) (tr : List (AJoints R))
    (h : planWith collidesFrom strategies outcome choice = some tr) :
    collidesFrom = false ∧ ∃ s ∈ strategies, outcome s = some tr := by
  unfold planWith at h
  cases collidesFrom
  · refine ⟨rfl, ?_⟩
    simp only [Bool.false_eq_true, if_false] at h
    cases h' : strategies.filterMap outcome with
    | nil => rw [h'] at h; simp at h
    | cons a l =>
      rw [h'] at h
      simp only at h
      have hm : tr ∈ strategies.filterMap outcome := by
        rw [h']; exact List.mem_of_getElem? h
      rw [List.mem_filterMap] at hm
      exact hm
  · simp at h
theorem isChain_pred {α : Type} {r : α → α → Prop} :
    ∀ (l : List α) (a : α), List.IsChain r (a :: l) → ∀ y ∈ l, ∃ x ∈ a :: l, r x y := by
  intro l
  induction l with
  | nil => intro a _ y hy; cases hy
  | cons b l ih =>
    intro a h y hy
    rw [List.isChain_cons_cons] at h
    rcases List.mem_cons.1 hy with rfl | hy
    · exact ⟨a, by simp, h.1⟩
    · obtain ⟨x, hx, hr⟩ := ih b h.2 y hy
      exact ⟨x, List.mem_cons_of_mem _ hx, hr⟩

theorem isChain_glue {α : Type} {r : α → α → Prop} (a : α) (l1 : List α) (b : α) (l2 : List α)
    (h1 : List.IsChain r (a :: (l1 ++ [b]))) (h2 : List.IsChain r (b :: l2)) :
    List.IsChain r (a :: ((l1 ++ [b]) ++ l2)) := by
  have e : a :: ((l1 ++ [b]) ++ l2) = (a :: l1) ++ (b :: l2) := by simp
  rw [e]
  have h1' : List.IsChain r ((a :: l1) ++ [b]) := by simpa using h1
  rw [List.isChain_append] at h1'
  refine List.IsChain.append h1'.1 h2 ?_
  intro x hx y hy
  simp only [List.head?_cons, Option.mem_def, Option.some.injEq] at hy
  subst hy
  exact h1'.2.2 x hx _ (by simp)

/-- flags of the waypoints of a transition that are not its last one -/
def interFlags (f : Nat) : Nat := clearFlag (clearFlag (setFlag f flagLinInterp) flagTrace) flagPark

/-- the waypoints appended for the transition `from_ → to_`: the last one carries the flags of `to_` and
solves `to_.pose`; the earlier ones carry `interFlags` and solve bisection poses of the segment -/
def SegOk (ik : Iso R → J6 R → List (J6 R)) (half : R) (from_ to_ : APose R) (seg : List (AJoints R)) : Prop :=
  ∃ init last, seg = init ++ [last] ∧ last.flags = to_.flags ∧ (∃ prev, last.joints ∈ ik to_.pose prev) ∧
    ∀ w ∈ init, w.flags = interFlags to_.flags ∧ ∃ p prev, Bisect half from_ to_ p ∧ w.joints ∈ ik p.pose prev

/-- consecutive waypoints: cost test accepted, and the second is a solution continued from the first -/
def WayRel (cfg : CartCfg R) (ik : Iso R → J6 R → List (J6 R)) (x y : AJoints R) : Prop :=
  CostOk cfg x.joints y.joints ∧ ∃ pose, y.joints ∈ ik pose x.joints

theorem extensionFlags_succ (f n : Nat) :
    extensionFlags f (n + 1) = List.replicate n (interFlags f) ++ [f] := by
  unfold extensionFlags
  rw [List.range_succ, List.map_append]
  congr 1
  · rw [← List.length_range (n := n), ← List.map_const' (l := List.range n)]
    simp only [List.length_range]
    apply List.map_congr_left
    intro p hp
    rw [List.mem_range] at hp
    simp [hp, interFlags]
  · simp

omit [OpwNum R] in
theorem zip_replicate_map (init : List (J6 R)) (I : Nat) :
    ((init.zip (List.replicate init.length I)).map (fun (j, f) => (⟨j, f⟩ : AJoints R)))
      = init.map (fun j => ⟨j, I⟩) := by
  induction init with
  | nil => rfl
  | cons a l ih => simp [List.replicate_succ, ih]

omit [OpwNum R] in
theorem annotate_snoc (init : List (J6 R)) (last : J6 R) (f : Nat) :
    (((init ++ [last]).zip (extensionFlags f (init ++ [last]).length)).map (fun (j, f) => (⟨j, f⟩ : AJoints R)))
      = init.map (fun j => ⟨j, interFlags f⟩) ++ [⟨last, f⟩] := by
  rw [List.length_append, List.length_singleton, extensionFlags_succ, List.zip_append (by simp),
    List.map_append, zip_replicate_map]
  rfl

theorem cartesianTrace_prefix (cfg : CartCfg R) (ik : Iso R → J6 R → List (J6 R)) (half : R)
    (cw : J6 R → APose R → Option (List (AJoints R))) :
    ∀ (poses : List (APose R)) (trace0 tr : List (AJoints R)),
      cartesianTrace cfg ik half cw poses trace0 = some tr → ∃ ext, tr = trace0 ++ ext := by
  intro poses
  induction poses with
  | nil => intro t tr h; simp [cartesianTrace] at h; exact ⟨[], by simp [h]⟩
  | cons from_ tl ih =>
    intro t tr h
    cases tl with
    | nil => simp [cartesianTrace] at h; exact ⟨[], by simp [h]⟩
    | cons to_ rest =>
      rw [cartesianTrace] at h
      split at h
      · cases h
      · split at h
        · obtain ⟨e, he⟩ := ih _ _ h
          exact ⟨_, by rw [he, List.append_assoc]⟩
        · split at h
          · obtain ⟨e, he⟩ := ih _ _ h
            exact ⟨_, by rw [he, List.append_assoc]⟩
          · cases h

theorem cartesianTrace_segs (cfg : CartCfg R) (ik : Iso R → J6 R → List (J6 R)) (half : R) :
    ∀ (poses : List (APose R)) (trace0 tr : List (AJoints R)),
      cartesianTrace cfg ik half (fun _ _ => none) poses trace0 = some tr →
      ∃ segs : List (List (AJoints R)), tr = trace0 ++ segs.flatten ∧
        List.Forall₂ (fun (ft : APose R × APose R) seg => SegOk ik half ft.1 ft.2 seg) (poses.zip poses.tail) segs ∧
        ∀ last, trace0.getLast? = some last → List.IsChain (WayRel cfg ik) (last :: segs.flatten) := by
  intro poses
  induction poses with
  | nil => intro t tr h; simp [cartesianTrace] at h; exact ⟨[], by simp [h]⟩
  | cons from_ tl ih =>
    intro t tr h
    cases tl with
    | nil => simp [cartesianTrace] at h; exact ⟨[], by simp [h]⟩
    | cons to_ rest =>
      rw [cartesianTrace] at h
      split at h
      · cases h
      · next prev hprev =>
        split at h
        · next ext hext =>
          obtain ⟨hc, init, last, rfl, hm⟩ := stepAdaptive_chain cfg ik half _ _ _ _ _ _ hext
          simp only at h
          rw [annotate_snoc] at h
          obtain ⟨segs, htr, hf, hch⟩ := ih _ _ h
          refine ⟨(init.map (fun j => ⟨j, interFlags to_.flags⟩) ++ [⟨last, to_.flags⟩]) :: segs, ?_, ?_, ?_⟩
          · rw [htr, List.flatten_cons, List.append_assoc]
          · simp only [List.tail_cons, List.zip_cons_cons]
            refine List.Forall₂.cons ?_ hf
            refine ⟨_, _, rfl, rfl, ⟨_, hm⟩, ?_⟩
            intro w hw
            rw [List.mem_map] at hw
            obtain ⟨j, hj, rfl⟩ := hw
            refine ⟨rfl, ?_⟩
            obtain ⟨x, _, hx⟩ := isChain_pred _ _ hc j (List.mem_append_left _ hj)
            obtain ⟨_, p, hp, hjp⟩ := hx
            exact ⟨p, x, hp, hjp⟩
          · intro l hl
            rw [hprev] at hl; injection hl with hl; subst hl
            rw [List.flatten_cons]
            apply isChain_glue
            · have hc' := hc.imp (S := fun x y => CostOk cfg x y ∧ ∃ pose, y ∈ ik pose x)
                (fun _ _ h => ⟨h.1, h.2.elim fun p hp => ⟨p.pose, hp.2⟩⟩)
              have e : prev.joints :: (init ++ [last]) = (prev :: (init.map (fun j => (⟨j, interFlags to_.flags⟩ : AJoints R)) ++ [⟨last, to_.flags⟩])).map (·.joints) := by
                simp [Function.comp_def]
              rw [e, List.isChain_map] at hc'
              exact hc'
            · apply hch
              simp
        · simp at h


theorem hasFlag_inter_park (f : Nat) :
    hasFlag (clearFlag (clearFlag (setFlag f flagLinInterp) flagTrace) flagPark) flagPark = false := by
  simp only [hasFlag, clearFlag, setFlag, flagLinInterp, flagTrace, flagPark, beq_iff_eq, beq_eq_false_iff_ne]
  split <;> split <;> split <;> omega

/-- `probe_strategy` unfolded -/
theorem probeStrategy_some (cfg : CartCfg R) (ik : Iso R → J6 R → List (J6 R)) (half : R)
    (rrt : J6 R → J6 R → Option (List (J6 R))) (cw : J6 R → APose R → Option (List (AJoints R)))
    (collides : J6 R → Bool) (stopped : Bool) (from_ strategy : J6 R) (poses : List (APose R))
    (out : List (AJoints R))
    (h : probeStrategy cfg ik half rrt cw collides stopped from_ strategy poses = some out) :
    ∃ onboarding trace, rrt from_ strategy = some onboarding ∧
      cartesianTrace cfg ik half cw poses
        ((onboarding.take (onboarding.length - 1)).map (fun j => (⟨j, flagOnboarding⟩ : AJoints R))
          ++ [⟨strategy, flagLand⟩]) = some trace ∧
      stopped = false ∧ (∀ s ∈ trace, collides s.joints = false) ∧
      out = if cfg.includeLinearInterpolation then trace
            else trace.filter (fun s => !(hasFlag s.flags flagLinInterp)) := by
  unfold probeStrategy at h
  split at h
  · cases h
  · next onboarding hr =>
    simp only at h
    split at h
    · cases h
    · next trace ht =>
      refine ⟨onboarding, trace, hr, ht, ?_⟩
      cases stopped
      · simp only [Bool.false_eq_true, if_false] at h
        split at h
        · cases h
        · next hc =>
          rw [Bool.not_eq_true, List.any_eq_false] at hc
          refine ⟨rfl, fun s hs => by simpa using hc s hs, ?_⟩
          cases hi : cfg.includeLinearInterpolation <;> simp [hi] at h ⊢ <;> exact h.symm
      · simp at h

/-- the number of steps `add_intermediate_poses` uses between two poses -/
def stepCount (a b : Iso R) (stepM stepRad : R) : Nat :=
  max (max (OpwNum.ceilNat ((b.t.sub a.t).norm / stepM))
           (OpwNum.ceilNat ((b.q.mul a.q.conj).angle / stepRad))) 1

theorem intermediatePoses_eq (a b : Iso R) (sm sr : R) (ofNat : Nat → R) :
    intermediatePoses a b sm sr ofNat =
      (List.range (stepCount a b sm sr - 1)).map (fun k =>
        (⟨⟨a.t.add (((b.t.sub a.t).divs (ofNat (stepCount a b sm sr))).scale (ofNat (k + 1))),
           a.q.slerp b.q (ofNat (k + 1) / ofNat (stepCount a b sm sr))⟩, flagLinInterp⟩ : APose R)) := rfl

theorem intermediatePoses_length (a b : Iso R) (sm sr : R) (ofNat : Nat → R) :
    (intermediatePoses a b sm sr ofNat).length = stepCount a b sm sr - 1 := by
  rw [intermediatePoses_eq, List.length_map, List.length_range]

theorem intermediatePoses_flags (a b : Iso R) (sm sr : R) (ofNat : Nat → R) :
    ∀ p ∈ intermediatePoses a b sm sr ofNat, p.flags = flagLinInterp := by
  intro p hp
  rw [intermediatePoses_eq, List.mem_map] at hp
  obtain ⟨k, _, rfl⟩ := hp
  rfl

omit [OpwNum R] in
theorem stroke_nil (park : Iso R) (ip : Iso R → Iso R → List (APose R)) (prev : Iso R) :
    withIntermediatePoses.stroke park ip prev [] = ip prev park := rfl

omit [OpwNum R] in
theorem stroke_cons (park : Iso R) (ip : Iso R → Iso R → List (APose R)) (prev s : Iso R) (rest : List (Iso R)) :
    withIntermediatePoses.stroke park ip prev (s :: rest)
      = ip prev s ++ [⟨s, flagTrace⟩] ++ withIntermediatePoses.stroke park ip s rest := rfl

omit [OpwNum R] in
theorem filter_lin_eq_nil (l : List (APose R)) (h : ∀ p ∈ l, p.flags = flagLinInterp) :
    l.filter (fun p => !(hasFlag p.flags flagLinInterp)) = [] := by
  rw [List.filter_eq_nil_iff]
  intro p hp
  rw [h p hp]
  decide

omit [OpwNum R] in
theorem stroke_filter (park : Iso R) (ip : Iso R → Iso R → List (APose R))
    (hip : ∀ a b, ∀ p ∈ ip a b, p.flags = flagLinInterp) :
    ∀ (steps : List (Iso R)) (prev : Iso R),
      (withIntermediatePoses.stroke park ip prev steps).filter (fun p => !(hasFlag p.flags flagLinInterp))
        = steps.map (fun s => ⟨s, flagTrace⟩) := by
  intro steps
  induction steps with
  | nil => intro prev; rw [stroke_nil]; exact filter_lin_eq_nil _ (hip _ _)
  | cons s rest ih =>
    intro prev
    rw [stroke_cons, List.filter_append, List.filter_append, ih, filter_lin_eq_nil _ (hip _ _)]
    have : hasFlag flagTrace flagLinInterp = false := by decide
    simp [this]

theorem withIntermediatePoses_eq (land : Iso R) (steps : List (Iso R)) (park : Iso R) (sm sr : R) (ofNat : Nat → R) :
    withIntermediatePoses land steps park sm sr ofNat =
      ⟨land, flagLand⟩ ::
        (withIntermediatePoses.stroke park (fun a b => intermediatePoses a b sm sr ofNat) land steps
          ++ [⟨park, flagPark⟩]) := by
  simp [withIntermediatePoses]

theorem withIntermediatePoses_filter (land : Iso R) (steps : List (Iso R)) (park : Iso R) (sm sr : R) (ofNat : Nat → R) :
    (withIntermediatePoses land steps park sm sr ofNat).filter (fun p => !(hasFlag p.flags flagLinInterp))
      = ⟨land, flagLand⟩ :: (steps.map (fun s => ⟨s, flagTrace⟩) ++ [⟨park, flagPark⟩]) := by
  rw [withIntermediatePoses_eq]
  have h1 : hasFlag flagLand flagLinInterp = false := by decide
  have h2 : hasFlag flagPark flagLinInterp = false := by decide
  rw [List.filter_cons, List.filter_append, stroke_filter _ _ (fun a b => intermediatePoses_flags a b sm sr ofNat)]
  simp [h1, h2]

/-! ### Real arithmetic -/

theorem intermediate_on_segment (start end_ : Iso ℝ) (sm sr : ℝ) :
    ∀ p ∈ intermediatePoses start end_ sm sr (fun n => (n : ℝ)),
      ∃ s : ℝ, 0 < s ∧ s < 1 ∧ p.pose.t = start.t.add ((end_.t.sub start.t).scale s) := by
  intro p hp
  rw [intermediatePoses_eq, List.mem_map] at hp
  obtain ⟨k, hk, rfl⟩ := hp
  rw [List.mem_range] at hk
  have hn : (0 : ℝ) < (stepCount start end_ sm sr : ℝ) := by
    have : 0 < stepCount start end_ sm sr := by omega
    exact_mod_cast this
  have hk' : ((k + 1 : ℕ) : ℝ) < (stepCount start end_ sm sr : ℝ) := by
    have : k + 1 < stepCount start end_ sm sr := by omega
    exact_mod_cast this
  refine ⟨((k + 1 : ℕ) : ℝ) / (stepCount start end_ sm sr : ℝ), by positivity, by rw [div_lt_one hn]; exact hk', ?_⟩
  apply V3.ext' <;> simp only [V3.add, V3.scale, V3.divs, V3.sub] <;> field_simp



theorem interpolate_t_real (a b : APose ℝ) (p : ℝ) :
    (a.interpolate b p).pose.t = (a.pose.t.scale (1 - p)).add (b.pose.t.scale p) := by
  apply V3.ext' <;> simp only [APose.interpolate, V3.lerp, V3.add, V3.scale, lit1] <;> ring

theorem interpolate_t_seg (a b : APose ℝ) (p : ℝ) :
    (a.interpolate b p).pose.t = a.pose.t.add ((b.pose.t.sub a.pose.t).scale p) := by
  apply V3.ext' <;> simp only [APose.interpolate, V3.lerp, V3.add, V3.scale, V3.sub, lit1] <;> ring

theorem bisect_flags (half : R) (a b p : APose R) (h : Bisect half a b p) :
    p = b ∨ p.flags = flagLinInterp := by
  induction h with
  | target a b => exact Or.inl rfl
  | left _ ih => rcases ih with rfl | h; exact Or.inr rfl; exact Or.inr h
  | right _ ih => exact ih

theorem bisect_on_segment (half : ℝ) (h0 : 0 ≤ half) (h1 : half ≤ 1) (a b p : APose ℝ)
    (h : Bisect half a b p) :
    ∃ s : ℝ, 0 ≤ s ∧ s ≤ 1 ∧ p.pose.t = a.pose.t.add ((b.pose.t.sub a.pose.t).scale s) := by
  induction h with
  | target a b =>
    exact ⟨1, by norm_num, le_refl _, by apply V3.ext' <;> simp only [V3.add, V3.scale, V3.sub] <;> ring⟩
  | @left a b p _ ih =>
    obtain ⟨s, hs0, hs1, e⟩ := ih
    refine ⟨half * s, by positivity, by nlinarith, ?_⟩
    rw [e, interpolate_t_seg]
    apply V3.ext' <;> simp only [V3.add, V3.scale, V3.sub] <;> ring
  | @right a b p _ ih =>
    obtain ⟨s, hs0, hs1, e⟩ := ih
    refine ⟨half + (1 - half) * s, by nlinarith, by nlinarith, ?_⟩
    rw [e, interpolate_t_seg]
    apply V3.ext' <;> simp only [V3.add, V3.scale, V3.sub] <;> ring


/-! ### key waypoints -/

theorem forall₂_zip_tail {α β : Type} (Q : α → β → Prop) :
    ∀ (poses : List α) (segs : List β),
      List.Forall₂ (fun (ft : α × α) seg => Q ft.2 seg) (poses.zip poses.tail) segs →
      List.Forall₂ Q poses.tail segs := by
  intro poses
  induction poses with
  | nil => intro segs h; simpa using h
  | cons a tl ih =>
    intro segs h
    cases tl with
    | nil => simpa using h
    | cons b rest =>
      simp only [List.tail_cons, List.zip_cons_cons] at h ⊢
      cases h with
      | cons h1 h2 => exact List.Forall₂.cons h1 (ih _ h2)

theorem forall₂_lasts {α β : Type} (K : α → β → Prop) :
    ∀ (tos : List α) (segs : List (List β)),
      List.Forall₂ (fun to_ seg => ∃ init last, seg = init ++ [last] ∧ K to_ last) tos segs →
      ∃ ws, ws.Sublist segs.flatten ∧ List.Forall₂ K tos ws := by
  intro tos segs h
  induction h with
  | nil => exact ⟨[], by simp, List.Forall₂.nil⟩
  | cons h1 _ ih =>
    obtain ⟨init, last, rfl, hk⟩ := h1
    obtain ⟨ws, hs, hf⟩ := ih
    refine ⟨last :: ws, ?_, List.Forall₂.cons hk hf⟩
    rw [List.flatten_cons]
    exact ((List.sublist_append_right init [last]).append hs)

theorem forall₂_filter {α β : Type} (K : α → β → Prop) (p : α → Bool) (q : β → Bool)
    (hpq : ∀ a b, K a b → p a = q b) :
    ∀ (l1 : List α) (l2 : List β), List.Forall₂ K l1 l2 → List.Forall₂ K (l1.filter p) (l2.filter q) := by
  intro l1 l2 h
  induction h with
  | nil => exact List.Forall₂.nil
  | @cons a b _ _ h1 _ ih =>
    rw [List.filter_cons, List.filter_cons, hpq a b h1]
    split
    · exact List.Forall₂.cons h1 ih
    · exact ih

/-- key relation: waypoint `w` realises the annotated pose `kp` -/
def Realises (ik : Iso R → J6 R → List (J6 R)) (kp : APose R) (w : AJoints R) : Prop :=
  w.flags = kp.flags ∧ ∃ prev, w.joints ∈ ik kp.pose prev

theorem segOk_last (ik : Iso R → J6 R → List (J6 R)) (half : R) (from_ to_ : APose R) (seg : List (AJoints R))
    (h : SegOk ik half from_ to_ seg) : ∃ init last, seg = init ++ [last] ∧ Realises ik to_ last := by
  obtain ⟨init, last, e, hf, hp, _⟩ := h
  exact ⟨init, last, e, hf, hp⟩

/-- the waypoints realising the poses after the first appear in the appended part in order -/
theorem cartesianTrace_keys (cfg : CartCfg R) (ik : Iso R → J6 R → List (J6 R)) (half : R)
    (poses : List (APose R)) (trace0 tr : List (AJoints R))
    (h : cartesianTrace cfg ik half (fun _ _ => none) poses trace0 = some tr) :
    ∃ ext ws, tr = trace0 ++ ext ∧ ws.Sublist ext ∧ List.Forall₂ (Realises ik) poses.tail ws := by
  obtain ⟨segs, htr, hf, _⟩ := cartesianTrace_segs cfg ik half poses trace0 tr h
  have hf' : List.Forall₂ (fun (ft : APose R × APose R) seg =>
      ∃ init last, seg = init ++ [last] ∧ Realises ik ft.2 last) (poses.zip poses.tail) segs :=
    hf.imp (fun _ _ h => segOk_last ik half _ _ _ h)
  have := forall₂_zip_tail (fun to_ seg => ∃ init last, seg = init ++ [last] ∧ Realises ik to_ last) _ _ hf'
  obtain ⟨ws, hs, hw⟩ := forall₂_lasts _ _ _ this
  exact ⟨_, ws, htr, hs, hw⟩

/-- every appended waypoint is an inverse-kinematics solution continued from its predecessor -/
theorem cartesianTrace_all_ik (cfg : CartCfg R) (ik : Iso R → J6 R → List (J6 R)) (half : R)
    (poses : List (APose R)) (trace0 tr : List (AJoints R))
    (h : cartesianTrace cfg ik half (fun _ _ => none) poses trace0 = some tr) :
    ∃ ext, tr = trace0 ++ ext ∧ ∀ w ∈ ext, ∃ pose prev, w.joints ∈ ik pose prev := by
  obtain ⟨segs, htr, hf, hc⟩ := cartesianTrace_segs cfg ik half poses trace0 tr h
  refine ⟨_, htr, ?_⟩
  intro w hw
  cases hl : trace0.getLast? with
  | none =>
    -- the trace is empty: nothing can be appended
    rw [List.getLast?_eq_none_iff] at hl
    subst hl
    exfalso
    cases poses with
    | nil => simp at hf; subst hf; cases hw
    | cons a tl =>
      cases tl with
      | nil => simp at hf; subst hf; cases hw
      | cons b rest => simp [cartesianTrace] at h
  | some last =>
    obtain ⟨x, _, hx⟩ := isChain_pred _ _ (hc last hl) w hw
    exact ⟨_, _, hx.2.choose_spec⟩



/-- the predicate `probe_strategy` uses to drop interpolated waypoints -/
abbrev keepW (s : AJoints R) : Bool := !(hasFlag s.flags flagLinInterp)
abbrev keepP (p : APose R) : Bool := !(hasFlag p.flags flagLinInterp)

/-- the onboarding waypoints built from the RRT path -/
def onbOf (onboarding : List (J6 R)) : List (AJoints R) :=
  (onboarding.take (onboarding.length - 1)).map (fun j => ⟨j, flagOnboarding⟩)

omit [OpwNum R] in
theorem filter_onb (onboarding : List (J6 R)) (strategy : J6 R) :
    (onbOf onboarding ++ [(⟨strategy, flagLand⟩ : AJoints R)]).filter keepW
      = onbOf onboarding ++ [⟨strategy, flagLand⟩] := by
  rw [List.filter_eq_self]
  intro a ha
  rw [List.mem_append] at ha
  rcases ha with ha | ha
  · rw [onbOf, List.mem_map] at ha
    obtain ⟨j, _, rfl⟩ := ha
    show (!(hasFlag flagOnboarding flagLinInterp)) = true
    decide
  · rw [List.mem_singleton] at ha; subst ha
    show (!(hasFlag flagLand flagLinInterp)) = true
    decide

theorem probeStrategy_shape (cfg : CartCfg R) (ik : Iso R → J6 R → List (J6 R)) (half : R)
    (rrt : J6 R → J6 R → Option (List (J6 R))) (cw : J6 R → APose R → Option (List (AJoints R)))
    (collides : J6 R → Bool) (stopped : Bool) (from_ strategy : J6 R) (poses : List (APose R))
    (out : List (AJoints R))
    (h : probeStrategy cfg ik half rrt cw collides stopped from_ strategy poses = some out) :
    ∃ onboarding ext, rrt from_ strategy = some onboarding ∧
      cartesianTrace cfg ik half cw poses (onbOf onboarding ++ [⟨strategy, flagLand⟩])
        = some (onbOf onboarding ++ [⟨strategy, flagLand⟩] ++ ext) ∧
      out = onbOf onboarding ++ [⟨strategy, flagLand⟩]
              ++ (if cfg.includeLinearInterpolation then ext else ext.filter keepW) := by
  obtain ⟨onboarding, trace, hr, ht, _, _, ho⟩ := probeStrategy_some _ _ _ _ _ _ _ _ _ _ _ h
  obtain ⟨ext, he⟩ := cartesianTrace_prefix _ _ _ _ _ _ _ ht
  subst he
  refine ⟨onboarding, ext, hr, ht, ?_⟩
  rw [ho]
  cases cfg.includeLinearInterpolation
  · simp only [Bool.false_eq_true, if_false]
    rw [List.filter_append]
    congr 1
    exact filter_onb onboarding strategy
  · simp only [if_true]; rfl

omit [OpwNum R] in
theorem onb_head (onboarding : List (J6 R)) (from_ strategy : J6 R) (rest : List (AJoints R))
    (hh : onboarding.head? = some from_) (hl : onboarding.getLast? = some strategy) :
    ((onbOf onboarding ++ [(⟨strategy, flagLand⟩ : AJoints R)] ++ rest).head?).map (·.joints) = some from_ ∧
    (2 ≤ onboarding.length →
      (onbOf onboarding ++ [(⟨strategy, flagLand⟩ : AJoints R)] ++ rest).head? = some ⟨from_, flagOnboarding⟩) := by
  cases onboarding with
  | nil => simp at hh
  | cons a t =>
    simp only [List.head?_cons, Option.some.injEq] at hh
    subst hh
    cases t with
    | nil =>
      simp only [List.getLast?_singleton, Option.some.injEq] at hl
      subst hl
      simp [onbOf]
    | cons b t' => simp [onbOf]


theorem stroke_keyframes (cfg : CartCfg R) (ik : Iso R → J6 R → List (J6 R)) (half : R)
    (rrt : J6 R → J6 R → Option (List (J6 R))) (collides : J6 R → Bool) (stopped : Bool)
    (from_ strategy : J6 R) (land : Iso R) (steps : List (Iso R)) (park : Iso R) (sm sr : R)
    (ofNat : Nat → R) (out : List (AJoints R))
    (h : probeStrategy cfg ik half rrt (fun _ _ => none) collides stopped from_ strategy
          (withIntermediatePoses land steps park sm sr ofNat) = some out) :
    ∃ onboarding rest ws, rrt from_ strategy = some onboarding ∧
      out = onbOf onboarding ++ [⟨strategy, flagLand⟩] ++ rest ∧ ws.Sublist rest ∧
      List.Forall₂ (Realises ik) (steps.map (fun s => ⟨s, flagTrace⟩) ++ [⟨park, flagPark⟩]) ws := by
  obtain ⟨onboarding, ext, hr, ht, ho⟩ := probeStrategy_shape _ _ _ _ _ _ _ _ _ _ _ h
  obtain ⟨ext', ws0, he, hs, hf⟩ := cartesianTrace_keys _ _ _ _ _ _ ht
  have he' := List.append_cancel_left he
  subst he'
  have hf' := forall₂_filter (Realises ik) keepP keepW
    (fun a b hab => by show (!(hasFlag a.flags flagLinInterp)) = (!(hasFlag b.flags flagLinInterp)); rw [hab.1]) _ _ hf
  have hp : (withIntermediatePoses land steps park sm sr ofNat).tail.filter keepP
      = steps.map (fun s => ⟨s, flagTrace⟩) ++ [⟨park, flagPark⟩] := by
    have h1 := withIntermediatePoses_filter land steps park sm sr ofNat
    rw [withIntermediatePoses_eq] at h1 ⊢
    have hl : hasFlag flagLand flagLinInterp = false := by decide
    rw [List.filter_cons] at h1
    simp only [hl, Bool.not_false, if_true] at h1
    exact (List.cons.inj h1).2
  rw [hp] at hf'
  refine ⟨onboarding, _, ws0.filter keepW, hr, ho, ?_, hf'⟩
  cases cfg.includeLinearInterpolation
  · simp only [Bool.false_eq_true, if_false]
    exact hs.filter _
  · simp only [if_true]
    exact (List.filter_sublist).trans hs


/-- [R] every waypoint of one transition solves a pose whose translation lies on the straight
segment between the two poses of the transition -/
theorem segOk_on_segment (ik : Iso ℝ → J6 ℝ → List (J6 ℝ)) (half : ℝ) (h0 : 0 ≤ half) (h1 : half ≤ 1)
    (from_ to_ : APose ℝ) (seg : List (AJoints ℝ)) (h : SegOk ik half from_ to_ seg) :
    ∀ w ∈ seg, ∃ (p : APose ℝ) (prev : J6 ℝ) (s : ℝ), w.joints ∈ ik p.pose prev ∧ 0 ≤ s ∧ s ≤ 1 ∧
      p.pose.t = from_.pose.t.add ((to_.pose.t.sub from_.pose.t).scale s) := by
  obtain ⟨init, last, rfl, _, ⟨prev, hl⟩, hi⟩ := h
  intro w hw
  rw [List.mem_append, List.mem_singleton] at hw
  rcases hw with hw | rfl
  · obtain ⟨_, p, prev, hb, hm⟩ := hi w hw
    obtain ⟨s, hs0, hs1, e⟩ := bisect_on_segment half h0 h1 _ _ _ hb
    exact ⟨p, prev, s, hm, hs0, hs1, e⟩
  · obtain ⟨s, hs0, hs1, e⟩ := bisect_on_segment half h0 h1 _ _ _ (Bisect.target from_ to_)
    exact ⟨to_, prev, s, hl, hs0, hs1, e⟩

end Opw.Cart
