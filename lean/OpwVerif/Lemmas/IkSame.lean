/-
  Helper lemmas for C02e ("the answer set has the same size for the pose of each returned
  solution"): `inverse_intern` reads the requested pose only through its translation and its
  rotation MATRIX.

  * `wc_congr`, `thetaCandidates_congr`: the raw candidates depend on `pose.t` and `pose.q.toMat` only;
  * `normSq_of_isRot_toMat`, `unit_of_same`: a pose that is the same rigid motion as a unit pose is unit;
  * `angle_neg`, `angleTo_neg_left`: `angle_to` does not see the sign of the quaternion;
  * `comparePoses_congr_left`, `finishCandidate_congr`: the run-time cross-check against two unit
    poses that are the same rigid motion gives the same verdict;
  * `inverseIntern_congr`: the answer lists coincide.
-/
import OpwVerif.Lemmas.IkSound
namespace Opw.IkSame
open Opw Opw.Wrist Opw.C02 Opw.IkComplete Opw.IkSound

attribute [-simp] Opw.ofNatLit_real

/-- the wrist centre the solver computes depends on the translation and the rotation matrix only -/
theorem wc_congr (p : Params ℝ) {a b : Iso ℝ} (h : Iso.Same a b) : wc p a = wc p b := by
  unfold wc; rw [h.1, h.2]

/-- the raw candidates depend on the translation and the rotation matrix only -/
theorem thetaCandidates_congr (p : Params ℝ) {a b : Iso ℝ} (h : Iso.Same a b) :
    thetaCandidates p a = thetaCandidates p b := by
  rw [thetaCandidates_eq, thetaCandidates_eq, wc_congr p h, h.2]

/-- a quaternion whose `to_rotation_matrix` is a rotation matrix is a unit quaternion (the first
column of the matrix has squared length `normSq²`) -/
theorem normSq_of_isRot_toMat (q : Quat ℝ) (h : IsRot q.toMat) : q.normSq = 1 := by
  have h0 := h.eqs.hc00
  simp only [Quat.toMat] at h0
  have hn : 0 ≤ q.normSq := by
    unfold Quat.normSq
    nlinarith [mul_self_nonneg q.w, mul_self_nonneg q.i, mul_self_nonneg q.j, mul_self_nonneg q.k]
  have hsq : q.normSq * q.normSq = 1 := by
    rw [← h0]; unfold Quat.normSq; ring
  nlinarith

/-- being a unit quaternion is a property of the rigid motion -/
theorem unit_of_same {a b : Iso ℝ} (ha : a.q.normSq = 1) (h : Iso.Same a b) : b.q.normSq = 1 :=
  normSq_of_isRot_toMat _ (h.2 ▸ IsRot_toMat _ ha)

/-- `UnitQuaternion::angle` does not see the sign of the quaternion -/
theorem angle_neg (q : Quat ℝ) : Quat.angle q.neg = Quat.angle q := by
  simp only [Quat.angle, Quat.neg, Quat.imag, V3.norm, V3.normSq, V3.dot, nabs_real, abs_neg,
    neg_mul_neg]

theorem Quat.mul_conj_neg (x a : Quat ℝ) : x.mul a.neg.conj = (x.mul a.conj).neg := by
  apply Quat.ext' <;> simp only [Quat.mul, Quat.neg, Quat.conj] <;> ring

/-- `angle_to` from `−a` is `angle_to` from `a` (no unit assumption) -/
theorem angleTo_neg_left (a x : Quat ℝ) : Quat.angleTo a.neg x = Quat.angleTo a x := by
  unfold Quat.angleTo Quat.rotationTo
  rw [Quat.mul_conj_neg, angle_neg]

/-- the angle to a third quaternion is the same from two unit quaternions with one rotation matrix -/
theorem angleTo_congr_left (a b x : Quat ℝ) (ha : a.normSq = 1) (hb : b.normSq = 1)
    (h : a.toMat = b.toMat) : Quat.angleTo a x = Quat.angleTo b x := by
  rcases Quat.eq_or_eq_neg_of_toMat_eq a b ha hb h with e | e
  · rw [e]
  · rw [e, angleTo_neg_left]

/-- `compare_poses` against two unit poses that are the same rigid motion: the same verdict -/
theorem comparePoses_congr_left {a b : Iso ℝ} (ha : a.q.normSq = 1) (hb : b.q.normSq = 1)
    (h : Iso.Same a b) (x : Iso ℝ) (dT aT : ℝ) : comparePoses a x dT aT = comparePoses b x dT aT := by
  unfold comparePoses
  rw [h.1, angleTo_congr_left a.q b.q x.q ha hb h.2]

/-- the post-processing of one candidate gives the same result -/
theorem finishCandidate_congr (p : Params ℝ) {a b : Iso ℝ} (ha : a.q.normSq = 1)
    (hb : b.q.normSq = 1) (h : Iso.Same a b) (s : J6 ℝ) :
    finishCandidate p a s = finishCandidate p b s := by
  unfold finishCandidate
  simp only [comparePoses_congr_left ha hb h]

/-- `inverse_intern` returns the same list for two unit poses that are the same rigid motion -/
theorem inverseIntern_congr (p : Params ℝ) {a b : Iso ℝ} (ha : a.q.normSq = 1)
    (hb : b.q.normSq = 1) (h : Iso.Same a b) : inverseIntern p a = inverseIntern p b := by
  unfold inverseIntern
  rw [thetaCandidates_congr p h]
  congr 1
  funext t
  exact finishCandidate_congr p ha hb h _

end Opw.IkSame
