/-
  Tie between the model's `jacobianColumn` / `wrenchOfIso` (`Misc.lean`) and the column closure of `compute_jacobian` /
  the wrench of `Jacobian::torques` translated from the CURRENT source text (`Generated/SrcJac.lean`, rewritten by
  `tools/rs2lean_jac.py` on every run).  Generic in the number type.
-/
import OpwVerif.Generated.SrcJac
namespace Opw
variable {R : Type} [OpwNum R]

/-- one column of `compute_jacobian` -/
theorem jacobianColumnSrc_eq (fwd : J6 R → Iso R) (q : J6 R) (eps : R) (i : Nat) :
    SrcJac.jacobianColumnSrc fwd q eps i = ((jacobianColumn fwd q eps i).lin, (jacobianColumn fwd q eps i).ang) := rfl

/-- the wrench read by `Jacobian::torques` -/
theorem wrenchOfIsoSrc_eq (i : Iso R) : SrcJac.wrenchOfIsoSrc i = ((wrenchOfIso i).lin, (wrenchOfIso i).ang) := rfl

end Opw
