/-
  Helper lemmas for C15b: the numeric Jacobian of `forward`, column by column, against the geometric
  Jacobian of the link chain (all six joints).

  For joint `i` (0-based, the index used by `jacobianColumn`):
   * `preRot q i`    — product of the elementary rotations before the joint (`1, rot1, …, rot5`);
   * `linkOrg p q i` — origin of the joint's link (`org1 … org6`);
   * `localAxis i`   — the joint's axis in its own frame (`ẑ` for joints 1, 4, 6; `ŷ` for 2, 3, 5);
   * `worldAxis q i = preRot q i · localAxis i` — the joint axis in the world frame;
   * `jointRot q i φ = preRot · R_axis(φ) · preRotᵀ` — the rotation by `φ` about the world axis.
  Everything here is over `ℝ`.
-/
import OpwVerif.Props.C15
import Mathlib.Analysis.SpecialFunctions.Trigonometric.Bounds
namespace Opw.JacCols
open Opw Opw.Limits Opw.MiscReal

attribute [-simp] Opw.ofNatLit_real

/-! ### 0. Small vector/matrix algebra -/

/-- the local y axis -/
def ey : V3 ℝ := ⟨0, 1, 0⟩
/-- the local z axis (ordinary real literals) -/
def ez : V3 ℝ := ⟨0, 0, 1⟩

theorem ez_eq : (V3.ez : V3 ℝ) = ez := by
  apply V3.ext' <;> simp only [V3.ez, ez, lit0, lit1]

theorem M3.mulVec_scale (m : M3 ℝ) (a : V3 ℝ) (s : ℝ) : m.mulVec (a.scale s) = (m.mulVec a).scale s := by
  apply V3.ext' <;> simp only [M3.mulVec, V3.scale] <;> ring

theorem V3.sub_self_add (o t : V3 ℝ) : o.add (t.sub o) = t := by
  apply V3.ext' <;> simp only [V3.add, V3.sub] <;> ring

theorem rz_zero : M3.rz (Real.sin 0) (Real.cos 0) = (M3.one : M3 ℝ) := by
  apply M3.ext' <;> simp only [M3.rz, M3.one, Real.sin_zero, Real.cos_zero, lit0, lit1, neg_zero]

theorem ry_zero : M3.ry (Real.sin 0) (Real.cos 0) = (M3.one : M3 ℝ) := by
  apply M3.ext' <;> simp only [M3.ry, M3.one, Real.sin_zero, Real.cos_zero, lit0, lit1, neg_zero]

theorem rz_add (a e : ℝ) : M3.rz (Real.sin (a + e)) (Real.cos (a + e)) =
    (M3.rz (Real.sin e) (Real.cos e)).mul (M3.rz (Real.sin a) (Real.cos a)) := by
  rw [M3.rz_mul_rz, Real.sin_add, Real.cos_add]
  congr 1 <;> ring

theorem ry_add (a e : ℝ) : M3.ry (Real.sin (a + e)) (Real.cos (a + e)) =
    (M3.ry (Real.sin e) (Real.cos e)).mul (M3.ry (Real.sin a) (Real.cos a)) := by
  rw [M3.ry_mul_ry, Real.sin_add, Real.cos_add]
  congr 1 <;> ring

theorem rz_mulVec_ez (s c : ℝ) : (M3.rz s c).mulVec ez = ez := by
  apply V3.ext' <;> simp only [M3.mulVec, M3.rz, ez, lit0, lit1] <;> ring

theorem ry_mulVec_ey (s c : ℝ) : (M3.ry s c).mulVec ey = ey := by
  apply V3.ext' <;> simp only [M3.mulVec, M3.ry, ey, lit0, lit1] <;> ring

/-! ### 1. A rigid motion about a fixed point, propagated down the chain -/

/-- conjugate of `r` by `a`: `a r aᵀ` -/
noncomputable def conj (a r : M3 ℝ) : M3 ℝ := (a.mul r).mul a.transpose

theorem conj_mul_mul {a : M3 ℝ} (ha : a.transpose.mul a = M3.one) (r m : M3 ℝ) :
    (conj a r).mul (a.mul m) = a.mul (r.mul m) := by
  unfold conj
  rw [M3.mul_assoc (a.mul r), ← M3.mul_assoc a.transpose, ha, M3.one_mul, M3.mul_assoc]

theorem conj_one_right {a : M3 ℝ} (ha : a.mul a.transpose = M3.one) : conj a M3.one = M3.one := by
  unfold conj; rw [M3.mul_one, ha]

theorem conj_one_left (r : M3 ℝ) : conj M3.one r = r := by
  unfold conj; rw [M3.one_mul, M3.transpose_one, M3.mul_one]

theorem IsRot_conj {a r : M3 ℝ} (ha : IsRot a) (hr : IsRot r) : IsRot (conj a r) :=
  (ha.mul hr).mul ha.transpose

/-- link pose `(r', t')` is link pose `(r, t)` moved by the rotation `E` about the point `o` -/
structure Moved (E : M3 ℝ) (o : V3 ℝ) (r : M3 ℝ) (t : V3 ℝ) (r' : M3 ℝ) (t' : V3 ℝ) : Prop where
  rot : r' = E.mul r
  org : t' = o.add (E.mulVec (t.sub o))

/-- the next link (same local rotation `m`, same offset `d`) is moved in the same way -/
theorem Moved.step {E : M3 ℝ} {o : V3 ℝ} {r : M3 ℝ} {t : V3 ℝ} {r' : M3 ℝ} {t' : V3 ℝ}
    (h : Moved E o r t r' t') (m : M3 ℝ) (d : V3 ℝ) :
    Moved E o (r.mul m) (t.add (r.mulVec d)) (r'.mul m) (t'.add (r'.mulVec d)) := by
  refine ⟨?_, ?_⟩
  · rw [h.rot, M3.mul_assoc]
  · rw [h.rot, h.org]
    apply V3.ext' <;> simp only [V3.add, V3.sub, M3.mulVec, M3.mul] <;> ring

/-- the joint's own link: the frame before it is `a`, its origin `o` is unchanged, its rotation goes
from `a · R(θ)` to `a · (R(ε) · R(θ))` -/
theorem Moved.base {a : M3 ℝ} (ha : a.transpose.mul a = M3.one) (re rt : M3 ℝ) (o : V3 ℝ) :
    Moved (conj a re) o (a.mul rt) o (a.mul (re.mul rt)) o := by
  refine ⟨(conj_mul_mul ha re rt).symm, ?_⟩
  apply V3.ext' <;> simp only [V3.add, V3.sub, M3.mulVec] <;> ring

/-! ### 2. The chain: frames before each joint, origins, axes -/

theorem IsRot_rot1 (q : J6 ℝ) : IsRot (rot1 q) := IsRot_rz _
theorem IsRot_rot2 (q : J6 ℝ) : IsRot (rot2 q) := (IsRot_rot1 q).mul (IsRot_ry _)
theorem IsRot_rot3 (q : J6 ℝ) : IsRot (rot3 q) := (IsRot_rot2 q).mul (IsRot_ry _)
theorem IsRot_rot4 (q : J6 ℝ) : IsRot (rot4 q) := (IsRot_rot3 q).mul (IsRot_rz _)
theorem IsRot_rot5 (q : J6 ℝ) : IsRot (rot5 q) := (IsRot_rot4 q).mul (IsRot_ry _)

/-- product of the elementary rotations before joint `i` (0-based) -/
noncomputable def preRot (q : J6 ℝ) : Nat → M3 ℝ
  | 0 => M3.one | 1 => rot1 q | 2 => rot2 q | 3 => rot3 q | 4 => rot4 q | _ => rot5 q

/-- rotation of link `i` (0-based): the frame after joint `i` -/
noncomputable def linkRot (q : J6 ℝ) : Nat → M3 ℝ
  | 0 => rot1 q | 1 => rot2 q | 2 => rot3 q | 3 => rot4 q | 4 => rot5 q | _ => rot6 q

/-- origin of link `i` (0-based): a point on the axis of joint `i` -/
noncomputable def linkOrg (p : Params ℝ) (q : J6 ℝ) : Nat → V3 ℝ
  | 0 => org1 p q | 1 => org2 p q | 2 => org3 p q | 3 => org4 p q | 4 => org5 p q | _ => org6 p q

/-- axis of joint `i` in its own frame: `ŷ` for joints 2, 3, 5 (indices 1, 2, 4), else `ẑ` -/
def localAxis : Nat → V3 ℝ
  | 1 => ey | 2 => ey | 4 => ey | _ => ez

/-- elementary rotation of joint `i` by the angle `φ` -/
noncomputable def localRot : Nat → ℝ → M3 ℝ
  | 1, φ => M3.ry (Real.sin φ) (Real.cos φ)
  | 2, φ => M3.ry (Real.sin φ) (Real.cos φ)
  | 4, φ => M3.ry (Real.sin φ) (Real.cos φ)
  | _, φ => M3.rz (Real.sin φ) (Real.cos φ)

/-- axis of joint `i` in the world frame -/
noncomputable def worldAxis (q : J6 ℝ) (i : Nat) : V3 ℝ := (preRot q i).mulVec (localAxis i)

/-- rotation by `φ` about the world axis of joint `i`: `A R(φ) Aᵀ` -/
noncomputable def jointRot (q : J6 ℝ) (i : Nat) (φ : ℝ) : M3 ℝ := conj (preRot q i) (localRot i φ)

theorem six_cases {i : Nat} (hi : i < 6) : i = 0 ∨ i = 1 ∨ i = 2 ∨ i = 3 ∨ i = 4 ∨ i = 5 := by omega

theorem IsRot_preRot (q : J6 ℝ) (i : Nat) : IsRot (preRot q i) := by
  unfold preRot
  split
  · exact IsRot_one
  · exact IsRot_rot1 q
  · exact IsRot_rot2 q
  · exact IsRot_rot3 q
  · exact IsRot_rot4 q
  · exact IsRot_rot5 q

theorem IsRot_localRot (i : Nat) (φ : ℝ) : IsRot (localRot i φ) := by
  unfold localRot
  split
  · exact IsRot_ry _
  · exact IsRot_ry _
  · exact IsRot_ry _
  · exact IsRot_rz _

theorem IsRot_jointRot (q : J6 ℝ) (i : Nat) (φ : ℝ) : IsRot (jointRot q i φ) :=
  IsRot_conj (IsRot_preRot q i) (IsRot_localRot i φ)

theorem localRot_zero (i : Nat) : localRot i 0 = M3.one := by
  unfold localRot
  split
  · exact ry_zero
  · exact ry_zero
  · exact ry_zero
  · exact rz_zero

theorem localRot_add (i : Nat) (a e : ℝ) : localRot i (a + e) = (localRot i e).mul (localRot i a) := by
  unfold localRot
  split
  · exact ry_add a e
  · exact ry_add a e
  · exact ry_add a e
  · exact rz_add a e

/-- the joint's own rotation fixes its axis -/
theorem localRot_mulVec_axis (i : Nat) (φ : ℝ) : (localRot i φ).mulVec (localAxis i) = localAxis i := by
  unfold localRot localAxis
  split
  · exact ry_mulVec_ey _ _
  · exact ry_mulVec_ey _ _
  · exact ry_mulVec_ey _ _
  · rename_i h1 h2 h4
    split
    · exact (h1 rfl).elim
    · exact (h2 rfl).elim
    · exact (h4 rfl).elim
    · exact rz_mulVec_ez _ _

theorem jointRot_zero (q : J6 ℝ) (i : Nat) : jointRot q i 0 = M3.one := by
  unfold jointRot; rw [localRot_zero]; exact conj_one_right (IsRot_preRot q i).mt

theorem localAxis_normSq (i : Nat) : (localAxis i).normSq = 1 := by
  unfold localAxis
  split <;> simp only [V3.normSq, V3.dot, ey, ez] <;> ring

theorem worldAxis_normSq (q : J6 ℝ) (i : Nat) : (worldAxis q i).normSq = 1 := by
  unfold worldAxis; rw [(IsRot_preRot q i).normSq_mulVec, localAxis_normSq]

/-- the link frame after joint `i` is the frame before it times the joint's rotation -/
theorem linkRot_eq (q : J6 ℝ) {i : Nat} (hi : i < 6) :
    linkRot q i = (preRot q i).mul (localRot i (q.get i)) := by
  rcases six_cases hi with rfl | rfl | rfl | rfl | rfl | rfl
  · exact (M3.one_mul _).symm
  all_goals rfl

/-- the world axis of joint `i` is also the link frame applied to the local axis -/
theorem linkRot_mulVec_axis (q : J6 ℝ) {i : Nat} (hi : i < 6) :
    (linkRot q i).mulVec (localAxis i) = worldAxis q i := by
  rw [linkRot_eq q hi, M3.mulVec_mulVec, localRot_mulVec_axis]; rfl

/-! ### 3. Perturbing joint `i` in θ-space rotates the tool about the joint's world axis -/

/-- the joint's own link under the perturbation -/
theorem moved_link (p : Params ℝ) (q : J6 ℝ) {i : Nat} (hi : i < 6) (e : ℝ) :
    Moved (jointRot q i e) (linkOrg p q i) (linkRot q i) (linkOrg p q i)
      (linkRot (q.set i (q.get i + e)) i) (linkOrg p (q.set i (q.get i + e)) i) := by
  have key : ∀ (a : M3 ℝ), IsRot a → ∀ (o : V3 ℝ),
      Moved (conj a (localRot i e)) o (a.mul (localRot i (q.get i))) o
        (a.mul (localRot i (q.get i + e))) o := by
    intro a ha o
    rw [localRot_add]
    exact Moved.base ha.tm _ _ o
  have h := key (preRot q i) (IsRot_preRot q i) (linkOrg p q i)
  rw [← linkRot_eq q hi] at h
  rcases six_cases hi with rfl | rfl | rfl | rfl | rfl | rfl
  · have e1 : linkRot (q.set 0 (q.get 0 + e)) 0 = (preRot q 0).mul (localRot 0 (q.get 0 + e)) :=
      (M3.one_mul _).symm
    rw [e1]; exact h
  all_goals exact h

/-- [θ-space, all joints] adding `e` to θᵢ moves the tool frame by the rotation `jointRot q i e` about
the origin of link `i` -/
theorem moved_tool (p : Params ℝ) (q : J6 ℝ) {i : Nat} (hi : i < 6) (e : ℝ) :
    Moved (jointRot q i e) (linkOrg p q i) (rot6 q) (org6 p q)
      (rot6 (q.set i (q.get i + e))) (org6 p (q.set i (q.get i + e))) := by
  have h := moved_link p q hi e
  rcases six_cases hi with rfl | rfl | rfl | rfl | rfl | rfl
  · exact (((((h.step _ ⟨p.a1, p.b, 0⟩).step _ ⟨0, 0, p.c2⟩).step _ ⟨p.a2, 0, 0⟩).step _
      ⟨0, 0, p.c3⟩).step _ ⟨0, 0, p.c4⟩)
  · exact ((((h.step _ ⟨0, 0, p.c2⟩).step _ ⟨p.a2, 0, 0⟩).step _ ⟨0, 0, p.c3⟩).step _ ⟨0, 0, p.c4⟩)
  · exact (((h.step _ ⟨p.a2, 0, 0⟩).step _ ⟨0, 0, p.c3⟩).step _ ⟨0, 0, p.c4⟩)
  · exact ((h.step _ ⟨0, 0, p.c3⟩).step _ ⟨0, 0, p.c4⟩)
  · exact (h.step _ ⟨0, 0, p.c4⟩)
  · exact h

/-! ### 4. Derivative of the rotation about the joint's world axis -/

/-- componentwise derivative of a vector-valued function of one real variable -/
def HasDerivAtV (f : ℝ → V3 ℝ) (f' : V3 ℝ) (x : ℝ) : Prop :=
  HasDerivAt (fun e => (f e).x) f'.x x ∧ HasDerivAt (fun e => (f e).y) f'.y x ∧
    HasDerivAt (fun e => (f e).z) f'.z x

theorem HasDerivAtV.mulVec {f : ℝ → V3 ℝ} {f' : V3 ℝ} {x : ℝ} (h : HasDerivAtV f f' x) (m : M3 ℝ) :
    HasDerivAtV (fun e => m.mulVec (f e)) (m.mulVec f') x := by
  obtain ⟨hx, hy, hz⟩ := h
  refine ⟨?_, ?_, ?_⟩
  · exact ((hx.const_mul m.m00).add (hy.const_mul m.m01)).add (hz.const_mul m.m02)
  · exact ((hx.const_mul m.m10).add (hy.const_mul m.m11)).add (hz.const_mul m.m12)
  · exact ((hx.const_mul m.m20).add (hy.const_mul m.m21)).add (hz.const_mul m.m22)

theorem hasDerivAt_comp_mul {g : ℝ → ℝ} {g' : ℝ} (hg : HasDerivAt g g' 0) (s : ℝ) :
    HasDerivAt (fun e => g (e * s)) (g' * s) 0 := by
  have hg' : HasDerivAt g g' ((fun e : ℝ => e * s) 0) := by
    show HasDerivAt g g' (0 * s)
    rw [zero_mul]; exact hg
  exact HasDerivAt.comp (0 : ℝ) hg' (hasDerivAt_mul_const s)

/-- reparametrisation `e ↦ e · s` (the joint's sign) -/
theorem HasDerivAtV.comp_mul {f : ℝ → V3 ℝ} {f' : V3 ℝ} (h : HasDerivAtV f f' 0) (s : ℝ) :
    HasDerivAtV (fun e => f (e * s)) (f'.scale s) 0 :=
  ⟨hasDerivAt_comp_mul h.1 s, hasDerivAt_comp_mul h.2.1 s, hasDerivAt_comp_mul h.2.2 s⟩

theorem rz_hasDerivAtV (w : V3 ℝ) :
    HasDerivAtV (fun e => (M3.rz (Real.sin e) (Real.cos e)).mulVec w) (ez.cross w) 0 := by
  have h := C15.rz_hasDerivAt w
  rw [ez_eq] at h
  exact h

theorem ry_hasDerivAtV (w : V3 ℝ) :
    HasDerivAtV (fun e => (M3.ry (Real.sin e) (Real.cos e)).mulVec w) (ey.cross w) 0 := by
  have hs := Real.hasDerivAt_sin 0
  have hc := Real.hasDerivAt_cos 0
  unfold HasDerivAtV
  simp only [M3.mulVec, M3.ry, V3.cross, ey, lit0, lit1]
  refine ⟨?_, ?_, ?_⟩
  · have h := ((hc.mul_const w.x).add_const (0 * w.y)).add (hs.mul_const w.z)
    have e1 : -Real.sin 0 * w.x + Real.cos 0 * w.z = 1 * w.z - 0 * w.y := by simp
    rw [e1] at h
    exact h
  · have h := (hasDerivAt_const (0 : ℝ) (0 * w.x + 1 * w.y + 0 * w.z))
    have e1 : 0 * w.x - 0 * w.z = (0 : ℝ) := by simp
    rw [e1]
    exact h
  · have h := ((hs.neg.mul_const w.x).add_const (0 * w.y)).add (hc.mul_const w.z)
    have e1 : -Real.cos 0 * w.x + -Real.sin 0 * w.z = 0 * w.y - 1 * w.x := by simp
    rw [e1] at h
    exact h

/-- each joint is a `ŷ` joint or a `ẑ` joint -/
theorem localRot_axis_cases (i : Nat) :
    ((localRot i = fun φ => M3.ry (Real.sin φ) (Real.cos φ)) ∧ localAxis i = ey) ∨
    ((localRot i = fun φ => M3.rz (Real.sin φ) (Real.cos φ)) ∧ localAxis i = ez) := by
  by_cases h1 : i = 1
  · subst h1; exact Or.inl ⟨rfl, rfl⟩
  by_cases h2 : i = 2
  · subst h2; exact Or.inl ⟨rfl, rfl⟩
  by_cases h4 : i = 4
  · subst h4; exact Or.inl ⟨rfl, rfl⟩
  right
  constructor
  · funext φ
    unfold localRot
    split
    · exact (h1 rfl).elim
    · exact (h2 rfl).elim
    · exact (h4 rfl).elim
    · rfl
  · unfold localAxis
    split
    · exact (h1 rfl).elim
    · exact (h2 rfl).elim
    · exact (h4 rfl).elim
    · rfl

theorem localRot_hasDerivAtV (i : Nat) (w : V3 ℝ) :
    HasDerivAtV (fun e => (localRot i e).mulVec w) ((localAxis i).cross w) 0 := by
  rcases localRot_axis_cases i with ⟨h1, h2⟩ | ⟨h1, h2⟩
  · rw [h1, h2]; exact ry_hasDerivAtV w
  · rw [h1, h2]; exact rz_hasDerivAtV w

/-- [all joints] `d/dφ (E(φ) v) = a × v` at `φ = 0`, `a` the joint's world axis -/
theorem jointRot_hasDerivAtV (q : J6 ℝ) (i : Nat) (v : V3 ℝ) :
    HasDerivAtV (fun e => (jointRot q i e).mulVec v) ((worldAxis q i).cross v) 0 := by
  have hA := IsRot_preRot q i
  have h := (localRot_hasDerivAtV i ((preRot q i).transpose.mulVec v)).mulVec (preRot q i)
  have hf : (fun e => (jointRot q i e).mulVec v) =
      fun e => (preRot q i).mulVec ((localRot i e).mulVec ((preRot q i).transpose.mulVec v)) := by
    funext e
    unfold jointRot conj
    rw [M3.mulVec_mulVec, M3.mulVec_mulVec]
  have hd : (worldAxis q i).cross v =
      (preRot q i).mulVec ((localAxis i).cross ((preRot q i).transpose.mulVec v)) := by
    rw [← isRot_cross_mulVec hA, ← M3.mulVec_mulVec, hA.mt, M3.one_mulVec]
    rfl
  rw [hf, hd]
  exact h

/-- the finite difference of `E(ε s) v` in `ε` converges to `s · (a × v)`, componentwise -/
theorem jointRot_slope_tendsto (q : J6 ℝ) (i : Nat) (v : V3 ℝ) (s : ℝ) :
    Filter.Tendsto (fun e : ℝ => ((((jointRot q i (e * s)).mulVec v).sub v).divs e).x)
      (nhdsWithin 0 {0}ᶜ) (nhds (((worldAxis q i).cross v).scale s).x) ∧
    Filter.Tendsto (fun e : ℝ => ((((jointRot q i (e * s)).mulVec v).sub v).divs e).y)
      (nhdsWithin 0 {0}ᶜ) (nhds (((worldAxis q i).cross v).scale s).y) ∧
    Filter.Tendsto (fun e : ℝ => ((((jointRot q i (e * s)).mulVec v).sub v).divs e).z)
      (nhdsWithin 0 {0}ᶜ) (nhds (((worldAxis q i).cross v).scale s).z) := by
  obtain ⟨hx, hy, hz⟩ := (jointRot_hasDerivAtV q i v).comp_mul s
  have h0 : (jointRot q i (0 * s)).mulVec v = v := by
    rw [zero_mul, jointRot_zero, M3.one_mulVec]
  have key : ∀ (f : V3 ℝ → ℝ) (_ : ∀ a b : V3 ℝ, ∀ e : ℝ, f ((a.sub b).divs e) = (f a - f b) / e),
      (fun e : ℝ => f ((((jointRot q i (e * s)).mulVec v).sub v).divs e)) =
        slope (fun e : ℝ => f ((jointRot q i (e * s)).mulVec v)) 0 := by
    intro f hf
    funext e
    rw [hf, slope_def_field, h0, sub_zero]
  refine ⟨?_, ?_, ?_⟩
  · rw [key V3.x (fun _ _ _ => rfl)]; exact hasDerivAt_iff_tendsto_slope.mp hx
  · rw [key V3.y (fun _ _ _ => rfl)]; exact hasDerivAt_iff_tendsto_slope.mp hy
  · rw [key V3.z (fun _ _ _ => rfl)]; exact hasDerivAt_iff_tendsto_slope.mp hz

/-! ### 5. Scaled axis of a rotation about an arbitrary unit axis -/

/-- the quaternion `(cos h, sin h · a)`: for a unit axis `a`, the rotation by `2h` about `a` -/
noncomputable def axisQuat (a : V3 ℝ) (h : ℝ) : Quat ℝ :=
  ⟨Real.cos h, a.x * Real.sin h, a.y * Real.sin h, a.z * Real.sin h⟩

theorem rotZ_eq_axisQuat (φ : ℝ) : Quat.rotZ φ = axisQuat ez (φ / 2) := by
  rw [Quat.rotZ_eq]
  apply Quat.ext' <;> simp only [axisQuat, ez] <;> ring

theorem rotY_eq_axisQuat (φ : ℝ) : Quat.rotY φ = axisQuat ey (φ / 2) := by
  rw [Quat.rotY_eq]
  apply Quat.ext' <;> simp only [axisQuat, ey] <;> ring

theorem normSq_axisQuat (a : V3 ℝ) (ha : a.normSq = 1) (h : ℝ) : (axisQuat a h).normSq = 1 := by
  rw [V3.normSq_eq] at ha
  have h1 := Real.sin_sq_add_cos_sq h
  simp only [axisQuat, Quat.normSq]
  linear_combination h1 + (Real.sin h) ^ 2 * ha

/-- conjugating an axis quaternion by a unit quaternion rotates the axis -/
theorem conj_axisQuat (q : Quat ℝ) (hq : q.normSq = 1) (a : V3 ℝ) (h : ℝ) :
    (q.mul (axisQuat a h)).mul q.conj = axisQuat (q.toMat.mulVec a) h := by
  rw [Quat.normSq_eq] at hq
  apply Quat.ext' <;> simp only [Quat.mul, Quat.conj, axisQuat, Quat.toMat, M3.mulVec, lit2]
  · linear_combination (Real.cos h) * hq
  · ring
  · ring
  · ring

/-- scaled axis of `± (cos h, sin h · a)` for a unit axis `a` and `|h| < π/2`: it is `2h · a` -/
theorem scaledAxis_axisQuat_core (σ h : ℝ) (hσ : σ = 1 ∨ σ = -1) (hh : |h| < Real.pi / 2)
    (a : V3 ℝ) (ha : a.normSq = 1) :
    (⟨σ * Real.cos h, σ * (a.x * Real.sin h), σ * (a.y * Real.sin h), σ * (a.z * Real.sin h)⟩ :
      Quat ℝ).scaledAxis = a.scale (2 * h) := by
  have ha' := ha
  rw [V3.normSq_eq] at ha'
  have hc : 0 < Real.cos h :=
    Real.cos_pos_of_mem_Ioo ⟨by linarith [(abs_lt.mp hh).1], (abs_lt.mp hh).2⟩
  have hv : (if σ * Real.cos h ≥ 0
      then (⟨σ * (a.x * Real.sin h), σ * (a.y * Real.sin h), σ * (a.z * Real.sin h)⟩ : V3 ℝ)
      else (⟨σ * (a.x * Real.sin h), σ * (a.y * Real.sin h), σ * (a.z * Real.sin h)⟩ : V3 ℝ).neg) =
      a.scale (Real.sin h) := by
    rcases hσ with rfl | rfl
    · rw [if_pos (by linarith)]
      apply V3.ext' <;> simp only [V3.scale] <;> ring
    · rw [if_neg (by linarith)]
      apply V3.ext' <;> simp only [V3.scale, V3.neg] <;> ring
  have hang : (⟨σ * Real.cos h, σ * (a.x * Real.sin h), σ * (a.y * Real.sin h),
      σ * (a.z * Real.sin h)⟩ : Quat ℝ).angle = |h| * 2 := by
    have hn : (⟨σ * (a.x * Real.sin h), σ * (a.y * Real.sin h), σ * (a.z * Real.sin h)⟩ :
        V3 ℝ).norm = |Real.sin h| := by
      rw [V3.norm_eq, V3.normSq_eq]
      simp only
      have e1 : σ * (a.x * Real.sin h) * (σ * (a.x * Real.sin h)) +
          σ * (a.y * Real.sin h) * (σ * (a.y * Real.sin h)) +
          σ * (a.z * Real.sin h) * (σ * (a.z * Real.sin h)) = (Real.sin h) ^ 2 := by
        rcases hσ with rfl | rfl <;> linear_combination (Real.sin h) ^ 2 * ha'
      rw [e1]
      exact Real.sqrt_sq_eq_abs _
    have hw : |σ * Real.cos h| = Real.cos h := by
      rcases hσ with rfl | rfl
      · rw [one_mul, abs_of_pos hc]
      · rw [neg_one_mul, abs_neg, abs_of_pos hc]
    simp only [Quat.angle, Quat.imag, natan2_real, nabs_real, lit2_real]
    rw [hn, hw, arg_cos_abs_sin h hh]
  unfold Quat.scaledAxis
  simp only [Quat.imag, lit0_real]
  rw [hv, hang]
  have hsq : (a.scale (Real.sin h)).normSq = Real.sin h * Real.sin h := by
    rw [V3.normSq_eq]
    simp only [V3.scale]
    linear_combination (Real.sin h * Real.sin h) * ha'
  rw [hsq]
  by_cases h0 : h = 0
  · subst h0
    rw [Real.sin_zero, if_neg (by norm_num)]
    apply V3.ext' <;> simp only [V3.zero, V3.scale, lit0_real] <;> ring
  · have hpi := Real.pi_pos
    have hs : Real.sin h ≠ 0 := by
      intro hs
      rcases lt_or_gt_of_ne h0 with hl | hl
      · have := Real.sin_neg_of_neg_of_neg_pi_lt hl (by linarith [(abs_lt.mp hh).1]); linarith
      · have := Real.sin_pos_of_pos_of_lt_pi hl (by linarith [(abs_lt.mp hh).2]); linarith
    rw [if_pos (mul_self_pos.mpr hs)]
    simp only [nsqrt_real]
    rw [← sq, Real.sqrt_sq_eq_abs]
    rcases lt_or_gt_of_ne h0 with hl | hl
    · have := Real.sin_neg_of_neg_of_neg_pi_lt hl (by linarith [(abs_lt.mp hh).1])
      rw [abs_of_neg this, abs_of_neg hl]
      apply V3.ext' <;> simp only [V3.divs, V3.scale] <;> field_simp
    · have := Real.sin_pos_of_pos_of_lt_pi hl (by linarith [(abs_lt.mp hh).2])
      rw [abs_of_pos this, abs_of_pos hl]
      apply V3.ext' <;> simp only [V3.divs, V3.scale] <;> field_simp

/-- scaled axis of a unit quaternion whose rotation matrix is that of the rotation by `φ` about the
unit axis `a`, `|φ| < π`: it is `φ · a` (whichever of the two quaternions `± axisQuat a (φ/2)` it is) -/
theorem scaledAxis_of_toMat_axisQuat (r : Quat ℝ) (hr : r.normSq = 1) (φ : ℝ) (hφ : |φ| < Real.pi)
    (a : V3 ℝ) (ha : a.normSq = 1) (hm : r.toMat = (axisQuat a (φ / 2)).toMat) :
    r.scaledAxis = a.scale φ := by
  have hh : |φ / 2| < Real.pi / 2 := by
    rw [abs_div, abs_of_pos (by norm_num : (0:ℝ) < 2)]; linarith
  have e2 : 2 * (φ / 2) = φ := by ring
  rcases Quat.eq_or_eq_neg_of_toMat_eq r (axisQuat a (φ / 2)) hr (normSq_axisQuat a ha _) hm with h | h
  · have := scaledAxis_axisQuat_core 1 (φ / 2) (Or.inl rfl) hh a ha
    rw [e2] at this
    rw [h, ← this]
    congr 1
    apply Quat.ext' <;> simp only [axisQuat] <;> ring
  · have := scaledAxis_axisQuat_core (-1) (φ / 2) (Or.inr rfl) hh a ha
    rw [e2] at this
    rw [h, ← this]
    congr 1
    apply Quat.ext' <;> simp only [axisQuat, Quat.neg] <;> ring

/-- the quaternion of the elementary rotation of joint `i` -/
noncomputable def localQuat (i : Nat) (φ : ℝ) : Quat ℝ := axisQuat (localAxis i) (φ / 2)

theorem toMat_localQuat (i : Nat) (φ : ℝ) : (localQuat i φ).toMat = localRot i φ := by
  unfold localQuat
  rcases localRot_axis_cases i with ⟨h1, h2⟩ | ⟨h1, h2⟩
  · rw [h1, h2, ← rotY_eq_axisQuat, Quat.toMat_rotY]
  · rw [h1, h2, ← rotZ_eq_axisQuat, Quat.toMat_rotZ]

/-- [all joints] the rotation `E(φ)` about the joint's world axis is the rotation matrix of the axis
quaternion of that axis -/
theorem jointRot_eq_toMat (q : J6 ℝ) (i : Nat) (φ : ℝ) :
    jointRot q i φ = (axisQuat (worldAxis q i) (φ / 2)).toMat := by
  have hA := IsRot_preRot q i
  have hu := Quat.normSq_ofMat _ hA
  have hm := Quat.toMat_ofMat _ hA
  have h := congrArg Quat.toMat (conj_axisQuat (Quat.ofMat (preRot q i)) hu (localAxis i) (φ / 2))
  rw [Quat.toMat_mul, Quat.toMat_mul, Quat.toMat_conj, hm] at h
  unfold jointRot conj worldAxis
  rw [← h, ← toMat_localQuat]
  rfl

/-- [all joints] a unit quaternion whose matrix is `E(φ)`, `|φ| < π`, has scaled axis `φ · a` -/
theorem scaledAxis_of_toMat_jointRot (q : J6 ℝ) (i : Nat) (r : Quat ℝ) (hr : r.normSq = 1) (φ : ℝ)
    (hφ : |φ| < Real.pi) (hm : r.toMat = jointRot q i φ) :
    r.scaledAxis = (worldAxis q i).scale φ :=
  scaledAxis_of_toMat_axisQuat r hr φ hφ _ (worldAxis_normSq q i) (by rw [hm, jointRot_eq_toMat])

/-! ### 6. `forward` under a perturbation of joint `i` (any sign/offset convention) -/

theorem J6.ext' {a b : J6 ℝ} (h1 : a.j1 = b.j1) (h2 : a.j2 = b.j2) (h3 : a.j3 = b.j3)
    (h4 : a.j4 = b.j4) (h5 : a.j5 = b.j5) (h6 : a.j6 = b.j6) : a = b := by
  cases a; cases b; simp_all

/-- θ-space image of a perturbation of joint `i`: θᵢ moves by `e · signᵢ` -/
theorem thetaOf_set (p : Params ℝ) (j : J6 ℝ) {i : Nat} (hi : i < 6) (e : ℝ) :
    thetaOf p (j.set i (j.get i + e)) =
      (thetaOf p j).set i ((thetaOf p j).get i + e * p.signs.get i) := by
  rcases six_cases hi with rfl | rfl | rfl | rfl | rfl | rfl <;>
    apply J6.ext' <;> simp only [thetaOf, J6.set, J6.get] <;> ring

theorem forward_toMat (p : Params ℝ) (j : J6 ℝ) : (forward p j).q.toMat = rot6 (thetaOf p j) := by
  show (Quat.ofMat (forwardTheta p (thetaOf p j)).1).toMat = _
  rw [forwardTheta_rot, Quat.toMat_ofMat _ (IsRot_rot6 _)]

theorem forward_unit (p : Params ℝ) (j : J6 ℝ) : (forward p j).q.normSq = 1 := by
  show (Quat.ofMat (forwardTheta p (thetaOf p j)).1).normSq = 1
  rw [forwardTheta_rot]; exact Quat.normSq_ofMat _ (IsRot_rot6 _)

theorem forward_t (p : Params ℝ) (j : J6 ℝ) : (forward p j).t = org6 p (thetaOf p j) := by
  show (forwardTheta p (thetaOf p j)).2 = _
  rw [forwardTheta_tr]

/-- [all joints] adding `e` to joint `i` rotates the tool pose by `E(e · signᵢ)` about the origin of
link `i`; the relative rotation `q(j + e eᵢ) · q(j)⁻¹` is a unit quaternion with matrix `E(e · signᵢ)` -/
theorem forward_perturb (p : Params ℝ) (j : J6 ℝ) {i : Nat} (hi : i < 6) (e : ℝ) :
    (forward p (j.set i (j.get i + e))).t =
      (linkOrg p (thetaOf p j) i).add ((jointRot (thetaOf p j) i (e * p.signs.get i)).mulVec
        ((forward p j).t.sub (linkOrg p (thetaOf p j) i))) ∧
    (forward p (j.set i (j.get i + e))).q.toMat =
      (jointRot (thetaOf p j) i (e * p.signs.get i)).mul (forward p j).q.toMat ∧
    ((forward p (j.set i (j.get i + e))).q.mul (forward p j).q.conj).toMat =
      jointRot (thetaOf p j) i (e * p.signs.get i) ∧
    ((forward p (j.set i (j.get i + e))).q.mul (forward p j).q.conj).normSq = 1 := by
  have hm := moved_tool p (thetaOf p j) hi (e * p.signs.get i)
  rw [← thetaOf_set p j hi e] at hm
  have h1 : (forward p (j.set i (j.get i + e))).q.toMat =
      (jointRot (thetaOf p j) i (e * p.signs.get i)).mul (forward p j).q.toMat := by
    rw [forward_toMat, forward_toMat]; exact hm.rot
  refine ⟨?_, h1, ?_, ?_⟩
  · rw [forward_t, forward_t]; exact hm.org
  · rw [Quat.toMat_mul, Quat.toMat_conj, h1, forward_toMat, M3.mul_assoc, (IsRot_rot6 _).mt,
      M3.mul_one]
  · exact Quat.normSq_mul_unit _ _ (forward_unit _ _) (Quat.normSq_conj_unit _ (forward_unit _ _))

/-- [all joints] linear part of column `i`: the finite difference of the rotation about the joint's
world axis applied to the lever arm `t − oᵢ` -/
theorem jacobianColumn_lin (p : Params ℝ) (j : J6 ℝ) {i : Nat} (hi : i < 6) (e : ℝ) :
    (jacobianColumn (forward p) j e i).lin =
      (((jointRot (thetaOf p j) i (e * p.signs.get i)).mulVec
          ((forward p j).t.sub (linkOrg p (thetaOf p j) i))).sub
        ((forward p j).t.sub (linkOrg p (thetaOf p j) i))).divs e := by
  rw [(C15.jacobian_column_linear (forward p) j e i).1, (forward_perturb p j hi e).1]
  apply V3.ext' <;> simp only [V3.divs, V3.sub, V3.add] <;> ring

/-- [all joints] angular part of column `i`: exactly `signᵢ · aᵢ` for `e ≠ 0`, `|e · signᵢ| < π` -/
theorem jacobianColumn_ang (p : Params ℝ) (j : J6 ℝ) {i : Nat} (hi : i < 6) (e : ℝ) (he : e ≠ 0)
    (hs : |e * p.signs.get i| < Real.pi) :
    (jacobianColumn (forward p) j e i).ang = (worldAxis (thetaOf p j) i).scale (p.signs.get i) := by
  obtain ⟨-, -, hm, hu⟩ := forward_perturb p j hi e
  rw [(C15.jacobian_column_linear (forward p) j e i).2,
    scaledAxis_of_toMat_jointRot _ i _ hu _ hs hm]
  apply V3.ext' <;> simp only [V3.divs, V3.scale] <;> field_simp

/-! ### 7. The link poses of `chain` carry the joint axes and origins -/

/-- link `i` of `forward_with_joint_poses`: unit quaternion with matrix `linkRot`, origin `linkOrg` -/
theorem chain_link (p : Params ℝ) (j : J6 ℝ) {i : Nat} (hi : i < 6) :
    ∃ l : Iso ℝ, (chain p j)[i]? = some l ∧
      LinkIs l (linkRot (thetaOf p j) i) (linkOrg p (thetaOf p j) i) := by
  have hc : chain p j = _ := chainTheta_eq p (thetaOf p j)
  rw [hc]
  rcases six_cases hi with rfl | rfl | rfl | rfl | rfl | rfl
  · exact ⟨_, rfl, lnk1_is _ _⟩
  · exact ⟨_, rfl, lnk2_is _ _⟩
  · exact ⟨_, rfl, lnk3_is _ _⟩
  · exact ⟨_, rfl, lnk4_is _ _⟩
  · exact ⟨_, rfl, lnk5_is _ _⟩
  · exact ⟨_, rfl, lnk6_is _ _⟩

/-- the link's rotation applied to the joint's local axis is the joint's world axis -/
theorem LinkIs.rotate_axis {l : Iso ℝ} {q : J6 ℝ} {o : V3 ℝ} {i : Nat} (hi : i < 6)
    (h : LinkIs l (linkRot q i) o) : l.q.rotate (localAxis i) = worldAxis q i := by
  rw [Quat.rotate_eq_mulVec _ h.unit, h.rot, linkRot_mulVec_axis q hi]

/-! ### 8. Rodrigues' formula and the size of the finite-difference error -/

/-- Rodrigues' formula for the elementary rotations -/
theorem rz_rodrigues (s c : ℝ) (w : V3 ℝ) : (M3.rz s c).mulVec w =
    (w.add ((ez.cross w).scale s)).add ((ez.cross (ez.cross w)).scale (1 - c)) := by
  apply V3.ext' <;> simp only [M3.mulVec, M3.rz, V3.add, V3.scale, V3.cross, ez, lit0, lit1] <;> ring

theorem ry_rodrigues (s c : ℝ) (w : V3 ℝ) : (M3.ry s c).mulVec w =
    (w.add ((ey.cross w).scale s)).add ((ey.cross (ey.cross w)).scale (1 - c)) := by
  apply V3.ext' <;> simp only [M3.mulVec, M3.ry, V3.add, V3.scale, V3.cross, ey, lit0, lit1] <;> ring

theorem localRot_rodrigues (i : Nat) (φ : ℝ) (w : V3 ℝ) : (localRot i φ).mulVec w =
    (w.add (((localAxis i).cross w).scale (Real.sin φ))).add
      (((localAxis i).cross ((localAxis i).cross w)).scale (1 - Real.cos φ)) := by
  rcases localRot_axis_cases i with ⟨h1, h2⟩ | ⟨h1, h2⟩
  · rw [h1, h2]; exact ry_rodrigues _ _ w
  · rw [h1, h2]; exact rz_rodrigues _ _ w

/-- [all joints] Rodrigues' formula for the rotation about the joint's world axis:
`E(φ) v = v + sin φ · a × v + (1 − cos φ) · a × (a × v)` -/
theorem jointRot_rodrigues (q : J6 ℝ) (i : Nat) (φ : ℝ) (v : V3 ℝ) : (jointRot q i φ).mulVec v =
    (v.add (((worldAxis q i).cross v).scale (Real.sin φ))).add
      (((worldAxis q i).cross ((worldAxis q i).cross v)).scale (1 - Real.cos φ)) := by
  have hA := IsRot_preRot q i
  have hv : (preRot q i).mulVec ((preRot q i).transpose.mulVec v) = v := by
    rw [← M3.mulVec_mulVec, hA.mt, M3.one_mulVec]
  unfold jointRot conj
  rw [M3.mulVec_mulVec, M3.mulVec_mulVec, localRot_rodrigues, M3.mulVec_add, M3.mulVec_add,
    M3.mulVec_scale, M3.mulVec_scale, ← isRot_cross_mulVec hA, ← isRot_cross_mulVec hA,
    ← isRot_cross_mulVec hA, hv]
  rfl

theorem V3.abs_comp_le_norm (u : V3 ℝ) : |u.x| ≤ u.norm ∧ |u.y| ≤ u.norm ∧ |u.z| ≤ u.norm := by
  rw [V3.norm_eq, V3.normSq_eq]
  refine ⟨Real.abs_le_sqrt ?_, Real.abs_le_sqrt ?_, Real.abs_le_sqrt ?_⟩ <;>
    nlinarith [mul_self_nonneg u.x, mul_self_nonneg u.y, mul_self_nonneg u.z]

/-- `‖a × v‖ ≤ ‖v‖` for a unit vector `a` -/
theorem V3.norm_cross_le {a : V3 ℝ} (ha : a.normSq = 1) (v : V3 ℝ) : (a.cross v).norm ≤ v.norm := by
  rw [V3.norm_eq, V3.norm_eq]
  apply Real.sqrt_le_sqrt
  rw [V3.normSq_cross, ha, one_mul]
  nlinarith [mul_self_nonneg (a.dot v)]

theorem abs_sin_sub_le (x : ℝ) : |Real.sin x - x| ≤ |x| ^ 3 / 6 := by
  rcases lt_trichotomy x 0 with h | h | h
  · have h1 := Real.sin_gt_sub_cube (neg_pos.mpr h)
    have h2 := Real.sin_lt (neg_pos.mpr h)
    rw [Real.sin_neg] at h1 h2
    rw [abs_of_neg h, abs_le]
    constructor <;> nlinarith
  · subst h; simp
  · have h1 := Real.sin_gt_sub_cube h
    have h2 := Real.sin_lt h
    rw [abs_of_pos h, abs_le]
    constructor <;> nlinarith

theorem one_sub_cos_bounds (x : ℝ) : 0 ≤ 1 - Real.cos x ∧ 1 - Real.cos x ≤ x ^ 2 / 2 :=
  ⟨by linarith [Real.cos_le_one x], by linarith [Real.one_sub_sq_div_two_le_cos (x := x)]⟩

theorem fd_error_bound (e s P Q N : ℝ) (he : e ≠ 0) (hP : |P| ≤ N) (hQ : |Q| ≤ N) :
    |(Real.sin (e * s) * P + (1 - Real.cos (e * s)) * Q) / e - P * s| ≤
      |e| * (s ^ 2 / 2 + |e| * |s| ^ 3 / 6) * N := by
  have hN : 0 ≤ N := le_trans (abs_nonneg P) hP
  have hepos : 0 < |e| := abs_pos.mpr he
  have h1 := abs_sin_sub_le (e * s)
  obtain ⟨h2, h3⟩ := one_sub_cos_bounds (e * s)
  have hid : (Real.sin (e * s) * P + (1 - Real.cos (e * s)) * Q) / e - P * s =
      ((Real.sin (e * s) - e * s) * P + (1 - Real.cos (e * s)) * Q) / e := by
    field_simp; ring
  rw [hid, abs_div, div_le_iff₀ hepos]
  have hx : |e * s| = |e| * |s| := abs_mul e s
  have t1 : |(Real.sin (e * s) - e * s) * P| ≤ (|e| * |s|) ^ 3 / 6 * N := by
    rw [abs_mul, ← hx]
    exact mul_le_mul h1 hP (abs_nonneg _) (by positivity)
  have t2 : |(1 - Real.cos (e * s)) * Q| ≤ (e * s) ^ 2 / 2 * N := by
    rw [abs_mul, abs_of_nonneg h2]
    exact mul_le_mul h3 hQ (abs_nonneg _) (by positivity)
  have hs2 : s ^ 2 = |s| ^ 2 := (sq_abs s).symm
  have he2 : e ^ 2 = |e| ^ 2 := (sq_abs e).symm
  calc |(Real.sin (e * s) - e * s) * P + (1 - Real.cos (e * s)) * Q|
      ≤ _ + _ := abs_add_le _ _
    _ ≤ (|e| * |s|) ^ 3 / 6 * N + (e * s) ^ 2 / 2 * N := add_le_add t1 t2
    _ = |e| * (s ^ 2 / 2 + |e| * |s| ^ 3 / 6) * N * |e| := by
        rw [mul_pow e s, he2, hs2]; ring

/-- [all joints] linear part of column `i` in closed form:
`(sin(ε s) · a × v + (1 − cos(ε s)) · a × (a × v)) / ε` with `v = t − oᵢ` the lever arm -/
theorem jacobianColumn_lin_rodrigues (p : Params ℝ) (j : J6 ℝ) {i : Nat} (hi : i < 6) (e : ℝ) :
    (jacobianColumn (forward p) j e i).lin =
      ((((worldAxis (thetaOf p j) i).cross ((forward p j).t.sub (linkOrg p (thetaOf p j) i))).scale
          (Real.sin (e * p.signs.get i))).add
        (((worldAxis (thetaOf p j) i).cross ((worldAxis (thetaOf p j) i).cross
          ((forward p j).t.sub (linkOrg p (thetaOf p j) i)))).scale
          (1 - Real.cos (e * p.signs.get i)))).divs e := by
  rw [jacobianColumn_lin p j hi, jointRot_rodrigues]
  apply V3.ext' <;> simp only [V3.divs, V3.sub, V3.add, V3.scale] <;> ring

/-- [all joints] the linear part of column `i` differs from the geometric column `s · a × v` by at most
`|ε| (s²/2 + |ε| |s|³/6) ‖v‖` in every component, for every step `ε ≠ 0` -/
theorem jacobianColumn_lin_error (p : Params ℝ) (j : J6 ℝ) {i : Nat} (hi : i < 6) (e : ℝ) (he : e ≠ 0) :
    |(jacobianColumn (forward p) j e i).lin.x - (((worldAxis (thetaOf p j) i).cross
        ((forward p j).t.sub (linkOrg p (thetaOf p j) i))).scale (p.signs.get i)).x| ≤
      |e| * ((p.signs.get i) ^ 2 / 2 + |e| * |p.signs.get i| ^ 3 / 6) *
        ((forward p j).t.sub (linkOrg p (thetaOf p j) i)).norm ∧
    |(jacobianColumn (forward p) j e i).lin.y - (((worldAxis (thetaOf p j) i).cross
        ((forward p j).t.sub (linkOrg p (thetaOf p j) i))).scale (p.signs.get i)).y| ≤
      |e| * ((p.signs.get i) ^ 2 / 2 + |e| * |p.signs.get i| ^ 3 / 6) *
        ((forward p j).t.sub (linkOrg p (thetaOf p j) i)).norm ∧
    |(jacobianColumn (forward p) j e i).lin.z - (((worldAxis (thetaOf p j) i).cross
        ((forward p j).t.sub (linkOrg p (thetaOf p j) i))).scale (p.signs.get i)).z| ≤
      |e| * ((p.signs.get i) ^ 2 / 2 + |e| * |p.signs.get i| ^ 3 / 6) *
        ((forward p j).t.sub (linkOrg p (thetaOf p j) i)).norm := by
  have ha := worldAxis_normSq (thetaOf p j) i
  have n1 := V3.norm_cross_le ha ((forward p j).t.sub (linkOrg p (thetaOf p j) i))
  have n2 := (V3.norm_cross_le ha ((worldAxis (thetaOf p j) i).cross
    ((forward p j).t.sub (linkOrg p (thetaOf p j) i)))).trans n1
  obtain ⟨px, py, pz⟩ := V3.abs_comp_le_norm ((worldAxis (thetaOf p j) i).cross
    ((forward p j).t.sub (linkOrg p (thetaOf p j) i)))
  obtain ⟨qx, qy, qz⟩ := V3.abs_comp_le_norm ((worldAxis (thetaOf p j) i).cross
    ((worldAxis (thetaOf p j) i).cross ((forward p j).t.sub (linkOrg p (thetaOf p j) i))))
  rw [jacobianColumn_lin_rodrigues p j hi]
  refine ⟨?_, ?_, ?_⟩
  · have h := fd_error_bound e (p.signs.get i) _ _ _ he (px.trans n1) (qx.trans n2)
    simp only [V3.divs, V3.add, V3.scale]
    rw [mul_comm _ (Real.sin _), mul_comm _ (1 - Real.cos _)]
    exact h
  · have h := fd_error_bound e (p.signs.get i) _ _ _ he (py.trans n1) (qy.trans n2)
    simp only [V3.divs, V3.add, V3.scale]
    rw [mul_comm _ (Real.sin _), mul_comm _ (1 - Real.cos _)]
    exact h
  · have h := fd_error_bound e (p.signs.get i) _ _ _ he (pz.trans n1) (qz.trans n2)
    simp only [V3.divs, V3.add, V3.scale]
    rw [mul_comm _ (Real.sin _), mul_comm _ (1 - Real.cos _)]
    exact h

end Opw.JacCols
