/-
  Tie between the model and the branching helpers translated from the CURRENT source text
  (`Generated/SrcCtl.lean`, rewritten by `tools/rs2lean_ctl.py` on every run).
  Generic in the number type, so the tie also holds of the `Float` reading.
-/
import OpwVerif.Generated.SrcCtl
namespace Opw
variable {R : Type} [OpwNum R]

/-- `is_close_to_multiple_of_pi` -/
theorem isCloseToMultipleOfPiSrc_eq (v thr : R) :
    SrcCtl.isCloseToMultipleOfPiSrc v thr = isCloseToMultipleOfPi v thr := rfl

/-- the `while diff > PI` loop of `are_angles_close` -/
theorem areAnglesCloseSrcLoop_eq (n : Nat) (d : R) : SrcCtl.areAnglesCloseSrcLoop n d = foldDiff n d := by
  induction n generalizing d with
  | zero => rfl
  | succ n ih => simp only [SrcCtl.areAnglesCloseSrcLoop, foldDiff, ih]

/-- `are_angles_close` -/
theorem areAnglesCloseSrc_eq (a b : R) : SrcCtl.areAnglesCloseSrc a b = areAnglesClose a b := by
  simp only [SrcCtl.areAnglesCloseSrc, areAnglesClose, areAnglesCloseSrcLoop_eq]

/-- the nested `adjust` of `normalize_near` (called with `two_pi = 2π`) -/
theorem adjustSrc_eq (now prev : R) : SrcCtl.adjustSrc now prev twoPi = adjustNear now prev := rfl

/-- `normalize_near` -/
theorem normalizeNearSrc_eq (now prev : R) : SrcCtl.normalizeNearSrc now prev = normalizeNear now prev := rfl

/-- the threshold tests of `compare_poses` -/
theorem comparePosesSrc_eq (ta tb : Iso R) (dT aT : R) :
    SrcCtl.comparePosesSrc (ta.t.sub tb.t).norm (Quat.angleTo ta.q tb.q) dT aT = comparePoses ta tb dT aT := rfl

/-- `kinematic_singularity` (`Some(Singularity::A)` read as `true`) -/
theorem kinematicSingularitySrc_eq (p : Params R) (j : J6 R) :
    SrcCtl.kinematicSingularitySrc p j = kinematicSingularity p j := by
  simp only [SrcCtl.kinematicSingularitySrc, kinematicSingularity, isCloseToMultipleOfPiSrc_eq]
  by_cases h : isCloseToMultipleOfPi (j.j5 * p.signs.j5 - p.offsets.j5) singThr = true
  · simp [h]
  · have h' : isCloseToMultipleOfPi (j.j5 * p.signs.j5 - p.offsets.j5) singThr = false := by simpa using h
    simp [h']

/-- `inside_bounds` -/
theorem insideBoundsSrc_eq (angle centre tol : R) :
    SrcCtl.insideBoundsSrc angle centre tol = insideBounds angle centre tol := rfl

/-- the `while b < a` loop of `compute_centers` -/
theorem centerTolSrcLoop_eq (n : Nat) (a b : R) : SrcCtl.centerTolSrcLoop a n b = unwrapTo n a b := by
  induction n generalizing b with
  | zero => rfl
  | succ n ih => simp only [SrcCtl.centerTolSrcLoop, unwrapTo, ih]

/-- one joint of `compute_centers` -/
theorem centerTolSrc_eq (a b : R) : SrcCtl.centerTolSrc a b = centerTol a b := by
  simp only [SrcCtl.centerTolSrc, centerTol, centerTolSrcLoop_eq]
  split
  · rfl
  · split <;> rfl

/-- the two `while` loops of the wrist-singular recovery (`angle > PI`, `angle < -PI`) -/
theorem singularCandidateSrcLoop_eq (n : Nat) (x : R) : SrcCtl.singularCandidateSrcLoop n x = loopDown n x := by
  induction n generalizing x with
  | zero => rfl
  | succ n ih => simp only [SrcCtl.singularCandidateSrcLoop, loopDown, ih]

theorem singularCandidateSrcLoop2_eq (n : Nat) (x : R) : SrcCtl.singularCandidateSrcLoop2 n x = loopUp n x := by
  induction n generalizing x with
  | zero => rfl
  | succ n ih => simp only [SrcCtl.singularCandidateSrcLoop2, loopUp, ih]

/-- the wrist-singular recovery block of `inverse_continuing`: J4, J5, J6 of the model's `singularCandidate` -/
theorem singularCandidateSrc_eq (p : Params R) (previous now : J6 R) :
    SrcCtl.singularCandidateSrc p previous now =
      ((singularCandidate p previous now).j4, (singularCandidate p previous now).j5, (singularCandidate p previous now).j6) := by
  simp only [SrcCtl.singularCandidateSrc, singularCandidate, singularCandidateSrcLoop_eq, singularCandidateSrcLoop2_eq,
    areAnglesCloseSrc_eq, normalizeNearSrc_eq, normPi, normPiF]
  by_cases h : areAnglesClose (now.j5 * p.signs.j5 - p.offsets.j5) 0 = true
  · simp [h]
  · have h' : areAnglesClose (now.j5 * p.signs.j5 - p.offsets.j5) 0 = false := by simpa using h
    simp [h']

/-- the weighted comparator of `sort_by_closeness` compares the model's `sortCost` of its two arguments (robot with limits
whose sorting weight is not BY_PREV; otherwise the source sorts by the plain distance to previous, checked textually by the
translator, which is `sortCost` as well) -/
theorem sortCostPairSrc_eq (k : Opw R) (c : Constraints R) (hc : k.cons = some c) (hw : feq c.sortingWeight byPrev = false)
    (previous a b : J6 R) :
    SrcCtl.sortCostPairSrc c.sortingWeight (calculateDistance a previous) (calculateDistance b previous)
      (calculateDistance a c.centers) (calculateDistance b c.centers) = (k.sortCost previous a, k.sortCost previous b) := by
  simp only [SrcCtl.sortCostPairSrc, Opw.sortCost, hc, hw]
  by_cases h : feq c.sortingWeight byConstraints = true
  · simp [h]
  · have h' : feq c.sortingWeight byConstraints = false := by simpa using h
    simp [h']

theorem sortCost_plain (k : Opw R) (previous a : J6 R)
    (h : k.cons = none ∨ ∃ c, k.cons = some c ∧ feq c.sortingWeight byPrev = true) :
    k.sortCost previous a = calculateDistance a previous := by
  rcases h with h | ⟨c, hc, hw⟩
  · simp [Opw.sortCost, h]
  · simp [Opw.sortCost, hc, hw]

end Opw
