/-
  Tie between the model and the branching helpers translated from the CURRENT source text
  (`Generated/SrcCtl.lean`, rewritten by `tools/rs2lean_ctl.py` on every run).
  Generic in the number type, so the tie also holds of the `Float` reading.
-/
import OpwVerif.Generated.SrcCtl
namespace Opw
variable {R : Type} [OpwNum R]

/-- `is_close_to_multiple_of_pi` -/
theorem isCloseToMultipleOfPiSrc_eq (v thr : R) :
    SrcCtl.isCloseToMultipleOfPiSrc v thr = isCloseToMultipleOfPi v thr := rfl

/-- the `while diff > PI` loop of `are_angles_close` -/
theorem areAnglesCloseSrcLoop_eq (n : Nat) (d : R) : SrcCtl.areAnglesCloseSrcLoop n d = foldDiff n d := by
  induction n generalizing d with
  | zero => rfl
  | succ n ih => simp only [SrcCtl.areAnglesCloseSrcLoop, foldDiff, ih]

/-- `are_angles_close` -/
theorem areAnglesCloseSrc_eq (a b : R) : SrcCtl.areAnglesCloseSrc a b = areAnglesClose a b := by
  simp only [SrcCtl.areAnglesCloseSrc, areAnglesClose, areAnglesCloseSrcLoop_eq]

/-- the nested `adjust` of `normalize_near` (called with `two_pi = 2π`) -/
theorem adjustSrc_eq (now prev : R) : SrcCtl.adjustSrc now prev twoPi = adjustNear now prev := rfl

/-- `normalize_near` -/
theorem normalizeNearSrc_eq (now prev : R) : SrcCtl.normalizeNearSrc now prev = normalizeNear now prev := rfl

/-- the threshold tests of `compare_poses` -/
theorem comparePosesSrc_eq (ta tb : Iso R) (dT aT : R) :
    SrcCtl.comparePosesSrc (ta.t.sub tb.t).norm (Quat.angleTo ta.q tb.q) dT aT = comparePoses ta tb dT aT := rfl

/-- `kinematic_singularity` (`Some(Singularity::A)` read as `true`) -/
theorem kinematicSingularitySrc_eq (p : Params R) (j : J6 R) :
    SrcCtl.kinematicSingularitySrc p j = kinematicSingularity p j := by
  simp only [SrcCtl.kinematicSingularitySrc, kinematicSingularity, isCloseToMultipleOfPiSrc_eq]
  by_cases h : isCloseToMultipleOfPi (j.j5 * p.signs.j5 - p.offsets.j5) singThr = true
  · simp [h]
  · have h' : isCloseToMultipleOfPi (j.j5 * p.signs.j5 - p.offsets.j5) singThr = false := by simpa using h
    simp [h']

/-- `inside_bounds` -/
theorem insideBoundsSrc_eq (angle centre tol : R) :
    SrcCtl.insideBoundsSrc angle centre tol = insideBounds angle centre tol := rfl

/-- the `while b < a` loop of `compute_centers` -/
theorem centerTolSrcLoop_eq (n : Nat) (a b : R) : SrcCtl.centerTolSrcLoop a n b = unwrapTo n a b := by
  induction n generalizing b with
  | zero => rfl
  | succ n ih => simp only [SrcCtl.centerTolSrcLoop, unwrapTo, ih]

/-- one joint of `compute_centers` -/
theorem centerTolSrc_eq (a b : R) : SrcCtl.centerTolSrc a b = centerTol a b := by
  simp only [SrcCtl.centerTolSrc, centerTol, centerTolSrcLoop_eq]
  split
  · rfl
  · split <;> rfl

end Opw
