/-
  Helper lemmas for C19 (`Props/C19.lean`): `toI8`, hash lookup (`Yaml.get`), `readSigns`,
  `readOffsets`, and the clause-by-clause behaviour of `fromYamlDocs`.
  Everything is generic in the number type (`OpwNum R` has no laws; none are needed).
-/
import OpwVerif.Yaml
namespace Opw.YamlL
open Opw
variable {R : Type} [OpwNum R]
set_option linter.unusedSectionVars false

/-! ### `toI8` -/

theorem toI8_id {s : Int} (h1 : -128 ≤ s) (h2 : s ≤ 127) : toI8 s = s := by
  unfold toI8
  simp only []
  split <;> omega

theorem toI8_range (i : Int) : -128 ≤ toI8 i ∧ toI8 i ≤ 127 := by
  unfold toI8
  simp only []
  split <;> omega

theorem toI8_idem (i : Int) : toI8 (toI8 i) = toI8 i :=
  toI8_id (toI8_range i).1 (toI8_range i).2

/-! ### hash lookup -/

theorem get_hash_cons_hit {key v : Yaml R} {l : List (Yaml R × Yaml R)} {k : String}
    (h : key.isStr k = true) : (Yaml.hash ((key, v) :: l)).get k = v := by
  simp [Yaml.get, h]

theorem get_hash_cons_miss {key v : Yaml R} {l : List (Yaml R × Yaml R)} {k : String}
    (h : key.isStr k = false) : (Yaml.hash ((key, v) :: l)).get k = (Yaml.hash l).get k := by
  simp [Yaml.get, h]

/-- `v` sits under the FIRST entry of the hash `y` whose key is the string `k` -/
def HasKey (y : Yaml R) (k : String) (v : Yaml R) : Prop :=
  ∃ pre key post, y = .hash (pre ++ (key, v) :: post) ∧ key.isStr k = true ∧
    ∀ e ∈ pre, e.1.isStr k = false

/-- `y` is not a hash, or none of its keys is the string `k` -/
def NoKey (y : Yaml R) (k : String) : Prop :=
  ∀ l, y = .hash l → ∀ e ∈ l, e.1.isStr k = false

theorem get_of_hasKey {y v : Yaml R} {k : String} (h : HasKey y k v) : y.get k = v := by
  obtain ⟨pre, key, post, rfl, hk, hpre⟩ := h
  induction pre with
  | nil => exact get_hash_cons_hit hk
  | cons e pre ih =>
    obtain ⟨ek, ev⟩ := e
    have he : ek.isStr k = false := hpre (ek, ev) (by simp)
    rw [List.cons_append, get_hash_cons_miss he]
    exact ih (fun e' he' => hpre e' (by simp [he']))

theorem get_of_noKey {y : Yaml R} {k : String} (h : NoKey y k) : y.get k = .other := by
  cases y with
  | hash l =>
    have h' := h l rfl
    have : l.find? (fun e => e.1.isStr k) = none := by
      rw [List.find?_eq_none]; intro e he; simp [h' e he]
    simp [Yaml.get, this]
  | _ => rfl

/-- membership plus uniqueness of the value under key `k` gives the lookup -/
theorem get_of_mem_unique {l : List (Yaml R × Yaml R)} {key v : Yaml R} {k : String}
    (hm : (key, v) ∈ l) (hk : key.isStr k = true)
    (hu : ∀ e ∈ l, e.1.isStr k = true → e.2 = v) : (Yaml.hash l).get k = v := by
  induction l with
  | nil => simp at hm
  | cons e l ih =>
    obtain ⟨ek, ev⟩ := e
    cases he : ek.isStr k with
    | true =>
      rw [get_hash_cons_hit he]
      exact hu (ek, ev) (by simp) he
    | false =>
      rw [get_hash_cons_miss he]
      have hm' : (key, v) ∈ l := by
        rcases List.mem_cons.1 hm with h | h
        · rw [Prod.mk.injEq] at h; rw [h.1] at hk; rw [hk] at he; cases he
        · exact h
      exact ih hm' (fun e' he' => hu e' (List.mem_cons_of_mem _ he'))

theorem hasKey_of_mem_unique {l : List (Yaml R × Yaml R)} {key v : Yaml R} {k : String}
    (hm : (key, v) ∈ l) (hk : key.isStr k = true)
    (hu : ∀ e ∈ l, e.1.isStr k = true → e.2 = v) : HasKey (Yaml.hash l) k v := by
  induction l with
  | nil => simp at hm
  | cons e l ih =>
    obtain ⟨ek, ev⟩ := e
    cases he : ek.isStr k with
    | true =>
      have : ev = v := hu (ek, ev) (by simp) he
      subst this
      exact ⟨[], ek, l, rfl, he, by simp⟩
    | false =>
      have hm' : (key, v) ∈ l := by
        rcases List.mem_cons.1 hm with h | h
        · rw [Prod.mk.injEq] at h; rw [h.1] at hk; rw [hk] at he; cases he
        · exact h
      obtain ⟨pre, key', post, hl, hk', hpre⟩ :=
        ih hm' (fun e' he' => hu e' (List.mem_cons_of_mem _ he'))
      injection hl with hl
      refine ⟨(ek, ev) :: pre, key', post, by rw [hl]; rfl, hk', ?_⟩
      intro e' he'
      rcases List.mem_cons.1 he' with h | h
      · rw [h]; exact he
      · exact hpre e' h

theorem get_nonhash_int (i : Int) (k : String) : (Yaml.int i : Yaml R).get k = .other := rfl
theorem get_other (k : String) : (Yaml.other : Yaml R).get k = .other := rfl

/-! ### `readSigns` -/

/-- the 5 → 6 padding both array readers apply -/
def pad6 {α : Type} (z : α) (v : List α) : List α := if v.length = 5 then v ++ [z] else v

theorem pad6_five {α : Type} (z : α) {v : List α} (h : v.length = 5) : pad6 z v = v ++ [z] := by
  simp [pad6, h]

theorem pad6_six {α : Type} (z : α) {v : List α} (h : v.length = 6) : pad6 z v = v := by
  simp [pad6, h]

/-- the `i8` values `read_sign_corrections` extracts from array items -/
def signVals (l : List (Yaml R)) : List Int := l.map (fun it => toI8 ((it.asI64).getD 0))

theorem signVals_length (l : List (Yaml R)) : (signVals l).length = l.length := by
  simp [signVals]

theorem signVals_ints (s : List Int) : signVals (s.map (fun i => (Yaml.int i : Yaml R))) = s.map toI8 := by
  simp [signVals, Yaml.asI64, Function.comp_def]

theorem readSigns_arr (l : List (Yaml R)) :
    readSigns (.arr l) =
      if l.length = 5 then .ok (signVals l ++ [0])
      else if l.length = 6 then .ok (signVals l)
      else .error (.invalidLength l.length) := by
  unfold readSigns
  simp only [Yaml.asVec, Option.getD_some]
  by_cases h5 : l.length = 5
  · simp [signVals, h5]
  · by_cases h6 : l.length = 6
    · simp [signVals, h6]
    · simp [h5, h6]

theorem readSigns_arr_five {l : List (Yaml R)} (h : l.length = 5) :
    readSigns (.arr l) = .ok (signVals l ++ [0]) := by
  rw [readSigns_arr]; simp [h]

theorem readSigns_arr_six {l : List (Yaml R)} (h : l.length = 6) :
    readSigns (.arr l) = .ok (signVals l) := by
  rw [readSigns_arr]; simp [h]

theorem readSigns_arr_bad {l : List (Yaml R)} (h5 : l.length ≠ 5) (h6 : l.length ≠ 6) :
    readSigns (.arr l) = .error (.invalidLength l.length) := by
  rw [readSigns_arr]; simp [h5, h6]

theorem readSigns_default {y : Yaml R} (h : y.asVec = none) :
    readSigns y = .ok [1, 1, 1, 1, 1, 1] := by
  unfold readSigns
  rw [h]
  have h1 : toI8 1 = 1 := by decide
  simp [List.replicate, Yaml.asI64, h1]

theorem asVec_other : (Yaml.other : Yaml R).asVec = none := rfl

/-- `readSigns` only ever fails with `invalidLength n`, `n ∉ {5, 6}`; results have six entries -/
theorem readSigns_total (y : Yaml R) :
    (∃ s, readSigns y = .ok s ∧ s.length = 6) ∨
    (∃ n, readSigns y = .error (.invalidLength n) ∧ n ≠ 5 ∧ n ≠ 6) := by
  cases hy : y.asVec with
  | none => exact .inl ⟨_, readSigns_default hy, rfl⟩
  | some l =>
    have : y = .arr l := by
      cases y <;> simp [Yaml.asVec] at hy
      rw [hy]
    subst this
    by_cases h5 : l.length = 5
    · exact .inl ⟨_, readSigns_arr_five h5, by simp [signVals_length, h5]⟩
    · by_cases h6 : l.length = 6
      · exact .inl ⟨_, readSigns_arr_six h6, by simp [signVals_length, h6]⟩
      · exact .inr ⟨_, readSigns_arr_bad h5 h6, h5, h6⟩

/-! ### `readOffsets` -/

/-- pointwise relation between two lists (core has no `List.Forall₂`) -/
inductive All2 {α β : Type} (r : α → β → Prop) : List α → List β → Prop
  | nil : All2 r [] []
  | cons {a b l₁ l₂} : r a b → All2 r l₁ l₂ → All2 r (a :: l₁) (b :: l₂)

theorem All2.length_eq {α β : Type} {r : α → β → Prop} {l₁ : List α} {l₂ : List β}
    (h : All2 r l₁ l₂) : l₁.length = l₂.length := by
  induction h with
  | nil => rfl
  | cons _ _ ih => simp [ih]

theorem All2.imp {α β : Type} {r s : α → β → Prop} (hrs : ∀ a b, r a b → s a b)
    {l₁ : List α} {l₂ : List β} (h : All2 r l₁ l₂) : All2 s l₁ l₂ := by
  induction h with
  | nil => exact .nil
  | cons h _ ih => exact .cons (hrs _ _ h) ih

/-- value `read_offsets` assigns to one array item -/
def offEntry (ofInt : Int → R) (it : Yaml R) : Except YamlErr R :=
  match it with
  | .str _ _ _ => parseDegrees it
  | .real _ _ rp => (match rp with | some x => .ok x | none => .error .parse)
  | .int i => .ok (ofInt i)
  | _ => .ok 0

theorem go_nil (ofInt : Int → R) : readOffsets.go ofInt [] = .ok [] := by
  simp [readOffsets.go]

theorem go_cons (ofInt : Int → R) (it : Yaml R) (rest : List (Yaml R)) :
    readOffsets.go ofInt (it :: rest) =
      match offEntry ofInt it with
      | .error e => .error e
      | .ok x => match readOffsets.go ofInt rest with
        | .error e => .error e
        | .ok xs => .ok (x :: xs) := by
  cases it <;> simp [readOffsets.go, offEntry] <;> rfl

theorem offEntry_error (ofInt : Int → R) (it : Yaml R) {e : YamlErr}
    (h : offEntry ofInt it = .error e) : e = .parse := by
  cases it with
  | str t w d =>
    rcases d with _ | _ | d <;> rcases w with _ | w <;>
      simp [offEntry, parseDegrees] at h <;> exact h.symm
  | real t a rp => rcases rp with _ | x <;> simp [offEntry] at h; exact h.symm
  | int i => simp [offEntry] at h
  | arr l => simp [offEntry] at h
  | hash l => simp [offEntry] at h
  | other => simp [offEntry] at h

theorem go_ok {ofInt : Int → R} {items : List (Yaml R)} {vals : List R}
    (h : All2 (fun it x => offEntry ofInt it = .ok x) items vals) :
    readOffsets.go ofInt items = .ok vals := by
  induction h with
  | nil => exact go_nil ofInt
  | cons hx _ ih => rw [go_cons, hx, ih]

theorem go_map {ofInt : Int → R} {α : Type} (f : α → Yaml R) (g : α → R)
    (h : ∀ a, offEntry ofInt (f a) = .ok (g a)) (l : List α) :
    readOffsets.go ofInt (l.map f) = .ok (l.map g) := by
  induction l with
  | nil => exact go_nil ofInt
  | cons a l ih => rw [List.map_cons, go_cons, h a, ih]; rfl

/-- the item loop either fails with `parse` or returns one value per item -/
theorem go_total (ofInt : Int → R) (items : List (Yaml R)) :
    readOffsets.go ofInt items = .error .parse ∨
    ∃ vals, readOffsets.go ofInt items = .ok vals ∧ vals.length = items.length := by
  induction items with
  | nil => exact .inr ⟨[], go_nil ofInt, rfl⟩
  | cons it rest ih =>
    rw [go_cons]
    cases hx : offEntry ofInt it with
    | error e => left; rw [offEntry_error ofInt it hx]
    | ok x =>
      rcases ih with h | ⟨vals, h, hl⟩
      · left; rw [h]
      · right; exact ⟨x :: vals, by rw [h], by simp [hl]⟩

/-- a bad item anywhere makes the loop fail (with the only error it has) -/
theorem go_bad {ofInt : Int → R} {items : List (Yaml R)} {it : Yaml R} {e : YamlErr}
    (hm : it ∈ items) (hb : offEntry ofInt it = .error e) :
    readOffsets.go ofInt items = .error .parse := by
  induction items with
  | nil => simp at hm
  | cons a rest ih =>
    rw [go_cons]
    rcases List.mem_cons.1 hm with h | h
    · subst h; rw [hb, offEntry_error ofInt it hb]
    · cases hx : offEntry ofInt a with
      | error e' => rw [offEntry_error ofInt a hx]
      | ok x => rw [ih h]

theorem readOffsets_arr_of_go {ofInt : Int → R} {items : List (Yaml R)} {vals : List R}
    (h : readOffsets.go ofInt items = .ok vals) :
    readOffsets ofInt (.arr items) =
      if vals.length = 5 then .ok (vals ++ [0])
      else if vals.length = 6 then .ok vals
      else .error (.invalidLength vals.length) := by
  unfold readOffsets
  simp only [Yaml.asVec, Option.getD_some, h]
  by_cases h5 : vals.length = 5
  · simp [h5]
  · by_cases h6 : vals.length = 6
    · simp [h6]
    · simp [h5, h6]

theorem readOffsets_arr_err {ofInt : Int → R} {items : List (Yaml R)} {e : YamlErr}
    (h : readOffsets.go ofInt items = .error e) :
    readOffsets ofInt (.arr items) = .error e := by
  unfold readOffsets
  simp only [Yaml.asVec, Option.getD_some, h]

theorem readOffsets_default {ofInt : Int → R} {y : Yaml R} (h : y.asVec = none) :
    readOffsets ofInt y = .ok (List.replicate 6 (ofInt 0)) := by
  have hg : readOffsets.go ofInt (List.replicate 6 (.int 0)) = .ok (List.replicate 6 (ofInt 0)) := by
    simp [List.replicate, go_cons, go_nil, offEntry]
  unfold readOffsets
  rw [h]
  simp only [Option.getD_none, hg]
  simp

/-- `readOffsets` fails only with `parse` or `invalidLength n`, `n ∉ {5, 6}`; results have six entries -/
theorem readOffsets_total (ofInt : Int → R) (y : Yaml R) :
    (∃ v, readOffsets ofInt y = .ok v ∧ v.length = 6) ∨
    readOffsets ofInt y = .error .parse ∨
    (∃ n, readOffsets ofInt y = .error (.invalidLength n) ∧ n ≠ 5 ∧ n ≠ 6) := by
  cases hy : y.asVec with
  | none => exact .inl ⟨_, readOffsets_default hy, by simp⟩
  | some l =>
    have : y = .arr l := by
      cases y <;> simp [Yaml.asVec] at hy
      rw [hy]
    subst this
    rcases go_total ofInt l with h | ⟨vals, h, _⟩
    · exact .inr (.inl (readOffsets_arr_err h))
    · rw [readOffsets_arr_of_go h]
      by_cases h5 : vals.length = 5
      · left; exact ⟨vals ++ [0], by simp [h5], by simp [h5]⟩
      · by_cases h6 : vals.length = 6
        · left; exact ⟨vals, by simp [h6], h6⟩
        · right; right; exact ⟨vals.length, by simp [h5, h6], h5, h6⟩

/-! ### `fromYamlDocs`, clause by clause -/

/-- the geometric-parameters node -/
def geoOf (doc : Yaml R) : Yaml R := doc.get "opw_kinematics_geometric_parameters"

/-- the numeric field `k` of the geometric-parameters node as the reader sees it -/
def geoNum (ofInt : Int → R) (doc : Yaml R) (k : String) : Option R :=
  ((geoOf doc).get k).asNumber ofInt

/-- the `dof` the reader extracts: top level first, then nested, then 6; cast to `i8` -/
def dofOf (doc : Yaml R) : Int :=
  toI8 (((doc.get "dof").asI64.orElse (fun _ => ((geoOf doc).get "dof").asI64)).getD 6)

def signsOf (doc : Yaml R) : Except YamlErr (List Int) :=
  readSigns (doc.get "opw_kinematics_joint_sign_corrections")

def offsOf (ofInt : Int → R) (doc : Yaml R) : Except YamlErr (List R) :=
  readOffsets ofInt (doc.get "opw_kinematics_joint_offsets")

theorem fromYamlDocs_not_loaded (ofInt : Int → R) (docs : List (Yaml R)) :
    fromYamlDocs ofInt false docs = .error .parse := by
  simp [fromYamlDocs]

theorem fromYamlDocs_nil (ofInt : Int → R) (loaded : Bool) :
    fromYamlDocs ofInt loaded [] = .error .parse := by
  cases loaded <;> simp [fromYamlDocs]

theorem fromYamlDocs_signs_err {ofInt : Int → R} {doc : Yaml R} (rest : List (Yaml R)) {e : YamlErr}
    (hs : signsOf doc = .error e) : fromYamlDocs ofInt true (doc :: rest) = .error e := by
  unfold signsOf at hs
  simp only [fromYamlDocs, hs]
  simp

/-- the reader's result once the sign array is fine: a chain over the seven fields, then offsets -/
theorem fromYamlDocs_signs_ok {ofInt : Int → R} {doc : Yaml R} (rest : List (Yaml R)) {s0 : List Int}
    (hs : signsOf doc = .ok s0) :
    fromYamlDocs ofInt true (doc :: rest) =
      match geoNum ofInt doc "a1" with
      | none => .error (.missing "a1")
      | some a1 => match geoNum ofInt doc "a2" with
      | none => .error (.missing "a2")
      | some a2 => match geoNum ofInt doc "b" with
      | none => .error (.missing "b")
      | some b => match geoNum ofInt doc "c1" with
      | none => .error (.missing "c1")
      | some c1 => match geoNum ofInt doc "c2" with
      | none => .error (.missing "c2")
      | some c2 => match geoNum ofInt doc "c3" with
      | none => .error (.missing "c3")
      | some c3 => match geoNum ofInt doc "c4" with
      | none => .error (.missing "c4")
      | some c4 => match offsOf ofInt doc with
        | .error e => .error e
        | .ok offs => .ok ⟨a1, a2, b, c1, c2, c3, c4, offs,
            if dofOf doc = 5 then s0.take 5 ++ [0] else s0, dofOf doc⟩ := by
  unfold signsOf at hs
  simp only [fromYamlDocs, hs, geoNum, geoOf, offsOf, dofOf]
  simp
  rfl

theorem fromYamlDocs_ok {ofInt : Int → R} {doc : Yaml R} (rest : List (Yaml R)) {s0 : List Int}
    {a1 a2 b c1 c2 c3 c4 : R} {offs : List R}
    (hs : signsOf doc = .ok s0)
    (h1 : geoNum ofInt doc "a1" = some a1) (h2 : geoNum ofInt doc "a2" = some a2)
    (h3 : geoNum ofInt doc "b" = some b) (h4 : geoNum ofInt doc "c1" = some c1)
    (h5 : geoNum ofInt doc "c2" = some c2) (h6 : geoNum ofInt doc "c3" = some c3)
    (h7 : geoNum ofInt doc "c4" = some c4) (ho : offsOf ofInt doc = .ok offs) :
    fromYamlDocs ofInt true (doc :: rest) =
      .ok ⟨a1, a2, b, c1, c2, c3, c4, offs,
        if dofOf doc = 5 then s0.take 5 ++ [0] else s0, dofOf doc⟩ := by
  rw [fromYamlDocs_signs_ok rest hs, h1, h2, h3, h4, h5, h6, h7, ho]

/-- the seven field names in the order the reader checks them -/
def fieldNames : List String := ["a1", "a2", "b", "c1", "c2", "c3", "c4"]

/-- the first field (in reader order) without a usable number -/
def firstMissing (num : String → Option R) : Option String :=
  fieldNames.find? (fun k => (num k).isNone)

theorem fromYamlDocs_missing {ofInt : Int → R} {doc : Yaml R} (rest : List (Yaml R)) {s0 : List Int}
    {k : String} (hs : signsOf doc = .ok s0) (hk : firstMissing (geoNum ofInt doc) = some k) :
    fromYamlDocs ofInt true (doc :: rest) = .error (.missing k) := by
  rw [fromYamlDocs_signs_ok rest hs]
  unfold firstMissing fieldNames at hk
  cases h1 : geoNum ofInt doc "a1" with
  | none => simp [h1] at hk; simp [hk]
  | some a1 =>
  cases h2 : geoNum ofInt doc "a2" with
  | none => simp [h1, h2] at hk; simp [hk]
  | some a2 =>
  cases h3 : geoNum ofInt doc "b" with
  | none => simp [h1, h2, h3] at hk; simp [hk]
  | some b =>
  cases h4 : geoNum ofInt doc "c1" with
  | none => simp [h1, h2, h3, h4] at hk; simp [hk]
  | some c1 =>
  cases h5 : geoNum ofInt doc "c2" with
  | none => simp [h1, h2, h3, h4, h5] at hk; simp [hk]
  | some c2 =>
  cases h6 : geoNum ofInt doc "c3" with
  | none => simp [h1, h2, h3, h4, h5, h6] at hk; simp [hk]
  | some c3 =>
  cases h7 : geoNum ofInt doc "c4" with
  | none => simp [h1, h2, h3, h4, h5, h6, h7] at hk; simp [hk]
  | some c4 => simp [h1, h2, h3, h4, h5, h6, h7] at hk

/-- no field is missing: all seven numbers exist -/
theorem fields_of_firstMissing_none {num : String → Option R} (hk : firstMissing num = none) :
    ∃ a1 a2 b c1 c2 c3 c4, num "a1" = some a1 ∧ num "a2" = some a2 ∧ num "b" = some b ∧
      num "c1" = some c1 ∧ num "c2" = some c2 ∧ num "c3" = some c3 ∧ num "c4" = some c4 := by
  unfold firstMissing fieldNames at hk
  simp only [List.find?_eq_none, List.mem_cons, List.not_mem_nil, or_false] at hk
  have g : ∀ k, k ∈ fieldNames → ∃ x, num k = some x := by
    intro k hkm
    have := hk k (by simpa [fieldNames] using hkm)
    cases hx : num k with
    | none => simp [hx] at this
    | some x => exact ⟨x, rfl⟩
  obtain ⟨a1, h1⟩ := g "a1" (by simp [fieldNames])
  obtain ⟨a2, h2⟩ := g "a2" (by simp [fieldNames])
  obtain ⟨b, h3⟩ := g "b" (by simp [fieldNames])
  obtain ⟨c1, h4⟩ := g "c1" (by simp [fieldNames])
  obtain ⟨c2, h5⟩ := g "c2" (by simp [fieldNames])
  obtain ⟨c3, h6⟩ := g "c3" (by simp [fieldNames])
  obtain ⟨c4, h7⟩ := g "c4" (by simp [fieldNames])
  exact ⟨a1, a2, b, c1, c2, c3, c4, h1, h2, h3, h4, h5, h6, h7⟩

theorem firstMissing_mem {num : String → Option R} {k : String} (h : firstMissing num = some k) :
    k ∈ fieldNames ∧ num k = none := by
  unfold firstMissing at h
  refine ⟨List.mem_of_find?_eq_some h, ?_⟩
  have := List.find?_some h
  simpa using this

theorem fromYamlDocs_offs_err {ofInt : Int → R} {doc : Yaml R} (rest : List (Yaml R)) {s0 : List Int}
    {e : YamlErr} (hs : signsOf doc = .ok s0) (hk : firstMissing (geoNum ofInt doc) = none)
    (ho : offsOf ofInt doc = .error e) :
    fromYamlDocs ofInt true (doc :: rest) = .error e := by
  rw [fromYamlDocs_signs_ok rest hs]
  obtain ⟨_, _, _, _, _, _, _, h1, h2, h3, h4, h5, h6, h7⟩ := fields_of_firstMissing_none hk
  rw [h1, h2, h3, h4, h5, h6, h7, ho]

/-- every clause of the reader at once: what the result is for a loaded, non-empty document list -/
theorem fromYamlDocs_total (ofInt : Int → R) (doc : Yaml R) (rest : List (Yaml R)) :
    (∃ v, fromYamlDocs ofInt true (doc :: rest) = .ok v ∧ v.offsets.length = 6 ∧
        v.signs.length = 6 ∧ -128 ≤ v.dof ∧ v.dof ≤ 127) ∨
    fromYamlDocs ofInt true (doc :: rest) = .error .parse ∨
    (∃ k, k ∈ fieldNames ∧ fromYamlDocs ofInt true (doc :: rest) = .error (.missing k)) ∨
    (∃ n, n ≠ 5 ∧ n ≠ 6 ∧ fromYamlDocs ofInt true (doc :: rest) = .error (.invalidLength n)) := by
  rcases readSigns_total (doc.get "opw_kinematics_joint_sign_corrections") with
    ⟨s0, hs, hl⟩ | ⟨n, hs, h5, h6⟩
  · cases hk : firstMissing (geoNum ofInt doc) with
    | some k =>
      right; right; left
      exact ⟨k, (firstMissing_mem hk).1, fromYamlDocs_missing rest hs hk⟩
    | none =>
      rcases readOffsets_total ofInt (doc.get "opw_kinematics_joint_offsets") with
        ⟨offs, ho, hol⟩ | ho | ⟨n, ho, h5, h6⟩
      · left
        obtain ⟨a1, a2, b, c1, c2, c3, c4, h1, h2, h3, h4, h5, h6, h7⟩ :=
          fields_of_firstMissing_none hk
        refine ⟨_, fromYamlDocs_ok rest hs h1 h2 h3 h4 h5 h6 h7 ho, hol, ?_,
          (toI8_range _).1, (toI8_range _).2⟩
        show (if dofOf doc = 5 then s0.take 5 ++ [0] else s0).length = 6
        split
        · simp [hl]
        · exact hl
      · right; left; exact fromYamlDocs_offs_err rest hs hk ho
      · right; right; right; exact ⟨n, h5, h6, fromYamlDocs_offs_err rest hs hk ho⟩
  · right; right; right; exact ⟨n, h5, h6, fromYamlDocs_signs_err rest hs⟩

/-! ### lookups in the writer's tree -/

theorem tree_geoNum (ofInt : Int → R) (leafLen leafOff : R → Yaml R) (p : Params R) (signs : List Int) :
    geoNum ofInt (toYamlTree leafLen leafOff p signs) "a1" = (leafLen p.a1).asNumber ofInt ∧
    geoNum ofInt (toYamlTree leafLen leafOff p signs) "a2" = (leafLen p.a2).asNumber ofInt ∧
    geoNum ofInt (toYamlTree leafLen leafOff p signs) "b" = (leafLen p.b).asNumber ofInt ∧
    geoNum ofInt (toYamlTree leafLen leafOff p signs) "c1" = (leafLen p.c1).asNumber ofInt ∧
    geoNum ofInt (toYamlTree leafLen leafOff p signs) "c2" = (leafLen p.c2).asNumber ofInt ∧
    geoNum ofInt (toYamlTree leafLen leafOff p signs) "c3" = (leafLen p.c3).asNumber ofInt ∧
    geoNum ofInt (toYamlTree leafLen leafOff p signs) "c4" = (leafLen p.c4).asNumber ofInt := by
  simp [geoNum, geoOf, toYamlTree, Yaml.get, Yaml.isStr]

theorem tree_signs (leafLen leafOff : R → Yaml R) (p : Params R) (signs : List Int) :
    (toYamlTree leafLen leafOff p signs).get "opw_kinematics_joint_sign_corrections"
      = .arr (signs.map (fun s => .int s)) := by
  simp [toYamlTree, Yaml.get, Yaml.isStr]

theorem tree_offs (leafLen leafOff : R → Yaml R) (p : Params R) (signs : List Int) :
    (toYamlTree leafLen leafOff p signs).get "opw_kinematics_joint_offsets"
      = .arr (p.offsets.toList.map leafOff) := by
  simp [toYamlTree, Yaml.get, Yaml.isStr]

theorem tree_dof (leafLen leafOff : R → Yaml R) (p : Params R) (signs : List Int) :
    dofOf (toYamlTree leafLen leafOff p signs) = toI8 p.dof := by
  simp [dofOf, toYamlTree, Yaml.get, Yaml.isStr, Yaml.asI64]

end Opw.YamlL
