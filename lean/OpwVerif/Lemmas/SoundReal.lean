/-
  Helper lemmas for C01c: what the run-time cross-check (`Sound`, `Sound5`) says over ℝ, and how it
  survives (a) the `SINGULARITY_SHIFT` of the pose in `inverse_continuing` and (b) the final
  `normalize_near`.

  Contents
  * triangle inequality for the model's 3-vector norm (`V3.norm_add_le`);
  * `comparePoses` / `compareXyz` over ℝ are the two (one) inequalities (`sound_iff`, `sound5_iff`);
  * the constants: `0 ≤ singShift`, `singShift = distTol / 8`, decimal bounds;
  * norm of the four shift vectors, position error against the requested pose of a vector that was
    checked against a shifted pose (`sound_shift`);
  * whole-turn invariance of `forward` for INTEGER-valued sign corrections (`SignsInt`), hence
    `forward p (s.normalizeNear prev) = forward p s`.
-/
import OpwVerif.Lemmas.Sound
import OpwVerif.Lemmas.Wrist
import OpwVerif.Lemmas.Nearest
import OpwVerif.Props.C02
namespace Opw.SoundReal
open Opw Opw.Wrist

attribute [-simp] Opw.ofNatLit_real

/-! ### The 3-vector norm -/

theorem norm_nonneg (a : V3 ℝ) : 0 ≤ a.norm := by
  rw [V3.norm_eq]; exact Real.sqrt_nonneg _

theorem normSq_add (a b : V3 ℝ) :
    (a.add b).normSq = a.normSq + b.normSq + 2 * V3.dot a b := by
  simp only [V3.normSq, V3.dot, V3.add]; ring

/-- Cauchy–Schwarz (from Lagrange's identity) -/
theorem dot_sq_le (a b : V3 ℝ) : V3.dot a b ^ 2 ≤ a.normSq * b.normSq := by
  have h := V3.lagrange a b
  have h0 := V3.normSq_nonneg (V3.cross a b)
  nlinarith

theorem dot_le_norm_mul (a b : V3 ℝ) : V3.dot a b ≤ a.norm * b.norm := by
  rw [V3.norm_eq, V3.norm_eq, ← Real.sqrt_mul (V3.normSq_nonneg a)]
  exact (le_abs_self _).trans (Real.abs_le_sqrt (dot_sq_le a b))

/-- triangle (Minkowski) inequality for the 3-vector norm of the model -/
theorem norm_add_le (a b : V3 ℝ) : (a.add b).norm ≤ a.norm + b.norm := by
  have ha := norm_nonneg a
  have hb := norm_nonneg b
  have hd := dot_le_norm_mul a b
  have hsa : a.norm ^ 2 = a.normSq := by rw [V3.norm_eq]; exact Real.sq_sqrt (V3.normSq_nonneg a)
  have hsb : b.norm ^ 2 = b.normSq := by rw [V3.norm_eq]; exact Real.sq_sqrt (V3.normSq_nonneg b)
  rw [V3.norm_eq (a.add b)]
  apply Real.sqrt_le_iff.mpr
  refine ⟨by linarith, ?_⟩
  rw [normSq_add]
  nlinarith

theorem norm_neg (a : V3 ℝ) : a.neg.norm = a.norm := by
  simp only [V3.norm, V3.normSq, V3.dot, V3.neg, neg_mul_neg]

/-! ### The cross-checks over ℝ -/

/-- `compare_poses` over ℝ: the two inequalities -/
theorem comparePoses_iff (a b : Iso ℝ) (dT aT : ℝ) :
    comparePoses a b dT aT = true ↔
      (a.t.sub b.t).norm ≤ dT ∧ |Quat.angleTo a.q b.q| ≤ aT := by
  unfold comparePoses
  simp only [nabs_real, abs_of_nonneg (norm_nonneg _)]
  by_cases h1 : (a.t.sub b.t).norm ≤ dT <;> by_cases h2 : |Quat.angleTo a.q b.q| ≤ aT <;>
    simp [h1, h2]

theorem sound_iff (p : Params ℝ) (pose : Iso ℝ) (s : J6 ℝ) :
    Sound p pose s ↔
      (pose.t.sub (forward p s).t).norm ≤ distTol ∧
        |Quat.angleTo pose.q (forward p s).q| ≤ angTol :=
  comparePoses_iff _ _ _ _

theorem sound5_iff (p : Params ℝ) (pose : Iso ℝ) (s : J6 ℝ) :
    Sound5 p pose s ↔ (pose.t.sub (forward p s).t).norm ≤ distTol := by
  unfold Sound5 compareXyz
  exact decide_eq_true_iff

/-! ### Constants -/

theorem distTol_eq : (distTol : ℝ) = 4722366482869645 * (2 : ℝ) ^ (-72 : ℤ) := by
  show ((Gen.distTolM : ℤ) : ℝ) * (2 : ℝ) ^ Gen.distTolE = _
  unfold Gen.distTolM Gen.distTolE
  norm_num

theorem angTol_eq : (angTol : ℝ) = 4722366482869645 * (2 : ℝ) ^ (-72 : ℤ) := by
  show ((Gen.angTolM : ℤ) : ℝ) * (2 : ℝ) ^ Gen.angTolE = _
  unfold Gen.angTolM Gen.angTolE
  norm_num

theorem singShift_eq : (singShift : ℝ) = 4722366482869645 * (2 : ℝ) ^ (-75 : ℤ) := by
  show ((Gen.singShiftM : ℤ) : ℝ) * (2 : ℝ) ^ Gen.singShiftE = _
  unfold Gen.singShiftM Gen.singShiftE
  norm_num

theorem singShift_nonneg : (0 : ℝ) ≤ singShift := by
  rw [singShift_eq]; positivity

/-- `SINGULARITY_SHIFT = DISTANCE_TOLERANCE / 8` exactly -/
theorem singShift_eq_distTol_div : (singShift : ℝ) = distTol / 8 := by
  rw [singShift_eq, distTol_eq]
  norm_num

/-- `DISTANCE_TOLERANCE` is the double nearest to `1e-6`, which lies just below it -/
theorem distTol_le : (distTol : ℝ) ≤ 1 / 10 ^ 6 := by
  rw [distTol_eq]; norm_num

theorem distTol_gt : (999999999 : ℝ) / 10 ^ 15 < distTol := by
  rw [distTol_eq]; norm_num

theorem angTol_le : (angTol : ℝ) ≤ 1 / 10 ^ 6 := by
  rw [angTol_eq]; norm_num

theorem singShift_le : (singShift : ℝ) ≤ 125 / 10 ^ 9 := by
  rw [singShift_eq_distTol_div]; have := distTol_le; linarith

/-- 1 µm + 0.125 µm -/
theorem distTol_add_singShift_le : (distTol : ℝ) + singShift ≤ 1125 / 10 ^ 9 := by
  have := distTol_le; have := singShift_le; linarith

/-! ### The shift vectors -/

theorem sqrt_mul_self' {x : ℝ} (h : 0 ≤ x) : Real.sqrt (x * x) = x := Real.sqrt_mul_self h

/-- every shift in the `'shifts` list is at most `SINGULARITY_SHIFT` long -/
theorem norm_shift_le {d : V3 ℝ} (hd : d ∈ (shifts : List (V3 ℝ))) : d.norm ≤ singShift := by
  have h0 := singShift_nonneg
  simp only [shifts, List.mem_cons, List.not_mem_nil, or_false] at hd
  rcases hd with rfl | rfl | rfl | rfl <;>
    simp only [V3.norm, V3.normSq, V3.dot, nsqrt_real, lit0, mul_zero, add_zero, zero_add,
      Real.sqrt_zero, Real.sqrt_mul_self h0, le_refl, h0]

/-- the non-zero shifts are exactly `SINGULARITY_SHIFT` long, the zero shift is `0` long -/
theorem norm_shift_eq {d : V3 ℝ} (hd : d ∈ (shifts : List (V3 ℝ))) :
    d.norm = 0 ∨ d.norm = singShift := by
  have h0 := singShift_nonneg
  simp only [shifts, List.mem_cons, List.not_mem_nil, or_false] at hd
  rcases hd with rfl | rfl | rfl | rfl <;>
    simp only [V3.norm, V3.normSq, V3.dot, nsqrt_real, lit0, mul_zero, add_zero, zero_add,
      Real.sqrt_zero, Real.sqrt_mul_self h0, true_or, or_true]

theorem shiftPose_sub (pose : Iso ℝ) (d f : V3 ℝ) :
    pose.t.sub f = ((shiftPose pose d).t.sub f).add d.neg := by
  apply V3.ext' <;> simp only [shiftPose, V3.sub, V3.add, V3.neg] <;> ring

/-- a vector that reproduces the shifted pose `pose + d` to `tol` reproduces `pose` to `tol + ‖d‖` -/
theorem dist_shift_le (pose : Iso ℝ) (d f : V3 ℝ) :
    (pose.t.sub f).norm ≤ ((shiftPose pose d).t.sub f).norm + d.norm := by
  rw [shiftPose_sub pose d f]
  exact (norm_add_le _ _).trans_eq (by rw [norm_neg])

/-- cross-checked against a shifted pose ⇒ within `distTol + singShift` / `angTol` of the requested
pose (the shift does not touch the rotation) -/
theorem sound_shift {p : Params ℝ} {pose : Iso ℝ} {d : V3 ℝ} {s : J6 ℝ}
    (hd : d ∈ (shifts : List (V3 ℝ))) (h : Sound p (shiftPose pose d) s) :
    (pose.t.sub (forward p s).t).norm ≤ distTol + singShift ∧
      |Quat.angleTo pose.q (forward p s).q| ≤ angTol := by
  obtain ⟨h1, h2⟩ := (sound_iff _ _ _).mp h
  refine ⟨?_, h2⟩
  have := dist_shift_le pose d (forward p s).t
  have := norm_shift_le hd
  linarith

/-! ### Whole turns and integer-valued sign corrections -/

/-- every sign correction is an integer (the code stores `i8` values, cast to `f64`; the
constructors use `±1`) -/
def SignsInt (p : Params ℝ) : Prop :=
  (∃ n : ℤ, p.signs.j1 = n) ∧ (∃ n : ℤ, p.signs.j2 = n) ∧ (∃ n : ℤ, p.signs.j3 = n) ∧
  (∃ n : ℤ, p.signs.j4 = n) ∧ (∃ n : ℤ, p.signs.j5 = n) ∧ (∃ n : ℤ, p.signs.j6 = n)

theorem isInt_of_sign {s : ℝ} (h : s = 1 ∨ s = -1) : ∃ n : ℤ, s = n := by
  rcases h with rfl | rfl
  · exact ⟨1, by norm_num⟩
  · exact ⟨-1, by norm_num⟩

theorem SignsInt.of_signsOk {p : Params ℝ} (h : C02.SignsOk p) : SignsInt p :=
  ⟨isInt_of_sign h.1, isInt_of_sign h.2.1, isInt_of_sign h.2.2.1, isInt_of_sign h.2.2.2.1,
    isInt_of_sign h.2.2.2.2.1, isInt_of_sign h.2.2.2.2.2⟩

/-- multiplying by an integer keeps the whole-turn congruence -/
theorem TurnEq.mul_int {a b s : ℝ} (hs : ∃ n : ℤ, s = n) : TurnEq a b → TurnEq (a * s) (b * s) := by
  obtain ⟨n, rfl⟩ := hs
  rintro ⟨k, hk⟩
  exact ⟨k * n, by rw [hk]; push_cast; ring⟩

theorem thetaOf_turnEq (p : Params ℝ) (hs : SignsInt p) {a b : J6 ℝ} (h : J6TurnEq a b) :
    J6TurnEq (thetaOf p a) (thetaOf p b) := by
  obtain ⟨s1, s2, s3, s4, s5, s6⟩ := hs
  obtain ⟨h1, h2, h3, h4, h5, h6⟩ := h
  exact ⟨(TurnEq.mul_int s1 h1).sub_const _, (TurnEq.mul_int s2 h2).sub_const _,
    (TurnEq.mul_int s3 h3).sub_const _, (TurnEq.mul_int s4 h4).sub_const _,
    (TurnEq.mul_int s5 h5).sub_const _, (TurnEq.mul_int s6 h6).sub_const _⟩

/-- `forward` does not change under whole turns of the JOINT angles (integer sign corrections) -/
theorem forward_turnEq (p : Params ℝ) (hs : SignsInt p) {a b : J6 ℝ} (h : J6TurnEq a b) :
    forward p a = forward p b :=
  C02.forward_congr p (thetaOf_turnEq p hs h)

theorem normalizeNear_turnEq (s prev : J6 ℝ) : J6TurnEq (s.normalizeNear prev) s :=
  ⟨Nearest.normalizeNear_turn _ _, Nearest.normalizeNear_turn _ _, Nearest.normalizeNear_turn _ _,
   Nearest.normalizeNear_turn _ _, Nearest.normalizeNear_turn _ _, Nearest.normalizeNear_turn _ _⟩

/-- the final `normalize_near` of `inverse_continuing` does not change the forward pose -/
theorem forward_normalizeNear (p : Params ℝ) (hs : SignsInt p) (s prev : J6 ℝ) :
    forward p (s.normalizeNear prev) = forward p s :=
  forward_turnEq p hs (normalizeNear_turnEq s prev)

/-- without integer signs the statement is false: sign `1/2` turns a whole turn of the joint into
half a turn of θ -/
theorem mul_half_not_turnEq : ¬ TurnEq ((0 + 2 * Real.pi * (1 : ℤ)) * (1 / 2)) (0 * (1 / 2)) := by
  rintro ⟨k, hk⟩
  have hpi := Real.pi_pos
  have h : (1 : ℝ) = 2 * k := by
    have : Real.pi * 1 = Real.pi * (2 * k) := by push_cast at hk; linarith
    exact mul_left_cancel₀ hpi.ne' this
  have h' : (1 : ℤ) = 2 * k := by exact_mod_cast h
  omega

end Opw.SoundReal
