/-
  Real-number facts about the `Geom.lean` model: at `R := ℝ` the structures `V3`, `M3`, `Quat`,
  `Iso` are the usual vectors, 3×3 matrices, quaternions and rigid motions.

  Everything asked for is proved (nothing skipped).  Unit quaternions are expressed by the
  hypothesis `q.normSq = 1`.
-/
import OpwVerif.Geom
import OpwVerif.Real

namespace Opw

/-! ### Literals of the generic code at `ℝ` -/

theorem lit0 : (@OfNat.ofNat ℝ 0 instOfNatOpw) = (0 : ℝ) := by
  show ((0 : ℕ) : ℝ) = 0; exact Nat.cast_zero
theorem lit1 : (@OfNat.ofNat ℝ 1 instOfNatOpw) = (1 : ℝ) := by
  show ((1 : ℕ) : ℝ) = 1; exact Nat.cast_one
theorem lit2 : (@OfNat.ofNat ℝ 2 instOfNatOpw) = (2 : ℝ) := by
  show ((2 : ℕ) : ℝ) = 2; exact Nat.cast_ofNat
theorem lit4 : (@OfNat.ofNat ℝ 4 instOfNatOpw) = (4 : ℝ) := by
  show ((4 : ℕ) : ℝ) = 4; exact Nat.cast_ofNat

/-! ### Extensionality -/

theorem V3.ext' {a b : V3 ℝ} (hx : a.x = b.x) (hy : a.y = b.y) (hz : a.z = b.z) : a = b := by
  cases a; cases b; simp_all

theorem M3.ext' {a b : M3 ℝ}
    (h00 : a.m00 = b.m00) (h01 : a.m01 = b.m01) (h02 : a.m02 = b.m02)
    (h10 : a.m10 = b.m10) (h11 : a.m11 = b.m11) (h12 : a.m12 = b.m12)
    (h20 : a.m20 = b.m20) (h21 : a.m21 = b.m21) (h22 : a.m22 = b.m22) : a = b := by
  cases a; cases b; simp_all

theorem Quat.ext' {a b : Quat ℝ} (hw : a.w = b.w) (hi : a.i = b.i) (hj : a.j = b.j)
    (hk : a.k = b.k) : a = b := by
  cases a; cases b; simp_all

theorem Iso.ext' {a b : Iso ℝ} (ht : a.t = b.t) (hq : a.q = b.q) : a = b := by
  cases a; cases b; simp_all

/-! ### Vectors -/

theorem V3.add_assoc (a b c : V3 ℝ) : (a.add b).add c = a.add (b.add c) := by
  apply V3.ext' <;> simp only [V3.add] <;> ring

theorem V3.add_comm (a b : V3 ℝ) : a.add b = b.add a := by
  apply V3.ext' <;> simp only [V3.add] <;> ring

theorem V3.add_zero (a : V3 ℝ) : a.add V3.zero = a := by
  apply V3.ext' <;> simp only [V3.add, V3.zero, lit0] <;> ring

theorem V3.zero_add (a : V3 ℝ) : V3.zero.add a = a := by
  apply V3.ext' <;> simp only [V3.add, V3.zero, lit0] <;> ring

theorem V3.add_neg (a : V3 ℝ) : a.add a.neg = V3.zero := by
  apply V3.ext' <;> simp only [V3.add, V3.neg, V3.zero, lit0] <;> ring

theorem V3.neg_add (a : V3 ℝ) : a.neg.add a = V3.zero := by
  apply V3.ext' <;> simp only [V3.add, V3.neg, V3.zero, lit0] <;> ring

theorem V3.sub_eq_add_neg (a b : V3 ℝ) : a.sub b = a.add b.neg := by
  apply V3.ext' <;> simp only [V3.add, V3.neg, V3.sub] <;> ring

theorem V3.normSq_eq (a : V3 ℝ) : a.normSq = a.x * a.x + a.y * a.y + a.z * a.z := rfl

theorem V3.normSq_nonneg (a : V3 ℝ) : 0 ≤ a.normSq := by
  rw [V3.normSq_eq]; nlinarith [mul_self_nonneg a.x, mul_self_nonneg a.y, mul_self_nonneg a.z]

theorem V3.norm_eq (a : V3 ℝ) : a.norm = Real.sqrt a.normSq := rfl

/-! ### Matrices -/

/-- determinant (first-row expansion) -/
def M3.det (a : M3 ℝ) : ℝ :=
  a.m00 * (a.m11 * a.m22 - a.m12 * a.m21) - a.m01 * (a.m10 * a.m22 - a.m12 * a.m20)
    + a.m02 * (a.m10 * a.m21 - a.m11 * a.m20)

/-- cofactor matrix -/
def M3.cof (a : M3 ℝ) : M3 ℝ :=
  ⟨a.m11 * a.m22 - a.m12 * a.m21, a.m12 * a.m20 - a.m10 * a.m22, a.m10 * a.m21 - a.m11 * a.m20,
   a.m02 * a.m21 - a.m01 * a.m22, a.m00 * a.m22 - a.m02 * a.m20, a.m01 * a.m20 - a.m00 * a.m21,
   a.m01 * a.m12 - a.m02 * a.m11, a.m02 * a.m10 - a.m00 * a.m12, a.m00 * a.m11 - a.m01 * a.m10⟩

theorem M3.mul_assoc (a b c : M3 ℝ) : (a.mul b).mul c = a.mul (b.mul c) := by
  apply M3.ext' <;> simp only [M3.mul] <;> ring

theorem M3.mul_one (a : M3 ℝ) : a.mul M3.one = a := by
  apply M3.ext' <;> simp only [M3.mul, M3.one, lit0, lit1] <;> ring

theorem M3.one_mul (a : M3 ℝ) : M3.one.mul a = a := by
  apply M3.ext' <;> simp only [M3.mul, M3.one, lit0, lit1] <;> ring

theorem M3.mulVec_mulVec (a b : M3 ℝ) (v : V3 ℝ) :
    (a.mul b).mulVec v = a.mulVec (b.mulVec v) := by
  apply V3.ext' <;> simp only [M3.mul, M3.mulVec] <;> ring

theorem M3.one_mulVec (v : V3 ℝ) : M3.one.mulVec v = v := by
  apply V3.ext' <;> simp only [M3.mulVec, M3.one, lit0, lit1] <;> ring

theorem M3.mulVec_add (a : M3 ℝ) (u v : V3 ℝ) :
    a.mulVec (u.add v) = (a.mulVec u).add (a.mulVec v) := by
  apply V3.ext' <;> simp only [M3.mulVec, V3.add] <;> ring

theorem M3.mulVec_neg (a : M3 ℝ) (v : V3 ℝ) : a.mulVec v.neg = (a.mulVec v).neg := by
  apply V3.ext' <;> simp only [M3.mulVec, V3.neg] <;> ring

theorem M3.mulVec_zero (a : M3 ℝ) : a.mulVec V3.zero = V3.zero := by
  apply V3.ext' <;> simp only [M3.mulVec, V3.zero, lit0] <;> ring

theorem M3.transpose_transpose (a : M3 ℝ) : a.transpose.transpose = a := rfl

theorem M3.transpose_mul (a b : M3 ℝ) : (a.mul b).transpose = b.transpose.mul a.transpose := by
  apply M3.ext' <;> simp only [M3.mul, M3.transpose] <;> ring

theorem M3.transpose_one : (M3.one : M3 ℝ).transpose = M3.one := rfl

theorem M3.det_mul (a b : M3 ℝ) : (a.mul b).det = a.det * b.det := by
  simp only [M3.det, M3.mul]; ring

theorem M3.det_one : (M3.one : M3 ℝ).det = 1 := by
  simp only [M3.det, M3.one, lit0, lit1]; ring

theorem M3.det_transpose (a : M3 ℝ) : a.transpose.det = a.det := by
  simp only [M3.det, M3.transpose]; ring

theorem M3.cof_mul (a b : M3 ℝ) : (a.mul b).cof = a.cof.mul b.cof := by
  apply M3.ext' <;> simp only [M3.cof, M3.mul] <;> ring

theorem M3.rz_mul_rz (s1 c1 s2 c2 : ℝ) :
    (M3.rz s1 c1).mul (M3.rz s2 c2) = M3.rz (s1 * c2 + c1 * s2) (c1 * c2 - s1 * s2) := by
  apply M3.ext' <;> simp only [M3.mul, M3.rz, lit0, lit1] <;> ring

theorem M3.ry_mul_ry (s1 c1 s2 c2 : ℝ) :
    (M3.ry s1 c1).mul (M3.ry s2 c2) = M3.ry (s1 * c2 + c1 * s2) (c1 * c2 - s1 * s2) := by
  apply M3.ext' <;> simp only [M3.mul, M3.ry, lit0, lit1] <;> ring

/-! ### Quaternions: algebra -/

theorem Quat.normSq_eq (q : Quat ℝ) :
    q.normSq = q.w * q.w + q.i * q.i + q.j * q.j + q.k * q.k := rfl

theorem Quat.normSq_nonneg (q : Quat ℝ) : 0 ≤ q.normSq := by
  rw [Quat.normSq_eq]
  nlinarith [mul_self_nonneg q.w, mul_self_nonneg q.i, mul_self_nonneg q.j, mul_self_nonneg q.k]

theorem Quat.mul_assoc (a b c : Quat ℝ) : (a.mul b).mul c = a.mul (b.mul c) := by
  apply Quat.ext' <;> simp only [Quat.mul] <;> ring

theorem Quat.one_mul (a : Quat ℝ) : Quat.one.mul a = a := by
  apply Quat.ext' <;> simp only [Quat.mul, Quat.one, lit0, lit1] <;> ring

theorem Quat.mul_one (a : Quat ℝ) : a.mul Quat.one = a := by
  apply Quat.ext' <;> simp only [Quat.mul, Quat.one, lit0, lit1] <;> ring

theorem Quat.normSq_mul (a b : Quat ℝ) : (a.mul b).normSq = a.normSq * b.normSq := by
  simp only [Quat.normSq, Quat.mul]; ring

theorem Quat.normSq_conj (q : Quat ℝ) : q.conj.normSq = q.normSq := by
  simp only [Quat.normSq, Quat.conj]; ring

theorem Quat.normSq_neg (q : Quat ℝ) : q.neg.normSq = q.normSq := by
  simp only [Quat.normSq, Quat.neg]; ring

theorem Quat.normSq_one : (Quat.one : Quat ℝ).normSq = 1 := by
  simp only [Quat.normSq, Quat.one, lit0, lit1]; ring

theorem Quat.conj_conj (q : Quat ℝ) : q.conj.conj = q := by
  apply Quat.ext' <;> simp only [Quat.conj] <;> ring

theorem Quat.conj_mul (a b : Quat ℝ) : (a.mul b).conj = b.conj.mul a.conj := by
  apply Quat.ext' <;> simp only [Quat.conj, Quat.mul] <;> ring

theorem Quat.conj_one : (Quat.one : Quat ℝ).conj = Quat.one := by
  apply Quat.ext' <;> simp only [Quat.conj, Quat.one, lit0, lit1] <;> ring

theorem Quat.mul_conj_self (q : Quat ℝ) (h : q.normSq = 1) : q.mul q.conj = Quat.one := by
  rw [Quat.normSq_eq] at h
  apply Quat.ext' <;> simp only [Quat.conj, Quat.mul, Quat.one, lit0, lit1]
  · linear_combination h
  all_goals ring

theorem Quat.conj_mul_self (q : Quat ℝ) (h : q.normSq = 1) : q.conj.mul q = Quat.one := by
  rw [Quat.normSq_eq] at h
  apply Quat.ext' <;> simp only [Quat.conj, Quat.mul, Quat.one, lit0, lit1]
  · linear_combination h
  all_goals ring

theorem Quat.normSq_mul_unit (a b : Quat ℝ) (ha : a.normSq = 1) (hb : b.normSq = 1) :
    (a.mul b).normSq = 1 := by
  rw [Quat.normSq_mul, ha, hb, _root_.mul_one]

theorem Quat.normSq_conj_unit (q : Quat ℝ) (h : q.normSq = 1) : q.conj.normSq = 1 := by
  rw [Quat.normSq_conj, h]

/-! ### Quaternions: rotation matrix -/

theorem Quat.toMat_mul (a b : Quat ℝ) : (a.mul b).toMat = a.toMat.mul b.toMat := by
  apply M3.ext' <;> simp only [M3.mul, Quat.toMat, Quat.mul, lit2] <;> ring

theorem Quat.toMat_one : (Quat.one : Quat ℝ).toMat = M3.one := by
  apply M3.ext' <;> simp only [Quat.toMat, Quat.one, M3.one, lit0, lit1, lit2] <;> ring

theorem Quat.toMat_conj (q : Quat ℝ) : q.conj.toMat = q.toMat.transpose := by
  apply M3.ext' <;> simp only [Quat.toMat, Quat.conj, M3.transpose, lit2] <;> ring

theorem Quat.toMat_neg (q : Quat ℝ) : q.neg.toMat = q.toMat := by
  apply M3.ext' <;> simp only [Quat.toMat, Quat.neg, lit2] <;> ring

/-- `rotate` and the rotation matrix differ by `(1 - |q|²) v`; they agree on unit quaternions. -/
theorem Quat.rotate_eq_mulVec (q : Quat ℝ) (h : q.normSq = 1) (v : V3 ℝ) :
    q.rotate v = q.toMat.mulVec v := by
  rw [Quat.normSq_eq] at h
  apply V3.ext' <;>
    simp only [Quat.rotate, Quat.toMat, Quat.imag, M3.mulVec, V3.cross, V3.scale, V3.add, lit2]
  · linear_combination (-v.x) * h
  · linear_combination (-v.y) * h
  · linear_combination (-v.z) * h

theorem Quat.rotate_add (q : Quat ℝ) (u v : V3 ℝ) :
    q.rotate (u.add v) = (q.rotate u).add (q.rotate v) := by
  apply V3.ext' <;>
    simp only [Quat.rotate, Quat.imag, V3.cross, V3.scale, V3.add, lit2] <;> ring

theorem Quat.rotate_neg (q : Quat ℝ) (v : V3 ℝ) : q.rotate v.neg = (q.rotate v).neg := by
  apply V3.ext' <;>
    simp only [Quat.rotate, Quat.imag, V3.cross, V3.scale, V3.add, V3.neg, lit2] <;> ring

theorem Quat.rotate_zero (q : Quat ℝ) : q.rotate V3.zero = V3.zero := by
  apply V3.ext' <;>
    simp only [Quat.rotate, Quat.imag, V3.cross, V3.scale, V3.add, V3.zero, lit0, lit2] <;> ring

theorem Quat.one_rotate (v : V3 ℝ) : (Quat.one : Quat ℝ).rotate v = v := by
  apply V3.ext' <;>
    simp only [Quat.rotate, Quat.imag, Quat.one, V3.cross, V3.scale, V3.add, lit0, lit1, lit2] <;>
    ring

theorem Quat.rotate_mul (a b : Quat ℝ) (ha : a.normSq = 1) (hb : b.normSq = 1) (v : V3 ℝ) :
    (a.mul b).rotate v = a.rotate (b.rotate v) := by
  rw [Quat.rotate_eq_mulVec _ (Quat.normSq_mul_unit a b ha hb), Quat.rotate_eq_mulVec a ha,
    Quat.rotate_eq_mulVec b hb, Quat.toMat_mul, M3.mulVec_mulVec]

theorem Quat.rotate_conj_rotate (q : Quat ℝ) (h : q.normSq = 1) (v : V3 ℝ) :
    q.rotate (q.conj.rotate v) = v := by
  rw [← Quat.rotate_mul q q.conj h (Quat.normSq_conj_unit q h), Quat.mul_conj_self q h,
    Quat.one_rotate]

theorem Quat.conj_rotate_rotate (q : Quat ℝ) (h : q.normSq = 1) (v : V3 ℝ) :
    q.conj.rotate (q.rotate v) = v := by
  rw [← Quat.rotate_mul q.conj q (Quat.normSq_conj_unit q h) h, Quat.conj_mul_self q h,
    Quat.one_rotate]

/-- `|toMat q · v|² = |q|⁴ |v|²` -/
theorem Quat.normSq_toMat_mulVec (q : Quat ℝ) (v : V3 ℝ) :
    (q.toMat.mulVec v).normSq = q.normSq * q.normSq * v.normSq := by
  simp only [V3.normSq, V3.dot, M3.mulVec, Quat.toMat, Quat.normSq, lit2]; ring

theorem Quat.normSq_rotate (q : Quat ℝ) (h : q.normSq = 1) (v : V3 ℝ) :
    (q.rotate v).normSq = v.normSq := by
  rw [Quat.rotate_eq_mulVec q h, Quat.normSq_toMat_mulVec, h, _root_.one_mul, _root_.one_mul]

/-- item 7 of the task (name as requested) -/
theorem Quat.norm_rotate (q : Quat ℝ) (h : q.normSq = 1) (v : V3 ℝ) :
    (q.rotate v).normSq = v.normSq := Quat.normSq_rotate q h v

theorem Quat.norm_rotate' (q : Quat ℝ) (h : q.normSq = 1) (v : V3 ℝ) :
    (q.rotate v).norm = v.norm := by
  simp only [V3.norm, Quat.normSq_rotate q h v]

/-- rotations preserve dot products -/
theorem Quat.dot_toMat_mulVec (q : Quat ℝ) (u v : V3 ℝ) :
    (q.toMat.mulVec u).dot (q.toMat.mulVec v) = q.normSq * q.normSq * u.dot v := by
  simp only [V3.dot, M3.mulVec, Quat.toMat, Quat.normSq, lit2]; ring

theorem Quat.dot_rotate (q : Quat ℝ) (h : q.normSq = 1) (u v : V3 ℝ) :
    (q.rotate u).dot (q.rotate v) = u.dot v := by
  rw [Quat.rotate_eq_mulVec q h, Quat.rotate_eq_mulVec q h, Quat.dot_toMat_mulVec, h,
    _root_.one_mul, _root_.one_mul]

/-! ### Orthogonality and determinant of `toMat` -/

theorem Quat.toMat_mul_transpose (q : Quat ℝ) (h : q.normSq = 1) :
    q.toMat.mul q.toMat.transpose = M3.one := by
  rw [Quat.normSq_eq] at h
  apply M3.ext' <;> simp only [M3.mul, M3.transpose, Quat.toMat, M3.one, lit0, lit1, lit2] <;>
    first
    | ring1
    | linear_combination (q.w * q.w + q.i * q.i + q.j * q.j + q.k * q.k + 1) * h

theorem Quat.toMat_transpose_mul (q : Quat ℝ) (h : q.normSq = 1) :
    q.toMat.transpose.mul q.toMat = M3.one := by
  rw [Quat.normSq_eq] at h
  apply M3.ext' <;> simp only [M3.mul, M3.transpose, Quat.toMat, M3.one, lit0, lit1, lit2] <;>
    first
    | ring1
    | linear_combination (q.w * q.w + q.i * q.i + q.j * q.j + q.k * q.k + 1) * h

/-- `det (toMat q) = |q|⁶` -/
theorem Quat.det_toMat_eq (q : Quat ℝ) : q.toMat.det = q.normSq * q.normSq * q.normSq := by
  simp only [M3.det, Quat.toMat, Quat.normSq, lit2]; ring

theorem Quat.det_toMat (q : Quat ℝ) (h : q.normSq = 1) : q.toMat.det = 1 := by
  rw [Quat.det_toMat_eq, h]; ring

/-- `cof (toMat q) = |q|² · toMat q`, entrywise -/
theorem Quat.cof_toMat (q : Quat ℝ) (h : q.normSq = 1) : q.toMat.cof = q.toMat := by
  rw [Quat.normSq_eq] at h
  apply M3.ext' <;> simp only [M3.cof, Quat.toMat, lit2]
  · linear_combination (q.w * q.w + q.i * q.i - q.j * q.j - q.k * q.k) * h
  · linear_combination (q.i * q.j * 2 - q.w * q.k * 2) * h
  · linear_combination (q.w * q.j * 2 + q.i * q.k * 2) * h
  · linear_combination (q.w * q.k * 2 + q.i * q.j * 2) * h
  · linear_combination (q.w * q.w - q.i * q.i + q.j * q.j - q.k * q.k) * h
  · linear_combination (q.j * q.k * 2 - q.w * q.i * 2) * h
  · linear_combination (q.i * q.k * 2 - q.w * q.j * 2) * h
  · linear_combination (q.w * q.i * 2 + q.j * q.k * 2) * h
  · linear_combination (q.w * q.w - q.i * q.i - q.j * q.j + q.k * q.k) * h

/-! ### Elementary rotations -/

theorem Quat.rotZ_eq (θ : ℝ) :
    Quat.rotZ θ = ⟨Real.cos (θ / 2), 0, 0, Real.sin (θ / 2)⟩ := by
  apply Quat.ext' <;>
    simp only [Quat.rotZ, Quat.ofAxisAngle, lit0, lit1, lit2, nsin_real, ncos_real] <;> ring

theorem Quat.rotY_eq (θ : ℝ) :
    Quat.rotY θ = ⟨Real.cos (θ / 2), 0, Real.sin (θ / 2), 0⟩ := by
  apply Quat.ext' <;>
    simp only [Quat.rotY, Quat.ofAxisAngle, lit0, lit1, lit2, nsin_real, ncos_real] <;> ring

private theorem sin_half_double (θ : ℝ) :
    Real.sin θ = 2 * Real.sin (θ / 2) * Real.cos (θ / 2) := by
  rw [← Real.sin_two_mul]; congr 1; ring

private theorem cos_half_double (θ : ℝ) :
    Real.cos θ = Real.cos (θ / 2) * Real.cos (θ / 2) - Real.sin (θ / 2) * Real.sin (θ / 2) := by
  have := Real.cos_two_mul (θ / 2)
  have h1 := Real.sin_sq_add_cos_sq (θ / 2)
  rw [show 2 * (θ / 2) = θ by ring] at this
  rw [this]; linear_combination h1

theorem Quat.normSq_rotZ (θ : ℝ) : (Quat.rotZ θ).normSq = 1 := by
  rw [Quat.rotZ_eq, Quat.normSq_eq]
  have h1 := Real.sin_sq_add_cos_sq (θ / 2)
  linear_combination h1

theorem Quat.normSq_rotY (θ : ℝ) : (Quat.rotY θ).normSq = 1 := by
  rw [Quat.rotY_eq, Quat.normSq_eq]
  have h1 := Real.sin_sq_add_cos_sq (θ / 2)
  linear_combination h1

theorem Quat.toMat_rotZ (θ : ℝ) : (Quat.rotZ θ).toMat = M3.rz (Real.sin θ) (Real.cos θ) := by
  rw [Quat.rotZ_eq, sin_half_double θ, cos_half_double θ]
  have h1 := Real.sin_sq_add_cos_sq (θ / 2)
  apply M3.ext' <;> simp only [Quat.toMat, M3.rz, lit0, lit1, lit2] <;>
    first
    | ring1
    | linear_combination h1

theorem Quat.toMat_rotY (θ : ℝ) : (Quat.rotY θ).toMat = M3.ry (Real.sin θ) (Real.cos θ) := by
  rw [Quat.rotY_eq, sin_half_double θ, cos_half_double θ]
  have h1 := Real.sin_sq_add_cos_sq (θ / 2)
  apply M3.ext' <;> simp only [Quat.toMat, M3.ry, lit0, lit1, lit2] <;>
    first
    | ring1
    | linear_combination h1

/-! ### Isometries -/

theorem Iso.mul_unit (a b : Iso ℝ) (ha : a.q.normSq = 1) (hb : b.q.normSq = 1) :
    (a.mul b).q.normSq = 1 := Quat.normSq_mul_unit a.q b.q ha hb

theorem Iso.inv_unit (a : Iso ℝ) (ha : a.q.normSq = 1) : a.inv.q.normSq = 1 :=
  Quat.normSq_conj_unit a.q ha

theorem Iso.one_unit : (Iso.one : Iso ℝ).q.normSq = 1 := Quat.normSq_one

theorem Iso.mul_assoc (a b c : Iso ℝ) (ha : a.q.normSq = 1) (hb : b.q.normSq = 1) :
    (a.mul b).mul c = a.mul (b.mul c) := by
  apply Iso.ext'
  · show (a.t.add (a.q.rotate b.t)).add ((a.q.mul b.q).rotate c.t)
        = a.t.add (a.q.rotate (b.t.add (b.q.rotate c.t)))
    rw [Quat.rotate_mul a.q b.q ha hb, Quat.rotate_add, V3.add_assoc]
  · exact Quat.mul_assoc a.q b.q c.q

theorem Iso.one_mul (a : Iso ℝ) : Iso.one.mul a = a := by
  apply Iso.ext'
  · show V3.zero.add (Quat.one.rotate a.t) = a.t
    rw [Quat.one_rotate, V3.zero_add]
  · exact Quat.one_mul a.q

theorem Iso.mul_one (a : Iso ℝ) : a.mul Iso.one = a := by
  apply Iso.ext'
  · show a.t.add (a.q.rotate V3.zero) = a.t
    rw [Quat.rotate_zero, V3.add_zero]
  · exact Quat.mul_one a.q

theorem Iso.mul_inv_cancel (a : Iso ℝ) (h : a.q.normSq = 1) : a.mul a.inv = Iso.one := by
  apply Iso.ext'
  · show a.t.add (a.q.rotate (a.q.conj.rotate a.t.neg)) = V3.zero
    rw [Quat.rotate_conj_rotate a.q h, V3.add_neg]
  · exact Quat.mul_conj_self a.q h

theorem Iso.inv_mul_cancel (a : Iso ℝ) (h : a.q.normSq = 1) : a.inv.mul a = Iso.one := by
  apply Iso.ext'
  · show (a.q.conj.rotate a.t.neg).add (a.q.conj.rotate a.t) = V3.zero
    rw [← Quat.rotate_add, V3.neg_add, Quat.rotate_zero]
  · exact Quat.conj_mul_self a.q h

theorem Iso.transformPoint_mul (a b : Iso ℝ) (ha : a.q.normSq = 1) (hb : b.q.normSq = 1)
    (p : V3 ℝ) : (a.mul b).transformPoint p = a.transformPoint (b.transformPoint p) := by
  show ((a.q.mul b.q).rotate p).add (a.t.add (a.q.rotate b.t))
      = (a.q.rotate ((b.q.rotate p).add b.t)).add a.t
  rw [Quat.rotate_mul a.q b.q ha hb, Quat.rotate_add, V3.add_assoc,
    V3.add_comm (a.q.rotate b.t) a.t]

theorem Iso.transformPoint_one (p : V3 ℝ) : (Iso.one : Iso ℝ).transformPoint p = p := by
  show (Quat.one.rotate p).add V3.zero = p
  rw [Quat.one_rotate, V3.add_zero]

theorem Iso.transformPoint_inv (a : Iso ℝ) (h : a.q.normSq = 1) (p : V3 ℝ) :
    a.inv.transformPoint (a.transformPoint p) = p := by
  rw [← Iso.transformPoint_mul a.inv a (Iso.inv_unit a h) h, Iso.inv_mul_cancel a h,
    Iso.transformPoint_one]

/-- the translation of an isometry is the image of the origin -/
theorem Iso.transformPoint_zero (a : Iso ℝ) : a.transformPoint V3.zero = a.t := by
  show (a.q.rotate V3.zero).add a.t = a.t
  rw [Quat.rotate_zero, V3.zero_add]

end Opw
