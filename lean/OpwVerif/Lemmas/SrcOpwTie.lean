/-
  Tie between the model's entry points of the bare solver (`Opw.inverse`, `Opw.inverse5dof`, `Opw.inverseContinuing5dof`,
  `Opw.inverseContinuing`, `Opw.filterCompliant`, `Opw.compliant`, `Opw.constraintCenters`, `Constraints.compliant`,
  `Constraints.filter`) and the glue translated from the CURRENT source text (`Generated/SrcOpw.lean`, rewritten by
  `tools/rs2lean_opw.py` on every run).  Generic in the number type.
-/
import OpwVerif.Generated.SrcOpw
import OpwVerif.Lemmas.SrcCtlTie
namespace Opw
variable {R : Type} [OpwNum R]

/-- `Constraints::compliant` -/
theorem compliantSrc_eq (c : Constraints R) (a : J6 R) : SrcOpw.compliantSrc c a = c.compliant a := by
  simp [SrcOpw.compliantSrc, Constraints.compliant, List.range, List.range.loop, J6.get, Bool.and_assoc]

/-- `Constraints::filter` -/
theorem filterSrc_eq (c : Constraints R) (l : List (J6 R)) : SrcOpw.filterSrc c l = c.filter l := by
  have h : (fun a => SrcOpw.compliantSrc c a) = c.compliant := funext (compliantSrc_eq c)
  simp [SrcOpw.filterSrc, Constraints.filter, h]

/-- `filter_constraints_compliant` -/
theorem filterCompliantSrc_eq (k : Opw R) (l : List (J6 R)) : SrcOpw.filterCompliantSrc k l = k.filterCompliant l := by
  unfold SrcOpw.filterCompliantSrc Opw.filterCompliant
  cases k.cons with
  | none => rfl
  | some c => exact filterSrc_eq c l

/-- `constraints_compliant` -/
theorem compliantOptSrc_eq (k : Opw R) (s : J6 R) : SrcOpw.compliantOptSrc k s = k.compliant s := by
  unfold SrcOpw.compliantOptSrc Opw.compliant
  cases k.cons with
  | none => rfl
  | some c => exact compliantSrc_eq c s

/-- `constraint_centers` -/
theorem constraintCentersSrc_eq (k : Opw R) : SrcOpw.constraintCentersSrc k = k.constraintCenters := rfl

/-- `inverse_5dof` -/
theorem inverse5dofSrc_eq (k : Opw R) (pose : Iso R) (j6 : R) : SrcOpw.inverse5dofSrc k pose j6 = k.inverse5dof pose j6 := by
  simp [SrcOpw.inverse5dofSrc, Opw.inverse5dof, filterCompliantSrc_eq]

/-- `inverse_continuing_5dof`: the sentinel resolves the reference vector only; J6 is `prev[5]` as given -/
theorem inverseContinuing5dofSrc_eq (k : Opw R) (pose : Iso R) (prev : J6 R) :
    SrcOpw.inverseContinuing5dofSrc k pose prev = k.inverseContinuing5dof pose prev := by
  simp [SrcOpw.inverseContinuing5dofSrc, Opw.inverseContinuing5dof, Opw.reference, filterCompliantSrc_eq, constraintCentersSrc_eq]

/-- `inverse` -/
theorem inverseSrc_eq (k : Opw R) (pose : Iso R) : SrcOpw.inverseSrc k pose = k.inverse pose := by
  simp [SrcOpw.inverseSrc, Opw.inverse, filterCompliantSrc_eq, inverse5dofSrc_eq]

/-- the shift table -/
theorem shiftsSrc_eq : (SrcOpw.shiftsSrc : List (V3 R)) = shifts := rfl

/-- the candidate assembled from the translated recovery block is the model's `singularCandidate` -/
theorem recovered_eq (p : Params R) (previous raw : J6 R) :
    ({ raw with j4 := (SrcCtl.singularCandidateSrc p previous raw).1, j5 := (SrcCtl.singularCandidateSrc p previous raw).2.1,
                j6 := (SrcCtl.singularCandidateSrc p previous raw).2.2 } : J6 R) = singularCandidate p previous raw := by
  rw [singularCandidateSrc_eq]; rfl

/-- one iteration of the shift loop, with the translated recovery block plugged in, is the model's `shiftStep` -/
theorem shiftStepSrc_eq (k : Opw R) (pose : Iso R) (previous : J6 R) (sols : List (J6 R)) (d : V3 R) :
    SrcOpw.shiftStepSrc (fun prev raw => SrcCtl.singularCandidateSrc k.p prev raw) k pose previous sols d =
      shiftStep k pose previous sols d := by
  unfold SrcOpw.shiftStepSrc shiftStep
  simp only [recovered_eq, compliantOptSrc_eq]
  cases List.find? (fun s => kinematicSingularity k.p s && s.allFinite)
      (inverseIntern k.p { t := { x := pose.t.x + d.x, y := pose.t.y + d.y, z := pose.t.z + d.z }, q := pose.q }) <;> rfl

/-- `inverse_continuing` around the shift loop -/
theorem inverseContinuingSrc_eq (k : Opw R) (pose : Iso R) (prev : J6 R) :
    SrcOpw.inverseContinuingSrc k pose prev = k.inverseContinuing pose prev := by
  simp [SrcOpw.inverseContinuingSrc, Opw.inverseContinuing, Opw.inverseContinuing6, Opw.reference, filterCompliantSrc_eq,
    constraintCentersSrc_eq, inverseContinuing5dofSrc_eq, shiftsSrc_eq]

end Opw
