/-
  Helper lemmas for C20 (`Props/C20.lean`): the joint map (`convertToMap`, lookups), `populate`
  (dependence on lookups only, per-joint steps), pre-order collection (`collectList`), `jointOf`.
  Everything is generic in the number type; the three facts about zero and negation the round trip
  needs are collected in `ZeroLaws` (proved for `ℝ` in `Props/C20.lean`).
-/
import OpwVerif.Urdf
namespace Opw.UrdfL
open Opw
variable {R : Type} [OpwNum R]
set_option linter.unusedSectionVars false

/-- lookup by joint name (what `HashMap::get` does on the map built by `convertToMap`) -/
abbrev look (m : List (JointData R)) (n : String) : Option (JointData R) :=
  m.find? (fun j => j.name == n)

/-- two entries do not conflict -/
def Compat (a b : JointData R) : Prop := a.name = b.name → a.eqv b = true

theorem convertToMap_append (acc a b : List (JointData R)) :
    convertToMap acc (a ++ b) = (convertToMap acc a).bind (fun m => convertToMap m b) := by
  induction a generalizing acc with
  | nil => simp [convertToMap]
  | cons j rest ih =>
    simp only [List.cons_append, convertToMap]
    split
    · split
      · exact ih _
      · rfl
    · exact ih _

/-- whenever `convertToMap` succeeds the result answers every lookup like `acc ++ js` -/
theorem convertToMap_find {acc js m : List (JointData R)} (h : convertToMap acc js = some m)
    (n : String) : look m n = look (acc ++ js) n := by
  induction js generalizing acc with
  | nil => simp [convertToMap] at h; subst h; simp
  | cons j rest ih =>
    simp only [convertToMap] at h
    split at h
    · rename_i e he
      split at h
      · rw [ih h]
        simp only [look, List.find?_append, List.find?_cons]
        by_cases hn : (j.name == n) = true
        · have : j.name = n := by simpa using hn
          subst this
          simp [he]
        · simp [hn]
      · cases h
    · rw [ih h]; simp [look]

theorem convertToMap_isSome {acc js : List (JointData R)}
    (hc : ∀ e ∈ acc, ∀ j ∈ js, Compat e j) (hp : js.Pairwise Compat) :
    ∃ m, convertToMap acc js = some m := by
  induction js generalizing acc with
  | nil => exact ⟨acc, rfl⟩
  | cons j rest ih =>
    rw [List.pairwise_cons] at hp
    simp only [convertToMap]
    split
    · rename_i e he
      have hmem := List.mem_of_find?_eq_some he
      have hname : e.name = j.name := by simpa using List.find?_some he
      rw [hc e hmem j (List.mem_cons_self ..) hname]
      simp only [if_true]
      exact ih (fun e he j' hj' => hc e he j' (List.mem_cons_of_mem _ hj')) hp.2
    · apply ih _ hp.2
      intro e he j' hj'
      rcases List.mem_append.1 he with he | he
      · exact hc e he j' (List.mem_cons_of_mem _ hj')
      · have : e = j := by simpa using he
        subst this; exact hp.1 j' hj'

/-! ### `populate` depends on the map only through lookups -/

theorem populateGo_congr {m m' : List (JointData R)} (h : ∀ n, look m n = look m' n)
    (k : Nat) (names : List String) (u : UParams R) :
    populateGo m k names u = populateGo m' k names u := by
  induction names generalizing k u with
  | nil => rfl
  | cons n rest ih =>
    simp only [populateGo]
    have := h n
    simp only [look] at this
    rw [this]
    split
    · rfl
    · split
      · rfl
      · exact ih _ _

theorem populate_congr {m m' : List (JointData R)} (h : ∀ n, look m n = look m' n)
    (names : List String) : populate m names = populate m' names := by
  have h5 := h (names.getD 5 "")
  simp only [look] at h5
  simp only [populate, populateGo_congr h, h5]

/-! ### lookups in lists with pairwise distinct names -/

def NamesDistinct (js : List (JointData R)) : Prop := (js.map (·.name)).Nodup

theorem look_eq_some_iff {js : List (JointData R)} (hd : NamesDistinct js) (n : String)
    (a : JointData R) : look js n = some a ↔ a ∈ js ∧ a.name = n := by
  induction js with
  | nil => simp
  | cons j rest ih =>
    simp only [NamesDistinct, List.map_cons, List.nodup_cons] at hd
    simp only [look, List.find?_cons]
    by_cases hn : (j.name == n) = true
    · have hjn : j.name = n := by simpa using hn
      simp only [hn, Option.some.injEq, List.mem_cons]
      constructor
      · rintro rfl; exact ⟨Or.inl rfl, hjn⟩
      · rintro ⟨rfl | hm, ha⟩
        · rfl
        · exfalso; apply hd.1
          rw [hjn, ← ha]; exact List.mem_map_of_mem hm
    · have hjn : j.name ≠ n := by simpa using hn
      simp only [hn]
      have := ih hd.2
      simp only [look] at this
      rw [this, List.mem_cons]
      constructor
      · rintro ⟨hm, ha⟩; exact ⟨Or.inr hm, ha⟩
      · rintro ⟨rfl | hm, ha⟩
        · exact absurd ha hjn
        · exact ⟨hm, ha⟩

theorem NamesDistinct.perm {js js' : List (JointData R)} (hp : js'.Perm js)
    (hd : NamesDistinct js) : NamesDistinct js' :=
  ((hp.map (fun j : JointData R => j.name)).nodup_iff).2 hd

theorem look_perm {js js' : List (JointData R)} (hp : js'.Perm js) (hd : NamesDistinct js)
    (n : String) : look js' n = look js n := by
  apply Option.ext
  intro a
  rw [look_eq_some_iff hd, look_eq_some_iff (hd.perm hp), hp.mem_iff]

theorem NamesDistinct.pairwise_compat {js : List (JointData R)} (hd : NamesDistinct js) :
    js.Pairwise Compat := by
  unfold NamesDistinct List.Nodup at hd
  rw [List.pairwise_map] at hd
  exact hd.imp (fun h hn => absurd hn h)


/-! ### an identical second copy -/

/-- the first entry with a given property is the entry itself or an earlier one -/
theorem find?_first {α} {r : α → α → Prop} {p : α → Bool} {l : List α} (hp : l.Pairwise r)
    {j e : α} (hj : j ∈ l) (hpj : p j = true) (he : l.find? p = some e) : e = j ∨ r e j := by
  induction l with
  | nil => cases hj
  | cons a rest ih =>
    rw [List.pairwise_cons] at hp
    rw [List.find?_cons] at he
    by_cases hpa : p a = true
    · simp only [hpa, Option.some.injEq] at he
      subst he
      rcases List.mem_cons.1 hj with rfl | hm
      · exact Or.inl rfl
      · exact Or.inr (hp.1 j hm)
    · simp only [hpa] at he
      rcases List.mem_cons.1 hj with rfl | hm
      · exact absurd hpj hpa
      · exact ih hp.2 hm he

/-- entries that all agree with what the map already holds leave the map unchanged -/
theorem convertToMap_absorb {acc js : List (JointData R)}
    (h : ∀ j ∈ js, ∃ e, look acc j.name = some e ∧ e.eqv j = true) :
    convertToMap acc js = some acc := by
  induction js with
  | nil => rfl
  | cons j rest ih =>
    obtain ⟨e, he, hej⟩ := h j (List.mem_cons_self ..)
    simp only [look] at he
    simp only [convertToMap, he, hej, if_true]
    exact ih (fun j' hj' => h j' (List.mem_cons_of_mem _ hj'))

theorem convertToMap_second_copy {js : List (JointData R)} (hp : js.Pairwise Compat)
    (hr : ∀ j ∈ js, j.eqv j = true) :
    convertToMap [] (js ++ js) = convertToMap [] js := by
  obtain ⟨m, hm⟩ := convertToMap_isSome (acc := []) (js := js) (by simp) hp
  rw [convertToMap_append, hm]
  simp only [Option.bind_some]
  apply convertToMap_absorb
  intro j hj
  have hl := convertToMap_find hm j.name
  simp only [List.nil_append] at hl
  cases hf : look js j.name with
  | none =>
    simp only [look, List.find?_eq_none] at hf
    exact absurd (by simp) (hf j hj)
  | some e =>
    refine ⟨e, by rw [hl, hf], ?_⟩
    rcases find?_first hp hj (by simp) hf with rfl | hc
    · exact hr _ hj
    · exact hc (by simpa using List.find?_some hf)

/-! ### errors -/

theorem convertToMap_conflict {l1 l2 l3 : List (JointData R)} {a b : JointData R}
    (hfirst : ∀ e ∈ l1, e.name ≠ a.name) (hn : a.name = b.name) (hne : a.eqv b = false) :
    convertToMap [] (l1 ++ a :: l2 ++ b :: l3) = none := by
  rw [convertToMap_append]
  cases hm : convertToMap [] (l1 ++ a :: l2) with
  | none => rfl
  | some m =>
    simp only [Option.bind_some, convertToMap]
    have hl := convertToMap_find hm b.name
    have : look (l1 ++ a :: l2) b.name = some a := by
      simp only [look, List.find?_append, List.find?_cons, ← hn, beq_self_eq_true]
      have : l1.find? (fun j => j.name == a.name) = none := by
        simp only [List.find?_eq_none]; intro e he; simpa using hfirst e he
      simp [this]
    simp only [List.nil_append] at hl
    rw [this] at hl
    simp only [look] at hl
    simp [hl, hne]

theorem populateGo_missing {m : List (JointData R)} {n : String} (hmiss : look m n = none)
    (k : Nat) (names : List String) (hn : n ∈ names) (u : UParams R) :
    populateGo m k names u = none := by
  induction names generalizing k u with
  | nil => cases hn
  | cons a rest ih =>
    simp only [populateGo]
    rcases List.mem_cons.1 hn with rfl | hm
    · simp only [look] at hmiss
      simp [hmiss]
    · split
      · rfl
      · split
        · rfl
        · exact ih _ hm _

theorem populate_missing {m : List (JointData R)} {names : List String} {n : String}
    (hn : n ∈ names.take 6) (hmiss : look m n = none) : populate m names = none := by
  simp only [populate, populateGo_missing hmiss 0 _ hn]

/-! ### `fromUrdf` after the joints have been collected -/

def fromJoints (js : List (JointData R)) (names : List String) : Except UrdfErr (UParams R) :=
  match convertToMap [] js with
  | none => .error .xml
  | some m =>
    match populate m names with
    | none => .error .populate
    | some u => .ok u

theorem fromUrdf_eq_fromJoints {r : Xml R} {names : Option (List String)} {js : List (JointData R)}
    (h : collectJoints names.isSome r = some js) :
    fromUrdf (some r) names = fromJoints js (names.getD defaultNames) := by
  simp only [fromUrdf, h, fromJoints]
  rfl

theorem fromUrdf_collect_none {r : Xml R} {names : Option (List String)}
    (h : collectJoints names.isSome r = none) : fromUrdf (some r) names = .error .xml := by
  simp only [fromUrdf, h]

theorem fromJoints_congr {js js' : List (JointData R)} {m m'}
    (h : convertToMap [] js = some m) (h' : convertToMap [] js' = some m')
    (hl : ∀ n, look js n = look js' n) (names : List String) :
    fromJoints js names = fromJoints js' names := by
  have : ∀ n, look m n = look m' n := by
    intro n
    have a := convertToMap_find h n
    have b := convertToMap_find h' n
    simp only [List.nil_append] at a b
    rw [a, b, hl]
  simp only [fromJoints, h, h', populate_congr this]


/-! ### collection: pre-order concatenation -/

/-- what one element contributes by itself -/
def hereOf (b : Bool) (c : Xml R) : Option (List (JointData R)) :=
  if c.name == "joint" then (jointOf b c).map (fun j => [j]) else some []

theorem collectList_cons (b : Bool) (c : Xml R) (rest : List (Xml R)) :
    collectList b (c :: rest) =
      (hereOf b c).bind fun h => (collectJoints b c).bind fun inner =>
        (collectList b rest).bind fun tl => some (h ++ inner ++ tl) := by
  rw [collectList.eq_2]
  unfold hereOf
  cases (if (c.name == "joint") = true then Option.map (fun j => [j]) (jointOf b c) else some []) with
  | none => rfl
  | some h =>
    cases collectJoints b c with
    | none => rfl
    | some inner =>
      cases collectList b rest with
      | none => rfl
      | some tl => rfl

theorem collectJoints_elem (b : Bool) (n : String) (attrs : List (Attr R)) (kids : List (Xml R)) :
    collectJoints b (Xml.elem n attrs kids) = collectList b kids := collectJoints.eq_1 ..

theorem collectList_cons_nonjoint (b : Bool) {w : String} (hw : w ≠ "joint") (attrs : List (Attr R))
    (kids rest : List (Xml R)) :
    collectList b (Xml.elem w attrs kids :: rest) =
      (collectList b kids).bind fun inner => (collectList b rest).bind fun tl => some (inner ++ tl) := by
  rw [collectList_cons, collectJoints_elem]
  have : hereOf b (Xml.elem w attrs kids) = some [] := by
    simp [hereOf, Xml.name, hw]
  rw [this]
  simp

theorem collectList_append (b : Bool) (l1 l2 : List (Xml R)) :
    collectList b (l1 ++ l2) =
      (collectList b l1).bind fun a => (collectList b l2).bind fun c => some (a ++ c) := by
  induction l1 with
  | nil => simp [collectList]
  | cons c rest ih =>
    rw [List.cons_append, collectList_cons, collectList_cons, ih]
    cases hereOf b c <;> simp
    cases collectJoints b c <;> simp
    cases collectList b rest <;> simp
    cases collectList b l2 <;> simp

mutual
/-- no `<joint>` element at or below this element -/
def noJoint : Xml R → Bool
  | .elem n _ kids => n != "joint" && noJointL kids
def noJointL : List (Xml R) → Bool
  | [] => true
  | c :: rest => noJoint c && noJointL rest
end

mutual
theorem collectJoints_noJoint (b : Bool) : ∀ e : Xml R, noJoint e = true → collectJoints b e = some []
  | .elem n attrs kids, h => by
    rw [collectJoints_elem]
    simp only [noJoint, Bool.and_eq_true] at h
    exact collectList_noJoint b kids h.2
theorem collectList_noJoint (b : Bool) : ∀ l : List (Xml R), noJointL l = true → collectList b l = some []
  | [], _ => by simp [collectList]
  | c :: rest, h => by
    simp only [noJointL, Bool.and_eq_true] at h
    rw [collectList_cons, collectJoints_noJoint b c h.1, collectList_noJoint b rest h.2]
    have : hereOf b c = some [] := by
      cases c with
      | elem n a k =>
        simp only [noJoint, Bool.and_eq_true, bne_iff_ne] at h
        simp [hereOf, Xml.name, h.1.1]
    rw [this]; rfl
end

/-! ### collection errors -/

/-- `j` is a proper descendant of `e` -/
inductive Desc : Xml R → Xml R → Prop
  | child {n attrs kids c} : c ∈ kids → Desc (Xml.elem n attrs kids) c
  | deep {n attrs kids c j} : c ∈ kids → Desc c j → Desc (Xml.elem n attrs kids) j

theorem collectList_none_of_mem {b : Bool} {l : List (Xml R)} {c : Xml R} (hc : c ∈ l)
    (h : hereOf b c = none ∨ collectJoints b c = none) : collectList b l = none := by
  induction l with
  | nil => cases hc
  | cons a rest ih =>
    rw [collectList_cons]
    rcases List.mem_cons.1 hc with rfl | hm
    · rcases h with h | h
      · rw [h]; rfl
      · rw [h]; cases hereOf b c <;> rfl
    · rw [ih hm]
      cases hereOf b a <;> simp

theorem collectJoints_none_of_desc {b : Bool} {e j : Xml R} (hd : Desc e j)
    (hj : j.name = "joint") (hbad : jointOf b j = none) : collectJoints b e = none := by
  have hh : hereOf b j = none := by simp [hereOf, hj, hbad]
  induction hd with
  | child hc => rw [collectJoints_elem]; exact collectList_none_of_mem hc (Or.inl hh)
  | deep hc _ ih => rw [collectJoints_elem]; exact collectList_none_of_mem hc (Or.inr (ih hj hbad hh))

theorem allSome_length {l : List (Option R)} {v : List R} (h : allSome l = some v) :
    v.length = l.length := by
  induction l generalizing v with
  | nil => simp [allSome] at h; subst h; rfl
  | cons a rest ih =>
    cases a with
    | none => simp [allSome] at h
    | some x =>
      simp only [allSome, Option.map_eq_some_iff] at h
      obtain ⟨w, hw, rfl⟩ := h
      simp [ih hw]

theorem allSome_none_of_mem {l : List (Option R)} (h : none ∈ l) : allSome l = none := by
  induction l with
  | nil => cases h
  | cons a rest ih =>
    cases a with
    | none => rfl
    | some x =>
      have : none ∈ rest := by simpa using h
      simp [allSome, ih this]

theorem getXyz_none {o : Xml R} {a : Attr R} (ha : o.attr "xyz" = some a)
    (hbad : none ∈ a.tokens ∨ a.tokens.length ≠ 3) : getXyz o = none := by
  unfold getXyz
  rw [ha]
  simp only
  rcases hbad with h | h
  · rw [allSome_none_of_mem h]
  · cases hv : allSome a.tokens with
    | none => rfl
    | some v =>
      have := allSome_length hv
      match v, this with
      | [], _ => rfl
      | [_], _ => rfl
      | [_, _], _ => rfl
      | [_, _, _], hl => exact absurd hl.symm h
      | _ :: _ :: _ :: _ :: _, _ => rfl

theorem getXyz_none_of_no_attr {o : Xml R} (ha : o.attr "xyz" = none) : getXyz o = none := by
  unfold getXyz; rw [ha]

theorem jointOf_none_of_origin {b : Bool} {j o : Xml R} (ho : j.child "origin" = some o)
    (hbad : getXyz o = none) : jointOf b j = none := by
  unfold jointOf
  simp only [ho, hbad]


/-! ### one joint element: limits and axis sign -/

theorem jointOf_some {b : Bool} {j : Xml R} {d : JointData R} (h : jointOf b j = some d) :
    ∃ x y z s,
      (match j.child "origin" with | none => some (0, 0, 0) | some o => getXyz o) = some (x, y, z) ∧
      (match j.child "axis" with | none => some 1 | some a => getAxisSign a) = some s ∧
      d.x = x ∧ d.y = y ∧ d.z = z ∧ d.sign = s ∧
      (d.from_, d.to) = (match j.child "limit" with
        | none => ((0 : R), (0 : R))
        | some l => match getLimits l with
          | some p => p
          | none => (0, 0)) := by
  unfold jointOf at h
  simp only at h
  split at h
  · rename_i x y z s hv hs
    cases h
    exact ⟨x, y, z, s, hv, hs, rfl, rfl, rfl, rfl, rfl⟩
  · cases h

theorem jointOf_no_limit {b : Bool} {j : Xml R} {d : JointData R} (h : jointOf b j = some d)
    (hl : j.child "limit" = none) : d.from_ = 0 ∧ d.to = 0 := by
  obtain ⟨x, y, z, s, -, -, -, -, -, -, hlim⟩ := jointOf_some h
  rw [hl] at hlim
  simp only [Prod.mk.injEq] at hlim
  exact hlim

theorem jointOf_bad_limit {b : Bool} {j l : Xml R} {d : JointData R} (h : jointOf b j = some d)
    (hl : j.child "limit" = some l) (hbad : getLimits l = none) : d.from_ = 0 ∧ d.to = 0 := by
  obtain ⟨x, y, z, s, -, -, -, -, -, -, hlim⟩ := jointOf_some h
  rw [hl] at hlim
  simp only [hbad, Prod.mk.injEq] at hlim
  exact hlim

theorem jointOf_limit {b : Bool} {j l : Xml R} {d : JointData R} {lo hi : R} (h : jointOf b j = some d)
    (hl : j.child "limit" = some l) (hlim : getLimits l = some (lo, hi)) :
    d.from_ = lo ∧ d.to = hi := by
  obtain ⟨x, y, z, s, -, -, -, -, -, -, hlim'⟩ := jointOf_some h
  rw [hl] at hlim'
  simp only [hlim, Prod.mk.injEq] at hlim'
  exact hlim'

theorem jointOf_no_axis {b : Bool} {j : Xml R} {d : JointData R} (h : jointOf b j = some d)
    (ha : j.child "axis" = none) : d.sign = 1 := by
  obtain ⟨x, y, z, s, -, hs, -, -, -, hsg, -⟩ := jointOf_some h
  rw [ha] at hs
  simp only [Option.some.injEq] at hs
  rw [hsg, ← hs]

theorem jointOf_axis {b : Bool} {j a : Xml R} {d : JointData R} {s : Int} (h : jointOf b j = some d)
    (ha : j.child "axis" = some a) (hs : getAxisSign a = some s) : d.sign = s := by
  obtain ⟨x, y, z, s', -, hs', -, -, -, hsg, -⟩ := jointOf_some h
  rw [ha] at hs'
  simp only [hs, Option.some.injEq] at hs'
  rw [hsg, ← hs']

theorem jointOf_origin {b : Bool} {j o : Xml R} {d : JointData R} {x y z : R}
    (h : jointOf b j = some d) (ho : j.child "origin" = some o) (hx : getXyz o = some (x, y, z)) :
    d.x = x ∧ d.y = y ∧ d.z = z := by
  obtain ⟨x', y', z', s', hv, -, h1, h2, h3, -, -⟩ := jointOf_some h
  rw [ho] at hv
  simp only [hx, Option.some.injEq, Prod.mk.injEq] at hv
  obtain ⟨rfl, rfl, rfl⟩ := hv
  exact ⟨h1, h2, h3⟩

theorem jointOf_name_explicit {j : Xml R} {a : Attr R} {d : JointData R}
    (h : jointOf true j = some d) (hn : j.attr "name" = some a) : d.name = a.value := by
  unfold jointOf at h
  simp only [hn] at h
  split at h
  · cases h; rfl
  · cases h

theorem jointOf_name_simplified {j : Xml R} {a : Attr R} {d : JointData R}
    (h : jointOf false j = some d) (hn : j.attr "name" = some a) :
    d.name = preprocessJointName a.value := by
  unfold jointOf at h
  simp only [hn] at h
  split at h
  · cases h; rfl
  · cases h

/-- the sign `getAxisSign` reads off a token list with exactly one non-zero value -/
theorem getAxisSign_single {e : Xml R} {a : Attr R} {vals : List R} {v : R}
    (ha : e.attr "xyz" = some a) (hv : allSome a.tokens = some vals)
    (hnz : vals.filter (fun v => !(feq v 0)) = [v]) :
    getAxisSign e = some (if v < 0 then -1 else 1) := by
  unfold getAxisSign
  simp only [ha, hv, hnz, List.map_cons, List.map_nil]

theorem getAxisSign_other {e : Xml R} {a : Attr R} {vals : List R}
    (ha : e.attr "xyz" = some a) (hv : allSome a.tokens = some vals)
    (hnz : (vals.filter (fun v => !(feq v 0))).length ≠ 1) :
    getAxisSign e = some 0 := by
  unfold getAxisSign
  simp only [ha, hv]
  split
  · rename_i s hs
    have := congrArg List.length hs
    simp at this
    exact absurd this hnz
  · rfl

theorem allSome_three (x y z : R) : allSome [some x, some y, some z] = some [x, y, z] := by
  simp [allSome]


/-! ### `nonZero3`, `nonZero2`, `populateStep` under the zero laws -/

/-- the only facts about the number type the round trip needs (they hold over `ℝ`) -/
structure ZeroLaws (R : Type) [OpwNum R] : Prop where
  feq_zero : ∀ x : R, feq x 0 = true ↔ x = 0
  neg_neg : ∀ x : R, -(-x) = x
  neg_zero : -(0 : R) = 0

namespace ZeroLaws
variable (L : ZeroLaws R)
include L

theorem feq00 : feq (0 : R) 0 = true := (L.feq_zero 0).2 rfl
theorem feq_ne {x : R} (h : x ≠ 0) : feq x 0 = false := by
  cases hf : feq x 0 with
  | false => rfl
  | true => exact absurd ((L.feq_zero x).1 hf) h
theorem neg_ne {x : R} (h : x ≠ 0) : -x ≠ 0 := by
  intro h0
  apply h
  rw [← L.neg_neg x, h0, L.neg_zero]

theorem nz3_x (v : R) : nonZero3 v 0 0 = some v := by
  by_cases h : v = 0
  · subst h; simp [nonZero3, L.feq00]
  · simp [nonZero3, L.feq00, L.feq_ne h]
theorem nz3_y (v : R) : nonZero3 0 v 0 = some v := by
  by_cases h : v = 0
  · subst h; simp [nonZero3, L.feq00]
  · simp [nonZero3, L.feq00, L.feq_ne h]
theorem nz3_z (v : R) : nonZero3 0 0 v = some v := by
  by_cases h : v = 0
  · subst h; simp [nonZero3, L.feq00]
  · simp [nonZero3, L.feq00, L.feq_ne h]
theorem nz3_xy {x y : R} (z : R) (hx : x ≠ 0) (hy : y ≠ 0) : nonZero3 x y z = none := by
  by_cases h : z = 0
  · subst h; simp [nonZero3, L.feq00, L.feq_ne hx, L.feq_ne hy]
  · simp [nonZero3, L.feq_ne h, L.feq_ne hx, L.feq_ne hy]
theorem nz3_xz {x z : R} (y : R) (hx : x ≠ 0) (hz : z ≠ 0) : nonZero3 x y z = none := by
  by_cases h : y = 0
  · subst h; simp [nonZero3, L.feq00, L.feq_ne hx, L.feq_ne hz]
  · simp [nonZero3, L.feq_ne h, L.feq_ne hx, L.feq_ne hz]
theorem nz3_yz {y z : R} (x : R) (hy : y ≠ 0) (hz : z ≠ 0) : nonZero3 x y z = none := by
  by_cases h : x = 0
  · subst h; simp [nonZero3, L.feq00, L.feq_ne hy, L.feq_ne hz]
  · simp [nonZero3, L.feq_ne h, L.feq_ne hy, L.feq_ne hz]
theorem nz2_l (v : R) : nonZero2 v 0 = some v := by
  by_cases h : v = 0
  · subst h; simp [nonZero2, L.feq00]
  · simp [nonZero2, L.feq00, L.feq_ne h]
theorem nz2_r (v : R) : nonZero2 0 v = some v := by
  by_cases h : v = 0
  · subst h; simp [nonZero2, L.feq00]
  · simp [nonZero2, L.feq00, L.feq_ne h]

end ZeroLaws

section steps
variable {j : JointData R} {u : UParams R}

theorem step0 {v : R} (h : nonZero3 j.x j.y j.z = some v) :
    populateStep 0 j u = some { u with c1 := v } := by
  simp [populateStep, h]
theorem step1 {v : R} (h : nonZero3 j.x j.y j.z = some v) :
    populateStep 1 j u = some { u with a1 := v } := by
  simp [populateStep, h]
theorem step2_single {v : R} (h : nonZero3 j.x j.y j.z = some v) :
    populateStep 2 j u = some { u with c2 := v, b := 0 } := by
  simp [populateStep, h]
theorem step2_multi {v : R} (h : nonZero3 j.x j.y j.z = none) (h2 : nonZero2 j.x j.z = some v) :
    populateStep 2 j u = some { u with c2 := v, b := j.y } := by
  simp [populateStep, h, h2]
theorem step3_single {v : R} (h : nonZero3 j.x j.y j.z = some v) :
    populateStep 3 j u = some { u with a2 := -v } := by
  simp [populateStep, h]
theorem step3_multi {v : R} (h : nonZero3 j.x j.y j.z = none) (hc : feq u.c3 0 = true)
    (h2 : nonZero2 j.x j.y = some v) :
    populateStep 3 j u = some { u with a2 := -j.z, c3 := v } := by
  simp [populateStep, h, h2, hc]
theorem step3_multi_c3_set (h : nonZero3 j.x j.y j.z = none) (hc : feq u.c3 0 = false) :
    populateStep 3 j u = none := by
  simp [populateStep, h, hc]
theorem step4_zero {v : R} (h : nonZero3 j.x j.y j.z = some v) (hv : feq v 0 = true) :
    populateStep 4 j u = some u := by
  simp [populateStep, h, hv]
theorem step4_set {v : R} (h : nonZero3 j.x j.y j.z = some v) (hv : feq v 0 = false)
    (hc : feq u.c3 0 = true) : populateStep 4 j u = some { u with c3 := v } := by
  simp [populateStep, h, hv, hc]
theorem step4_twice {v : R} (h : nonZero3 j.x j.y j.z = some v) (hv : feq v 0 = false)
    (hc : feq u.c3 0 = false) : populateStep 4 j u = none := by
  simp [populateStep, h, hv, hc]
theorem step4_multi (h : nonZero3 j.x j.y j.z = none) : populateStep 4 j u = none := by
  simp [populateStep, h]
theorem step5 {v : R} (h : nonZero3 j.x j.y j.z = some v) :
    populateStep 5 j u = some { u with c4 := v } := by
  simp [populateStep, h]
theorem step_multi_error {k : Nat} (hk : k = 0 ∨ k = 1 ∨ k = 5) (h : nonZero3 j.x j.y j.z = none) :
    populateStep k j u = none := by
  rcases hk with rfl | rfl | rfl <;> simp [populateStep, h]

end steps

theorem populateGo_cons {m : List (JointData R)} {n : String} {j : JointData R}
    (h : look m n = some j) (k : Nat) (rest : List String) (u : UParams R) :
    populateGo m k (n :: rest) u =
      (populateStep k j { u with signs := u.signs ++ [wrapI8 j.sign], from_ := u.from_ ++ [j.from_],
                                 to := u.to ++ [j.to] }).bind (populateGo m (k + 1) rest) := by
  simp only [look] at h
  simp only [populateGo, h]
  split <;> simp_all

theorem wrapI8_id {s : Int} (h1 : -128 ≤ s) (h2 : s ≤ 127) : wrapI8 s = s := by
  unfold wrapI8
  simp only []
  split <;> omega


theorem length_six {α} {l : List α} (h : l.length = 6) : ∃ a b c d e f, l = [a, b, c, d, e, f] := by
  match l, h with
  | [a, b, c, d, e, f], _ => exact ⟨a, b, c, d, e, f, rfl⟩

/-! ### every entry of the input is represented in a successful map -/

theorem convertToMap_entry {acc js m : List (JointData R)} (h : convertToMap acc js = some m)
    {j : JointData R} (hj : j ∈ js) :
    ∃ e, look m j.name = some e ∧ (e = j ∨ e.eqv j = true) := by
  induction js generalizing acc with
  | nil => cases hj
  | cons j0 rest ih =>
    have hfind := convertToMap_find h
    simp only [convertToMap] at h
    split at h
    · rename_i e he
      split at h
      · rename_i heq
        rcases List.mem_cons.1 hj with rfl | hm
        · refine ⟨e, ?_, Or.inr heq⟩
          rw [hfind]
          simp only [look, List.find?_append, he, Option.some_or]
        · exact ih h hm
      · cases h
    · rename_i he
      rcases List.mem_cons.1 hj with rfl | hm
      · refine ⟨j, ?_, Or.inl rfl⟩
        rw [hfind]
        simp only [look, List.find?_append, he, List.find?_cons, beq_self_eq_true, Option.none_or]
      · exact ih h hm

/-- if `eqv` is equality (true over `ℝ`), a successful map means same name ⇒ same entry -/
theorem convertToMap_some_unique (heq : ∀ a b : JointData R, a.eqv b = true → a = b)
    {js m : List (JointData R)} (h : convertToMap [] js = some m)
    {a b : JointData R} (ha : a ∈ js) (hb : b ∈ js) (hn : a.name = b.name) : a = b := by
  obtain ⟨e, he, hea⟩ := convertToMap_entry h ha
  obtain ⟨e', he', heb⟩ := convertToMap_entry h hb
  rw [hn, he'] at he
  cases he
  have h1 : e = a := hea.elim id (heq _ _)
  have h2 : e = b := heb.elim id (heq _ _)
  rw [← h1, ← h2]

end Opw.UrdfL
