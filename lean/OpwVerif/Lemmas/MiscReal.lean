/-
  Helper lemmas for C15 (Jacobian), C17 (frames) and C18 (constraint sampler): real reading of the
  model text of `Misc.lean`.
-/
import OpwVerif.Misc
import OpwVerif.Props.C07
import OpwVerif.Lemmas.OfMat
import OpwVerif.Lemmas.Chain
namespace Opw.MiscReal
open Opw Opw.Limits Opw.C07 Real

attribute [-simp] Opw.ofNatLit_real

/-! ### `rem_euclid` and the sampler's span -/

/-- over `ℝ`, `rem_euclid` by a positive modulus is the floor remainder -/
theorem remEuclid_real (x : ℝ) {y : ℝ} (hy : 0 < y) : remEuclid x y = x - y * ⌊x / y⌋ := by
  unfold remEuclid
  simp only [nabs_real, lit0_real]
  change (if (@ite ℝ (0 ≤ x / y) _ (x - y * ⌊x / y⌋) (x - y * ⌈x / y⌉)) < 0
      then (@ite ℝ (0 ≤ x / y) _ (x - y * ⌊x / y⌋) (x - y * ⌈x / y⌉)) + |y|
      else (@ite ℝ (0 ≤ x / y) _ (x - y * ⌊x / y⌋) (x - y * ⌈x / y⌉))) = _
  have hxy : y * (x / y) = x := by field_simp
  by_cases h : 0 ≤ x / y
  · rw [if_pos h]
    have := fmodR_nonneg x hy
    unfold fmodR at this
    rw [if_neg (not_lt.mpr this)]
  · rw [if_neg h, abs_of_pos hy]
    have hc1 := Int.le_ceil (x / y)
    have hc2 := Int.ceil_lt_add_one (x / y)
    split_ifs with hr
    · -- non-integral quotient: floor = ceil - 1
      have hlt : x / y < (⌈x / y⌉ : ℝ) := by
        by_contra hge
        have : (⌈x / y⌉ : ℝ) = x / y := le_antisymm (not_lt.mp hge) hc1
        rw [this, hxy] at hr
        linarith
      have hf : ⌊x / y⌋ = ⌈x / y⌉ - 1 := by
        rw [Int.floor_eq_iff]
        push_cast
        constructor <;> linarith
      rw [hf]; push_cast; ring
    · have hle : y * (⌈x / y⌉ : ℝ) ≤ x := by linarith
      have hge : x ≤ y * (⌈x / y⌉ : ℝ) := by
        calc x = y * (x / y) := hxy.symm
          _ ≤ _ := mul_le_mul_of_nonneg_left hc1 hy.le
      have he : x / y = (⌈x / y⌉ : ℝ) := by
        rw [div_eq_iff hy.ne']; linarith
      have hf : ⌊x / y⌋ = ⌈x / y⌉ := by
        conv_lhs => rw [he]
        exact Int.floor_intCast _
      rw [hf]

theorem sampleSpan_of_lt {f t : ℝ} (h : f < t) : sampleSpan f t = t - f := by
  unfold sampleSpan; rw [if_pos h]

theorem sampleSpan_of_eq (f : ℝ) : sampleSpan f f = 2 * π := by
  unfold sampleSpan
  rw [if_neg (lt_irrefl f)]
  simp only [feq_real, decide_true, if_true, lit2_real, pi_def_real]

theorem sampleSpan_of_gt {f t : ℝ} (h : t < f) :
    sampleSpan f t = (t - f) - 2 * π * ⌊(t - f) / (2 * π)⌋ := by
  unfold sampleSpan
  rw [if_neg (not_lt.mpr h.le)]
  simp only [feq_real, ne_of_gt h, decide_false, Bool.false_eq_true, if_false, lit2_real,
    pi_def_real]
  exact remEuclid_real _ Real.two_pi_pos

/-- when wrapping, the sampler's span is the width of the arc `[f, unwrapTop f t]` -/
theorem sampleSpan_eq_unwrapTop_sub {f t : ℝ} (h : t < f) : sampleSpan f t = unwrapTop f t - f := by
  rw [sampleSpan_of_gt h, unwrapTop_eq]
  have h2 := Real.two_pi_pos
  have hpos : 0 ≤ (f - t) / (2 * π) := div_nonneg (by linarith) h2.le
  have hn : ((⌈(f - t) / (2 * π)⌉₊ : ℕ) : ℝ) = ((⌈(f - t) / (2 * π)⌉ : ℤ) : ℝ) := by
    have := Int.natCast_ceil_eq_ceil hpos
    exact_mod_cast this
  have hneg : (t - f) / (2 * π) = -((f - t) / (2 * π)) := by ring
  rw [hn, hneg, Int.floor_neg]
  push_cast; ring

theorem sampleSpan_nonneg_of_gt {f t : ℝ} (h : t < f) : 0 ≤ sampleSpan f t := by
  rw [sampleSpan_eq_unwrapTop_sub h]; linarith [unwrapTop_ge f t]

theorem sampleSpan_lt_of_gt {f t : ℝ} (h : t < f) : sampleSpan f t < 2 * π := by
  rw [sampleSpan_eq_unwrapTop_sub h]; linarith [unwrapTop_sub_lt h]

theorem sampleSpan_pos_of_gt {f t : ℝ} (h : t < f) (hn : ¬ ∃ n : ℤ, f - t = 2 * π * n) :
    0 < sampleSpan f t := by
  rcases (sampleSpan_nonneg_of_gt h).lt_or_eq with h0 | h0
  · exact h0
  · exfalso
    apply hn
    rw [sampleSpan_of_gt h] at h0
    refine ⟨-⌊(t - f) / (2 * π)⌋, ?_⟩
    push_cast; linarith

end Opw.MiscReal
