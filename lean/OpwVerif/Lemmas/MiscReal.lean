/-
  Helper lemmas for C15 (Jacobian), C17 (frames) and C18 (constraint sampler): real reading of the
  model text of `Misc.lean`.
-/
import OpwVerif.Misc
import OpwVerif.Props.C07
import OpwVerif.Lemmas.OfMat
import OpwVerif.Lemmas.Chain
namespace Opw.MiscReal
open Opw Opw.Limits Opw.C07 Real

attribute [-simp] Opw.ofNatLit_real

/-! ### `rem_euclid` and the sampler's span -/

/-- over `ℝ`, `rem_euclid` by a positive modulus is the floor remainder -/
theorem remEuclid_real (x : ℝ) {y : ℝ} (hy : 0 < y) : remEuclid x y = x - y * ⌊x / y⌋ := by
  unfold remEuclid
  simp only [nabs_real, lit0_real]
  change (if (@ite ℝ (0 ≤ x / y) _ (x - y * ⌊x / y⌋) (x - y * ⌈x / y⌉)) < 0
      then (@ite ℝ (0 ≤ x / y) _ (x - y * ⌊x / y⌋) (x - y * ⌈x / y⌉)) + |y|
      else (@ite ℝ (0 ≤ x / y) _ (x - y * ⌊x / y⌋) (x - y * ⌈x / y⌉))) = _
  have hxy : y * (x / y) = x := by field_simp
  by_cases h : 0 ≤ x / y
  · rw [if_pos h]
    have := fmodR_nonneg x hy
    unfold fmodR at this
    rw [if_neg (not_lt.mpr this)]
  · rw [if_neg h, abs_of_pos hy]
    have hc1 := Int.le_ceil (x / y)
    have hc2 := Int.ceil_lt_add_one (x / y)
    split_ifs with hr
    · -- non-integral quotient: floor = ceil - 1
      have hlt : x / y < (⌈x / y⌉ : ℝ) := by
        by_contra hge
        have : (⌈x / y⌉ : ℝ) = x / y := le_antisymm (not_lt.mp hge) hc1
        rw [this, hxy] at hr
        linarith
      have hf : ⌊x / y⌋ = ⌈x / y⌉ - 1 := by
        rw [Int.floor_eq_iff]
        push_cast
        constructor <;> linarith
      rw [hf]; push_cast; ring
    · have hle : y * (⌈x / y⌉ : ℝ) ≤ x := by linarith
      have hge : x ≤ y * (⌈x / y⌉ : ℝ) := by
        calc x = y * (x / y) := hxy.symm
          _ ≤ _ := mul_le_mul_of_nonneg_left hc1 hy.le
      have he : x / y = (⌈x / y⌉ : ℝ) := by
        rw [div_eq_iff hy.ne']; linarith
      have hf : ⌊x / y⌋ = ⌈x / y⌉ := by
        conv_lhs => rw [he]
        exact Int.floor_intCast _
      rw [hf]

theorem sampleSpan_of_lt {f t : ℝ} (h : f < t) : sampleSpan f t = t - f := by
  unfold sampleSpan; rw [if_pos h]

theorem sampleSpan_of_eq (f : ℝ) : sampleSpan f f = 2 * π := by
  unfold sampleSpan
  rw [if_neg (lt_irrefl f)]
  simp only [feq_real, decide_true, if_true, lit2_real, pi_def_real]

theorem sampleSpan_of_gt {f t : ℝ} (h : t < f) :
    sampleSpan f t = (t - f) - 2 * π * ⌊(t - f) / (2 * π)⌋ := by
  unfold sampleSpan
  rw [if_neg (not_lt.mpr h.le)]
  simp only [feq_real, ne_of_gt h, decide_false, Bool.false_eq_true, if_false, lit2_real,
    pi_def_real]
  exact remEuclid_real _ Real.two_pi_pos

/-- when wrapping, the sampler's span is the width of the arc `[f, unwrapTop f t]` -/
theorem sampleSpan_eq_unwrapTop_sub {f t : ℝ} (h : t < f) : sampleSpan f t = unwrapTop f t - f := by
  rw [sampleSpan_of_gt h, unwrapTop_eq]
  have h2 := Real.two_pi_pos
  have hpos : 0 ≤ (f - t) / (2 * π) := div_nonneg (by linarith) h2.le
  have hn : ((⌈(f - t) / (2 * π)⌉₊ : ℕ) : ℝ) = ((⌈(f - t) / (2 * π)⌉ : ℤ) : ℝ) := by
    have := Int.natCast_ceil_eq_ceil hpos
    exact_mod_cast this
  have hneg : (t - f) / (2 * π) = -((f - t) / (2 * π)) := by ring
  rw [hn, hneg, Int.floor_neg]
  push_cast; ring

theorem sampleSpan_nonneg_of_gt {f t : ℝ} (h : t < f) : 0 ≤ sampleSpan f t := by
  rw [sampleSpan_eq_unwrapTop_sub h]; linarith [unwrapTop_ge f t]

theorem sampleSpan_lt_of_gt {f t : ℝ} (h : t < f) : sampleSpan f t < 2 * π := by
  rw [sampleSpan_eq_unwrapTop_sub h]; linarith [unwrapTop_sub_lt h]

theorem sampleSpan_pos_of_gt {f t : ℝ} (h : t < f) (hn : ¬ ∃ n : ℤ, f - t = 2 * π * n) :
    0 < sampleSpan f t := by
  rcases (sampleSpan_nonneg_of_gt h).lt_or_eq with h0 | h0
  · exact h0
  · exfalso
    apply hn
    rw [sampleSpan_of_gt h] at h0
    refine ⟨-⌊(t - f) / (2 * π)⌋, ?_⟩
    push_cast; linarith

/-- at `ℝ`: the draw is used when the span is positive (this covers `f < t`) -/
theorem randomAngle_of_pos {f t : ℝ} (u : ℝ) (h : 0 < sampleSpan f t) : randomAngle f t u = f + u := by
  unfold randomAngle
  have h' : sampleSpan f t > (@OfNat.ofNat ℝ 0 instOfNatOpw) := by rw [lit0_real]; exact h
  split_ifs <;> rfl

theorem randomAngle_of_not_pos {f t : ℝ} (u : ℝ) (h1 : ¬ f < t) (h2 : ¬ 0 < sampleSpan f t) :
    randomAngle f t u = f := by
  unfold randomAngle
  have h' : ¬ sampleSpan f t > (@OfNat.ofNat ℝ 0 instOfNatOpw) := by rw [lit0_real]; exact h2
  rw [if_neg h1, if_neg h']

/-! ### Vectors: dot, cross, normalisation -/

theorem V3.dot_comm (a b : V3 ℝ) : a.dot b = b.dot a := by
  simp only [V3.dot]; ring

theorem V3.dot_cross_self_left (a b : V3 ℝ) : a.dot (a.cross b) = 0 := by
  simp only [V3.dot, V3.cross]; ring

theorem V3.dot_cross_self_right (a b : V3 ℝ) : b.dot (a.cross b) = 0 := by
  simp only [V3.dot, V3.cross]; ring

/-- Lagrange's identity -/
theorem V3.normSq_cross (a b : V3 ℝ) :
    (a.cross b).normSq = a.normSq * b.normSq - a.dot b * a.dot b := by
  simp only [V3.normSq, V3.dot, V3.cross]; ring

theorem V3.norm_mul_self (a : V3 ℝ) : a.norm * a.norm = a.normSq :=
  Real.mul_self_sqrt (V3.normSq_nonneg a)

theorem V3.norm_nonneg (a : V3 ℝ) : 0 ≤ a.norm := Real.sqrt_nonneg _

theorem V3.norm_eq_zero_iff (a : V3 ℝ) : a.norm = 0 ↔ a.normSq = 0 := by
  rw [V3.norm_eq, Real.sqrt_eq_zero (V3.normSq_nonneg a)]

theorem V3.normSq_eq_zero_iff (a : V3 ℝ) : a.normSq = 0 ↔ a = V3.zero := by
  constructor
  · intro h
    rw [V3.normSq_eq] at h
    have hx : a.x * a.x = 0 := by nlinarith [mul_self_nonneg a.x, mul_self_nonneg a.y, mul_self_nonneg a.z]
    have hy : a.y * a.y = 0 := by nlinarith [mul_self_nonneg a.x, mul_self_nonneg a.y, mul_self_nonneg a.z]
    have hz : a.z * a.z = 0 := by nlinarith [mul_self_nonneg a.x, mul_self_nonneg a.y, mul_self_nonneg a.z]
    apply V3.ext' <;> simp only [V3.zero, lit0_real]
    · exact mul_self_eq_zero.mp hx
    · exact mul_self_eq_zero.mp hy
    · exact mul_self_eq_zero.mp hz
  · rintro rfl
    simp only [V3.normSq, V3.dot, V3.zero, lit0_real]; ring

/-- a non-zero cross product needs a non-zero first factor … -/
theorem V3.norm_left_ne_zero_of_cross {a b : V3 ℝ} (h : (a.cross b).norm ≠ 0) : a.norm ≠ 0 := by
  intro ha
  apply h
  rw [V3.norm_eq_zero_iff] at ha ⊢
  have hl := V3.normSq_cross a b
  rw [ha] at hl
  nlinarith [V3.normSq_nonneg (a.cross b), mul_self_nonneg (a.dot b)]

/-- … and a non-zero second factor -/
theorem V3.norm_right_ne_zero_of_cross {a b : V3 ℝ} (h : (a.cross b).norm ≠ 0) : b.norm ≠ 0 := by
  intro hb
  apply h
  rw [V3.norm_eq_zero_iff] at hb ⊢
  have hl := V3.normSq_cross a b
  rw [hb] at hl
  nlinarith [V3.normSq_nonneg (a.cross b), mul_self_nonneg (a.dot b)]

theorem V3.dot_normalize_self {a : V3 ℝ} (h : a.norm ≠ 0) : a.normalize.dot a.normalize = 1 := by
  have hn := V3.norm_mul_self a
  rw [V3.normSq_eq] at hn
  simp only [V3.normalize, V3.divs, V3.dot]
  field_simp
  linear_combination -hn

theorem V3.dot_normalize_normalize (a b : V3 ℝ) :
    a.normalize.dot b.normalize = a.dot b / (a.norm * b.norm) := by
  simp only [V3.normalize, V3.divs, V3.dot]; ring

/-! ### Rotation matrices from orthonormal columns -/

/-- `(M a) × (M b) = cof(M) (a × b)` for every matrix -/
theorem M3.cross_mulVec (m : M3 ℝ) (a b : V3 ℝ) :
    (m.mulVec a).cross (m.mulVec b) = m.cof.mulVec (a.cross b) := by
  apply V3.ext' <;> simp only [M3.mulVec, V3.cross, M3.cof] <;> ring

theorem M3.mul_ofColumns (m : M3 ℝ) (a b c : V3 ℝ) :
    m.mul (M3.ofColumns a b c) = M3.ofColumns (m.mulVec a) (m.mulVec b) (m.mulVec c) := by
  apply M3.ext' <;> simp only [M3.mul, M3.ofColumns, M3.mulVec]

/-- orthogonal columns and `cof m = m` make a rotation (rows are then orthonormal too) -/
theorem isRot_of_tm_cof {m : M3 ℝ} (htm : m.transpose.mul m = M3.one) (hcof : m.cof = m) :
    IsRot m := by
  have c00 := congrArg M3.m00 htm
  have c11 := congrArg M3.m11 htm
  have c22 := congrArg M3.m22 htm
  simp only [M3.mul, M3.transpose, M3.one, lit0, lit1] at c00 c11 c22
  have k00 := congrArg M3.m00 hcof
  have k01 := congrArg M3.m01 hcof
  have k02 := congrArg M3.m02 hcof
  have k10 := congrArg M3.m10 hcof
  have k11 := congrArg M3.m11 hcof
  have k12 := congrArg M3.m12 hcof
  have k20 := congrArg M3.m20 hcof
  have k21 := congrArg M3.m21 hcof
  have k22 := congrArg M3.m22 hcof
  simp only [M3.cof] at k00 k01 k02 k10 k11 k12 k20 k21 k22
  have hdet : m.m00 * (m.m11 * m.m22 - m.m12 * m.m21) + m.m01 * (m.m12 * m.m20 - m.m10 * m.m22)
      + m.m02 * (m.m10 * m.m21 - m.m11 * m.m20) = 1 := by
    linear_combination (1 / 3 : ℝ) * (c00 + c11 + c22 + m.m00 * k00 + m.m01 * k01 + m.m02 * k02
      + m.m10 * k10 + m.m11 * k11 + m.m12 * k12 + m.m20 * k20 + m.m21 * k21 + m.m22 * k22)
  refine ⟨htm, ?_, hcof⟩
  apply M3.ext' <;> simp only [M3.mul, M3.transpose, M3.one, lit0, lit1]
  · linear_combination hdet - m.m00 * k00 - m.m01 * k01 - m.m02 * k02
  · linear_combination - m.m10 * k00 - m.m11 * k01 - m.m12 * k02
  · linear_combination - m.m20 * k00 - m.m21 * k01 - m.m22 * k02
  · linear_combination - m.m10 * k00 - m.m11 * k01 - m.m12 * k02
  · linear_combination hdet - m.m10 * k10 - m.m11 * k11 - m.m12 * k12
  · linear_combination - m.m20 * k10 - m.m21 * k11 - m.m22 * k12
  · linear_combination - m.m20 * k00 - m.m21 * k01 - m.m22 * k02
  · linear_combination - m.m20 * k10 - m.m21 * k11 - m.m22 * k12
  · linear_combination hdet - m.m20 * k20 - m.m21 * k21 - m.m22 * k22

/-- two orthonormal vectors and their cross product are the columns of a rotation matrix -/
theorem IsRot_ofColumns {a b : V3 ℝ} (ha : a.dot a = 1) (hb : b.dot b = 1) (hab : a.dot b = 0) :
    IsRot (M3.ofColumns a b (a.cross b)) := by
  simp only [V3.dot] at ha hb hab
  apply isRot_of_tm_cof
  · apply M3.ext' <;> simp only [M3.mul, M3.transpose, M3.ofColumns, M3.one, V3.cross, lit0, lit1]
    · linear_combination ha
    · linear_combination hab
    · ring
    · linear_combination hab
    · linear_combination hb
    · ring
    · ring
    · ring
    · linear_combination (b.x * b.x + b.y * b.y + b.z * b.z) * ha + hb
        - (a.x * b.x + a.y * b.y + a.z * b.z) * hab
  · apply M3.ext' <;> simp only [M3.cof, M3.ofColumns, V3.cross]
    · linear_combination a.x * hb - b.x * hab
    · linear_combination b.x * ha - a.x * hab
    · ring
    · linear_combination a.y * hb - b.y * hab
    · linear_combination b.y * ha - a.y * hab
    · ring
    · linear_combination a.z * hb - b.z * hab
    · linear_combination b.z * ha - a.z * hab
    · ring

/-- `basisOf v1 v2` is a rotation matrix when `v1 × v2 ≠ 0` -/
theorem basisOf_isRot {v1 v2 : V3 ℝ} (h : (V3.cross v1 v2).norm ≠ 0) : IsRot (basisOf v1 v2) := by
  have h1 := V3.norm_left_ne_zero_of_cross h
  unfold basisOf
  apply IsRot_ofColumns (V3.dot_normalize_self h1) (V3.dot_normalize_self h)
  rw [V3.dot_normalize_normalize, V3.dot_cross_self_left, zero_div]

theorem basisOf_col0 (v1 v2 : V3 ℝ) : (basisOf v1 v2).col0 = v1.normalize := rfl
theorem basisOf_col1 (v1 v2 : V3 ℝ) : (basisOf v1 v2).col1 = (V3.cross v1 v2).normalize := rfl

/-! ### Rotations commute with the basis construction -/

theorem isRot_cross_mulVec {m : M3 ℝ} (h : IsRot m) (a b : V3 ℝ) :
    (m.mulVec a).cross (m.mulVec b) = m.mulVec (a.cross b) := by
  rw [M3.cross_mulVec, h.cof]

theorem isRot_norm_mulVec {m : M3 ℝ} (h : IsRot m) (a : V3 ℝ) : (m.mulVec a).norm = a.norm := by
  simp only [V3.norm, h.normSq_mulVec a]

theorem M3.mulVec_divs (m : M3 ℝ) (a : V3 ℝ) (s : ℝ) : m.mulVec (a.divs s) = (m.mulVec a).divs s := by
  apply V3.ext' <;> simp only [M3.mulVec, V3.divs] <;> ring

theorem M3.mulVec_sub (m : M3 ℝ) (a b : V3 ℝ) : m.mulVec (a.sub b) = (m.mulVec a).sub (m.mulVec b) := by
  apply V3.ext' <;> simp only [M3.mulVec, V3.sub] <;> ring

theorem isRot_normalize_mulVec {m : M3 ℝ} (h : IsRot m) (a : V3 ℝ) :
    (m.mulVec a).normalize = m.mulVec a.normalize := by
  unfold V3.normalize
  rw [isRot_norm_mulVec h, M3.mulVec_divs]

theorem basisOf_mulVec {m : M3 ℝ} (h : IsRot m) (v1 v2 : V3 ℝ) :
    basisOf (m.mulVec v1) (m.mulVec v2) = m.mul (basisOf v1 v2) := by
  unfold basisOf
  simp only [isRot_cross_mulVec h, isRot_normalize_mulVec h, M3.mul_ofColumns]

/-! ### The frame tolerance -/

theorem nonIsoTol_eq : (nonIsoTol : ℝ) = 5764607523034235 / 1152921504606846976 := by
  show ((Gen.nonIsoTolM : ℤ) : ℝ) * (2 : ℝ) ^ Gen.nonIsoTolE = _
  unfold Gen.nonIsoTolM Gen.nonIsoTolE
  norm_num

/-! ### Columns of a rotation matrix -/

theorem mulVec_ex (m : M3 ℝ) : m.mulVec ⟨1, 0, 0⟩ = m.col0 := by
  apply V3.ext' <;> simp only [M3.mulVec, M3.col0] <;> ring

theorem mulVec_ey (m : M3 ℝ) : m.mulVec ⟨0, 1, 0⟩ = m.col1 := by
  apply V3.ext' <;> simp only [M3.mulVec, M3.col1] <;> ring

theorem transpose_mulVec_col0 {m : M3 ℝ} (h : IsRot m) : m.transpose.mulVec m.col0 = ⟨1, 0, 0⟩ := by
  have e := h.eqs
  apply V3.ext' <;> simp only [M3.mulVec, M3.transpose, M3.col0]
  · linear_combination e.hc00
  · linear_combination e.hc01
  · linear_combination e.hc02

theorem transpose_mulVec_col1 {m : M3 ℝ} (h : IsRot m) : m.transpose.mulVec m.col1 = ⟨0, 1, 0⟩ := by
  have e := h.eqs
  apply V3.ext' <;> simp only [M3.mulVec, M3.transpose, M3.col1]
  · linear_combination e.hc01
  · linear_combination e.hc11
  · linear_combination e.hc12

/-! ### Jacobian: `J x` as a fold, and its linearity -/

end Opw.MiscReal

namespace Opw
theorem Col.ext' {a b : Col ℝ} (h1 : a.lin = b.lin) (h2 : a.ang = b.ang) : a = b := by
  cases a; cases b; simp_all

/-- componentwise sum of two 6-vectors -/
noncomputable def Col.add (a b : Col ℝ) : Col ℝ := ⟨a.lin.add b.lin, a.ang.add b.ang⟩
/-- a 6-vector times a scalar -/
noncomputable def Col.scale (a : Col ℝ) (c : ℝ) : Col ℝ := ⟨a.lin.scale c, a.ang.scale c⟩
/-- the zero 6-vector -/
noncomputable def Col.zero : Col ℝ := ⟨V3.zero, V3.zero⟩
/-- Euclidean inner product of two 6-vectors -/
noncomputable def Col.dot (a b : Col ℝ) : ℝ := a.lin.dot b.lin + a.ang.dot b.ang
end Opw

namespace Opw.MiscReal
open Opw Opw.Limits Opw.C07 Real

/-- the accumulation step of `jacMulVec` -/
noncomputable def jacStep (acc : Col ℝ) (cx : Col ℝ × ℝ) : Col ℝ :=
  ⟨acc.lin.add (cx.1.lin.scale cx.2), acc.ang.add (cx.1.ang.scale cx.2)⟩

theorem jacMulVec_eq_foldl (jac : List (Col ℝ)) (x : List ℝ) :
    jacMulVec jac x = (jac.zip x).foldl jacStep Col.zero := rfl

theorem jacStep_add (a b : Col ℝ) (cx : Col ℝ × ℝ) : jacStep (a.add b) cx = a.add (jacStep b cx) := by
  apply Col.ext' <;> apply V3.ext' <;> simp only [jacStep, Col.add, V3.add, V3.scale] <;> ring

theorem foldl_jacStep_add (l : List (Col ℝ × ℝ)) (a b : Col ℝ) :
    l.foldl jacStep (a.add b) = a.add (l.foldl jacStep b) := by
  induction l generalizing b with
  | nil => rfl
  | cons cx l ih => simp only [List.foldl_cons]; rw [jacStep_add, ih]

theorem Col.add_zero (a : Col ℝ) : a.add Col.zero = a := by
  apply Col.ext' <;> apply V3.ext' <;> simp only [Col.add, Col.zero, V3.add, V3.zero, lit0_real] <;> ring

theorem Col.zero_add (a : Col ℝ) : Col.zero.add a = a := by
  apply Col.ext' <;> apply V3.ext' <;> simp only [Col.add, Col.zero, V3.add, V3.zero, lit0_real] <;> ring

theorem jacStep_zero (c : Col ℝ) (a : ℝ) : jacStep Col.zero (c, a) = c.scale a := by
  apply Col.ext' <;> apply V3.ext' <;>
    simp only [jacStep, Col.scale, Col.zero, V3.add, V3.scale, V3.zero, lit0_real] <;> ring

theorem jacMulVec_nil_left (x : List ℝ) : jacMulVec [] x = Col.zero := rfl
theorem jacMulVec_nil_right (jac : List (Col ℝ)) : jacMulVec jac [] = Col.zero := by
  rw [jacMulVec_eq_foldl, List.zip_nil_right]; rfl

/-- recursion: `J x = x₀ c₀ + J' x'` -/
theorem jacMulVec_cons (c : Col ℝ) (cs : List (Col ℝ)) (a : ℝ) (xs : List ℝ) :
    jacMulVec (c :: cs) (a :: xs) = (c.scale a).add (jacMulVec cs xs) := by
  rw [jacMulVec_eq_foldl, jacMulVec_eq_foldl, List.zip_cons_cons, List.foldl_cons, jacStep_zero,
    ← Col.add_zero (c.scale a), foldl_jacStep_add, Col.add_zero]

theorem jacMulVec_add (jac : List (Col ℝ)) (x y : List ℝ) (h : x.length = y.length) :
    jacMulVec jac (List.zipWith (· + ·) x y) = (jacMulVec jac x).add (jacMulVec jac y) := by
  induction jac generalizing x y with
  | nil => simp only [jacMulVec_nil_left, Col.add_zero]
  | cons c cs ih =>
    cases x with
    | nil =>
      cases y with
      | nil => simp only [List.zipWith_nil_left, jacMulVec_nil_right, Col.add_zero]
      | cons b ys => simp at h
    | cons a xs =>
      cases y with
      | nil => simp at h
      | cons b ys =>
        have h' : xs.length = ys.length := by simpa using h
        rw [List.zipWith_cons_cons, jacMulVec_cons, jacMulVec_cons, jacMulVec_cons, ih xs ys h']
        apply Col.ext' <;> apply V3.ext' <;> simp only [Col.add, Col.scale, V3.add, V3.scale] <;> ring

theorem jacMulVec_smul (jac : List (Col ℝ)) (k : ℝ) (x : List ℝ) :
    jacMulVec jac (x.map (k * ·)) = (jacMulVec jac x).scale k := by
  induction jac generalizing x with
  | nil =>
    simp only [jacMulVec_nil_left]
    apply Col.ext' <;> apply V3.ext' <;> simp only [Col.scale, Col.zero, V3.scale, V3.zero, lit0_real] <;> ring
  | cons c cs ih =>
    cases x with
    | nil =>
      simp only [List.map_nil, jacMulVec_nil_right]
      apply Col.ext' <;> apply V3.ext' <;> simp only [Col.scale, Col.zero, V3.scale, V3.zero, lit0_real] <;> ring
    | cons a xs =>
      rw [List.map_cons, jacMulVec_cons, jacMulVec_cons, ih xs]
      apply Col.ext' <;> apply V3.ext' <;> simp only [Col.add, Col.scale, V3.add, V3.scale] <;> ring

/-- `Σ τᵢ xᵢ` -/
noncomputable def listDot (a b : List ℝ) : ℝ := (List.zipWith (· * ·) a b).sum

/-- `(Jᵀ F) · x = F · (J x)`: `torquesFromVector` is the transpose of `jacMulVec` -/
theorem torques_dot (jac : List (Col ℝ)) (f : Col ℝ) (x : List ℝ) :
    listDot (torquesFromVector jac f) x = Col.dot f (jacMulVec jac x) := by
  induction jac generalizing x with
  | nil =>
    simp only [torquesFromVector, List.map_nil, listDot, List.zipWith_nil_left, List.sum_nil,
      jacMulVec_nil_left, Col.dot, Col.zero, V3.dot, V3.zero, lit0_real]
    ring
  | cons c cs ih =>
    cases x with
    | nil =>
      simp only [listDot, List.zipWith_nil_right, List.sum_nil, jacMulVec_nil_right, Col.dot,
        Col.zero, V3.dot, V3.zero, lit0_real]
      ring
    | cons a xs =>
      have ih' := ih xs
      rw [jacMulVec_cons]
      simp only [torquesFromVector, List.map_cons, listDot, List.zipWith_cons_cons, List.sum_cons] at ih' ⊢
      rw [ih']
      simp only [Col.dot, Col.add, Col.scale, V3.dot, V3.add, V3.scale]
      ring

/-! ### Perturbing joint 1 rotates the whole chain about the world z axis -/

/-- joint vector with the first entry replaced -/
noncomputable def withJ1 (q : J6 ℝ) (v : ℝ) : J6 ℝ := ⟨v, q.j2, q.j3, q.j4, q.j5, q.j6⟩

theorem set0_eq (q : J6 ℝ) (v : ℝ) : q.set 0 v = withJ1 q v := rfl

theorem rz_mulVec_z (s c z : ℝ) : (M3.rz s c).mulVec ⟨0, 0, z⟩ = ⟨0, 0, z⟩ := by
  apply V3.ext' <;> simp only [M3.mulVec, M3.rz, lit0, lit1] <;> ring

theorem rot1_perturb (q : J6 ℝ) (e : ℝ) :
    rot1 (withJ1 q (q.j1 + e)) = (M3.rz (Real.sin e) (Real.cos e)).mul (rot1 q) := by
  unfold rot1
  rw [M3.rz_mul_rz]
  show M3.rz (Real.sin (q.j1 + e)) (Real.cos (q.j1 + e)) = _
  rw [Real.sin_add, Real.cos_add]
  congr 1 <;> ring

theorem rot2_perturb (q : J6 ℝ) (e : ℝ) :
    rot2 (withJ1 q (q.j1 + e)) = (M3.rz (Real.sin e) (Real.cos e)).mul (rot2 q) := by
  unfold rot2; rw [rot1_perturb]; exact M3.mul_assoc _ _ _
theorem rot3_perturb (q : J6 ℝ) (e : ℝ) :
    rot3 (withJ1 q (q.j1 + e)) = (M3.rz (Real.sin e) (Real.cos e)).mul (rot3 q) := by
  unfold rot3; rw [rot2_perturb]; exact M3.mul_assoc _ _ _
theorem rot4_perturb (q : J6 ℝ) (e : ℝ) :
    rot4 (withJ1 q (q.j1 + e)) = (M3.rz (Real.sin e) (Real.cos e)).mul (rot4 q) := by
  unfold rot4; rw [rot3_perturb]; exact M3.mul_assoc _ _ _
theorem rot5_perturb (q : J6 ℝ) (e : ℝ) :
    rot5 (withJ1 q (q.j1 + e)) = (M3.rz (Real.sin e) (Real.cos e)).mul (rot5 q) := by
  unfold rot5; rw [rot4_perturb]; exact M3.mul_assoc _ _ _
theorem rot6_perturb (q : J6 ℝ) (e : ℝ) :
    rot6 (withJ1 q (q.j1 + e)) = (M3.rz (Real.sin e) (Real.cos e)).mul (rot6 q) := by
  unfold rot6; rw [rot5_perturb]; exact M3.mul_assoc _ _ _

theorem org1_perturb (p : Params ℝ) (q : J6 ℝ) (e : ℝ) :
    org1 p (withJ1 q (q.j1 + e)) = (M3.rz (Real.sin e) (Real.cos e)).mulVec (org1 p q) := by
  unfold org1; rw [rz_mulVec_z]
theorem org2_perturb (p : Params ℝ) (q : J6 ℝ) (e : ℝ) :
    org2 p (withJ1 q (q.j1 + e)) = (M3.rz (Real.sin e) (Real.cos e)).mulVec (org2 p q) := by
  unfold org2; rw [org1_perturb, rot1_perturb, M3.mulVec_mulVec, ← M3.mulVec_add]
theorem org3_perturb (p : Params ℝ) (q : J6 ℝ) (e : ℝ) :
    org3 p (withJ1 q (q.j1 + e)) = (M3.rz (Real.sin e) (Real.cos e)).mulVec (org3 p q) := by
  unfold org3; rw [org2_perturb, rot2_perturb, M3.mulVec_mulVec, ← M3.mulVec_add]
theorem org4_perturb (p : Params ℝ) (q : J6 ℝ) (e : ℝ) :
    org4 p (withJ1 q (q.j1 + e)) = (M3.rz (Real.sin e) (Real.cos e)).mulVec (org4 p q) := by
  unfold org4; rw [org3_perturb, rot3_perturb, M3.mulVec_mulVec, ← M3.mulVec_add]
theorem org5_perturb (p : Params ℝ) (q : J6 ℝ) (e : ℝ) :
    org5 p (withJ1 q (q.j1 + e)) = (M3.rz (Real.sin e) (Real.cos e)).mulVec (org5 p q) := by
  unfold org5; rw [org4_perturb, rot4_perturb, M3.mulVec_mulVec, ← M3.mulVec_add]
theorem org6_perturb (p : Params ℝ) (q : J6 ℝ) (e : ℝ) :
    org6 p (withJ1 q (q.j1 + e)) = (M3.rz (Real.sin e) (Real.cos e)).mulVec (org6 p q) := by
  unfold org6; rw [org5_perturb, rot5_perturb, M3.mulVec_mulVec, ← M3.mulVec_add]

/-- θ-space image of a joint-1 perturbation: θ₁ moves by `e · sign₁` -/
theorem thetaOf_perturb (p : Params ℝ) (j : J6 ℝ) (e : ℝ) :
    thetaOf p (withJ1 j (j.j1 + e)) = withJ1 (thetaOf p j) ((thetaOf p j).j1 + e * p.signs.j1) := by
  unfold thetaOf withJ1
  congr 1
  ring

/-! ### Scaled axis of a rotation about z -/

theorem arg_cos_abs_sin (h : ℝ) (hh : |h| < π / 2) :
    Complex.arg ⟨Real.cos h, |Real.sin h|⟩ = |h| := by
  have hpi := Real.pi_pos
  have h1 : (⟨Real.cos h, |Real.sin h|⟩ : ℂ) = Complex.cos (|h| : ℝ) + Complex.sin (|h| : ℝ) * Complex.I := by
    apply Complex.ext
    · simp [← Complex.ofReal_cos, ← Complex.ofReal_sin]
    · simp only [Complex.add_im, Complex.mul_im, Complex.I_re, Complex.I_im,
        ← Complex.ofReal_cos, ← Complex.ofReal_sin, Complex.ofReal_re, Complex.ofReal_im]
      rcases abs_cases h with ⟨e, h0⟩ | ⟨e, h0⟩
      · rw [e, abs_of_nonneg (Real.sin_nonneg_of_nonneg_of_le_pi h0 (by linarith [(abs_lt.mp hh).2]))]; ring
      · rw [e, Real.sin_neg, abs_of_nonpos (Real.sin_nonpos_of_nonpos_of_neg_pi_le h0.le (by linarith [(abs_lt.mp hh).1]))]; ring
  rw [h1, Complex.arg_cos_add_sin_mul_I]
  constructor
  · linarith [abs_nonneg h]
  · linarith

theorem scaledAxis_rotZ_core (σ h : ℝ) (hσ : σ = 1 ∨ σ = -1) (hh : |h| < π / 2) :
    (⟨σ * Real.cos h, 0, 0, σ * Real.sin h⟩ : Quat ℝ).scaledAxis = ⟨0, 0, 2 * h⟩ := by
  have hc : 0 < Real.cos h :=
    Real.cos_pos_of_mem_Ioo ⟨by linarith [(abs_lt.mp hh).1], (abs_lt.mp hh).2⟩
  have hv : (if σ * Real.cos h ≥ 0 then (⟨0, 0, σ * Real.sin h⟩ : V3 ℝ)
      else (⟨0, 0, σ * Real.sin h⟩ : V3 ℝ).neg) = ⟨0, 0, Real.sin h⟩ := by
    rcases hσ with rfl | rfl
    · rw [if_pos (by linarith)]; simp
    · rw [if_neg (by linarith)]; simp [V3.neg]
  have hang : (⟨σ * Real.cos h, 0, 0, σ * Real.sin h⟩ : Quat ℝ).angle = |h| * 2 := by
    have hn : (⟨0, 0, σ * Real.sin h⟩ : V3 ℝ).norm = |Real.sin h| := by
      rw [V3.norm_eq, V3.normSq_eq]
      simp only
      rw [show (0:ℝ) * 0 + 0 * 0 + σ * Real.sin h * (σ * Real.sin h) = (Real.sin h) ^ 2 by
        rcases hσ with rfl | rfl <;> ring]
      exact Real.sqrt_sq_eq_abs _
    have hw : |σ * Real.cos h| = Real.cos h := by
      rcases hσ with rfl | rfl
      · rw [one_mul, abs_of_pos hc]
      · rw [neg_one_mul, abs_neg, abs_of_pos hc]
    simp only [Quat.angle, Quat.imag, natan2_real, nabs_real, lit2_real]
    rw [hn, hw, arg_cos_abs_sin h hh]
  unfold Quat.scaledAxis
  simp only [Quat.imag, lit0_real]
  rw [hv, hang]
  have hsq : (⟨0, 0, Real.sin h⟩ : V3 ℝ).normSq = Real.sin h * Real.sin h := by
    rw [V3.normSq_eq]; ring
  rw [hsq]
  by_cases h0 : h = 0
  · subst h0
    rw [Real.sin_zero, if_neg (by norm_num)]
    apply V3.ext' <;> simp only [V3.zero, lit0_real]
    ring
  · have hpi := Real.pi_pos
    have hs : Real.sin h ≠ 0 := by
      intro hs
      rcases lt_or_gt_of_ne h0 with hl | hl
      · have := Real.sin_neg_of_neg_of_neg_pi_lt hl (by linarith [(abs_lt.mp hh).1]); linarith
      · have := Real.sin_pos_of_pos_of_lt_pi hl (by linarith [(abs_lt.mp hh).2]); linarith
    rw [if_pos (mul_self_pos.mpr hs)]
    simp only [nsqrt_real]
    rw [← sq, Real.sqrt_sq_eq_abs]
    apply V3.ext' <;> simp only [V3.divs, V3.scale]
    · ring
    · ring
    · rcases lt_or_gt_of_ne h0 with hl | hl
      · have := Real.sin_neg_of_neg_of_neg_pi_lt hl (by linarith [(abs_lt.mp hh).1])
        rw [abs_of_neg this, abs_of_neg hl]; field_simp
      · have := Real.sin_pos_of_pos_of_lt_pi hl (by linarith [(abs_lt.mp hh).2])
        rw [abs_of_pos this, abs_of_pos hl]; field_simp

/-- scaled axis of a unit quaternion whose rotation matrix is `Rz(φ)`, `|φ| < π`: it is `φ ẑ`
(whichever of the two quaternions `± rotZ φ` it is) -/
theorem scaledAxis_of_toMat_rz (r : Quat ℝ) (hr : r.normSq = 1) (φ : ℝ) (hφ : |φ| < π)
    (hm : r.toMat = M3.rz (Real.sin φ) (Real.cos φ)) : r.scaledAxis = ⟨0, 0, φ⟩ := by
  have hh : |φ / 2| < π / 2 := by
    rw [abs_div, abs_of_pos (by norm_num : (0:ℝ) < 2)]; linarith
  have e2 : 2 * (φ / 2) = φ := by ring
  rcases Quat.eq_or_eq_neg_of_toMat_eq r (Quat.rotZ φ) hr (Quat.normSq_rotZ φ)
      (by rw [hm, Quat.toMat_rotZ]) with h | h
  · have := scaledAxis_rotZ_core 1 (φ / 2) (Or.inl rfl) hh
    rw [one_mul, one_mul, e2] at this
    rw [h, Quat.rotZ_eq]; exact this
  · have := scaledAxis_rotZ_core (-1) (φ / 2) (Or.inr rfl) hh
    rw [e2] at this
    rw [h, Quat.rotZ_eq]
    have e : (Quat.neg ⟨Real.cos (φ / 2), 0, 0, Real.sin (φ / 2)⟩ : Quat ℝ) =
        ⟨-1 * Real.cos (φ / 2), 0, 0, -1 * Real.sin (φ / 2)⟩ := by
      apply Quat.ext' <;> simp only [Quat.neg] <;> ring
    rw [e]; exact this

end Opw.MiscReal
