/-
  Helper lemmas for C15c: the numeric Jacobian of a WRAPPED robot (Tool / Base / Frame /
  KinematicsWithShape stack without Parallelogram), column by column, against the geometric Jacobian.

  The stack case is the bare case (`Lemmas/JacCols.lean`) conjugated by the accumulated base isometry
  `B = k.baseOf` and with the lever arm extended by the tool:
   * `PoseMoved E o F F'` — pose `F'` is pose `F` moved by the rotation `E` about the point `o`
     (`JacCols.Moved` on the rotation matrix / translation of an isometry);
   * `PoseMoved.tool`  — multiplying both poses by a tool on the right keeps `E` and `o` (`Moved.step`);
   * `PoseMoved.base`  — multiplying both poses by a base `b` on the left conjugates `E` by `R_b` and
     moves `o` by `b`;
   * `stackRot k j i φ = R_B Eᵢ(φ) R_Bᵀ`, `stackAxis k j i = R_B aᵢ`, `stackOrg k j i = B · oᵢ`;
   * `stack_moved` — induction over the stack, the bare robot (`forward_perturb`) being the base case;
   * columns of `jacobianColumn` for any forward function with a `PoseMoved` perturbation;
   * slope limit, Rodrigues' formula and finite-difference error bound for `stackRot`, all derived from
     the `jointRot` versions by conjugation.
  Everything here is over `ℝ`.
-/
import OpwVerif.Lemmas.JacCols
import OpwVerif.Lemmas.Stack
namespace Opw.JacStack
open Opw Opw.Limits Opw.MiscReal Opw.JacCols

attribute [-simp] Opw.ofNatLit_real

/-! ### 0. Conjugation algebra -/

theorem conj_conj (b a r : M3 ℝ) : JacCols.conj b (JacCols.conj a r) = JacCols.conj (b.mul a) r := by
  unfold JacCols.conj
  rw [M3.transpose_mul]
  simp only [M3.mul_assoc]

theorem conj_mulVec (b r : M3 ℝ) (v : V3 ℝ) :
    (JacCols.conj b r).mulVec v = b.mulVec (r.mulVec (b.transpose.mulVec v)) := by
  unfold JacCols.conj
  rw [M3.mulVec_mulVec, M3.mulVec_mulVec]

theorem M3.mulVec_sub (m : M3 ℝ) (u v : V3 ℝ) : m.mulVec (u.sub v) = (m.mulVec u).sub (m.mulVec v) := by
  apply V3.ext' <;> simp only [M3.mulVec, V3.sub] <;> ring

theorem mul_transpose_mulVec {m : M3 ℝ} (h : IsRot m) (v : V3 ℝ) :
    m.mulVec (m.transpose.mulVec v) = v := by
  rw [← M3.mulVec_mulVec, h.mt, M3.one_mulVec]

theorem transpose_mul_mulVec {m : M3 ℝ} (h : IsRot m) (v : V3 ℝ) :
    m.transpose.mulVec (m.mulVec v) = v := by
  rw [← M3.mulVec_mulVec, h.tm, M3.one_mulVec]

/-- the finite difference of a conjugated rotation is the rotated finite difference -/
theorem conj_slope (b r : M3 ℝ) (hb : IsRot b) (v : V3 ℝ) (e : ℝ) :
    (((JacCols.conj b r).mulVec v).sub v).divs e =
      b.mulVec ((((r.mulVec (b.transpose.mulVec v)).sub (b.transpose.mulVec v))).divs e) := by
  rw [conj_mulVec, M3.mulVec_divs, M3.mulVec_sub, mul_transpose_mulVec hb]

/-! ### 1. A pose moved by a rotation about a point; tool and base wrappers -/

/-- pose `F'` is pose `F` moved by the rotation `E` about the point `o`:
`R' = E R`, `t' = o + E (t − o)` -/
def PoseMoved (E : M3 ℝ) (o : V3 ℝ) (F F' : Iso ℝ) : Prop :=
  Moved E o F.q.toMat F.t F'.q.toMat F'.t

/-- a tool (or frame) applied on the right: same rotation, same centre, longer lever arm -/
theorem PoseMoved.tool {E : M3 ℝ} {o : V3 ℝ} {F F' : Iso ℝ} (h : PoseMoved E o F F')
    (hF : F.q.normSq = 1) (hF' : F'.q.normSq = 1) (t : Iso ℝ) :
    PoseMoved E o (F.mul t) (F'.mul t) := by
  have hs := Moved.step h t.q.toMat t.t
  unfold PoseMoved
  show Moved E o (F.q.mul t.q).toMat (F.t.add (F.q.rotate t.t)) (F'.q.mul t.q).toMat
    (F'.t.add (F'.q.rotate t.t))
  rw [Quat.toMat_mul, Quat.toMat_mul, Quat.rotate_eq_mulVec _ hF, Quat.rotate_eq_mulVec _ hF']
  exact hs

/-- a base applied on the left: the rotation is conjugated by the base rotation, the centre is moved
by the base -/
theorem PoseMoved.base {E : M3 ℝ} {o : V3 ℝ} {F F' : Iso ℝ} (h : PoseMoved E o F F')
    (b : Iso ℝ) (hb : b.q.normSq = 1) :
    PoseMoved (JacCols.conj b.q.toMat E) (b.transformPoint o) (b.mul F) (b.mul F') := by
  have hR := IsRot_toMat b.q hb
  obtain ⟨hrot, horg⟩ := h
  refine ⟨?_, ?_⟩
  · show (b.q.mul F'.q).toMat = (JacCols.conj b.q.toMat E).mul (b.q.mul F.q).toMat
    rw [Quat.toMat_mul, Quat.toMat_mul, hrot, conj_mul_mul hR.tm]
  · show b.t.add (b.q.rotate F'.t) =
      ((b.q.rotate o).add b.t).add ((JacCols.conj b.q.toMat E).mulVec
        ((b.t.add (b.q.rotate F.t)).sub ((b.q.rotate o).add b.t)))
    rw [Quat.rotate_eq_mulVec _ hb, Quat.rotate_eq_mulVec _ hb, Quat.rotate_eq_mulVec _ hb, horg]
    have hv : (b.t.add (b.q.toMat.mulVec F.t)).sub ((b.q.toMat.mulVec o).add b.t) =
        b.q.toMat.mulVec (F.t.sub o) := by
      apply V3.ext' <;> simp only [M3.mulVec, V3.sub, V3.add] <;> ring
    rw [hv, conj_mulVec, transpose_mul_mulVec hR, M3.mulVec_add]
    apply V3.ext' <;> simp only [V3.add] <;> ring

/-- the relative rotation `q' · q⁻¹` of a moved pose is a unit quaternion with matrix `E` -/
theorem PoseMoved.rel {E : M3 ℝ} {o : V3 ℝ} {F F' : Iso ℝ} (h : PoseMoved E o F F')
    (hF : F.q.normSq = 1) (hF' : F'.q.normSq = 1) :
    (F'.q.mul F.q.conj).toMat = E ∧ (F'.q.mul F.q.conj).normSq = 1 := by
  refine ⟨?_, Quat.normSq_mul_unit _ _ hF' (Quat.normSq_conj_unit _ hF)⟩
  rw [Quat.toMat_mul, Quat.toMat_conj, h.rot, M3.mul_assoc, (IsRot_toMat F.q hF).mt, M3.mul_one]

/-! ### 2. Columns of the numeric Jacobian of any forward function with a moved perturbation -/

/-- linear part: the finite difference of the rotation applied to the lever arm `t − o` -/
theorem column_lin_of_moved (fwd : J6 ℝ → Iso ℝ) (j : J6 ℝ) (e : ℝ) (i : Nat) {E : M3 ℝ} {o : V3 ℝ}
    (h : PoseMoved E o (fwd j) (fwd (j.set i (j.get i + e)))) :
    (jacobianColumn fwd j e i).lin =
      ((E.mulVec ((fwd j).t.sub o)).sub ((fwd j).t.sub o)).divs e := by
  rw [(C15.jacobian_column_linear fwd j e i).1, h.org]
  apply V3.ext' <;> simp only [V3.divs, V3.sub, V3.add] <;> ring

/-- angular part: if the rotation is that of the axis quaternion of the unit axis `a` with angle `φ`,
`|φ| < π`, the angular part is `(φ/ε) · a` -/
theorem column_ang_of_moved (fwd : J6 ℝ → Iso ℝ) (j : J6 ℝ) (e : ℝ) (i : Nat) {E : M3 ℝ} {o : V3 ℝ}
    (h : PoseMoved E o (fwd j) (fwd (j.set i (j.get i + e))))
    (hF : (fwd j).q.normSq = 1) (hF' : (fwd (j.set i (j.get i + e))).q.normSq = 1)
    (a : V3 ℝ) (ha : a.normSq = 1) (φ : ℝ) (hφ : |φ| < Real.pi)
    (hE : E = (axisQuat a (φ / 2)).toMat) :
    (jacobianColumn fwd j e i).ang = (a.scale φ).divs e := by
  obtain ⟨hm, hu⟩ := h.rel hF hF'
  rw [(C15.jacobian_column_linear fwd j e i).2,
    scaledAxis_of_toMat_axisQuat _ hu φ hφ a ha (by rw [hm, hE])]

/-! ### 3. The geometric data of a wrapper stack -/

/-- rotation by `φ` about the base-moved axis of joint `i`: `R_B Eᵢ(φ) R_Bᵀ`, `B = k.baseOf` -/
noncomputable def stackRot (k : Kin ℝ) (j : J6 ℝ) (i : Nat) (φ : ℝ) : M3 ℝ :=
  JacCols.conj k.baseOf.q.toMat (jointRot (thetaOf k.core.p j) i φ)

/-- axis of joint `i` of the stack in the world frame: `R_B aᵢ` -/
noncomputable def stackAxis (k : Kin ℝ) (j : J6 ℝ) (i : Nat) : V3 ℝ :=
  k.baseOf.q.toMat.mulVec (worldAxis (thetaOf k.core.p j) i)

/-- origin of link `i` of the stack in the world frame: `B · oᵢ` -/
noncomputable def stackOrg (k : Kin ℝ) (j : J6 ℝ) (i : Nat) : V3 ℝ :=
  k.baseOf.transformPoint (linkOrg k.core.p (thetaOf k.core.p j) i)

theorem IsRot_baseOf (k : Kin ℝ) (hw : k.WF) : IsRot k.baseOf.q.toMat :=
  IsRot_toMat _ (Kin.baseOf_unit k hw)

theorem IsRot_stackRot (k : Kin ℝ) (hw : k.WF) (j : J6 ℝ) (i : Nat) (φ : ℝ) :
    IsRot (stackRot k j i φ) :=
  IsRot_conj (IsRot_baseOf k hw) (IsRot_jointRot _ i φ)

theorem stackRot_zero (k : Kin ℝ) (hw : k.WF) (j : J6 ℝ) (i : Nat) : stackRot k j i 0 = M3.one := by
  unfold stackRot
  rw [jointRot_zero]
  exact conj_one_right (IsRot_baseOf k hw).mt

theorem stackAxis_normSq (k : Kin ℝ) (hw : k.WF) (j : J6 ℝ) (i : Nat) :
    (stackAxis k j i).normSq = 1 := by
  unfold stackAxis
  rw [(IsRot_baseOf k hw).normSq_mulVec, worldAxis_normSq]

/-- the rotation fixes its axis -/
theorem stackRot_mulVec_axis (k : Kin ℝ) (hw : k.WF) (j : J6 ℝ) (i : Nat) (φ : ℝ) :
    (stackRot k j i φ).mulVec (stackAxis k j i) = stackAxis k j i := by
  have hA := IsRot_preRot (thetaOf k.core.p j) i
  unfold stackRot stackAxis
  rw [conj_mulVec, transpose_mul_mulVec (IsRot_baseOf k hw)]
  congr 1
  unfold jointRot worldAxis
  rw [conj_mulVec, transpose_mul_mulVec hA, localRot_mulVec_axis]

/-- `stackRot` is the rotation matrix of the axis quaternion of `stackAxis` -/
theorem stackRot_eq_toMat (k : Kin ℝ) (hw : k.WF) (j : J6 ℝ) (i : Nat) (φ : ℝ) :
    stackRot k j i φ = (axisQuat (stackAxis k j i) (φ / 2)).toMat := by
  have hu := Kin.baseOf_unit k hw
  have h := congrArg Quat.toMat
    (conj_axisQuat k.baseOf.q hu (worldAxis (thetaOf k.core.p j) i) (φ / 2))
  rw [Quat.toMat_mul, Quat.toMat_mul, Quat.toMat_conj] at h
  unfold stackRot stackAxis
  rw [← h, jointRot_eq_toMat]
  rfl

/-! ### 4. Perturbing joint `i` of a stack -/

/-- [stack, all joints] adding `e` to joint `i` moves the pose of the stack by the rotation
`stackRot … (e · signᵢ)` about `stackOrg`: the bare case conjugated by the base, lever arm extended by
the tool -/
theorem stack_moved : ∀ (k : Kin ℝ), k.noPara → k.WF → ∀ (j : J6 ℝ) {i : Nat}, i < 6 → ∀ (e : ℝ),
    PoseMoved (stackRot k j i (e * k.core.p.signs.get i)) (stackOrg k j i)
      (k.forward j) (k.forward (j.set i (j.get i + e)))
  | .opw k, _, _, j, i, hi, e => by
    obtain ⟨ht, hm, -, -⟩ := forward_perturb k.p j hi e
    have h1 : stackRot (.opw k) j i (e * k.p.signs.get i) =
        jointRot (thetaOf k.p j) i (e * k.p.signs.get i) := by
      show JacCols.conj (Quat.one : Quat ℝ).toMat _ = _
      rw [Quat.toMat_one, conj_one_left]
      rfl
    have h2 : stackOrg (.opw k) j i = linkOrg k.p (thetaOf k.p j) i :=
      Iso.transformPoint_one _
    show PoseMoved (stackRot (.opw k) j i (e * k.p.signs.get i)) (stackOrg (.opw k) j i)
      (forward k.p j) (forward k.p (j.set i (j.get i + e)))
    rw [h1, h2]
    exact ⟨hm, ht⟩
  | .tool k t, hp, hw, j, i, hi, e =>
    (stack_moved k hp hw.1 j hi e).tool (Kin.forward_unit k hw.1 _) (Kin.forward_unit k hw.1 _) t
  | .frame k f, hp, hw, j, i, hi, e =>
    (stack_moved k hp hw.1 j hi e).tool (Kin.forward_unit k hw.1 _) (Kin.forward_unit k hw.1 _) f
  | .base k b, hp, hw, j, i, hi, e => by
    have ih := (stack_moved k hp hw.1 j hi e).base b hw.2
    have hB := Kin.baseOf_unit k hw.1
    have h1 : stackRot (.base k b) j i (e * k.core.p.signs.get i) =
        JacCols.conj b.q.toMat (stackRot k j i (e * k.core.p.signs.get i)) := by
      show JacCols.conj (b.q.mul k.baseOf.q).toMat _ = JacCols.conj b.q.toMat (JacCols.conj _ _)
      rw [conj_conj, Quat.toMat_mul]
      rfl
    have h2 : stackOrg (.base k b) j i = b.transformPoint (stackOrg k j i) :=
      Iso.transformPoint_mul b k.baseOf hw.2 hB _
    show PoseMoved (stackRot (.base k b) j i (e * k.core.p.signs.get i)) (stackOrg (.base k b) j i)
      (b.mul (k.forward j)) (b.mul (k.forward (j.set i (j.get i + e))))
    rw [h1, h2]
    exact ih
  | .shape k _, hp, hw, j, i, hi, e => stack_moved k hp hw j hi e
  | .para _ _ _ _, hp, _, _, _, _, _ => hp.elim

/-! ### 5. Columns of the numeric Jacobian of a stack -/

/-- [stack, all joints] linear part of column `i`: `((E' − 1)(t' − o'))/ε` -/
theorem stack_column_lin (k : Kin ℝ) (hp : k.noPara) (hw : k.WF) (j : J6 ℝ) {i : Nat} (hi : i < 6)
    (e : ℝ) :
    (jacobianColumn k.forward j e i).lin =
      (((stackRot k j i (e * k.core.p.signs.get i)).mulVec ((k.forward j).t.sub (stackOrg k j i))).sub
        ((k.forward j).t.sub (stackOrg k j i))).divs e :=
  column_lin_of_moved k.forward j e i (stack_moved k hp hw j hi e)

/-- [stack, all joints] angular part of column `i`: exactly `signᵢ · R_B aᵢ` for `e ≠ 0`,
`|e · signᵢ| < π` -/
theorem stack_column_ang (k : Kin ℝ) (hp : k.noPara) (hw : k.WF) (j : J6 ℝ) {i : Nat} (hi : i < 6)
    (e : ℝ) (he : e ≠ 0) (hs : |e * k.core.p.signs.get i| < Real.pi) :
    (jacobianColumn k.forward j e i).ang = (stackAxis k j i).scale (k.core.p.signs.get i) := by
  rw [column_ang_of_moved k.forward j e i (stack_moved k hp hw j hi e) (Kin.forward_unit k hw _)
    (Kin.forward_unit k hw _) (stackAxis k j i) (stackAxis_normSq k hw j i) _ hs
    (stackRot_eq_toMat k hw j i _)]
  apply V3.ext' <;> simp only [V3.divs, V3.scale] <;> field_simp

/-! ### 6. Slope limit of the conjugated rotation -/

/-- a fixed matrix applied to a componentwise convergent vector function converges componentwise -/
theorem tendsto_mulVec {l : Filter ℝ} {f : ℝ → V3 ℝ} {L : V3 ℝ} (m : M3 ℝ)
    (hx : Filter.Tendsto (fun e => (f e).x) l (nhds L.x))
    (hy : Filter.Tendsto (fun e => (f e).y) l (nhds L.y))
    (hz : Filter.Tendsto (fun e => (f e).z) l (nhds L.z)) :
    Filter.Tendsto (fun e => (m.mulVec (f e)).x) l (nhds (m.mulVec L).x) ∧
    Filter.Tendsto (fun e => (m.mulVec (f e)).y) l (nhds (m.mulVec L).y) ∧
    Filter.Tendsto (fun e => (m.mulVec (f e)).z) l (nhds (m.mulVec L).z) :=
  ⟨((hx.const_mul m.m00).add (hy.const_mul m.m01)).add (hz.const_mul m.m02),
   ((hx.const_mul m.m10).add (hy.const_mul m.m11)).add (hz.const_mul m.m12),
   ((hx.const_mul m.m20).add (hy.const_mul m.m21)).add (hz.const_mul m.m22)⟩

/-- the cross product with the base-moved axis is the base rotation of the cross product -/
theorem stackAxis_cross (k : Kin ℝ) (hw : k.WF) (j : J6 ℝ) (i : Nat) (v : V3 ℝ) :
    (stackAxis k j i).cross v =
      k.baseOf.q.toMat.mulVec ((worldAxis (thetaOf k.core.p j) i).cross
        (k.baseOf.q.toMat.transpose.mulVec v)) := by
  have hB := IsRot_baseOf k hw
  rw [← isRot_cross_mulVec hB, mul_transpose_mulVec hB]
  rfl

/-- [stack] the finite difference of `E'(ε s) v` in `ε` converges to `s · (R_B a × v)`, componentwise;
obtained from `jointRot_slope_tendsto` by conjugation -/
theorem stackRot_slope_tendsto (k : Kin ℝ) (hw : k.WF) (j : J6 ℝ) (i : Nat) (v : V3 ℝ) (s : ℝ) :
    Filter.Tendsto (fun e : ℝ => ((((stackRot k j i (e * s)).mulVec v).sub v).divs e).x)
      (nhdsWithin 0 {0}ᶜ) (nhds (((stackAxis k j i).cross v).scale s).x) ∧
    Filter.Tendsto (fun e : ℝ => ((((stackRot k j i (e * s)).mulVec v).sub v).divs e).y)
      (nhdsWithin 0 {0}ᶜ) (nhds (((stackAxis k j i).cross v).scale s).y) ∧
    Filter.Tendsto (fun e : ℝ => ((((stackRot k j i (e * s)).mulVec v).sub v).divs e).z)
      (nhdsWithin 0 {0}ᶜ) (nhds (((stackAxis k j i).cross v).scale s).z) := by
  have hB := IsRot_baseOf k hw
  obtain ⟨hx, hy, hz⟩ := jointRot_slope_tendsto (thetaOf k.core.p j) i
    (k.baseOf.q.toMat.transpose.mulVec v) s
  have h := tendsto_mulVec k.baseOf.q.toMat hx hy hz
  have hf : ∀ e : ℝ, (((stackRot k j i (e * s)).mulVec v).sub v).divs e =
      k.baseOf.q.toMat.mulVec
        ((((jointRot (thetaOf k.core.p j) i (e * s)).mulVec
          (k.baseOf.q.toMat.transpose.mulVec v)).sub (k.baseOf.q.toMat.transpose.mulVec v)).divs e) :=
    fun e => conj_slope _ _ hB v e
  have hL : ((stackAxis k j i).cross v).scale s =
      k.baseOf.q.toMat.mulVec (((worldAxis (thetaOf k.core.p j) i).cross
        (k.baseOf.q.toMat.transpose.mulVec v)).scale s) := by
    rw [stackAxis_cross k hw, M3.mulVec_scale]
  simp only [hf, hL]
  exact h

/-! ### 7. Rodrigues' formula and the finite-difference error for the conjugated rotation -/

/-- [stack] Rodrigues' formula for the rotation about the base-moved axis; obtained from
`jointRot_rodrigues` by conjugation -/
theorem stackRot_rodrigues (k : Kin ℝ) (hw : k.WF) (j : J6 ℝ) (i : Nat) (φ : ℝ) (v : V3 ℝ) :
    (stackRot k j i φ).mulVec v =
      (v.add (((stackAxis k j i).cross v).scale (Real.sin φ))).add
        (((stackAxis k j i).cross ((stackAxis k j i).cross v)).scale (1 - Real.cos φ)) := by
  have hB := IsRot_baseOf k hw
  have h2 : (stackAxis k j i).cross ((stackAxis k j i).cross v) =
      k.baseOf.q.toMat.mulVec ((worldAxis (thetaOf k.core.p j) i).cross
        ((worldAxis (thetaOf k.core.p j) i).cross (k.baseOf.q.toMat.transpose.mulVec v))) := by
    rw [stackAxis_cross k hw j i v]
    unfold stackAxis
    rw [isRot_cross_mulVec hB]
  rw [h2, stackAxis_cross k hw j i v]
  unfold stackRot
  rw [conj_mulVec, jointRot_rodrigues, M3.mulVec_add, M3.mulVec_add, M3.mulVec_scale,
    M3.mulVec_scale, mul_transpose_mulVec hB]

/-- the finite-difference error of a Rodrigues rotation about a unit axis `a`, componentwise:
`|((E(ε s) v − v)/ε − s · a × v)_c| ≤ |ε| (s²/2 + |ε| |s|³/6) ‖v‖` -/
theorem rodrigues_fd_error (a v : V3 ℝ) (ha : a.normSq = 1) (E : M3 ℝ) (e s : ℝ) (he : e ≠ 0)
    (hE : E.mulVec v = (v.add ((a.cross v).scale (Real.sin (e * s)))).add
      ((a.cross (a.cross v)).scale (1 - Real.cos (e * s)))) :
    |(((E.mulVec v).sub v).divs e).x - ((a.cross v).scale s).x| ≤
      |e| * (s ^ 2 / 2 + |e| * |s| ^ 3 / 6) * v.norm ∧
    |(((E.mulVec v).sub v).divs e).y - ((a.cross v).scale s).y| ≤
      |e| * (s ^ 2 / 2 + |e| * |s| ^ 3 / 6) * v.norm ∧
    |(((E.mulVec v).sub v).divs e).z - ((a.cross v).scale s).z| ≤
      |e| * (s ^ 2 / 2 + |e| * |s| ^ 3 / 6) * v.norm := by
  have n1 := V3.norm_cross_le ha v
  have n2 := (V3.norm_cross_le ha (a.cross v)).trans n1
  obtain ⟨px, py, pz⟩ := V3.abs_comp_le_norm (a.cross v)
  obtain ⟨qx, qy, qz⟩ := V3.abs_comp_le_norm (a.cross (a.cross v))
  have hd : ((E.mulVec v).sub v).divs e =
      (((a.cross v).scale (Real.sin (e * s))).add
        ((a.cross (a.cross v)).scale (1 - Real.cos (e * s)))).divs e := by
    rw [hE]
    apply V3.ext' <;> simp only [V3.divs, V3.sub, V3.add, V3.scale] <;> ring
  rw [hd]
  refine ⟨?_, ?_, ?_⟩
  · have h := fd_error_bound e s _ _ _ he (px.trans n1) (qx.trans n2)
    simp only [V3.divs, V3.add, V3.scale]
    rw [mul_comm _ (Real.sin _), mul_comm _ (1 - Real.cos _)]
    exact h
  · have h := fd_error_bound e s _ _ _ he (py.trans n1) (qy.trans n2)
    simp only [V3.divs, V3.add, V3.scale]
    rw [mul_comm _ (Real.sin _), mul_comm _ (1 - Real.cos _)]
    exact h
  · have h := fd_error_bound e s _ _ _ he (pz.trans n1) (qz.trans n2)
    simp only [V3.divs, V3.add, V3.scale]
    rw [mul_comm _ (Real.sin _), mul_comm _ (1 - Real.cos _)]
    exact h

/-- [stack, all joints] the linear part of column `i` differs from the geometric column
`s · (R_B a) × (t' − o')` by at most `|ε| (s²/2 + |ε| |s|³/6) ‖t' − o'‖` in every component -/
theorem stack_column_lin_error (k : Kin ℝ) (hp : k.noPara) (hw : k.WF) (j : J6 ℝ) {i : Nat}
    (hi : i < 6) (e : ℝ) (he : e ≠ 0) :
    |(jacobianColumn k.forward j e i).lin.x - (((stackAxis k j i).cross
        ((k.forward j).t.sub (stackOrg k j i))).scale (k.core.p.signs.get i)).x| ≤
      |e| * ((k.core.p.signs.get i) ^ 2 / 2 + |e| * |k.core.p.signs.get i| ^ 3 / 6) *
        ((k.forward j).t.sub (stackOrg k j i)).norm ∧
    |(jacobianColumn k.forward j e i).lin.y - (((stackAxis k j i).cross
        ((k.forward j).t.sub (stackOrg k j i))).scale (k.core.p.signs.get i)).y| ≤
      |e| * ((k.core.p.signs.get i) ^ 2 / 2 + |e| * |k.core.p.signs.get i| ^ 3 / 6) *
        ((k.forward j).t.sub (stackOrg k j i)).norm ∧
    |(jacobianColumn k.forward j e i).lin.z - (((stackAxis k j i).cross
        ((k.forward j).t.sub (stackOrg k j i))).scale (k.core.p.signs.get i)).z| ≤
      |e| * ((k.core.p.signs.get i) ^ 2 / 2 + |e| * |k.core.p.signs.get i| ^ 3 / 6) *
        ((k.forward j).t.sub (stackOrg k j i)).norm := by
  rw [stack_column_lin k hp hw j hi e]
  exact rodrigues_fd_error _ _ (stackAxis_normSq k hw j i) _ e _ he
    (stackRot_rodrigues k hw j i _ _)

/-! ### 8. The link poses of a stack (`Kin.links`) carry the base-moved joint axes and origins -/

/-- stacks without a `Frame` wrapper (a `Frame` multiplies the LAST link pose by the frame transform,
so that pose no longer sits on the axis of joint 6) -/
def frameFree : Kin ℝ → Prop
  | .opw _ => True
  | .tool i _ => frameFree i
  | .base i _ => frameFree i
  | .frame _ _ => False
  | .para i _ _ _ => frameFree i
  | .shape i _ => frameFree i

theorem stackOrg_base (k : Kin ℝ) (hw : k.WF) (b : Iso ℝ) (hb : b.q.normSq = 1) (j : J6 ℝ) (i : Nat) :
    stackOrg (.base k b) j i = b.transformPoint (stackOrg k j i) :=
  Iso.transformPoint_mul b k.baseOf hb (Kin.baseOf_unit k hw) _

theorem getElem?_frame_lt (p1 p2 p3 p4 p5 p6 p6' : Iso ℝ) {i : Nat} (hi : i < 5) :
    [p1, p2, p3, p4, p5, p6'][i]? = [p1, p2, p3, p4, p5, p6][i]? := by
  have : i = 0 ∨ i = 1 ∨ i = 2 ∨ i = 3 ∨ i = 4 := by omega
  rcases this with rfl | rfl | rfl | rfl | rfl <;> rfl

/-- [stack, all joints] link `i` of `k.links j` is a unit quaternion + translation whose translation is
`stackOrg` and whose rotation matrix is `R_B · linkRot`; for the last link (`i = 5`) the stack must not
contain a `Frame` -/
theorem stack_link : ∀ (k : Kin ℝ), k.noPara → k.WF → ∀ (j : J6 ℝ) {i : Nat}, i < 6 →
    (i < 5 ∨ frameFree k) →
    ∃ l : Iso ℝ, (k.links j)[i]? = some l ∧
      LinkIs l (k.baseOf.q.toMat.mul (linkRot (thetaOf k.core.p j) i)) (stackOrg k j i)
  | .opw k, _, _, j, i, hi, _ => by
    obtain ⟨l, hl, h⟩ := chain_link k.p j hi
    refine ⟨l, hl, h.unit, ?_, ?_⟩
    · show l.q.toMat = (Quat.one : Quat ℝ).toMat.mul _
      rw [Quat.toMat_one, M3.one_mul, h.rot]
      rfl
    · rw [h.org]
      exact (Iso.transformPoint_one _).symm
  | .tool k _, hp, hw, j, i, hi, hf => stack_link k hp hw.1 j hi hf
  | .shape k _, hp, hw, j, i, hi, hf => stack_link k hp hw j hi hf
  | .para _ _ _ _, hp, _, _, _, _, _ => hp.elim
  | .base k b, hp, hw, j, i, hi, hf => by
    obtain ⟨l, hl, h⟩ := stack_link k hp hw.1 j hi hf
    refine ⟨b.mul l, ?_, Iso.mul_unit b l hw.2 h.unit, ?_, ?_⟩
    · show ((k.links j).map (fun x => b.mul x))[i]? = some (b.mul l)
      rw [List.getElem?_map, hl]
      rfl
    · show (b.q.mul l.q).toMat = (b.q.mul k.baseOf.q).toMat.mul _
      rw [Quat.toMat_mul, Quat.toMat_mul, h.rot, M3.mul_assoc]
      rfl
    · rw [stackOrg_base k hw.1 b hw.2]
      show b.t.add (b.q.rotate l.t) = (b.q.rotate (stackOrg k j i)).add b.t
      rw [h.org, V3.add_comm]
  | .frame k f, hp, hw, j, i, hi, hf => by
    have hi5 : i < 5 := by
      rcases hf with h | h
      · exact h
      · exact h.elim
    obtain ⟨l, hl, h⟩ := stack_link k hp hw.1 j hi (Or.inl hi5)
    refine ⟨l, ?_, h⟩
    simp only [Kin.links]
    split
    · rename_i p1 p2 p3 p4 p5 p6 heq
      rw [heq] at hl
      rw [getElem?_frame_lt p1 p2 p3 p4 p5 p6 _ hi5]
      exact hl
    · exact hl

/-- [stack, all joints] the geometric data read off the link poses: origin = translation of link `i`,
axis = rotation of link `i` applied to the joint's local axis -/
theorem stack_link_axis_origin (k : Kin ℝ) (hp : k.noPara) (hw : k.WF) (j : J6 ℝ) {i : Nat}
    (hi : i < 6) (hf : i < 5 ∨ frameFree k) :
    ∃ l : Iso ℝ, (k.links j)[i]? = some l ∧ l.q.normSq = 1 ∧ l.t = stackOrg k j i ∧
      l.q.rotate (localAxis i) = stackAxis k j i := by
  obtain ⟨l, hl, h⟩ := stack_link k hp hw j hi hf
  refine ⟨l, hl, h.unit, h.org, ?_⟩
  rw [Quat.rotate_eq_mulVec _ h.unit, h.rot, M3.mulVec_mulVec, linkRot_mulVec_axis _ hi]
  rfl

end Opw.JacStack
