/-
  Tie between the model and the formulas translated from the CURRENT source text
  (`Generated/Src.lean`, rewritten by `tools/rs2lean.py` on every run): the hand-written
  definitions the property theorems are about are the source's formulas.
  Generic in the number type, so the tie also holds of the `Float` reading.
-/
import OpwVerif.Generated.Src
namespace Opw
variable {R : Type} [OpwNum R]

/-- sign/offset map of `forward` = `thetaOf` -/
theorem thetaOfSrc_eq (p : Params R) (j : J6 R) : Src.thetaOfSrc p j = thetaOf p j := rfl

/-- closed form of `forward` (rotation `r_0c * r_ce` and translation) = `forwardTheta` -/
theorem forwardThetaSrc_eq (p : Params R) (q : J6 R) : Src.forwardThetaSrc p q = forwardTheta p q := rfl

/-- the eight raw θ vectors of `inverse_intern` = `thetaCandidates` -/
theorem thetaCandidatesSrc_eq (p : Params R) (pose : Iso R) :
    Src.thetaCandidatesSrc p pose = thetaCandidates p pose := rfl

end Opw
