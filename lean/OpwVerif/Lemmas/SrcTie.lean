/-
  Tie between the model and the formulas translated from the CURRENT source text
  (`Generated/Src.lean`, rewritten by `tools/rs2lean.py` on every run): the hand-written
  definitions the property theorems are about are the source's formulas.
  Generic in the number type, so the tie also holds of the `Float` reading.
-/
import OpwVerif.Generated.Src
namespace Opw
variable {R : Type} [OpwNum R]

/-- sign/offset map of `forward` = `thetaOf` -/
theorem thetaOfSrc_eq (p : Params R) (j : J6 R) : Src.thetaOfSrc p j = thetaOf p j := rfl

/-- closed form of `forward` (rotation `r_0c * r_ce` and translation) = `forwardTheta` -/
theorem forwardThetaSrc_eq (p : Params R) (q : J6 R) : Src.forwardThetaSrc p q = forwardTheta p q := rfl

/-- the eight raw θ vectors of `inverse_intern` = `thetaCandidates` -/
theorem thetaCandidatesSrc_eq (p : Params R) (pose : Iso R) :
    Src.thetaCandidatesSrc p pose = thetaCandidates p pose := rfl

/-- the sign/offset map written a second time in `forward_with_joint_poses` = `thetaOf` -/
theorem thetaOfChainSrc_eq (p : Params R) (j : J6 R) : Src.thetaOfChainSrc p j = thetaOf p j := rfl

/-- the six link poses of `forward_with_joint_poses` = `chain` -/
theorem chainSrc_eq (p : Params R) (j : J6 R) : Src.chainThetaSrc p (Src.thetaOfChainSrc p j) = chain p j := rfl

/-- the eight raw θ1..θ5 vectors of `inverse_intern_5_dof` (the hand-duplicated copy) are those of `inverse_intern` -/
theorem thetaCandidates5Src_eq (p : Params R) (pose : Iso R) :
    Src.thetaCandidates5Src p pose = (thetaCandidates p pose).map (fun t => { t with j6 := 0 }) := rfl

/-- `inverse_intern_5_dof` of the model, written with the table translated from the source -/
theorem inverseIntern5_eq_src (p : Params R) (pose : Iso R) (j6 : R) :
    inverseIntern5 p pose j6 =
      (Src.thetaCandidates5Src p pose).filterMap (fun t => finishCandidate5 p pose j6 (jointsOf p t)) := by
  rw [thetaCandidates5Src_eq, List.filterMap_map]
  rfl

end Opw
