/-
  Helper lemmas for C05 (wrist singularity) and C02 (wrist-flip closure of the answer set).
  Real-arithmetic reading of the model text of `Kin.lean` (`R := ℝ`).

  Contents
  * `remEuclid` over ℝ is the floor remainder (both `fmod` branches);
  * whole-turn congruence `TurnEq` on reals and on joint vectors;
  * `normPi` changes its argument by whole turns (no range assumption);
  * rotations preserve dot products and the length of cross products (Lagrange identity);
  * `sin`/`cos` are invariant under `x ↦ x + 2πk`.
-/
import OpwVerif.Kin
import OpwVerif.Real
import OpwVerif.Lemmas.GeomReal
import OpwVerif.Lemmas.OfMat
import OpwVerif.Lemmas.Fk
import OpwVerif.Lemmas.Chain
import Mathlib.Tactic
namespace Opw.Wrist
open Opw

-- `ofNatLit_real` and `Nat.cast_ofNat` rewrite numerals back and forth; keep it out of `simp` here
attribute [-simp] Opw.ofNatLit_real

/-! ### `fmod`, `rem_euclid` at ℝ -/

theorem nfmod_real (x y : ℝ) :
    nfmod x y = if 0 ≤ x / y then x - y * ⌊x / y⌋ else x - y * ⌈x / y⌉ := rfl

/-- floor remainder: lies in `[0, y)` -/
theorem floorRem_nonneg (x : ℝ) {y : ℝ} (hy : 0 < y) : 0 ≤ x - y * ⌊x / y⌋ := by
  have h := Int.floor_le (x / y)
  have : y * (⌊x / y⌋ : ℝ) ≤ x := by
    calc y * (⌊x / y⌋ : ℝ) ≤ y * (x / y) := mul_le_mul_of_nonneg_left h hy.le
      _ = x := by field_simp
  linarith

theorem floorRem_lt (x : ℝ) {y : ℝ} (hy : 0 < y) : x - y * ⌊x / y⌋ < y := by
  have h := Int.lt_floor_add_one (x / y)
  have : x < y * ((⌊x / y⌋ : ℝ) + 1) := by
    calc x = y * (x / y) := by field_simp
      _ < y * ((⌊x / y⌋ : ℝ) + 1) := mul_lt_mul_of_pos_left h hy
  linarith

/-- Rust `f64::rem_euclid` over ℝ, positive modulus: `v − y⌊v/y⌋`, whichever `fmod` branch is
taken (truncation towards zero for a negative quotient, then the `+ |y|` correction). -/
theorem remEuclid_real (v : ℝ) {y : ℝ} (hy : 0 < y) : remEuclid v y = v - y * ⌊v / y⌋ := by
  have key : remEuclid v y =
      if (if 0 ≤ v / y then v - y * ⌊v / y⌋ else v - y * ⌈v / y⌉) < 0
      then (if 0 ≤ v / y then v - y * ⌊v / y⌋ else v - y * ⌈v / y⌉) + |y|
      else (if 0 ≤ v / y then v - y * ⌊v / y⌋ else v - y * ⌈v / y⌉) := by
    unfold remEuclid
    simp only [nfmod_real, nabs_real, lit0]
  rw [key, abs_of_pos hy]
  by_cases hq : 0 ≤ v / y
  · rw [if_pos hq, if_neg (not_lt.mpr (floorRem_nonneg v hy))]
  · rw [if_neg hq]
    have hxy : y * (v / y) = v := by field_simp
    by_cases hr : v - y * (⌈v / y⌉ : ℝ) < 0
    · rw [if_pos hr]
      -- the quotient is not an integer: ⌊q⌋ = ⌈q⌉ − 1
      have h1 : v / y < (⌈v / y⌉ : ℝ) := by
        by_contra hc
        have := mul_le_mul_of_nonneg_left (not_lt.mp hc) hy.le
        rw [hxy] at this; linarith
      have h2 := Int.ceil_lt_add_one (v / y)
      have hf : ⌊v / y⌋ = ⌈v / y⌉ - 1 := by
        rw [Int.floor_eq_iff]; push_cast; constructor <;> linarith
      rw [hf]; push_cast; ring
    · rw [if_neg hr]
      -- the quotient is an integer: ⌊q⌋ = ⌈q⌉
      have h1 : (⌈v / y⌉ : ℝ) ≤ v / y := by
        by_contra hc
        have := mul_lt_mul_of_pos_left (not_le.mp hc) hy
        rw [hxy] at this; linarith
      have h2 : v / y = (⌈v / y⌉ : ℝ) := le_antisymm (Int.le_ceil _) h1
      have hf : ⌊v / y⌋ = ⌈v / y⌉ := by
        conv_lhs => rw [h2]
        exact Int.floor_intCast _
      rw [hf]

theorem remEuclid_twoPi (v : ℝ) :
    remEuclid v (2 * (pi : ℝ)) = v - 2 * Real.pi * ⌊v / (2 * Real.pi)⌋ := by
  have h : (2 * (pi : ℝ)) = 2 * Real.pi := by rw [lit2, pi_def_real]
  rw [h, remEuclid_real v Real.two_pi_pos]

/-! ### Whole-turn congruence -/

/-- `a` and `b` differ by a whole number of turns -/
def TurnEq (a b : ℝ) : Prop := ∃ k : ℤ, a = b + 2 * Real.pi * k

theorem TurnEq.refl (a : ℝ) : TurnEq a a := ⟨0, by simp⟩
theorem TurnEq.of_eq {a b : ℝ} (h : a = b) : TurnEq a b := h ▸ TurnEq.refl a
theorem TurnEq.symm {a b : ℝ} : TurnEq a b → TurnEq b a := by
  rintro ⟨k, hk⟩; exact ⟨-k, by rw [hk]; push_cast; ring⟩
theorem TurnEq.trans {a b c : ℝ} : TurnEq a b → TurnEq b c → TurnEq a c := by
  rintro ⟨k, hk⟩ ⟨j, hj⟩; exact ⟨k + j, by rw [hk, hj]; push_cast; ring⟩
theorem TurnEq.neg {a b : ℝ} : TurnEq a b → TurnEq (-a) (-b) := by
  rintro ⟨k, hk⟩; exact ⟨-k, by rw [hk]; push_cast; ring⟩
theorem TurnEq.add_const {a b : ℝ} (c : ℝ) : TurnEq a b → TurnEq (a + c) (b + c) := by
  rintro ⟨k, hk⟩; exact ⟨k, by rw [hk]; ring⟩
theorem TurnEq.sub_const {a b : ℝ} (c : ℝ) : TurnEq a b → TurnEq (a - c) (b - c) := by
  rintro ⟨k, hk⟩; exact ⟨k, by rw [hk]; ring⟩
/-- multiplying by a sign correction `±1` keeps the congruence -/
theorem TurnEq.mul_sign {a b s : ℝ} (hs : s = 1 ∨ s = -1) : TurnEq a b → TurnEq (a * s) (b * s) := by
  rintro ⟨k, hk⟩
  rcases hs with rfl | rfl
  · exact ⟨k, by rw [hk]; ring⟩
  · exact ⟨-k, by rw [hk]; push_cast; ring⟩
theorem TurnEq.add_turn (a : ℝ) (k : ℤ) : TurnEq (a + 2 * Real.pi * k) a := ⟨k, rfl⟩

theorem TurnEq.sin_eq {a b : ℝ} : TurnEq a b → Real.sin a = Real.sin b := by
  rintro ⟨k, hk⟩
  rw [hk, show b + 2 * Real.pi * k = b + k * (2 * Real.pi) by ring, Real.sin_add_int_mul_two_pi]
theorem TurnEq.cos_eq {a b : ℝ} : TurnEq a b → Real.cos a = Real.cos b := by
  rintro ⟨k, hk⟩
  rw [hk, show b + 2 * Real.pi * k = b + k * (2 * Real.pi) by ring, Real.cos_add_int_mul_two_pi]
theorem TurnEq.add {a b c d : ℝ} : TurnEq a b → TurnEq c d → TurnEq (a + c) (b + d) := by
  rintro ⟨k, hk⟩ ⟨j, hj⟩; exact ⟨k + j, by rw [hk, hj]; push_cast; ring⟩

/-- componentwise congruence of joint vectors -/
def J6TurnEq (a b : J6 ℝ) : Prop :=
  TurnEq a.j1 b.j1 ∧ TurnEq a.j2 b.j2 ∧ TurnEq a.j3 b.j3 ∧
  TurnEq a.j4 b.j4 ∧ TurnEq a.j5 b.j5 ∧ TurnEq a.j6 b.j6

theorem J6TurnEq.refl (a : J6 ℝ) : J6TurnEq a a :=
  ⟨.refl _, .refl _, .refl _, .refl _, .refl _, .refl _⟩
theorem J6TurnEq.symm {a b : J6 ℝ} (h : J6TurnEq a b) : J6TurnEq b a :=
  ⟨h.1.symm, h.2.1.symm, h.2.2.1.symm, h.2.2.2.1.symm, h.2.2.2.2.1.symm, h.2.2.2.2.2.symm⟩
theorem J6TurnEq.trans {a b c : J6 ℝ} (h : J6TurnEq a b) (g : J6TurnEq b c) : J6TurnEq a c :=
  ⟨h.1.trans g.1, h.2.1.trans g.2.1, h.2.2.1.trans g.2.2.1, h.2.2.2.1.trans g.2.2.2.1,
   h.2.2.2.2.1.trans g.2.2.2.2.1, h.2.2.2.2.2.trans g.2.2.2.2.2⟩

/-! ### `normPi` shifts by whole turns -/

theorem loopDown_succ (n : ℕ) (x : ℝ) :
    loopDown (n + 1) x = if x > Real.pi then loopDown n (x - 2 * Real.pi) else x := by
  show (if x > pi then loopDown n (x - OfNat.ofNat 2 * pi) else x) = _
  rw [lit2, pi_def_real]
theorem loopUp_succ (n : ℕ) (x : ℝ) :
    loopUp (n + 1) x = if x < -Real.pi then loopUp n (x + 2 * Real.pi) else x := by
  show (if x < -pi then loopUp n (x + OfNat.ofNat 2 * pi) else x) = _
  rw [lit2, pi_def_real]

theorem loopDown_turn (n : ℕ) (x : ℝ) : ∃ k : ℤ, loopDown n x = x + 2 * Real.pi * k := by
  induction n generalizing x with
  | zero => exact ⟨0, by simp [loopDown]⟩
  | succ n ih =>
    rw [loopDown_succ]
    split_ifs with hx
    · obtain ⟨k, hk⟩ := ih (x - 2 * Real.pi)
      exact ⟨k - 1, by rw [hk]; push_cast; ring⟩
    · exact ⟨0, by simp⟩

theorem loopUp_turn (n : ℕ) (x : ℝ) : ∃ k : ℤ, loopUp n x = x + 2 * Real.pi * k := by
  induction n generalizing x with
  | zero => exact ⟨0, by simp [loopUp]⟩
  | succ n ih =>
    rw [loopUp_succ]
    split_ifs with hx
    · obtain ⟨k, hk⟩ := ih (x + 2 * Real.pi)
      exact ⟨k + 1, by rw [hk]; push_cast; ring⟩
    · exact ⟨0, by simp⟩

/-- `normPi x` differs from `x` by whole turns, whatever `x` (even when the fuel runs out) -/
theorem normPi_turn (x : ℝ) : ∃ k : ℤ, normPi x = x + 2 * Real.pi * k := by
  obtain ⟨k1, h1⟩ := loopDown_turn normFuel x
  obtain ⟨k2, h2⟩ := loopUp_turn normFuel (loopDown normFuel x)
  exact ⟨k1 + k2, by unfold normPi normPiF; rw [h2, h1]; push_cast; ring⟩

theorem normPi_turnEq (x : ℝ) : TurnEq (normPi x) x := normPi_turn x

/-! ### Rotations, dot and cross products -/

/-- Lagrange's identity `|a × b|² = |a|²|b|² − (a·b)²` -/
theorem V3.lagrange (a b : V3 ℝ) :
    (V3.cross a b).normSq = a.normSq * b.normSq - V3.dot a b * V3.dot a b := by
  simp only [V3.normSq, V3.dot, V3.cross]; ring

/-- a rotation matrix preserves dot products (uses only `mᵀ m = 1`) -/
theorem _root_.Opw.IsRot.dot_mulVec {m : M3 ℝ} (h : IsRot m) (u v : V3 ℝ) :
    V3.dot (m.mulVec u) (m.mulVec v) = V3.dot u v := by
  have e := h.eqs
  simp only [V3.dot, M3.mulVec]
  linear_combination (u.x * v.x) * e.hc00 + (u.y * v.y) * e.hc11 + (u.z * v.z) * e.hc22
    + (u.x * v.y + u.y * v.x) * e.hc01 + (u.x * v.z + u.z * v.x) * e.hc02
    + (u.y * v.z + u.z * v.y) * e.hc12

/-- a rotation matrix preserves the length of cross products -/
theorem _root_.Opw.IsRot.cross_normSq {m : M3 ℝ} (h : IsRot m) (a b : V3 ℝ) :
    (V3.cross (m.mulVec a) (m.mulVec b)).normSq = (V3.cross a b).normSq := by
  rw [V3.lagrange, V3.lagrange, h.dot_mulVec, h.normSq_mulVec, h.normSq_mulVec]

theorem IsRot_rot4 (q : J6 ℝ) : IsRot (rot4 q) := by
  unfold rot4 rot3 rot2 rot1
  exact (((IsRot_rz _).mul (IsRot_ry _)).mul (IsRot_ry _)).mul (IsRot_rz _)

theorem rz_mulVec_ez (s c : ℝ) : (M3.rz s c).mulVec V3.ez = V3.ez := by
  apply V3.ext' <;> simp [M3.rz, M3.mulVec, V3.ez, lit0, lit1]

theorem ry_mulVec_ez (s c : ℝ) : (M3.ry s c).mulVec V3.ez = ⟨s, 0, c⟩ := by
  apply V3.ext' <;> simp [M3.ry, M3.mulVec, V3.ez, lit0, lit1]

/-- the joint-6 axis in the frame of link 4: `rot6 e_z = rot4 (sin θ5, 0, cos θ5)` -/
theorem rot6_mulVec_ez (q : J6 ℝ) :
    (rot6 q).mulVec V3.ez = (rot4 q).mulVec ⟨Real.sin q.j5, 0, Real.cos q.j5⟩ := by
  unfold rot6 rot5
  rw [M3.mulVec_mulVec, M3.mulVec_mulVec, rz_mulVec_ez, ry_mulVec_ez]

/-- `|a4 × a6|² = sin² θ5` -/
theorem cross_axes_normSq (q : J6 ℝ) :
    (V3.cross ((rot4 q).mulVec V3.ez) ((rot6 q).mulVec V3.ez)).normSq = Real.sin q.j5 ^ 2 := by
  rw [rot6_mulVec_ez, (IsRot_rot4 q).cross_normSq]
  simp only [V3.normSq, V3.dot, V3.cross, V3.ez, lit0, lit1]
  ring

/-! ### Sign corrections -/

/-- a sign correction is `±1` -/
def IsSign (s : ℝ) : Prop := s = 1 ∨ s = -1

theorem IsSign.mul_self {s : ℝ} (h : IsSign s) : s * s = 1 := by
  rcases h with rfl | rfl <;> norm_num
theorem IsSign.abs {s : ℝ} (h : IsSign s) : |s| = 1 := by
  rcases h with rfl | rfl <;> norm_num

end Opw.Wrist
