/-
  Tie between the wrapper model (`Wrappers.lean`) and the `Kinematics` implementations of Tool, Base, Frame and
  Parallelogram translated from the CURRENT source text (`Generated/SrcWrap.lean`, rewritten by
  `tools/rs2lean_wrap.py` on every run).  Generic in the number type.
-/
import OpwVerif.Generated.SrcWrap
namespace Opw
variable {R : Type} [OpwNum R]

/-! ### Tool -/
theorem toolInverse_eq (i : Kin R) (t pose : Iso R) : SrcWrap.toolInverse i t pose = (Kin.tool i t).inverse pose := rfl
theorem toolInverseContinuing_eq (i : Kin R) (t pose : Iso R) (prev : J6 R) :
    SrcWrap.toolInverseContinuing i t pose prev = (Kin.tool i t).inverseContinuing pose prev := rfl
theorem toolInverse5dof_eq (i : Kin R) (t pose : Iso R) (j6 : R) :
    SrcWrap.toolInverse5dof i t pose j6 = (Kin.tool i t).inverse5dof pose j6 := rfl
theorem toolInverseContinuing5dof_eq (i : Kin R) (t pose : Iso R) (prev : J6 R) :
    SrcWrap.toolInverseContinuing5dof i t pose prev = (Kin.tool i t).inverseContinuing5dof pose prev := rfl
theorem toolForward_eq (i : Kin R) (t : Iso R) (q : J6 R) : SrcWrap.toolForward i t q = (Kin.tool i t).forward q := rfl
theorem toolLinks_eq (i : Kin R) (t : Iso R) (q : J6 R) : SrcWrap.toolLinks i t q = (Kin.tool i t).links q := rfl

/-! ### Base -/
theorem baseInverse_eq (i : Kin R) (b pose : Iso R) : SrcWrap.baseInverse i b pose = (Kin.base i b).inverse pose := rfl
theorem baseInverseContinuing_eq (i : Kin R) (b pose : Iso R) (prev : J6 R) :
    SrcWrap.baseInverseContinuing i b pose prev = (Kin.base i b).inverseContinuing pose prev := rfl
theorem baseInverse5dof_eq (i : Kin R) (b pose : Iso R) (j6 : R) :
    SrcWrap.baseInverse5dof i b pose j6 = (Kin.base i b).inverse5dof pose j6 := rfl
theorem baseInverseContinuing5dof_eq (i : Kin R) (b pose : Iso R) (prev : J6 R) :
    SrcWrap.baseInverseContinuing5dof i b pose prev = (Kin.base i b).inverseContinuing5dof pose prev := rfl
theorem baseForward_eq (i : Kin R) (b : Iso R) (q : J6 R) : SrcWrap.baseForward i b q = (Kin.base i b).forward q := rfl
theorem baseLinks_eq (i : Kin R) (b : Iso R) (q : J6 R) : SrcWrap.baseLinks i b q = (Kin.base i b).links q := rfl

/-! ### Frame -/
theorem frameInverse_eq (i : Kin R) (f pose : Iso R) : SrcWrap.frameInverse i f pose = (Kin.frame i f).inverse pose := rfl
theorem frameInverseContinuing_eq (i : Kin R) (f pose : Iso R) (prev : J6 R) :
    SrcWrap.frameInverseContinuing i f pose prev = (Kin.frame i f).inverseContinuing pose prev := rfl
theorem frameInverse5dof_eq (i : Kin R) (f pose : Iso R) (j6 : R) :
    SrcWrap.frameInverse5dof i f pose j6 = (Kin.frame i f).inverse5dof pose j6 := rfl
theorem frameInverseContinuing5dof_eq (i : Kin R) (f pose : Iso R) (prev : J6 R) :
    SrcWrap.frameInverseContinuing5dof i f pose prev = (Kin.frame i f).inverseContinuing5dof pose prev := rfl
theorem frameForward_eq (i : Kin R) (f : Iso R) (q : J6 R) : SrcWrap.frameForward i f q = (Kin.frame i f).forward q := rfl
theorem frameLinks_eq (i : Kin R) (f : Iso R) (q : J6 R) : SrcWrap.frameLinks i f q = (Kin.frame i f).links q := rfl
theorem frameForwardTransformed_eq (i : Kin R) (f : Iso R) (qs prev : J6 R) :
    SrcWrap.frameForwardTransformed i f qs prev = forwardTransformed i f qs prev := rfl

/-! ### Parallelogram -/
theorem paraInverse_eq (i : Kin R) (s : R) (d c : Nat) (pose : Iso R) :
    SrcWrap.paraInverse i s d c pose = (Kin.para i s d c).inverse pose := rfl
theorem paraInverseContinuing_eq (i : Kin R) (s : R) (d c : Nat) (pose : Iso R) (prev : J6 R) :
    SrcWrap.paraInverseContinuing i s d c pose prev = (Kin.para i s d c).inverseContinuing pose prev := rfl
theorem paraInverse5dof_eq (i : Kin R) (s : R) (d c : Nat) (pose : Iso R) (j6 : R) :
    SrcWrap.paraInverse5dof i s d c pose j6 = (Kin.para i s d c).inverse5dof pose j6 := rfl
theorem paraInverseContinuing5dof_eq (i : Kin R) (s : R) (d c : Nat) (pose : Iso R) (prev : J6 R) :
    SrcWrap.paraInverseContinuing5dof i s d c pose prev = (Kin.para i s d c).inverseContinuing5dof pose prev := rfl
theorem paraForward_eq (i : Kin R) (s : R) (d c : Nat) (q : J6 R) :
    SrcWrap.paraForward i s d c q = (Kin.para i s d c).forward q := rfl
theorem paraLinks_eq (i : Kin R) (s : R) (d c : Nat) (q : J6 R) :
    SrcWrap.paraLinks i s d c q = (Kin.para i s d c).links q := rfl

end Opw
