/-
  Tie between the wrapper model (`Wrappers.lean`) and the `Kinematics` implementations of Tool, Base, Frame and
  Parallelogram translated from the CURRENT source text (`Generated/SrcWrap.lean`, rewritten by
  `tools/rs2lean_wrap.py` on every run).  Generic in the number type.
-/
import OpwVerif.Generated.SrcWrap
namespace Opw
variable {R : Type} [OpwNum R]
set_option linter.unusedSectionVars false

/-! ### Tool -/
theorem toolInverse_eq (i : Kin R) (t pose : Iso R) : SrcWrap.toolInverse i t pose = (Kin.tool i t).inverse pose := rfl
theorem toolInverseContinuing_eq (i : Kin R) (t pose : Iso R) (prev : J6 R) :
    SrcWrap.toolInverseContinuing i t pose prev = (Kin.tool i t).inverseContinuing pose prev := rfl
theorem toolInverse5dof_eq (i : Kin R) (t pose : Iso R) (j6 : R) :
    SrcWrap.toolInverse5dof i t pose j6 = (Kin.tool i t).inverse5dof pose j6 := rfl
theorem toolInverseContinuing5dof_eq (i : Kin R) (t pose : Iso R) (prev : J6 R) :
    SrcWrap.toolInverseContinuing5dof i t pose prev = (Kin.tool i t).inverseContinuing5dof pose prev := rfl
theorem toolForward_eq (i : Kin R) (t : Iso R) (q : J6 R) : SrcWrap.toolForward i t q = (Kin.tool i t).forward q := rfl
theorem toolLinks_eq (i : Kin R) (t : Iso R) (q : J6 R) : SrcWrap.toolLinks i t q = (Kin.tool i t).links q := rfl

/-! ### Base -/
theorem baseInverse_eq (i : Kin R) (b pose : Iso R) : SrcWrap.baseInverse i b pose = (Kin.base i b).inverse pose := rfl
theorem baseInverseContinuing_eq (i : Kin R) (b pose : Iso R) (prev : J6 R) :
    SrcWrap.baseInverseContinuing i b pose prev = (Kin.base i b).inverseContinuing pose prev := rfl
theorem baseInverse5dof_eq (i : Kin R) (b pose : Iso R) (j6 : R) :
    SrcWrap.baseInverse5dof i b pose j6 = (Kin.base i b).inverse5dof pose j6 := rfl
theorem baseInverseContinuing5dof_eq (i : Kin R) (b pose : Iso R) (prev : J6 R) :
    SrcWrap.baseInverseContinuing5dof i b pose prev = (Kin.base i b).inverseContinuing5dof pose prev := rfl
theorem baseForward_eq (i : Kin R) (b : Iso R) (q : J6 R) : SrcWrap.baseForward i b q = (Kin.base i b).forward q := rfl
theorem baseLinks_eq (i : Kin R) (b : Iso R) (q : J6 R) : SrcWrap.baseLinks i b q = (Kin.base i b).links q := rfl

/-! ### Frame -/
theorem frameInverse_eq (i : Kin R) (f pose : Iso R) : SrcWrap.frameInverse i f pose = (Kin.frame i f).inverse pose := rfl
theorem frameInverseContinuing_eq (i : Kin R) (f pose : Iso R) (prev : J6 R) :
    SrcWrap.frameInverseContinuing i f pose prev = (Kin.frame i f).inverseContinuing pose prev := rfl
theorem frameInverse5dof_eq (i : Kin R) (f pose : Iso R) (j6 : R) :
    SrcWrap.frameInverse5dof i f pose j6 = (Kin.frame i f).inverse5dof pose j6 := rfl
theorem frameInverseContinuing5dof_eq (i : Kin R) (f pose : Iso R) (prev : J6 R) :
    SrcWrap.frameInverseContinuing5dof i f pose prev = (Kin.frame i f).inverseContinuing5dof pose prev := rfl
theorem frameForward_eq (i : Kin R) (f : Iso R) (q : J6 R) : SrcWrap.frameForward i f q = (Kin.frame i f).forward q := rfl
theorem frameLinks_eq (i : Kin R) (f : Iso R) (q : J6 R) : SrcWrap.frameLinks i f q = (Kin.frame i f).links q := rfl
theorem frameForwardTransformed_eq (i : Kin R) (f : Iso R) (qs prev : J6 R) :
    SrcWrap.frameForwardTransformed i f qs prev = forwardTransformed i f qs prev := rfl

/-! ### Parallelogram -/
theorem paraInverse_eq (i : Kin R) (s : R) (d c : Nat) (pose : Iso R) :
    SrcWrap.paraInverse i s d c pose = (Kin.para i s d c).inverse pose := rfl
theorem paraInverseContinuing_eq (i : Kin R) (s : R) (d c : Nat) (pose : Iso R) (prev : J6 R) :
    SrcWrap.paraInverseContinuing i s d c pose prev = (Kin.para i s d c).inverseContinuing pose prev := rfl
theorem paraInverse5dof_eq (i : Kin R) (s : R) (d c : Nat) (pose : Iso R) (j6 : R) :
    SrcWrap.paraInverse5dof i s d c pose j6 = (Kin.para i s d c).inverse5dof pose j6 := rfl
theorem paraInverseContinuing5dof_eq (i : Kin R) (s : R) (d c : Nat) (pose : Iso R) (prev : J6 R) :
    SrcWrap.paraInverseContinuing5dof i s d c pose prev = (Kin.para i s d c).inverseContinuing5dof pose prev := rfl
theorem paraForward_eq (i : Kin R) (s : R) (d c : Nat) (q : J6 R) :
    SrcWrap.paraForward i s d c q = (Kin.para i s d c).forward q := rfl
theorem paraLinks_eq (i : Kin R) (s : R) (d c : Nat) (q : J6 R) :
    SrcWrap.paraLinks i s d c q = (Kin.para i s d c).links q := rfl

/-! ### limits and singularity reports of the four wrappers: those of the robot they wrap -/
theorem toolSingularity_eq (i : Kin R) (t : Iso R) (q : J6 R) : SrcWrap.toolSingularity i t q = (Kin.tool i t).singularity q := rfl
theorem toolConstraints_eq (i : Kin R) (t : Iso R) : SrcWrap.toolConstraints i t = (Kin.tool i t).constraints := rfl
theorem baseSingularity_eq (i : Kin R) (b : Iso R) (q : J6 R) : SrcWrap.baseSingularity i b q = (Kin.base i b).singularity q := rfl
theorem baseConstraints_eq (i : Kin R) (b : Iso R) : SrcWrap.baseConstraints i b = (Kin.base i b).constraints := rfl
theorem frameSingularity_eq (i : Kin R) (f : Iso R) (q : J6 R) : SrcWrap.frameSingularity i f q = (Kin.frame i f).singularity q := rfl
theorem frameConstraints_eq (i : Kin R) (f : Iso R) : SrcWrap.frameConstraints i f = (Kin.frame i f).constraints := rfl
theorem paraSingularity_eq (i : Kin R) (s : R) (d c : Nat) (q : J6 R) :
    SrcWrap.paraSingularity i s d c q = (Kin.para i s d c).singularity q := rfl
theorem paraConstraints_eq (i : Kin R) (s : R) (d c : Nat) : SrcWrap.paraConstraints i s d c = (Kin.para i s d c).constraints := rfl

/-! ### KinematicsWithShape: the collision filter keeps order; everything else is the wrapped stack -/
theorem kwsRemoveCollisions_eq (col : J6 R → Bool) (l : List (J6 R)) : SrcWrap.kwsRemoveCollisions col l = removeCollisions col l := rfl
theorem kwsInverse_eq (i : Kin R) (col : J6 R → Bool) (pose : Iso R) : SrcWrap.kwsInverse i col pose = (Kin.shape i col).inverse pose := rfl
theorem kwsInverseContinuing_eq (i : Kin R) (col : J6 R → Bool) (pose : Iso R) (prev : J6 R) :
    SrcWrap.kwsInverseContinuing i col pose prev = (Kin.shape i col).inverseContinuing pose prev := rfl
theorem kwsInverse5dof_eq (i : Kin R) (col : J6 R → Bool) (pose : Iso R) (j6 : R) :
    SrcWrap.kwsInverse5dof i col pose j6 = (Kin.shape i col).inverse5dof pose j6 := rfl
theorem kwsInverseContinuing5dof_eq (i : Kin R) (col : J6 R → Bool) (pose : Iso R) (prev : J6 R) :
    SrcWrap.kwsInverseContinuing5dof i col pose prev = (Kin.shape i col).inverseContinuing5dof pose prev := rfl
theorem kwsForward_eq (i : Kin R) (col : J6 R → Bool) (q : J6 R) : SrcWrap.kwsForward i col q = (Kin.shape i col).forward q := rfl
theorem kwsLinks_eq (i : Kin R) (col : J6 R → Bool) (q : J6 R) : SrcWrap.kwsLinks i col q = (Kin.shape i col).links q := rfl
theorem kwsSingularity_eq (i : Kin R) (col : J6 R → Bool) (q : J6 R) : SrcWrap.kwsSingularity i col q = (Kin.shape i col).singularity q := rfl
theorem kwsConstraints_eq (i : Kin R) (col : J6 R → Bool) : SrcWrap.kwsConstraints i col = (Kin.shape i col).constraints := rfl
/-- the facade methods hand the question to the body unchanged (no gating, no re-ordering of arguments) -/
theorem kwsFacade_eq {α α1 α2 β : Type} (f1 : α → β) (f2 : α → α1 → β) (f3 : α → α1 → α2 → β) (a : α) (b : α1) (c : α2) :
    SrcWrap.kwsCollides f1 a = f1 a ∧ SrcWrap.kwsCollisionDetails f1 a = f1 a ∧ SrcWrap.kwsNear f2 a b = f2 a b ∧
    SrcWrap.kwsNonCollidingOffsets f3 a b c = f3 a b c := ⟨rfl, rfl, rfl, rfl⟩

/-! ### LinearAxis / Gantry -/
theorem linearAxisForwardSrc_eq (i : Kin R) (axis : Nat) (base : Iso R) (d : R) (q : J6 R) :
    SrcWrap.linearAxisForwardSrc i axis base d q = linearAxisForward i axis base d q := by
  unfold SrcWrap.linearAxisForwardSrc linearAxisForward
  match axis with
  | 0 => rfl | 1 => rfl | 2 => rfl | _ + 3 => rfl
theorem gantryForwardSrc_eq (i : Kin R) (base : Iso R) (tr : V3 R) (q : J6 R) :
    SrcWrap.gantryForwardSrc i base tr q = gantryForward i base tr q := rfl

end Opw
