/-
  The proof reading of the model: `OpwNum ℝ`.  Everything the theorems say is about the program
  text of `Kin.lean`, `Geom.lean`, … evaluated with exact real arithmetic (no NaN, no rounding).
-/
import OpwVerif.Num
import Mathlib.Analysis.SpecialFunctions.Trigonometric.Basic
import Mathlib.Analysis.SpecialFunctions.Trigonometric.Inverse
import Mathlib.Analysis.SpecialFunctions.Complex.Arg
import Mathlib.Analysis.Real.Sqrt
import Mathlib.Algebra.Order.Floor.Ring
import Mathlib.Tactic.Ring
import Mathlib.Tactic.Linarith
import Mathlib.Tactic.FieldSimp
import Mathlib.Tactic.LinearCombination

namespace Opw
open Classical in
noncomputable instance instOpwNumReal : OpwNum ℝ where
  ofNat n := (n : ℝ)
  ofDyadic m e := (m : ℝ) * (2 : ℝ) ^ e
  pi := Real.pi
  sin := Real.sin
  cos := Real.cos
  acos := Real.arccos
  sqrt := Real.sqrt
  abs x := |x|
  atan2 y x := Complex.arg ⟨x, y⟩
  fmod x y := if 0 ≤ x / y then x - y * ⌊x / y⌋ else x - y * ⌈x / y⌉
  signum x := if 0 ≤ x then 1 else -1
  isFinite _ := true
  isNaN _ := false
  beq a b := decide (a = b)
  ceilNat x := ⌈x⌉₊
  decLt := fun _ _ => Classical.propDecidable _
  decLe := fun _ _ => Classical.propDecidable _

/-! Unfolding lemmas: after `simp only [real_simps]` a model expression is ordinary real arithmetic. -/
section
variable (x y : ℝ) (n : ℕ)

@[simp] theorem ofNat_real : (OpwNum.ofNat n : ℝ) = (n : ℝ) := rfl
@[simp] theorem ofNatLit_real {k : ℕ} : (@OfNat.ofNat ℝ k instOfNatOpw) = (k : ℝ) := rfl
@[simp] theorem pi_real : (OpwNum.pi : ℝ) = Real.pi := rfl
@[simp] theorem pi_def_real : (pi : ℝ) = Real.pi := rfl
@[simp] theorem nsin_real : nsin x = Real.sin x := rfl
@[simp] theorem ncos_real : ncos x = Real.cos x := rfl
@[simp] theorem nsqrt_real : nsqrt x = Real.sqrt x := rfl
@[simp] theorem nacos_real : nacos x = Real.arccos x := rfl
@[simp] theorem nabs_real : nabs x = |x| := rfl
@[simp] theorem natan2_real : natan2 y x = Complex.arg ⟨x, y⟩ := rfl
@[simp] theorem fin_real : fin x = true := rfl
@[simp] theorem isNaN_real : isNaN x = false := rfl
@[simp] theorem sin_real : (OpwNum.sin x : ℝ) = Real.sin x := rfl
@[simp] theorem cos_real : (OpwNum.cos x : ℝ) = Real.cos x := rfl
@[simp] theorem sqrt_real : (OpwNum.sqrt x : ℝ) = Real.sqrt x := rfl
@[simp] theorem abs_real : (OpwNum.abs x : ℝ) = |x| := rfl
@[simp] theorem atan2_real : (OpwNum.atan2 y x : ℝ) = Complex.arg ⟨x, y⟩ := rfl
@[simp] theorem acos_real : (OpwNum.acos x : ℝ) = Real.arccos x := rfl
theorem feq_real : feq x y = decide (x = y) := rfl
theorem twoPi_real : (twoPi : ℝ) = 2 * Real.pi := by
  show (OfNat.ofNat 2 : ℝ) * Real.pi = 2 * Real.pi
  rfl
end

end Opw
