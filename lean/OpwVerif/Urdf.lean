/-
  Model of `urdf.rs` (`from_urdf`) at the level of the XML element tree and of
  `utils/simplify_joint_name.rs` (hand-written equivalent of its three regular expressions,
  for ASCII names).  Text ↔ DOM (`sxd-document`) and decimal text ↔ `f64` are the libraries:
  numeric attribute values arrive with their parse results attached.  No Mathlib import.
-/
import OpwVerif.Kin
namespace Opw
variable {R : Type} [OpwNum R]

/-! ### joint-name simplification -/

def isWordAscii (c : Char) : Bool := c.isAlphanum  -- `\w` minus `_` on ASCII input

/-- remove every `\$\{[^}]+\}` (leftmost, non-overlapping); fuel ≥ length -/
def stripMacrosF : Nat → List Char → List Char
  | 0, l => l
  | _ + 1, [] => []
  | fuel + 1, '$' :: '{' :: rest =>
    -- need at least one non-`}` character followed by `}`
    let body := rest.takeWhile (· != '}')
    let after := rest.dropWhile (· != '}')
    match body, after with
    | _ :: _, '}' :: tail => stripMacrosF fuel tail
    | _, _ => '$' :: stripMacrosF fuel ('{' :: rest)
  | fuel + 1, c :: rest => c :: stripMacrosF fuel rest

def stripMacros (l : List Char) : List Char := stripMacrosF (l.length + 1) l

def isPrefixOfL (p l : List Char) : Bool := p.isPrefixOf l

/-- index of the last occurrence of `joint` that is followed (anywhere later) by a digit -/
def lastJointBeforeDigit (l : List Char) : Option Nat :=
  let n := l.length
  let idxs := (List.range n).filter (fun i =>
    isPrefixOfL "joint".toList (l.drop i) && ((l.drop (i + 5)).any Char.isDigit))
  idxs.getLast?

/-- replace every (leftmost, non-overlapping) occurrence of the non-empty `pat` by nothing -/
def removeAll (pat : List Char) : Nat → List Char → List Char
  | 0, l => l
  | _ + 1, [] => []
  | fuel + 1, c :: rest =>
    if pat != [] && isPrefixOfL pat (c :: rest) then removeAll pat fuel ((c :: rest).drop pat.length)
    else c :: removeAll pat fuel rest

/-- `discard_non_digit_joint_chars`: regex `.*joint(\D*)\d.*`, then `input.replace(group1, "")` -/
def discardNonDigitJointChars (l : List Char) : List Char :=
  match lastJointBeforeDigit l with
  | none => l
  | some i =>
    let g := (l.drop (i + 5)).takeWhile (fun c => !c.isDigit)
    if g.isEmpty then l else removeAll g (l.length + 1) l

def firstIndexOf (pat : List Char) (l : List Char) : Option Nat :=
  (List.range (l.length + 1)).find? (fun i => isPrefixOfL pat (l.drop i))

/-- `remove_before_joint` -/
def removeBeforeJoint (l : List Char) : List Char :=
  match firstIndexOf "joint".toList l with
  | some i => l.drop i
  | none => l

/-- `preprocess_joint_name` -/
def preprocessJointName (s : String) : String :=
  let a := stripMacros s.toList
  let b := a.filter isWordAscii
  let c := discardNonDigitJointChars b
  let d := c.map Char.toLower
  String.ofList (removeBeforeJoint d)

/-! ### the element tree -/

/-- an attribute value with the float-parser results the code needs:
`tokens` = `split_whitespace().map(str::parse::<f64>)`, `whole` = `parse::<f64>` of the whole value,
`radInner` = for values of the shape `${radians(X)}` the text `X` and its parse result -/
structure Attr (R : Type) where
  name : String
  value : String
  tokens : List (Option R)
  whole : Option R
  radInner : Option (String × Option R)

inductive Xml (R : Type) where
  | elem (name : String) (attrs : List (Attr R)) (children : List (Xml R))

def Xml.name : Xml R → String | .elem n _ _ => n
def Xml.attrs : Xml R → List (Attr R) | .elem _ a _ => a
def Xml.children : Xml R → List (Xml R) | .elem _ _ c => c
def Xml.attr (e : Xml R) (n : String) : Option (Attr R) := e.attrs.find? (fun a => a.name == n)
def Xml.child (e : Xml R) (n : String) : Option (Xml R) := e.children.find? (fun c => c.name == n)

structure JointData (R : Type) where
  name : String
  x : R
  y : R
  z : R
  sign : Int
  from_ : R
  to : R

/-- derived `PartialEq` of `JointData` -/
def JointData.eqv (a b : JointData R) : Bool :=
  a.name == b.name && feq a.x b.x && feq a.y b.y && feq a.z b.z && a.sign == b.sign && feq a.from_ b.from_ && feq a.to b.to

inductive UrdfErr where
  | xml          -- `XmlProcessingError`
  | populate     -- `ParameterPopulationError`
deriving BEq, Repr, DecidableEq

def allSome : List (Option R) → Option (List R)
  | [] => some []
  | none :: _ => none
  | some x :: rest => (allSome rest).map (x :: ·)

/-- `get_xyz_from_origin` -/
def getXyz (e : Xml R) : Option (R × R × R) :=
  match e.attr "xyz" with
  | none => none
  | some a => match allSome a.tokens with
    | some [x, y, z] => some (x, y, z)
    | _ => none

/-- `get_axis_sign`; `none` = error -/
def getAxisSign (e : Xml R) : Option Int :=
  match e.attr "xyz" with
  | none => none
  | some a => match allSome a.tokens with
    | none => none
    | some vals =>
      let nz := (vals.filter (fun v => !(feq v 0))).map (fun v => if v < 0 then (-1 : Int) else 1)
      match nz with
      | [s] => some s
      | _ => some 0

def isDigitsL (l : List Char) : Bool := !l.isEmpty && l.all Char.isDigit

/-- the captured group of `^\$\{radians\((-?\d+(\.\d+)?)\)\}$` is well formed -/
def radiansInnerOk (s : String) : Bool :=
  let l := s.toList
  let l := match l with | '-' :: r => r | r => r
  let ip := l.takeWhile Char.isDigit
  let rest := l.dropWhile Char.isDigit
  isDigitsL ip && (rest.isEmpty || (match rest with | '.' :: fr => isDigitsL fr | _ => false))

/-- `parse_angle` -/
def parseAngle (a : Attr R) : Option R :=
  match a.radInner with
  | some (inner, v) =>
    if radiansInnerOk inner then v.map toRadians
    else a.whole
  | none => a.whole

/-- `get_limits`; `none` = error (reported and ignored by the caller) -/
def getLimits (e : Xml R) : Option (R × R) :=
  match e.attr "lower", e.attr "upper" with
  | some lo, some hi => match parseAngle lo, parseAngle hi with
    | some a, some b => some (a, b)
    | _, _ => none
  | _, _ => none

/-- one `<joint>` element -/
def jointOf (explicitNames : Bool) (j : Xml R) : Option (JointData R) :=
  let urdfName := match j.attr "name" with | some a => a.value | none => "Unnamed"
  let name := if explicitNames then urdfName else preprocessJointName urdfName
  let vec : Option (R × R × R) := match j.child "origin" with
    | none => some (0, 0, 0)
    | some o => getXyz o
  let sg : Option Int := match j.child "axis" with
    | none => some 1
    | some a => getAxisSign a
  match vec, sg with
  | some (x, y, z), some s =>
    let lim : R × R := match j.child "limit" with
      | none => (0, 0)
      | some l => match getLimits l with
        | some p => p
        | none => (0, 0)
    some ⟨name, x, y, z, s, lim.1, lim.2⟩
  | _, _ => none

mutual
/-- `collect_joints`: pre-order over element children; `none` = error -/
def collectJoints (explicitNames : Bool) : Xml R → Option (List (JointData R))
  | .elem _ _ children => collectList explicitNames children
def collectList (explicitNames : Bool) : List (Xml R) → Option (List (JointData R))
  | [] => some []
  | c :: rest =>
    let here : Option (List (JointData R)) :=
      if c.name == "joint" then (jointOf explicitNames c).map (fun j => [j]) else some []
    match here with
    | none => none
    | some h => match collectJoints explicitNames c with
      | none => none
      | some inner => match collectList explicitNames rest with
        | none => none
        | some tl => some (h ++ inner ++ tl)
end

/-- `convert_to_map`: first occurrence wins, a different second occurrence is an error -/
def convertToMap : List (JointData R) → List (JointData R) → Option (List (JointData R))
  | acc, [] => some acc
  | acc, j :: rest =>
    match acc.find? (fun e => e.name == j.name) with
    | some e => if e.eqv j then convertToMap acc rest else none
    | none => convertToMap (acc ++ [j]) rest

/-- `Vector3::non_zero`; `none` = more than one non-zero component -/
def nonZero3 (x y z : R) : Option R :=
  match [x, y, z].filter (fun v => !(feq v 0)) with
  | [] => some 0
  | [v] => some v
  | _ => none

/-- the local `non_zero(a, b)` of `populate_opw_parameters` -/
def nonZero2 (a b : R) : Option R :=
  if feq a 0 && feq b 0 then some 0
  else if feq a 0 then some b
  else if feq b 0 then some a
  else none

/-- `URDFParameters` -/
structure UParams (R : Type) where
  a1 : R
  a2 : R
  b : R
  c1 : R
  c2 : R
  c3 : R
  c4 : R
  signs : List Int
  from_ : List R
  to : List R
  dof : Int

def UParams.zero : UParams R := ⟨0, 0, 0, 0, 0, 0, 0, [], [], [], 0⟩

def wrapI8 (i : Int) : Int := let m := i % 256; if m ≥ 128 then m - 256 else m

/-- what joint number `k` (0-based) contributes in `populate_opw_parameters`; `none` = error -/
def populateStep (k : Nat) (j : JointData R) (u : UParams R) : Option (UParams R) :=
  let nz := nonZero3 j.x j.y j.z
  if k == 0 then nz.map (fun v => { u with c1 := v })
  else if k == 1 then nz.map (fun v => { u with a1 := v })
  else if k == 2 then
    match nz with
    | some v => some { u with c2 := v, b := (0 : R) }
    | none => (nonZero2 j.x j.z).map (fun v => { u with c2 := v, b := j.y })
  else if k == 3 then
    match nz with
    | some v => some { u with a2 := -v }
    | none =>
      if !(feq u.c3 (0 : R)) then none
      else (nonZero2 j.x j.y).map (fun v => { u with a2 := -j.z, c3 := v })
  else if k == 4 then
    match nz with
    | none => none
    | some cand =>
      if !(feq cand (0 : R)) then (if !(feq u.c3 (0 : R)) then none else some { u with c3 := cand })
      else some u
  else nz.map (fun v => { u with c4 := v })

def populateGo (m : List (JointData R)) : Nat → List String → UParams R → Option (UParams R)
  | _, [], u => some u
  | k, n :: rest, u =>
    match m.find? (fun j => j.name == n) with
    | none => none
    | some j =>
      let u1 : UParams R := { u with signs := u.signs ++ [wrapI8 j.sign], from_ := u.from_ ++ [j.from_], to := u.to ++ [j.to] }
      match populateStep k j u1 with
      | none => none
      | some u' => populateGo m (k + 1) rest u'

/-- `populate_opw_parameters` -/
def populate (m : List (JointData R)) (names : List String) : Option (UParams R) :=
  let isSix := (m.find? (fun j => j.name == names.getD 5 "")).isSome
  match populateGo m 0 (names.take 6) UParams.zero with
  | none => none
  | some u =>
    if isSix then some { u with dof := 6 }
    else some { u with dof := 5, signs := (u.signs.take 5) ++ [0], from_ := (u.from_.take 5) ++ [(0 : R)], to := (u.to.take 5) ++ [(0 : R)] }

def defaultNames : List String := ["joint1", "joint2", "joint3", "joint4", "joint5", "joint6"]

/-- `from_urdf` after the text has been parsed into a DOM; `root = none` models a parser error or a
document without a root element -/
def fromUrdf (root : Option (Xml R)) (names : Option (List String)) : Except UrdfErr (UParams R) :=
  match root with
  | none => .error .xml
  | some r =>
    match collectJoints names.isSome r with
    | none => .error .xml
    | some js =>
      match convertToMap [] js with
      | none => .error .xml
      | some m =>
        match populate m (names.getD defaultNames) with
        | none => .error .populate
        | some u => .ok u

end Opw
