/-
  C02 ("no duplicates" part) — the answer set of the closed-form inverse kinematics for the pose
  of a non-singular configuration contains no two answers that are equal, not even modulo whole
  turns of the joints.

  All theorems are [R]: the model text of `Kin.lean` evaluated with exact real arithmetic.
  Property theorems only; the staged lemmas live in `Lemmas/IkDistinct.lean`.

  Vocabulary (θ-space: `θ = joint · sign − offset`; `NonSingular`, `kappa`, `cx1`, `armX`, `cz1`,
  `poseOf` from `Lemmas/IkComplete.lean`, `SignsOk`, `flip` from `Props/C02.lean`):
  * `J6TurnEq a b`: componentwise `aᵢ = bᵢ + 2πk`, `k : ℤ`;
  * `otherS2 p θ = (armX p θ + 2·a1)² + (cz1 p θ)²`: squared distance from the J2 axis to the wrist
    centre after J1 is turned by half a turn (the OTHER shoulder configuration);
  * `OtherShoulderRegular p θ`: `|otherS2 p θ − c2² − κ²| < 2·c2·κ`, i.e. the other shoulder
    configuration reaches the wrist centre with an elbow that is neither stretched nor folded.
    For `a1 = 0` this follows from `NonSingular` (`otherShoulderRegular_of_a1_zero`).

  WHY THE EXTRA ASSUMPTION.  `NonSingular p θ` speaks about the shoulder, elbow and wrist of `θ`
  itself.  Four of the eight raw candidates belong to the other shoulder configuration, whose elbow
  angle is `acos` of a different ratio.  When that ratio is `≥ 1` or `≤ −1` (wrist centre out of
  reach of, or exactly at the end of the reach of, the other shoulder configuration — possible only
  when `a1 ≠ 0`), `Real.arccos` returns `0` or `π` (the IEEE `acos` returns NaN outside `[−1, 1]`
  and the candidate is dropped; exactly at `±1` it also returns `0`/`π`), and the two elbow branches
  of that shoulder produce THE SAME vector: `candidates_duplicate_of_unreachable` below proves this,
  so the unconditional statement is false in the model.  What holds with `NonSingular` alone is
  `candidates_match_unique` / `inverse_returns_exactly_once`: the configuration itself (and its
  wrist-flipped twin) occupies exactly one position.

  Pairs covered by `candidates_pairwise_distinct` (positions `0..7` of `thetaCandidates`, rows
  `k` and `k+4` are wrist-flip twins, rows `0,1,4,5` front shoulder, rows `2,3,6,7` back shoulder):
  ALL 28 pairs.  Reasons: `(k, k+4)`: `θ4` differs by `π`; front vs back shoulder: `θ1_i − θ1_ii =
  π − 2·atan2(b, √(cx²+cy²−b²)) ∈ (0, 2π)`; the two elbow branches of one shoulder: `θ3` differs by
  `2·acos(..) ∈ (0, 2π)`.
-/
import OpwVerif.Lemmas.IkDistinct
import OpwVerif.Props.C02b
namespace Opw.C02c
open Opw Opw.Wrist Opw.C02 Opw.IkComplete Opw.IkDistinct

attribute [-simp] Opw.ofNatLit_real

/-! ### 1. The raw candidates -/

/-- [R] C02, no duplicates among the raw candidates, ANY pose: if the two shoulder angles
`θ1_i`, `θ1_ii` are not congruent and both elbow `acos` values `tmp11`, `tmp12` lie strictly
between `0` and `π`, no two positions of the candidate list hold congruent vectors. -/
theorem candidates_pairwise_distinct_of (p : Params ℝ) (pose : Iso ℝ)
    (h1 : ¬ TurnEq (th1i p (wc p pose)) (th1ii p (wc p pose)))
    (h11 : 0 < tmp11 p (wc p pose) ∧ tmp11 p (wc p pose) < Real.pi)
    (h12 : 0 < tmp12 p (wc p pose) ∧ tmp12 p (wc p pose) < Real.pi) :
    List.Pairwise (fun a b => ¬ J6TurnEq a b) (thetaCandidates p pose) :=
  candidates_pairwise_of p pose h1 h11 h12

/-- [R] C02, no duplicates among the raw candidates: for a joint vector `j` whose θ is
non-singular and whose other shoulder configuration is regular, the eight raw θ candidates of the
pose `forward p j` are pairwise NOT congruent modulo whole turns (all 28 pairs of positions). -/
theorem candidates_pairwise_distinct (p : Params ℝ) (j : J6 ℝ) (h : NonSingular p (thetaOf p j))
    (ho : OtherShoulderRegular p (thetaOf p j)) :
    List.Pairwise (fun a b => ¬ J6TurnEq a b) (thetaCandidates p (forward p j)) :=
  candidates_pairwise p (thetaOf p j) h ho

/-- [R] the same, spelled out by position: two different positions hold non-congruent vectors -/
theorem candidates_distinct_index (p : Params ℝ) (j : J6 ℝ) (h : NonSingular p (thetaOf p j))
    (ho : OtherShoulderRegular p (thetaOf p j)) (i k : ℕ)
    (hi : i < (thetaCandidates p (forward p j)).length)
    (hk : k < (thetaCandidates p (forward p j)).length) (hik : i ≠ k) :
    ¬ J6TurnEq (thetaCandidates p (forward p j))[i] (thetaCandidates p (forward p j))[k] := by
  have hp := List.pairwise_iff_getElem.mp (candidates_pairwise_distinct p j h ho)
  rcases lt_or_gt_of_ne hik with hlt | hgt
  · exact hp i k hi hk hlt
  · exact fun g => hp k i hk hi hgt g.symm

/-- [R] for a robot with `a1 = 0` non-singularity of `θ` alone suffices -/
theorem candidates_pairwise_distinct_a1_zero (p : Params ℝ) (ha : p.a1 = 0) (j : J6 ℝ)
    (h : NonSingular p (thetaOf p j)) :
    List.Pairwise (fun a b => ¬ J6TurnEq a b) (thetaCandidates p (forward p j)) :=
  candidates_pairwise_distinct p j h (otherShoulderRegular_of_a1_zero p _ h ha)

/-- [R] with `NonSingular` alone (no assumption on the other shoulder): at most one POSITION of the
candidate list holds a candidate congruent to a given `τ` on the shoulder of `j` (`τ.j1 ≡ θ1`), in
particular to `θ = thetaOf p j` itself and to its wrist-flipped twin `flip θ`. -/
theorem candidates_match_unique (p : Params ℝ) (j : J6 ℝ) (h : NonSingular p (thetaOf p j))
    (τ : J6 ℝ) (hτ : TurnEq τ.j1 (thetaOf p j).j1) :
    List.Pairwise (fun a b => ¬ (J6TurnEq a τ ∧ J6TurnEq b τ)) (thetaCandidates p (forward p j)) :=
  IkDistinct.candidates_match_unique p (thetaOf p j) h τ hτ

/-- [R] sharpness: the assumption on the other shoulder cannot be dropped.  For a front-shoulder
configuration whose wrist centre is out of reach of the back-shoulder arm
(`(c2 + κ)² ≤ otherS2 p θ`), rows 2 and 3 of the candidate list are THE SAME vector (both elbow
`acos` are clamped to `0` by `Real.arccos`). -/
theorem candidates_duplicate_of_unreachable (p : Params ℝ) (θ : J6 ℝ) (hc : 0 < p.c2)
    (hk : 0 < kappa p) (hf : 0 < cx1 p θ) (hfar : (p.c2 + kappa p) ^ 2 ≤ otherS2 p θ) :
    ¬ (thetaCandidates p (poseOf p θ)).Nodup := by
  intro hn
  have hp := List.pairwise_iff_getElem.mp hn 2 3 (by simp [candidates_list])
    (by simp [candidates_list]) (by norm_num)
  apply hp
  simp only [candidates_list, wc_poseOf]
  exact back_pair_eq_of_far p _ _ hc hk (by rw [s2sq_front_other p θ hf]; exact hfar)

/-! ### 2. The answers -/

/-- [R] C02, no duplicates: `inverse_intern`, asked for the pose of a regular non-singular joint
vector, returns no two answers (at different positions of the list) that are congruent modulo whole
turns of the joints. -/
theorem inverseIntern_no_duplicates (p : Params ℝ) (hs : SignsOk p) (j : J6 ℝ)
    (h : NonSingular p (thetaOf p j)) (ho : OtherShoulderRegular p (thetaOf p j)) :
    List.Pairwise (fun a b => ¬ J6TurnEq a b) (inverseIntern p (forward p j)) :=
  inverseIntern_pairwise_of p hs _ (candidates_pairwise_distinct p j h ho)

/-- [R] the same in θ-space -/
theorem inverseIntern_no_duplicates_theta (p : Params ℝ) (hs : SignsOk p) (j : J6 ℝ)
    (h : NonSingular p (thetaOf p j)) (ho : OtherShoulderRegular p (thetaOf p j)) :
    List.Pairwise (fun a b => ¬ J6TurnEq (thetaOf p a) (thetaOf p b))
      (inverseIntern p (forward p j)) :=
  List.Pairwise.imp (fun {a b} hn g => hn ((thetaOf_turnEq_iff p hs a b).mp g))
    (inverseIntern_no_duplicates p hs j h ho)

/-- [R] … in particular no two equal answers -/
theorem inverseIntern_nodup (p : Params ℝ) (hs : SignsOk p) (j : J6 ℝ)
    (h : NonSingular p (thetaOf p j)) (ho : OtherShoulderRegular p (thetaOf p j)) :
    (inverseIntern p (forward p j)).Nodup :=
  nodup_of_pairwise (inverseIntern_no_duplicates p hs j h ho)

/-- [R] C02, no duplicates, public `inverse` of a robot not declared 5-DOF, WITH OR WITHOUT
constraints (the constraint filter only removes answers): no two answers congruent modulo whole
turns. -/
theorem inverse_no_duplicates (k : Opw ℝ) (hs : SignsOk k.p) (hdof : k.p.dof ≠ 5) (j : J6 ℝ)
    (h : NonSingular k.p (thetaOf k.p j)) (ho : OtherShoulderRegular k.p (thetaOf k.p j)) :
    List.Pairwise (fun a b => ¬ J6TurnEq a b) (k.inverse (forward k.p j)) := by
  rw [inverse_eq_filter k hdof]
  exact List.Pairwise.sublist (filterCompliant_sublist k _) (inverseIntern_no_duplicates k.p hs j h ho)

/-- [R] … in particular `List.Nodup` -/
theorem inverse_nodup (k : Opw ℝ) (hs : SignsOk k.p) (hdof : k.p.dof ≠ 5) (j : J6 ℝ)
    (h : NonSingular k.p (thetaOf k.p j)) (ho : OtherShoulderRegular k.p (thetaOf k.p j)) :
    (k.inverse (forward k.p j)).Nodup :=
  nodup_of_pairwise (inverse_no_duplicates k hs hdof j h ho)

/-- [R] for a robot with `a1 = 0`: non-singularity of `j` alone suffices -/
theorem inverse_nodup_a1_zero (k : Opw ℝ) (hs : SignsOk k.p) (hdof : k.p.dof ≠ 5)
    (ha : k.p.a1 = 0) (j : J6 ℝ) (h : NonSingular k.p (thetaOf k.p j)) :
    List.Pairwise (fun a b => ¬ J6TurnEq a b) (k.inverse (forward k.p j)) ∧
      (k.inverse (forward k.p j)).Nodup :=
  ⟨inverse_no_duplicates k hs hdof j h (otherShoulderRegular_of_a1_zero k.p _ h ha),
   inverse_nodup k hs hdof j h (otherShoulderRegular_of_a1_zero k.p _ h ha)⟩

/-- [R] with `NonSingular` alone: at most one position of the answer list of `inverse_intern` holds
an answer whose θ is congruent to a given `τ` on the shoulder of `j` -/
theorem inverseIntern_match_unique (p : Params ℝ) (hs : SignsOk p) (j : J6 ℝ)
    (h : NonSingular p (thetaOf p j)) (τ : J6 ℝ) (hτ : TurnEq τ.j1 (thetaOf p j).j1) :
    List.Pairwise (fun s s' => ¬ (J6TurnEq (thetaOf p s) τ ∧ J6TurnEq (thetaOf p s') τ))
      (inverseIntern p (forward p j)) :=
  inverseIntern_pairwise_transport p _
    (fun a a' hR g => hR ⟨(thetaOf_finish_turnEq p hs a).symm.trans g.1,
      (thetaOf_finish_turnEq p hs a').symm.trans g.2⟩)
    (candidates_match_unique p j h τ hτ)

/-- [R] C02, "returns that configuration" exactly once (`NonSingular` alone, any `a1`): the answer
list of `inverse_intern` for the pose of `j` contains an answer congruent to `j`, and no two
positions of the list hold answers congruent to `j`; the same for the wrist-flipped twin of `j`. -/
theorem inverse_returns_exactly_once (p : Params ℝ) (hs : SignsOk p) (j : J6 ℝ)
    (h : NonSingular p (thetaOf p j)) :
    (∃ s ∈ inverseIntern p (forward p j), J6TurnEq s j) ∧
    List.Pairwise (fun s s' => ¬ (J6TurnEq s j ∧ J6TurnEq s' j)) (inverseIntern p (forward p j)) ∧
    (∃ s ∈ inverseIntern p (forward p j), J6TurnEq (thetaOf p s) (flip (thetaOf p j))) ∧
    List.Pairwise (fun s s' => ¬ (J6TurnEq (thetaOf p s) (flip (thetaOf p j)) ∧
      J6TurnEq (thetaOf p s') (flip (thetaOf p j)))) (inverseIntern p (forward p j)) := by
  refine ⟨ik_complete_intern_joint p hs j h, ?_, ?_,
    inverseIntern_match_unique p hs j h _ (TurnEq.refl _)⟩
  · exact List.Pairwise.imp
      (fun {a b} hn g => hn ⟨thetaOf_turnEq p hs g.1, thetaOf_turnEq p hs g.2⟩)
      (inverseIntern_match_unique p hs j h (thetaOf p j) (TurnEq.refl _))
  · obtain ⟨s, hs1, hs2⟩ := ik_complete_intern p hs j h
    obtain ⟨s', hs1', hs2', -⟩ := inverseIntern_flip_closed p hs _ s hs1
    exact ⟨s', hs1', hs2'.trans (flip_turnEq hs2)⟩

/-! ### 3. The size of the answer set -/

/-- [R] the number of answers of `inverse_intern` is the number of raw candidates whose normalised
joint vector passes the forward cross-check (over ℝ every candidate is finite) -/
theorem inverse_count (p : Params ℝ) (pose : Iso ℝ) :
    (inverseIntern p pose).length =
      (thetaCandidates p pose).countP
        (fun t => comparePoses pose (forward p ((jointsOf p t).map normPi)) distTol angTol) := by
  unfold inverseIntern
  rw [List.length_filterMap_eq_countP]
  congr 1
  funext t
  exact finishCandidate_isSome p pose _

/-- [R] for the pose of a non-singular joint vector there are at least two answers (the
configuration and its wrist-flipped twin are different answers) and at most eight -/
theorem inverse_count_bounds (p : Params ℝ) (hs : SignsOk p) (j : J6 ℝ)
    (h : NonSingular p (thetaOf p j)) :
    2 ≤ (inverseIntern p (forward p j)).length ∧ (inverseIntern p (forward p j)).length ≤ 8 := by
  constructor
  · obtain ⟨s, hs1, -⟩ := ik_complete_intern p hs j h
    obtain ⟨s', hs1', hs2', -⟩ := inverseIntern_flip_closed p hs _ s hs1
    refine two_le_length_of_mem_ne hs1 hs1' ?_
    rintro rfl
    exact flip_not_turnEq _ hs2'
  · exact List.length_filterMap_le _ _

/-- [R] C02, same size: the answer set computed for the pose of a returned solution `s` that
reproduces the requested pose exactly is the same list, hence has the same size -/
theorem same_count (p : Params ℝ) (j s : J6 ℝ) (h : forward p s = forward p j) :
    inverseIntern p (forward p s) = inverseIntern p (forward p j) ∧
      (inverseIntern p (forward p s)).length = (inverseIntern p (forward p j)).length := by
  rw [h]; exact ⟨rfl, rfl⟩

/-- [R] … and such solutions exist: the answer congruent to `j` and its wrist-flipped twin both
reproduce the pose exactly, so the answer sets computed for their poses have the same size -/
theorem same_count_of_match (p : Params ℝ) (hs : SignsOk p) (j : J6 ℝ)
    (h : NonSingular p (thetaOf p j)) :
    ∃ s ∈ inverseIntern p (forward p j), ∃ s' ∈ inverseIntern p (forward p j),
      J6TurnEq (thetaOf p s) (thetaOf p j) ∧ J6TurnEq (thetaOf p s') (flip (thetaOf p s)) ∧
      (inverseIntern p (forward p s)).length = (inverseIntern p (forward p j)).length ∧
      (inverseIntern p (forward p s')).length = (inverseIntern p (forward p j)).length := by
  obtain ⟨s, hs1, hs2, hs3⟩ := ik_complete_intern_pose p hs j h
  obtain ⟨s', hs1', hs2', hs3'⟩ := inverseIntern_flip_closed p hs _ s hs1
  exact ⟨s, hs1, s', hs1', hs2, hs2', (same_count p j s hs3).2,
    (same_count p j s' (hs3'.trans hs3)).2⟩

/-! ### Non-vacuity -/

open Opw.C02b in
/-- the example robot `pEx` (`a1 = 0.025 ≠ 0`) and joint vector `jEx` of C02b satisfy the extra
assumption: `otherS2 = 0.415² + 0.35²`, `|otherS2 − c2² − κ²| = 0.06105 < 0.63·κ` -/
theorem otherShoulderRegular_ex : OtherShoulderRegular pEx (thetaOf pEx jEx) := by
  have hk := kappa_pEx_pos
  have hcos : kappa pEx * Real.cos (psi3 pEx) = 0.365 := kappa_cos pEx.a2 pEx.c3
  have hsin : kappa pEx * Real.sin (psi3 pEx) = -0.035 := kappa_sin pEx.a2 pEx.c3
  have hk2 : kappa pEx ^ 2 = (-0.035) * (-0.035) + 0.365 * 0.365 := (kappa2_eq pEx).symm
  have hk3 : 0.3 < kappa pEx := by
    by_contra hc
    have := not_lt.mp hc
    nlinarith
  rw [thetaOf_jEx]
  have ex : armX pEx ⟨0, 0, Real.pi / 2, 0, Real.pi / 2, -Real.pi⟩ = 0.365 := by
    simp only [armX]
    rw [show (0 : ℝ) + Real.pi / 2 + psi3 pEx = psi3 pEx + Real.pi / 2 by ring,
      Real.sin_add_pi_div_two, hcos, Real.sin_zero]
    ring
  have ez : cz1 pEx ⟨0, 0, Real.pi / 2, 0, Real.pi / 2, -Real.pi⟩ = 0.35 := by
    simp only [cz1]
    rw [show (0 : ℝ) + Real.pi / 2 + psi3 pEx = psi3 pEx + Real.pi / 2 by ring,
      Real.cos_add_pi_div_two, Real.cos_zero]
    have : pEx.c2 = 0.315 := rfl
    rw [this]; linarith
  unfold OtherShoulderRegular otherS2
  rw [ex, ez, hk2]
  have e1 : pEx.a1 = 0.025 := rfl
  have e2 : pEx.c2 = 0.315 := rfl
  rw [e1, e2, abs_lt]
  constructor <;> nlinarith

open Opw.C02b in
/-- the hypotheses of `inverse_nodup` are jointly satisfiable (robot with `a1 ≠ 0`, mixed signs,
offsets), and its conclusion for the example -/
example : ((⟨pEx, none⟩ : Opw ℝ).inverse (forward pEx jEx)).Nodup :=
  inverse_nodup ⟨pEx, none⟩ signsOk_pEx (by decide) jEx nonSingular_ex otherShoulderRegular_ex

open Opw.C02b in
example : List.Pairwise (fun a b => ¬ J6TurnEq a b) (thetaCandidates pEx (forward pEx jEx)) :=
  candidates_pairwise_distinct pEx jEx nonSingular_ex otherShoulderRegular_ex

open Opw.C02b in
example : 2 ≤ (inverseIntern pEx (forward pEx jEx)).length ∧
    (inverseIntern pEx (forward pEx jEx)).length ≤ 8 :=
  inverse_count_bounds pEx signsOk_pEx jEx nonSingular_ex

/-- a robot with a long shoulder offset `a1`: the back-shoulder arm cannot reach the wrist centre -/
noncomputable def pFar : Params ℝ :=
  { a1 := 1, a2 := 0, b := 0, c1 := 0, c2 := 1, c3 := 1, c4 := 0,
    offsets := ⟨0, 0, 0, 0, 0, 0⟩, signs := ⟨1, 1, 1, 1, 1, 1⟩, dof := 6 }

/-- arm horizontal, elbow and wrist at right angles -/
noncomputable def θFar : J6 ℝ := ⟨0, 0, Real.pi / 2, 0, Real.pi / 2, 0⟩

theorem kappa_pFar : kappa pFar = 1 := by
  show Real.sqrt ((0 : ℝ) * 0 + 1 * 1) = 1
  norm_num

theorem psi3_pFar : psi3 pFar = 0 := Nearest.arg_mk_im_zero 1 zero_le_one

theorem armX_far : armX pFar θFar = 1 := by
  simp only [armX, θFar, kappa_pFar, psi3_pFar]
  rw [show (0 : ℝ) + Real.pi / 2 + 0 = Real.pi / 2 by ring, Real.sin_pi_div_two, Real.sin_zero]
  ring

theorem cz1_far : cz1 pFar θFar = 1 := by
  simp only [cz1, θFar, kappa_pFar, psi3_pFar]
  rw [show (0 : ℝ) + Real.pi / 2 + 0 = Real.pi / 2 by ring, Real.cos_pi_div_two, Real.cos_zero]
  show (1 : ℝ) * 1 + 1 * 0 = 1
  ring

/-- the configuration is NOT at a shoulder, elbow or wrist singularity … -/
theorem nonSingular_far : NonSingular pFar θFar := by
  refine ⟨one_pos, by rw [kappa_pFar]; exact one_pos, ?_, ?_, ?_⟩
  · have e : cx1 pFar θFar = 1 + 1 := by unfold cx1; rw [armX_far]; rfl
    rw [e]; norm_num
  · show Real.sin (Real.pi / 2 + psi3 pFar) ≠ 0
    rw [psi3_pFar, add_zero, Real.sin_pi_div_two]; exact one_ne_zero
  · show Real.sin (Real.pi / 2) ≠ 0
    rw [Real.sin_pi_div_two]; exact one_ne_zero

/-- … and yet the raw candidate list of its pose contains a repeated vector: the hypotheses of
`candidates_duplicate_of_unreachable` are satisfiable together with `NonSingular` -/
example : NonSingular pFar θFar ∧ ¬ (thetaCandidates pFar (poseOf pFar θFar)).Nodup := by
  refine ⟨nonSingular_far, candidates_duplicate_of_unreachable pFar θFar one_pos
    (by rw [kappa_pFar]; exact one_pos) ?_ ?_⟩
  · have e : cx1 pFar θFar = 1 + 1 := by unfold cx1; rw [armX_far]; rfl
    rw [e]; norm_num
  · unfold otherS2
    rw [armX_far, cz1_far, kappa_pFar]
    have e1 : pFar.a1 = 1 := rfl
    have e2 : pFar.c2 = 1 := rfl
    rw [e1, e2]; norm_num

end Opw.C02c
