/-
  C04b — "If the previous joints already realise the pose and are not wrist-singular they come back
  as the first solution, so a trajectory followed step by step never switches branch."

  All theorems are [R]: the model text of `Kin.lean` evaluated with exact real arithmetic.
  Helper lemmas live in `Lemmas/Corollaries.lean`, `Lemmas/IkComplete.lean`, `Lemmas/Nearest.lean`.

  What is proved, precisely.
  * `prev_first_unconditional` — the one-step statement with `prev` = the point itself: no membership
    hypothesis is left, it is discharged by the completeness theorem of C02b.
  * `first_is_nearest` — sorting by distance to previous: the first answer is a nearest answer.
  * `track_step` — the realistic one-step statement, `prev ≠ q` allowed: the target `q` is IN the
    answer list (completeness + `normalize_near` leaves it alone because every joint moved by at
    most `π`), and it is FIRST provided every other answer is strictly farther from `prev`
    (hypothesis `sep`, the branch-separation condition).  `sep` is a hypothesis, NOT a theorem: for
    a large step another IK branch can be nearer to `prev`, and then the solver does switch branch.
    By `first_is_nearest` the non-strict form of `sep` is also necessary.
  * `track_trajectory` — induction over the list of trajectory points under per-step hypotheses.
-/
import OpwVerif.Lemmas.Corollaries
import OpwVerif.Props.C02b
import OpwVerif.Props.C04
namespace Opw.C04b
open Opw Opw.Wrist Opw.C02 Opw.IkComplete Opw.Corollaries

attribute [-simp] Opw.ofNatLit_real

/-! ### 1. The previous vector, if it realises the pose and is non-singular, comes back first -/

/-- [R] `prev` compliant, every joint in `(−π, π)`, θ of `prev` away from the shoulder, elbow and
wrist singularities, sign corrections `±1`, offsets within the fuel of the normalisation loop,
sorting by distance to previous (no constraints, or weight `BY_PREV`): `inverse_continuing`, asked
for the pose of `prev` with `prev` as previous position, returns `prev` first.
(Statement exactly as requested; `hsol` of `C04.prev_first_of_solution` is discharged by
`IkComplete.ik_roundtrip_intern`.) -/
theorem prev_first_unconditional (k : Opw ℝ) (hs : SignsOk k.p) (hdof : k.p.dof ≠ 5)
    (hmode : k.cons = none ∨ ∃ c, k.cons = some c ∧ c.sortingWeight = byPrev) (prev : J6 ℝ)
    (hcomp : k.compliant prev = true) (hin : InsidePi prev)
    (hoff : Nearest.absLe k.p.offsets 100000) (hns : NonSingular k.p (thetaOf k.p prev)) :
    (k.inverseContinuing (forward k.p prev) prev).head? = some prev :=
  C04.prev_first_of_solution k _ prev hdof hmode hcomp
    (ik_roundtrip_intern k.p hs hoff prev hin hns)

/-- non-vacuity: the robot `pEx` of C02 (mixed signs, offsets, `a2 ≠ 0`), no constraints, the joint
vector `jEx` of C02b -/
example : ((⟨pEx, none⟩ : Opw ℝ).inverseContinuing (forward pEx C02b.jEx) C02b.jEx).head? =
    some C02b.jEx :=
  prev_first_unconditional ⟨pEx, none⟩ C02b.signsOk_pEx (by decide) (Or.inl rfl) C02b.jEx
    (Nearest.compliant_of_none _ _ rfl) C02b.insidePi_jEx C02b.offsets_pEx C02b.nonSingular_ex

/-! ### 2. The first answer is a nearest answer -/

/-- [R] no constraints or weight `BY_PREV`: the sort cost is the L1 distance to `prev` -/
theorem sortCost_eq_distance (k : Opw ℝ)
    (hmode : k.cons = none ∨ ∃ c, k.cons = some c ∧ c.sortingWeight = byPrev) (prev a : J6 ℝ) :
    k.sortCost prev a = calculateDistance a prev := by
  rcases hmode with h | ⟨c, h, hw⟩
  · exact C04.sortCost_none k prev a h
  · exact C04.sortCost_byPrev k c prev a h hw

/-- [R] any sorting weight: the first answer of `inverse_continuing` has the least sort cost -/
theorem first_is_cheapest (k : Opw ℝ) (pose : Iso ℝ) (prev h : J6 ℝ)
    (hh : (k.inverseContinuing pose prev).head? = some h) (s : J6 ℝ)
    (hs : s ∈ k.inverseContinuing pose prev) : k.sortCost prev h ≤ k.sortCost prev s :=
  head_le_of_sorted (k.sortCost prev) _ (C04.inverseContinuing_sorted k pose prev) hh hs

/-- [R] sorting by distance to previous: the first answer of `inverse_continuing` minimises
`calculate_distance(·, prev)` among all returned answers -/
theorem first_is_nearest (k : Opw ℝ) (pose : Iso ℝ) (prev h : J6 ℝ)
    (hmode : k.cons = none ∨ ∃ c, k.cons = some c ∧ c.sortingWeight = byPrev)
    (hh : (k.inverseContinuing pose prev).head? = some h) (s : J6 ℝ)
    (hs : s ∈ k.inverseContinuing pose prev) : calculateDistance h prev ≤ calculateDistance s prev := by
  have := first_is_cheapest k pose prev h hh s hs
  rwa [sortCost_eq_distance k hmode, sortCost_eq_distance k hmode] at this

/-! ### 3. One step of a trajectory -/

/-- [R] The target is among the answers: `q` compliant, inside `(−π, π)`, non-singular, and no joint
more than `π` away from `prev` — then `q` itself (not merely a 2π-representative) is in
`inverse_continuing(forward(q), prev)`.  Any sorting weight. -/
theorem target_mem (k : Opw ℝ) (hs : SignsOk k.p) (hdof : k.p.dof ≠ 5) (prev q : J6 ℝ)
    (hcomp : k.compliant q = true) (hin : InsidePi q) (hoff : Nearest.absLe k.p.offsets 100000)
    (hns : NonSingular k.p (thetaOf k.p q)) (hclose : Nearest.within q prev Real.pi) :
    q ∈ k.inverseContinuing (forward k.p q) prev := by
  have hq := ik_roundtrip_intern k.p hs hoff q hin hns
  have h := (C04.inverseContinuing_superset k _ prev hdof q hq).2
  rw [J6_normalizeNear_of_close q prev hin hclose] at h
  exact h hcomp

/-- [R] One step with `prev ≠ q` allowed.  Under the hypotheses of `target_mem`, sorting by distance
to previous, and the branch-separation condition `hsep` (every OTHER returned answer is strictly
farther from `prev` than `q` is), the first answer is `q`. -/
theorem track_step (k : Opw ℝ) (hs : SignsOk k.p) (hdof : k.p.dof ≠ 5)
    (hmode : k.cons = none ∨ ∃ c, k.cons = some c ∧ c.sortingWeight = byPrev)
    (hoff : Nearest.absLe k.p.offsets 100000) (prev q : J6 ℝ)
    (hcomp : k.compliant q = true) (hin : InsidePi q) (hns : NonSingular k.p (thetaOf k.p q))
    (hclose : Nearest.within q prev Real.pi)
    (hsep : ∀ s ∈ k.inverseContinuing (forward k.p q) prev, s ≠ q →
      calculateDistance q prev < calculateDistance s prev) :
    (k.inverseContinuing (forward k.p q) prev).head? = some q := by
  apply head_eq_of_sorted_of_sep (k.sortCost prev) _ (C04.inverseContinuing_sorted k _ prev)
    (target_mem k hs hdof prev q hcomp hin hoff hns hclose)
  intro s hs' hne
  rw [sortCost_eq_distance k hmode, sortCost_eq_distance k hmode]
  exact hsep s hs' hne

/-- [R] `hsep` is (up to ties) necessary: if `q` comes back first, no answer is strictly nearer -/
theorem sep_necessary (k : Opw ℝ) (pose : Iso ℝ) (prev q : J6 ℝ)
    (hmode : k.cons = none ∨ ∃ c, k.cons = some c ∧ c.sortingWeight = byPrev)
    (hh : (k.inverseContinuing pose prev).head? = some q) :
    ∀ s ∈ k.inverseContinuing pose prev, calculateDistance q prev ≤ calculateDistance s prev :=
  fun s hs => first_is_nearest k pose prev q hmode hh s hs

/-! ### 4. A trajectory followed step by step -/

/-- the per-step hypotheses of `track_step`, for the step from `prev` to `q` -/
structure StepOk (k : Opw ℝ) (prev q : J6 ℝ) : Prop where
  /-- `q` satisfies the joint limits -/
  compliant : k.compliant q = true
  /-- every joint of `q` in `(−π, π)` -/
  inside : InsidePi q
  /-- `q` is not at a shoulder, elbow or wrist singularity -/
  nonsingular : NonSingular k.p (thetaOf k.p q)
  /-- no joint moves by more than `π` -/
  close : Nearest.within q prev Real.pi
  /-- branch separation: every other returned answer is strictly farther from `prev` -/
  sep : ∀ s ∈ k.inverseContinuing (forward k.p q) prev, s ≠ q →
    calculateDistance q prev < calculateDistance s prev

/-- the per-step hypotheses along a whole trajectory: from `q0` to `qs[0]`, from `qs[0]` to `qs[1]`, … -/
def TrackOk (k : Opw ℝ) : J6 ℝ → List (J6 ℝ) → Prop
  | _, [] => True
  | prev, q :: qs => StepOk k prev q ∧ TrackOk k q qs

/-- Following a trajectory: for each point `q` call `inverse_continuing(forward(q), prev)` with
`prev` = the first answer of the previous call (the start vector for the first call; if a call
returns nothing the old `prev` is kept) and record the first answer. -/
noncomputable def follow (k : Opw ℝ) : J6 ℝ → List (J6 ℝ) → List (Option (J6 ℝ))
  | _, [] => []
  | prev, q :: qs =>
    let a := (k.inverseContinuing (forward k.p q) prev).head?
    a :: follow k (a.getD prev) qs

theorem follow_cons (k : Opw ℝ) (prev q : J6 ℝ) (qs : List (J6 ℝ)) :
    follow k prev (q :: qs) =
      (k.inverseContinuing (forward k.p q) prev).head? ::
        follow k (((k.inverseContinuing (forward k.p q) prev).head?).getD prev) qs := rfl

/-- [R] Sign corrections `±1`, offsets within the fuel, not 5-DOF, sorting by distance to previous.
If every step of the trajectory `q0, qs[0], qs[1], …` satisfies `StepOk` (target compliant, inside
`(−π, π)`, non-singular, at most `π` per joint from its predecessor, and separated from the other
answers), then following the trajectory returns exactly the trajectory: the `i`-th first answer is
`qs[i]` — the solver never switches branch. -/
theorem track_trajectory (k : Opw ℝ) (hs : SignsOk k.p) (hdof : k.p.dof ≠ 5)
    (hmode : k.cons = none ∨ ∃ c, k.cons = some c ∧ c.sortingWeight = byPrev)
    (hoff : Nearest.absLe k.p.offsets 100000) :
    ∀ (qs : List (J6 ℝ)) (q0 : J6 ℝ), TrackOk k q0 qs → follow k q0 qs = qs.map some := by
  intro qs
  induction qs with
  | nil => intro q0 _; rfl
  | cons q qs ih =>
    intro q0 h
    obtain ⟨h1, h2⟩ := h
    have e := track_step k hs hdof hmode hoff q0 q h1.compliant h1.inside h1.nonsingular h1.close h1.sep
    rw [follow_cons, e, Option.getD_some, ih q h2]
    rfl

/-- [R] index form -/
theorem track_trajectory_get (k : Opw ℝ) (hs : SignsOk k.p) (hdof : k.p.dof ≠ 5)
    (hmode : k.cons = none ∨ ∃ c, k.cons = some c ∧ c.sortingWeight = byPrev)
    (hoff : Nearest.absLe k.p.offsets 100000) (qs : List (J6 ℝ)) (q0 : J6 ℝ) (h : TrackOk k q0 qs)
    (i : ℕ) (hi : i < qs.length) : (follow k q0 qs)[i]? = some (some qs[i]) := by
  rw [track_trajectory k hs hdof hmode hoff qs q0 h, List.getElem?_map, List.getElem?_eq_getElem hi]
  rfl

/-- [R] a step that does not move satisfies `StepOk` with NO separation hypothesis: every other
answer is at a positive distance.  (So `prev_first_unconditional` is the stationary case of
`track_step`.) -/
theorem stepOk_self (k : Opw ℝ) (q : J6 ℝ) (hcomp : k.compliant q = true) (hin : InsidePi q)
    (hns : NonSingular k.p (thetaOf k.p q)) : StepOk k q q := by
  refine ⟨hcomp, hin, hns, within_self q, ?_⟩
  intro s _ hne
  rw [Nearest.calculateDistance_self]
  apply lt_of_le_of_ne (Nearest.calculateDistance_nonneg s q)
  intro h0
  exact hne ((Nearest.calculateDistance_eq_zero_iff s q).mp h0.symm)

/-- non-vacuity: the hypotheses of `track_trajectory` are jointly satisfiable (robot `pEx`, a
trajectory that dwells at `jEx`), and its conclusion for that instance -/
example : TrackOk ⟨pEx, none⟩ C02b.jEx [C02b.jEx, C02b.jEx] :=
  have h := stepOk_self ⟨pEx, none⟩ C02b.jEx (Nearest.compliant_of_none _ _ rfl) C02b.insidePi_jEx
    C02b.nonSingular_ex
  ⟨h, h, trivial⟩

example : follow ⟨pEx, none⟩ C02b.jEx [C02b.jEx, C02b.jEx] = [some C02b.jEx, some C02b.jEx] :=
  have h := stepOk_self ⟨pEx, none⟩ C02b.jEx (Nearest.compliant_of_none _ _ rfl) C02b.insidePi_jEx
    C02b.nonSingular_ex
  track_trajectory ⟨pEx, none⟩ C02b.signsOk_pEx (by decide) (Or.inl rfl) C02b.offsets_pEx _ _
    ⟨h, h, trivial⟩

end Opw.C04b
