/-
  C16 — Parallelogram coupling.

  "For any coupling (driven joint, coupled joint, scaling), the wrapped robot's forward pose is the
  inner robot's pose at the joint vector with the coupled joint reduced by scaling times the driven
  joint, the same holds for all link poses, and every answer of every inverse entry point maps back
  through the wrapper's forward onto the requested pose; stacking two couplings composes."

  Joint indices address SLOTS: `J6.get`/`J6.set` treat every index `≥ 5` as joint 6, so the
  round trip needs `slot driven ≠ slot coupled` (`slot n = min n 5`), not just `driven ≠ coupled`.
  Property theorems only; helpers (`slot`, `paraUncouple_paraCouple`, …) live in `Lemmas/Stack.lean`.
  Kinds: [R] real arithmetic, [G] generic (any number type, holds of the Float reading itself).
-/
import OpwVerif.Lemmas.Stack
namespace Opw.C16
open Opw

/-! ### 1 — forward and link poses -/

section Forward
variable {R : Type} [OpwNum R] (i : Kin R) (s : R) (d c : Nat) (q : J6 R)

/-- [G] forward pose = inner pose at the uncoupled joint vector -/
theorem para_forward : (Kin.para i s d c).forward q = i.forward (paraUncouple s d c q) := rfl

/-- [G] all link poses likewise -/
theorem para_links : (Kin.para i s d c).links q = i.links (paraUncouple s d c q) := rfl

/-- [G] the uncoupled vector: the coupled joint reduced by `scaling * driven`, all others kept -/
theorem paraUncouple_def : paraUncouple s d c q = q.set c (q.get c - s * q.get d) := rfl
/-- [G] -/
theorem paraCouple_def : paraCouple s d c q = q.set c (q.get c + s * q.get d) := rfl

end Forward

/-! ### 2 — couple / uncouple round trip -/

/-- [G] the slot an index addresses -/
theorem slot_def (n : Nat) : slot n = min n 5 := rfl

/-- [G] indices address slots: only `slot n` matters -/
theorem get_set_slot {R : Type} (q : J6 R) (v : R) (n : Nat) :
    q.get (slot n) = q.get n ∧ q.set (slot n) v = q.set n v :=
  ⟨J6.get_slot q n, J6.set_slot q v n⟩

/-- [R] For any scaling and any driven / coupled indices addressing different slots, coupling and
uncoupling are inverse to each other (both directions). -/
theorem para_roundtrip (s : ℝ) (d c : Nat) (h : slot d ≠ slot c) (x : J6 ℝ) :
    paraUncouple s d c (paraCouple s d c x) = x ∧ paraCouple s d c (paraUncouple s d c x) = x :=
  ⟨paraUncouple_paraCouple s d c h x, paraCouple_paraUncouple s d c h x⟩

/-- [R] the condition is on slots: distinct indices `≥ 5` both mean joint 6 and do NOT round-trip;
e.g. `driven = 5`, `coupled = 6`, scaling 1 sends joint 6 from 1 to 0. -/
example : (5 : Nat) ≠ 6 ∧ paraUncouple (1 : ℝ) 5 6 (paraCouple 1 5 6 ⟨0, 0, 0, 0, 0, 1⟩) ≠ ⟨0, 0, 0, 0, 0, 1⟩ := by
  refine ⟨by decide, fun h => ?_⟩
  have h6 := congrArg J6.j6 h
  simp only [paraUncouple, paraCouple, J6.get, J6.set] at h6
  norm_num at h6

/-- [R] counter-example kept for `driven = coupled`: with scaling 1 on joint 1 the couple step doubles
the joint and the uncouple step subtracts the doubled value from itself. -/
example : paraCouple (1 : ℝ) 0 0 ⟨1, 0, 0, 0, 0, 0⟩ = ⟨2, 0, 0, 0, 0, 0⟩ ∧
    paraUncouple (1 : ℝ) 0 0 (paraCouple 1 0 0 ⟨1, 0, 0, 0, 0, 0⟩) = ⟨0, 0, 0, 0, 0, 0⟩ ∧
    paraUncouple (1 : ℝ) 0 0 (paraCouple 1 0 0 ⟨1, 0, 0, 0, 0, 0⟩) ≠ ⟨1, 0, 0, 0, 0, 0⟩ := by
  have h1 : paraCouple (1 : ℝ) 0 0 ⟨1, 0, 0, 0, 0, 0⟩ = ⟨2, 0, 0, 0, 0, 0⟩ := by
    apply J6.ext' <;> simp only [paraCouple, J6.get, J6.set]; norm_num
  have h2 : paraUncouple (1 : ℝ) 0 0 ⟨2, 0, 0, 0, 0, 0⟩ = ⟨0, 0, 0, 0, 0, 0⟩ := by
    apply J6.ext' <;> simp only [paraUncouple, J6.get, J6.set]; norm_num
  refine ⟨h1, by rw [h1, h2], ?_⟩
  rw [h1, h2]
  intro h
  have := congrArg J6.j1 h
  norm_num at this

/-- [R] in general for `driven = coupled` (same slot) the round trip scales the joint by `1 - s²` -/
theorem para_roundtrip_same_slot (s : ℝ) (x : J6 ℝ) :
    (paraUncouple s 0 0 (paraCouple s 0 0 x)).j1 = (1 - s * s) * x.j1 := by
  simp only [paraUncouple, paraCouple, J6.get, J6.set]; ring

/-! ### 3 — every answer maps back through the wrapper's forward -/

section MapsBack

/-- [G] the answer lists: the inner robot's answers, coupled (any number type) -/
theorem para_answers {R : Type} [OpwNum R] (i : Kin R) (sc : R) (d c : Nat) (pose : Iso R)
    (prev : J6 R) (j6 : R) :
    (Kin.para i sc d c).inverse pose = (i.inverse pose).map (paraCouple sc d c) ∧
    (Kin.para i sc d c).inverseContinuing pose prev =
      (i.inverseContinuing pose prev).map (paraCouple sc d c) ∧
    (Kin.para i sc d c).inverse5dof pose j6 = (i.inverse5dof pose j6).map (paraCouple sc d c) ∧
    (Kin.para i sc d c).inverseContinuing5dof pose prev =
      (i.inverseContinuing5dof pose prev).map (paraCouple sc d c) :=
  ⟨rfl, rfl, rfl, rfl⟩

/-- [G] singularity verdict and constraints are passed through unchanged (note: the singularity
verdict is asked of the inner robot at the COUPLED vector) -/
theorem para_singularity_constraints {R : Type} [OpwNum R] (i : Kin R) (sc : R) (d c : Nat)
    (q : J6 R) :
    (Kin.para i sc d c).singularity q = i.singularity q ∧
    (Kin.para i sc d c).constraints = i.constraints := ⟨rfl, rfl⟩

variable (i : Kin ℝ) (sc : ℝ) (d c : Nat) (pose : Iso ℝ) (prev : J6 ℝ) (j6 : ℝ)

/-- [R] the wrapper's forward at a coupled vector is the inner forward at the original vector -/
theorem para_forward_couple (h : slot d ≠ slot c) (s0 : J6 ℝ) :
    (Kin.para i sc d c).forward (paraCouple sc d c s0) = i.forward s0 := by
  show i.forward (paraUncouple sc d c (paraCouple sc d c s0)) = i.forward s0
  rw [paraUncouple_paraCouple sc d c h]

/-- [R] `inverse`: every answer is a coupled inner answer `s0`, and the wrapper's forward at the
answer equals the inner robot's forward at `s0` — so whatever `i.forward s0` satisfies with respect
to `pose`, the wrapper's forward satisfies too. -/
theorem para_answers_map_back (h : slot d ≠ slot c) (s : J6 ℝ)
    (hs : s ∈ (Kin.para i sc d c).inverse pose) :
    ∃ s0 ∈ i.inverse pose, s = paraCouple sc d c s0 ∧ (Kin.para i sc d c).forward s = i.forward s0 := by
  obtain ⟨s0, h0, rfl⟩ := List.mem_map.mp hs
  exact ⟨s0, h0, rfl, para_forward_couple i sc d c h s0⟩

/-- [R] `inverse_continuing` -/
theorem para_answers_map_back_continuing (h : slot d ≠ slot c) (s : J6 ℝ)
    (hs : s ∈ (Kin.para i sc d c).inverseContinuing pose prev) :
    ∃ s0 ∈ i.inverseContinuing pose prev,
      s = paraCouple sc d c s0 ∧ (Kin.para i sc d c).forward s = i.forward s0 := by
  obtain ⟨s0, h0, rfl⟩ := List.mem_map.mp hs
  exact ⟨s0, h0, rfl, para_forward_couple i sc d c h s0⟩

/-- [R] `inverse_5dof` -/
theorem para_answers_map_back_5dof (h : slot d ≠ slot c) (s : J6 ℝ)
    (hs : s ∈ (Kin.para i sc d c).inverse5dof pose j6) :
    ∃ s0 ∈ i.inverse5dof pose j6,
      s = paraCouple sc d c s0 ∧ (Kin.para i sc d c).forward s = i.forward s0 := by
  obtain ⟨s0, h0, rfl⟩ := List.mem_map.mp hs
  exact ⟨s0, h0, rfl, para_forward_couple i sc d c h s0⟩

/-- [R] `inverse_continuing_5dof` -/
theorem para_answers_map_back_continuing5dof (h : slot d ≠ slot c) (s : J6 ℝ)
    (hs : s ∈ (Kin.para i sc d c).inverseContinuing5dof pose prev) :
    ∃ s0 ∈ i.inverseContinuing5dof pose prev,
      s = paraCouple sc d c s0 ∧ (Kin.para i sc d c).forward s = i.forward s0 := by
  obtain ⟨s0, h0, rfl⟩ := List.mem_map.mp hs
  exact ⟨s0, h0, rfl, para_forward_couple i sc d c h s0⟩

/-- [R] Headline: any relation `P pose ·` that the inner robot's forward satisfies at all of its
answers (equality with the pose, same rigid motion, within tolerance, …) the wrapper's forward
satisfies at all of its answers — for all four entry points. -/
theorem para_maps_back (h : slot d ≠ slot c) (P : Iso ℝ → Iso ℝ → Prop) :
    ((∀ s0 ∈ i.inverse pose, P pose (i.forward s0)) →
      ∀ s ∈ (Kin.para i sc d c).inverse pose, P pose ((Kin.para i sc d c).forward s)) ∧
    ((∀ s0 ∈ i.inverseContinuing pose prev, P pose (i.forward s0)) →
      ∀ s ∈ (Kin.para i sc d c).inverseContinuing pose prev,
        P pose ((Kin.para i sc d c).forward s)) ∧
    ((∀ s0 ∈ i.inverse5dof pose j6, P pose (i.forward s0)) →
      ∀ s ∈ (Kin.para i sc d c).inverse5dof pose j6, P pose ((Kin.para i sc d c).forward s)) ∧
    ((∀ s0 ∈ i.inverseContinuing5dof pose prev, P pose (i.forward s0)) →
      ∀ s ∈ (Kin.para i sc d c).inverseContinuing5dof pose prev,
        P pose ((Kin.para i sc d c).forward s)) := by
  refine ⟨fun H s hs => ?_, fun H s hs => ?_, fun H s hs => ?_, fun H s hs => ?_⟩
  · obtain ⟨s0, h0, _, hf⟩ := para_answers_map_back i sc d c pose h s hs
    rw [hf]; exact H s0 h0
  · obtain ⟨s0, h0, _, hf⟩ := para_answers_map_back_continuing i sc d c pose prev h s hs
    rw [hf]; exact H s0 h0
  · obtain ⟨s0, h0, _, hf⟩ := para_answers_map_back_5dof i sc d c pose j6 h s hs
    rw [hf]; exact H s0 h0
  · obtain ⟨s0, h0, _, hf⟩ := para_answers_map_back_continuing5dof i sc d c pose prev h s hs
    rw [hf]; exact H s0 h0

/-- [R] in particular exact reproduction of the pose is inherited -/
theorem para_maps_back_eq (h : slot d ≠ slot c) (H : ∀ s0 ∈ i.inverse pose, i.forward s0 = pose) :
    ∀ s ∈ (Kin.para i sc d c).inverse pose, (Kin.para i sc d c).forward s = pose := by
  intro s hs
  obtain ⟨s0, h0, _, hf⟩ := para_answers_map_back i sc d c pose h s hs
  rw [hf]; exact H s0 h0

/-- [R] link poses at an answer are the inner link poses at the inner answer -/
theorem para_links_couple (h : slot d ≠ slot c) (s0 : J6 ℝ) :
    (Kin.para i sc d c).links (paraCouple sc d c s0) = i.links s0 := by
  show i.links (paraUncouple sc d c (paraCouple sc d c s0)) = i.links s0
  rw [paraUncouple_paraCouple sc d c h]

end MapsBack

/-! ### 4 — stacking two couplings composes -/

section Compose
variable {R : Type} [OpwNum R] (i : Kin R) (s1 s2 : R) (d1 c1 d2 c2 : Nat)

/-- [G] forward: uncouple the outer coupling first, then the inner one -/
theorem para_compose (q : J6 R) :
    (Kin.para (Kin.para i s1 d1 c1) s2 d2 c2).forward q =
      i.forward (paraUncouple s1 d1 c1 (paraUncouple s2 d2 c2 q)) := rfl

/-- [G] links likewise -/
theorem para_compose_links (q : J6 R) :
    (Kin.para (Kin.para i s1 d1 c1) s2 d2 c2).links q =
      i.links (paraUncouple s1 d1 c1 (paraUncouple s2 d2 c2 q)) := rfl

/-- [G] inverse direction: couple the inner coupling first, then the outer one (all four entry
points) -/
theorem para_compose_inverse (pose : Iso R) (prev : J6 R) (j6 : R) :
    (Kin.para (Kin.para i s1 d1 c1) s2 d2 c2).inverse pose =
      (i.inverse pose).map (fun s0 => paraCouple s2 d2 c2 (paraCouple s1 d1 c1 s0)) ∧
    (Kin.para (Kin.para i s1 d1 c1) s2 d2 c2).inverseContinuing pose prev =
      (i.inverseContinuing pose prev).map (fun s0 => paraCouple s2 d2 c2 (paraCouple s1 d1 c1 s0)) ∧
    (Kin.para (Kin.para i s1 d1 c1) s2 d2 c2).inverse5dof pose j6 =
      (i.inverse5dof pose j6).map (fun s0 => paraCouple s2 d2 c2 (paraCouple s1 d1 c1 s0)) ∧
    (Kin.para (Kin.para i s1 d1 c1) s2 d2 c2).inverseContinuing5dof pose prev =
      (i.inverseContinuing5dof pose prev).map
        (fun s0 => paraCouple s2 d2 c2 (paraCouple s1 d1 c1 s0)) := by
  refine ⟨?_, ?_, ?_, ?_⟩
  · show ((i.inverse pose).map (paraCouple s1 d1 c1)).map (paraCouple s2 d2 c2) = _
    rw [List.map_map]; rfl
  · show ((i.inverseContinuing pose prev).map (paraCouple s1 d1 c1)).map (paraCouple s2 d2 c2) = _
    rw [List.map_map]; rfl
  · show ((i.inverse5dof pose j6).map (paraCouple s1 d1 c1)).map (paraCouple s2 d2 c2) = _
    rw [List.map_map]; rfl
  · show ((i.inverseContinuing5dof pose prev).map (paraCouple s1 d1 c1)).map
      (paraCouple s2 d2 c2) = _
    rw [List.map_map]; rfl

/-- [G] every answer of the double wrapper has the composed form -/
theorem para_compose_answers (pose : Iso R) (s : J6 R)
    (hs : s ∈ (Kin.para (Kin.para i s1 d1 c1) s2 d2 c2).inverse pose) :
    ∃ s0 ∈ i.inverse pose, s = paraCouple s2 d2 c2 (paraCouple s1 d1 c1 s0) := by
  rw [(para_compose_inverse i s1 s2 d1 c1 d2 c2 pose s 0).1] at hs
  obtain ⟨s0, h0, rfl⟩ := List.mem_map.mp hs
  exact ⟨s0, h0, rfl⟩

end Compose

/-- [R] and the composed answer maps back through the double wrapper's forward -/
theorem para_compose_maps_back (i : Kin ℝ) (s1 s2 : ℝ) (d1 c1 d2 c2 : Nat)
    (h1 : slot d1 ≠ slot c1) (h2 : slot d2 ≠ slot c2) (s0 : J6 ℝ) :
    (Kin.para (Kin.para i s1 d1 c1) s2 d2 c2).forward
      (paraCouple s2 d2 c2 (paraCouple s1 d1 c1 s0)) = i.forward s0 := by
  rw [para_compose, paraUncouple_paraCouple s2 d2 c2 h2, paraUncouple_paraCouple s1 d1 c1 h1]

/-! ### 5 — concrete instances -/

/-- the usual parallelogram: joint 3 coupled to joint 2 with scaling 1 (indices 1 and 2) -/
example (x : J6 ℝ) :
    paraCouple (1 : ℝ) 1 2 x = ⟨x.j1, x.j2, x.j3 + x.j2, x.j4, x.j5, x.j6⟩ ∧
    paraUncouple (1 : ℝ) 1 2 x = ⟨x.j1, x.j2, x.j3 - x.j2, x.j4, x.j5, x.j6⟩ := by
  constructor <;> apply J6.ext' <;> simp only [paraCouple, paraUncouple, J6.get, J6.set] <;> ring

example (i : Kin ℝ) (q : J6 ℝ) :
    (Kin.para i 1 1 2).forward q = i.forward ⟨q.j1, q.j2, q.j3 - 1 * q.j2, q.j4, q.j5, q.j6⟩ := rfl

example (x : J6 ℝ) :
    paraUncouple (1 : ℝ) 1 2 (paraCouple 1 1 2 x) = x ∧ paraCouple (1 : ℝ) 1 2 (paraUncouple 1 1 2 x) = x :=
  para_roundtrip 1 1 2 (by decide) x

example (i : Kin ℝ) (pose : Iso ℝ) (s : J6 ℝ) (hs : s ∈ (Kin.para i 1 1 2).inverse pose) :
    ∃ s0 ∈ i.inverse pose, s = paraCouple 1 1 2 s0 ∧ (Kin.para i 1 1 2).forward s = i.forward s0 :=
  para_answers_map_back i 1 1 2 pose (by decide) s hs

/-- an out-of-range coupled index addresses joint 6 -/
example (i : Kin ℝ) (s0 : J6 ℝ) :
    (Kin.para i 2 0 7).forward (paraCouple 2 0 7 s0) = i.forward s0 :=
  para_forward_couple i 2 0 7 (by decide) s0

/-- two couplings: (1 → 2, scaling 1) inside (0 → 3, scaling 1/2) -/
example (i : Kin ℝ) (s0 : J6 ℝ) :
    (Kin.para (Kin.para i 1 1 2) (1 / 2) 0 3).forward
      (paraCouple (1 / 2) 0 3 (paraCouple 1 1 2 s0)) = i.forward s0 :=
  para_compose_maps_back i 1 (1 / 2) 1 2 0 3 (by decide) (by decide) s0

/-- the generic statements hold of the `Float` reading: the coupled answers of a `Float` stack -/
example : (Kin.para Ex.stack6 0.5 1 2).inverse Ex.pose =
    (Ex.stack6.inverse Ex.pose).map (paraCouple 0.5 1 2) :=
  (para_answers Ex.stack6 0.5 1 2 Ex.pose Ex.prev 0).1

end Opw.C16
